(* C02 (malleable mode, table level), thresh(k, ...) with k < n included.
   The model's thresh_mall sorts the children by (satisfaction weight - dissatisfaction weight),
   with the sentinels i64::MAX (no satisfaction) and i64::MIN (satisfaction, no dissatisfaction),
   and satisfies the first k.  Completeness: when the specification table has an entry (some
   k children satisfiable from the assets, the others dissatisfiable), the selected k children all
   have a satisfaction and the remaining ones all have a dissatisfaction.  The argument is a
   counting argument over the sorted order; it needs the real weights to lie strictly between
   the two sentinels (no i64 overflow of `witness_size as i64 - witness_size as i64`):
   [thresh_fit].  [fit_of_bound] discharges that hypothesis from a syntactic bound. *)
From Verif Require Import Exec Ser Ast Types TypeCheck SatSpec Sat ExecLemmas TheoremA SatProofs CompleteProofs.
From Coq Require Import Lia Permutation Sorted ZArith.

(* ---------- the stable insertion sort sorts ---------- *)
Section SortGen.
  Variable K : Type.
  Variable le : K -> K -> bool.
  Hypothesis le_total : forall a b, le a b = false -> le b a = true.
  Hypothesis le_trans : forall a b c, le a b = true -> le b c = true -> le a c = true.
  Definition kle (a b : nat * K) : Prop := le (snd a) (snd b) = true.

  Lemma insert_in x l z : In z (insert_by le x l) -> z = x \/ In z l.
  Proof.
    induction l as [|y r IH]; cbn [insert_by]; intros H.
    - destruct H as [H|[]]; auto.
    - destruct (le (snd y) (snd x)).
      + destruct H as [H|H]; [right; left; exact H|]. destruct (IH H); [left | right; right]; assumption.
      + destruct H as [H|H]; [left; auto | right; exact H].
  Qed.
  Lemma insert_sorted x l : StronglySorted kle l -> StronglySorted kle (insert_by le x l).
  Proof.
    induction 1 as [|y r Hr IH Hy]; cbn [insert_by].
    - constructor; constructor.
    - destruct (le (snd y) (snd x)) eqn:E.
      + constructor; [exact IH|]. apply Forall_forall. intros z Hz. apply insert_in in Hz. destruct Hz as [->|Hz]; [exact E|].
        rewrite Forall_forall in Hy. apply Hy, Hz.
      + apply le_total in E. constructor; [constructor; assumption|]. constructor; [exact E|].
        rewrite Forall_forall in *. intros z Hz. eapply le_trans; [exact E | apply Hy, Hz].
  Qed.
  Lemma sort_sorted l : StronglySorted kle (sort_by le l).
  Proof.
    unfold sort_by.
    assert (H : forall acc, StronglySorted kle acc -> StronglySorted kle (fold_left (fun a x => insert_by le x a) l acc)).
    { induction l as [|x r IH]; intros acc Ha; cbn [fold_left]; [exact Ha|]. apply IH, insert_sorted, Ha. }
    apply H. constructor.
  Qed.

  Variable g : nat -> K.
  Definition ordered (n : nat) : list nat := map fst (sort_by le (map (fun i => (i, g i)) (seq 0 n))).
  Definition gle (i j : nat) : Prop := le (g i) (g j) = true.
  Lemma ordered_sorted n : StronglySorted gle (ordered n).
  Proof.
    unfold ordered. set (L := sort_by le _).
    assert (HS : StronglySorted kle L) by apply sort_sorted.
    assert (HG : Forall (fun p => snd p = g (fst p)) L).
    { apply Forall_forall. intros p Hp. unfold L in Hp. eapply Permutation_in in Hp; [|apply sort_perm].
      apply in_map_iff in Hp. destruct Hp as [i [<- _]]. reflexivity. }
    clearbody L. induction HS as [|p r Hr IH Hp]; cbn [map]; [constructor|].
    inversion HG as [|? ? Hp1 Hr1]; subst. constructor; [apply IH, Hr1|].
    rewrite Forall_forall in Hp, Hr1. apply Forall_forall. intros j Hj. apply in_map_iff in Hj. destruct Hj as [q [<- Hq]].
    unfold gle. rewrite <- Hp1, <- (Hr1 q Hq). apply Hp, Hq.
  Qed.
  Lemma ordered_perm n : Permutation (ordered n) (seq 0 n).
  Proof. apply order_perm. Qed.
End SortGen.

Lemma sorted_split (X : Type) (R : X -> X -> Prop) (l : list X) : StronglySorted R l ->
  forall k a b, In a (firstn k l) -> In b (skipn k l) -> R a b.
Proof.
  induction 1 as [|x r Hr IH Hx]; intros k a b Ha Hb.
  - destruct k; cbn in Ha; contradiction.
  - destruct k as [|k]; cbn [firstn skipn] in *; [contradiction|].
    destruct Ha as [<-|Ha]; [|eapply IH; eassumption].
    rewrite Forall_forall in Hx. apply Hx. rewrite <- (firstn_skipn k r). apply in_or_app. right. exact Hb.
Qed.

(* ---------- counting ---------- *)
Definition cnt {X} (f : X -> bool) (l : list X) : nat := length (filter f l).
Lemma cnt_app {X} (f : X -> bool) a b : cnt f (a ++ b) = (cnt f a + cnt f b)%nat.
Proof. unfold cnt. rewrite filter_app, app_length. reflexivity. Qed.
Lemma cnt_perm {X} (f : X -> bool) a b : Permutation a b -> cnt f a = cnt f b.
Proof.
  unfold cnt. induction 1 as [|x a b Hp IH|x y a|a b c H1 IH1 H2 IH2]; cbn [filter]; try lia.
  - destruct (f x); cbn [length]; lia.
  - destruct (f x), (f y); reflexivity.
Qed.
Lemma cnt_le {X} (f g : X -> bool) l : (forall x, In x l -> f x = true -> g x = true) -> (cnt f l <= cnt g l)%nat.
Proof.
  unfold cnt. induction l as [|x r IH]; intros H; [cbn; lia|]. cbn [filter].
  assert (IH' : (length (filter f r) <= length (filter g r))%nat) by (apply IH; intros y Hy; apply H; right; exact Hy).
  destruct (f x) eqn:Ef.
  - rewrite (H x (or_introl eq_refl) Ef). cbn [length]. lia.
  - destruct (g x); cbn [length]; lia.
Qed.
Lemma cnt_all {X} (f : X -> bool) l : (forall x, In x l -> f x = true) -> cnt f l = length l.
Proof.
  unfold cnt. induction l as [|x r IH]; intros H; [reflexivity|]. cbn [filter]. rewrite (H x (or_introl eq_refl)).
  cbn [length]. rewrite IH; [reflexivity|]. intros y Hy. apply H. right. exact Hy.
Qed.
Lemma cnt_pos {X} (f : X -> bool) l x : In x l -> f x = true -> (1 <= cnt f l)%nat.
Proof.
  unfold cnt. intros Hi Hf. assert (Hin : In x (filter f l)) by (apply filter_In; split; assumption).
  destruct (filter f l); [contradiction | cbn; lia].
Qed.

(* a selection mask: which children the table entry satisfies *)
Fixpoint ctrue (M : list bool) : nat := match M with [] => 0 | b :: r => ((if b then 1 else 0) + ctrue r)%nat end.
Lemma ctrue_le M : (ctrue M <= length M)%nat.
Proof. induction M as [|b r IH]; cbn [ctrue length]; [lia|]. destruct b; lia. Qed.

Lemma cnt_mask_gen (p : bool -> bool) M : forall a,
  cnt (fun i => p (nth (i - a) M false)) (seq a (length M)) = cnt p M.
Proof.
  induction M as [|b r IH]; intros a; [reflexivity|]. cbn [length seq]. unfold cnt in *. cbn [filter].
  assert (E : filter (fun i => p (nth (i - a) (b :: r) false)) (seq (S a) (length r))
            = filter (fun i => p (nth (i - S a) r false)) (seq (S a) (length r))).
  { apply filter_ext_in. intros i Hi. apply in_seq in Hi. replace (i - a)%nat with (S (i - S a)) by lia. reflexivity. }
  rewrite E. rewrite Nat.sub_diag. cbn [nth]. destruct (p b); cbn [length]; rewrite IH; reflexivity.
Qed.
Lemma cnt_id_ctrue M : cnt (fun b : bool => b) M = ctrue M.
Proof. unfold cnt. induction M as [|b r IH]; [reflexivity|]. cbn [filter ctrue]. destruct b; cbn [length]; rewrite IH; reflexivity. Qed.
Lemma cnt_negb_ctrue M : (cnt negb M + ctrue M = length M)%nat.
Proof. unfold cnt. induction M as [|b r IH]; [reflexivity|]. cbn [filter ctrue length]. destruct b; cbn [negb length]; lia. Qed.
Lemma cnt_mask_true M : cnt (fun i => nth i M false) (seq 0 (length M)) = ctrue M.
Proof.
  rewrite <- cnt_id_ctrue, <- (cnt_mask_gen (fun b => b) M 0). unfold cnt. f_equal. apply filter_ext. intros i. rewrite Nat.sub_0_r. reflexivity.
Qed.
Lemma cnt_mask_false M : (cnt (fun i => negb (nth i M false)) (seq 0 (length M)) + ctrue M = length M)%nat.
Proof.
  pose proof (cnt_negb_ctrue M) as H. rewrite <- (cnt_mask_gen negb M 0) in H.
  assert (E : cnt (fun i => negb (nth i M false)) (seq 0 (length M)) = cnt (fun i => negb (nth (i - 0) M false)) (seq 0 (length M))).
  { unfold cnt. f_equal. apply filter_ext. intros i. rewrite Nat.sub_0_r. reflexivity. }
  rewrite E. exact H.
Qed.

(* the table's thresh entry yields a mask *)
Lemma comb_mask (cs : list (list wit * list wit)) : forall k, thresh_comb k cs <> [] ->
  exists M, length M = length cs /\ ctrue M = k /\
    forall i, (i < length cs)%nat ->
      if nth i M false then fst (nth i cs ([], [])) <> [] else snd (nth i cs ([], [])) <> [].
Proof.
  induction cs as [|[s d] r IH]; intros k H; cbn [thresh_comb] in H.
  - destruct k; [|exfalso; apply H; reflexivity]. exists []. cbn. repeat split; auto. intros i Hi; lia.
  - apply app_nonempty in H. destruct H as [H|H].
    + destruct k as [|k']; [exfalso; apply H; reflexivity|]. apply cross_nonempty in H. destruct H as [Hs Hr].
      destruct (IH k' Hr) as [M [HL [HC HM]]]. exists (true :: M). cbn [length ctrue]. repeat split; try lia.
      intros [|i] Hi; cbn [nth fst]; [exact Hs | apply HM; cbn [length] in Hi; lia].
    + apply cross_nonempty in H. destruct H as [Hd Hr].
      destruct (IH k Hr) as [M [HL [HC HM]]]. exists (false :: M). cbn [length ctrue]. repeat split; try lia.
      intros [|i] Hi; cbn [nth snd]; [exact Hd | apply HM; cbn [length] in Hi; lia].
Qed.

(* ---------- the selection lemma ---------- *)
Lemma zle_total a b : zle a b = false -> zle b a = true.
Proof. unfold zle. intros H. apply Z.leb_gt in H. apply Z.leb_le. lia. Qed.
Lemma zle_trans a b c : zle a b = true -> zle b c = true -> zle a c = true.
Proof. unfold zle. intros H1 H2. apply Z.leb_le in H1, H2. apply Z.leb_le. lia. Qed.

Lemma select_mall (n k : nat) (w : nat -> Z) (U D : nat -> bool) (M : list bool) :
  (forall i, (i < n)%nat -> U i = true -> w i = I64MAX) ->
  (forall i, (i < n)%nat -> U i = false -> D i = true -> w i = I64MIN) ->
  (forall i, (i < n)%nat -> U i = false -> D i = false -> (I64MIN < w i < I64MAX)%Z) ->
  length M = n -> ctrue M = k ->
  (forall i, (i < n)%nat -> nth i M false = true -> U i = false) ->
  (forall i, (i < n)%nat -> nth i M false = false -> D i = false) ->
  let order := ordered Z zle w n in
  (forall i, In i (firstn k order) -> U i = false) /\
  (forall i, (i < n)%nat -> ~ In i (firstn k order) -> D i = false).
Proof.
  intros HU HD HS HL HC HMt HMf order.
  assert (Hperm : Permutation order (seq 0 n)) by apply ordered_perm.
  assert (Hsort : StronglySorted (gle Z zle w) order) by (apply ordered_sorted; [exact zle_total | exact zle_trans]).
  assert (Hlt : forall i, In i order -> (i < n)%nat).
  { intros i Hi. eapply Permutation_in in Hi; [|exact Hperm]. apply in_seq in Hi. lia. }
  assert (Hk : (k <= n)%nat) by (rewrite <- HC, <- HL; apply ctrue_le).
  set (C := firstn k order). set (R := skipn k order).
  assert (HCR : order = C ++ R) by (symmetry; apply firstn_skipn).
  assert (Hlo : length order = n) by (rewrite (Permutation_length Hperm); apply seq_length).
  assert (HlenC : length C = k) by (apply firstn_length_le; lia).
  assert (HlenR : (length R = n - k)%nat) by (unfold R; rewrite skipn_length; lia).
  assert (HinC : forall i, In i C -> In i order) by (intros i Hi; rewrite HCR; apply in_or_app; left; exact Hi).
  assert (HinR : forall i, In i R -> In i order) by (intros i Hi; rewrite HCR; apply in_or_app; right; exact Hi).
  assert (Hsplit : forall c r, In c C -> In r R -> (w c <= w r)%Z).
  { intros c r Hc Hr. pose proof (sorted_split _ _ _ Hsort k c r Hc Hr) as G. unfold gle, zle in G. apply Z.leb_le in G. exact G. }
  assert (HcU : (cnt U (seq 0 n) + k <= n)%nat).
  { assert (G : (cnt U (seq 0 n) <= cnt (fun i => negb (nth i M false)) (seq 0 n))%nat).
    { apply cnt_le. intros i Hi Hu. apply in_seq in Hi. destruct (nth i M false) eqn:E; [|reflexivity].
      rewrite (HMt i ltac:(lia) E) in Hu. discriminate. }
    pose proof (cnt_mask_false M) as G2. rewrite HL, HC in G2. lia. }
  assert (HcD : (cnt D (seq 0 n) <= k)%nat).
  { assert (G : (cnt D (seq 0 n) <= cnt (fun i => nth i M false) (seq 0 n))%nat).
    { apply cnt_le. intros i Hi Hd. apply in_seq in Hi. destruct (nth i M false) eqn:E; [reflexivity|].
      rewrite (HMf i ltac:(lia) E) in Hd. discriminate. }
    pose proof (cnt_mask_true M) as G2. rewrite HL, HC in G2. lia. }
  rewrite <- (cnt_perm U _ _ Hperm) in HcU. rewrite <- (cnt_perm D _ _ Hperm) in HcD.
  rewrite HCR, cnt_app in HcU, HcD.
  split.
  - intros i Hi. destruct (U i) eqn:Eu; [exfalso | reflexivity].
    assert (Hwi : w i = I64MAX) by (apply HU; [apply Hlt, HinC, Hi | exact Eu]).
    assert (HR : cnt U R = length R).
    { apply cnt_all. intros r Hr. pose proof (Hsplit i r Hi Hr) as G. rewrite Hwi in G.
      assert (Hrn : (r < n)%nat) by apply Hlt, HinR, Hr.
      destruct (U r) eqn:Eur; [reflexivity|]. destruct (D r) eqn:Edr.
      - rewrite (HD r Hrn Eur Edr) in G. unfold I64MAX, I64MIN in G. lia.
      - pose proof (HS r Hrn Eur Edr) as G2. lia. }
    pose proof (cnt_pos U C i Hi Eu). lia.
  - intros i Hin Hni. destruct (D i) eqn:Ed; [exfalso | reflexivity].
    assert (HiR : In i R).
    { assert (Ho : In i order) by (eapply Permutation_in; [symmetry; exact Hperm | apply in_seq; lia]).
      rewrite HCR in Ho. apply in_app_or in Ho. destruct Ho; [contradiction | assumption]. }
    assert (Hm : nth i M false = true).
    { destruct (nth i M false) eqn:E; [reflexivity|]. rewrite (HMf i Hin E) in Ed. discriminate. }
    assert (Eu : U i = false) by (apply HMt; assumption).
    assert (Hwi : w i = I64MIN) by (apply HD; assumption).
    assert (HCc : cnt D C = length C).
    { apply cnt_all. intros c Hc. pose proof (Hsplit c i Hc HiR) as G. rewrite Hwi in G.
      assert (Hcn : (c < n)%nat) by apply Hlt, HinC, Hc.
      destruct (U c) eqn:Euc.
      - rewrite (HU c Hcn Euc) in G. unfold I64MAX, I64MIN in G. lia.
      - destruct (D c) eqn:Edc; [reflexivity|]. pose proof (HS c Hcn Euc Edc) as G2. lia. }
    pose proof (cnt_pos D R i HiR Ed). lia.
Qed.

(* ---------- link with the model ---------- *)
Lemma combine_seq_in {X} (l : list X) d : forall a i x, In (i, x) (combine (seq a (length l)) l) ->
  (a <= i < a + length l)%nat /\ nth (i - a) l d = x.
Proof.
  induction l as [|y r IH]; intros a i x H; cbn [length seq combine] in H; [contradiction|].
  destruct H as [H|H].
  - inversion H; subst. split; [cbn [length]; lia|]. rewrite Nat.sub_diag. reflexivity.
  - apply IH in H. destruct H as [H1 H2]. split; [cbn [length]; lia|]. replace (i - a)%nat with (S (i - S a)) by lia. exact H2.
Qed.

Lemma swap_in_forall (P : satn -> Prop) chosen dissats sats :
  (forall i, (i < length dissats)%nat -> In i chosen -> P (nth_sat sats i)) ->
  (forall i, (i < length dissats)%nat -> ~ In i chosen -> P (nth_sat dissats i)) ->
  Forall P (swap_in chosen dissats sats).
Proof.
  intros H1 H2. unfold swap_in. apply Forall_forall. intros s Hs. apply in_map_iff in Hs. destruct Hs as [[i d] [<- Hin]].
  apply (combine_seq_in dissats IMPOSSIBLE) in Hin. destruct Hin as [Hi Hd]. rewrite Nat.sub_0_r in Hd. cbn [fst snd].
  destruct (existsb (Nat.eqb i) chosen) eqn:E.
  - apply H1; [lia|]. apply existsb_exists in E. destruct E as [j [Hj Hij]]. apply Nat.eqb_eq in Hij. subst. exact Hj.
  - rewrite <- Hd. apply H2; [lia|]. intros Hc.
    assert (existsb (Nat.eqb i) chosen = true) by (apply existsb_exists; exists i; split; [exact Hc | apply Nat.eqb_refl]). congruence.
Qed.

Lemma forall_nth {X} (P : X -> Prop) l d i : Forall P l -> (i < length l)%nat -> P (nth i l d).
Proof. intros H Hi. rewrite Forall_forall in H. apply H, nth_In, Hi. Qed.
Lemma nth_map_d {X Y} (g : X -> Y) l i dx dy : (i < length l)%nat -> nth i (map g l) dy = g (nth i l dx).
Proof. intros H. rewrite (nth_indep _ dy (g dx)) by (rewrite map_length; exact H). apply map_nth. Qed.

Section ThreshMall.
  Variable se : senv.
  Hypothesis Habs_unit : forall t1 t2, se_after se t1 = true -> se_after se t2 = true ->
    Bool.eqb (N.ltb t1 500000000) (N.ltb t2 500000000) = true.
  Hypothesis Hrel_unit : forall t1 t2, se_older se t1 = true -> se_older se t2 = true ->
    Bool.eqb (rel_is_time t1) (rel_is_time t2) = true.

  Lemma swap_held chosen dissats sats : length sats = length dissats ->
    Forall (held se) dissats -> Forall (held se) sats -> Forall (held se) (swap_in chosen dissats sats).
  Proof.
    intros Hlen Hd Hs. apply swap_in_forall; intros i Hi _; unfold nth_sat; apply forall_nth; try assumption; lia.
  Qed.

  Lemma thresh_mall_held k dissats sats : length sats = length dissats ->
    Forall (held se) dissats -> Forall (held se) sats -> held se (thresh_mall se k dissats sats).
  Proof.
    intros Hlen Hd Hs. unfold thresh_mall, flatten_rev. apply fold_held; [|apply held_trivial]. apply swap_held; assumption.
  Qed.

  Lemma thresh_mall_ok k dissats sats M :
    length sats = length dissats -> length M = length dissats -> ctrue M = k ->
    Forall (held se) dissats -> Forall (held se) sats ->
    (forall i, (i < length dissats)%nat -> if nth i M false then stk (nth_sat sats i) else stk (nth_sat dissats i)) ->
    (forall i, (i < length dissats)%nat -> forall ls ld,
        s_stack (nth_sat sats i) = WStack ls -> s_stack (nth_sat dissats i) = WStack ld ->
        (I64MIN < Z.of_N (witness_size se ls) - Z.of_N (witness_size se ld) < I64MAX)%Z) ->
    held se (thresh_mall se k dissats sats) /\ stk (thresh_mall se k dissats sats).
  Proof.
    intros Hlen HLM HC Hd Hs HM Hfit. split; [apply thresh_mall_held; assumption|].
    set (w := fun i => stack_weight se (s_stack (nth_sat sats i)) (s_stack (nth_sat dissats i))).
    assert (E : thresh_mall se k dissats sats
                = flatten_rev (swap_in (firstn k (ordered Z zle w (length dissats))) dissats sats)) by reflexivity.
    rewrite E. clear E.
    destruct (select_mall (length dissats) k w (fun i => negb (is_stack (s_stack (nth_sat sats i))))
                (fun i => negb (is_stack (s_stack (nth_sat dissats i)))) M) as [HC1 HC2].
    - intros i Hi Hu. unfold w, stack_weight. destruct (s_stack (nth_sat sats i)); [discriminate | reflexivity | reflexivity].
    - intros i Hi Hu Hd'. unfold w, stack_weight. destruct (s_stack (nth_sat sats i)); try discriminate.
      destruct (s_stack (nth_sat dissats i)); [discriminate | reflexivity | reflexivity].
    - intros i Hi Hu Hd'. unfold w, stack_weight. destruct (s_stack (nth_sat sats i)) eqn:E1; try discriminate.
      destruct (s_stack (nth_sat dissats i)) eqn:E2; try discriminate. apply (Hfit i Hi); assumption.
    - exact HLM.
    - exact HC.
    - intros i Hi Hm. specialize (HM i Hi). rewrite Hm in HM. unfold stk in HM. rewrite HM. reflexivity.
    - intros i Hi Hm. specialize (HM i Hi). rewrite Hm in HM. unfold stk in HM. rewrite HM. reflexivity.
    - unfold flatten_rev. apply (fold_ok se Habs_unit Hrel_unit); [|apply held_trivial | reflexivity].
      apply swap_in_forall.
      + intros i Hi Hin. split; [unfold nth_sat; apply forall_nth; [exact Hs | lia]|].
        specialize (HC1 i Hin). cbv beta in HC1. unfold stk. destruct (is_stack (s_stack (nth_sat sats i))); [reflexivity | discriminate].
      + intros i Hi Hin. split; [unfold nth_sat; apply forall_nth; [exact Hd | lia]|].
        specialize (HC2 i Hi Hin). cbv beta in HC2. unfold stk. destruct (is_stack (s_stack (nth_sat dissats i))); [reflexivity | discriminate].
  Qed.
End ThreshMall.

(* ---------- the theorem ---------- *)
Section CompleteThreshMain.
  Variable ke : keyenv.
  Variable A : assets.
  Variable se : senv.
  Variable f : fill.
  Hypothesis L : linked ke A se f.
  (* as in CompleteProofs: the lock values the caller holds are mutually compatible (one nLockTime,
     one nSequence): two met absolute locks have the same unit, likewise two met relative locks *)
  Hypothesis Habs_unit : forall t1 t2, se_after se t1 = true -> se_after se t2 = true ->
    Bool.eqb (N.ltb t1 500000000) (N.ltb t2 500000000) = true.
  Hypothesis Hrel_unit : forall t1 t2, se_older se t1 = true -> se_older se t2 = true ->
    Bool.eqb (rel_is_time t1) (rel_is_time t2) = true.
  Variable rhs : bool.

  (* the i64 subtraction of the two witness sizes of a thresh child stays strictly between the
     sentinels i64::MIN and i64::MAX *)
  Definition wfit (x : ms) : Prop :=
    forall ls ld, s_stack (snd (sat_dissat ke se true rhs x)) = WStack ls ->
                  s_stack (fst (sat_dissat ke se true rhs x)) = WStack ld ->
      (I64MIN < Z.of_N (witness_size se ls) - Z.of_N (witness_size se ld) < I64MAX)%Z.

  Fixpoint thresh_fit (m : ms) : Prop :=
    match m with
    | MAlt x | MSwap x | MCheck x | MDupIf x | MVerify x | MNonZero x | MZeroNotEqual x => thresh_fit x
    | MAndV x y | MAndB x y | MOrB x y | MOrD x y | MOrC x y | MOrI x y => thresh_fit x /\ thresh_fit y
    | MAndOr a b c => thresh_fit a /\ thresh_fit b /\ thresh_fit c
    | MThresh k xs => (k <> N.of_nat (length xs) -> Forall wfit xs) /\
        (fix go (l : list ms) : Prop := match l with [] => True | x :: r => thresh_fit x /\ go r end) xs
    | _ => True
    end.

  Theorem mall_complete_thresh : forall m, thresh_fit m -> goal ke A se rhs m.
  Proof.
    induction m using ms_ind'; intros Hnp; unfold goal; cbn [sat_dissat thresh_fit] in *; cbv zeta.
    - (* 1 *) refine (conj _ (conj _ (conj _ _))); try apply held_const; intros H; [exfalso; apply H; reflexivity | reflexivity].
    - (* 0 *) refine (conj _ (conj _ (conj _ _))); try apply held_const; intros H; [reflexivity | exfalso; apply H; reflexivity].
    - (* pk_k *) unfold sd_pk_k. cbn [fst snd]. refine (conj _ (conj _ (conj _ _))); try apply held_const; intros H; [reflexivity|].
      unfold all_sat in H. cbn [sd fst] in H. unfold stk, w_signature. cbn [s_stack].
      destruct (a_sig A k) as [sg|] eqn:E; [|exfalso; apply H; reflexivity].
      destruct (sig_avail ke A se f L k ltac:(congruence)) as [sz Es]. rewrite Es. reflexivity.
    - (* pk_h *) unfold sd_pk_h. cbn [fst snd]. refine (conj _ (conj _ (conj _ _))); try apply held_const; intros H; [reflexivity|].
      unfold all_sat in H. cbn [sd fst] in H. unfold stk, w_signature. cbn [s_stack].
      destruct (a_sig A k) as [sg|] eqn:E; [|exfalso; apply H; reflexivity].
      destruct (sig_avail ke A se f L k ltac:(congruence)) as [sz Es]. rewrite Es. reflexivity.
    - (* raw *) cbn [fst snd]. refine (conj _ (conj _ (conj _ _))); try apply held_const; intros H; exfalso; apply H; reflexivity.
    - (* after *) unfold sd_time. cbn [fst snd]. split; [apply held_const|]. split.
      + split; cbn [s_abs s_rel]; intros t0 Ht; [|discriminate]. destruct (se_after se t) eqn:E; [|discriminate]. inversion Ht; subst. exact E.
      + split; intros H; [exfalso; apply H; reflexivity|]. unfold all_sat in H. cbn [sd fst] in H.
        rewrite <- (lk_after _ _ _ _ L) in H. unfold stk. cbn [s_stack]. destruct (se_after se t); [reflexivity | exfalso; apply H; reflexivity].
    - (* older *) unfold sd_time. cbn [fst snd]. split; [apply held_const|]. split.
      + split; cbn [s_abs s_rel]; intros t0 Ht; [discriminate|]. destruct (se_older se t) eqn:E; [|discriminate]. inversion Ht; subst. exact E.
      + split; intros H; [exfalso; apply H; reflexivity|]. unfold all_sat in H. cbn [sd fst] in H.
        rewrite <- (lk_older _ _ _ _ L) in H. unfold stk. cbn [s_stack]. destruct (se_older se t); [reflexivity | exfalso; apply H; reflexivity].
    - (* hashes *) unfold sd_hash. cbn [fst snd]. refine (conj _ (conj _ (conj _ _))); try apply held_const; intros H; [reflexivity|].
      unfold all_sat in H. cbn [sd fst hash_sd] in H. apply map_nonempty in H. unfold stk, w_preimage. cbn [s_stack].
      destruct (se_pre se HSha256 h) eqn:E; [reflexivity|]. exfalso. apply H.
      destruct (a_sha256 A h) eqn:E2; [|reflexivity]. assert (Hp : se_pre se HSha256 h = true) by (apply (lk_pre_avail _ _ _ _ L); cbn; congruence). congruence.
    - unfold sd_hash. cbn [fst snd]. refine (conj _ (conj _ (conj _ _))); try apply held_const; intros H; [reflexivity|].
      unfold all_sat in H. cbn [sd fst hash_sd] in H. apply map_nonempty in H. unfold stk, w_preimage. cbn [s_stack].
      destruct (se_pre se HHash256 h) eqn:E; [reflexivity|]. exfalso. apply H.
      destruct (a_hash256 A h) eqn:E2; [|reflexivity]. assert (Hp : se_pre se HHash256 h = true) by (apply (lk_pre_avail _ _ _ _ L); cbn; congruence). congruence.
    - unfold sd_hash. cbn [fst snd]. refine (conj _ (conj _ (conj _ _))); try apply held_const; intros H; [reflexivity|].
      unfold all_sat in H. cbn [sd fst hash_sd] in H. apply map_nonempty in H. unfold stk, w_preimage. cbn [s_stack].
      destruct (se_pre se HRipemd160 h) eqn:E; [reflexivity|]. exfalso. apply H.
      destruct (a_ripemd160 A h) eqn:E2; [|reflexivity]. assert (Hp : se_pre se HRipemd160 h = true) by (apply (lk_pre_avail _ _ _ _ L); cbn; congruence). congruence.
    - unfold sd_hash. cbn [fst snd]. refine (conj _ (conj _ (conj _ _))); try apply held_const; intros H; [reflexivity|].
      unfold all_sat in H. cbn [sd fst hash_sd] in H. apply map_nonempty in H. unfold stk, w_preimage. cbn [s_stack].
      destruct (se_pre se HHash160 h) eqn:E; [reflexivity|]. exfalso. apply H.
      destruct (a_hash160 A h) eqn:E2; [|reflexivity]. assert (Hp : se_pre se HHash160 h = true) by (apply (lk_pre_avail _ _ _ _ L); cbn; congruence). congruence.
    - exact (IHm Hnp). - exact (IHm Hnp). - exact (IHm Hnp).
    - (* d *) destruct (IHm Hnp) as [_ [Hh [_ Hs]]]. unfold goal in *. destruct (sat_dissat ke se true rhs m) as [d0 sub]. cbn [fst snd] in *.
      split; [apply held_const|]. split; [destruct Hh; split; assumption|]. split; intros H; [reflexivity|].
      unfold all_sat in H. cbn [sd fst] in H. apply map_nonempty in H. specialize (Hs H). unfold stk in *. cbn [with_stack s_stack].
      destruct (s_stack sub); try discriminate. reflexivity.
    - (* v *) destruct (IHm Hnp) as [_ [Hh [_ Hs]]]. unfold goal in *. destruct (sat_dissat ke se true rhs m) as [d0 sub]. cbn [fst snd] in *.
      split; [apply held_const|]. split; [exact Hh|]. split; intros H; [exfalso; apply H; reflexivity | apply Hs; exact H].
    - (* j *) destruct (IHm Hnp) as [_ [Hh [_ Hs]]]. unfold goal in *. destruct (sat_dissat ke se true rhs m) as [d0 sub]. cbn [fst snd] in *.
      split; [apply held_const|]. split; [exact Hh|]. split; intros H; [reflexivity | apply Hs; exact H].
    - exact (IHm Hnp).
    - (* and_v *) destruct Hnp as [N1 N2]. destruct (IHm1 N1) as [_ [Hls [_ Sls]]]. destruct (IHm2 N2) as [Hrd [Hrs [Srd Srs]]]. unfold goal in *.
      destruct (sat_dissat ke se true rhs m1) as [ld ls], (sat_dissat ke se true rhs m2) as [rd rs]. cbn [fst snd] in *.
      split; [apply concat_held; assumption|]. split; [apply concat_held; assumption|]. split; intros H.
      + rewrite dsat_and_v in H. apply cross_nonempty in H. destruct H. apply (concat_ok se Habs_unit Hrel_unit); auto.
      + rewrite sat_and_v in H. apply cross_nonempty in H. destruct H. apply (concat_ok se Habs_unit Hrel_unit); auto.
    - (* and_b *) destruct Hnp as [N1 N2]. destruct (IHm1 N1) as [Hld [Hls [Sld Sls]]]. destruct (IHm2 N2) as [Hrd [Hrs [Srd Srs]]]. unfold goal in *.
      destruct (sat_dissat ke se true rhs m1) as [ld ls], (sat_dissat ke se true rhs m2) as [rd rs]. cbn [fst snd] in *.
      split; [apply concat_held; assumption|]. split; [apply concat_held; assumption|].
      unfold all_sat, all_dsat. rewrite sd_and_b. cbn [fst snd]. split; intros H; apply cross_nonempty in H; destruct H; apply (concat_ok se Habs_unit Hrel_unit); auto.
    - (* andor *) destruct Hnp as [N1 [N2 N3]]. destruct (IHm1 N1) as [Had [Has [Sad Sas]]]. destruct (IHm2 N2) as [_ [Hbs [_ Sbs]]].
      destruct (IHm3 N3) as [Hcd [Hcs [Scd Scs]]]. unfold goal in *.
      destruct (sat_dissat ke se true rhs m1) as [ad asat], (sat_dissat ke se true rhs m2) as [bd bs], (sat_dissat ke se true rhs m3) as [cd cs]. cbn [fst snd] in *.
      split; [apply concat_held; assumption|]. split; [apply min_mall_held; apply concat_held; assumption|].
      unfold all_sat, all_dsat. rewrite sd_andor. cbn [fst snd]. split; intros H.
      + apply cross_nonempty in H. destruct H. apply (concat_ok se Habs_unit Hrel_unit); auto.
      + apply min_mall_ok; try (apply concat_held; assumption). apply app_nonempty in H.
        destruct H as [H|H]; apply cross_nonempty in H; destruct H; [left | right]; apply (concat_ok se Habs_unit Hrel_unit); auto.
    - (* or_b *) destruct Hnp as [N1 N2]. destruct (IHm1 N1) as [Hld [Hls [Sld Sls]]]. destruct (IHm2 N2) as [Hrd [Hrs [Srd Srs]]]. unfold goal in *.
      destruct (sat_dissat ke se true rhs m1) as [ld ls], (sat_dissat ke se true rhs m2) as [rd rs]. cbn [fst snd] in *.
      split; [apply concat_held; assumption|]. split; [apply min_mall_held; apply concat_held; assumption|].
      unfold all_sat, all_dsat. rewrite sd_or_b. cbn [fst snd]. split; intros H.
      + apply cross_nonempty in H. destruct H. apply (concat_ok se Habs_unit Hrel_unit); auto.
      + apply min_mall_ok; try (apply concat_held; assumption). apply app_nonempty in H.
        destruct H as [H|H]; apply cross_nonempty in H; destruct H; [left | right]; apply (concat_ok se Habs_unit Hrel_unit); auto.
    - (* or_d *) destruct Hnp as [N1 N2]. destruct (IHm1 N1) as [Hld [Hls [Sld Sls]]]. destruct (IHm2 N2) as [Hrd [Hrs [Srd Srs]]]. unfold goal in *.
      destruct (sat_dissat ke se true rhs m1) as [ld ls], (sat_dissat ke se true rhs m2) as [rd rs]. cbn [fst snd] in *.
      split; [apply concat_held; assumption|]. split; [apply min_mall_held; [assumption | apply concat_held; assumption]|].
      unfold all_sat, all_dsat. rewrite sd_or_d. cbn [fst snd]. split; intros H.
      + apply cross_nonempty in H. destruct H. apply (concat_ok se Habs_unit Hrel_unit); auto.
      + apply min_mall_ok; try assumption; try (apply concat_held; assumption). apply app_nonempty in H.
        destruct H as [H|H]; [left; auto | right; apply cross_nonempty in H; destruct H; apply (concat_ok se Habs_unit Hrel_unit); auto].
    - (* or_c *) destruct Hnp as [N1 N2]. destruct (IHm1 N1) as [Hld [Hls [Sld Sls]]]. destruct (IHm2 N2) as [_ [Hrs [_ Srs]]]. unfold goal in *.
      destruct (sat_dissat ke se true rhs m1) as [ld ls], (sat_dissat ke se true rhs m2) as [rd rs]. cbn [fst snd] in *.
      split; [apply held_const|]. split; [apply min_mall_held; [assumption | apply concat_held; assumption]|].
      split; intros H.
      + exfalso. apply H. unfold all_dsat. cbn [sd]. destruct (sd ke A m1), (sd ke A m2). reflexivity.
      + rewrite sat_or_c in H. apply min_mall_ok; try assumption; try (apply concat_held; assumption). apply app_nonempty in H.
        destruct H as [H|H]; [left; auto | right; apply cross_nonempty in H; destruct H; apply (concat_ok se Habs_unit Hrel_unit); auto].
    - (* or_i *) destruct Hnp as [N1 N2]. destruct (IHm1 N1) as [Hld [Hls [Sld Sls]]]. destruct (IHm2 N2) as [Hrd [Hrs [Srd Srs]]]. unfold goal in *.
      destruct (sat_dissat ke se true rhs m1) as [ld ls], (sat_dissat ke se true rhs m2) as [rd rs]. cbn [fst snd] in *.
      assert (Hw : forall (s : satn) p, held se s -> held se (with_stack s (wcombine (s_stack s) (WStack [p])))) by (intros s p [H1 H2]; split; assumption).
      assert (Sw : forall (s : satn) p, stk s -> stk (with_stack s (wcombine (s_stack s) (WStack [p])))).
      { intros s p Hs. unfold stk in *. cbn [with_stack s_stack]. destruct (s_stack s); try discriminate. reflexivity. }
      split; [apply min_mall_held; apply Hw; assumption|]. split; [apply min_mall_held; apply Hw; assumption|].
      unfold all_sat, all_dsat. rewrite sd_or_i. cbn [fst snd]. split; intros H; apply app_nonempty in H;
      (apply min_mall_ok; [apply Hw; assumption | apply Hw; assumption |]);
      (destruct H as [H|H]; apply map_nonempty in H; [left | right]; apply Sw; auto).
    - (* thresh *) destruct Hnp as [Hfit Hnp]. rewrite ds_thresh. set (ds := map (sat_dissat ke se true rhs) xs).
      assert (HG : Forall (goal ke A se rhs) xs).
      { clear Hfit. induction H as [|x r Hx Hr IHr]; constructor; [apply Hx, Hnp | apply IHr, Hnp]. }
      assert (Hhd : Forall (held se) (map fst ds) /\ Forall (held se) (map snd ds)).
      { unfold ds. clear -HG. induction HG as [|x r [H1 [H2 _]] Hr [I1 I2]]; cbn [map]; split; constructor; assumption. }
      destruct Hhd as [Hhd Hhs]. cbn [fst snd].
      assert (Hl1 : length (map snd ds) = length (map fst ds)) by (rewrite !map_length; reflexivity).
      assert (Hl2 : length (map fst ds) = length xs) by (unfold ds; rewrite !map_length; reflexivity).
      assert (Hn1 : forall i, (i < length xs)%nat -> nth_sat (map fst ds) i = fst (sat_dissat ke se true rhs (nth i xs MTrue))).
      { intros i Hi. unfold nth_sat, ds. rewrite map_map. apply (nth_map_d (fun x => fst (sat_dissat ke se true rhs x))). exact Hi. }
      assert (Hn2 : forall i, (i < length xs)%nat -> nth_sat (map snd ds) i = snd (sat_dissat ke se true rhs (nth i xs MTrue))).
      { intros i Hi. unfold nth_sat, ds. rewrite map_map. apply (nth_map_d (fun x => snd (sat_dissat ke se true rhs x))). exact Hi. }
      split; [apply fold_held; [exact Hhd | apply held_trivial]|]. split.
      { destruct (N.eqb k (N.of_nat (length xs))); [apply fold_held; [exact Hhs | apply held_trivial]|].
        apply thresh_mall_held; assumption. }
      unfold all_sat, all_dsat. rewrite sd_thresh'. cbn [fst snd]. split; intros Hne.
      + apply thresh_all_dsat in Hne. apply (fold_ok se Habs_unit Hrel_unit); [|apply held_trivial | reflexivity].
        unfold ds. clear -HG Hne. induction HG as [|x r [H1 [H2 [H3 H4]]] Hr IH]; cbn [map]; [constructor|].
        inversion Hne; subst. constructor; [split; [exact H1 | apply H3; assumption] | apply IH; assumption].
      + apply comb_mask in Hne. destruct Hne as [M [HLM [HCM HM]]]. rewrite map_length in HLM, HM.
        assert (HMstk : forall i, (i < length (map fst ds))%nat ->
                  if nth i M false then stk (nth_sat (map snd ds) i) else stk (nth_sat (map fst ds) i)).
        { intros i Hi. rewrite Hl2 in Hi. specialize (HM i Hi). rewrite (nth_map_d (sd ke A) xs i MTrue) in HM by exact Hi.
          pose proof (forall_nth _ xs MTrue i HG Hi) as [_ [_ [G3 G4]]].
          rewrite (Hn1 i Hi), (Hn2 i Hi). destruct (nth i M false); [apply G4, HM | apply G3, HM]. }
        destruct (N.eqb k (N.of_nat (length xs))) eqn:Ek.
        * (* n-of-n: every child is satisfied *)
          apply N.eqb_eq in Ek. apply (fold_ok se Habs_unit Hrel_unit); [|apply held_trivial | reflexivity].
          assert (Hall : forall i, (i < length xs)%nat -> nth i M false = true).
          { assert (HcM : ctrue M = length M) by lia. rewrite <- HLM. clear -HcM. revert HcM. induction M as [|b r IH]; intros Hc i Hi; [cbn in Hi; lia|].
            cbn [ctrue length] in Hc. pose proof (ctrue_le r). destruct b; [|lia]. destruct i; [reflexivity|]. cbn [nth]. apply IH; [lia | cbn [length] in Hi; lia]. }
          apply Forall_forall. intros s Hs. apply (In_nth _ _ IMPOSSIBLE) in Hs. destruct Hs as [i [Hi <-]].
          rewrite Hl1, Hl2 in Hi. split; [apply forall_nth; [exact Hhs | lia]|].
          pose proof (HMstk i ltac:(lia)) as G. rewrite (Hall i Hi) in G. exact G.
        * apply (thresh_mall_ok se Habs_unit Hrel_unit _ _ _ M); try assumption; [lia|].
          apply N.eqb_neq in Ek. specialize (Hfit Ek).
          intros i Hi ls ld E1 E2. rewrite Hl2 in Hi. rewrite (Hn2 i Hi) in E1. rewrite (Hn1 i Hi) in E2.
          exact (forall_nth _ xs MTrue i Hfit Hi ls ld E1 E2).
    - (* multi *) unfold sd_multi. cbv zeta. unfold all_sat, all_dsat. cbn [sd fst snd].
      destruct (Nat.ltb (count_avail se ks) (N.to_nat k)) eqn:Ec; cbn [fst snd]; (refine (conj _ (conj _ (conj _ _))); try apply held_const; intros H; try reflexivity).
      apply map_nonempty in H. apply (pick_sigs_count ke A se f L Habs_unit Hrel_unit) in H. apply Nat.ltb_lt in Ec. lia.
    - unfold sd_multi. cbv zeta. unfold all_sat, all_dsat. cbn [sd fst snd].
      destruct (Nat.ltb (count_avail se (ksort ke ks)) (N.to_nat k)) eqn:Ec; cbn [fst snd]; (refine (conj _ (conj _ (conj _ _))); try apply held_const; intros H; try reflexivity).
      apply map_nonempty in H. apply (pick_sigs_count ke A se f L Habs_unit Hrel_unit) in H. apply Nat.ltb_lt in Ec. lia.
    - unfold sd_multi_a. cbv zeta. unfold all_sat, all_dsat. cbn [sd fst snd].
      destruct (Nat.ltb (count_avail se ks) (N.to_nat k)) eqn:Ec; cbn [fst snd]; (refine (conj _ (conj _ (conj _ _))); try apply held_const; intros H; try reflexivity).
      apply (pick_sigs_a_count ke A se f L Habs_unit Hrel_unit) in H. apply Nat.ltb_lt in Ec. lia.
    - unfold sd_multi_a. cbv zeta. unfold all_sat, all_dsat. cbn [sd fst snd].
      destruct (Nat.ltb (count_avail se (ksort ke ks)) (N.to_nat k)) eqn:Ec; cbn [fst snd]; (refine (conj _ (conj _ (conj _ _))); try apply held_const; intros H; try reflexivity).
      apply (pick_sigs_a_count ke A se f L Habs_unit Hrel_unit) in H. apply Nat.ltb_lt in Ec. lia.
  Qed.
End CompleteThreshMain.

(* ---------- discharging [thresh_fit] from a syntactic bound ---------- *)
(* an upper bound on the number of witness elements of any (dis)satisfaction the model builds *)
Fixpoint max_elems (ke : keyenv) (m : ms) : nat :=
  match m with
  | MTrue | MFalse | MRawPkH _ | MAfter _ | MOlder _ => 0
  | MPkK _ => 1
  | MPkH _ => 2
  | MSha256 _ | MHash256 _ | MRipemd160 _ | MHash160 _ => 1
  | MAlt x | MSwap x | MCheck x | MZeroNotEqual x | MVerify x => max_elems ke x
  | MDupIf x | MNonZero x => S (max_elems ke x)
  | MAndV x y | MAndB x y | MOrB x y | MOrD x y | MOrC x y => max_elems ke x + max_elems ke y
  | MOrI x y => S (max_elems ke x + max_elems ke y)
  | MAndOr a b c => max_elems ke a + max_elems ke b + max_elems ke c
  | MThresh _ xs => list_sum (map (max_elems ke) xs)
  | MMulti k _ | MSortedMulti k _ => S (N.to_nat k)
  | MMultiA _ ks => length ks
  | MSortedMultiA _ ks => length (ksort ke ks)
  end.

Lemma list_sum_cons a l : list_sum (a :: l) = (a + list_sum l)%nat.
Proof. reflexivity. Qed.
Lemma list_sum_le_map {X} (f g : X -> nat) l : (forall x, In x l -> (f x <= g x)%nat) ->
  (list_sum (map f l) <= list_sum (map g l))%nat.
Proof.
  induction l as [|x r IH]; intros H; [cbn; lia|]. cbn [map]; rewrite ?list_sum_cons.
  pose proof (H x (or_introl eq_refl)). assert ((list_sum (map f r) <= list_sum (map g r))%nat) by (apply IH; intros y Hy; apply H; right; exact Hy). lia.
Qed.
Lemma map_nth_seq_gen {X Y} (g : X -> Y) (l : list X) d : forall a,
  map (fun i => g (nth (i - a) l d)) (seq a (length l)) = map g l.
Proof.
  induction l as [|x r IH]; intros a; [reflexivity|]. cbn [length seq map]. rewrite Nat.sub_diag. cbn [nth]. f_equal.
  rewrite <- (IH (S a)). apply map_ext_in. intros i Hi. apply in_seq in Hi. replace (i - a)%nat with (S (i - S a)) by lia. reflexivity.
Qed.
Lemma swap_in_seq chosen dissats sats :
  swap_in chosen dissats sats
  = map (fun i => if existsb (Nat.eqb i) chosen then nth_sat sats i else nth_sat dissats i) (seq 0 (length dissats)).
Proof.
  unfold swap_in.
  assert (Hc : forall (dl : list satn) a,
     map (fun p => if existsb (Nat.eqb (fst p)) chosen then nth_sat sats (fst p) else snd p) (combine (seq a (length dl)) dl)
     = map (fun i => if existsb (Nat.eqb i) chosen then nth_sat sats i else nth (i - a) dl IMPOSSIBLE) (seq a (length dl))).
  { induction dl as [|d r IHd]; intros a; [reflexivity|]. cbn [length seq combine map fst snd].
    rewrite Nat.sub_diag. cbn [nth]. f_equal. rewrite IHd. apply map_ext_in. intros i Hi. apply in_seq in Hi.
    destruct (existsb (Nat.eqb i) chosen); [reflexivity|]. replace (i - a)%nat with (S (i - S a)) by lia. reflexivity. }
  rewrite Hc. apply map_ext. intros i. rewrite Nat.sub_0_r. reflexivity.
Qed.

Section LenBound.
  Variable ke : keyenv.
  Variable se : senv.

  Definition slen (s : satn) : nat := match s_stack s with WStack l => length l | _ => 0%nat end.

  Lemma slen_concat a b : (slen (concatenate_rev a b) <= slen a + slen b)%nat.
  Proof.
    unfold concatenate_rev, slen. destruct (is_imp (s_stack a) || is_imp (s_stack b)); [cbn; lia|].
    destruct (merge_lock rel_max (s_rel a) (s_rel b)); [|cbn; lia].
    destruct (merge_lock abs_max (s_abs a) (s_abs b)); [|cbn; lia].
    cbn [s_stack]. destruct (s_stack a), (s_stack b); cbn [wcombine]; try lia. rewrite app_length. lia.
  Qed.
  Lemma slen_min (mall : bool) a b : (slen ((if mall then minimum_mall se else minimum se) a b) <= Nat.max (slen a) (slen b))%nat.
  Proof.
    destruct mall.
    - unfold minimum_mall. destruct (is_stack (s_stack a)); cbn [negb]; [|lia]. destruct (is_stack (s_stack b)); cbn [negb]; [|lia].
      destruct (wit_lt se (s_stack a) (s_stack b)); unfold slen; cbn [s_stack]; fold (slen a); fold (slen b); lia.
    - unfold minimum. destruct (is_imp (s_stack a)); [lia|]. destruct (is_imp (s_stack b)); [lia|].
      destruct (s_has_sig a), (s_has_sig b); try destruct (wit_lt se (s_stack a) (s_stack b)); unfold slen; cbn [s_stack UNAVAILABLE];
        fold (slen a); fold (slen b); lia.
  Qed.
  Lemma slen_push s p : (slen (with_stack s (wcombine (s_stack s) (WStack [p]))) <= S (slen s))%nat.
  Proof. unfold slen. cbn [with_stack s_stack]. destruct (s_stack s); cbn [wcombine]; try lia. rewrite app_length. cbn [length]. lia. Qed.
  Lemma slen_fold l : forall acc, (slen (fold_left concatenate_rev l acc) <= slen acc + list_sum (map slen l))%nat.
  Proof.
    induction l as [|x r IH]; intros acc; cbn [fold_left map]; rewrite ?list_sum_cons; [lia|].
    specialize (IH (concatenate_rev acc x)). pose proof (slen_concat acc x). lia.
  Qed.
  Lemma slen_flatten l : (slen (flatten_rev l) <= list_sum (map slen l))%nat.
  Proof. unfold flatten_rev. pose proof (slen_fold l TRIVIAL). cbn in *. lia. Qed.

  Lemma take_avail_len ks : forall k, (length (take_avail se k ks) <= k)%nat.
  Proof.
    induction ks as [|key r IH]; intros k; cbn [take_avail]; [cbn; lia|].
    destruct (se_sig se key); [destruct k as [|k']; [apply IH | cbn [length]; specialize (IH k'); lia] | apply IH].
  Qed.
  Lemma multi_a_fill_len ks : forall k, length (multi_a_fill se k ks) = length ks.
  Proof.
    induction ks as [|key r IH]; intros k; cbn [multi_a_fill]; [reflexivity|].
    destruct (se_sig se key); [destruct k|]; cbn [length]; rewrite IH; reflexivity.
  Qed.
  Lemma slen_multi k ks : (slen (fst (sd_multi se k ks)) <= S (N.to_nat k) /\ slen (snd (sd_multi se k ks)) <= S (N.to_nat k))%nat.
  Proof.
    unfold sd_multi. cbv zeta. destruct (Nat.ltb _ _); cbn [fst snd]; unfold slen; cbn [s_stack IMPOSSIBLE]; rewrite ?repeat_length; split; try lia.
    cbn [length]. pose proof (take_avail_len ks (N.to_nat k)). lia.
  Qed.
  Lemma slen_multi_a k ks : (slen (fst (sd_multi_a se k ks)) <= length ks /\ slen (snd (sd_multi_a se k ks)) <= length ks)%nat.
  Proof.
    unfold sd_multi_a. cbv zeta. destruct (Nat.ltb _ _); cbn [fst snd]; unfold slen; cbn [s_stack IMPOSSIBLE]; rewrite ?repeat_length; split; try lia.
    rewrite multi_a_fill_len, rev_length. lia.
  Qed.

  Lemma slen_swap chosen (xs : list ms) (ds : list (satn * satn)) (B : ms -> nat) :
    length ds = length xs ->
    (forall i, (i < length xs)%nat -> slen (fst (nth i ds (IMPOSSIBLE, IMPOSSIBLE))) <= B (nth i xs MTrue) /\
                                     slen (snd (nth i ds (IMPOSSIBLE, IMPOSSIBLE))) <= B (nth i xs MTrue))%nat ->
    (list_sum (map slen (swap_in chosen (map fst ds) (map snd ds))) <= list_sum (map B xs))%nat.
  Proof.
    intros Hlen HB. rewrite swap_in_seq, map_map, map_length, Hlen.
    rewrite <- (map_nth_seq_gen B xs MTrue 0).
    apply list_sum_le_map. intros i Hi. apply in_seq in Hi. rewrite Nat.sub_0_r.
    destruct (HB i ltac:(lia)) as [H1 H2]. unfold nth_sat.
    rewrite (nth_map_d fst ds i (IMPOSSIBLE, IMPOSSIBLE)) by lia. rewrite (nth_map_d snd ds i (IMPOSSIBLE, IMPOSSIBLE)) by lia.
    destruct (existsb (Nat.eqb i) chosen); assumption.
  Qed.

  Theorem stack_len_bound (mall rhs : bool) : forall m,
    (slen (fst (sat_dissat ke se mall rhs m)) <= max_elems ke m /\ slen (snd (sat_dissat ke se mall rhs m)) <= max_elems ke m)%nat.
  Proof.
    induction m using ms_ind'; cbn [sat_dissat max_elems].
    - cbn. lia.
    - cbn. lia.
    - unfold sd_pk_k, w_signature, slen. cbn [fst snd s_stack push_0]. destruct (se_sig se k); cbn; lia.
    - unfold sd_pk_h, w_signature, slen. cbn [fst snd s_stack]. destruct (se_sig se k); cbn; lia.
    - cbn. lia.
    - unfold sd_time, slen. cbn [fst snd]. destruct (se_after se t); [|destruct rhs]; cbn; lia.
    - unfold sd_time, slen. cbn [fst snd]. destruct (se_older se t); [|destruct rhs]; cbn; lia.
    - unfold sd_hash, w_preimage, slen. cbn [fst snd s_stack]. destruct (se_pre se HSha256 h); cbn; lia.
    - unfold sd_hash, w_preimage, slen. cbn [fst snd s_stack]. destruct (se_pre se HHash256 h); cbn; lia.
    - unfold sd_hash, w_preimage, slen. cbn [fst snd s_stack]. destruct (se_pre se HRipemd160 h); cbn; lia.
    - unfold sd_hash, w_preimage, slen. cbn [fst snd s_stack]. destruct (se_pre se HHash160 h); cbn; lia.
    - exact IHm. - exact IHm. - exact IHm.
    - (* d *) destruct (sat_dissat ke se mall rhs m) as [d0 sub]. cbn [fst snd] in *. destruct IHm as [_ Hs].
      pose proof (slen_push sub PhPushOne). split; [cbn; lia | lia].
    - (* v *) destruct (sat_dissat ke se mall rhs m) as [d0 sub]. cbn [fst snd] in *. destruct IHm as [_ Hs]. split; [cbn; lia | lia].
    - (* j *) destruct (sat_dissat ke se mall rhs m) as [d0 sub]. cbn [fst snd] in *. destruct IHm as [_ Hs]. split; [cbn; lia | lia].
    - exact IHm.
    - (* and_v *) destruct (sat_dissat ke se mall rhs m1) as [ld ls], (sat_dissat ke se mall rhs m2) as [rd rs]. cbn [fst snd] in *.
      pose proof (slen_concat ls rd). pose proof (slen_concat ls rs). lia.
    - (* and_b *) destruct (sat_dissat ke se mall rhs m1) as [ld ls], (sat_dissat ke se mall rhs m2) as [rd rs]. cbn [fst snd] in *.
      pose proof (slen_concat ld rd). pose proof (slen_concat ls rs). lia.
    - (* andor *) destruct (sat_dissat ke se mall rhs m1) as [ad asat], (sat_dissat ke se mall rhs m2) as [bd bs], (sat_dissat ke se mall rhs m3) as [cd cs].
      cbn [fst snd] in *. pose proof (slen_concat ad cd). pose proof (slen_concat asat bs). pose proof (slen_concat ad cs).
      pose proof (slen_min mall (concatenate_rev asat bs) (concatenate_rev ad cs)). lia.
    - (* or_b *) destruct (sat_dissat ke se mall rhs m1) as [ld ls], (sat_dissat ke se mall rhs m2) as [rd rs]. cbn [fst snd] in *.
      pose proof (slen_concat ld rd). pose proof (slen_concat ld rs). pose proof (slen_concat ls rd).
      pose proof (slen_min mall (concatenate_rev ld rs) (concatenate_rev ls rd)). lia.
    - (* or_d *) destruct (sat_dissat ke se mall rhs m1) as [ld ls], (sat_dissat ke se mall rhs m2) as [rd rs]. cbn [fst snd] in *.
      pose proof (slen_concat ld rd). pose proof (slen_concat ld rs).
      pose proof (slen_min mall ls (concatenate_rev ld rs)). lia.
    - (* or_c *) destruct (sat_dissat ke se mall rhs m1) as [ld ls], (sat_dissat ke se mall rhs m2) as [rd rs]. cbn [fst snd] in *.
      pose proof (slen_concat ld rs). pose proof (slen_min mall ls (concatenate_rev ld rs)). split; [cbn; lia | lia].
    - (* or_i *) destruct (sat_dissat ke se mall rhs m1) as [ld ls], (sat_dissat ke se mall rhs m2) as [rd rs]. cbn [fst snd] in *.
      pose proof (slen_push ld PhPushOne). pose proof (slen_push rd PhPushZero). pose proof (slen_push ls PhPushOne). pose proof (slen_push rs PhPushZero).
      pose proof (slen_min mall (with_stack ld (wcombine (s_stack ld) (WStack [PhPushOne]))) (with_stack rd (wcombine (s_stack rd) (WStack [PhPushZero])))).
      pose proof (slen_min mall (with_stack ls (wcombine (s_stack ls) (WStack [PhPushOne]))) (with_stack rs (wcombine (s_stack rs) (WStack [PhPushZero])))).
      lia.
    - (* thresh *) rewrite ds_thresh. set (ds := map (sat_dissat ke se mall rhs) xs). cbn [fst snd].
      assert (Hlen : length ds = length xs) by (unfold ds; apply map_length).
      assert (HB : forall i, (i < length xs)%nat -> (slen (fst (nth i ds (IMPOSSIBLE, IMPOSSIBLE))) <= max_elems ke (nth i xs MTrue) /\
                                                     slen (snd (nth i ds (IMPOSSIBLE, IMPOSSIBLE))) <= max_elems ke (nth i xs MTrue))%nat).
      { intros i Hi. unfold ds. rewrite (nth_map_d (sat_dissat ke se mall rhs) xs i MTrue) by exact Hi. exact (forall_nth _ xs MTrue i H Hi). }
      assert (HD : (list_sum (map slen (map fst ds)) <= list_sum (map (max_elems ke) xs))%nat).
      { rewrite map_map. rewrite <- (map_nth_seq_gen (fun d => slen (fst d)) ds (IMPOSSIBLE, IMPOSSIBLE) 0), <- (map_nth_seq_gen (max_elems ke) xs MTrue 0), Hlen.
        apply list_sum_le_map. intros i Hi. apply in_seq in Hi. rewrite Nat.sub_0_r. apply HB. lia. }
      assert (HS : (list_sum (map slen (map snd ds)) <= list_sum (map (max_elems ke) xs))%nat).
      { rewrite map_map. rewrite <- (map_nth_seq_gen (fun d => slen (snd d)) ds (IMPOSSIBLE, IMPOSSIBLE) 0), <- (map_nth_seq_gen (max_elems ke) xs MTrue 0), Hlen.
        apply list_sum_le_map. intros i Hi. apply in_seq in Hi. rewrite Nat.sub_0_r. apply HB. lia. }
      split; [pose proof (slen_flatten (map fst ds)); lia|].
      destruct (N.eqb k (N.of_nat (length xs))); [pose proof (slen_flatten (map snd ds)); lia|].
      destruct mall.
      + unfold thresh_mall. cbv zeta. match goal with |- (slen (flatten_rev (swap_in ?c _ _)) <= _)%nat =>
          pose proof (slen_flatten (swap_in c (map fst ds) (map snd ds))); pose proof (slen_swap c xs ds (max_elems ke) Hlen HB) end. lia.
      + unfold thresh_nonmall. cbv zeta. destruct (is_imp _); [cbn; lia|]. destruct (negb _ && negb _); [cbn; lia|].
        match goal with |- (slen (flatten_rev (swap_in ?c _ _)) <= _)%nat =>
          pose proof (slen_flatten (swap_in c (map fst ds) (map snd ds))); pose proof (slen_swap c xs ds (max_elems ke) Hlen HB) end. lia.
    - apply slen_multi.
    - apply slen_multi.
    - apply slen_multi_a.
    - apply slen_multi_a.
  Qed.

  (* sizes: every placeholder weighs at most 73 bytes when the environment's figures are the real
     ones (keys <= 66 bytes incl. the push, Schnorr signatures <= 65 bytes) *)
  Hypothesis Hpk : forall k, (se_pklen se k <= 73)%N.
  Hypothesis Hsg : forall k sz, se_sig se k = Some sz -> (sz < 73)%N.

  Lemma ph_size_le p : (ph_size se p <= 73)%N.
  Proof.
    destruct p; cbn [ph_size]; try lia; [apply Hpk|].
    destruct (se_tap se); [|lia]. destruct (se_sig se k) as [sz|] eqn:E; [apply Hsg in E; lia | lia].
  Qed.
  Lemma varint_len_le n : (varint_len n <= 9)%N.
  Proof. unfold varint_len. destruct (n <? 253)%N; [lia|]. destruct (n <=? 65535)%N; [lia|]. destruct (n <=? 4294967295)%N; lia. Qed.
  Lemma witness_size_le l : (witness_size se l <= 73 * N.of_nat (length l) + 9)%N.
  Proof.
    unfold witness_size.
    assert (G : (fold_right (fun p a => ph_size se p + a) 0 l <= 73 * N.of_nat (length l))%N).
    { induction l as [|p r IH]; [cbn; lia|]. cbn [fold_right length]. rewrite Nat2N.inj_succ. pose proof (ph_size_le p). lia. }
    pose proof (varint_len_le (N.of_nat (length l))). lia.
  Qed.

  Theorem fit_of_bound rhs : forall m, (N.of_nat (max_elems ke m) < 2 ^ 55)%N -> thresh_fit ke se rhs m.
  Proof.
    assert (Hw : forall x, (N.of_nat (max_elems ke x) < 2 ^ 55)%N -> wfit ke se rhs x).
    { intros x Hx ls ld E1 E2. pose proof (stack_len_bound true rhs x) as [B1 B2]. unfold slen in B1, B2. rewrite E1 in B2. rewrite E2 in B1.
      pose proof (witness_size_le ls). pose proof (witness_size_le ld). unfold I64MIN, I64MAX.
      assert ((2 ^ 55 = 36028797018963968)%N) by reflexivity. lia. }
    set (T := (2 ^ 55)%N) in *. clearbody T.
    induction m using ms_ind'; cbn [thresh_fit max_elems]; intros Hb; try exact I;
      try (apply IHm; lia);
      try (split; [apply IHm1; lia | apply IHm2; lia]);
      try (split; [apply IHm1; lia | split; [apply IHm2; lia | apply IHm3; lia]]).
    - assert (Hc : forall x, In x xs -> (N.of_nat (max_elems ke x) < T)%N).
      { intros x Hx. assert ((max_elems ke x <= list_sum (map (max_elems ke) xs))%nat).
        { clear -Hx. induction xs as [|y r IH]; [contradiction|]. cbn [map]; rewrite ?list_sum_cons. destruct Hx as [->|Hx]; [lia | specialize (IH Hx); lia]. }
        lia. }
      split.
      + intros _. apply Forall_forall. intros x Hx. apply Hw, Hc, Hx.
      + clear Hb. induction H as [|x r Hx Hr IHr]; [exact I|]. split; [apply Hx, Hc; left; reflexivity | apply IHr; intros y Hy; apply Hc; right; exact Hy].
  Qed.
End LenBound.
