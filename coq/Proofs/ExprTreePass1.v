(* Pass 1 (parse_pre_check) on the text of a tree: it is accepted, the node count is the size
   of the tree and the maximum depth is its depth. *)
From Coq Require Import List Bool Arith NArith Lia.
From Verif Require Import ChecksumModel ExprTreeModel ExprTreeTotal ExprTreePass2.
Import ListNotations.
Local Open Scope N_scope.

Definition depth_list (cs : list etree) : N := fold_right (fun c acc => N.max (depth c) acc) 0 cs.
Lemma depth_eq : forall name p c r, depth (ENode name p (c :: r)) = 1 + depth_list (c :: r).
Proof. reflexivity. Qed.
Lemma depth_leaf : forall name p, depth (ENode name p []) = 0.
Proof. reflexivity. Qed.

Lemma pre_step_nonstruct : forall len st pos ch rest, nonstruct ch = true -> pre_step len st pos ch rest = Ok st.
Proof.
  intros len st pos ch rest H. unfold nonstruct in H. apply andb_true_iff in H. destruct H as [H H3].
  apply andb_true_iff in H. destruct H as [H1 H2].
  apply negb_true_iff in H1. apply negb_true_iff in H2. apply negb_true_iff in H3.
  unfold pre_step. rewrite H1, H2, H3. destruct st. reflexivity.
Qed.

Lemma pre_loop_name : forall len name st pos rest, forallb nonstruct name = true ->
  pre_loop len st pos (name ++ rest) = pre_loop len st (pos + blen name) rest.
Proof.
  intros len name. induction name as [|c name IH]; intros st pos rest H.
  - cbn [app]. unfold blen. cbn [length N.of_nat]. rewrite N.add_0_r. reflexivity.
  - cbn [forallb] in H. apply andb_true_iff in H. destruct H as [Hc Hn].
    cbn [app pre_loop]. rewrite pre_step_nonstruct by assumption. rewrite IH by assumption.
    f_equal. unfold blen. cbn [length]. lia.
Qed.

Lemma size_pos : forall t, 1 <= size t.
Proof. intros [n p cs]. rewrite size_eq. lia. Qed.

(* what may follow a closing parenthesis *)
Definition follow_ok (stack : list (N * N)) (rest : bytes) : Prop :=
  match stack with
  | [] => rest = []
  | _ :: _ => exists nx r, rest = nx :: r /\ is_close nx || (nx =? COMMA) = true
  end.

Definition P1 (t : etree) : Prop :=
  forall len st pos rest,
    pos + blen (print t) + blen rest = len ->
    N.of_nat (length (ps_stack st)) <= ps_depth st ->
    (match t with ENode _ _ [] => True | _ => follow_ok (ps_stack st) rest end) ->
    pre_loop len st pos (print t ++ rest) =
    pre_loop len (mkPre (ps_nodes st + size t - 1)
                        (N.max (ps_depth st) (N.of_nat (length (ps_stack st)) + depth t))
                        (ps_stack st)) (pos + blen (print t)) rest.

Lemma is_close_not_open : forall c, is_close c = true -> is_open c = false.
Proof.
  intros c H. unfold is_open, is_close, LPAREN, LBRACE, RPAREN, RBRACE in *. apply orb_true_iff in H.
  destruct H as [H|H]; apply N.eqb_eq in H; subst; reflexivity.
Qed.

Lemma kids_pre : forall (openc closec opos : N) (stack0 : list (N * N)),
  is_close closec = true ->
  ((openc =? LPAREN) && (closec =? RBRACE)) || ((openc =? LBRACE) && (closec =? RPAREN)) = false ->
  forall rs, rs <> [] -> Forall P1 rs ->
  forall len nodes dep pos rest,
    pos + blen (commas rs) + 1 + blen rest = len ->
    N.of_nat (length stack0) + 1 <= dep ->
    follow_ok stack0 rest ->
    pre_loop len (mkPre nodes dep ((openc, opos) :: stack0)) pos (commas rs ++ closec :: rest) =
    pre_loop len (mkPre (nodes + size_list rs) (N.max dep (N.of_nat (length stack0) + 1 + depth_list rs)) stack0)
             (pos + blen (commas rs) + 1) rest.
Proof.
  intros openc closec opos stack0 Hc Hm rs.
  induction rs as [|c r IH]; intros Hne HF len nodes dep pos rest Hlen Hdep Hfol; [contradiction|].
  pose proof (Forall_inv HF) as Pc. pose proof (Forall_inv_tail HF) as Pr. pose proof (size_pos c) as Sc.
  destruct r as [|c2 r'].
  - (* last child, then the close *)
    change (commas [c]) with (print c) in *.
    rewrite (Pc len _ pos (closec :: rest)); cbn [ps_nodes ps_depth ps_stack length].
    + cbn [pre_loop]. unfold pre_step at 1. rewrite (is_close_not_open closec Hc), Hc.
      cbn [ps_stack]. rewrite Hm.
      assert (Hl0 : len =? 0 = false) by (apply N.eqb_neq; lia).
      destruct stack0 as [|[pc pp] stack0'].
      * (* outermost parenthesis: must be the end *)
        cbn in Hfol. subst rest. rewrite Hl0.
        replace (pos + blen (print c) <? len - 1) with false by (symmetry; apply N.ltb_ge; unfold blen in *; cbn [length] in *; lia).
        cbn [pre_loop ps_nodes ps_depth]. f_equal. f_equal; [cbn [size_list fold_right]; lia|].
        cbn [depth_list fold_right length N.of_nat]. lia.
      * destruct Hfol as (nx & r & -> & Hnx). rewrite Hl0.
        replace (pos + blen (print c) =? len - 1) with false by (symmetry; apply N.eqb_neq; unfold blen in *; cbn [length] in *; lia).
        replace (negb (nx =? RPAREN) && negb (nx =? RBRACE) && negb (nx =? COMMA)) with false.
        2:{ unfold is_close in Hnx. destruct (nx =? RPAREN), (nx =? RBRACE), (nx =? COMMA); cbn in Hnx; try discriminate; reflexivity. }
        cbn [ps_nodes ps_depth]. f_equal; try lia. f_equal; [cbn [size_list fold_right]; lia|].
        cbn [depth_list fold_right length]. lia.
    + unfold blen in *. cbn [length] in *. lia.
    + cbn [length]. lia.
    + destruct c as [n0 p0 [|]]; [exact I|]. cbn [follow_ok]. exists closec, rest. split; [reflexivity|]. rewrite Hc. reflexivity.
  - (* a child followed by a comma *)
    assert (EB : blen (commas (c :: c2 :: r')) = blen (print c) + 1 + blen (commas (c2 :: r'))).
    { change (commas (c :: c2 :: r')) with (print c ++ COMMA :: commas (c2 :: r')).
      rewrite blen_app2. unfold blen. cbn [length]. lia. }
    rewrite EB in *.
    change (commas (c :: c2 :: r')) with (print c ++ COMMA :: commas (c2 :: r')).
    rewrite <- app_assoc. cbn [app].
    assert (ER : blen (COMMA :: commas (c2 :: r') ++ closec :: rest) = 1 + blen (commas (c2 :: r')) + 1 + blen rest).
    { unfold blen. cbn [length]. rewrite app_length. cbn [length]. lia. }
    rewrite (Pc len _ pos (COMMA :: commas (c2 :: r') ++ closec :: rest)); cbn [ps_nodes ps_depth ps_stack length].
    + cbn [pre_loop]. unfold pre_step at 1. change (is_open COMMA) with false. change (is_close COMMA) with false.
      change (COMMA =? COMMA) with true. cbv iota. cbn [ps_stack ps_nodes ps_depth].
      rewrite IH; try assumption; try discriminate; try lia.
      f_equal; try lia.
      f_equal; [cbn [size_list fold_right]; lia|]. cbn [depth_list fold_right]. lia.
    + rewrite ER. lia.
    + lia.
    + destruct c as [n0 p0 [|]]; [exact I|]. cbn [follow_ok]. exists COMMA, (commas (c2 :: r') ++ closec :: rest). split; reflexivity.
Qed.

Lemma P1_internal : forall name p cs openc closec,
  open_of p = [openc] -> close_of p = [closec] ->
  is_open openc = true -> is_close closec = true ->
  ((openc =? LPAREN) && (closec =? RBRACE)) || ((openc =? LBRACE) && (closec =? RPAREN)) = false ->
  forallb nonstruct name = true -> cs <> [] -> Forall P1 cs -> P1 (ENode name p cs).
Proof.
  intros name p cs openc closec Ho Hc Io Ic Hm Hn Hne HF len st pos rest Hlen Hdep Hfol.
  destruct cs as [|c0 r0]; [contradiction|].
  rewrite depth_eq, size_eq. rewrite print_eq, Ho, Hc in *.
  set (cs := c0 :: r0) in *.
  assert (EB : blen (name ++ [openc] ++ commas cs ++ [closec]) = blen name + 1 + blen (commas cs) + 1).
  { rewrite !blen_app2. unfold blen. cbn [length]. lia. }
  rewrite EB in *.
  replace ((name ++ [openc] ++ commas cs ++ [closec]) ++ rest) with (name ++ openc :: commas cs ++ closec :: rest)
    by (rewrite <- !app_assoc; reflexivity).
  rewrite pre_loop_name by assumption. cbn [pre_loop]. unfold pre_step at 1. rewrite Io.
  destruct st as [nodes dep stack]. cbn [ps_nodes ps_depth ps_stack] in *.
  rewrite (kids_pre openc closec (pos + blen name) stack Ic Hm cs Hne HF len); try assumption.
  - f_equal; try lia. f_equal; [lia|]. cbn [length]. destruct (N.ltb_spec dep (N.of_nat (S (length stack)))); lia.
  - lia.
  - cbn [length]. destruct (N.ltb_spec dep (N.of_nat (S (length stack)))); lia.
Qed.

Lemma pass1_print : forall t, swf t = true -> P1 t.
Proof.
  intro t. induction t as [name p cs IH] using etree_ind'. intro H.
  cbn [swf] in H. apply andb_true_iff in H. destruct H as [Hn Hk].
  assert (HF : Forall P1 cs).
  { destruct cs as [|c r]; [constructor|]. destruct p; [discriminate| |];
      (rewrite forallb_forall in Hk; apply Forall_forall; intros x Hx;
       rewrite Forall_forall in IH; apply IH; [assumption|apply Hk; assumption]). }
  destruct cs as [|c r].
  - destruct p; try discriminate.
    intros len st pos rest Hlen Hdep _. rewrite print_eq. cbn [open_of close_of commas app]. rewrite app_nil_r.
    rewrite pre_loop_name by assumption. rewrite size_eq, depth_leaf. destruct st as [nodes dep stack].
    cbn [ps_nodes ps_depth ps_stack size_list fold_right] in *. f_equal. f_equal; lia.
  - destruct p; [discriminate| |].
    + apply (P1_internal name PRound (c :: r) LPAREN RPAREN); try reflexivity; try assumption. discriminate.
    + apply (P1_internal name PCurly (c :: r) LBRACE RBRACE); try reflexivity; try assumption. discriminate.
Qed.
