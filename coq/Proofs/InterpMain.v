(* C13: the statements about the faithful (iterative) interpreter model, assembled from
   InterpRefine.v (iterative = recursive), InterpSound.v (recursive form sound, traces exact)
   and InterpComplete.v (table satisfactions accepted). *)
From Verif Require Import Exec ExecTrace Ser Ast Types TypeCheck ExecLemmas TheoremA SatSpec InterpModel InterpRefine InterpSound InterpWitness InterpComplete.
From Coq Require Import Lia.
Local Open Scope N_scope.

(* arithmetic facts about script-number encoding (same hypotheses as C01/Theorem A) *)
Definition num_facts : Prop :=
  (forall z, (0 <= z < 2147483648)%Z -> num_operand 4 (num_encode z) = Some z) /\
  (forall z, (0 <= z < 2147483648)%Z -> num_operand 5 (num_encode z) = Some z) /\
  (forall z, (0 < z < 2147483648)%Z -> truthy (num_encode z) = true) /\
  (forall v z, num_operand 4 v = Some z -> truthy v = negb (z =? 0)%Z).

(* what the theorem needs to know about keys and signatures: the script's keys are acceptable
   encodings for the signature version, a pushed key the interpreter manages to parse is one as
   well, and the empty byte string is not a valid signature *)
Definition keys_ok (e : env) (ke : keyenv) (kp : bytes -> bool) : Prop :=
  (forall k, e_keyok e (kb ke k) = true) /\ (forall b, kp b = true -> e_keyok e b = true) /\
  (forall k, e_sigok e k [] = false).

Definition items_small (items : list bytes) : Prop := Forall (fun b => blen b < 2147483648) items.

(* interp_sound: no hypothesis about lock time, sequence or version *)
Lemma interp_sound_env (e : env) (ke : keyenv) (kp : bytes -> bool) :
  num_facts -> keys_ok e ke kp ->
  forall (m : ms) (t : ty) (items : list bytes) (cs : list constr),
    type_of m = ROk t -> c_base (t_corr t) = BB -> iwf e m -> icover m -> items_small items ->
    interp e ke kp m (astack_of_items items) = IAccept cs ->
    accepts e (enc ke m) (rev items) = true.
Proof.
  intros [H1 [H2 [H3 H4]]] [Hk1 [Hk2 Hk3]] m t items cs Ht Hb Hwf Hc Hsz H.
  rewrite interp_eq_rec in H.
  exact (interp_rec_sound e ke kp H1 H2 H3 H4 Hk1 Hk2 Hk3 m t items cs Ht Hb Hwf Hc Hsz H).
Qed.

(* constraints_exact: the instrumented execution of the encoded script accepts and the checks of
   the executed path are exactly the reported constraints, in order *)
Lemma interp_exact_env (e : env) (ke : keyenv) (kp : bytes -> bool) :
  num_facts -> keys_ok e ke kp ->
  forall (m : ms) (t : ty) (items : list bytes) (cs : list constr),
    type_of m = ROk t -> c_base (t_corr t) = BB -> iwf e m -> icover m -> items_small items ->
    interp e ke kp m (astack_of_items items) = IAccept cs ->
    accepts_tr e (enc ke m) (rev items) = Some (map check_of cs).
Proof.
  intros [H1 [H2 [H3 H4]]] [Hk1 [Hk2 Hk3]] m t items cs Ht Hb Hwf Hc Hsz H.
  rewrite interp_eq_rec in H.
  exact (interp_rec_exact e ke kp H1 H2 H3 H4 Hk1 Hk2 Hk3 m t items cs Ht Hb Hwf Hc Hsz H).
Qed.

(* interp_complete on the specification's satisfaction table (what the satisfier answers from) *)
Definition assets_fit (e : env) (ke : keyenv) (kp : bytes -> bool) (A : assets) : Prop :=
  assets_ok e ke A /\ (forall k s, SatSpec.a_sig A k = Some s -> s <> [1]) /\
  (forall k, kb ke k <> [1]) /\ (forall k, kp (kb ke k) = true) /\
  (forall kbs, e_sigok e kbs [] = false).

Lemma interp_complete_sat (e : env) (ke : keyenv) (kp : bytes -> bool) (A : assets) :
  num_facts -> assets_fit e ke kp A ->
  forall (m : ms) (t : ty) (w : wit),
    type_of m = ROk t -> c_base (t_corr t) = BB -> wf e ke m -> ccover m ->
    In w (all_sat ke A m) -> exists cs, interp e ke kp m (astack_of_items (rev w)) = IAccept cs.
Proof.
  intros [H1 [H2 [H3 H4]]] [HA [Hs1 [Hk1 [Hkp Hse]]]] m t w.
  exact (interp_complete_table e ke kp A H1 H2 H3 H4 Hse HA Hs1 Hk1 Hkp m t w).
Qed.

(* non-vacuity: the hypotheses are satisfiable together with an accepting run, in an environment
   with a lock time and a non-final sequence *)
Lemma sound_nonvacuous :
  keys_ok (toy_env 100 4294967294 2) toy_ke toy_kp /\
  (exists t, type_of m_after = ROk t /\ c_base (t_corr t) = BB) /\ iwf (toy_env 100 4294967294 2) m_after /\ icover m_after /\
  items_small [toy_sig] /\
  interp (toy_env 100 4294967294 2) toy_ke toy_kp m_after (astack_of_items [toy_sig]) = IAccept [CsPk [2; 0] toy_sig; CsAfter 10].
Proof.
  split; [repeat split; intros; reflexivity|].
  split; [exact m_after_typed|]. split; [cbn; lia|]. split; [cbn; tauto|].
  split; [repeat constructor|]. vm_compute. reflexivity.
Qed.
