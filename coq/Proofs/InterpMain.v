(* C13: the statements about the faithful (iterative) interpreter model, assembled from
   InterpRefine.v (iterative = recursive), InterpSound.v (recursive form sound, traces exact)
   and InterpComplete.v (table satisfactions accepted). *)
From Verif Require Import Exec ExecTrace Ser Ast Types TypeCheck ExecLemmas TheoremA SatSpec InterpModel InterpRefine InterpSound InterpWitness InterpComplete.
From Verif Require Import ScriptNumProofs DenotSpec DenotMain InterpDenot.
From Verif Require ValidateModel.
From Coq Require Import Lia.
Local Open Scope N_scope.

(* arithmetic facts about script-number encoding (same hypotheses as C01/Theorem A) *)
Definition num_facts : Prop :=
  (forall z, (0 <= z < 2147483648)%Z -> num_operand 4 (num_encode z) = Some z) /\
  (forall z, (0 <= z < 2147483648)%Z -> num_operand 5 (num_encode z) = Some z) /\
  (forall z, (0 < z < 2147483648)%Z -> truthy (num_encode z) = true) /\
  (forall v z, num_operand 4 v = Some z -> truthy v = negb (z =? 0)%Z).

(* ... which are theorems (Proofs/ScriptNumProofs.v) *)
Lemma num_facts_hold : num_facts.
Proof.
  split; [|split; [|split]].
  - intros z Hz. apply num_roundtrip; [lia | exact Hz].
  - intros z Hz. apply num_roundtrip; [lia | exact Hz].
  - exact num_truthy.
  - intros v z H. exact (num_truthy_iff 4 v z H).
Qed.

(* what the theorem needs to know about keys and signatures: the script's keys are acceptable
   encodings for the signature version, a pushed key the interpreter manages to parse is one as
   well, and the empty byte string is not a valid signature *)
Definition keys_ok (e : env) (ke : keyenv) (kp : bytes -> bool) : Prop :=
  (forall k, e_keyok e (kb ke k) = true) /\ (forall b, kp b = true -> e_keyok e b = true) /\
  (forall k, e_sigok e k [] = false).

Definition items_small (items : list bytes) : Prop := Forall (fun b => blen b < 2147483648) items.

(* interp_sound: no hypothesis about lock time, sequence or version *)
Lemma interp_sound_env (e : env) (ke : keyenv) (kp : bytes -> bool) :
  keys_ok e ke kp ->
  forall (m : ms) (t : ty) (items : list bytes) (cs : list constr),
    type_of m = ROk t -> c_base (t_corr t) = BB -> iwf e m -> icover m -> items_small items ->
    interp e ke kp m (astack_of_items items) = IAccept cs ->
    accepts e (enc ke m) (rev items) = true.
Proof.
  destruct num_facts_hold as [H1 [H2 [H3 H4]]]. intros [Hk1 [Hk2 Hk3]] m t items cs Ht Hb Hwf Hc Hsz H.
  rewrite interp_eq_rec in H.
  exact (interp_rec_sound e ke kp H1 H2 H3 H4 Hk1 Hk2 Hk3 m t items cs Ht Hb Hwf Hc Hsz H).
Qed.

(* constraints_exact: the instrumented execution of the encoded script accepts and the checks of
   the executed path are exactly the reported constraints, in order *)
Lemma interp_exact_env (e : env) (ke : keyenv) (kp : bytes -> bool) :
  keys_ok e ke kp ->
  forall (m : ms) (t : ty) (items : list bytes) (cs : list constr),
    type_of m = ROk t -> c_base (t_corr t) = BB -> iwf e m -> icover m -> items_small items ->
    interp e ke kp m (astack_of_items items) = IAccept cs ->
    accepts_tr e (enc ke m) (rev items) = Some (map check_of cs).
Proof.
  destruct num_facts_hold as [H1 [H2 [H3 H4]]]. intros [Hk1 [Hk2 Hk3]] m t items cs Ht Hb Hwf Hc Hsz H.
  rewrite interp_eq_rec in H.
  exact (interp_rec_exact e ke kp H1 H2 H3 H4 Hk1 Hk2 Hk3 m t items cs Ht Hb Hwf Hc Hsz H).
Qed.

(* interp_complete on the specification's satisfaction table (what the satisfier answers from) *)
Definition assets_fit (e : env) (ke : keyenv) (kp : bytes -> bool) (A : assets) : Prop :=
  assets_ok e ke A /\ (forall k s, SatSpec.a_sig A k = Some s -> s <> [1]) /\
  (forall k, kb ke k <> [1]) /\ (forall k, kp (kb ke k) = true) /\
  (forall kbs, e_sigok e kbs [] = false).

Lemma interp_complete_sat (e : env) (ke : keyenv) (kp : bytes -> bool) (A : assets) :
  assets_fit e ke kp A ->
  forall (m : ms) (t : ty) (w : wit),
    type_of m = ROk t -> c_base (t_corr t) = BB -> wf e ke m -> ccover m ->
    In w (all_sat ke A m) -> exists cs, interp e ke kp m (astack_of_items (rev w)) = IAccept cs.
Proof.
  destruct num_facts_hold as [H1 [H2 [H3 H4]]]. intros [HA [Hs1 [Hk1 [Hkp Hse]]]] m t w.
  exact (interp_complete_table e ke kp A H1 H2 H3 H4 Hse HA Hs1 Hk1 Hkp m t w).
Qed.

(* non-vacuity: the hypotheses are satisfiable together with an accepting run, in an environment
   with a lock time and a non-final sequence *)
Lemma sound_nonvacuous :
  keys_ok (toy_env 100 4294967294 2) toy_ke toy_kp /\
  (exists t, type_of m_after = ROk t /\ c_base (t_corr t) = BB) /\ iwf (toy_env 100 4294967294 2) m_after /\ icover m_after /\
  items_small [toy_sig] /\
  interp (toy_env 100 4294967294 2) toy_ke toy_kp m_after (astack_of_items [toy_sig]) = IAccept [CsPk [2; 0] toy_sig; CsAfter 10].
Proof.
  split; [repeat split; intros; reflexivity|].
  split; [exact m_after_typed|]. split; [cbn; lia|]. split; [cbn; tauto|].
  split; [repeat constructor|]. vm_compute. reflexivity.
Qed.

(* ------------------------------------------------------------------ round 3: against the exact
   semantics of the script (Theorem B, Ms/DenotSpec.v) *)

(* the well-formedness of the specification implies the one the interpreter theorems use *)
Lemma wf_iwf (e : env) (ke : keyenv) : forall m, wf e ke m -> iwf e m.
Proof.
  induction m using ms_ind'; cbn [wf iwf]; try tauto.
  - intros [Hk [Hn Hw]]. split; [exact Hk|]. split; [exact Hn|].
    clear Hk Hn. induction H as [|x r Hx Hr IHr]; [exact I|]. destruct Hw as [Hw1 Hw2]. split; [apply Hx, Hw1 | apply IHr, Hw2].
  - intros [Hk [Hn [Ht _]]]. unfold tap in Ht. split; [|split; assumption].
    intros E. rewrite E in Ht. discriminate.
  - intros [Hk [Hn [Ht _]]]. unfold tap in Ht. split; [|split; assumption].
    destruct (e_sv e); try discriminate; reflexivity.
Qed.

(* what the iff needs to know about keys and signatures:
     the script's keys are acceptable encodings for the signature version;
     the interpreter's key parser accepts exactly the acceptable encodings;
     an acceptable key is neither empty nor the byte 01, and neither the empty string nor the byte
     01 is a valid signature (the interpreter reads both as booleans -- Element::from) *)
Definition env_fit (e : env) (ke : keyenv) (kp : bytes -> bool) : Prop :=
  (forall k, e_keyok e (kb ke k) = true) /\
  (forall b, kp b = true <-> e_keyok e b = true) /\
  (forall b, e_keyok e b = true -> b <> [] /\ b <> [1]) /\
  (forall k, e_sigok e k [] = false) /\ (forall k, e_sigok e k [1] = false).

Lemma env_fit_keys_ok e ke kp : env_fit e ke kp -> keys_ok e ke kp.
Proof. intros [H1 [H2 [_ [H4 _]]]]. split; [exact H1|]. split; [intros b Hb; apply H2, Hb | exact H4]. Qed.

(* interp_complete against the script: every stack the encoded script accepts *)
Lemma interp_complete_env (e : env) (ke : keyenv) (kp : bytes -> bool) :
  env_fit e ke kp ->
  forall (m : ms) (t : ty) (w : wit),
    type_of m = ROk t -> c_base (t_corr t) = BB -> wf e ke m -> icover m -> isel e m ->
    accepts e (enc ke m) w = true -> exists cs, interp e ke kp m (astack_of_items (rev w)) = IAccept cs.
Proof.
  intros [H1 [H2 [H3 [H4 H5]]]] m t w.
  apply (interp_complete_script e ke kp); try assumption.
  intros b Hb. split; [apply H2, Hb | apply H3, Hb].
Qed.

(* the same for dissatisfactions and every intermediate result: whatever the relation [R] of
   Theorem B contains, the evaluator computes -- stated on whole witnesses of the satisfied kind *)
Lemma interp_complete_Rsat (e : env) (ke : keyenv) (kp : bytes -> bool) :
  env_fit e ke kp ->
  forall (m : ms) (t : ty) (w : wit),
    type_of m = ROk t -> c_base (t_corr t) = BB -> wf e ke m -> icover m -> isel e m ->
    Rsat e ke m w -> exists cs, interp e ke kp m (astack_of_items (rev w)) = IAccept cs.
Proof.
  intros [H1 [H2 [H3 [H4 H5]]]] m t w.
  apply (interp_complete_R e ke kp); try assumption.
  intros b Hb. split; [apply H2, Hb | apply H3, Hb].
Qed.

(* soundness and completeness together *)
Lemma interp_iff_env (e : env) (ke : keyenv) (kp : bytes -> bool) :
  env_fit e ke kp ->
  forall (m : ms) (t : ty) (items : list bytes),
    type_of m = ROk t -> c_base (t_corr t) = BB -> wf e ke m -> icover m -> isel e m -> items_small items ->
    ((exists cs, interp e ke kp m (astack_of_items items) = IAccept cs) <-> accepts e (enc ke m) (rev items) = true).
Proof.
  intros Hfit m t items Ht Hb Hwf Hc Hsl Hsz. split.
  - intros [cs H].
    exact (interp_sound_env e ke kp (env_fit_keys_ok _ _ _ Hfit) m t items cs Ht Hb (wf_iwf e ke m Hwf) Hc Hsz H).
  - intros H. rewrite <- (rev_involutive items).
    exact (interp_complete_env e ke kp Hfit m t (rev items) Ht Hb Hwf Hc Hsl H).
Qed.

(* ... and the constraints reported on an accepted stack are the checks of that execution *)
Lemma interp_iff_exact_env (e : env) (ke : keyenv) (kp : bytes -> bool) :
  env_fit e ke kp ->
  forall (m : ms) (t : ty) (items : list bytes),
    type_of m = ROk t -> c_base (t_corr t) = BB -> wf e ke m -> icover m -> isel e m -> items_small items ->
    accepts e (enc ke m) (rev items) = true ->
    exists cs, interp e ke kp m (astack_of_items items) = IAccept cs /\
               accepts_tr e (enc ke m) (rev items) = Some (map check_of cs).
Proof.
  intros Hfit m t items Ht Hb Hwf Hc Hsl Hsz H.
  destruct (proj2 (interp_iff_env e ke kp Hfit m t items Ht Hb Hwf Hc Hsl Hsz) H) as [cs Hcs].
  exists cs. split; [exact Hcs|].
  exact (interp_exact_env e ke kp (env_fit_keys_ok _ _ _ Hfit) m t items cs Ht Hb (wf_iwf e ke m Hwf) Hc Hsz Hcs).
Qed.

Lemma fit_env_fit sv l s v : env_fit (fit_env sv l s v) toy_ke shape_key.
Proof.
  split; [intros k; reflexivity|]. split; [intros b; cbn; tauto|].
  split; [intros b Hb; split; intros ->; discriminate|]. split; intros k; reflexivity.
Qed.

(* the hypothesis [isel] of interp_complete is needed: under the base signature version (a P2SH
   output, sh(or_i(pk(A),pk(B)))) every other hypothesis holds, the script accepts the stack
   <sig> 02, and the interpreter rejects it *)
Lemma interp_complete_base_selector_refuted :
  exists (e : env) (ke : keyenv) (kp : bytes -> bool) (m : ms) (t : ty) (w : wit),
    env_fit e ke kp /\ type_of m = ROk t /\ c_base (t_corr t) = BB /\ wf e ke m /\ icover m /\
    items_small (rev w) /\ e_sv e = SvBase /\
    accepts e (enc ke m) w = true /\
    forall cs, interp e ke kp m (astack_of_items (rev w)) <> IAccept cs.
Proof.
  destruct m_ori_typed as [t [Ht Hb]].
  exists (fit_env SvBase 0 0 2), toy_ke, shape_key, m_ori, t, [[2]; toy_sig].
  split; [apply fit_env_fit|]. split; [exact Ht|]. split; [exact Hb|]. split; [cbn; tauto|]. split; [cbn; tauto|].
  split; [repeat constructor|]. split; [reflexivity|].
  destruct base_selector_witness as [Ha _]. split; [exact Ha|].
  intros cs Hc. vm_compute in Hc. discriminate.
Qed.

(* non-vacuity of the iff: all hypotheses hold and both sides are true, on a satisfaction that is
   NOT in the specification's table (or_b with both sides satisfied) *)
Lemma iff_nonvacuous :
  exists (e : env) (ke : keyenv) (kp : bytes -> bool) (m : ms) (t : ty) (items : list bytes),
    env_fit e ke kp /\ type_of m = ROk t /\ c_base (t_corr t) = BB /\ wf e ke m /\ icover m /\ isel e m /\
    items_small items /\ accepts e (enc ke m) (rev items) = true /\
    interp e ke kp m (astack_of_items items) = IAccept [CsPk [2; 0] toy_sig; CsPk [2; 1] toy_sig].
Proof.
  destruct m_orb_typed as [t [Ht Hb]].
  exists (fit_env SvWitnessV0 0 0 2), toy_ke, shape_key, m_orb, t, [toy_sig; toy_sig].
  split; [apply fit_env_fit|]. split; [exact Ht|]. split; [exact Hb|]. split; [cbn; tauto|]. split; [cbn; tauto|].
  split; [cbn; tauto|]. split; [repeat constructor|].
  destruct noncanonical_witness as [Ha [Hi _]]. split; [exact Ha | exact Hi].
Qed.

(* [isel] is the language rule "no d: / or_i where there is no MINIMALIF" ... *)
Lemma isel_language_rule (e : env) (m : ms) : isel e m <-> lang_ok (e_sv e) m = true.
Proof. exact (isel_iff_lang e m). Qed.

(* ... which is what the library's contexts enforce at decoding (model of ValidationParams,
   Ms/ValidateModel.v): the pre-segwit contexts, and only they, forbid both fragments *)
Definition ctx_sv (c : ValidateModel.ctx) : sigversion :=
  match c with ValidateModel.CBare | ValidateModel.CLegacy => SvBase
             | ValidateModel.CSegwitv0 => SvWitnessV0 | ValidateModel.CTap => SvTapscript end.
Lemma context_if_rule : forall c,
  ValidateModel.allow_or_i (ValidateModel.ctx_consensus c) = minimalif (ctx_sv c) /\
  ValidateModel.allow_dup_if (ValidateModel.ctx_consensus c) = minimalif (ctx_sv c).
Proof. destruct c; split; reflexivity. Qed.
