(* C09: the threshold rule. Sorting lemmas (stable insertion sort of ExtModel.th_sort), the
   "top-k by difference" exchange argument, and the resulting bound for th_sat_data. *)
From Coq Require Import Lia Permutation.
From Verif Require Import TypeCheck ExtModel ExtProofs ExtLemmas.
Local Open Scope N_scope.

Arguments N.add : simpl never. Arguments N.mul : simpl never. Arguments N.sub : simpl never.
Arguments N.max : simpl never. Arguments N.of_nat : simpl never. Arguments N.leb : simpl never.
Arguments N.ltb : simpl never. Arguments N.eqb : simpl never.

(* ------------------------------------------------------------------ the order on Option<isize> *)
Lemma okey_le_total a b : okey_le a b = true \/ okey_le b a = true.
Proof. destruct a, b; cbn; auto. destruct (Z.leb_spec z z0); [auto|right; apply Z.leb_le; lia]. Qed.
Lemma okey_le_trans a b c : okey_le a b = true -> okey_le b c = true -> okey_le a c = true.
Proof.
  destruct a, b, c; cbn; auto; try discriminate.
  intros H1 H2. apply Z.leb_le in H1. apply Z.leb_le in H2. apply Z.leb_le. lia.
Qed.

Section Sort.
  Context {A : Type} (key : A -> option Z).
  Definition kle (a b : A) : Prop := okey_le (key a) (key b) = true.
  Fixpoint asc (l : list A) : Prop := match l with [] => True | x :: r => Forall (kle x) r /\ asc r end.
  Fixpoint desc (l : list A) : Prop := match l with [] => True | x :: r => Forall (fun y => kle y x) r /\ desc r end.

  Lemma th_ins_perm x l : Permutation (th_ins key x l) (x :: l).
  Proof.
    induction l as [|y r IH]; cbn [th_ins]; [apply Permutation_refl|].
    destruct (okey_le (key y) (key x)); [|apply Permutation_refl].
    eapply Permutation_trans; [apply perm_skip, IH|]. apply perm_swap.
  Qed.
  Lemma th_ins_asc x l : asc l -> asc (th_ins key x l).
  Proof.
    induction l as [|y r IH]; cbn [th_ins asc]; [auto|]. intros [Hy Hr].
    destruct (okey_le (key y) (key x)) eqn:E.
    - cbn [asc]. split; [|auto].
      eapply Permutation_Forall; [apply Permutation_sym, th_ins_perm|]. constructor; auto.
    - cbn [asc]. assert (Hxy : kle x y).
      { unfold kle. destruct (okey_le_total (key x) (key y)) as [H|H]; [exact H|]. rewrite H in E. discriminate. }
      split; [|split; auto]. constructor; [exact Hxy|].
      eapply Forall_impl; [|exact Hy]. intros z Hz. unfold kle in *. eapply okey_le_trans; eauto.
  Qed.
  Lemma fold_ins_perm l acc : Permutation (fold_left (fun a x => th_ins key x a) l acc) (l ++ acc).
  Proof.
    revert acc. induction l as [|x r IH]; intros acc; cbn [fold_left app]; [apply Permutation_refl|].
    eapply Permutation_trans; [apply IH|].
    eapply Permutation_trans; [apply Permutation_app_head, th_ins_perm|].
    apply Permutation_sym, Permutation_middle.
  Qed.
  Lemma fold_ins_asc l acc : asc acc -> asc (fold_left (fun a x => th_ins key x a) l acc).
  Proof. revert acc. induction l as [|x r IH]; intros acc H; cbn [fold_left]; [auto|]. apply IH, th_ins_asc, H. Qed.
  Lemma th_sort_perm l : Permutation (th_sort key l) l.
  Proof. unfold th_sort. eapply Permutation_trans; [apply fold_ins_perm|]. rewrite app_nil_r. apply Permutation_refl. Qed.
  Lemma th_sort_asc l : asc (th_sort key l).
  Proof. unfold th_sort. apply fold_ins_asc. exact I. Qed.

  Lemma desc_snoc l x : desc l -> Forall (kle x) l -> desc (l ++ [x]).
  Proof.
    induction l as [|y r IH]; cbn [app desc]; [intros; split; auto|].
    intros [Hy Hr] Hx. inversion Hx; subst. split; [|auto].
    apply Forall_app. split; [exact Hy|]. constructor; auto.
  Qed.
  Lemma asc_rev_desc l : asc l -> desc (rev l).
  Proof.
    induction l as [|x r IH]; cbn [rev asc]; [auto|]. intros [Hx Hr].
    apply desc_snoc; [auto|]. apply Forall_rev, Hx.
  Qed.
End Sort.

Lemma th_ins_map {A B} (g : A -> B) (key : B -> option Z) x l :
  map g (th_ins (fun a => key (g a)) x l) = th_ins key (g x) (map g l).
Proof.
  induction l as [|y r IH]; cbn [th_ins map]; [reflexivity|].
  destruct (okey_le (key (g y)) (key (g x))); cbn [map]; [rewrite IH|]; reflexivity.
Qed.
Lemma th_sort_map {A B} (g : A -> B) (key : B -> option Z) l :
  map g (th_sort (fun a => key (g a)) l) = th_sort key (map g l).
Proof.
  unfold th_sort. change (@nil B) with (map g (@nil A)). generalize (@nil A).
  induction l as [|x r IH]; intros acc; cbn [fold_left map]; [reflexivity|].
  rewrite IH, th_ins_map. reflexivity.
Qed.

(* ------------------------------------------------------------------ th_fold with an explicit quota *)
Fixpoint th_foldq (proj : satdata -> N) (cmb : N -> N -> N) (q : nat) (acc : N) (l : list sdpair) : option N :=
  match l with
  | [] => Some acc
  | (s, d) :: r =>
    match q with
    | S q' => match s with None => None | Some x => th_foldq proj cmb q' (cmb acc (proj x)) r end
    | O => match d with None => None | Some y => th_foldq proj cmb O (cmb acc (proj y)) r end
    end
  end.

Lemma th_fold_strict_q proj cmb k l : forall i acc,
  th_fold true proj cmb k i acc l = th_foldq proj cmb (N.to_nat (k - i)) acc l.
Proof.
  induction l as [|[s d] r IH]; intros i acc; cbn [th_fold th_foldq]; [reflexivity|].
  destruct (N.ltb_spec i k) as [Hlt|Hge].
  - replace (N.to_nat (k - i)) with (S (N.to_nat (k - (i + 1)))) by lia.
    destruct s; [apply IH|reflexivity].
  - replace (N.to_nat (k - i)) with O by lia.
    destruct d; [|reflexivity]. rewrite IH. replace (N.to_nat (k - (i + 1))) with O by lia. reflexivity.
Qed.
Lemma th_fold_nonstrict proj cmb k l : forall i acc,
  th_fold false proj cmb k i acc l = th_fold true proj cmb (k + 1) i acc l.
Proof.
  induction l as [|[s d] r IH]; intros i acc; cbn [th_fold]; [reflexivity|].
  replace (i <? k + 1) with (i <=? k).
  2:{ destruct (N.leb_spec i k), (N.ltb_spec i (k + 1)); auto; lia. }
  destruct (i <=? k); [destruct s|destruct d]; auto.
Qed.
Definition quota (strict : bool) (k : N) : nat := N.to_nat (if strict then k else k + 1).
Lemma th_fold_quota strict proj cmb k l :
  th_fold strict proj cmb k 0 0 l = th_foldq proj cmb (quota strict k) 0 l.
Proof.
  unfold quota. destruct strict.
  - rewrite th_fold_strict_q. f_equal. lia.
  - rewrite th_fold_nonstrict, th_fold_strict_q. f_equal. lia.
Qed.

(* ------------------------------------------------------------------ children with a choice flag *)
Definition trip := (sdpair * bool)%type.
Definition pickv (proj : satdata -> N) (t : trip) : N :=
  match t with
  | ((Some s, _), true) => proj s
  | ((_, Some d), false) => proj d
  | _ => 0
  end.
Definition V (proj : satdata -> N) (L : list trip) : N := sum_map (pickv proj) L.
Definition nflags (L : list trip) : nat := length (filter snd L).
(* every child has a dissatisfaction figure; a chosen child has a satisfaction figure *)
Definition okT (t : trip) : Prop :=
  (exists d, snd (fst t) = Some d) /\ (snd t = true -> exists s, fst (fst t) = Some s).

Lemma V_cons proj t L : V proj (t :: L) = pickv proj t + V proj L.
Proof. reflexivity. Qed.

(* un-flag the first chosen child *)
Lemma unflag_first proj (r : list trip) :
  Forall okT r -> (0 < nflags r)%nat ->
  exists r' us ud,
    map fst r' = map fst r /\ nflags r' = pred (nflags r) /\ Forall okT r'
    /\ In (Some us, Some ud) (map fst r)
    /\ V proj r + proj ud = V proj r' + proj us.
Proof.
  induction r as [|[[s d] f] r IH]; intros Hok Hn; [cbn in Hn; lia|].
  inversion Hok as [|? ? [Hd Hs] Hok']; subst. cbn [fst snd] in Hd, Hs.
  destruct f.
  - destruct (Hs eq_refl) as [ss ->]. destruct Hd as [dd ->].
    exists (((Some ss, Some dd), false) :: r), ss, dd.
    split; [reflexivity|]. split; [reflexivity|].
    split; [constructor; [split; cbn; [eauto|discriminate]|exact Hok']|].
    split; [left; reflexivity|].
    rewrite !V_cons. cbn [pickv]. lia.
  - assert (Hn' : (0 < nflags r)%nat) by exact Hn.
    destruct (IH Hok' Hn') as (r' & us & ud & Em & En & Eok & Ein & Ev).
    exists (((s, d), false) :: r'), us, ud.
    split; [cbn [map fst]; rewrite Em; reflexivity|].
    split; [exact En|].
    split; [constructor; [split; cbn; auto|exact Eok]|].
    split; [right; exact Ein|].
    rewrite !V_cons. rewrite <- !N.add_assoc, Ev. reflexivity.
Qed.

Lemma nflags_le_length (L : list trip) : (nflags L <= length L)%nat.
Proof.
  unfold nflags. induction L as [|x r IH]; cbn [filter length]; [lia|].
  destruct (snd x); cbn [length]; lia.
Qed.

(* the exchange argument: on children sorted by decreasing (sat - dissat), giving the first
   [q] children their satisfaction figure and the others their dissatisfaction figure
   dominates every choice of exactly min(q, n) satisfied children *)
Lemma topk_n proj cmb : forall n (L : list trip) q acc,
  length L = n ->
  desc (th_key proj) (map fst L) -> Forall okT L -> nflags L = Nat.min q (length L) ->
  exists v, th_foldq proj cmb q acc (map fst L) = Some v
            /\ (cmb = cmb_add -> acc + V proj L <= v).
Proof.
  induction n as [|n IH]; intros L q acc Hlen Hd Hok Hn.
  - destruct L; [|discriminate]. exists acc. split; [reflexivity|]. intros _. change (V proj []) with 0. lia.
  - destruct L as [|[[s d] f] r]; [discriminate|]. cbn [length] in Hlen. assert (Hlr : length r = n) by lia.
    inversion Hok as [|? ? [Hdd Hss] Hok']; subst. cbn [fst snd] in Hdd, Hss.
    destruct Hdd as [dd ->]. cbn [map fst desc] in Hd. destruct Hd as [Hle Hd'].
    cbn [map fst th_foldq]. cbn [length] in Hn.
    destruct q as [|q'].
    + (* quota exhausted: nobody below is chosen *)
      cbn [Nat.min] in Hn. unfold nflags in Hn. cbn [filter snd] in Hn.
      destruct f; [cbn in Hn; discriminate|].
      destruct (IH r O (cmb acc (proj dd)) eq_refl Hd' Hok') as (v & Ev & Hv); [exact Hn|].
      exists v. split; [exact Ev|]. intros ->. specialize (Hv eq_refl). unfold cmb_add in Hv.
      rewrite V_cons. cbn [pickv]. destruct s; lia.
    + destruct f.
      * (* the top child is chosen *)
        destruct (Hss eq_refl) as [ss ->].
        assert (Hn' : nflags r = Nat.min q' (length r)).
        { unfold nflags in *. cbn [filter snd length] in Hn. lia. }
        destruct (IH r q' (cmb acc (proj ss)) eq_refl Hd' Hok' Hn') as (v & Ev & Hv).
        exists v. split; [exact Ev|]. intros ->. specialize (Hv eq_refl). unfold cmb_add in Hv.
        rewrite V_cons. cbn [pickv]. lia.
      * (* the top child is not chosen although quota remains: exchange with a chosen one below *)
        assert (Hnr : nflags r = S q').
        { pose proof (nflags_le_length r). unfold nflags in *. cbn [filter snd] in Hn. lia. }
        destruct (unflag_first proj r Hok') as (r' & us & ud & Em & En & Eok & Ein & Ev); [lia|].
        (* the chosen child below has a Some key, so the top child has one as well *)
        rewrite Forall_forall in Hle. specialize (Hle _ Ein). unfold kle in Hle. cbn [th_key] in Hle.
        destruct s as [ss|]; [|cbn in Hle; discriminate].
        cbn [okey_le] in Hle. apply Z.leb_le in Hle.
        assert (Hlr' : length r' = length r) by (rewrite <- (map_length fst r'), Em, map_length; reflexivity).
        assert (Hn' : nflags r' = Nat.min q' (length r')).
        { rewrite En, Hnr, Hlr'. pose proof (nflags_le_length r) as Hl. lia. }
        rewrite <- Em in Hd'.
        destruct (IH r' q' (cmb acc (proj ss)) Hlr' Hd' Eok Hn') as (v & Ev' & Hv).
        exists v. rewrite <- Em. split; [exact Ev'|]. intros ->. specialize (Hv eq_refl). unfold cmb_add in Hv.
        rewrite V_cons. cbn [pickv]. lia.
Qed.
Lemma topk proj cmb (L : list trip) q acc :
  desc (th_key proj) (map fst L) -> Forall okT L -> nflags L = Nat.min q (length L) ->
  exists v, th_foldq proj cmb q acc (map fst L) = Some v
            /\ (cmb = cmb_add -> acc + V proj L <= v).
Proof. apply (topk_n proj cmb (length L)). reflexivity. Qed.

(* ------------------------------------------------------------------ invariance under the sorts *)
Lemma V_perm proj L L' : Permutation L L' -> V proj L = V proj L'.
Proof.
  unfold V, sum_map. induction 1; cbn [fold_right]; try lia.
Qed.
Lemma nflags_perm L L' : Permutation L L' -> nflags L = nflags L'.
Proof.
  unfold nflags. induction 1; cbn [filter]; auto.
  - destruct (snd x); cbn [length]; lia.
  - destruct (snd x), (snd y); cbn [length]; lia.
  - lia.
Qed.

Definition tsort (proj : satdata -> N) (T : list trip) : list trip := th_sort (fun t => th_key proj (fst t)) T.
Lemma tsort_fst proj T : map fst (tsort proj T) = th_sort (th_key proj) (map fst T).
Proof. unfold tsort. apply (th_sort_map fst (th_key proj)). Qed.
Lemma tsort_perm proj T : Permutation (tsort proj T) T.
Proof. apply th_sort_perm. Qed.

(* one pass of the threshold computation, seen on flagged children *)
Lemma th_pass_bound strict proj cmb k (T : list trip) :
  Forall okT T -> nflags T = Nat.min (quota strict k) (length T) ->
  exists v, snd (th_pass strict proj cmb k (map fst T)) = Some v
            /\ fst (th_pass strict proj cmb k (map fst T)) = map fst (tsort proj T)
            /\ (cmb = cmb_add -> V proj T <= v).
Proof.
  intros Hok Hn. unfold th_pass. cbn [fst snd]. rewrite th_fold_quota, <- tsort_fst, <- map_rev.
  pose proof (tsort_perm proj T) as HP.
  destruct (topk proj cmb (rev (tsort proj T)) (quota strict k) 0) as (v & Ev & Hv).
  - rewrite map_rev, tsort_fst. apply asc_rev_desc, th_sort_asc.
  - apply Forall_rev. eapply Permutation_Forall; [apply Permutation_sym, HP|exact Hok].
  - rewrite rev_length, (Permutation_length HP).
    rewrite <- (nflags_perm _ _ (Permutation_rev (tsort proj T))), (nflags_perm _ _ HP). exact Hn.
  - exists v. split; [exact Ev|]. split; [reflexivity|]. intros Hc. specialize (Hv Hc).
    rewrite <- (V_perm proj _ _ (Permutation_rev (tsort proj T))), (V_perm proj _ _ HP) in Hv. lia.
Qed.

(* all five passes *)
Lemma th_sat_data_bound strict k (T : list trip) :
  Forall okT T -> nflags T = Nat.min (quota strict k) (length T) ->
  exists sd, th_sat_data strict k (map fst T) = Some sd
             /\ V sd_wcount T <= sd_wcount sd /\ V sd_wsize T <= sd_wsize sd /\ V sd_ssig T <= sd_ssig sd.
Proof.
  intros Hok Hn. unfold th_sat_data.
  assert (Hstep : forall T', Permutation T' T -> Forall okT T' /\ nflags T' = Nat.min (quota strict k) (length T')).
  { intros T' HP. split; [eapply Permutation_Forall; [apply Permutation_sym, HP|exact Hok]|].
    rewrite (nflags_perm _ _ HP), (Permutation_length HP). exact Hn. }
  (* pass 1: count *)
  destruct (th_pass_bound strict sd_wcount cmb_add k T Hok Hn) as (c & E1 & F1 & B1).
  destruct (th_pass strict sd_wcount cmb_add k (map fst T)) as [v1 f1] eqn:P1. cbn [fst snd] in E1, F1. subst v1 f1.
  set (T1 := tsort sd_wcount T). assert (HP1 : Permutation T1 T) by apply tsort_perm.
  destruct (Hstep T1 HP1) as [Hok1 Hn1].
  (* pass 2: size *)
  destruct (th_pass_bound strict sd_wsize cmb_add k T1 Hok1 Hn1) as (s & E2 & F2 & B2).
  destruct (th_pass strict sd_wsize cmb_add k (map fst T1)) as [v2 f2] eqn:P2. cbn [fst snd] in E2, F2. subst v2 f2.
  set (T2 := tsort sd_wsize T1). assert (HP2 : Permutation T2 T) by (eapply Permutation_trans; [apply tsort_perm|exact HP1]).
  destruct (Hstep T2 HP2) as [Hok2 Hn2].
  (* pass 3: script_sig *)
  destruct (th_pass_bound strict sd_ssig cmb_add k T2 Hok2 Hn2) as (g & E3 & F3 & B3).
  destruct (th_pass strict sd_ssig cmb_add k (map fst T2)) as [v3 f3] eqn:P3. cbn [fst snd] in E3, F3. subst v3 f3.
  set (T3 := tsort sd_ssig T2). assert (HP3 : Permutation T3 T) by (eapply Permutation_trans; [apply tsort_perm|exact HP2]).
  destruct (Hstep T3 HP3) as [Hok3 Hn3].
  (* pass 4: exec stack *)
  destruct (th_pass_bound strict sd_estack cmb_stack k T3 Hok3 Hn3) as (e & E4 & F4 & _).
  destruct (th_pass strict sd_estack cmb_stack k (map fst T3)) as [v4 f4] eqn:P4. cbn [fst snd] in E4, F4. subst v4 f4.
  set (T4 := tsort sd_estack T3). assert (HP4 : Permutation T4 T) by (eapply Permutation_trans; [apply tsort_perm|exact HP3]).
  destruct (Hstep T4 HP4) as [Hok4 Hn4].
  (* pass 5: exec ops *)
  destruct (th_pass_bound strict sd_eops cmb_add k T4 Hok4 Hn4) as (o & E5 & F5 & _).
  destruct (th_pass strict sd_eops cmb_add k (map fst T4)) as [v5 f5] eqn:P5. cbn [fst snd] in E5, F5. subst f5.
  exists (mkSD s c g e o). split; [reflexivity|]. cbn [sd_wcount sd_wsize sd_ssig].
  specialize (B1 eq_refl). specialize (B2 eq_refl). specialize (B3 eq_refl).
  rewrite (V_perm sd_wsize _ _ HP1) in B2. rewrite (V_perm sd_ssig _ _ HP2) in B3. auto.
Qed.
