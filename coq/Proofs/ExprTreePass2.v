(* Pass 2 of Tree::from_str_inner on the text of a tree: the node vector it builds is [flatten]. *)
From Coq Require Import List Bool Arith NArith Lia.
From Verif Require Import ChecksumModel ExprTreeModel ExprTreeTotal.
Import ListNotations.
Local Open Scope N_scope.

(* ---------------------------------------------------------------- the nested fixpoints, named *)
Definition commas : list etree -> bytes :=
  fix commas (l : list etree) : bytes :=
    match l with
    | [] => []
    | [c] => print c
    | c :: r => print c ++ COMMA :: commas r
    end.

Lemma print_eq : forall name p cs, print (ENode name p cs) = name ++ open_of p ++ commas cs ++ close_of p.
Proof. reflexivity. Qed.

Definition flat_kids (parent : N) : list etree -> N -> N -> list node :=
  fix go (l : list etree) (st ps : N) : list node :=
    match l with
    | [] => []
    | c :: r =>
      flatten c st ps (Some parent) (match r with [] => None | _ :: _ => Some (st + size c) end)
      ++ go r (st + size c) (ps + blen (print c) + 1)
    end.

Lemma flatten_eq : forall name p cs start pos parent sib,
  flatten (ENode name p cs) start pos parent sib =
  mkNode name pos p (N.of_nat (length cs)) start parent (last_start cs (start + 1)) sib ::
  flat_kids start cs (start + 1) (pos + blen name + 1).
Proof. reflexivity. Qed.

Lemma flat_kids_cons : forall par c r st ps,
  flat_kids par (c :: r) st ps =
  flatten c st ps (Some par) (match r with [] => None | _ :: _ => Some (st + size c) end)
  ++ flat_kids par r (st + size c) (ps + blen (print c) + 1).
Proof. reflexivity. Qed.

Definition size_list (cs : list etree) : N := fold_right (fun c acc => size c + acc) 0 cs.
Lemma size_eq : forall name p cs, size (ENode name p cs) = 1 + size_list cs.
Proof. reflexivity. Qed.

(* induction principle with the hypothesis for every child *)
Lemma etree_ind' : forall (P : etree -> Prop),
  (forall name p cs, Forall P cs -> P (ENode name p cs)) -> forall t, P t.
Proof.
  intros P H. fix IH 1. intros [name p cs]. apply H.
  induction cs as [|c cs IHcs]; constructor; [apply IH|exact IHcs].
Qed.


Lemma flatten_length : forall t start pos parent sib, nlen (flatten t start pos parent sib) = size t.
Proof.
  intro t. induction t as [name p cs IH] using etree_ind'. intros start pos parent sib.
  rewrite flatten_eq, size_eq. unfold nlen. cbn [length]. rewrite Nat2N.inj_succ.
  assert (forall st ps, N.of_nat (length (flat_kids start cs st ps)) = size_list cs) as K.
  { induction cs as [|c r IHr]; intros st ps; [reflexivity|].
    inversion IH as [|? ? Hc Hr]; subst. rewrite flat_kids_cons, app_length, Nat2N.inj_add.
    fold (nlen (flatten c st ps (Some start) (match r with [] => None | _ :: _ => Some (st + size c) end))).
    rewrite Hc. rewrite (IHr Hr). reflexivity. }
  rewrite K. lia.
Qed.

(* ---------------------------------------------------------------- list plumbing *)
Lemma to_nat_nlen : forall (l : list node), N.to_nat (nlen l) = length l.
Proof. intros. unfold nlen. lia. Qed.

Lemma nth_error_mid : forall (A : Type) (a b : list A) (x : A), nth_error (a ++ x :: b) (length a) = Some x.
Proof. intros. rewrite nth_error_app2 by lia. rewrite Nat.sub_diag. reflexivity. Qed.

Lemma update_nth_mid : forall (A : Type) (f : A -> A) (a b : list A) (x : A),
  update_nth (a ++ x :: b) (length a) f = Some (a ++ f x :: b).
Proof.
  intros A f a. induction a as [|y a IH]; intros b x; [reflexivity|].
  cbn [app length update_nth]. rewrite IH. reflexivity.
Qed.

Lemma slice_mid : forall (pre mid post : bytes),
  slice (pre ++ mid ++ post) (blen pre) (blen pre + blen mid) = Some mid.
Proof.
  intros. unfold slice. replace (blen pre + blen mid <? blen pre) with false by (symmetry; apply N.ltb_ge; lia).
  f_equal. replace (N.to_nat (blen pre + blen mid - blen pre)) with (length mid) by (unfold blen; lia).
  replace (N.to_nat (blen pre)) with (length pre) by (unfold blen; lia).
  rewrite skipn_app, skipn_all, Nat.sub_diag. cbn [skipn app].
  rewrite firstn_app, firstn_all, Nat.sub_diag. cbn [firstn]. apply app_nil_r.
Qed.

(* ---------------------------------------------------------------- name characters do nothing *)
Lemma p2_step_nonstruct : forall s st pos ch, nonstruct ch = true -> p2_step s st pos ch = Ok st.
Proof.
  intros s st pos ch H. unfold nonstruct in H. apply andb_true_iff in H. destruct H as [H H3].
  apply andb_true_iff in H. destruct H as [H1 H2].
  apply negb_true_iff in H1. apply negb_true_iff in H2. apply negb_true_iff in H3.
  unfold p2_step. rewrite H1, H3, H2. reflexivity.
Qed.

Lemma p2_loop_name : forall s name st pos rest, forallb nonstruct name = true ->
  p2_loop s st pos (name ++ rest) = p2_loop s st (pos + blen name) rest.
Proof.
  intros s name. induction name as [|c name IH]; intros st pos rest H.
  - cbn [app]. unfold blen. cbn [length N.of_nat]. rewrite N.add_0_r. reflexivity.
  - cbn [forallb] in H. apply andb_true_iff in H. destruct H as [Hc Hn].
    cbn [app p2_loop]. rewrite p2_step_nonstruct by assumption. rewrite IH by assumption.
    f_equal. unfold blen. cbn [length]. lia.
Qed.

Lemma p2_loop_app : forall s a b st pos,
  p2_loop s st pos (a ++ b) =
  match p2_loop s st pos a with
  | Ok st' => p2_loop s st' (pos + blen a) b
  | o => o
  end.
Proof.
  intros s a. induction a as [|c a IH]; intros b st pos.
  - cbn [app p2_loop]. unfold blen. cbn [length N.of_nat]. rewrite N.add_0_r. reflexivity.
  - cbn [app p2_loop]. destruct (p2_step s st pos c) as [st'|e|n]; try reflexivity.
    rewrite IH. replace (pos + 1 + blen a) with (pos + blen (c :: a)) by (unfold blen; cbn [length]; lia).
    reflexivity.
Qed.

(* ---------------------------------------------------------------- single steps, in closed form *)
Definition pend (idx pos : N) (par : option N) : node := mkNode [] pos PNone 0 idx par None None.
Definition rootn (name : bytes) (pos : N) (p : parens) (start : N) (par : option N) (nch : N) (lc : option N) : node :=
  mkNode name pos p nch start par lc None.

Lemma new_node_top : forall a x b stack pos,
  new_node (a ++ x :: b) (nlen a :: stack) pos =
  Ok (a ++ bump_parent (nlen (a ++ x :: b)) x :: b, pend (nlen (a ++ x :: b)) pos (Some (nlen a))).
Proof.
  intros. unfold new_node. cbn [hd_error]. rewrite to_nat_nlen, update_nth_mid. reflexivity.
Qed.

Lemma flush_pend : forall pre mid post nodes stack idx par h,
  flush (pre ++ mid ++ post) (mkP2 nodes stack (Some (pend idx (blen pre) par)) h) (blen pre + blen mid) =
  Ok (nodes ++ [mkNode mid (blen pre) PNone 0 idx par None None]).
Proof.
  intros. unfold flush. cbn [p2_cur p2_nodes pend nd_name_pos]. rewrite slice_mid. reflexivity.
Qed.

Lemma flush_none : forall s nodes stack h pos, flush s (mkP2 nodes stack None h) pos = Ok nodes.
Proof. reflexivity. Qed.

Definition paren_of (openc : N) : parens := if openc =? LPAREN then PRound else PCurly.

Lemma step_open : forall pre name post nodes stack par h openc,
  is_open openc = true ->
  exists h',
  p2_step (pre ++ name ++ post) (mkP2 nodes stack (Some (pend (nlen nodes) (blen pre) par)) h) (blen pre + blen name) openc =
  Ok (mkP2 (nodes ++ [rootn name (blen pre) (paren_of openc) (nlen nodes) par 1 (Some (nlen nodes + 1))])
           (nlen nodes :: stack)
           (Some (pend (nlen nodes + 1) (blen pre + blen name + 1) (Some (nlen nodes)))) h').
Proof.
  intros pre name post nodes stack par h openc Ho. unfold p2_step. rewrite Ho.
  cbn [p2_cur p2_nodes p2_stack p2_hwm pend nd_name_pos]. rewrite slice_mid.
  change (p2_nodes {| p2_nodes := nodes; p2_stack := stack; p2_cur := Some (pend (nlen nodes) (blen pre) par); p2_hwm := h |}) with nodes.
  rewrite (new_node_top nodes _ [] stack). eexists. f_equal. f_equal.
  - rewrite nlen_app. unfold rootn, bump_parent, set_name, pend, paren_of. cbn. reflexivity.
  - rewrite nlen_app. cbn. reflexivity.
Qed.

Lemma step_close : forall s st pos closec, is_close closec = true ->
  p2_step s st pos closec =
  match flush s st pos with
  | Ok nodes1 => Ok (mkP2 nodes1 (tl (p2_stack st)) None (p2_hwm st))
  | Err e => Err e
  | Panic n => Panic n
  end.
Proof.
  intros s st pos c H. unfold p2_step.
  replace (is_open c) with false.
  - rewrite (close_not_comma c H), H. reflexivity.
  - unfold is_open, is_close, LPAREN, LBRACE, RPAREN, RBRACE in *. apply orb_true_iff in H.
    destruct H as [H|H]; apply N.eqb_eq in H; subst; reflexivity.
Qed.

(* the comma step when the flushed vector is  a ++ root :: b ++ (kid :: kids)  with the parent on top of
   the stack pointing at kid *)
Lemma step_comma : forall s st pos a root b kid kids stack h,
  p2_stack st = nlen a :: stack -> p2_hwm st = h ->
  flush s st pos = Ok (a ++ root :: b ++ kid :: kids) ->
  nd_last_child root = Some (nlen a + 1 + nlen b) ->
  p2_step s st pos COMMA =
  Ok (mkP2 (a ++ bump_parent (nlen (a ++ root :: b ++ kid :: kids)) root :: b ++ set_sibling (nlen (a ++ root :: b ++ kid :: kids)) kid :: kids)
           (nlen a :: stack)
           (Some (pend (nlen (a ++ root :: b ++ kid :: kids)) (pos + 1) (Some (nlen a)))) h).
Proof.
  intros s st pos a root b kid kids stack h Es Eh Ef Elc. unfold p2_step.
  change (is_open COMMA) with false. change (COMMA =? COMMA) with true. cbv iota.
  rewrite Ef, Es. cbn [hd_error]. rewrite to_nat_nlen, nth_error_mid, Elc.
  set (n := nlen (a ++ root :: b ++ kid :: kids)).
  assert (E1 : update_nth (a ++ root :: b ++ kid :: kids) (N.to_nat (nlen a + 1 + nlen b)) (set_sibling n)
               = Some (a ++ root :: b ++ set_sibling n kid :: kids)).
  { replace (N.to_nat (nlen a + 1 + nlen b)) with (length (a ++ root :: b))
      by (rewrite app_length; cbn [length]; unfold nlen; lia).
    change (a ++ root :: b ++ kid :: kids) with (a ++ (root :: b) ++ kid :: kids).
    rewrite app_assoc, update_nth_mid, <- app_assoc. reflexivity. }
  rewrite E1.
  assert (E2 : nlen (a ++ root :: b ++ set_sibling n kid :: kids) = n)
    by (unfold n, nlen; rewrite !app_length; cbn [length]; rewrite !app_length; reflexivity).
  rewrite (new_node_top a root (b ++ set_sibling n kid :: kids) stack). rewrite E2, Eh. reflexivity.
Qed.

(* ---------------------------------------------------------------- the compositional statement *)
Definition P2 (t : etree) : Prop :=
  forall pre post nodes stack h,
  exists st1,
    p2_loop (pre ++ print t ++ post)
            (mkP2 nodes stack (Some (pend (nlen nodes) (blen pre) (hd_error stack))) h) (blen pre) (print t) = Ok st1 /\
    p2_stack st1 = stack /\
    flush (pre ++ print t ++ post) st1 (blen pre + blen (print t)) =
      Ok (nodes ++ flatten t (nlen nodes) (blen pre) (hd_error stack) None).

Lemma blen_app2 : forall a b : bytes, blen (a ++ b) = blen a + blen b.
Proof. intros. unfold blen. rewrite app_length. lia. Qed.

Lemma flatten_sibling : forall t start pos par sib,
  match flatten t start pos par None with
  | kid :: kids => set_sibling sib kid :: kids = flatten t start pos par (Some sib)
  | [] => False
  end.
Proof. intros [name p cs] start pos par sib. rewrite !flatten_eq. reflexivity. Qed.

Lemma kids_loop : forall (name : bytes) (p : parens) (par : option N) (closec : N) (post : bytes)
                         (nodes : list node) (stack : list N) (pos0 : N),
  is_close closec = true ->
  forall rs, rs <> [] -> Forall P2 rs ->
  forall pre2 done nch h,
  exists h',
  p2_loop (pre2 ++ (commas rs ++ [closec]) ++ post)
          (mkP2 (nodes ++ rootn name pos0 p (nlen nodes) par nch (Some (nlen nodes + 1 + nlen done)) :: done)
                (nlen nodes :: stack)
                (Some (pend (nlen nodes + 1 + nlen done) (blen pre2) (Some (nlen nodes)))) h)
          (blen pre2) (commas rs ++ [closec])
  = Ok (mkP2 (nodes ++ rootn name pos0 p (nlen nodes) par (nch + N.of_nat (length rs) - 1)
                             (last_start rs (nlen nodes + 1 + nlen done))
               :: done ++ flat_kids (nlen nodes) rs (nlen nodes + 1 + nlen done) (blen pre2))
             stack None h').
Proof.
  intros name p par closec post nodes stack pos0 Hc rs.
  induction rs as [|c r IH]; intros Hne HF pre2 done nch h; [contradiction|].
  inversion HF as [|? ? Pc Pr]; subst.
  set (stK := nlen nodes + 1 + nlen done).
  set (nodesK := nodes ++ rootn name pos0 p (nlen nodes) par nch (Some stK) :: done).
  assert (LK : nlen nodesK = stK).
  { unfold nodesK, stK, nlen. rewrite app_length. cbn [length]. lia. }
  destruct r as [|c2 r'].
  - (* the last child, then the closing parenthesis *)
    change (commas [c]) with (print c).
    replace (pre2 ++ (print c ++ [closec]) ++ post) with (pre2 ++ print c ++ ([closec] ++ post))
      by (rewrite <- !app_assoc; reflexivity).
    destruct (Pc pre2 ([closec] ++ post) nodesK (nlen nodes :: stack) h) as (st1 & E1 & Es1 & Ef1).
    rewrite LK in E1, Ef1. cbn [hd_error] in E1, Ef1.
    rewrite p2_loop_app, E1. cbn [p2_loop]. rewrite step_close by assumption. rewrite Ef1, Es1. cbn [tl].
    eexists. f_equal. f_equal. unfold nodesK. rewrite <- app_assoc. cbn [app]. f_equal. f_equal.
    + unfold rootn. f_equal. cbn [length N.of_nat]. lia.
    + f_equal. rewrite flat_kids_cons. cbn [flat_kids]. rewrite app_nil_r. reflexivity.
  - (* a child followed by a comma *)
    change (commas (c :: c2 :: r')) with (print c ++ COMMA :: commas (c2 :: r')).
    set (tailtxt := commas (c2 :: r') ++ [closec]).
    replace (pre2 ++ ((print c ++ COMMA :: commas (c2 :: r')) ++ [closec]) ++ post)
      with (pre2 ++ print c ++ (COMMA :: tailtxt ++ post))
      by (unfold tailtxt; rewrite <- !app_assoc; reflexivity).
    replace ((print c ++ COMMA :: commas (c2 :: r')) ++ [closec]) with (print c ++ COMMA :: tailtxt)
      by (unfold tailtxt; rewrite <- !app_assoc; reflexivity).
    destruct (Pc pre2 (COMMA :: tailtxt ++ post) nodesK (nlen nodes :: stack) h) as (st1 & E1 & Es1 & Ef1).
    rewrite LK in E1, Ef1. cbn [hd_error] in E1, Ef1.
    rewrite p2_loop_app, E1. cbn [p2_loop].
    pose proof (flatten_sibling c stK (blen pre2) (Some (nlen nodes)) (stK + size c)) as FS.
    pose proof (flatten_length c stK (blen pre2) (Some (nlen nodes)) None) as FL.
    destruct (flatten c stK (blen pre2) (Some (nlen nodes)) None) as [|kid kids] eqn:Efl; [contradiction|].
    assert (Ef1' : flush (pre2 ++ print c ++ COMMA :: tailtxt ++ post) st1 (blen pre2 + blen (print c)) =
                   Ok (nodes ++ rootn name pos0 p (nlen nodes) par nch (Some stK) :: done ++ kid :: kids)).
    { rewrite Ef1. unfold nodesK. rewrite <- app_assoc. reflexivity. }
    assert (NN : nlen (nodes ++ rootn name pos0 p (nlen nodes) par nch (Some stK) :: done ++ kid :: kids) = stK + size c).
    { rewrite <- FL. unfold stK, nlen. rewrite !app_length. cbn [length]. rewrite !app_length. cbn [length]. lia. }
    rewrite (step_comma _ st1 _ nodes _ done kid kids stack (p2_hwm st1) Es1 eq_refl Ef1' eq_refl).
    rewrite NN, FS.
    (* the state is now the one the induction hypothesis starts from *)
    set (done' := done ++ flatten c stK (blen pre2) (Some (nlen nodes)) (Some (stK + size c))).
    assert (LD : nlen nodes + 1 + nlen done' = stK + size c).
    { unfold done'. rewrite nlen_app, flatten_length. unfold stK. lia. }
    specialize (IH ltac:(discriminate) Pr (pre2 ++ print c ++ [COMMA]) done' (nch + 1) (p2_hwm st1)).
    destruct IH as (h' & IH).
    replace ((pre2 ++ print c ++ [COMMA]) ++ (commas (c2 :: r') ++ [closec]) ++ post)
      with (pre2 ++ print c ++ COMMA :: tailtxt ++ post) in IH
      by (unfold tailtxt; rewrite <- !app_assoc; reflexivity).
    replace (blen (pre2 ++ print c ++ [COMMA])) with (blen pre2 + blen (print c) + 1) in IH
      by (rewrite !blen_app2; unfold blen; cbn [length]; lia).
    rewrite LD in IH. fold tailtxt in IH.
    unfold bump_parent, rootn. cbn [nd_name nd_name_pos nd_parens nd_n_children nd_index nd_parent nd_right_sibling].
    unfold rootn in IH.
    replace (done ++ flatten c stK (blen pre2) (Some (nlen nodes)) (Some (stK + size c))) with done' by reflexivity.
    rewrite IH. exists h'. f_equal. f_equal. f_equal. f_equal.
    + f_equal. cbn [length]. lia.
    + unfold done'. rewrite <- app_assoc. f_equal.
Qed.

Lemma P2_internal : forall name p cs openc closec,
  open_of p = [openc] -> close_of p = [closec] -> paren_of openc = p ->
  is_open openc = true -> is_close closec = true ->
  forallb nonstruct name = true -> cs <> [] -> Forall P2 cs -> P2 (ENode name p cs).
Proof.
  intros name p cs openc closec Ho Hc Hp Io Ic Hn Hne HF pre post nodes stack h.
  rewrite print_eq, Ho, Hc.
  set (post1 := commas cs ++ [closec]).
  replace (pre ++ (name ++ [openc] ++ post1) ++ post) with (pre ++ name ++ (openc :: post1 ++ post))
    by (rewrite <- !app_assoc; reflexivity).
  rewrite p2_loop_name by assumption. change ([openc] ++ post1) with (openc :: post1). cbn [p2_loop].
  destruct (step_open pre name (openc :: post1 ++ post) nodes stack (hd_error stack) h openc Io) as (h1 & E1).
  rewrite E1. rewrite Hp.
  destruct (kids_loop name p (hd_error stack) closec post nodes stack (blen pre) Ic cs Hne HF
                      (pre ++ name ++ [openc]) [] 1 h1) as (h2 & E2).
  replace ((pre ++ name ++ [openc]) ++ (commas cs ++ [closec]) ++ post) with (pre ++ name ++ openc :: post1 ++ post) in E2
    by (unfold post1; rewrite <- !app_assoc; reflexivity).
  replace (blen (pre ++ name ++ [openc])) with (blen pre + blen name + 1) in E2
    by (rewrite !blen_app2; unfold blen; cbn [length]; lia).
  change (nlen (@nil node)) with 0 in E2. rewrite !N.add_0_r in E2.
  fold post1 in E2. cbn [app] in E2. rewrite E2.
  eexists. split; [reflexivity|]. split; [reflexivity|].
  rewrite flush_none. f_equal. f_equal. rewrite flatten_eq. unfold rootn. f_equal.
  f_equal. destruct cs; [contradiction|]. cbn [length]. lia.
Qed.

Lemma pass2_print : forall t, swf t = true -> P2 t.
Proof.
  intro t. induction t as [name p cs IH] using etree_ind'. intro H.
  cbn [swf] in H. apply andb_true_iff in H. destruct H as [Hn Hk].
  assert (HF : Forall P2 cs).
  { destruct cs as [|c r]; [constructor|]. destruct p; [discriminate| |];
      (rewrite forallb_forall in Hk; apply Forall_forall; intros x Hx;
       rewrite Forall_forall in IH; apply IH; [assumption|apply Hk; assumption]). }
  destruct cs as [|c r].
  - destruct p; try discriminate.
    (* a leaf *)
    intros pre post nodes stack h. rewrite print_eq. cbn [open_of close_of commas app]. rewrite app_nil_r.
    exists (mkP2 nodes stack (Some (pend (nlen nodes) (blen pre) (hd_error stack))) h).
    split; [|split; [reflexivity|]].
    + rewrite <- (app_nil_r name) at 2. rewrite p2_loop_name by assumption. reflexivity.
    + rewrite flush_pend. f_equal.
  - destruct p; [discriminate| |].
    + apply (P2_internal name PRound (c :: r) LPAREN RPAREN); try reflexivity; try assumption. discriminate.
    + apply (P2_internal name PCurly (c :: r) LBRACE RBRACE); try reflexivity; try assumption. discriminate.
Qed.
