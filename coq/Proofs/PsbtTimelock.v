(* C14: the time-lock answers of the PSBT satisfier are the consensus rules BIP65 / BIP68+112
   evaluated on the unsigned transaction's version, nLockTime and THIS input's nSequence. *)
From Coq Require Import List Bool NArith Arith Lia.
Import ListNotations.
From Verif Require Import PsbtModel.

(* OP_CHECKLOCKTIMEVERIFY with argument n fails iff ... (BIP65) *)
Definition bip65_fails (lock_time seq n : N) : bool :=
  (negb (Bool.eqb (n <? locktime_threshold)%N (lock_time <? locktime_threshold)%N))   (* different lock-time types *)
  || (lock_time <? n)%N                                                              (* n greater than nLockTime *)
  || (seq =? seq_final)%N.                                                            (* the input is final *)

(* OP_CHECKSEQUENCEVERIFY with argument n (disable flag of n clear) fails iff ... (BIP112 on BIP68) *)
Definition bip112_fails (version seq n : N) : bool :=
  (version <? 2)%N                                                                   (* tx version below 2 *)
  || N.testbit seq 31                                                                (* disable flag of nSequence *)
  || negb (Bool.eqb (N.testbit n 22) (N.testbit seq 22))                             (* different units *)
  || (N.land seq 65535 <? N.land n 65535)%N.                                          (* masked n greater than masked nSequence *)

Theorem psbt_check_after_is_bip65 : forall lock_time seq n,
  psbt_check_after lock_time seq n = negb (bip65_fails lock_time seq n).
Proof.
  intros. unfold psbt_check_after, bip65_fails.
  destruct (N.eqb_spec seq seq_final); simpl.
  - now rewrite !orb_true_r.
  - rewrite orb_false_r. rewrite (N.leb_antisym lock_time n).
    destruct (lock_time <? locktime_threshold)%N, (n <? locktime_threshold)%N, (lock_time <? n)%N; reflexivity.
Qed.

Theorem psbt_check_older_is_bip112 : forall version seq n,
  psbt_check_older version seq n = negb (bip112_fails version seq n).
Proof.
  intros. unfold psbt_check_older, bip112_fails.
  rewrite (N.leb_antisym version 2), (N.leb_antisym (N.land seq 65535) (N.land n 65535)).
  destruct (version <? 2)%N, (N.testbit seq 31), (N.testbit seq 22), (N.testbit n 22),
    (N.land seq 65535 <? N.land n 65535)%N; reflexivity.
Qed.

(* what the three seeded variants would break: *)
Example check_after_own_sequence :            (* a final input never satisfies after(), whatever other inputs do *)
  forall lock_time n, psbt_check_after lock_time seq_final n = false.
Proof. intros. unfold psbt_check_after. now rewrite N.eqb_refl. Qed.

Example check_older_version_1 : forall seq n, psbt_check_older 1 seq n = false.
Proof. reflexivity. Qed.

Example check_older_version_3 : psbt_check_older 3 10 10 = true /\ psbt_check_older 2 10 10 = true /\ psbt_check_older 2 9 10 = false.
Proof. repeat split. Qed.
