(* Proofs about Ms/TapTreeModel.v (C15). *)
From Coq Require Import List Bool NArith Arith Lia.
Import ListNotations.
From Verif Require Import TapTreeModel.

(* ======================================================================================= *)
(* spec_path_ok: folding branchH along the path from the leaf hash gives the root           *)
(* ======================================================================================= *)
Section SpecPath.
Variables leaf hash : Type.
Variable leafH : leaf -> hash.
Variable branchH : hash -> hash -> hash.
Hypothesis branchH_comm : forall a b, branchH a b = branchH b a.

Lemma spec_path_ok : forall (t : tree leaf) l p,
  In (l, p) (paths leaf hash leafH branchH t) -> fold_path leaf hash leafH branchH l p = root leaf hash leafH branchH t.
Proof.
  induction t as [x | a IHa b IHb]; intros l p Hin; cbn in Hin.
  - destruct Hin as [H | []]. inversion H; subst. reflexivity.
  - apply in_app_or in Hin. destruct Hin as [H | H]; apply in_map_iff in H;
      destruct H as [[l' p'] [Heq Hin]]; inversion Heq; subst; clear Heq; cbn [fst snd];
      unfold fold_path in *; rewrite fold_left_app; cbn [fold_left root].
    + rewrite (IHa _ _ Hin). reflexivity.
    + rewrite (IHb _ _ Hin). apply branchH_comm.
Qed.
End SpecPath.
