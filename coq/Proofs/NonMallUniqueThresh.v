(* C03, table level, thresh(k, X1..Xn).
   Dissatisfaction: all children dissatisfied.  Satisfaction, k = n: all children satisfied.
   Satisfaction, k < n: [thresh_nonmall] sorts the children by (impossible, has_sig, weight), satisfies
   the first k and answers Unavailable when child k+1 of that order has a signature-free
   satisfaction.  Uniqueness: after the check every child that is NOT chosen has a satisfaction
   that is Impossible or carries a signature; a third party that only sees the signatures of the
   chosen children (keys are disjoint, the dissatisfactions of "e" children are signature-free)
   cannot satisfy any of them, so the only k-subset it can satisfy is the chosen one. *)
From Verif Require Import Exec Ser Ast Types TypeCheck SatSpec Sat ExecLemmas TheoremA SatProofs
  CompleteProofs CompleteThresh CompleteNonMall HasSigProofs NonMallUnique.
From Coq Require Import Lia Permutation Sorted ZArith.

(* ---------- the table's thresh entries under a selection mask ---------- *)
Fixpoint icross (Ts : list (list wit)) : list wit :=
  match Ts with [] => [[]] | T :: r => cross T (icross r) end.
Fixpoint pickm (cs : list (list wit * list wit)) (M : list bool) : list (list wit) :=
  match cs, M with c :: r, b :: m => (if b then fst c else snd c) :: pickm r m | _, _ => [] end.

Lemma comb_empty cs : forall M k, Forall2 (fun (c : list wit * list wit) (b : bool) => b = false -> fst c = []) cs M ->
  (ctrue M < k)%nat -> thresh_comb k cs = [].
Proof.
  induction cs as [|[s d] r IH]; intros M k HF Hk; inversion HF as [|? b ? m Hb Hr]; subst; cbn [thresh_comb].
  - destruct k; [cbn in Hk; lia | reflexivity].
  - cbn [ctrue] in Hk. destruct k as [|k']; [lia|].
    rewrite (IH m (S k') Hr) by (destruct b; lia). rewrite cross_nil_r, app_nil_r.
    destruct b.
    + rewrite (IH m k' Hr) by lia. apply cross_nil_r.
    + cbn [fst] in Hb. rewrite (Hb eq_refl). reflexivity.
Qed.

Lemma comb_masked cs : forall M, Forall2 (fun (c : list wit * list wit) (b : bool) => b = false -> fst c = []) cs M ->
  forall w, In w (thresh_comb (ctrue M) cs) -> In w (icross (pickm cs M)).
Proof.
  induction cs as [|[s d] r IH]; intros M HF w Hw; inversion HF as [|? b ? m Hb Hr]; subst; cbn [thresh_comb ctrue pickm icross] in *.
  - exact Hw.
  - destruct b; cbn [fst snd].
    + cbn [Nat.add] in Hw. rewrite (comb_empty r m (S (ctrue m)) Hr) in Hw by lia. rewrite cross_nil_r, app_nil_r in Hw.
      apply in_cross in Hw. destruct Hw as [a [b [Ha [Hb' ->]]]]. apply in_cross. exists a, b. repeat split; [exact Ha | exact (IH m Hr b Hb')].
    + cbn [fst] in Hb. cbn [Nat.add] in Hw. apply in_app_or in Hw. destruct Hw as [Hw|Hw].
      * rewrite (Hb eq_refl) in Hw. destruct (ctrue m); cbn in Hw; contradiction.
      * apply in_cross in Hw. destruct Hw as [a [b [Ha [Hb' ->]]]]. apply in_cross. exists a, b. repeat split; [exact Ha | exact (IH m Hr b Hb')].
Qed.

Lemma comb_zero cs : thresh_comb 0 cs = icross (map snd cs).
Proof. induction cs as [|[s d] r IH]; [reflexivity|]. cbn [thresh_comb map icross snd app]. rewrite IH. reflexivity. Qed.
Lemma pickm_false cs : pickm cs (repeat false (length cs)) = map snd cs.
Proof. induction cs as [|c r IH]; [reflexivity|]. cbn [length repeat pickm map]. rewrite IH. reflexivity. Qed.
Lemma pickm_true cs : pickm cs (repeat true (length cs)) = map fst cs.
Proof. induction cs as [|c r IH]; [reflexivity|]. cbn [length repeat pickm map]. rewrite IH. reflexivity. Qed.
Lemma ctrue_repeat_true n : ctrue (repeat true n) = n.
Proof. induction n as [|n IH]; [reflexivity|]. cbn [repeat ctrue]. rewrite IH. reflexivity. Qed.
Lemma ctrue_map {X} (q : X -> bool) l : ctrue (map q l) = cnt q l.
Proof. unfold cnt. induction l as [|x r IH]; [reflexivity|]. cbn [map ctrue filter]. destruct (q x); cbn [length]; rewrite IH; reflexivity. Qed.

Lemma Forall2_of_nth {X Y} (R : X -> Y -> Prop) d1 d2 : forall l1 l2, length l1 = length l2 ->
  (forall i, (i < length l1)%nat -> R (nth i l1 d1) (nth i l2 d2)) -> Forall2 R l1 l2.
Proof.
  induction l1 as [|x r IH]; intros [|y s] Hl H; cbn [length] in Hl; try lia; constructor.
  - exact (H 0%nat ltac:(cbn; lia)).
  - apply IH; [lia|]. intros i Hi. exact (H (S i) ltac:(cbn [length]; lia)).
Qed.

(* pairwise disjoint key lists *)
Fixpoint pdisj (Ks : list (list key)) : Prop :=
  match Ks with [] => True | K :: r => Forall (disj K) r /\ pdisj r end.
Lemma nodup_concat_pdisj (Ks : list (list key)) : NoDup (concat Ks) -> pdisj Ks /\ Forall (@NoDup key) Ks.
Proof.
  induction Ks as [|K r IH]; cbn [concat pdisj]; intros H; [split; [exact I | constructor]|].
  destruct (nodup_app_disj _ _ H) as [N1 [N2 D]]. destruct (IH N2) as [P1 P2]. split; [split; [|exact P1] | constructor; assumption].
  apply Forall_forall. intros K' HK' k H1 H2. apply (D k H1). apply in_concat. exists K'. split; assumption.
Qed.

Lemma nodup_app_notin {X} (l1 l2 : list X) : NoDup (l1 ++ l2) -> forall x, In x l1 -> In x l2 -> False.
Proof.
  induction l1 as [|y r IH]; cbn [app]; intros H x H1 H2; [contradiction|]. inversion H as [|? ? Hy Hr]; subst.
  destruct H1 as [<-|H1]; [apply Hy; apply in_or_app; right; exact H2 | exact (IH Hr x H1 H2)].
Qed.
Lemma skipn_nth_cons {X} (l : list X) d : forall k, (k < length l)%nat -> skipn k l = nth k l d :: skipn (S k) l.
Proof.
  induction l as [|x r IH]; intros k Hk; [cbn in Hk; lia|]. destruct k as [|k]; [reflexivity|].
  cbn [skipn nth]. rewrite (IH k) by (cbn [length] in Hk; lia). reflexivity.
Qed.
Lemma nth_in_firstn_S {X} (l : list X) d : forall k, (k < length l)%nat -> In (nth k l d) (firstn (S k) l).
Proof.
  induction l as [|x r IH]; intros k Hk; [cbn in Hk; lia|]. destruct k as [|k]; [left; reflexivity|].
  cbn [nth]. change (firstn (S (S k)) (x :: r)) with (x :: firstn (S k) r). right. apply IH. cbn [length] in Hk. lia.
Qed.

Lemma key3_sig a3 b1 b2 b3 : key3_le (false, true, a3) (b1, b2, b3) = true -> b1 = true \/ b2 = true.
Proof. destruct b1, b2; cbn; auto. Qed.

Section UniqThresh.
  Variable ke : keyenv.
  Variable A : assets.
  Variable se : senv.
  Variable f : fill.
  Hypothesis L : linked ke A se f.
  Hypothesis Habs_unit : forall t1 t2, se_after se t1 = true -> se_after se t2 = true ->
    Bool.eqb (N.ltb t1 500000000) (N.ltb t2 500000000) = true.
  Hypothesis Hrel_unit : forall t1 t2, se_older se t1 = true -> se_older se t2 = true ->
    Bool.eqb (rel_is_time t1) (rel_is_time t2) = true.
  Variable rhs : bool.

  Notation J := (J A se f).
  Notation uinv := (uinv A se f).
  Definition usd (x : ms) : satn * satn := sat_dissat ke se false rhs x.

  Lemma J_sub K c T T' : (forall B w, In w (T' B) -> In w (T B)) -> J K c T -> J K c T'.
  Proof.
    intros Hs H.
    assert (Hnil : forall B, T B = [] -> T' B = []).
    { intros B E. destruct (T' B) as [|w r] eqn:E'; [reflexivity|]. exfalso.
      assert (Hin : In w (T B)) by (apply Hs; rewrite E'; left; reflexivity). rewrite E in Hin. exact Hin. }
    constructor; try apply H.
    - intros Hi B HB. apply Hnil. exact (j_imp _ _ _ _ _ _ H Hi B HB).
    - intros Hg B HB Hn. apply Hnil. exact (j_sig _ _ _ _ _ _ H Hg B HB Hn).
    - intros l bs Hl Hf B HB Hv w' Hw. exact (j_stk _ _ _ _ _ _ H l bs Hl Hf B HB Hv w' (Hs B w' Hw)).
  Qed.

  (* ---------- folding concatenate_rev over a list of components ---------- *)
  Definition ent := (list key * satn * (assets -> list wit))%type.
  Definition eK (e : ent) : list key := fst (fst e).
  Definition eC (e : ent) : satn := snd (fst e).
  Definition eT (e : ent) : assets -> list wit := snd e.

  Lemma J_fold (Ls : list ent) : Forall (fun e => J (eK e) (eC e) (eT e)) Ls -> pdisj (map eK Ls) ->
    forall Kacc acc Tacc, J Kacc acc Tacc -> Forall (disj Kacc) (map eK Ls) ->
    J (Kacc ++ concat (map eK Ls)) (fold_left concatenate_rev (map eC Ls) acc)
      (fun B => cross (Tacc B) (icross (map (fun e => eT e B) Ls))).
  Proof.
    induction Ls as [|e r IH]; intros HJ HP Kacc acc Tacc Hacc HD; cbn [map fold_left concat icross].
    - apply (J_weaken A se f Kacc); [intros k Hk; apply in_or_app; left; exact Hk|].
      apply (J_sub _ _ Tacc); [|exact Hacc]. intros B w Hw. apply in_cross in Hw.
      destruct Hw as [a [b [Ha [[<-|[]] ->]]]]. rewrite app_nil_r. exact Ha.
    - inversion HJ as [|? ? He Hr]; subst. destruct HP as [HP1 HP2]. inversion HD as [|? ? Hd1 Hd2]; subst.
      pose proof (J_concat A se f Habs_unit Hrel_unit Kacc (eK e) acc (eC e) Tacc (eT e) Hd1 Hacc He) as Hc.
      assert (HD' : Forall (disj (Kacc ++ eK e)) (map eK r)).
      { rewrite Forall_forall in *. intros K' HK'. apply disj_app_l; [apply Hd2, HK' | apply HP1, HK']. }
      pose proof (IH Hr HP2 _ _ _ Hc HD') as G.
      apply (J_weaken A se f ((Kacc ++ eK e) ++ concat (map eK r))).
      { rewrite <- app_assoc. apply incl_refl. }
      revert G. apply J_sub. intros B w Hw. cbv beta.
      apply in_cross in Hw. destruct Hw as [a [b [Ha [Hb ->]]]]. apply in_cross in Hb. destruct Hb as [b1 [b2 [Hb1 [Hb2 ->]]]].
      apply in_cross. exists (a ++ b1), b2. split; [apply in_cross; exists a, b1; auto|]. split; [exact Hb2 | apply app_assoc].
  Qed.

  Lemma J_trivial : J [] TRIVIAL (fun _ => [[]]).
  Proof.
    apply (J_const A se f [] [] []); [constructor | reflexivity|].
    intros B _ w' [<-|[]]. reflexivity.
  Qed.

  Lemma J_flatten (Ls : list ent) : Forall (fun e => J (eK e) (eC e) (eT e)) Ls -> pdisj (map eK Ls) ->
    J (concat (map eK Ls)) (flatten_rev (map eC Ls)) (fun B => icross (map (fun e => eT e B) Ls)).
  Proof.
    intros HJ HP. unfold flatten_rev.
    assert (HD : Forall (disj []) (map eK Ls)) by (apply Forall_forall; intros K' _ k []).
    pose proof (J_fold Ls HJ HP [] TRIVIAL _ J_trivial HD) as G. cbn [app] in G.
    revert G. apply J_sub. intros B w Hw. apply in_cross. exists [], w. split; [left; reflexivity | split; [exact Hw | reflexivity]].
  Qed.

  Lemma fold_stack_in cs : forall acc l p, s_stack (fold_left concatenate_rev cs acc) = WStack l -> In p l ->
    (exists la, s_stack acc = WStack la /\ In p la) \/ exists c lc, In c cs /\ s_stack c = WStack lc /\ In p lc.
  Proof.
    induction cs as [|c r IH]; intros acc l p Hl Hp; cbn [fold_left] in Hl; [left; eauto|].
    destruct (IH _ l p Hl Hp) as [[la [Ha Hin]]|[c' [lc [Hc [Hs Hin]]]]].
    - apply concat_stack in Ha. destruct Ha as [l1 [l2 [E1 [E2 ->]]]]. apply in_app_or in Hin. destruct Hin as [Hin|Hin].
      + right. exists c, l2. split; [left; reflexivity | split; assumption].
      + left. exists l1. split; assumption.
    - right. exists c', lc. split; [right; exact Hc | split; assumption].
  Qed.
  Lemma fold_sig_inv cs : forall acc, s_has_sig (fold_left concatenate_rev cs acc) = true ->
    s_has_sig acc = true \/ exists c, In c cs /\ s_has_sig c = true.
  Proof.
    induction cs as [|c r IH]; intros acc H; cbn [fold_left] in H; [left; exact H|].
    destruct (IH _ H) as [H1|[c' [Hc Hs]]].
    - destruct (concat_sig_inv acc c H1) as [G|G]; [left; exact G | right; exists c; split; [left; reflexivity | exact G]].
    - right. exists c'. split; [right; exact Hc | exact Hs].
  Qed.
  Lemma fold_imp_inv cs : Forall (held se) cs -> forall acc, held se acc ->
    is_imp (s_stack (fold_left concatenate_rev cs acc)) = true ->
    is_imp (s_stack acc) = true \/ exists c, In c cs /\ is_imp (s_stack c) = true.
  Proof.
    induction 1 as [|c r Hc Hr IH]; intros acc Ha H; cbn [fold_left] in H; [left; exact H|].
    destruct (IH _ (concat_held se acc c Ha Hc) H) as [H1|[c' [Hc' Hs]]].
    - destruct (concat_imp_inv se Habs_unit Hrel_unit acc c Ha Hc H1) as [G|G]; [left; exact G | right; exists c; split; [left; reflexivity | exact G]].
    - right. exists c'. split; [right; exact Hc' | exact Hs].
  Qed.

  (* ---------- the children under a selection mask ---------- *)
  Fixpoint mkL (xs : list ms) (M : list bool) : list ent :=
    match xs, M with
    | x :: r, b :: m =>
      (ukeys x, (if b then snd (usd x) else fst (usd x)),
       (fun B => if b then all_sat ke B x else all_dsat ke B x)) :: mkL r m
    | _, _ => []
    end.

  Lemma mkL_K xs : forall M, length M = length xs -> map eK (mkL xs M) = map ukeys xs.
  Proof.
    induction xs as [|x r IH]; intros [|b m] Hl; cbn [length] in Hl; try lia; [reflexivity|].
    cbn [mkL map]. rewrite IH by lia. reflexivity.
  Qed.
  Lemma mkL_T B xs : forall M, map (fun e => eT e B) (mkL xs M) = pickm (map (sd ke B) xs) M.
  Proof.
    induction xs as [|x r IH]; intros [|b m]; try reflexivity. cbn [mkL map pickm]. rewrite IH.
    destruct b; reflexivity.
  Qed.
  Lemma mkL_C_const (b : bool) xs :
    map eC (mkL xs (repeat b (length xs))) = map (fun d : satn * satn => if b then snd d else fst d) (map usd xs).
  Proof. induction xs as [|x r IH]; [reflexivity|]. cbn [length repeat mkL map]. rewrite IH. reflexivity. Qed.
  Lemma mkL_C_seq (sel : nat -> bool) xs : forall a,
    map (fun i => if sel i then snd (usd (nth (i - a) xs MTrue)) else fst (usd (nth (i - a) xs MTrue))) (seq a (length xs))
    = map eC (mkL xs (map sel (seq a (length xs)))).
  Proof.
    induction xs as [|x r IH]; intros a; [reflexivity|]. cbn [length seq map mkL]. rewrite Nat.sub_diag. cbn [nth]. f_equal.
    rewrite <- (IH (S a)). apply map_ext_in. intros i Hi. apply in_seq in Hi.
    replace (i - a)%nat with (S (i - S a)) by lia. reflexivity.
  Qed.

  Definition childJ (x : ms) : Prop :=
    J (ukeys x) (fst (usd x)) (fun B => all_dsat ke B x) /\ J (ukeys x) (snd (usd x)) (fun B => all_sat ke B x).
  Lemma mkL_J xs : Forall childJ xs -> forall M, Forall (fun e => J (eK e) (eC e) (eT e)) (mkL xs M).
  Proof.
    induction 1 as [|x r [Hd Hs] Hr IH]; intros [|b m]; cbn [mkL]; try constructor; [|apply IH].
    unfold eK, eC, eT. cbn [fst snd]. destruct b; assumption.
  Qed.

  Lemma J_mask xs M : length M = length xs -> Forall childJ xs -> pdisj (map ukeys xs) ->
    J (flat_map ukeys xs) (flatten_rev (map eC (mkL xs M))) (fun B => icross (pickm (map (sd ke B) xs) M)).
  Proof.
    intros Hl HJ HP. rewrite flat_map_concat_map, <- (mkL_K xs M Hl).
    apply (J_ext A se f _ _ (fun B => icross (map (fun e => eT e B) (mkL xs M)))).
    { intros B. rewrite mkL_T. reflexivity. }
    apply J_flatten; [apply mkL_J, HJ | rewrite (mkL_K xs M Hl); exact HP].
  Qed.

  (* all children dissatisfied / all children satisfied *)
  Lemma J_thresh_dis xs : Forall childJ xs -> pdisj (map ukeys xs) ->
    J (flat_map ukeys xs) (flatten_rev (map fst (map usd xs))) (fun B => thresh_comb 0 (map (sd ke B) xs)).
  Proof.
    intros HJ HP. pose proof (J_mask xs (repeat false (length xs)) (repeat_length _ _) HJ HP) as G.
    rewrite (mkL_C_const false) in G.
    revert G. apply J_ext.
    intros B. rewrite comb_zero. rewrite <- (pickm_false (map (sd ke B) xs)), map_length. reflexivity.
  Qed.
  Lemma J_thresh_all xs : Forall childJ xs -> pdisj (map ukeys xs) ->
    J (flat_map ukeys xs) (flatten_rev (map snd (map usd xs))) (fun B => thresh_comb (length xs) (map (sd ke B) xs)).
  Proof.
    intros HJ HP. pose proof (J_mask xs (repeat true (length xs)) (repeat_length _ _) HJ HP) as G.
    rewrite (mkL_C_const true) in G.
    revert G. apply J_sub. intros B w Hw. cbv beta.
    rewrite <- (ctrue_repeat_true (length xs)) in Hw. apply comb_masked; [|exact Hw].
    apply (Forall2_of_nth _ ([], []) false); [rewrite map_length, repeat_length; reflexivity|].
    intros i Hi E. rewrite map_length in Hi.
    assert (Hn : nth i (repeat true (length xs)) false = true).
    { clear -Hi. revert i Hi. induction (length xs) as [|n IH]; intros i Hi; [lia|]. destruct i; [reflexivity|]. cbn [repeat nth]. apply IH. lia. }
    congruence.
  Qed.

  (* ---------- k < n ---------- *)
  Section NM.
    Variable xs : list ms.
    Variable k : nat.
    Let ds := map usd xs.
    Let dissats := map fst ds.
    Let sats := map snd ds.
    Let n := length xs.
    Hypothesis Hk : (k < n)%nat.
    Hypothesis HJ : Forall childJ xs.
    Hypothesis HP : pdisj (map ukeys xs).
    Hypothesis Hclean : Forall clean dissats.

    Let order := nm_order se dissats sats.
    Let C := firstn k order.
    Let R := skipn k order.
    Let xi (i : nat) : ms := nth i xs MTrue.

    Lemma tu_len_d : length dissats = n. Proof. unfold dissats, ds. rewrite !map_length. reflexivity. Qed.
    Lemma tu_len_s : length sats = length dissats. Proof. unfold sats, dissats, ds. rewrite !map_length. reflexivity. Qed.
    Lemma tu_kd : (k < length dissats)%nat. Proof. rewrite tu_len_d. exact Hk. Qed.
    Lemma tu_nd i : (i < n)%nat -> nth_sat dissats i = fst (usd (xi i)).
    Proof. intros Hi. unfold nth_sat, dissats, ds. rewrite map_map. apply (nth_map_d (fun x => fst (usd x))). exact Hi. Qed.
    Lemma tu_ns i : (i < n)%nat -> nth_sat sats i = snd (usd (xi i)).
    Proof. intros Hi. unfold nth_sat, sats, ds. rewrite map_map. apply (nth_map_d (fun x => snd (usd x))). exact Hi. Qed.
    Lemma tu_child i : (i < n)%nat -> childJ (xi i).
    Proof. intros Hi. rewrite Forall_forall in HJ. apply HJ. apply nth_In. exact Hi. Qed.
    Lemma tu_clean i : (i < n)%nat -> clean (nth_sat dissats i).
    Proof. intros Hi. unfold nth_sat. apply forall_nth; [exact Hclean | rewrite tu_len_d; exact Hi]. Qed.
    Lemma tu_lt i : In i order -> (i < n)%nat.
    Proof. intros Hi. rewrite <- tu_len_d. exact (nmo_lt se k dissats sats tu_len_s tu_kd i Hi). Qed.
    Lemma tu_CR i : (i < n)%nat -> In i C \/ In i R.
    Proof.
      intros Hi. assert (Ho : In i order).
      { eapply Permutation_in; [symmetry; apply nmo_perm|]. apply in_seq. rewrite tu_len_d. lia. }
      unfold order in Ho. rewrite (nmo_split se k) in Ho. apply in_app_or in Ho. exact Ho.
    Qed.
    Lemma tu_nodup : NoDup order.
    Proof. eapply Permutation_NoDup; [symmetry; apply nmo_perm | apply seq_NoDup]. Qed.
    Lemma tu_C_notR i : In i C -> In i R -> False.
    Proof.
      intros H1 H2. pose proof tu_nodup as Hn. unfold order in Hn. rewrite (nmo_split se k) in Hn.
      exact (nodup_app_notin _ _ Hn i H1 H2).
    Qed.

    Definition sel (i : nat) : bool := existsb (Nat.eqb i) C.
    Lemma sel_true i : sel i = true <-> In i C.
    Proof.
      unfold sel. rewrite existsb_exists. split.
      - intros [j [Hj E]]. apply Nat.eqb_eq in E. subst. exact Hj.
      - intros H. exists i. split; [exact H | apply Nat.eqb_refl].
    Qed.
    Lemma sel_false i : (i < n)%nat -> sel i = false -> In i R.
    Proof.
      intros Hi E. destruct (tu_CR i Hi) as [H|H]; [|exact H]. apply sel_true in H. congruence.
    Qed.
    Definition Msel : list bool := map sel (seq 0 n).
    Lemma Msel_len : length Msel = length xs. Proof. unfold Msel. rewrite map_length, seq_length. reflexivity. Qed.
    Lemma Msel_nth i : (i < n)%nat -> nth i Msel false = sel i.
    Proof. intros Hi. unfold Msel. rewrite (nth_map_d sel (seq 0 n) i 0%nat false) by (rewrite seq_length; exact Hi). rewrite seq_nth by exact Hi. reflexivity. Qed.
    Lemma Msel_ctrue : ctrue Msel = k.
    Proof.
      unfold Msel. rewrite ctrue_map. unfold cnt, sel. rewrite chosen_count.
      - exact (nmo_lenC se k dissats sats tu_len_s tu_kd).
      - apply firstn_nodup, tu_nodup.
      - intros i Hi. apply tu_lt. exact (nmo_inC se k dissats sats i Hi).
    Qed.

    Lemma tu_ret : swap_in C dissats sats = map eC (mkL xs Msel).
    Proof.
      rewrite swap_in_seq, tu_len_d. unfold Msel, n. rewrite <- (mkL_C_seq sel xs 0).
      apply map_ext_in. intros i Hi. apply in_seq in Hi. rewrite Nat.sub_0_r.
      fold (sel i). rewrite (tu_nd i) by (unfold n; lia). rewrite (tu_ns i) by (unfold n; lia). reflexivity.
    Qed.

    (* the components of the returned vector *)
    Lemma tu_ret_in c : In c (swap_in C dissats sats) ->
      exists i, (i < n)%nat /\ ((In i C /\ c = snd (usd (xi i))) \/ (In i R /\ c = fst (usd (xi i)))).
    Proof.
      rewrite swap_in_seq, tu_len_d. intros H. apply in_map_iff in H. destruct H as [i [<- Hi]]. apply in_seq in Hi.
      exists i. split; [lia|]. fold (sel i). destruct (sel i) eqn:E.
      - left. split; [apply sel_true, E | apply tu_ns; lia].
      - right. split; [apply sel_false; [lia | exact E] | apply tu_nd; lia].
    Qed.

    (* sortedness: what follows the chosen ones *)
    Lemma tu_sorted c r : In c C -> In r R -> key3_le (nm_key se dissats sats c) (nm_key se dissats sats r) = true.
    Proof. apply nmo_sorted. Qed.
    Lemma tu_imp_down c : In c C -> is_imp (s_stack (nth_sat sats c)) = true ->
      forall r, In r R -> is_imp (s_stack (nth_sat sats r)) = true.
    Proof.
      intros Hc Ec r Hr. pose proof (tu_sorted c r Hc Hr) as G. unfold nm_key in G. rewrite Ec in G. exact (key3_imp _ _ _ _ _ G).
    Qed.
    Definition weak (i : nat) : bool := negb (is_imp (s_stack (nth_sat sats i))) && negb (s_has_sig (nth_sat sats i)).
    Lemma tu_weak_down c : In c C -> weak c = false -> forall r, In r R -> weak r = false.
    Proof.
      intros Hc Ec r Hr. pose proof (tu_sorted c r Hc Hr) as G. unfold nm_key in G. unfold weak in *.
      destruct (is_imp (s_stack (nth_sat sats c))) eqn:E1.
      - rewrite (key3_imp _ _ _ _ _ G). reflexivity.
      - destruct (s_has_sig (nth_sat sats c)) eqn:E2; [|discriminate]. apply key3_sig in G. destruct G as [->| ->]; [reflexivity | apply Bool.andb_false_r].
    Qed.
    Lemma tu_few (q : nat -> bool) c : In c C -> q c = false -> (forall r, In r R -> q r = false) ->
      (cnt q (seq 0 n) < k)%nat.
    Proof.
      intros Hc Ec HR. rewrite <- tu_len_d, (nmo_cnt se k dissats sats q). fold order. fold C. fold R.
      assert (E0 : cnt q R = 0%nat).
      { unfold cnt. destruct (filter q R) as [|x r] eqn:E; [reflexivity|]. exfalso.
        assert (Hin : In x (filter q R)) by (rewrite E; left; reflexivity). apply filter_In in Hin. destruct Hin as [H1 H2]. rewrite (HR x H1) in H2. discriminate. }
      pose proof (cnt_negb q C) as G1. pose proof (cnt_pos (fun x => negb (q x)) C c Hc ltac:(cbv beta; rewrite Ec; reflexivity)) as G2.
      pose proof (nmo_lenC se k dissats sats tu_len_s tu_kd) as G3. fold order in G3. fold C in G3. lia.
    Qed.
    (* a mask that is false where the third party has no satisfaction and has fewer than k trues kills the table *)
    Lemma tu_kill (q : nat -> bool) B : (cnt q (seq 0 n) < k)%nat ->
      (forall i, (i < n)%nat -> q i = false -> all_sat ke B (xi i) = []) ->
      thresh_comb k (map (sd ke B) xs) = [].
    Proof.
      intros Hc Hq. apply (comb_empty _ (map q (seq 0 n))); [|rewrite ctrue_map; exact Hc].
      apply (Forall2_of_nth _ ([], []) false); [rewrite !map_length, seq_length; reflexivity|].
      intros i Hi E. rewrite map_length in Hi. rewrite (nth_map_d (sd ke B) xs i MTrue) by exact Hi.
      rewrite (nth_map_d q (seq 0 n) i 0%nat false) in E by (rewrite seq_length; exact Hi). rewrite seq_nth in E by exact Hi.
      exact (Hq i Hi E).
    Qed.

    Let ret := swap_in C dissats sats.
    Lemma tu_ret_held : Forall (held se) ret.
    Proof.
      apply Forall_forall. intros c Hc. apply tu_ret_in in Hc. destruct Hc as [i [Hi [[_ ->]|[_ ->]]]];
        destruct (tu_child i Hi) as [Jd Js]; [exact (j_held _ _ _ _ _ _ Js) | exact (j_held _ _ _ _ _ _ Jd)].
    Qed.

    Lemma JF : J (flat_map ukeys xs) (flatten_rev ret) (fun B => icross (pickm (map (sd ke B) xs) Msel)).
    Proof. unfold ret. rewrite tu_ret. exact (J_mask xs Msel Msel_len HJ HP). Qed.

    (* pairwise disjointness by index *)
    Lemma tu_disj i j : (i < n)%nat -> (j < n)%nat -> i <> j -> disj (ukeys (xi i)) (ukeys (xi j)).
    Proof.
      unfold xi, n. clear -HP. revert i j. induction xs as [|x r IH]; intros i j Hi Hj Hne; [cbn in Hi; lia|].
      cbn [map pdisj] in HP. destruct HP as [H1 H2]. rewrite Forall_forall in H1.
      destruct i as [|i], j as [|j]; cbn [nth length] in *; try lia.
      - apply H1. apply in_map. apply nth_In. lia.
      - apply disj_sym. apply H1. apply in_map. apply nth_In. lia.
      - apply IH; [exact H2 | lia | lia | lia].
    Qed.
    Lemma tu_keys_in i : (i < n)%nat -> incl (ukeys (xi i)) (flat_map ukeys xs).
    Proof. intros Hi k0 Hk0. apply in_flat_map. exists (xi i). split; [apply nth_In; exact Hi | exact Hk0]. Qed.

    (* the signatures in the published vector belong to chosen children *)
    Lemma tu_sig_chosen l k0 : s_stack (flatten_rev ret) = WStack l -> In (PhSig k0) l ->
      exists c, In c C /\ In k0 (ukeys (xi c)).
    Proof.
      intros Hl Hin. unfold flatten_rev in Hl. destruct (fold_stack_in ret TRIVIAL l _ Hl Hin) as [[la [Ha Hi]]|[c [lc [Hc [Hs Hi]]]]].
      - cbn in Ha. inversion Ha; subst. destruct Hi.
      - apply tu_ret_in in Hc. destruct Hc as [i [Hi' [[HC ->]|[HR ->]]]]; destruct (tu_child i Hi') as [Jd Js].
        + exists i. split; [exact HC | exact (j_keys _ _ _ _ _ _ Js lc k0 Hs Hi)].
        + exfalso. pose proof (tu_clean i Hi') as Cl. rewrite (tu_nd i Hi') in Cl.
          pose proof (clean_nosig_stack _ lc Cl (j_bk _ _ _ _ _ _ Jd) Hs) as Hn. rewrite Forall_forall in Hn. exact (Hn _ Hi).
    Qed.

    (* after the "too many weak arguments" check every non-chosen child is Impossible or signed *)
    Hypothesis Hcheck : negb (s_has_sig (nth_sat sats (nth k order 0%nat))) && negb (is_imp (s_stack (nth_sat sats (nth k order 0%nat)))) = false.
    Lemma tu_rest_strong r : In r R -> weak r = false.
    Proof.
      intros Hr. set (x := nth k order 0%nat) in *.
      assert (Hlo : (k < length order)%nat) by (unfold order; rewrite nmo_len; exact tu_kd).
      assert (Hx : weak x = false).
      { unfold weak. destruct (s_has_sig (nth_sat sats x)), (is_imp (s_stack (nth_sat sats x))); cbn in *; congruence. }
      unfold R in Hr. rewrite (skipn_nth_cons order 0%nat k Hlo) in Hr. destruct Hr as [<-|Hr]; [exact Hx|].
      assert (Hs : StronglySorted (gle key3 key3_le (nm_key se dissats sats)) order) by (apply ordered_sorted; [exact key3_total | exact key3_trans]).
      pose proof (sorted_split _ _ _ Hs (S k) x r (nth_in_firstn_S order 0%nat k Hlo) Hr) as G. unfold gle, nm_key in G. fold x in G.
      unfold weak in *. destruct (is_imp (s_stack (nth_sat sats x))) eqn:E1.
      - rewrite (key3_imp _ _ _ _ _ G). reflexivity.
      - destruct (s_has_sig (nth_sat sats x)) eqn:E2; [|discriminate]. apply key3_sig in G. destruct G as [->| ->]; [reflexivity | apply Bool.andb_false_r].
    Qed.

    Lemma tu_nosat B i : below A B -> (i < n)%nat -> weak i = false -> nosigs B (ukeys (xi i)) -> all_sat ke B (xi i) = [].
    Proof.
      intros HB Hi Hw Hn. destruct (tu_child i Hi) as [_ Js]. unfold weak in Hw. rewrite (tu_ns i Hi) in Hw.
      destruct (is_imp (s_stack (snd (usd (xi i))))) eqn:E1; [exact (j_imp _ _ _ _ _ _ Js E1 B HB)|].
      destruct (s_has_sig (snd (usd (xi i)))) eqn:E2; [exact (j_sig _ _ _ _ _ _ Js E2 B HB Hn) | discriminate].
    Qed.

    Lemma J_thresh_flat : J (flat_map ukeys xs) (flatten_rev ret) (fun B => thresh_comb k (map (sd ke B) xs)).
    Proof.
      pose proof JF as G. constructor; try apply G.
      - (* impossible: a chosen satisfaction is impossible, hence fewer than k possible ones *)
        intros Hi B HB. unfold flatten_rev in Hi.
        destruct (fold_imp_inv ret tu_ret_held TRIVIAL (held_const se _ _) Hi) as [H|[c [Hc Hs]]]; [cbn in H; discriminate|].
        apply tu_ret_in in Hc. destruct Hc as [i [Hi' [[HC ->]|[HR ->]]]].
        + set (q := fun j => negb (is_imp (s_stack (nth_sat sats j)))).
          apply (tu_kill q B).
          * apply (tu_few q i HC); [unfold q; rewrite (tu_ns i Hi'), Hs; reflexivity|].
            intros r Hr. unfold q. rewrite (tu_imp_down i HC ltac:(rewrite (tu_ns i Hi'); exact Hs) r Hr). reflexivity.
          * intros j Hj Hq. unfold q in Hq. apply Bool.negb_false_iff in Hq. rewrite (tu_ns j Hj) in Hq.
            destruct (tu_child j Hj) as [_ Js]. exact (j_imp _ _ _ _ _ _ Js Hq B HB).
        + exfalso. pose proof (clean_nimp _ (tu_clean i Hi')) as Cn. unfold nimp in Cn. rewrite (tu_nd i Hi') in Cn. congruence.
      - (* has_sig: a chosen satisfaction carries a signature, hence fewer than k weak ones *)
        intros Hs B HB Hn. unfold flatten_rev in Hs.
        destruct (fold_sig_inv ret TRIVIAL Hs) as [H|[c [Hc Hg]]]; [cbn in H; discriminate|].
        apply tu_ret_in in Hc. destruct Hc as [i [Hi' [[HC ->]|[HR ->]]]].
        + assert (Hwi : weak i = false) by (unfold weak; rewrite (tu_ns i Hi'), Hg; apply Bool.andb_false_r).
          apply (tu_kill weak B).
          * apply (tu_few weak i HC Hwi). exact (tu_weak_down i HC Hwi).
          * intros j Hj Hq. apply (tu_nosat B j HB Hj Hq). exact (nosigs_incl B _ _ (tu_keys_in j Hj) Hn).
        + exfalso. destruct (tu_clean i Hi') as [_ [Cg _]]. rewrite (tu_nd i Hi') in Cg. congruence.
      - (* stack: the third party can only satisfy the chosen children *)
        intros l bs Hl Hf B HB Hv w' Hw.
        apply (j_stk _ _ _ _ _ _ G l bs Hl Hf B HB Hv). rewrite <- Msel_ctrue in Hw. apply comb_masked; [|exact Hw].
        apply (Forall2_of_nth _ ([], []) false); [rewrite map_length, Msel_len; reflexivity|].
        intros i Hi E. rewrite map_length in Hi. rewrite (nth_map_d (sd ke B) xs i MTrue) by exact Hi.
        rewrite (Msel_nth i Hi) in E. pose proof (sel_false i Hi E) as HR.
        apply (tu_nosat B i HB Hi (tu_rest_strong i HR)).
        intros k0 Hk0. destruct (a_sig B k0) as [s0|] eqn:Es; [exfalso | reflexivity].
        assert (Hin : In (PhSig k0) l) by (apply Hv; [apply (tu_keys_in i Hi), Hk0 | congruence]).
        destruct (tu_sig_chosen l k0 Hl Hin) as [c [Hc Hkc]].
        assert (Hne : c <> i) by (intros ->; exact (tu_C_notR i Hc HR)).
        exact (tu_disj c i (tu_lt c (nmo_inC se k dissats sats c Hc)) Hi Hne k0 Hkc Hk0).
    Qed.
  End NM.

  Lemma J_thresh_nm xs k : (k < length xs)%nat -> Forall childJ xs -> pdisj (map ukeys xs) ->
    Forall clean (map fst (map usd xs)) ->
    J (flat_map ukeys xs) (thresh_nonmall se k (map fst (map usd xs)) (map snd (map usd xs)))
      (fun B => thresh_comb k (map (sd ke B) xs)).
  Proof.
    intros Hk HJ HP Hc. rewrite thresh_nonmall_eq.
    assert (Hkth : (nth (k - 1) (nm_order se (map fst (map usd xs)) (map snd (map usd xs))) 0 < length xs)%nat).
    { apply (tu_lt xs k Hk). apply nth_In. rewrite nmo_len, (tu_len_d xs). lia. }
    pose proof (clean_nimp _ (tu_clean xs Hc _ Hkth)) as E1. unfold nimp in E1. rewrite E1.
    destruct (negb _ && negb _) eqn:E2; [apply (J_unavail A se f)|].
    exact (J_thresh_flat xs k Hk HJ HP Hc E2).
  Qed.

  (* ---------- the typing rule ---------- *)
  Lemma ut_thresh k xs ts :
    (1 <= k <= N.of_nat (length xs))%N -> length ts = length xs -> NoDup (flat_map ukeys xs) ->
    (forall i, (i < length xs)%nat ->
       uinv (ukeys (nth i xs MTrue)) (usd (nth i xs MTrue)) (fun B => all_dsat ke B (nth i xs MTrue))
            (fun B => all_sat ke B (nth i xs MTrue)) (t_mall (nth i ts dty))) ->
    uinv (flat_map ukeys xs)
         (flatten_rev (map fst (map usd xs)),
          if N.eqb k (N.of_nat (length xs)) then flatten_rev (map snd (map usd xs))
          else thresh_nonmall se (N.to_nat k) (map fst (map usd xs)) (map snd (map usd xs)))
         (fun B => thresh_comb 0 (map (sd ke B) xs)) (fun B => thresh_comb (N.to_nat k) (map (sd ke B) xs))
         (m_threshold k (map t_mall ts)).
  Proof.
    intros Hk Hlt Hnd HI. set (ds := map usd xs). set (n := length xs) in *. set (mls := map t_mall ts).
    assert (Hl1 : length (map snd ds) = length (map fst ds)) by (rewrite !map_length; reflexivity).
    assert (Hl2 : length (map fst ds) = n) by (unfold ds; rewrite !map_length; reflexivity).
    assert (Hlm : length mls = n) by (unfold mls; rewrite map_length; exact Hlt).
    assert (Hn1 : forall i, (i < n)%nat -> nth_sat (map fst ds) i = fst (usd (nth i xs MTrue))).
    { intros i Hi. unfold nth_sat, ds. rewrite map_map. apply (nth_map_d (fun x => fst (usd x))). exact Hi. }
    assert (Hn2 : forall i, (i < n)%nat -> nth_sat (map snd ds) i = snd (usd (nth i xs MTrue))).
    { intros i Hi. unfold nth_sat, ds. rewrite map_map. apply (nth_map_d (fun x => snd (usd x))). exact Hi. }
    assert (Hnm : forall i, (i < n)%nat -> nth i mls m_true = t_mall (nth i ts dty)).
    { intros i Hi. unfold mls. apply nth_map_d. rewrite Hlt. exact Hi. }
    set (sg := fun i => m_signed (nth i mls m_true)).
    assert (Hcs : cnt sg (seq 0 n) = cnt m_signed mls) by (rewrite <- Hlm; apply cnt_nth).
    assert (Hhd : Forall (held se) (map fst ds)).
    { apply (forall_of_nth _ _ IMPOSSIBLE). intros i Hi. rewrite Hl2 in Hi. fold (nth_sat (map fst ds) i). rewrite (Hn1 i Hi). apply (u_hd _ _ _ _ _ _ _ _ (HI i Hi)). }
    assert (Hhs : Forall (held se) (map snd ds)).
    { apply (forall_of_nth _ _ IMPOSSIBLE). intros i Hi. rewrite Hl1, Hl2 in Hi. fold (nth_sat (map snd ds) i). rewrite (Hn2 i Hi). apply (u_hs _ _ _ _ _ _ _ _ (HI i Hi)). }
    assert (Hsg : forall i, (i < length (map fst ds))%nat -> sg i = true -> ios (nth_sat (map snd ds) i)).
    { intros i Hi Hs. rewrite Hl2 in Hi. rewrite (Hn2 i Hi). apply (u_sig _ _ _ _ _ _ _ _ (HI i Hi)). unfold sg in Hs. rewrite (Hnm i Hi) in Hs. exact Hs. }
    assert (Hkn : k <> N.of_nat n -> (N.to_nat k < length (map fst ds))%nat).
    { intros E. rewrite Hl2. lia. }
    rewrite m_threshold_closed. cbv zeta. fold mls. rewrite Hlm.
    assert (HNM : forallb m_nm mls && N.leb (N.of_nat n - k) (N.of_nat (cnt m_signed mls)) && forallb is_du mls = true ->
                  Forall clean (map fst ds) /\ Forall childJ xs).
    { intros E. apply Bool.andb_true_iff in E. destruct E as [E Edu]. apply Bool.andb_true_iff in E. destruct E as [Enm Ec].
      rewrite forallb_forall in Edu, Enm.
      assert (G : forall i, (i < n)%nat -> m_nm (t_mall (nth i ts dty)) = true /\ m_dissat (t_mall (nth i ts dty)) = DUnique).
      { intros i Hi. rewrite <- (Hnm i Hi). assert (Hin : In (nth i mls m_true) mls) by (apply nth_In; lia). split; [apply Enm, Hin|].
        specialize (Edu _ Hin). unfold is_du in Edu. destruct (m_dissat (nth i mls m_true)); try discriminate. reflexivity. }
      split.
      - apply (forall_of_nth _ _ IMPOSSIBLE). intros i Hi. rewrite Hl2 in Hi. fold (nth_sat (map fst ds) i). rewrite (Hn1 i Hi).
        destruct (G i Hi) as [G1 G2]. apply (u_du _ _ _ _ _ _ _ _ (HI i Hi) G1 G2).
      - apply (forall_of_nth _ _ MTrue). intros i Hi. destruct (G i Hi) as [G1 _].
        split; [exact (u_jd _ _ _ _ _ _ _ _ (HI i Hi) G1) | exact (u_js _ _ _ _ _ _ _ _ (HI i Hi) G1)]. }
    assert (HPd : pdisj (map ukeys xs)).
    { rewrite flat_map_concat_map in Hnd. apply nodup_concat_pdisj in Hnd. apply Hnd. }
    constructor; cbn [fst snd m_dissat m_signed m_nm].
    - apply fold_held; [exact Hhd | apply held_trivial].
    - destruct (N.eqb k (N.of_nat n)); [apply fold_held; [exact Hhs | apply held_trivial] | apply tn_held; assumption].
    - intros E. apply N.ltb_lt in E. destruct (N.eqb k (N.of_nat n)) eqn:Ek.
      + apply N.eqb_eq in Ek. unfold flatten_rev. apply fold_ios. right.
        assert (G : (1 <= cnt sg (seq 0 n))%nat) by (rewrite Hcs; lia). apply cnt_exists in G. destruct G as [i [Hi Hs]]. apply in_seq in Hi.
        apply Exists_exists. exists (nth_sat (map snd ds) i). split; [unfold nth_sat; apply nth_In; lia | apply Hsg; [lia | exact Hs]].
      + apply (tn_ios se _ _ _ Hl1 (Hkn (proj1 (N.eqb_neq _ _) Ek)) sg Hsg). rewrite Hl2, Hcs. apply N.eqb_neq in Ek. lia.
    - intros E. destruct (forallb is_du mls && _); discriminate.
    - intros E _. destruct (HNM E) as [Hc _]. unfold flatten_rev. apply fold_clean; [exact Hc | apply clean_trivial].
    - intros E. destruct (HNM E) as [_ HJ]. exact (J_thresh_dis xs HJ HPd).
    - intros E. destruct (HNM E) as [Hc HJ]. destruct (N.eqb k (N.of_nat n)) eqn:Ek.
      + apply N.eqb_eq in Ek. replace (N.to_nat k) with (length xs) by (fold n; lia). exact (J_thresh_all xs HJ HPd).
      + apply N.eqb_neq in Ek. apply J_thresh_nm; [fold n; lia | exact HJ | exact HPd | exact Hc].
  Qed.
End UniqThresh.
