(* C13, completeness of the interpreter's evaluator against the EXACT semantics of the encoded
   script (Ms/DenotSpec.v: [R], Theorem B): every (dis)satisfaction in the relation -- canonical or
   not: any non-preimage as hash dissatisfaction, and_b / andor / thresh / multi_a dissatisfied in
   every way the script allows, or_b with both sides satisfied, j: with a non-empty top and X
   dissatisfied, pk_h with any key of the right hash -- is evaluated by the interpreter to the same
   verdict.  All constructors except sortedmulti / sortedmulti_a ([icover]).
   The clauses of [R] on which interpreter and script differ are excluded by hypotheses, each of
   them needed (InterpWitness.v has the counter-examples):
     * [isel]: a d: / or_i selector is judged by MINIMALIF, i.e. the signature version is not the
       base one wherever the fragment contains d: or or_i (under the base version the script takes
       ANY true / false value as selector, the interpreter only 01 / empty);
     * an acceptable public key parses and is neither empty nor the byte 01; the one-byte string
       01 and the empty string are not valid signatures (the interpreter reads them as booleans). *)
From Verif Require Import Exec Ser Ast Types TypeCheck SatSpec ExecLemmas TheoremA DenotSpec DenotLemmas DenotMain.
From Verif Require Import InterpModel InterpRefine InterpSound.
From Coq Require Import Lia.
Local Open Scope N_scope.

Section InterpDenot.
  Variable e : env.
  Variable ke : keyenv.
  Variable kp : bytes -> bool.

  Hypothesis Hkeyparse : forall b, e_keyok e b = true -> kp b = true /\ b <> [] /\ b <> [1].
  Hypothesis Hsig_empty : forall k, e_sigok e k [] = false.
  Hypothesis Hsig_one : forall k, e_sigok e k [1] = false.

  (* selectors are judged by MINIMALIF wherever there is one *)
  Fixpoint isel (m : ms) : Prop :=
    match m with
    | MDupIf x => minimalif (e_sv e) = true /\ isel x
    | MOrI x y => minimalif (e_sv e) = true /\ isel x /\ isel y
    | MAlt x | MSwap x | MCheck x | MVerify x | MNonZero x | MZeroNotEqual x => isel x
    | MAndV x y | MAndB x y | MOrB x y | MOrD x y | MOrC x y => isel x /\ isel y
    | MAndOr a b c => isel a /\ isel b /\ isel c
    | MThresh _ xs => (fix go (l : list ms) : Prop := match l with [] => True | x :: r => isel x /\ go r end) xs
    | _ => True
    end.

  Notation ev m st := (ieval e ke kp m st).
  Notation Rr := (R e ke).

  Definition Ab (w : wit) : astack := map elem_of w.
  Lemma Ab_app a b : Ab (a ++ b) = Ab a ++ Ab b. Proof. apply map_app. Qed.

  Lemma elem_of_push b : b <> [] -> b <> [1] -> elem_of b = EPush b.
  Proof.
    intros H0 H1. destruct b as [|x [|y r]]; [congruence | | reflexivity]. cbn.
    destruct (N.eqb_spec x 1); [subst; congruence | reflexivity].
  Qed.
  Lemma elem_of_ne_dis b : b <> [] -> elem_of b <> EDis.
  Proof. destruct b as [|x [|y r]]; [congruence | | discriminate]. cbn. destruct (x =? 1); discriminate. Qed.
  Lemma sig_push k s : e_sigok e k s = true -> elem_of s = EPush s.
  Proof.
    intros H. apply elem_of_push; intros ->; [rewrite Hsig_empty in H | rewrite Hsig_one in H]; discriminate.
  Qed.
  Lemma len32_push (b : bytes) : blen b = 32 -> elem_of b = EPush b.
  Proof. intros H. apply elem_of_push; intros ->; cbn in H; lia. Qed.

  Definition stat (s : bool) : elem := if s then ESat else EDis.
  Definition resR (b : base) (s : bool) (r : astack) : astack := match b with BV => r | _ => stat s :: r end.

  Definition compR (m : ms) (b : base) : Prop :=
    forall s w v r, Rr m s w v -> exists cs, ev m (Ab w ++ r) = XOk (resR b s r) cs.

  Lemma xbind_okk r f s1 c1 : r = XOk s1 c1 -> xbind r f = match f s1 with
                                                            | XOk st' cs' => XOk st' (c1 ++ cs')
                                                            | XErr er cs' => XErr er (c1 ++ cs')
                                                            | XPanic s => XPanic s end.
  Proof. intros ->. reflexivity. Qed.

  Lemma if_cond_min v s : minimalif (e_sv e) = true -> if_cond e v = Some s -> v = bool_bytes s.
  Proof.
    intros Hm H. unfold if_cond in H. rewrite Hm in H.
    destruct v as [|x r]; [inversion H; reflexivity|].
    destruct x as [|[p|p|]]; try discriminate. destruct r; [inversion H; reflexivity | discriminate].
  Qed.

  Lemma mm_cons kx krest s srest :
    multisig_match e (kx :: krest) (s :: srest) =
    if Nat.ltb (length (kx :: krest)) (length (s :: srest)) then false
    else if e_sigok e kx s then multisig_match e krest srest else multisig_match e krest (s :: srest).
  Proof. destruct krest as [|k2 kr2]; reflexivity. Qed.

  (* ---------------------------------------------------------------- leaves *)
  Lemma d_true : compR MTrue BB.
  Proof. intros s w v r [-> [-> _]]. eexists; reflexivity. Qed.
  Lemma d_false : compR MFalse BB.
  Proof. intros s w v r [-> [-> _]]. eexists; reflexivity. Qed.

  Lemma d_pk_k k : compR (MPkK k) BK.
  Proof.
    intros s w v r [sg [-> [-> [Hk Hs]]]]. cbn [Ab map app ieval]. unfold evaluate_pk. destruct s.
    - destruct Hs as [Hne Hok]. rewrite (sig_push _ _ Hok), Hok. eexists; reflexivity.
    - subst sg. eexists; reflexivity.
  Qed.

  Lemma d_pkh_gen (m : ms) (h : bytes) :
    (forall st, ev m st = x_of_ev (evaluate_pkh e kp h st)) ->
    (forall s w v, Rr m s w v -> exists sg, w = [v; sg] /\ e_hash160 e v = h /\ ksig e s v sg) ->
    compR m BK.
  Proof.
    intros Hev HR s w v r H. destruct (HR s w v H) as [sg [-> [Hh [Hk Hs]]]].
    destruct (Hkeyparse v Hk) as [Hp [Hn0 Hn1]].
    rewrite Hev. cbn [Ab map app]. rewrite (elem_of_push v Hn0 Hn1). unfold evaluate_pkh.
    rewrite Hh, bytes_eqb_refl, Hp. cbn [negb]. destruct s.
    - destruct Hs as [Hne Hok]. rewrite (sig_push _ _ Hok), Hok. eexists; reflexivity.
    - subst sg. eexists; reflexivity.
  Qed.

  Lemma d_after t : compR (MAfter t) BB.
  Proof.
    intros s w v r [-> [-> [_ Hc]]]. unfold check_locktime in Hc. rewrite N2Z.id in Hc. cbv zeta in Hc.
    apply andb_prop in Hc. destruct Hc as [_ Hc]. apply andb_prop in Hc. destruct Hc as [Hc Hnf].
    apply andb_prop in Hc. destruct Hc as [Hu Hle]. apply negb_true_iff in Hnf.
    cbn [Ab map app ieval]. unfold evaluate_after. rewrite Hnf, Hu, Hle. eexists; reflexivity.
  Qed.

  Lemma land_disable_small t : t < 2147483648 -> N.land t SEQ_DISABLE = 0.
  Proof.
    intros Ht. apply N.bits_inj_0. intros n. rewrite N.land_spec. unfold SEQ_DISABLE.
    destruct (N.eq_dec n 31) as [->|Hn].
    - rewrite (N.bits_above_log2 t 31); [reflexivity|]. destruct (N.eq_dec t 0) as [->|Ht0]; [cbn; lia|].
      apply N.log2_lt_pow2; lia.
    - change 2147483648 with (2 ^ 31). rewrite N.pow2_bits_false by congruence. apply andb_false_r.
  Qed.

  Lemma d_older t : wf e ke (MOlder t) -> compR (MOlder t) BB.
  Proof.
    intros Hwf s w v r [-> [-> [_ Hc]]]. cbn in Hwf. unfold check_sequence in Hc. rewrite N2Z.id in Hc.
    apply andb_prop in Hc. destruct Hc as [_ Hc].
    pose proof (land_disable_small t ltac:(lia)) as Hd. rewrite Hd in Hc. cbn [N.eqb negb] in Hc.
    apply andb_prop in Hc. destruct Hc as [Hc Hle]. apply andb_prop in Hc. destruct Hc as [Hc Hty].
    apply andb_prop in Hc. destruct Hc as [Hv Hdis].
    assert (Hv' : (e_txversion e <? 2) = false) by (apply N.ltb_ge, N.leb_le, Hv).
    cbn [Ab map app ieval]. rewrite Hd. cbn [N.eqb negb]. unfold evaluate_older. rewrite Hv', Hdis, Hty, Hle.
    eexists; reflexivity.
  Qed.

  Lemma d_hash_gen (m : ms) (kd : ihk) (h : bytes) :
    (forall st, ev m st = x_of_ev (evaluate_hash e kd h st)) ->
    (forall s w v, Rr m s w v -> Rhash false (hash_of e kd) h s w v) ->
    compR m BB.
  Proof.
    intros Hev HR s w v r H. destruct (HR s w v H) as [x [-> [Hl [_ [Hh _]]]]].
    rewrite Hev. cbn [Ab map app]. rewrite (len32_push x Hl). unfold evaluate_hash. rewrite Hl. cbn [N.eqb Pos.eqb negb].
    destruct s.
    - rewrite Hh, bytes_eqb_refl. eexists; reflexivity.
    - rewrite (bytes_eqb_neq _ _ Hh). eexists; reflexivity.
  Qed.

  (* ---------------------------------------------------------------- wrappers *)
  Lemma d_same x y b b' : (forall st, ev y st = ev x st) -> (forall s w v, Rr y s w v -> exists v', Rr x s w v') ->
    b <> BV -> b' <> BV -> compR x b -> compR y b'.
  Proof.
    intros Hev HR Hb Hb' Hx s w v r H. destruct (HR s w v H) as [v' H']. destruct (Hx s w v' r H') as [cs Hc].
    exists cs. rewrite Hev, Hc. destruct b, b'; try contradiction; reflexivity.
  Qed.

  Lemma d_dupif x : minimalif (e_sv e) = true -> compR x BV -> compR (MDupIf x) BB.
  Proof.
    intros Hm Hx s w v r [-> [Hc [Hs _]]]. rewrite (if_cond_min v s Hm Hc). destruct s.
    - destruct (Hx true [] [] r (Hs eq_refl)) as [cs Hcs]. cbn [Ab map app resR] in Hcs.
      cbn [Ab map app ieval bool_bytes elem_of N.eqb Pos.eqb xpop_bool]. rewrite (xbind_okk _ _ _ _ Hcs). eexists; reflexivity.
    - eexists; reflexivity.
  Qed.

  Lemma d_verify x b : b <> BV -> compR x b -> compR (MVerify x) BV.
  Proof.
    intros Hb Hx s w v r [-> [_ [v' H]]]. destruct (Hx true w v' r H) as [cs Hc].
    cbn [ieval]. rewrite (xbind_okk _ _ _ _ Hc). destruct b; try contradiction; eexists; reflexivity.
  Qed.

  Lemma d_zne x b : b <> BV -> compR x b -> compR (MZeroNotEqual x) BB.
  Proof.
    intros Hb Hx s w v r [_ [v' [H _]]]. destruct (Hx s w v' r H) as [cs Hc].
    cbn [ieval]. rewrite (xbind_okk _ _ _ _ Hc). destruct b; try contradiction; destruct s; eexists; reflexivity.
  Qed.

  Lemma d_nonzero x b : b <> BV -> compR x b -> compR (MNonZero x) BB.
  Proof.
    intros Hb Hx s w v r [[-> [-> _]]|[a [w' [-> [Ha [_ [H _]]]]]]].
    - eexists; reflexivity.
    - destruct (Hx s _ v r H) as [cs Hc]. cbn [ieval]. cbn [Ab map app] in *.
      pose proof (elem_of_ne_dis a Ha) as Hne.
      destruct (elem_of a) eqn:Ea; try congruence; destruct b; try contradiction; eexists; exact Hc.
  Qed.

  (* ---------------------------------------------------------------- combinators *)
  Lemma d_and_v x y b : compR x BV -> compR y b -> compR (MAndV x y) b.
  Proof.
    intros Hx Hy s w v r [wx [wy [-> [H1 H2]]]].
    destruct (Hx true wx [] (Ab wy ++ r) H1) as [c1 E1]. destruct (Hy s wy v r H2) as [c2 E2].
    cbn [ieval]. rewrite Ab_app, <- app_assoc, (xbind_okk _ _ _ _ E1). cbn [resR]. rewrite E2. eexists; reflexivity.
  Qed.

  Lemma d_and_b x y bx by' : bx <> BV -> by' <> BV -> compR x bx -> compR y by' -> compR (MAndB x y) BB.
  Proof.
    intros Hbx Hby Hx Hy s w v r [wx [wy [vx [vy [sx [sy [-> [H1 [H2 [_ [_ [-> _]]]]]]]]]]]].
    destruct (Hx sx wx vx (Ab wy ++ r) H1) as [c1 E1]. destruct (Hy sy wy vy r H2) as [c2 E2].
    cbn [ieval]. rewrite Ab_app, <- app_assoc, (xbind_okk _ _ _ _ E1).
    destruct bx; try contradiction; destruct sx; cbn [resR stat xpop_bool]; rewrite (xbind_okk _ _ _ _ E2);
      destruct by'; try contradiction; destruct sy; cbn [resR stat is_sat andb]; eexists; reflexivity.
  Qed.

  Lemma d_or_b x y bx by' : bx <> BV -> by' <> BV -> compR x bx -> compR y by' -> compR (MOrB x y) BB.
  Proof.
    intros Hbx Hby Hx Hy s w v r [wx [wy [vx [vy [sx [sy [-> [H1 [H2 [_ [_ [-> _]]]]]]]]]]]].
    destruct (Hx sx wx vx (Ab wy ++ r) H1) as [c1 E1]. destruct (Hy sy wy vy r H2) as [c2 E2].
    cbn [ieval]. rewrite Ab_app, <- app_assoc, (xbind_okk _ _ _ _ E1).
    destruct bx; try contradiction; destruct sx; cbn [resR stat xpop_bool]; rewrite (xbind_okk _ _ _ _ E2);
      destruct by'; try contradiction; destruct sy; cbn [resR stat is_dis orb]; eexists; reflexivity.
  Qed.

  Lemma d_or_c x z : compR x BB -> compR z BV -> compR (MOrC x z) BV.
  Proof.
    intros Hx Hz s w v r [_ [_ [[vx [H1 _]]|[wx [wy [vx [-> [H1 [_ H2]]]]]]]]].
    - destruct (Hx true w vx r H1) as [c1 E1]. cbn [ieval]. rewrite (xbind_okk _ _ _ _ E1). eexists; reflexivity.
    - destruct (Hx false wx vx (Ab wy ++ r) H1) as [c1 E1]. destruct (Hz true wy [] r H2) as [c2 E2].
      cbn [ieval]. rewrite Ab_app, <- app_assoc, (xbind_okk _ _ _ _ E1). cbn [resR stat xpop_bool] in *. rewrite E2.
      eexists; reflexivity.
  Qed.

  Lemma d_or_d x z : compR x BB -> compR z BB -> compR (MOrD x z) BB.
  Proof.
    intros Hx Hz s w v r [[-> [H1 _]]|[wx [wy [vx [-> [H1 [_ H2]]]]]]].
    - destruct (Hx true w v r H1) as [c1 E1]. cbn [ieval]. rewrite (xbind_okk _ _ _ _ E1). eexists; reflexivity.
    - destruct (Hx false wx vx (Ab wy ++ r) H1) as [c1 E1]. destruct (Hz s wy v r H2) as [c2 E2].
      cbn [ieval]. rewrite Ab_app, <- app_assoc, (xbind_okk _ _ _ _ E1). cbn [resR stat xpop_bool] in *. rewrite E2.
      eexists; reflexivity.
  Qed.

  Lemma d_or_i x z b : minimalif (e_sv e) = true -> compR x b -> compR z b -> compR (MOrI x z) b.
  Proof.
    intros Hm Hx Hz s w v r [sel [w' [bb [-> [Hc [H _]]]]]]. rewrite (if_cond_min sel bb Hm Hc).
    destruct bb; cbn [Ab map app ieval bool_bytes elem_of N.eqb Pos.eqb xpop_bool]; change (map elem_of w') with (Ab w');
      [apply (Hx s w' v r H) | apply (Hz s w' v r H)].
  Qed.

  Lemma d_andor a b c bb : compR a BB -> compR b bb -> compR c bb -> compR (MAndOr a b c) bb.
  Proof.
    intros Ha Hb Hc s w v r [wa [w' [va [-> [[H1 [_ [H2 _]]]|[H1 [_ H2]]]]]]].
    - destruct (Ha true wa va (Ab w' ++ r) H1) as [c1 E1]. destruct (Hb s w' v r H2) as [c2 E2].
      cbn [ieval]. rewrite Ab_app, <- app_assoc, (xbind_okk _ _ _ _ E1). cbn [resR stat xpop_bool] in *. rewrite E2.
      eexists; reflexivity.
    - destruct (Ha false wa va (Ab w' ++ r) H1) as [c1 E1]. destruct (Hc s w' v r H2) as [c2 E2].
      cbn [ieval]. rewrite Ab_app, <- app_assoc, (xbind_okk _ _ _ _ E1). cbn [resR stat xpop_bool] in *. rewrite E2.
      eexists; reflexivity.
  Qed.

  (* ---------------------------------------------------------------- thresh *)
  Definition bitN (x : elem) : N := match x with ESat => 1 | _ => 0 end.

  Lemma d_tloop k l : 1 <= k -> Forall (fun x => compR x BB) l ->
    forall j w, Rthr (fun x => Rr x) l w j ->
    forall ns xp r, (xp = ESat \/ xp = EDis) ->
      exists cs, tloop e ke kp k l ns (xp :: Ab w ++ r)
                 = XOk ((if ns + bitN xp + N.of_nat j =? k then ESat else EDis) :: r) cs.
  Proof.
    intros Hk. induction 1 as [|x l' Hx Hl IH]; intros j w HR ns xp r Hxp.
    - destruct HR as [-> ->]. cbn [Ab map app tloop].
      destruct Hxp as [-> | ->]; cbn [bitN].
      + destruct (N.eqb_spec k 0); [lia|]. eexists. f_equal. f_equal.
        destruct (N.eqb_spec ns (k - 1)), (N.eqb_spec (ns + 1 + N.of_nat 0) k); try reflexivity; lia.
      + eexists. f_equal. f_equal.
        destruct (N.eqb_spec ns k), (N.eqb_spec (ns + 0 + N.of_nat 0) k); try reflexivity; lia.
    - apply Rthr_cons in HR. destruct HR as [wx [wr [-> [[j' [-> [H1 H2]]]|[H1 H2]]]]].
      + destruct (Hx true wx [1] (Ab wr ++ r) H1) as [c1 E1]. cbn [resR stat] in E1.
        destruct (IH j' wr H2 (ns + bitN xp) ESat r (or_introl eq_refl)) as [c2 E2].
        exists (c1 ++ c2). cbn [tloop]. rewrite Ab_app, <- app_assoc.
        destruct Hxp as [-> | ->]; cbn [xpop_bool bitN] in *; rewrite (xbind_okk _ _ _ _ E1);
          rewrite ?N.add_0_r in E2; rewrite E2; f_equal; f_equal;
          match goal with |- (if ?a =? k then _ else _) = (if ?b =? k then _ else _) => replace a with b by lia end; reflexivity.
      + destruct (Hx false wx [] (Ab wr ++ r) H1) as [c1 E1]. cbn [resR stat] in E1.
        destruct (IH j wr H2 (ns + bitN xp) EDis r (or_intror eq_refl)) as [c2 E2].
        exists (c1 ++ c2). cbn [tloop]. rewrite Ab_app, <- app_assoc.
        destruct Hxp as [-> | ->]; cbn [xpop_bool bitN] in *; rewrite (xbind_okk _ _ _ _ E1);
          rewrite ?N.add_0_r in E2; rewrite E2; f_equal; f_equal;
          match goal with |- (if ?a =? k then _ else _) = (if ?b =? k then _ else _) => replace a with b by lia end; reflexivity.
  Qed.

  Lemma d_thresh k x0 rest : 1 <= k -> compR x0 BB -> Forall (fun x => compR x BB) rest -> compR (MThresh k (x0 :: rest)) BB.
  Proof.
    intros Hk H0 Hr s w v r [_ [j [HR [-> _]]]]. apply Rthr_cons in HR.
    destruct HR as [wx [wr [-> [[j' [-> [H1 H2]]]|[H1 H2]]]]]; rewrite ev_thresh, Ab_app, <- app_assoc.
    - destruct (H0 true wx [1] (Ab wr ++ r) H1) as [c1 E1]. cbn [resR stat] in E1.
      destruct (d_tloop k rest Hk Hr j' wr H2 0 ESat r (or_introl eq_refl)) as [c2 E2].
      exists (c1 ++ c2). rewrite (xbind_okk _ _ _ _ E1), E2. cbn [resR bitN]. f_equal. f_equal.
      replace (0 + 1 + N.of_nat j') with (N.of_nat (S j')) by lia. destruct (N.of_nat (S j') =? k); reflexivity.
    - destruct (H0 false wx [] (Ab wr ++ r) H1) as [c1 E1]. cbn [resR stat] in E1.
      destruct (d_tloop k rest Hk Hr j wr H2 0 EDis r (or_intror eq_refl)) as [c2 E2].
      exists (c1 ++ c2). rewrite (xbind_okk _ _ _ _ E1), E2. cbn [resR bitN].
      change (0 + 0 + N.of_nat j) with (N.of_nat j). destruct (N.of_nat j =? k); reflexivity.
  Qed.

  (* ---------------------------------------------------------------- multi_a *)
  Lemma d_multi_a_loop k l : forall w j, Rcsa e ke l w j -> forall ns r,
    exists cs, multi_a_loop e ke k l ns (Ab w ++ r) = XOk ((if ns + N.of_nat j =? k then ESat else EDis) :: r) cs.
  Proof.
    induction l as [|key l' IH]; intros w j HR ns r.
    - destruct HR as [-> ->]. cbn [Ab map app multi_a_loop]. rewrite N.add_0_r. eexists; reflexivity.
    - cbn [Rcsa] in HR. destruct HR as [sg [w' [-> [_ [[-> H]|[Hne [Hok [j' [-> H]]]]]]]]]; cbn [Ab map app multi_a_loop].
      + cbn [elem_of evaluate_pk]. apply (IH w' j H ns r).
      + rewrite (sig_push _ _ Hok). cbn [evaluate_pk]. rewrite Hok.
        destruct (IH w' j' H (ns + 1) r) as [cs Hc]. exists ([CsPk (kb ke key) sg] ++ cs).
        change (map elem_of w') with (Ab w'). rewrite (xbind_okk _ _ _ _ eq_refl), Hc.
        replace (ns + N.of_nat (S j')) with (ns + 1 + N.of_nat j') by lia. reflexivity.
  Qed.

  Lemma d_multi_a_gen (m : ms) k ks :
    (forall st, ev m st = multi_a_loop e ke k ks 0 st) ->
    (forall s w v, Rr m s w v -> exists j, Rcsa e ke ks w j /\ s = N.eqb (N.of_nat j) k) ->
    compR m BB.
  Proof.
    intros Hev HR s w v r H. destruct (HR s w v H) as [j [Hc ->]]. rewrite Hev.
    destruct (d_multi_a_loop k ks w j Hc 0 r) as [cs E]. exists cs. rewrite E, N.add_0_l. cbn [resR].
    destruct (N.of_nat j =? k); reflexivity.
  Qed.

  (* ---------------------------------------------------------------- multi *)
  Lemma d_multi_loop k l : forall sigs ns r, multisig_match e (map (kb ke) l) sigs = true ->
    N.of_nat (length sigs) = k - ns -> ns <= k ->
    exists cs, multi_loop e ke k l ns (map EPush sigs ++ EDis :: r) = XOk (ESat :: r) cs.
  Proof.
    induction l as [|key l' IH]; intros sigs ns r Hm Hlen Hns.
    - destruct sigs as [|s0 sigs']; [|discriminate]. cbn [length] in Hlen. cbn [multi_loop map app].
      destruct (N.eqb_spec ns k); [|lia]. eexists; reflexivity.
    - destruct sigs as [|s0 sigs'].
      + cbn [length] in Hlen. cbn [multi_loop map app]. destruct (N.eqb_spec ns k); [|lia]. eexists; reflexivity.
      + cbn [map] in Hm. rewrite mm_cons in Hm. cbn [length] in Hlen.
        destruct (Nat.ltb _ _); [discriminate|]. cbn [multi_loop map app].
        destruct (N.eqb_spec ns k); [lia|]. cbn [evaluate_multi].
        destruct (e_sigok e (kb ke key) s0) eqn:Es.
        * destruct (IH sigs' (ns + 1) r Hm ltac:(lia) ltac:(lia)) as [cs Hc].
          exists ([CsPk (kb ke key) s0] ++ cs). rewrite (xbind_okk _ _ _ _ eq_refl), Hc. reflexivity.
        * destruct (IH (s0 :: sigs') ns r Hm ltac:(cbn [length]; lia) Hns) as [cs Hc]. exists cs. exact Hc.
  Qed.

  Lemma match_all_valid keys : forall sigs, multisig_match e keys sigs = true ->
    Forall (fun s => exists k, e_sigok e k s = true) sigs.
  Proof.
    induction keys as [|kx krest IH]; intros sigs H.
    - destruct sigs; [constructor | discriminate].
    - destruct sigs as [|s0 sigs']; [constructor|]. rewrite mm_cons in H.
      destruct (Nat.ltb _ _); [discriminate|]. destruct (e_sigok e kx s0) eqn:Es.
      + constructor; [eauto | apply IH, H].
      + apply IH, H.
  Qed.

  Lemma d_multi_gen (m : ms) k ks : 1 <= k ->
    (forall st, ev m st = multi_eval e ke k ks st) ->
    (forall s w v, Rr m s w v -> Rcms e k (map (kb ke) ks) s w v) ->
    compR m BB.
  Proof.
    intros Hk Hev HR s w v r H. destruct (HR s w v H) as [_ [sigs [-> [Hlen [_ Hs]]]]]. rewrite Hev. unfold multi_eval.
    rewrite Ab_app. cbn [Ab map elem_of]. rewrite <- app_assoc. cbn [app]. unfold Ab.
    assert (Hl : N.of_nat (length (map elem_of sigs ++ EDis :: r)) <? k + 1 = false).
    { apply N.ltb_ge. rewrite app_length, map_length. cbn [length]. unfold bytes in *. lia. }
    rewrite Hl. destruct s.
    - pose proof (match_all_valid _ _ Hs) as Hval.
      assert (Hp : map elem_of sigs = map EPush sigs).
      { apply map_ext_in. intros s0 Hin. rewrite Forall_forall in Hval. destruct (Hval s0 Hin) as [kx Hok].
        apply (sig_push _ _ Hok). }
      rewrite Hp. destruct sigs as [|s0 sigs']; [cbn in Hlen; lia|]. cbn [map app].
      rewrite <- map_rev in Hs.
      assert (Hloop : exists cs, multi_loop e ke k (rev ks) 0 (map EPush (s0 :: sigs') ++ EDis :: r) = XOk (ESat :: r) cs).
      { apply d_multi_loop; [exact Hs | unfold bytes in *; cbn [length] in *; lia | lia]. }
      destruct Hloop as [cs Hc]. exists cs. cbn [map app] in Hc.
      destruct (rev ks) as [|key l'] eqn:Er; [cbn in Hs; discriminate|].
      cbn [multi_loop] in Hc. destruct (N.eqb_spec 0 k); [lia|]. exact Hc.
    - destruct Hs as [_ ->]. rewrite repeat_length in Hlen.
      assert (Hrep : map elem_of (repeat [] (N.to_nat k)) ++ EDis :: r = repeat EDis (N.to_nat (k + 1)) ++ r).
      { replace (N.to_nat (k + 1)) with (N.to_nat k + 1)%nat by lia. generalize (N.to_nat k) as n.
        induction n as [|n IHn]; [reflexivity|]. cbn [repeat map app Nat.add elem_of]. f_equal. exact IHn. }
      rewrite Hrep.
      assert (Hne : exists n, N.to_nat (k + 1) = S n) by (exists (N.to_nat k); lia). destruct Hne as [n Hn].
      rewrite Hn. cbn [repeat app]. rewrite <- Hn.
      change (EDis :: repeat EDis n ++ r) with (repeat EDis (S n) ++ r). rewrite <- Hn.
      rewrite firstn_app, firstn_all2 by (rewrite repeat_length; lia).
      rewrite repeat_length, Nat.sub_diag. cbn [firstn]. rewrite app_nil_r.
      assert (Hall : forallb is_dis (repeat EDis (N.to_nat (k + 1))) = true).
      { apply forallb_forall. intros x Hx. apply repeat_spec in Hx. subst. reflexivity. }
      rewrite Hall. rewrite skipn_app, skipn_all2 by (rewrite repeat_length; lia).
      rewrite repeat_length, Nat.sub_diag. cbn [skipn app]. eexists; reflexivity.
  Qed.

  (* ---------------------------------------------------------------- typing dispatch *)
  Definition dstmt (m : ms) : Prop :=
    forall t, type_of m = ROk t -> wf e ke m -> icover m -> isel m -> compR m (c_base (t_corr t)).

  Ltac unf H := unfold t_cast_alt, t_cast_swap, t_cast_check, t_cast_dupif, t_cast_verify, t_cast_nonzero,
    t_cast_zeronotequal, Types.t_and_v, Types.t_and_b, Types.t_or_b, Types.t_or_c, Types.t_or_d, Types.t_or_i, t_and_or, lift1, lift2,
    c_cast_alt, c_cast_swap, c_cast_check, c_cast_dupif, c_cast_verify, c_cast_nonzero, c_cast_zeronotequal,
    c_and_v, c_and_b, c_or_b, c_or_c, c_or_d, c_or_i, c_and_or in H; cbn [t_corr t_mall c_base c_input c_dissat c_unit] in H.

  Ltac one_child_c IH Ht Hwf Hnm Hsl tx Hs :=
    cbn [type_of] in Ht; apply rbind_ok in Ht; destruct Ht as [tx [?Hx Ht]];
    cbn [wf icover isel] in Hwf, Hnm, Hsl; pose proof (IH tx Hx Hwf Hnm Hsl) as Hs;
    destruct tx as [[?bx ?ix ?dx ?ux] ?mx]; unf Ht; cbn [t_corr c_base] in *.
  Ltac two_children_c IHx IHy Ht Hwf Hnm Hsl Hsx Hsy :=
    cbn [type_of] in Ht; apply rbind_ok in Ht; destruct Ht as [?tx [?Hx Ht]];
    apply rbind_ok in Ht; destruct Ht as [?ty [?Hy Ht]];
    cbn [wf icover isel] in Hwf, Hnm, Hsl; destruct Hwf as [?Hwx ?Hwy]; destruct Hnm as [?Hnx ?Hny]; destruct Hsl as [?Hlx ?Hly];
    pose proof (IHx _ Hx Hwx Hnx Hlx) as Hsx; pose proof (IHy _ Hy Hwy Hny Hly) as Hsy;
    destruct tx as [[?bx ?ix ?dx ?ux] ?mx]; destruct ty as [[?b2 ?i2 ?d2 ?u2] ?m2]; unf Ht; cbn [t_corr c_base] in *.

  Theorem ieval_complete_R : forall m, dstmt m.
  Proof.
    induction m using ms_ind'; try (intros t Ht Hwf Hnm Hsl; cbn in Hnm; contradiction).
    - intros t Ht _ _ _. inversion Ht; subst. apply d_true.
    - intros t Ht _ _ _. inversion Ht; subst. apply d_false.
    - intros t Ht _ _ _. inversion Ht; subst. apply d_pk_k.
    - intros t Ht _ _ _. inversion Ht; subst.
      apply (d_pkh_gen (MPkH k) (kh ke k)); [reflexivity|].
      intros s w v [sg [Hw [Hh [Hs _]]]]. exists sg. auto.
    - intros t Ht _ _ _. inversion Ht; subst.
      apply (d_pkh_gen (MRawPkH h) h); [reflexivity|].
      intros s w v [_ [sg [Hw [Hh Hs]]]]. exists sg. auto.
    - intros ty0 Ht _ _ _. inversion Ht; subst. apply d_after.
    - intros ty0 Ht Hwf _ _. inversion Ht; subst. apply d_older, Hwf.
    - intros t Ht _ _ _. inversion Ht; subst. apply (d_hash_gen (MSha256 h) KSha256 h); [reflexivity | intros s w v H; exact H].
    - intros t Ht _ _ _. inversion Ht; subst. apply (d_hash_gen (MHash256 h) KHash256 h); [reflexivity | intros s w v H; exact H].
    - intros t Ht _ _ _. inversion Ht; subst. apply (d_hash_gen (MRipemd160 h) KRipemd160 h); [reflexivity | intros s w v H; exact H].
    - intros t Ht _ _ _. inversion Ht; subst. apply (d_hash_gen (MHash160 h) KHash160 h); [reflexivity | intros s w v H; exact H].
    - (* alt *) intros t Ht Hwf Hnm Hsl. one_child_c IHm Ht Hwf Hnm Hsl tx Hs.
      destruct bx; try discriminate. inversion Ht; subst. cbn [t_corr c_base].
      apply (d_same m (MAlt m) BB BW); [reflexivity | intros s w v H; exists v; exact H | discriminate | discriminate | exact Hs].
    - (* swap *) intros t Ht Hwf Hnm Hsl. one_child_c IHm Ht Hwf Hnm Hsl tx Hs.
      destruct bx; try discriminate; destruct ix; try discriminate; inversion Ht; subst; cbn [t_corr c_base];
        (apply (d_same m (MSwap m) BB BW); [reflexivity | intros s w v H; exists v; exact H | discriminate | discriminate | exact Hs]).
    - (* check *) intros t Ht Hwf Hnm Hsl. one_child_c IHm Ht Hwf Hnm Hsl tx Hs.
      destruct bx; try discriminate. inversion Ht; subst. cbn [t_corr c_base].
      apply (d_same m (MCheck m) BK BB); [reflexivity | intros s w v [_ H]; exact H | discriminate | discriminate | exact Hs].
    - (* dupif *) intros t Ht Hwf Hnm Hsl. cbn [isel] in Hsl. destruct Hsl as [Hmin Hsl]. one_child_c IHm Ht Hwf Hnm Hsl tx Hs.
      destruct bx; try discriminate; destruct ix; try discriminate. inversion Ht; subst. cbn [t_corr c_base]. apply d_dupif; assumption.
    - (* verify *) intros t Ht Hwf Hnm Hsl. one_child_c IHm Ht Hwf Hnm Hsl tx Hs.
      destruct bx; try discriminate. inversion Ht; subst. cbn [t_corr c_base]. apply (d_verify m BB); [discriminate | exact Hs].
    - (* nonzero *) intros t Ht Hwf Hnm Hsl. one_child_c IHm Ht Hwf Hnm Hsl tx Hs.
      destruct ix; cbn in Ht; try discriminate; destruct bx; try discriminate; inversion Ht; subst; cbn [t_corr c_base];
        (apply (d_nonzero m BB); [discriminate | exact Hs]).
    - (* zne *) intros t Ht Hwf Hnm Hsl. one_child_c IHm Ht Hwf Hnm Hsl tx Hs.
      destruct bx; try discriminate. inversion Ht; subst. cbn [t_corr c_base]. apply (d_zne m BB); [discriminate | exact Hs].
    - (* and_v *) intros t Ht Hwf Hnm Hsl. two_children_c IHm1 IHm2 Ht Hwf Hnm Hsl Hsx Hsy.
      destruct bx, b2; try discriminate; inversion Ht; subst; cbn [t_corr c_base]; apply d_and_v; assumption.
    - (* and_b *) intros t Ht Hwf Hnm Hsl. two_children_c IHm1 IHm2 Ht Hwf Hnm Hsl Hsx Hsy.
      destruct bx, b2; try discriminate; inversion Ht; subst; cbn [t_corr c_base].
      apply (d_and_b m1 m2 BB BW); [discriminate | discriminate | exact Hsx | exact Hsy].
    - (* andor *) intros t Ht Hwf Hnm Hsl.
      cbn [type_of] in Ht. apply rbind_ok in Ht. destruct Ht as [ta [Ha Ht]].
      apply rbind_ok in Ht. destruct Ht as [tb [Hb Ht]]. apply rbind_ok in Ht. destruct Ht as [tc [Hc Ht]].
      cbn [wf icover isel] in Hwf, Hnm, Hsl. destruct Hwf as [Hwa [Hwb Hwc]]. destruct Hnm as [Hna [Hnb Hnc]]. destruct Hsl as [Hla [Hlb Hlc]].
      pose proof (IHm1 ta Ha Hwa Hna Hla) as Hsa. pose proof (IHm2 tb Hb Hwb Hnb Hlb) as Hsb. pose proof (IHm3 tc Hc Hwc Hnc Hlc) as Hsc.
      destruct ta as [[ba ia da ua] ma], tb as [[bb ib db ub] mb], tc as [[bc ic dc uc] mc]. unf Ht. cbn [t_corr c_base] in *.
      destruct da; cbn [negb] in Ht; try discriminate. destruct ua; cbn [negb] in Ht; try discriminate.
      destruct ba, bb, bc; try discriminate; inversion Ht; subst; cbn [t_corr c_base]; apply d_andor; assumption.
    - (* or_b *) intros t Ht Hwf Hnm Hsl. two_children_c IHm1 IHm2 Ht Hwf Hnm Hsl Hsx Hsy.
      destruct dx; cbn [negb] in Ht; try discriminate. destruct d2; cbn [negb] in Ht; try discriminate.
      destruct bx, b2; try discriminate; inversion Ht; subst; cbn [t_corr c_base].
      apply (d_or_b m1 m2 BB BW); [discriminate | discriminate | exact Hsx | exact Hsy].
    - (* or_d *) intros t Ht Hwf Hnm Hsl. two_children_c IHm1 IHm2 Ht Hwf Hnm Hsl Hsx Hsy.
      destruct dx; cbn [negb] in Ht; try discriminate. destruct ux; cbn [negb] in Ht; try discriminate.
      destruct bx, b2; try discriminate; inversion Ht; subst; cbn [t_corr c_base]. apply d_or_d; assumption.
    - (* or_c *) intros t Ht Hwf Hnm Hsl. two_children_c IHm1 IHm2 Ht Hwf Hnm Hsl Hsx Hsy.
      destruct dx; cbn [negb] in Ht; try discriminate. destruct ux; cbn [negb] in Ht; try discriminate.
      destruct bx, b2; try discriminate; inversion Ht; subst; cbn [t_corr c_base]. apply d_or_c; assumption.
    - (* or_i *) intros t Ht Hwf Hnm Hsl. cbn [isel] in Hsl. destruct Hsl as [Hmin Hsl].
      two_children_c IHm1 IHm2 Ht Hwf Hnm Hsl Hsx Hsy.
      destruct bx, b2; try discriminate; inversion Ht; subst; cbn [t_corr c_base]; apply d_or_i; assumption.
    - (* thresh *) intros t Ht Hwf Hnm Hsl. cbn [type_of] in Ht. fold (tys_of xs) in Ht.
      apply rbind_ok in Ht. destruct Ht as [ts [Hts Ht]]. apply tys_of_ok in Hts.
      cbn [wf icover isel] in Hwf, Hnm, Hsl. destruct Hwf as [Hk [Hn Hwf]].
      unfold t_threshold in Ht. destruct (c_threshold k (map t_corr ts)) as [c|] eqn:Ec; [|discriminate].
      inversion Ht; subst; clear Ht.
      unfold c_threshold in Ec. destruct (c_thresh_loop 0 0 (map t_corr ts)) as [n|] eqn:El; [|discriminate].
      inversion Ec; subst; clear Ec. cbn [t_corr c_base].
      assert (Hb : forall i na subs n', c_thresh_loop i na subs = ROk n' -> Forall (fun c => c_base c <> BV) subs).
      { intros i na subs. revert i na. induction subs as [|s r IHs]; intros i na n' Hl; [constructor|].
        cbn [c_thresh_loop] in Hl.
        destruct (N.eqb i 0 && negb (base_eqb (c_base s) BB)) eqn:E1; [discriminate|].
        destruct (negb (N.eqb i 0) && negb (base_eqb (c_base s) BW)) eqn:E2; [discriminate|].
        destruct (negb (c_unit s)); [discriminate|]. destruct (negb (c_dissat s)); [discriminate|].
        constructor; [|eapply IHs; exact Hl].
        destruct (c_base s); try discriminate. destruct (N.eqb i 0); cbn in E1, E2; discriminate. }
      specialize (Hb _ _ _ _ El). clear El.
      assert (Hall : Forall (fun x => compR x BB) xs).
      { clear Hk Hn. revert ts Hts Hb Hwf Hnm Hsl. induction H as [|x r Hx Hr IHr]; intros ts Hts Hb Hwf Hnm Hsl; [constructor|].
        inversion Hts as [|? t0 ? ts0 Hxt Hrt]; subst. cbn [map] in Hb. inversion Hb as [|? ? Hb0 Hbr]; subst.
        destruct Hwf as [Hw1 Hw2]. destruct Hnm as [Hn1 Hn2]. destruct Hsl as [Hl1 Hl2].
        constructor; [|apply (IHr ts0); assumption].
        pose proof (Hx t0 Hxt Hw1 Hn1 Hl1) as Hc. intros s w v r0 HR. destruct (Hc s w v r0 HR) as [cs E]. exists cs. rewrite E.
        destruct (c_base (t_corr t0)); try contradiction; reflexivity. }
      destruct xs as [|x0 rest]; [cbn in Hk; lia|]. inversion Hall; subst.
      apply d_thresh; [lia | assumption | assumption].
    - (* multi *) intros t Ht Hwf _ _. inversion Ht; subst. cbn [wf] in Hwf. destruct Hwf as [Hk _].
      cbn [t_multi t_corr c_multi c_base].
      apply (d_multi_gen (MMulti k ks) k ks); [lia | reflexivity | intros s w v H; exact H].
    - (* multi_a *) intros t Ht Hwf _ _. inversion Ht; subst. cbn [t_multi_a t_corr c_multi_a c_base].
      apply (d_multi_a_gen (MMultiA k ks) k ks); [reflexivity|].
      intros s w v [_ [j [Hc [Hs _]]]]. exists j. split; assumption.
  Qed.

  (* the statement on whole witnesses; [w] head = top of the stack, [items] first = bottom *)
  Theorem interp_complete_R m t w :
    type_of m = ROk t -> c_base (t_corr t) = BB -> wf e ke m -> icover m -> isel m ->
    Rsat e ke m w -> exists cs, interp e ke kp m (astack_of_items (rev w)) = IAccept cs.
  Proof.
    intros Ht Hb Hwf Hnm Hsl [v HR]. rewrite interp_eq_rec. unfold interp_rec.
    pose proof (ieval_complete_R m t Ht Hwf Hnm Hsl) as Hs. rewrite Hb in Hs.
    destruct (Hs true w v [] HR) as [cs Hc]. rewrite app_nil_r in Hc.
    assert (Ea : astack_of_items (rev w) = Ab w).
    { unfold astack_of_items, Ab. rewrite map_rev, rev_involutive. reflexivity. }
    rewrite Ea, Hc. exists cs. reflexivity.
  Qed.

  Theorem interp_complete_script m t w :
    type_of m = ROk t -> c_base (t_corr t) = BB -> wf e ke m -> icover m -> isel m ->
    accepts e (enc ke m) w = true -> exists cs, interp e ke kp m (astack_of_items (rev w)) = IAccept cs.
  Proof.
    intros Ht Hb Hwf Hnm Hsl Hacc. apply (interp_complete_R m t w Ht Hb Hwf Hnm Hsl).
    apply (accepts_iff_Rsat e ke m t Ht Hwf Hb w). exact Hacc.
  Qed.

End InterpDenot.

(* [isel] as a decidable rule of the language: a signature version without MINIMALIF admits neither
   d: nor or_i.  This is the library's rule for the pre-segwit contexts (Legacy / BareCtx:
   ValidationParams allow_dup_if = allow_or_i = false, modelled in Ms/ValidateModel.v), which
   decode_consensus enforces -- so from_txdata never hands such a script to the evaluator. *)
Fixpoint has_if (m : ms) : bool :=
  match m with
  | MDupIf _ | MOrI _ _ => true
  | MAlt x | MSwap x | MCheck x | MVerify x | MNonZero x | MZeroNotEqual x => has_if x
  | MAndV x y | MAndB x y | MOrB x y | MOrD x y | MOrC x y => has_if x || has_if y
  | MAndOr a b c => has_if a || has_if b || has_if c
  | MThresh _ xs => existsb has_if xs
  | _ => false
  end.

Definition lang_ok (sv : sigversion) (m : ms) : bool := minimalif sv || negb (has_if m).

Lemma isel_iff_lang (e : env) : forall m, isel e m <-> lang_ok (e_sv e) m = true.
Proof.
  unfold lang_ok. destruct (minimalif (e_sv e)) eqn:Hm; cbn [orb].
  - intros m. split; [reflexivity|]. intros _.
    induction m using ms_ind'; cbn [isel]; try tauto.
    induction H as [|x r Hx Hr IHr]; [exact I | split; assumption].
  - induction m using ms_ind'; cbn [isel has_if negb]; try tauto;
      try (split; [intros [Hc _]; congruence | discriminate]);
      try (rewrite IHm1, IHm2; destruct (has_if m1), (has_if m2); cbn; intuition congruence).
    + induction H as [|x r Hx Hr IHr]; [cbn; tauto|]. cbn [existsb]. rewrite Hx, IHr.
      destruct (has_if x), (existsb has_if r); cbn; intuition congruence.
Qed.
