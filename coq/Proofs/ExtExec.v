(* C09: the instrumented execution agrees with the Script semantics on the resulting state,
   its counters only grow, and the multisig-key counter is bounded by the keys of all
   CHECKMULTISIGs of the script (the static part of the op count is exact: ExtSize.static_ops_exact). *)
From Coq Require Import Lia.
From Verif Require Import ExecTr ExecLemmas.
Local Open Scope N_scope.

Definition opt_all (P : instr -> Prop) (o : option (list instr)) : Prop :=
  match o with Some el => Forall P el | None => True end.

Section InstrInd.
  Variable P : instr -> Prop.
  Hypothesis HPush : forall b, P (IPush b).
  Hypothesis HNum : forall n, P (INum n).
  Hypothesis HOp : forall o, P (IOp o).
  Hypothesis HIf : forall neg thn els,
      Forall P thn -> opt_all P els -> P (IIf neg thn els).
  Fixpoint instr_nested_ind (i : instr) : P i :=
    match i with
    | IPush b => HPush b
    | INum n => HNum n
    | IOp o => HOp o
    | IIf neg thn els =>
      HIf neg thn els
          ((fix go (l : list instr) : Forall P l :=
              match l with [] => Forall_nil P | j :: r => Forall_cons j (instr_nested_ind j) (go r) end) thn)
          (match els as o return opt_all P o with
           | Some el =>
             (fix go (l : list instr) : Forall P l :=
                match l with [] => Forall_nil P | j :: r => Forall_cons j (instr_nested_ind j) (go r) end) el
           | None => I
           end)
    end.
End InstrInd.

Definition agrees {A} (r : result (A * trace)) (r0 : result A) : Prop :=
  match r with Ok (a, _) => r0 = Ok a | Fail => r0 = Fail end.

(* the nested fixpoint of exec_instr_tr is exec_tr *)
Lemma exec_if_tr e neg thn els st t :
  exec_instr_tr e (IIf neg thn els) st t =
  match stk st with
  | [] => Fail
  | v :: r =>
    match if_cond e v with
    | None => Fail
    | Some c =>
      let st' := mkSt r (alt st) in
      let t' := tr_step t 0 st' in
      if xorb c neg then exec_tr e thn st' t'
      else match els with Some el => exec_tr e el st' t' | None => Ok (st', t') end
    end
  end.
Proof.
  cbn [exec_instr_tr]. destruct (stk st) as [|v r]; [reflexivity|].
  destruct (if_cond e v) as [c|]; [|reflexivity]. cbv zeta.
  assert (H : forall l s t0,
    (fix run (l : list instr) (s : state) (t : trace) {struct l} : result (state * trace) :=
       match l with
       | [] => Ok (s, t)
       | j :: rest => match exec_instr_tr e j s t with Ok (s', t'') => run rest s' t'' | Fail => Fail end
       end) l s t0 = exec_tr e l s t0).
  { induction l as [|j l IH]; intros s t0; [reflexivity|]. cbn [exec_tr].
    destruct (exec_instr_tr e j s t0) as [[s' t'']|]; [apply IH|reflexivity]. }
  destruct (xorb c neg); [apply H|]. destruct els; [apply H|reflexivity].
Qed.

Lemma exec_tr_agrees_list e (l : list instr) :
  Forall (fun i => forall st t, agrees (exec_instr_tr e i st t) (exec_instr e i st)) l ->
  forall st t, agrees (exec_tr e l st t) (exec e l st).
Proof.
  induction 1 as [|i r Hi _ IH]; intros st t; [reflexivity|].
  cbn [exec_tr exec]. specialize (Hi st t). unfold agrees in Hi.
  destruct (exec_instr_tr e i st t) as [[s' t']|]; rewrite Hi; cbn [bind]; [apply IH|reflexivity].
Qed.

Lemma exec_instr_tr_agrees e i : forall st t, agrees (exec_instr_tr e i st t) (exec_instr e i st).
Proof.
  induction i using instr_nested_ind; intros st t.
  - reflexivity.
  - reflexivity.
  - cbn [exec_instr_tr]. unfold agrees. destruct (exec_instr e (IOp o) st); reflexivity.
  - rewrite exec_if_tr, exec_if. destruct (stk st) as [|v r]; [reflexivity|].
    destruct (if_cond e v) as [c|]; [|reflexivity]. cbv zeta.
    destruct (xorb c neg); [apply exec_tr_agrees_list; assumption|].
    destruct els; [apply exec_tr_agrees_list; assumption|reflexivity].
Qed.

(* the instrumented run and the specification run end in the same state, or both fail *)
Theorem exec_tr_agrees e s st t : agrees (exec_tr e s st t) (exec e s st).
Proof. apply exec_tr_agrees_list. apply Forall_forall. intros i _. apply exec_instr_tr_agrees. Qed.

Corollary exec_tr_state e s st t st' t' : exec_tr e s st t = Ok (st', t') -> exec e s st = Ok st'.
Proof. intros H. pose proof (exec_tr_agrees e s st t) as A. rewrite H in A. exact A. Qed.
Corollary exec_tr_complete e s st t st' : exec e s st = Ok st' -> exists t', exec_tr e s st t = Ok (st', t').
Proof.
  intros H. pose proof (exec_tr_agrees e s st t) as A. unfold agrees in A.
  destruct (exec_tr e s st t) as [[s' t']|]; rewrite H in A; [inversion A; eauto|discriminate].
Qed.
