(* C11 — iter/tree.rs: the pre-order iterator terminates after exactly n = size steps, yields
   the recursive pre-order, and its stack never exceeds (max arity) x (height) entries. *)
From Coq Require Import List NArith Bool Lia Arith.
From Verif Require Import RobustModel.
Import ListNotations.

(* the nested fixpoints of the definitions are the _forest functions *)
Lemma rsize_node : forall x cs, rsize (RNode x cs) = S (rsize_forest cs).
Proof. intros. reflexivity. Qed.

Lemma rheight_node : forall x cs, rheight (RNode x cs) = S (rheight_forest cs).
Proof. intros. reflexivity. Qed.

Lemma rarity_node : forall x cs, rarity (RNode x cs) = Nat.max (length cs) (rarity_forest cs).
Proof. intros. reflexivity. Qed.

Lemma preorder_node : forall x cs, preorder (RNode x cs) = x :: preorder_forest cs.
Proof. intros. reflexivity. Qed.

Lemma rsize_forest_app : forall a b, rsize_forest (a ++ b) = rsize_forest a + rsize_forest b.
Proof. induction a as [|c r IH]; intros; cbn [app rsize_forest]; [reflexivity|rewrite IH; lia]. Qed.

Lemma preorder_forest_app : forall a b, preorder_forest (a ++ b) = preorder_forest a ++ preorder_forest b.
Proof. induction a as [|c r IH]; intros; cbn [app preorder_forest]; [reflexivity|now rewrite IH, app_assoc]. Qed.

Lemma rsize_pos : forall t, 1 <= rsize t.
Proof. intros [x cs]. rewrite rsize_node. lia. Qed.

Lemma rheight_pos : forall t, 1 <= rheight t.
Proof. intros [x cs]. rewrite rheight_node. lia. Qed.

Lemma rheight_forest_in : forall cs c, In c cs -> rheight c <= rheight_forest cs.
Proof. induction cs as [|d r IH]; intros c []; cbn [rheight_forest]; [subst; lia|]. specialize (IH c H). lia. Qed.

Lemma rarity_forest_in : forall cs c, In c cs -> rarity c <= rarity_forest cs.
Proof. induction cs as [|d r IH]; intros c []; cbn [rarity_forest]; [subst; lia|]. specialize (IH c H). lia. Qed.

(* ------------------------------------------------------------------ exact output, exact step count *)
Theorem pre_run_exact : forall fuel stack, rsize_forest stack <= fuel ->
  pre_run fuel stack = Some (preorder_forest stack).
Proof.
  induction fuel as [|f IH]; intros stack H.
  - destruct stack as [|t r]; [reflexivity|]. cbn [rsize_forest] in H. pose proof (rsize_pos t). lia.
  - destruct stack as [|[x cs] r]; [reflexivity|].
    cbn [pre_run pre_next]. rewrite IH.
    + cbn [option_map preorder_forest]. rewrite preorder_node, preorder_forest_app. reflexivity.
    + cbn [rsize_forest] in H. rewrite rsize_node in H. rewrite rsize_forest_app. lia.
Qed.

Theorem pre_steps_exact : forall fuel stack, rsize_forest stack <= fuel -> pre_steps fuel stack = rsize_forest stack.
Proof.
  induction fuel as [|f IH]; intros stack H.
  - destruct stack as [|t r]; [reflexivity|]. cbn [rsize_forest] in H. pose proof (rsize_pos t). lia.
  - destruct stack as [|[x cs] r]; [reflexivity|].
    cbn [pre_steps pre_next]. rewrite IH.
    + cbn [rsize_forest]. rewrite rsize_node, rsize_forest_app. lia.
    + cbn [rsize_forest] in H. rewrite rsize_node in H. rewrite rsize_forest_app. lia.
Qed.

(* with less fuel than nodes the loop is not finished: n steps are necessary *)
Theorem pre_run_needs_n : forall fuel stack, fuel < rsize_forest stack -> pre_run fuel stack = None.
Proof.
  induction fuel as [|f IH]; intros stack H.
  - destruct stack as [|[x cs] r]; [cbn in H; lia|reflexivity].
  - destruct stack as [|[x cs] r]; [cbn in H; lia|].
    cbn [pre_run pre_next]. rewrite IH; [reflexivity|].
    cbn [rsize_forest] in H. rewrite rsize_node in H. rewrite rsize_forest_app. lia.
Qed.

(* ------------------------------------------------------------------ stack bound *)
(* The stack is a sequence of groups; the trees of a group are the not yet visited children
   of one node, so a group has at most [a] trees, all of height <= its bound; bounds grow
   strictly towards the bottom and never exceed [H]. *)
Inductive grouped (a H : nat) : nat -> list rtree -> Prop :=
| g_nil : forall b, grouped a H b []
| g_group : forall b b' g rest,
    length g <= a -> (forall x, In x g -> rheight x <= b) -> b < b' -> b' <= S H ->
    grouped a H b' rest -> grouped a H b (g ++ rest).

Lemma grouped_cons_inv : forall a H b x st, grouped a H b (x :: st) ->
  exists b1, b <= b1 /\ b1 <= H /\ rheight x <= b1 /\ grouped a H b1 st.
Proof.
  intros a H b x st G. remember (x :: st) as l eqn:El. revert x st El.
  induction G as [b|b b' g rest Hlen Hh Hb Hb' G IH]; intros x st El; [discriminate|].
  destruct g as [|y g'].
  - cbn [app] in El. destruct (IH x st El) as (b1 & H1 & H2 & H3 & H4). exists b1. repeat split; auto; lia.
  - cbn [app] in El. inversion El; subst y st. exists b. repeat split; [lia|lia|apply Hh; now left|].
    eapply g_group; eauto.
    + cbn [length] in Hlen. lia.
    + intros z Hz. apply Hh. now right.
Qed.

Lemma grouped_length : forall a H b st, grouped a H b st -> b <= S H -> length st <= a * (S H - b).
Proof.
  intros a H b st G. induction G as [b|b b' g rest Hlen Hh Hb Hb' G IH]; intros Hle; [cbn; lia|].
  rewrite app_length. specialize (IH Hb').
  assert (Hd : exists d, S H - b = S (S H - b') + d) by (exists (S H - b - S (S H - b')); lia).
  destruct Hd as [d Hd]. rewrite Hd. nia.
Qed.

Definition pre_inv (a H : nat) (st : list rtree) : Prop :=
  (forall x, In x st -> rarity x <= a) /\ (st = [] \/ exists b, 1 <= b /\ b <= H /\ grouped a H b st).

Lemma pre_inv_step : forall a H st x st', pre_inv a H st -> pre_next st = Some (x, st') -> pre_inv a H st'.
Proof.
  intros a H st x st' [Har Hg] Hn. destruct st as [|[y cs] rest]; [discriminate|]. cbn [pre_next] in Hn. inversion Hn; subst x st'. clear Hn.
  assert (Hy : rarity (RNode y cs) <= a) by (apply Har; now left). rewrite rarity_node in Hy.
  split.
  - intros z Hz. apply in_app_or in Hz. destruct Hz as [Hz|Hz]; [|apply Har; now right].
    pose proof (rarity_forest_in cs z Hz). lia.
  - destruct Hg as [Hg|(b & Hb1 & Hb2 & G)]; [discriminate|].
    destruct (grouped_cons_inv _ _ _ _ _ G) as (b1 & H1 & H2 & H3 & G1). rewrite rheight_node in H3.
    destruct cs as [|c cs'].
    + cbn [app]. destruct rest as [|r0 rest']; [now left|]. right. exists b1. repeat split; auto; lia.
    + right. exists (rheight_forest (c :: cs')). split; [|split].
      * pose proof (rheight_pos c). cbn [rheight_forest]. lia.
      * lia.
      * eapply g_group with (b' := b1); eauto; try lia.
        intros z Hz. now apply rheight_forest_in.
Qed.

Lemma pre_inv_length : forall a H st, pre_inv a H st -> length st <= a * H.
Proof.
  intros a H st [_ [->|(b & H1 & H2 & G)]]; [cbn; lia|].
  pose proof (grouped_length _ _ _ _ G). assert (a * (S H - b) <= a * H) by nia. lia.
Qed.

Lemma pre_max_stack_bound : forall fuel a H st, pre_inv a H st -> pre_max_stack fuel st <= a * H.
Proof.
  induction fuel as [|f IH]; intros a H st Hi; cbn [pre_max_stack]; [now apply pre_inv_length|].
  destruct (pre_next st) as [[x st']|] eqn:E; [|now apply pre_inv_length].
  pose proof (pre_inv_length _ _ _ Hi). pose proof (IH a H st' (pre_inv_step _ _ _ _ _ Hi E)). lia.
Qed.

Lemma pre_inv_init : forall t, pre_inv (Nat.max 1 (rarity t)) (rheight t) [t].
Proof.
  intros t. split.
  - intros x [<-|[]]. lia.
  - right. exists (rheight t). split; [apply rheight_pos|]. split; [lia|].
    change [t] with ([t] ++ []). eapply g_group with (b' := S (rheight t)); try lia.
    + cbn [length]. lia.
    + intros x [<-|[]]. lia.
    + constructor.
Qed.

(* the three facts together, for a traversal started at one root *)
Theorem pre_order_iter_total : forall t : rtree,
  pre_run (rsize t) [t] = Some (preorder t) /\
  pre_steps (rsize t) [t] = rsize t /\
  (forall fuel, fuel < rsize t -> pre_run fuel [t] = None) /\
  (forall fuel, pre_max_stack fuel [t] <= Nat.max 1 (rarity t) * rheight t).
Proof.
  intros t. assert (Hs : rsize_forest [t] = rsize t) by (cbn [rsize_forest]; lia).
  repeat split.
  - rewrite pre_run_exact by lia. cbn [preorder_forest]. now rewrite app_nil_r.
  - rewrite pre_steps_exact by lia. exact Hs.
  - intros fuel Hf. apply pre_run_needs_n. lia.
  - intros fuel. apply pre_max_stack_bound. apply pre_inv_init.
Qed.
