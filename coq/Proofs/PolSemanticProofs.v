(* Proofs for C18 about the semantic-policy model (Ms/PolSemantic.v) against the
   truth-table specification (Ms/PolTruth.v). *)
From Coq Require Import List NArith Bool Arith Lia Permutation.
Import ListNotations.
From Verif Require Import PolSemantic PolConcrete PolTruth.

Arguments norm_node : simpl never.

(* ------------------------------------------------------------------ induction principle *)
Section SpolInd.
  Variable P : spol -> Prop.
  Hypothesis HU : P SUnsat.
  Hypothesis HT : P STriv.
  Hypothesis HK : forall k, P (SKey k).
  Hypothesis HA : forall t, P (SAfter t).
  Hypothesis HO : forall t, P (SOlder t).
  Hypothesis HS : forall h, P (SSha256 h).
  Hypothesis HH : forall h, P (SHash256 h).
  Hypothesis HR : forall h, P (SRipemd160 h).
  Hypothesis H1 : forall h, P (SHash160 h).
  Hypothesis HTh : forall k subs, Forall P subs -> P (SThresh k subs).
  Fixpoint spol_ind' (p : spol) : P p :=
    match p with
    | SUnsat => HU | STriv => HT | SKey k => HK k | SAfter t => HA t | SOlder t => HO t
    | SSha256 h => HS h | SHash256 h => HH h | SRipemd160 h => HR h | SHash160 h => H1 h
    | SThresh k subs =>
        HTh k subs ((fix go (l : list spol) : Forall P l :=
                       match l with
                       | [] => Forall_nil _
                       | x :: l' => Forall_cons _ (spol_ind' x) (go l')
                       end) subs)
    end.
End SpolInd.

(* ------------------------------------------------------------------ small facts *)
Lemma count_true_cons b l : count_true (b :: l) = (if b then 1 else 0) + count_true l.
Proof. unfold count_true. simpl. destruct b; reflexivity. Qed.
Lemma count_true_nil : count_true [] = 0.
Proof. reflexivity. Qed.
Lemma count_true_app a b : count_true (a ++ b) = count_true a + count_true b.
Proof. unfold count_true. rewrite filter_app, app_length. reflexivity. Qed.
Lemma count_true_le l : count_true l <= length l.
Proof. induction l as [|b l IH]; [apply le_n|]. rewrite count_true_cons. simpl. destruct b; lia. Qed.

Ltac leb_cases :=
  repeat match goal with
         | |- context [?a <=? ?b] => destruct (Nat.leb_spec a b)
         | |- context [?a <? ?b] => destruct (Nat.ltb_spec a b)
         | |- context [?a =? ?b] => destruct (Nat.eqb_spec a b)
         end; try reflexivity; try (exfalso; lia).

Lemma forallb_count {A} (f : A -> bool) l :
  forallb f l = (length l <=? count_true (map f l)).
Proof.
  induction l as [|a l IH]; [reflexivity|].
  cbn [forallb map length]. rewrite count_true_cons, IH.
  pose proof (count_true_le (map f l)) as H. rewrite map_length in H.
  destruct (f a); cbn [andb]; leb_cases.
Qed.
Lemma existsb_count {A} (f : A -> bool) l :
  existsb f l = (1 <=? count_true (map f l)).
Proof.
  induction l as [|a l IH]; [reflexivity|].
  cbn [existsb map]. rewrite count_true_cons, IH.
  destruct (f a); cbn [orb]; leb_cases.
Qed.

Lemma map_ext_Forall {A B} (f g : A -> B) l : Forall (fun x => f x = g x) l -> map f l = map g l.
Proof. induction 1; simpl; congruence. Qed.

(* ------------------------------------------------------------------ equality test *)
Lemma spol_eqb_eq : forall p q, spol_eqb p q = true <-> p = q.
Proof.
  induction p using spol_ind'; destruct q; simpl; split; intro E; try discriminate; try reflexivity;
    try (apply N.eqb_eq in E; congruence); try (inversion E; subst; apply N.eqb_refl).
  - apply andb_prop in E. destruct E as [Ek El]. apply Nat.eqb_eq in Ek. subst k0. f_equal.
    revert subs0 El. induction H as [|x l Hx Hl IH]; intros [|y l'] El; try discriminate; [reflexivity|].
    apply andb_prop in El. destruct El as [E1 E2]. apply Hx in E1. subst. f_equal. apply IH. exact E2.
  - inversion E; subst. rewrite Nat.eqb_refl. simpl.
    clear E. induction H as [|x l Hx Hl IH]; [reflexivity|].
    rewrite (proj2 (Hx x) eq_refl). simpl. exact IH.
Qed.
Lemma spol_eqb_refl p : spol_eqb p p = true.
Proof. apply spol_eqb_eq. reflexivity. Qed.
Lemma spol_eqb_neq p q : spol_eqb p q = false <-> p <> q.
Proof.
  split.
  - intros E H. apply spol_eqb_eq in H. congruence.
  - intro H. destruct (spol_eqb p q) eqn:E; [|reflexivity]. apply spol_eqb_eq in E. contradiction.
Qed.

(* ------------------------------------------------------------------ normalized: truth table *)
Definition nonconst (l : list spol) : list spol := filter (fun s => negb (is_const s)) l.
(* a threshold node has at least one child *)
Definition nz (s : spol) : Prop := match s with SThresh _ [] => False | _ => True end.

Lemma count_split subs :
  length subs = length (filter is_triv subs) + length (filter is_unsat subs) + length (nonconst subs).
Proof. induction subs as [|a l IH]; [reflexivity|]. destruct a; simpl in *; lia. Qed.

Lemma ct_split rho subs :
  count_true (map (evalA rho) subs)
  = length (filter is_triv subs) + count_true (map (evalA rho) (nonconst subs)).
Proof.
  induction subs as [|a l IH]; [reflexivity|].
  rewrite map_cons, count_true_cons, IH.
  destruct a; simpl; rewrite ?count_true_cons; try lia.
Qed.

Lemma push_plain subs :
  flat_map (norm_push false false) subs = nonconst subs /\
  flat_map (norm_push true true) subs = nonconst subs.
Proof.
  induction subs as [|a l [IH1 IH2]]; [split; reflexivity|].
  destruct a; simpl; rewrite ?IH1, ?IH2; split; reflexivity.
Qed.

Lemma push_and_eval rho subs :
  forallb (evalA rho) (flat_map (norm_push true false) subs) = forallb (evalA rho) (nonconst subs).
Proof.
  induction subs as [|a l IH]; [reflexivity|].
  destruct a; simpl; rewrite ?IH; try reflexivity.
  destruct (k =? length subs) eqn:E.
  - rewrite forallb_app, IH. f_equal. apply Nat.eqb_eq in E. subst k. apply forallb_count.
  - simpl. rewrite IH. reflexivity.
Qed.
Lemma push_or_eval rho subs :
  existsb (evalA rho) (flat_map (norm_push false true) subs) = existsb (evalA rho) (nonconst subs).
Proof.
  induction subs as [|a l IH]; [reflexivity|].
  destruct a; simpl; rewrite ?IH; try reflexivity.
  destruct (k =? 1) eqn:E.
  - rewrite existsb_app, IH. f_equal. apply Nat.eqb_eq in E. subst k. apply existsb_count.
  - simpl. rewrite IH. reflexivity.
Qed.

Lemma push_len_ge a o subs : Forall nz subs -> length (nonconst subs) <= length (flat_map (norm_push a o) subs).
Proof.
  induction 1 as [|x l Hx Hl IH]; [simpl; lia|].
  destruct x; simpl in *; try lia.
  destruct a, o; simpl; try lia.
  - destruct (k =? length subs); [|simpl; lia]. rewrite app_length. destruct subs; [contradiction|simpl; lia].
  - destruct (k =? 1); [|simpl; lia]. rewrite app_length. destruct subs; [contradiction|simpl; lia].
Qed.

(* evaluation of the node that normalized() finally builds *)
Lemma final_and rho ret :
  evalA rho (match ret with [x] => x | _ => SThresh (length ret) ret end) = forallb (evalA rho) ret.
Proof.
  destruct ret as [|x [|y r]]; [reflexivity| |].
  - simpl. rewrite andb_true_r. reflexivity.
  - change (evalA rho (SThresh (length (x :: y :: r)) (x :: y :: r)) = forallb (evalA rho) (x :: y :: r)).
    rewrite forallb_count. reflexivity.
Qed.
Lemma final_or rho ret :
  evalA rho (match ret with [x] => x | _ => SThresh 1 ret end) = existsb (evalA rho) ret.
Proof.
  destruct ret as [|x [|y r]]; [reflexivity| |].
  - simpl. rewrite orb_false_r. reflexivity.
  - change (evalA rho (SThresh 1 (x :: y :: r)) = existsb (evalA rho) (x :: y :: r)).
    rewrite existsb_count. reflexivity.
Qed.

Lemma norm_node_eval rho k subs :
  Forall nz subs ->
  evalA rho (norm_node k subs) = (k <=? count_true (map (evalA rho) subs)).
Proof.
  intro Hnz. unfold norm_node.
  pose proof (count_split subs) as Hlen.
  pose proof (ct_split rho subs) as Hct.
  pose proof (push_len_ge true false subs Hnz) as Hge.
  pose proof (push_and_eval rho subs) as Hand.
  pose proof (push_or_eval rho subs) as Hor.
  destruct (push_plain subs) as [Hp1 Hp2].
  remember (nonconst subs) as nc eqn:Hnc. clear Hnc.
  pose proof (count_true_le (map (evalA rho) nc)) as Hle. rewrite map_length in Hle.
  set (tc := length (filter is_triv subs)) in *.
  set (uc := length (filter is_unsat subs)) in *.
  replace (length subs - uc - tc) with (length nc) by lia.
  rewrite Hct. clear Hct Hlen.
  destruct (Nat.eqb_spec (k - tc) 0) as [Em0|Em0].
  { cbn [evalA]. leb_cases. }
  destruct (Nat.eqb_spec (k - tc) (length nc)) as [Eand|Eand];
    destruct (Nat.eqb_spec (k - tc) 1) as [Eor|Eor].
  - (* m = n = 1 *)
    rewrite Hp2.
    destruct nc as [|x [|y r]]; cbn [length] in *; try (exfalso; lia).
    cbn [map] in *. rewrite count_true_cons, count_true_nil in *.
    replace (1 <? k - tc) with false by (symmetry; apply Nat.ltb_ge; lia).
    destruct (evalA rho x); leb_cases.
  - (* and *)
    destruct (Nat.ltb_spec (length (flat_map (norm_push true false) subs)) (k - tc)) as [Elt|Elt];
      [exfalso; lia|].
    rewrite final_and, Hand, forallb_count. leb_cases.
  - (* or *)
    destruct (Nat.ltb_spec (length (flat_map (norm_push false true) subs)) (k - tc)) as [Elt|Elt].
    + assert (Hnil : flat_map (norm_push false true) subs = [])
        by (destruct (flat_map (norm_push false true) subs); [reflexivity|cbn [length] in Elt; lia]).
      rewrite Hnil in Hor. cbn [existsb] in Hor. rewrite existsb_count in Hor. cbn [evalA].
      symmetry in Hor. apply Nat.leb_gt in Hor. leb_cases.
    + rewrite final_or, Hor, existsb_count. leb_cases.
  - (* neither *)
    rewrite Hp1.
    destruct (Nat.ltb_spec (length nc) (k - tc)) as [Elt|Elt].
    + cbn [evalA]. leb_cases.
    + destruct nc as [|x [|y r]]; cbn [length] in *; try (exfalso; lia).
      cbn [evalA]. leb_cases.
Qed.

(* ------------------------------------------------------------------ normalized: normal form *)
Definition nonconstb (s : spol) : bool := negb (is_const s).
Definition nonandb (s : spol) : bool := negb (is_and_node s).
Definition nonorb (s : spol) : bool := negb (is_or_node s).

Lemma is_normal_thresh k subs :
  is_normal (SThresh k subs) =
  (2 <=? length subs) && (1 <=? k) && (k <=? length subs)
  && forallb nonconstb subs
  && (if k =? length subs then forallb nonandb subs else true)
  && (if k =? 1 then forallb nonorb subs else true)
  && forallb is_normal subs.
Proof. reflexivity. Qed.

Lemma normal_parts k subs :
  is_normal (SThresh k subs) = true ->
  2 <= length subs /\ 1 <= k /\ k <= length subs /\ forallb nonconstb subs = true /\
  (k = length subs -> forallb nonandb subs = true) /\
  (k = 1 -> forallb nonorb subs = true) /\ forallb is_normal subs = true.
Proof.
  rewrite is_normal_thresh. intro H.
  repeat (apply andb_prop in H; destruct H as [H ?]).
  apply Nat.leb_le in H.
  repeat match goal with H : (_ <=? _) = true |- _ => apply Nat.leb_le in H end.
  repeat split; try assumption.
  - intro E. rewrite <- E, Nat.eqb_refl in *. assumption.
  - intro E. subst k. assumption.
Qed.

Lemma normal_nz s : is_normal s = true -> nz s.
Proof. destruct s; simpl; auto. destruct subs; [discriminate|auto]. Qed.

Lemma forallb_flat_map {A B} (f : B -> bool) (g : A -> list B) l :
  forallb f (flat_map g l) = forallb (fun x => forallb f (g x)) l.
Proof. induction l; simpl; [reflexivity|]. rewrite forallb_app, IHl. reflexivity. Qed.

(* what the pushed list inherits from normal children *)
Lemma push_normal a o subs :
  forallb is_normal subs = true ->
  forallb is_normal (flat_map (norm_push a o) subs) = true /\
  forallb nonconstb (flat_map (norm_push a o) subs) = true.
Proof.
  intro Hn. rewrite !forallb_flat_map. split; apply forallb_forall; intros x Hx;
    (eapply forallb_forall in Hn; [|exact Hx]).
  - destruct x; try reflexivity; try (simpl; rewrite ?Hn; reflexivity).
    destruct (normal_parts _ _ Hn) as (_ & _ & _ & _ & _ & _ & Hs).
    simpl. destruct a, o; try (cbn [forallb]; rewrite Hn; reflexivity).
    + destruct (k =? length subs0); [exact Hs|cbn [forallb]; rewrite Hn; reflexivity].
    + destruct (k =? 1); [exact Hs|cbn [forallb]; rewrite Hn; reflexivity].
  - destruct x; try reflexivity.
    destruct (normal_parts _ _ Hn) as (_ & _ & _ & Hc & _ & _ & _).
    simpl. destruct a, o; try reflexivity.
    + destruct (k =? length subs0); [exact Hc|reflexivity].
    + destruct (k =? 1); [exact Hc|reflexivity].
Qed.

Lemma push_nonand subs :
  forallb is_normal subs = true -> forallb nonandb (flat_map (norm_push true false) subs) = true.
Proof.
  intro Hn. rewrite forallb_flat_map. apply forallb_forall. intros x Hx.
  eapply forallb_forall in Hn; [|exact Hx].
  destruct x; try reflexivity.
  destruct (normal_parts _ _ Hn) as (_ & _ & _ & _ & Ha & _ & _).
  simpl. destruct (Nat.eqb_spec k (length subs0)) as [E|E].
  - apply Ha. exact E.
  - cbn [forallb]. unfold nonandb. simpl. apply Nat.eqb_neq in E. rewrite E. reflexivity.
Qed.
Lemma push_nonor subs :
  forallb is_normal subs = true -> forallb nonorb (flat_map (norm_push false true) subs) = true.
Proof.
  intro Hn. rewrite forallb_flat_map. apply forallb_forall. intros x Hx.
  eapply forallb_forall in Hn; [|exact Hx].
  destruct x; try reflexivity.
  destruct (normal_parts _ _ Hn) as (_ & _ & _ & _ & _ & Ho & _).
  simpl. destruct (Nat.eqb_spec k 1) as [E|E].
  - apply Ho. exact E.
  - cbn [forallb]. unfold nonorb. simpl. apply Nat.eqb_neq in E. rewrite E. reflexivity.
Qed.

Lemma norm_node_normal k subs :
  forallb is_normal subs = true -> is_normal (norm_node k subs) = true.
Proof.
  intro Hn. unfold norm_node.
  pose proof (count_split subs) as Hlen.
  destruct (push_plain subs) as [Hp1 Hp2].
  remember (nonconst subs) as nc eqn:Hnc. clear Hnc.
  set (tc := length (filter is_triv subs)) in *.
  set (uc := length (filter is_unsat subs)) in *.
  replace (length subs - uc - tc) with (length nc) by lia.
  destruct (Nat.eqb_spec (k - tc) 0) as [Em0|Em0]; [reflexivity|].
  set (a := k - tc =? length nc). set (o := k - tc =? 1).
  destruct (push_normal a o subs Hn) as [Rn Rc].
  pose proof (push_nonand subs Hn) as Ra.
  pose proof (push_nonor subs Hn) as Ro.
  destruct (Nat.ltb_spec (length (flat_map (norm_push a o) subs)) (k - tc)) as [Elt|Elt]; [reflexivity|].
  remember (flat_map (norm_push a o) subs) as ret eqn:Hret.
  destruct ret as [|x [|y r]].
  - simpl in Elt. lia.
  - simpl in Rn. rewrite andb_true_r in Rn. exact Rn.
  - subst a o.
    destruct (Nat.eqb_spec (k - tc) (length nc)) as [Ea|Ea].
    + destruct (Nat.eqb_spec (k - tc) 1) as [Eo|Eo].
      * (* m = n = 1: the list is nc, of length 1 *)
        rewrite Hp2 in Hret. rewrite <- Hret in Ea. simpl in Ea. lia.
      * rewrite is_normal_thresh, Rn, Rc, Nat.eqb_refl. rewrite <- Hret in Ra. rewrite Ra.
        cbn [length]. simpl. rewrite ?Nat.leb_refl. reflexivity.
    + destruct (Nat.eqb_spec (k - tc) 1) as [Eo|Eo].
      * rewrite is_normal_thresh, Rn, Rc. rewrite <- Hret in Ro. rewrite Ro. reflexivity.
      * rewrite Hp1 in Hret. rewrite <- Hret in Ea.
        rewrite is_normal_thresh, Rn, Rc.
        replace (k - tc =? length (x :: y :: r)) with false by (symmetry; apply Nat.eqb_neq; exact Ea).
        replace (k - tc =? 1) with false by (symmetry; apply Nat.eqb_neq; exact Eo).
        replace (1 <=? k - tc) with true by (symmetry; apply Nat.leb_le; lia).
        replace (k - tc <=? length (x :: y :: r)) with true by (symmetry; apply Nat.leb_le; exact Elt).
        reflexivity.
Qed.

Lemma normalized_normal : forall p, is_normal (normalized p) = true.
Proof.
  induction p using spol_ind'; try reflexivity.
  simpl. apply norm_node_normal. apply forallb_forall. intros x Hx.
  apply in_map_iff in Hx. destruct Hx as (y & <- & Hy).
  rewrite Forall_forall in H. apply H. exact Hy.
Qed.

(* a normal policy is a fixed point of normalized *)
Lemma forallb_filter_nil {A} (f g : A -> bool) l :
  forallb f l = true -> (forall x, f x = true -> g x = false) -> filter g l = [].
Proof.
  intros F H. induction l as [|x l IH]; [reflexivity|].
  simpl in F. apply andb_prop in F. destruct F as [Fx Fl]. simpl. rewrite (H _ Fx). apply IH. exact Fl.
Qed.

Lemma norm_node_fix k subs :
  is_normal (SThresh k subs) = true -> norm_node k subs = SThresh k subs.
Proof.
  intro Hn. destruct (normal_parts _ _ Hn) as (H2 & H1 & Hk & Hc & Ha & Ho & Hs).
  unfold norm_node.
  rewrite (forallb_filter_nil nonconstb is_triv subs Hc) by (intros [] E; unfold nonconstb in *; simpl in *; congruence).
  rewrite (forallb_filter_nil nonconstb is_unsat subs Hc) by (intros [] E; unfold nonconstb in *; simpl in *; congruence).
  cbn [length]. rewrite !Nat.sub_0_r.
  assert (Hret : flat_map (norm_push (k =? length subs) (k =? 1)) subs = subs).
  { destruct (Nat.eqb_spec k (length subs)) as [Ea|Ea]; destruct (Nat.eqb_spec k 1) as [Eo|Eo]; try lia.
    - specialize (Ha Ea). clear - Ha Hc. induction subs as [|x l IH]; [reflexivity|].
      simpl in *. apply andb_prop in Ha. destruct Ha as [Hx Hl]. apply andb_prop in Hc. destruct Hc as [Cx Cl].
      rewrite (IH Cl Hl). destruct x; try reflexivity; try discriminate.
      unfold nonandb in Hx. simpl in Hx. apply negb_true_iff in Hx. simpl. rewrite Hx. reflexivity.
    - specialize (Ho Eo). clear - Ho Hc. induction subs as [|x l IH]; [reflexivity|].
      simpl in *. apply andb_prop in Ho. destruct Ho as [Hx Hl]. apply andb_prop in Hc. destruct Hc as [Cx Cl].
      rewrite (IH Cl Hl). destruct x; try reflexivity; try discriminate.
      unfold nonorb in Hx. simpl in Hx. apply negb_true_iff in Hx. simpl. rewrite Hx. reflexivity.
    - clear - Hc. induction subs as [|x l IH]; [reflexivity|].
      simpl in *. apply andb_prop in Hc. destruct Hc as [Cx Cl].
      rewrite (IH Cl). destruct x; try reflexivity; try discriminate. }
  rewrite Hret.
  destruct (Nat.eqb_spec k 0); [lia|].
  destruct (Nat.ltb_spec (length subs) k); [lia|].
  destruct subs as [|x [|y r]]; try (simpl in H2; lia).
  destruct (Nat.eqb_spec k (length (x :: y :: r))) as [Ea|Ea]; [rewrite <- Ea; reflexivity|].
  destruct (Nat.eqb_spec k 1) as [Eo|Eo]; [rewrite <- Eo; reflexivity|reflexivity].
Qed.

Lemma normal_fix : forall p, is_normal p = true -> normalized p = p.
Proof.
  induction p using spol_ind'; try reflexivity.
  intro Hn. simpl.
  destruct (normal_parts _ _ Hn) as (_ & _ & _ & _ & _ & _ & Hs).
  assert (E : map normalized subs = subs).
  { clear Hn. induction H as [|x l Hx Hl IH]; [reflexivity|].
    simpl in Hs. apply andb_prop in Hs. destruct Hs as [Sx Sl]. simpl. rewrite (Hx Sx), (IH Sl). reflexivity. }
  rewrite E. apply norm_node_fix. exact Hn.
Qed.

Lemma normalized_idempotent p : normalized (normalized p) = normalized p.
Proof. apply normal_fix, normalized_normal. Qed.

Lemma normal_no_inner_const : forall p, is_normal p = true -> no_inner_const p = true.
Proof.
  induction p using spol_ind'; try reflexivity.
  intro Hn. destruct (normal_parts _ _ Hn) as (_ & _ & _ & Hc & _ & _ & Hs).
  simpl. apply forallb_forall. intros x Hx.
  rewrite Forall_forall in H.
  eapply forallb_forall in Hc; [|exact Hx]. eapply forallb_forall in Hs; [|exact Hx].
  unfold nonconstb in Hc. rewrite Hc. simpl. apply H; assumption.
Qed.
Lemma normalized_no_inner_const p : no_inner_const (normalized p) = true.
Proof. apply normal_no_inner_const, normalized_normal. Qed.

(* Threshold::new never fails inside normalized(): every node it returns is well formed *)
Lemma normal_wf : forall p, is_normal p = true -> wf p = true.
Proof.
  induction p using spol_ind'; try reflexivity.
  intro Hn. destruct (normal_parts _ _ Hn) as (_ & H1 & Hk & _ & _ & _ & Hs).
  cbn [wf]. apply Nat.leb_le in H1. apply Nat.leb_le in Hk. rewrite H1, Hk. cbn [andb].
  apply forallb_forall. intros x Hx. rewrite Forall_forall in H.
  eapply forallb_forall in Hs; [|exact Hx]. apply H; assumption.
Qed.
Lemma normalized_wf p : wf (normalized p) = true.
Proof. apply normal_wf, normalized_normal. Qed.

(* ------------------------------------------------------------------ normalized_eval *)
Lemma normalized_eval rho : forall p, evalA rho (normalized p) = evalA rho p.
Proof.
  induction p using spol_ind'; try reflexivity.
  cbn [normalized]. rewrite norm_node_eval.
  - cbn [evalA]. rewrite map_map. f_equal. f_equal. apply map_ext_Forall. exact H.
  - apply Forall_forall. intros x Hx. apply in_map_iff in Hx. destruct Hx as (y & <- & _).
    apply normal_nz, normalized_normal.
Qed.

(* ------------------------------------------------------------------ valuations *)
Lemma evalA_ext rho rho' : (forall l, rho l = rho' l) -> forall p, evalA rho p = evalA rho' p.
Proof.
  intro E. induction p using spol_ind'; cbn [evalA]; try apply E; try reflexivity.
  f_equal. f_equal. apply map_ext_Forall. exact H.
Qed.

(* ------------------------------------------------------------------ sorted_eval *)
Lemma insert_by_perm {A} (cmp : A -> A -> comparison) x l : Permutation (insert_by cmp x l) (x :: l).
Proof.
  induction l as [|y r IH]; [apply Permutation_refl|].
  simpl. destruct (cmp x y); try apply Permutation_refl.
  eapply Permutation_trans; [apply perm_skip, IH|apply perm_swap].
Qed.
Lemma isort_perm {A} (cmp : A -> A -> comparison) l : Permutation (isort cmp l) l.
Proof.
  induction l as [|x r IH]; [apply Permutation_refl|].
  unfold isort in *. simpl. eapply Permutation_trans; [apply insert_by_perm|apply perm_skip, IH].
Qed.
Lemma count_true_perm a b : Permutation a b -> count_true a = count_true b.
Proof. induction 1; rewrite ?count_true_cons; try lia; try reflexivity. Qed.

Lemma sorted_eval rho : forall p, evalA rho (sorted p) = evalA rho p.
Proof.
  induction p using spol_ind'; try reflexivity.
  cbn [sorted evalA]. f_equal.
  rewrite (count_true_perm _ _ (Permutation_map (evalA rho) (isort_perm spol_cmp (map sorted subs)))).
  rewrite map_map. f_equal. apply map_ext_Forall. exact H.
Qed.

(* sorting only reorders children: same thresholds, same multiset of leaves *)
Lemma sorted_wf : forall p, wf p = true -> wf (sorted p) = true.
Proof.
  induction p using spol_ind'; try reflexivity.
  cbn [sorted wf]. intro W. apply andb_prop in W. destruct W as [W Ws].
  rewrite (Permutation_length (isort_perm spol_cmp (map sorted subs))), map_length, W. cbn [andb].
  apply forallb_forall. intros x Hx.
  apply (Permutation_in _ (isort_perm spol_cmp (map sorted subs))) in Hx.
  apply in_map_iff in Hx. destruct Hx as (y & <- & Hy).
  rewrite Forall_forall in H. apply H; [exact Hy|]. eapply forallb_forall in Ws; eassumption.
Qed.

(* ------------------------------------------------------------------ at_age / at_lock_time *)
Lemma rel_implied_csv t a : rel_is_implied_by (rel_of_consensus t) a = csv_ok t a.
Proof.
  unfold rel_of_consensus, csv_ok.
  change 65535%N with (N.ones 16). rewrite N.land_ones. change (2 ^ 16)%N with 65536%N.
  destruct (N.testbit t 22), a; reflexivity.
Qed.
Lemma abs_implied_cltv t n : abs_is_implied_by (abs_of_consensus t) n = cltv_ok t n.
Proof.
  unfold abs_of_consensus, cltv_ok.
  destruct (N.ltb_spec t 500000000) as [L|L], n; cbn [abs_is_implied_by andb]; try reflexivity.
  - destruct (N.leb_spec 500000000 t); [lia|reflexivity].
  - destruct (N.leb_spec 500000000 t); [reflexivity|lia].
Qed.

Lemma at_age_raw_eval a rho : forall p, evalA rho (at_age_raw a p) = evalA (restrict_age a rho) p.
Proof.
  induction p using spol_ind'; try reflexivity.
  - cbn [at_age_raw]. rewrite rel_implied_csv. cbn [evalA restrict_age].
    destruct (csv_ok t a); cbn [evalA]; [rewrite andb_true_r|rewrite andb_false_r]; reflexivity.
  - cbn [at_age_raw evalA]. rewrite map_map. f_equal. f_equal. apply map_ext_Forall. exact H.
Qed.
Lemma at_lock_time_raw_eval n rho : forall p, evalA rho (at_lock_time_raw n p) = evalA (restrict_lock n rho) p.
Proof.
  induction p using spol_ind'; try reflexivity.
  - cbn [at_lock_time_raw]. rewrite abs_implied_cltv. cbn [evalA restrict_lock].
    destruct (cltv_ok t n); cbn [evalA]; [rewrite andb_true_r|rewrite andb_false_r]; reflexivity.
  - cbn [at_lock_time_raw evalA]. rewrite map_map. f_equal. f_equal. apply map_ext_Forall. exact H.
Qed.

(* atom level: the filtered policy is the policy with the impassable locks switched off *)
Lemma at_age_eval a rho p : evalA rho (at_age a p) = evalA (restrict_age a rho) p.
Proof. unfold at_age. rewrite normalized_eval. apply at_age_raw_eval. Qed.
Lemma at_lock_time_eval n rho p : evalA rho (at_lock_time n p) = evalA (restrict_lock n rho) p.
Proof. unfold at_lock_time. rewrite normalized_eval. apply at_lock_time_raw_eval. Qed.

(* world level: at that age / lock time nothing changes *)
Lemma at_age_world w a p : w_age w = a -> eval w (at_age a p) = eval w p.
Proof.
  intro E. unfold eval. rewrite at_age_eval. apply evalA_ext.
  intros []; cbn [restrict_age leaf_truth]; try reflexivity. rewrite E. apply andb_diag.
Qed.
Lemma at_lock_time_world w n p : w_lock w = n -> eval w (at_lock_time n p) = eval w p.
Proof.
  intro E. unfold eval. rewrite at_lock_time_eval. apply evalA_ext.
  intros []; cbn [restrict_lock leaf_truth]; try reflexivity. rewrite E. apply andb_diag.
Qed.

(* leaves: normalized() invents none; the filters keep only passable locks *)
Lemma leaves_push_incl a o subs :
  incl (flat_map leaves_of (flat_map (norm_push a o) subs)) (flat_map leaves_of subs).
Proof.
  induction subs as [|x l IH]; [apply incl_refl|].
  cbn [flat_map]. rewrite flat_map_app. apply incl_app_app; [|exact IH].
  destruct x as [| | | | | | | | |k' s']; cbn [norm_push flat_map leaves_of]; rewrite ?app_nil_r; try apply incl_refl; try apply incl_nil_l.
  destruct a, o; try (cbn [flat_map leaves_of]; rewrite app_nil_r; apply incl_refl).
  - destruct (k' =? length s'); [apply incl_refl|cbn [flat_map leaves_of]; rewrite app_nil_r; apply incl_refl].
  - destruct (k' =? 1); [apply incl_refl|cbn [flat_map leaves_of]; rewrite app_nil_r; apply incl_refl].
Qed.

Lemma leaves_norm_node_incl k subs : incl (leaves_of (norm_node k subs)) (flat_map leaves_of subs).
Proof.
  unfold norm_node.
  set (tc := length (filter is_triv subs)). set (uc := length (filter is_unsat subs)).
  set (a := k - tc =? length subs - uc - tc). set (o := k - tc =? 1).
  pose proof (leaves_push_incl a o subs) as Hi.
  destruct (k - tc =? 0); [apply incl_nil_l|].
  destruct (length (flat_map (norm_push a o) subs) <? k - tc); [apply incl_nil_l|].
  destruct (flat_map (norm_push a o) subs) as [|x [|y r]] eqn:E.
  - destruct a; [|destruct o]; apply incl_nil_l.
  - cbn [flat_map] in Hi. rewrite app_nil_r in Hi. exact Hi.
  - destruct a; [|destruct o]; exact Hi.
Qed.

Lemma leaves_normalized_incl : forall p, incl (leaves_of (normalized p)) (leaves_of p).
Proof.
  induction p using spol_ind'; try apply incl_refl.
  cbn [normalized leaves_of]. eapply incl_tran; [apply leaves_norm_node_incl|].
  rewrite flat_map_concat_map, map_map, <- flat_map_concat_map.
  intros l Hl. apply in_flat_map in Hl. destruct Hl as (x & Hx & Hl).
  apply in_flat_map. exists x. split; [exact Hx|]. rewrite Forall_forall in H. apply (H x Hx). exact Hl.
Qed.

Lemma at_age_only_passable a p :
  forall t, In (SOlder t) (leaves_of (at_age a p)) -> csv_ok t a = true.
Proof.
  intros t Ht. apply leaves_normalized_incl in Ht. revert Ht.
  induction p using spol_ind'; cbn [at_age_raw leaves_of]; try (intros [E|[]]; discriminate).
  - contradiction.
  - contradiction.
  - rewrite rel_implied_csv. destruct (csv_ok t0 a) eqn:E; cbn [leaves_of].
    + intros [E'|[]]. inversion E'; subst. exact E.
    + contradiction.
  - intro Hin. apply in_flat_map in Hin. destruct Hin as (x & Hx & Hin).
    apply in_map_iff in Hx. destruct Hx as (y & <- & Hy).
    rewrite Forall_forall in H. exact (H y Hy Hin).
Qed.
Lemma at_lock_time_only_passable n p :
  forall t, In (SAfter t) (leaves_of (at_lock_time n p)) -> cltv_ok t n = true.
Proof.
  intros t Ht. apply leaves_normalized_incl in Ht. revert Ht.
  induction p using spol_ind'; cbn [at_lock_time_raw leaves_of]; try (intros [E|[]]; discriminate).
  - contradiction.
  - contradiction.
  - rewrite abs_implied_cltv. destruct (cltv_ok t0 n) eqn:E; cbn [leaves_of].
    + intros [E'|[]]. inversion E'; subst. exact E.
    + contradiction.
  - intro Hin. apply in_flat_map in Hin. destruct Hin as (x & Hx & Hin).
    apply in_map_iff in Hx. destruct Hx as (y & <- & Hy).
    rewrite Forall_forall in H. exact (H y Hy Hin).
Qed.
