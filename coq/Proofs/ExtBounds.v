(* C09: the witness bounds. Structural induction over the AST against Sat.sat_dissat. *)
From Coq Require Import Lia Permutation.
From Verif Require Import TypeCheck ExtModel ExtProofs ExtLemmas ExtThresh ExtSatSide.
Local Open Scope N_scope.

Arguments N.add : simpl never. Arguments N.mul : simpl never. Arguments N.sub : simpl never.
Arguments N.max : simpl never. Arguments N.of_nat : simpl never. Arguments N.leb : simpl never.
Arguments N.ltb : simpl never. Arguments N.eqb : simpl never.

(* ------------------------------------------------------------------ unfolding the nested fixpoints *)
Lemma go_map {A B} (F : A -> B) (xs : list A) :
  (fix go (l : list A) : list B := match l with [] => [] | x :: r => F x :: go r end) xs = map F xs.
Proof. induction xs as [|x r IH]; [reflexivity|]. cbn [map]. rewrite <- IH. reflexivity. Qed.

Lemma sat_dissat_thresh ke se mall rhs k xs :
  sat_dissat ke se mall rhs (MThresh k xs) =
  let ds := map (sat_dissat ke se mall rhs) xs in
  (flatten_rev (map fst ds),
   if N.eqb k (N.of_nat (length xs)) then flatten_rev (map snd ds)
   else if mall then thresh_mall se (N.to_nat k) (map fst ds) (map snd ds)
        else thresh_nonmall se (N.to_nat k) (map fst ds) (map snd ds)).
Proof. cbn [sat_dissat]. rewrite (go_map (sat_dissat ke se mall rhs)). reflexivity. Qed.

Lemma ext_of_gen_thresh fx c k xs :
  ext_of_gen fx c (MThresh k xs) = ext_threshold fx k (map (ext_of_gen fx c) xs).
Proof. cbn [ext_of_gen]. rewrite (go_map (ext_of_gen fx c)). reflexivity. Qed.

Lemma ext_safe_thresh fx c k xs :
  ext_safe fx c (MThresh k xs) =
  (k <=? N.of_nat (length xs)) && (fx_thresh fx || (k =? N.of_nat (length xs)))
  && forallb (fun x => dtracked (ext_of_gen fx c x) && ext_safe fx c x) xs.
Proof.
  cbn [ext_safe]. f_equal.
Qed.

(* ------------------------------------------------------------------ not-a-stack *)
Definition ns (w : witness) : Prop := forall l, w <> WStack l.
Lemma ns_imp : ns WImpossible. Proof. intros l; discriminate. Qed.
Lemma ns_unav : ns WUnavailable. Proof. intros l; discriminate. Qed.
Lemma ns_cr_l a b : ns (s_stack a) -> ns (s_stack (concatenate_rev a b)).
Proof. intros H l E. apply concatenate_rev_stack in E. destruct E as (la & lb & Ea & _ & _). exact (H la Ea). Qed.
Lemma ns_cr_r a b : ns (s_stack b) -> ns (s_stack (concatenate_rev a b)).
Proof. intros H l E. apply concatenate_rev_stack in E. destruct E as (la & lb & _ & Eb & _). exact (H lb Eb). Qed.
Lemma ns_min se mall a b : ns (s_stack a) -> ns (s_stack b) -> ns (s_stack (min_fn se mall a b)).
Proof.
  intros Ha Hb l E. destruct (min_fn_stack se mall a b) as [H|[H|H]]; rewrite H in E.
  - exact (Ha l E). - exact (Hb l E). - discriminate.
Qed.
Lemma ns_push s p : ns (s_stack s) -> ns (s_stack (with_stack s (wcombine (s_stack s) (WStack [p])))).
Proof.
  intros H l. cbn [with_stack s_stack]. destruct (s_stack s) as [x| |]; cbn [wcombine]; try discriminate.
  exfalso. exact (H x eq_refl).
Qed.
Lemma ns_bounded se od s : ns (s_stack s) -> bounded se od s.
Proof. unfold bounded. destruct (s_stack s) as [l| |]; auto. intros H. exfalso. exact (H l eq_refl). Qed.

Lemma fold_cr_elems l : forall a L,
  s_stack (fold_left concatenate_rev l a) = WStack L -> Forall (fun x => exists lx, s_stack x = WStack lx) l.
Proof.
  induction l as [|x r IH]; intros a L H; [constructor|]. cbn [fold_left] in H.
  constructor; [|eapply IH; exact H].
  destruct (fold_cr_stack_acc _ _ _ H) as [Lb Hb]. apply concatenate_rev_stack in Hb.
  destruct Hb as (la & lb & _ & Eb & _). eauto.
Qed.
Lemma ns_flatten l x : In x l -> ns (s_stack x) -> ns (s_stack (flatten_rev l)).
Proof.
  intros Hin Hx L E. unfold flatten_rev in E. apply fold_cr_elems in E.
  rewrite Forall_forall in E. destruct (E x Hin) as [lx Elx]. exact (Hx lx Elx).
Qed.

Lemma go_existsb (xs : list ms) :
  (fix go (l : list ms) : bool := match l with [] => false | x :: r => fst (nostk x) || go r end) xs
  = existsb (fun x => fst (nostk x)) xs.
Proof. induction xs as [|x r IH]; [reflexivity|]. cbn [existsb]. rewrite <- IH. reflexivity. Qed.

Lemma F2_length {A B} {R : A -> B -> Prop} {l l'} : Forall2 R l l' -> length l = length l'.
Proof. induction 1; cbn [length]; lia. Qed.

Definition possible (x : ms) : nat := if snd (nostk x) then O else 1%nat.
Fixpoint cntp (l : list ms) : nat := match l with [] => O | x :: r => Nat.add (possible x) (cntp r) end.

Section Bounds.
  Variable fx : fixes.
  Variable c : xctx.
  Variable ke : keyenv.
  Variable se : senv.
  Variable mall : bool.
  Variable rhs : bool.
  Hypothesis Hse : senv_ok c se.

  Notation sdm := (sat_dissat ke se mall rhs).
  Notation eo := (ext_of_gen fx c).

  Lemma min_fn_fold a b : (if mall then minimum_mall se else minimum se) a b = min_fn se mall a b.
  Proof. reflexivity. Qed.

  (* ---- thresh: fewer than k children that can ever be satisfied *)
  Lemma picks_possible : forall (xs : list ms) (flags : list bool),
    length flags = length xs ->
    Forall (fun x => snd (nostk x) = true -> ns (s_stack (snd (sdm x)))) xs ->
    Forall (fun s => exists l, s_stack s = WStack l) (picks flags (map sdm xs)) ->
    (length (filter (fun b : bool => b) flags) <= cntp xs)%nat.
  Proof.
    induction xs as [|x r IH]; intros flags Hl HF HP; destruct flags as [|f fr]; try discriminate; [cbn; lia|].
    cbn [length] in Hl. inversion HF as [|? ? Hx HF']; subst. cbn [map picks] in HP. inversion HP as [|? ? Hp HP']; subst.
    cbn [filter cntp]. specialize (IH fr ltac:(lia) HF' HP').
    destruct f; cbn [length]; [|lia].
    unfold possible. destruct (snd (nostk x)) eqn:E; [|lia].
    exfalso. destruct Hp as [l Hl']. unfold pick in Hl'. exact (Hx eq_refl l Hl').
  Qed.
  Lemma filter_id_map {A} (f : A -> bool) (l : list A) :
    length (filter (fun b : bool => b) (map f l)) = length (filter f l).
  Proof. induction l as [|a r IH]; [reflexivity|]. cbn [map filter]. destruct (f a); cbn [length]; rewrite IH; reflexivity. Qed.
  Lemma filter_id_repeat_true n : length (filter (fun b : bool => b) (repeat true n)) = n.
  Proof. induction n as [|n IH]; [reflexivity|]. cbn [repeat filter length]. rewrite IH. reflexivity. Qed.

  Lemma thresh_nosat_sound k xs :
    Forall (fun x => snd (nostk x) = true -> ns (s_stack (snd (sdm x)))) xs ->
    (k <=? N.of_nat (length xs)) && (N.of_nat (cntp xs) <? k) = true ->
    ns (s_stack (snd (sdm (MThresh k xs)))).
  Proof.
    intros HF Hc. apply andb_prop in Hc. destruct Hc as [Hkn Hcnt]. apply N.leb_le in Hkn. apply N.ltb_lt in Hcnt.
    rewrite sat_dissat_thresh. cbv zeta. cbn [snd]. set (ds := map sdm xs).
    assert (Hlds : length ds = length xs) by apply map_length.
    assert (G : forall flags, length flags = length xs ->
                 length (filter (fun b : bool => b) flags) = N.to_nat k ->
                 ns (s_stack (flatten_rev (picks flags ds)))).
    { intros flags Hl Hk L E. unfold flatten_rev in E. apply fold_cr_elems in E.
      pose proof (picks_possible xs flags Hl HF E). lia. }
    destruct (N.eqb_spec k (N.of_nat (length xs))) as [Ek|Ek].
    - rewrite (picks_all_true ds). apply G; [rewrite repeat_length; exact Hlds|].
      rewrite filter_id_repeat_true. lia.
    - assert (Hk' : (N.to_nat k <= length ds)%nat) by lia.
      assert (Hgen : forall {K} (le : K -> K -> bool) (f : nat -> K),
                 ns (s_stack (flatten_rev (swap_in (firstn (N.to_nat k)
                      (map fst (sort_by le (map (fun i => (i, f i)) (seq 0 (length ds)))))) (map fst ds) (map snd ds))))).
      { intros K le f. rewrite swap_in_picks. apply G; [rewrite map_length, seq_length; exact Hlds|].
        rewrite filter_id_map. apply (chosen_count le f (length ds) (N.to_nat k) Hk'). }
      destruct mall.
      + unfold thresh_mall. rewrite map_length. apply Hgen.
      + unfold thresh_nonmall. rewrite map_length.
        match goal with |- context [if ?b then IMPOSSIBLE else _] => destruct b end; [apply ns_imp|].
        match goal with |- context [if ?b then UNAVAILABLE else _] => destruct b end; [apply ns_unav|].
        apply Hgen.
  Qed.

  (* soundness of the syntactic "never a stack" predicates *)
  Lemma nostk_sound m :
    (fst (nostk m) = true -> ns (s_stack (fst (sdm m)))) /\ (snd (nostk m) = true -> ns (s_stack (snd (sdm m)))).
  Proof.
    induction m using ms_ind_ext; cbn [nostk fst snd].
    - (* 1 *) split; [intros _; apply ns_imp|discriminate].
    - (* 0 *) split; [discriminate|intros _; apply ns_imp].
    - split; discriminate.
    - split; discriminate.
    - (* raw_pk_h *) split; intros _; apply ns_imp.
    - (* after *) split; [intros _|discriminate]. cbn [sat_dissat sd_time fst s_stack IMPOSSIBLE]. apply ns_imp.
    - (* older *) split; [intros _|discriminate]. cbn [sat_dissat sd_time fst s_stack IMPOSSIBLE]. apply ns_imp.
    - split; discriminate.
    - split; discriminate.
    - split; discriminate.
    - split; discriminate.
    - exact IHm. - exact IHm. - exact IHm.
    - (* d: *) cbn [sat_dissat]. destruct (sdm m) as [xd xs]. cbn [fst snd] in *. split; [discriminate|].
      intros H. apply ns_push. apply IHm, H.
    - (* v: *) cbn [sat_dissat]. destruct (sdm m) as [xd xs]. cbn [fst snd] in *. split; [intros _; apply ns_imp|apply IHm].
    - (* j: *) cbn [sat_dissat]. destruct (sdm m) as [xd xs]. cbn [fst snd] in *. split; [discriminate|apply IHm].
    - exact IHm.
    - (* and_v *) cbn [sat_dissat]. destruct (sdm m1) as [ld ls], (sdm m2) as [rd rs]. cbn [fst snd] in *.
      destruct IHm1 as [A1 B1], IHm2 as [A2 B2].
      split; intros H; apply orb_prop in H; destruct H as [H|H]; auto using ns_cr_l, ns_cr_r.
    - (* and_b *) cbn [sat_dissat]. destruct (sdm m1) as [ld ls], (sdm m2) as [rd rs]. cbn [fst snd] in *.
      destruct IHm1 as [A1 B1], IHm2 as [A2 B2].
      split; intros H; apply orb_prop in H; destruct H as [H|H]; auto using ns_cr_l, ns_cr_r.
    - (* andor *) cbn [sat_dissat]. destruct (sdm m1) as [ad as_], (sdm m2) as [bd bs], (sdm m3) as [cd cs]. cbn [fst snd] in *.
      destruct IHm1 as [A1 B1], IHm2 as [A2 B2], IHm3 as [A3 B3].
      split; intros H.
      + apply orb_prop in H; destruct H as [H|H]; auto using ns_cr_l, ns_cr_r.
      + apply andb_prop in H. destruct H as [H1 H2]. rewrite min_fn_fold. apply ns_min.
        * apply orb_prop in H1; destruct H1 as [H|H]; auto using ns_cr_l, ns_cr_r.
        * apply orb_prop in H2; destruct H2 as [H|H]; auto using ns_cr_l, ns_cr_r.
    - (* or_b *) cbn [sat_dissat]. destruct (sdm m1) as [ld ls], (sdm m2) as [rd rs]. cbn [fst snd] in *.
      destruct IHm1 as [A1 B1], IHm2 as [A2 B2].
      split; intros H.
      + apply orb_prop in H; destruct H as [H|H]; auto using ns_cr_l, ns_cr_r.
      + apply andb_prop in H. destruct H as [H1 H2]. rewrite min_fn_fold. apply ns_min.
        * apply orb_prop in H1; destruct H1 as [H|H]; auto using ns_cr_l, ns_cr_r.
        * apply orb_prop in H2; destruct H2 as [H|H]; auto using ns_cr_l, ns_cr_r.
    - (* or_d *) cbn [sat_dissat]. destruct (sdm m1) as [ld ls], (sdm m2) as [rd rs]. cbn [fst snd] in *.
      destruct IHm1 as [A1 B1], IHm2 as [A2 B2].
      split; intros H.
      + apply orb_prop in H; destruct H as [H|H]; auto using ns_cr_l, ns_cr_r.
      + apply andb_prop in H. destruct H as [H1 H2]. rewrite min_fn_fold. apply ns_min; [auto|].
        apply orb_prop in H2; destruct H2 as [H|H]; auto using ns_cr_l, ns_cr_r.
    - (* or_c *) cbn [sat_dissat]. destruct (sdm m1) as [ld ls], (sdm m2) as [rd rs]. cbn [fst snd] in *.
      destruct IHm1 as [A1 B1], IHm2 as [A2 B2].
      split; intros H; [apply ns_imp|].
      apply andb_prop in H. destruct H as [H1 H2]. rewrite min_fn_fold. apply ns_min; [auto|].
      apply orb_prop in H2; destruct H2 as [H|H]; auto using ns_cr_l, ns_cr_r.
    - (* or_i *) cbn [sat_dissat]. destruct (sdm m1) as [ld ls], (sdm m2) as [rd rs]. cbn [fst snd] in *.
      destruct IHm1 as [A1 B1], IHm2 as [A2 B2].
      split; intros H; apply andb_prop in H; destruct H as [H1 H2]; rewrite min_fn_fold; apply ns_min; apply ns_push; auto.
    - (* thresh *) split; [|intros Hn; apply thresh_nosat_sound;
                              [eapply Forall_impl; [|exact H]; intros x [_ B]; exact B | exact Hn]].
      rewrite sat_dissat_thresh. cbn [fst snd]. rewrite go_existsb.
      intros Hex. apply existsb_exists in Hex. destruct Hex as (x & Hin & Hx).
      rewrite Forall_forall in H. destruct (H x Hin) as [Ax _].
      apply (ns_flatten _ (fst (sdm x))); [|apply Ax, Hx].
      rewrite map_map. apply in_map_iff. exists x. auto.
    - split; discriminate.
    - split; discriminate.
    - split; discriminate.
    - split; discriminate.
  Qed.

  (* ---- facts from senv_ok *)
  Lemma se_tap_eq : se_tap se = xc_schnorr c. Proof. exact (proj1 Hse). Qed.
  Lemma se_pklen_le k : se_pklen se k <= if xc_schnorr c then 33 else if xc_unc c k then 66 else 34.
  Proof. exact (proj1 (proj2 Hse) k). Qed.
  Lemma sig_size k : ph_size se (PhSig k) <= if xc_schnorr c then 66 else 73.
  Proof.
    unfold ph_size. rewrite se_tap_eq. destruct (xc_schnorr c) eqn:Es; [|lia].
    destruct (se_sig se k) as [sz|] eqn:E; [|lia].
    pose proof (proj2 (proj2 Hse) k sz) as H. rewrite se_tap_eq in H. specialize (H Es E). lia.
  Qed.
  Lemma sig_ssig k : se_tap se = false -> ph_ssig se (PhSig k) = 73.
  Proof. intros H. unfold ph_ssig, ph_size. rewrite H. reflexivity. Qed.
  Lemma sig_size_73 k : ph_size se (PhSig k) <= 73.
  Proof. pose proof (sig_size k). destruct (xc_schnorr c); lia. Qed.

  Lemma bounded_stack od s l d :
    s_stack s = WStack l -> od = Some d -> within se d l -> bounded se od s.
  Proof. intros E -> W. unfold bounded. rewrite E. eauto. Qed.

  Ltac sums := repeat (rewrite ?ph_sum_cons, ?ssig_sum_cons); change (ph_sum se []) with 0; change (ssig_sum se []) with 0.

  (* ---- leaves *)
  Definition sigb (schn : bool) : N := if schn then 66 else 73.
  Definition keyb (schn unc : bool) : N := if schn then 33 else if unc then unc_bytes fx else 34.
  Lemma ext_pk_k_data s u :
    sat_data (ext_pk_k fx s u) = Some (mkSD (sigb s) 1 (sigb s) 1 0)
    /\ dissat_data (ext_pk_k fx s u) = Some (mkSD 1 1 1 1 0).
  Proof. destruct s, u; split; reflexivity. Qed.
  Lemma ext_pk_h_data s u :
    sat_data (ext_pk_h fx s u) = Some (mkSD (keyb s u + sigb s) 2 (keyb s u + sigb s) 2 0)
    /\ dissat_data (ext_pk_h fx s u) = Some (mkSD (keyb s u + 1) 2 (keyb s u + 1) 2 0).
  Proof. destruct s, u; split; reflexivity. Qed.

  Lemma leaf_pk_k k :
    bounded se (sat_data (ext_pk_k fx (xc_schnorr c) (xc_unc c k))) (snd (sd_pk_k se k))
    /\ bounded se (dissat_data (ext_pk_k fx (xc_schnorr c) (xc_unc c k))) (fst (sd_pk_k se k)).
  Proof.
    destruct (ext_pk_k_data (xc_schnorr c) (xc_unc c k)) as [-> ->].
    unfold sd_pk_k. cbn [fst snd].
    pose proof (sig_size k) as Hs. pose proof (sig_ssig k) as Hg. fold (sigb (xc_schnorr c)) in Hs.
    split.
    - unfold w_signature. destruct (se_sig se k); [|apply bounded_impossible; reflexivity].
      eapply bounded_stack; [reflexivity|reflexivity|].
      unfold within. cbn [sd_wcount sd_wsize sd_ssig length]. sums.
      split; [lia|]. split; [lia|]. intros Ht. rewrite (Hg Ht).
      rewrite se_tap_eq in Ht. rewrite Ht. cbn [sigb]. lia.
    - eapply bounded_stack; [reflexivity|reflexivity|].
      unfold within. cbn [sd_wcount sd_wsize sd_ssig length]. sums. cbn [ph_size ph_ssig].
      split; [lia|]. split; [lia|]. intros _. lia.
  Qed.

  Lemma leaf_pk_h k :
    fx_unc fx || xc_schnorr c || negb (xc_unc c k) = true ->
    bounded se (sat_data (ext_pk_h fx (xc_schnorr c) (xc_unc c k))) (snd (sd_pk_h se k))
    /\ bounded se (dissat_data (ext_pk_h fx (xc_schnorr c) (xc_unc c k))) (fst (sd_pk_h se k)).
  Proof.
    intros Hsafe. destruct (ext_pk_h_data (xc_schnorr c) (xc_unc c k)) as [-> ->].
    unfold sd_pk_h. cbn [fst snd].
    pose proof (sig_size k) as Hs. pose proof (sig_ssig k) as Hg. pose proof (se_pklen_le k) as Hk.
    fold (sigb (xc_schnorr c)) in Hs.
    assert (Hkb : se_pklen se k <= keyb (xc_schnorr c) (xc_unc c k)).
    { unfold keyb, unc_bytes. destruct (xc_schnorr c), (xc_unc c k), (fx_unc fx); try discriminate Hsafe; lia. }
    split.
    - unfold w_signature. destruct (se_sig se k); cbn [wcombine]; [|apply bounded_impossible; reflexivity].
      eapply bounded_stack; [reflexivity|reflexivity|].
      unfold within. cbn [sd_wcount sd_wsize sd_ssig length app]. sums.
      change (ph_size se (PhPubkey k)) with (se_pklen se k). change (ph_ssig se (PhPubkey k)) with (se_pklen se k).
      split; [lia|]. split; [lia|]. intros Ht. rewrite (Hg Ht).
      rewrite se_tap_eq in Ht. rewrite Ht in *. cbn [sigb]. lia.
    - cbn [wcombine app]. eapply bounded_stack; [reflexivity|reflexivity|].
      unfold within. cbn [sd_wcount sd_wsize sd_ssig length]. sums. cbn [ph_size ph_ssig].
      split; [lia|]. split; [lia|]. intros _. lia.
  Qed.

  Lemma leaf_hash kd h e :
    sat_data e = Some (mkSD 33 1 33 2 0) -> dissat_data e = Some (mkSD 33 2 33 2 0) ->
    bounded se (sat_data e) (snd (sd_hash se kd h)) /\ bounded se (dissat_data e) (fst (sd_hash se kd h)).
  Proof.
    intros -> ->. unfold sd_hash, w_preimage. cbn [fst snd]. split; unfold bounded; cbn [s_stack].
    - destruct (se_pre se kd h); [|exact I]. eexists; split; [reflexivity|].
      unfold within; cbn [sd_wcount sd_wsize sd_ssig length]; sums; cbn [ph_size ph_ssig].
      split; [lia|split; [lia|]]; intros _; lia.
    - eexists; split; [reflexivity|].
      unfold within; cbn [sd_wcount sd_wsize sd_ssig length]; sums; cbn [ph_size ph_ssig].
      split; [lia|split; [lia|]]; intros _; lia.
  Qed.

  Lemma leaf_time ok t is_abs e :
    sat_data e = Some (mkSD 0 0 0 1 0) ->
    bounded se (sat_data e) (snd (sd_time ok rhs t is_abs)) /\ dbounded se (dissat_data e) (fst (sd_time ok rhs t is_abs)).
  Proof.
    intros ->. unfold sd_time. cbn [fst snd]. split.
    - unfold bounded. destruct is_abs, ok, rhs; cbn [s_stack]; try exact I;
        (eexists; split; [reflexivity|]; unfold within; cbn [sd_wcount sd_wsize sd_ssig length]; sums;
         split; [lia|split; [lia|]]; intros _; lia).
    - apply bounded_dbounded, bounded_impossible. reflexivity.
  Qed.

  (* multi: at most k signatures after the dummy *)
  Lemma take_avail_bound k ks :
    N.of_nat (length (take_avail se k ks)) <= N.of_nat k
    /\ ph_sum se (take_avail se k ks) <= 73 * N.of_nat k
    /\ (se_tap se = false -> ssig_sum se (take_avail se k ks) <= 73 * N.of_nat k).
  Proof.
    revert k. induction ks as [|key r IH]; intros k; cbn [take_avail].
    - cbn [length]. sums. repeat split; try lia; intros; lia.
    - destruct (se_sig se key) eqn:E; [destruct k as [|k']|]; try apply IH.
      destruct (IH k') as (A & B & C). cbn [length]. sums. pose proof (sig_size_73 key) as Hs.
        repeat split; try lia. intros Ht. rewrite (sig_ssig key Ht). specialize (C Ht). lia.
  Qed.
  Lemma repeat_zero_meas n :
    N.of_nat (length (repeat PhPushZero n)) = N.of_nat n /\ ph_sum se (repeat PhPushZero n) = N.of_nat n
    /\ ssig_sum se (repeat PhPushZero n) = N.of_nat n.
  Proof.
    induction n as [|n (A & B & C)]; cbn [repeat length]; sums; [repeat split; lia|].
    cbn [ph_size ph_ssig]. repeat split; lia.
  Qed.

  Lemma leaf_multi k ks uncs :
    bounded se (sat_data (ext_multi k uncs)) (snd (sd_multi se k ks))
    /\ bounded se (dissat_data (ext_multi k uncs)) (fst (sd_multi se k ks)).
  Proof.
    unfold sd_multi, ext_multi.
    assert (Hd : bounded se (Some (mkSD (1 + k) (k + 1) (1 + k) (N.of_nat (length uncs) + 2) (N.of_nat (length uncs))))
                         (mkSat (WStack (repeat PhPushZero (S (N.to_nat k)))) false None None)).
    { unfold bounded. cbn [s_stack]. eexists; split; [reflexivity|].
      destruct (repeat_zero_meas (S (N.to_nat k))) as (A & B & C).
      unfold within. rewrite A, B, C. cbn [sd_wcount sd_wsize sd_ssig]. repeat split; try lia. }
    destruct (Nat.ltb (count_avail se ks) (N.to_nat k)); cbn [fst snd sat_data dissat_data]; (split; [|exact Hd]).
    - apply bounded_impossible. reflexivity.
    - unfold bounded. cbn [s_stack]. eexists; split; [reflexivity|].
      destruct (take_avail_bound (N.to_nat k) ks) as (A & B & C).
      unfold within. cbn [length sd_wcount sd_wsize sd_ssig]. sums. cbn [ph_size ph_ssig].
      repeat split; try lia. intros Ht. specialize (C Ht). lia.
  Qed.

  (* number of signatures placed and total size: j signatures (j <= k), the rest empty *)
  Lemma multi_a_fill_meas k ks :
    xc_schnorr c = true ->
    exists j, (j <= k)%nat /\ (j <= length ks)%nat
              /\ length (multi_a_fill se k ks) = length ks
              /\ ph_sum se (multi_a_fill se k ks) <= 66 * N.of_nat j + (N.of_nat (length ks) - N.of_nat j).
  Proof.
    intros Hs. revert k. induction ks as [|key r IH]; intros k; cbn [multi_a_fill].
    - exists O. cbn [length]. sums. repeat split; lia.
    - destruct (se_sig se key) eqn:E; [destruct k as [|k']|].
      + destruct (IH O) as (j & A & B & C & D). exists j. cbn [length]. sums. cbn [ph_size]. repeat split; try lia.
      + destruct (IH k') as (j & A & B & C & D). exists (S j). cbn [length]. sums.
        pose proof (sig_size key) as Hsz. rewrite Hs in Hsz. repeat split; try lia.
      + destruct (IH k) as (j & A & B & C & D). exists j. cbn [length]. sums. cbn [ph_size]. repeat split; try lia.
  Qed.

  Lemma leaf_multi_a k ks :
    xc_schnorr c = true ->
    bounded se (sat_data (ext_multi_a k (N.of_nat (length ks)))) (snd (sd_multi_a se k ks))
    /\ bounded se (dissat_data (ext_multi_a k (N.of_nat (length ks)))) (fst (sd_multi_a se k ks)).
  Proof.
    intros Hs. unfold sd_multi_a, ext_multi_a.
    assert (Htap : se_tap se = true) by (rewrite se_tap_eq; exact Hs).
    assert (Hd : bounded se (Some (mkSD (N.of_nat (length ks)) (N.of_nat (length ks)) 0 2 0))
                         (mkSat (WStack (repeat PhPushZero (length ks))) false None None)).
    { unfold bounded. cbn [s_stack]. eexists; split; [reflexivity|].
      destruct (repeat_zero_meas (length ks)) as (A & B & C).
      unfold within. rewrite A, B. cbn [sd_wcount sd_wsize sd_ssig]. repeat split; try lia.
      intros Ht. rewrite Ht in Htap. discriminate. }
    destruct (Nat.ltb_spec (count_avail se ks) (N.to_nat k)) as [Hlt|Hge]; cbn [fst snd sat_data dissat_data]; (split; [|exact Hd]).
    - apply bounded_impossible. reflexivity.
    - unfold bounded. cbn [s_stack]. eexists; split; [reflexivity|].
      destruct (multi_a_fill_meas (N.to_nat k) (rev ks) Hs) as (j & A & B & C & D).
      rewrite rev_length in *.
      unfold within. cbn [sd_wcount sd_wsize sd_ssig]. rewrite C.
      repeat split; try lia. intros Ht. rewrite Ht in Htap. discriminate.
  Qed.

  (* ---- dissatisfaction-side combinators *)
  Lemma dbounded_concat f od1 od2 s1 s2 :
    additive f -> dbounded se od1 s1 -> dbounded se od2 s2 ->
    dbounded se (opt_zip_with f od1 od2) (concatenate_rev s1 s2).
  Proof.
    intros Hf H1 H2. destruct od1 as [d1|], od2 as [d2|]; cbn [opt_zip_with dbounded]; auto.
    exact (bounded_concat se f (Some d1) (Some d2) s1 s2 Hf H1 H2).
  Qed.
  Lemma bounded_max_comm od1 od2 s : bounded se (sd_max_opt od1 od2) s -> bounded se (sd_max_opt od2 od1) s.
  Proof.
    unfold bounded. destruct (s_stack s); auto. intros (d & Ed & W).
    destruct od1 as [d1|], od2 as [d2|]; cbn [sd_max_opt] in *; try discriminate; inversion Ed; subst;
      eexists; (split; [reflexivity|]); auto.
    eapply within_mono; [exact W|cbn; lia ..].
  Qed.

  (* ---- thresh: children, figures, flags *)
  Lemma map_fst_combine {A B} (l : list A) (l' : list B) : length l = length l' -> map fst (combine l l') = l.
  Proof.
    revert l'. induction l as [|a r IH]; intros l' H; destruct l' as [|b r']; try discriminate; [reflexivity|].
    cbn [combine map fst]. rewrite IH by (cbn in H; lia). reflexivity.
  Qed.

  Lemma thresh_picks_bounded strict k (es : list ext) (ds : list (satn * satn)) (flags : list bool) :
    Forall2 (child_ok se) es ds -> length flags = length ds ->
    nflags (combine (map pair_of es) flags) = Nat.min (quota strict k) (length es) ->
    bounded se (th_sat_data strict k (map pair_of es)) (flatten_rev (picks flags ds)).
  Proof.
    intros HC Hlen Hn. unfold bounded. destruct (s_stack (flatten_rev (picks flags ds))) as [L| |] eqn:EL; try exact I.
    unfold flatten_rev in EL.
    destruct (flatten_picks_bound se es ds flags HC Hlen TRIVIAL [] L eq_refl EL) as (Hok & Hc & Hs & Hg).
    assert (Hl : length (map pair_of es) = length flags).
    { rewrite map_length, Hlen. exact (F2_length HC). }
    destruct (th_sat_data_bound strict k (combine (map pair_of es) flags) Hok) as (sd & Esd & Bc & Bs & Bg).
    { unfold trip. rewrite combine_length, Hl, Nat.min_id, <- Hl, map_length. exact Hn. }
    rewrite (map_fst_combine _ _ Hl) in Esd.
    exists sd. split; [exact Esd|]. unfold within. cbn [length] in Hc. change (ph_sum se []) with 0 in Hs.
    change (ssig_sum se []) with 0 in Hg.
    split; [lia|]. split; [lia|]. intros Ht. specialize (Hg Ht). lia.
  Qed.

  Lemma th_dissat_fold (es : list ext) : forall a,
    Forall (fun e => dtracked e = true) es ->
    exists d, fold_left (fun acc sub => opt_zip_with sd_concat_v acc (dissat_data sub)) es (Some a) = Some d
              /\ sd_wcount d = sd_wcount a + V sd_wcount (combine (map pair_of es) (repeat false (length es)))
              /\ sd_wsize d = sd_wsize a + V sd_wsize (combine (map pair_of es) (repeat false (length es)))
              /\ sd_ssig d = sd_ssig a + V sd_ssig (combine (map pair_of es) (repeat false (length es))).
  Proof.
    induction es as [|e r IH]; intros a HF.
    - exists a. split; [reflexivity|]. cbn [map length repeat combine]. change (V sd_wcount []) with 0.
      change (V sd_wsize []) with 0. change (V sd_ssig []) with 0. repeat split; lia.
    - inversion HF as [|? ? Ht HF']; subst. apply dtracked_inv in Ht. destruct Ht as [dd Hdd].
      cbn [fold_left]. rewrite Hdd. cbn [opt_zip_with].
      destruct (IH (sd_concat_v a dd) HF') as (d & Ed & Ac & As & Ag).
      exists d. split; [exact Ed|]. cbn [map length repeat combine]. rewrite !V_cons.
      assert (Hpv : forall proj, pickv proj (pair_of e, false) = proj dd).
      { intros proj. unfold pickv, pair_of. rewrite Hdd. destruct (sat_data e); reflexivity. }
      rewrite !Hpv. cbn [sd_concat_v sd_wcount sd_wsize sd_ssig] in Ac, As, Ag. repeat split; lia.
  Qed.

  Lemma thresh_dissat_bounded (es : list ext) (ds : list (satn * satn)) :
    Forall2 (child_ok se) es ds ->
    bounded se (th_dissat_data es) (flatten_rev (map fst ds)).
  Proof.
    intros HC. unfold bounded. destruct (s_stack (flatten_rev (map fst ds))) as [L| |] eqn:EL; try exact I.
    rewrite (picks_all_false ds) in EL. unfold flatten_rev in EL.
    assert (Hlen : length (repeat false (length ds)) = length ds) by apply repeat_length.
    destruct (flatten_picks_bound se es ds _ HC Hlen TRIVIAL [] L eq_refl EL) as (Hok & Hc & Hs & Hg).
    assert (HF : Forall (fun e => dtracked e = true) es).
    { clear -HC. induction HC as [|e d es ds (_ & _ & Ht) _ IH]; constructor; auto. }
    destruct (th_dissat_fold es (mkSD 0 0 0 0 0) HF) as (d & Ed & Ac & As & Ag).
    rewrite (F2_length HC) in Ac, As, Ag.
    exists d. split; [exact Ed|]. cbn [sd_wcount sd_wsize sd_ssig] in Ac, As, Ag.
    unfold within. cbn [length] in Hc. change (ph_sum se []) with 0 in Hs. change (ssig_sum se []) with 0 in Hg.
    split; [lia|]. split; [lia|]. intros Ht. specialize (Hg Ht). lia.
  Qed.

  (* ---- the induction *)
  Hypothesis Hksort : forall l, length (ksort ke l) = length l.

  Definition Pm (m : ms) : Prop :=
    ext_safe fx c m = true ->
    bounded se (sat_data (eo m)) (snd (sdm m)) /\ dbounded se (dissat_data (eo m)) (fst (sdm m)).

  Lemma both_bounded od1 od2 s1 s2 :
    bounded se od1 s1 /\ bounded se od2 s2 -> bounded se od1 s1 /\ dbounded se od2 s2.
  Proof. intros [A B]. split; [exact A|apply bounded_dbounded, B]. Qed.

  Lemma children_ok (xs : list ms) :
    Forall Pm xs -> forallb (fun x => dtracked (eo x) && ext_safe fx c x) xs = true ->
    Forall2 (child_ok se) (map eo xs) (map sdm xs).
  Proof.
    induction 1 as [|x r Hx HF IH]; intros Hb; cbn [map forallb] in *; [constructor|].
    apply andb_prop in Hb. destruct Hb as [Hx' Hr]. apply andb_prop in Hx'. destruct Hx' as [Ht Hs].
    constructor; [|apply IH, Hr]. destruct (Hx Hs) as [A B].
    split; [exact A|]. split; [apply dbounded_tracked; assumption|exact Ht].
  Qed.

  Lemma bounded_raise_estack ub od s : bounded se od s -> bounded se (option_map (sd_raise_estack ub) od) s.
  Proof.
    unfold bounded. destruct (s_stack s); auto. intros (d & -> & W). eexists. split; [reflexivity|].
    eapply within_mono; [exact W| cbn; lia ..].
  Qed.

  Lemma thresh_case k xs : Forall Pm xs -> Pm (MThresh k xs).
  Proof.
    intros HF Hsafe. rewrite ext_safe_thresh in Hsafe.
    apply andb_prop in Hsafe. destruct Hsafe as [Hsafe Hch]. apply andb_prop in Hsafe. destruct Hsafe as [Hkn Hfx].
    apply N.leb_le in Hkn.
    pose proof (children_ok xs HF Hch) as HC.
    rewrite sat_dissat_thresh, ext_of_gen_thresh. cbv zeta. cbn [fst snd].
    set (ds := map sdm xs) in *. set (es := map eo xs) in *.
    assert (Hles : length es = length xs) by (unfold es; apply map_length).
    assert (Hlds : length ds = length xs) by (unfold ds; apply map_length).
    unfold ext_threshold. cbn [sat_data dissat_data].
    change (map (fun s => (sat_data s, dissat_data s)) es) with (map pair_of es).
    split; [|apply bounded_dbounded, bounded_raise_estack, thresh_dissat_bounded, HC].
    destruct (N.eqb_spec k (N.of_nat (length xs))) as [Ek|Ek].
    - (* k = n: every child satisfied *)
      rewrite (picks_all_true ds). apply bounded_raise_estack, thresh_picks_bounded; [exact HC|apply repeat_length|].
      replace (length ds) with (length (map pair_of es)) by (rewrite map_length; lia).
      rewrite nflags_combine_repeat, map_length, Hles. unfold quota. destruct (fx_thresh fx); lia.
    - (* k < n: needs the repaired rule *)
      assert (Hst : fx_thresh fx = true).
      { apply orb_prop in Hfx. destruct Hfx as [H|H]; [exact H|discriminate]. }
      rewrite Hst.
      assert (Hk' : (N.to_nat k <= length ds)%nat) by lia.
      assert (Hgen : forall {K} (le : K -> K -> bool) (f : nat -> K),
                 bounded se (th_sat_data true k (map pair_of es))
                   (flatten_rev (swap_in (firstn (N.to_nat k)
                      (map fst (sort_by le (map (fun i => (i, f i)) (seq 0 (length ds)))))) (map fst ds) (map snd ds)))).
      { intros K le f. rewrite swap_in_picks.
        apply thresh_picks_bounded; [exact HC|rewrite map_length, seq_length; reflexivity|].
        rewrite nflags_combine_map by (rewrite map_length, seq_length; lia).
        rewrite (chosen_count le f (length ds) (N.to_nat k) Hk'). unfold quota. lia. }
      destruct mall.
      + unfold thresh_mall. rewrite map_length. apply bounded_raise_estack, Hgen.
      + unfold thresh_nonmall. rewrite map_length.
        match goal with |- context [if ?b then IMPOSSIBLE else _] => destruct b end;
          [apply bounded_impossible; reflexivity|].
        match goal with |- context [if ?b then UNAVAILABLE else _] => destruct b end;
          [apply bounded_unavailable; reflexivity|].
        apply bounded_raise_estack, Hgen.
  Qed.

  Ltac split_safe H :=
    repeat match type of H with
           | (_ && _) = true => let H1 := fresh H in apply andb_prop in H; destruct H as [H H1]
           end.

  Theorem wit_bounds_safe : forall m, Pm m.
  Proof.
    induction m using ms_ind_ext; unfold Pm in *; intros Hsafe.
    - (* 1 *) cbn [sat_dissat ext_of_gen fst snd]. split; [|exact I]. eapply bounded_stack; [reflexivity|reflexivity|].
      unfold within. cbn [length sd_wcount sd_wsize sd_ssig]. change (ph_sum se []) with 0. change (ssig_sum se []) with 0.
      repeat split; try lia; intros; lia.
    - (* 0 *) cbn [sat_dissat ext_of_gen fst snd]. split; [apply bounded_impossible; reflexivity|].
      apply bounded_dbounded. eapply bounded_stack; [reflexivity|reflexivity|].
      unfold within. cbn [length sd_wcount sd_wsize sd_ssig]. change (ph_sum se []) with 0. change (ssig_sum se []) with 0.
      repeat split; try lia; intros; lia.
    - (* pk_k *) cbn [sat_dissat ext_of_gen]. apply both_bounded, leaf_pk_k.
    - (* pk_h *) cbn [sat_dissat ext_of_gen]. apply both_bounded, leaf_pk_h. exact Hsafe.
    - (* raw_pk_h *) cbn [sat_dissat fst snd]. split; [|apply bounded_dbounded]; apply bounded_impossible; reflexivity.
    - (* after *) cbn [sat_dissat ext_of_gen]. apply leaf_time. reflexivity.
    - (* older *) cbn [sat_dissat ext_of_gen]. apply leaf_time. reflexivity.
    - cbn [sat_dissat ext_of_gen]. apply both_bounded, leaf_hash; reflexivity.
    - cbn [sat_dissat ext_of_gen]. apply both_bounded, leaf_hash; reflexivity.
    - cbn [sat_dissat ext_of_gen]. apply both_bounded, leaf_hash; reflexivity.
    - cbn [sat_dissat ext_of_gen]. apply both_bounded, leaf_hash; reflexivity.
    - (* a: *) cbn [sat_dissat ext_of_gen ext_safe] in *. exact (IHm Hsafe).
    - (* s: *) cbn [sat_dissat ext_of_gen ext_safe] in *. exact (IHm Hsafe).
    - (* c: *) cbn [sat_dissat ext_of_gen ext_safe] in *. exact (IHm Hsafe).
    - (* d: *) cbn [ext_safe] in Hsafe. apply andb_prop in Hsafe. destruct Hsafe as [Hfx Hs].
      destruct (IHm Hs) as [A _]. cbn [sat_dissat ext_of_gen]. destruct (sdm m) as [xd xs]. cbn [fst snd] in *.
      unfold ext_cast_dupif. rewrite Hfx. cbn [sat_data dissat_data]. split.
      + apply (bounded_push se _ _ PhPushOne); [|exact A]. intros d. cbn. lia.
      + eapply bounded_stack; [reflexivity|reflexivity|]. unfold within. cbn. repeat split; try lia; intros; cbn; lia.
    - (* v: *) cbn [ext_safe] in Hsafe. destruct (IHm Hsafe) as [A _]. cbn [sat_dissat ext_of_gen].
      destruct (sdm m) as [xd xs]. cbn [fst snd] in *. split; [exact A|exact I].
    - (* j: *) cbn [ext_safe] in Hsafe. destruct (IHm Hsafe) as [A _]. cbn [sat_dissat ext_of_gen].
      destruct (sdm m) as [xd xs]. cbn [fst snd] in *. split; [exact A|].
      eapply bounded_stack; [reflexivity|reflexivity|]. unfold within. cbn. repeat split; try lia; intros; cbn; lia.
    - (* n: *) cbn [sat_dissat ext_of_gen ext_safe] in *. exact (IHm Hsafe).
    - (* and_v *) cbn [ext_safe] in Hsafe. apply andb_prop in Hsafe. destruct Hsafe as [H1 H2].
      destruct (IHm1 H1) as [A1 B1], (IHm2 H2) as [A2 B2]. cbn [sat_dissat ext_of_gen].
      destruct (sdm m1) as [ld ls], (sdm m2) as [rd rs]. cbn [fst snd] in *.
      unfold ext_and_v. cbn [sat_data dissat_data]. split.
      + apply bounded_concat; [apply concat_v_add|exact A1|exact A2].
      + destruct (fx_andv fx); [|exact I]. apply dbounded_concat; [apply concat_v_add|apply bounded_dbounded, A1|exact B2].
    - (* and_b *) cbn [ext_safe] in Hsafe. apply andb_prop in Hsafe. destruct Hsafe as [H1 H2].
      destruct (IHm1 H1) as [A1 B1], (IHm2 H2) as [A2 B2]. cbn [sat_dissat ext_of_gen].
      destruct (sdm m1) as [ld ls], (sdm m2) as [rd rs]. cbn [fst snd] in *.
      unfold ext_and_b. cbn [sat_data dissat_data]. split.
      + apply bounded_concat; [apply concat_b_add|exact A1|exact A2].
      + apply dbounded_concat; [apply concat_b_add|exact B1|exact B2].
    - (* andor *) cbn [ext_safe] in Hsafe. split_safe Hsafe.
      destruct (IHm1 Hsafe2) as [A1 B1], (IHm2 Hsafe1) as [A2 B2], (IHm3 Hsafe0) as [A3 B3]. cbn [sat_dissat ext_of_gen].
      pose proof (dbounded_tracked se _ _ Hsafe B1) as D1.
      destruct (sdm m1) as [ad as_], (sdm m2) as [bd bs], (sdm m3) as [cd cs]. cbn [fst snd] in *.
      unfold ext_and_or. cbn [sat_data dissat_data]. rewrite min_fn_fold. split.
      + apply bounded_min; (apply bounded_concat; [apply concat_v_add|assumption|assumption]).
      + apply dbounded_concat; [apply concat_v_add|exact B1|exact B3].
    - (* or_b *) cbn [ext_safe] in Hsafe. split_safe Hsafe.
      destruct (IHm1 Hsafe1) as [A1 B1], (IHm2 Hsafe0) as [A2 B2]. cbn [sat_dissat ext_of_gen].
      pose proof (dbounded_tracked se _ _ Hsafe B1) as D1. pose proof (dbounded_tracked se _ _ Hsafe2 B2) as D2.
      destruct (sdm m1) as [ld ls], (sdm m2) as [rd rs]. cbn [fst snd] in *.
      unfold ext_or_b. cbn [sat_data dissat_data]. rewrite min_fn_fold. split.
      + apply bounded_max_comm. apply bounded_min; (apply bounded_concat; [apply concat_b_add|assumption|assumption]).
      + apply dbounded_concat; [apply concat_b_add|exact B1|exact B2].
    - (* or_d *) cbn [ext_safe] in Hsafe. split_safe Hsafe.
      destruct (IHm1 Hsafe1) as [A1 B1], (IHm2 Hsafe0) as [A2 B2]. cbn [sat_dissat ext_of_gen].
      pose proof (dbounded_tracked se _ _ Hsafe B1) as D1.
      destruct (sdm m1) as [ld ls], (sdm m2) as [rd rs]. cbn [fst snd] in *.
      unfold ext_or_d. cbn [sat_data dissat_data]. rewrite min_fn_fold. split.
      + apply bounded_min; [exact A1|]. apply bounded_concat; [apply concat_v_add|assumption|assumption].
      + apply dbounded_concat; [apply concat_v_add|exact B1|exact B2].
    - (* or_c *) cbn [ext_safe] in Hsafe. split_safe Hsafe.
      destruct (IHm1 Hsafe1) as [A1 B1], (IHm2 Hsafe0) as [A2 B2]. cbn [sat_dissat ext_of_gen].
      pose proof (dbounded_tracked se _ _ Hsafe B1) as D1.
      destruct (sdm m1) as [ld ls], (sdm m2) as [rd rs]. cbn [fst snd] in *.
      unfold ext_or_c. cbn [sat_data dissat_data]. rewrite min_fn_fold. split; [|exact I].
      apply bounded_min; [exact A1|]. apply bounded_concat; [apply concat_v_add|assumption|assumption].
    - (* or_i *) cbn [ext_safe] in Hsafe. split_safe Hsafe.
      destruct (IHm1 Hsafe1) as [A1 B1], (IHm2 Hsafe0) as [A2 B2].
      destruct (nostk_sound m1) as [N1 _], (nostk_sound m2) as [N2 _].
      cbn [sat_dissat ext_of_gen].
      destruct (sdm m1) as [ld ls], (sdm m2) as [rd rs]. cbn [fst snd] in *.
      unfold ext_or_i. cbn [sat_data dissat_data]. rewrite !min_fn_fold.
      assert (G1 : forall d, sd_wcount d + 1 <= sd_wcount (sd_with_1 d) /\ sd_wsize d + ph_size se PhPushOne <= sd_wsize (sd_with_1 d)
                             /\ sd_ssig d + ph_ssig se PhPushOne <= sd_ssig (sd_with_1 d)) by (intros d; cbn; lia).
      assert (G0 : forall d, sd_wcount d + 1 <= sd_wcount (sd_with_0 d) /\ sd_wsize d + ph_size se PhPushZero <= sd_wsize (sd_with_0 d)
                             /\ sd_ssig d + ph_ssig se PhPushZero <= sd_ssig (sd_with_0 d)) by (intros d; cbn; lia).
      split.
      + apply bounded_min; [apply (bounded_push se _ _ PhPushOne _ G1), A1|apply (bounded_push se _ _ PhPushZero _ G0), A2].
      + apply orb_prop in Hsafe. destruct Hsafe as [Hn|Hy].
        * apply andb_prop in Hn. destruct Hn as [Hn1 Hn2]. unfold dtracked in Hn1, Hn2.
          destruct (dissat_data (eo m1)); [discriminate|]. destruct (dissat_data (eo m2)); [discriminate|]. exact I.
        * apply andb_prop in Hy. destruct Hy as [Hy1 Hy2]. apply bounded_dbounded, bounded_min.
          -- apply orb_prop in Hy1. destruct Hy1 as [Ht|Hns].
             ++ apply (bounded_push se _ _ PhPushOne _ G1). apply dbounded_tracked; assumption.
             ++ apply ns_bounded, ns_push, N1, Hns.
          -- apply orb_prop in Hy2. destruct Hy2 as [Ht|Hns].
             ++ apply (bounded_push se _ _ PhPushZero _ G0). apply dbounded_tracked; assumption.
             ++ apply ns_bounded, ns_push, N2, Hns.
    - (* thresh *) apply thresh_case; assumption.
    - (* multi *) cbn [sat_dissat ext_of_gen]. apply both_bounded, leaf_multi.
    - (* sortedmulti *) cbn [sat_dissat ext_of_gen]. apply both_bounded, leaf_multi.
    - (* multi_a *) cbn [sat_dissat ext_of_gen]. apply both_bounded, leaf_multi_a. exact Hsafe.
    - (* sortedmulti_a *) cbn [sat_dissat ext_of_gen ext_safe] in *. rewrite <- (Hksort ks).
      apply both_bounded, leaf_multi_a. exact Hsafe.
  Qed.
End Bounds.

(* ------------------------------------------------------------------ the theorems in closed form *)
Definition ksort_len_ok (ke : keyenv) : Prop := forall l, length (ksort ke l) = length l.

(* For every rule set [fx], every script in the class [ext_safe fx c], every asset environment
   and both modes: the satisfaction AND the dissatisfaction returned by the satisfier model are
   covered by the figures (the dissatisfaction wherever a figure exists). *)
Theorem wit_bounds_gen :
  forall fx c ke se mall rhs m,
    senv_ok c se -> ksort_len_ok ke -> ext_safe fx c m = true ->
    bounded se (sat_data (ext_of_gen fx c m)) (snd (sat_dissat ke se mall rhs m))
    /\ dbounded se (dissat_data (ext_of_gen fx c m)) (fst (sat_dissat ke se mall rhs m)).
Proof. intros fx c ke se mall rhs m Hse Hk. exact (wit_bounds_safe fx c ke se mall rhs Hse Hk m). Qed.

(* in the vocabulary of the property: the witness the satisfier returns *)
Corollary wit_bounds_root :
  forall fx c ke se mall rhs m l,
    senv_ok c se -> ksort_len_ok ke -> ext_safe fx c m = true ->
    s_stack (snd (sat_dissat ke se mall rhs m)) = WStack l ->
    exists d, sat_data (ext_of_gen fx c m) = Some d
              /\ N.of_nat (length l) <= sd_wcount d
              /\ ph_sum se l <= sd_wsize d
              /\ (se_tap se = false -> ssig_sum se l <= sd_ssig d).
Proof.
  intros fx c ke se mall rhs m l Hse Hk Hs El.
  destruct (wit_bounds_gen fx c ke se mall rhs m Hse Hk Hs) as [A _].
  unfold bounded in A. rewrite El in A. destruct A as (d & Ed & Wc & Ws & Wg). eauto.
Qed.

(* the code as written (all four size-relevant repairs are in /repo): only the structural part of
   ext_safe remains as side condition *)
Corollary wit_bounds_code :
  forall c ke se mall rhs m,
    senv_ok c se -> ksort_len_ok ke -> ext_safe as_written c m = true ->
    bounded se (sat_data (ext_of c m)) (snd (sat_dissat ke se mall rhs m)).
Proof. intros c ke se mall rhs m Hse Hk Hs. exact (proj1 (wit_bounds_gen as_written c ke se mall rhs m Hse Hk Hs)). Qed.

(* non-vacuity: the hypotheses are satisfiable and the conclusion is about a real stack *)
Example wit_bounds_nonvacuous :
  senv_ok cx_segwit se_key3 /\ ksort_len_ok ke0
  /\ ext_safe as_written cx_segwit (MOrD (MCheck (MPkK 3)) (MAndV (MVerify (MCheck (MPkK 1))) (MOlder 10))) = true
  /\ ext_safe as_written cx_segwit w_thresh = true
  /\ ext_safe pre_fix cx_segwit w_thresh = false
  /\ s_stack (snd (sat_dissat ke0 se_key3 false true (MOrD (MCheck (MPkK 3)) (MAndV (MVerify (MCheck (MPkK 1))) (MOlder 10)))))
     = WStack [PhSig 3].
Proof.
  split; [exact senv_ok_key3|]. split; [intros l; reflexivity|]. vm_compute. auto.
Qed.
