(* Proofs about the policy text layer (Ms/PolTextModel.v): for both policy types
   print_parse (from_tree (to_tree p) = Ok p for every policy the parser's own checks admit),
   parse_valid (whatever from_tree returns satisfies those checks), hence the fixed point and canonicity. *)
From Coq Require Import List Bool NArith Lia Arith.
From Verif Require Import PolTextModel MsTextProofs PolSemanticProofs.
Import ListNotations.
Local Open Scope N_scope.

(* ------------------------------------------------------------------ induction principle for wpol *)
Section WpolInd.
  Variable P : wpol -> Prop.
  Hypothesis HL : forall l, P (WLeaf l).
  Hypothesis HA : forall subs, Forall P subs -> P (WAnd subs).
  Hypothesis HO : forall subs, Forall (fun wp => P (snd wp)) subs -> P (WOr subs).
  Hypothesis HT : forall k subs, Forall P subs -> P (WThresh k subs).
  Fixpoint wpol_ind' (p : wpol) : P p :=
    match p with
    | WLeaf l => HL l
    | WAnd subs => HA subs ((fix go (l : list wpol) : Forall P l :=
                               match l with [] => Forall_nil _ | x :: r => Forall_cons _ (wpol_ind' x) (go r) end) subs)
    | WOr subs => HO subs ((fix go (l : list (N * wpol)) : Forall (fun wp => P (snd wp)) l :=
                              match l with
                              | [] => Forall_nil _
                              | (w, x) :: r => Forall_cons (w, x) (wpol_ind' x) (go r)
                              end) subs)
    | WThresh k subs => HT k subs ((fix go (l : list wpol) : Forall P l :=
                               match l with [] => Forall_nil _ | x :: r => Forall_cons _ (wpol_ind' x) (go r) end) subs)
    end.
End WpolInd.

(* ------------------------------------------------------------------ names and numbers *)
Definition noat (s : tbytes) : bool := forallb (fun c => negb (c =? AT)) s.

Lemma split_at_noat : forall s, noat s = true -> split_at s = (s, None).
Proof.
  induction s as [|c r IH]; intros H; [reflexivity|].
  cbn [noat forallb] in H. apply andb_prop in H. destruct H as [H1 H2].
  cbn [split_at]. apply negb_true_iff in H1. rewrite H1. rewrite (IH H2). reflexivity.
Qed.

Lemma split_at_app : forall a b, noat a = true -> split_at (a ++ AT :: b) = (a, Some b).
Proof.
  induction a as [|c r IH]; intros b H.
  - reflexivity.
  - cbn [noat forallb] in H. apply andb_prop in H. destruct H as [H1 H2].
    cbn [app split_at]. apply negb_true_iff in H1. rewrite H1. rewrite (IH b H2). reflexivity.
Qed.

Lemma sep_at_plain : forall s, noat s = true -> sep_at s = Ok (None, s).
Proof. intros s H. unfold sep_at. rewrite (split_at_noat s H). reflexivity. Qed.

Lemma sep_at_full : forall a b, noat a = true -> noat b = true -> sep_at (a ++ AT :: b) = Ok (Some a, b).
Proof. intros a b Ha Hb. unfold sep_at. rewrite (split_at_app a b Ha), (split_at_noat b Hb). reflexivity. Qed.

Lemma dec_aux_noat : forall f n acc, noat acc = true -> noat (dec_aux f n acc) = true.
Proof.
  induction f as [|f IH]; intros n acc H; [exact H|].
  cbn [dec_aux]. pose proof (N.mod_lt n 10 ten_nz) as Hm.
  assert (H2 : noat ((48 + n mod 10) :: acc) = true).
  { cbn [noat forallb]. fold (noat acc). rewrite H.
    replace (48 + n mod 10 =? AT) with false; [reflexivity|].
    symmetry. apply N.eqb_neq. unfold AT. lia. }
  destruct (n / 10 =? 0); [exact H2|]. apply IH. exact H2.
Qed.
Lemma dec_noat : forall n, noat (dec n) = true.
Proof. intros n. Transparent dec. unfold dec. Opaque dec. apply dec_aux_noat. reflexivity. Qed.

Lemma prob_ok_spec : forall w, prob_ok w = true -> 1 <= w /\ w <= U32_MAX.
Proof. intros w H. unfold prob_ok in H. apply andb_prop in H. destruct H as [A B]. apply N.leb_le in A, B. auto. Qed.

Lemma pnn_dec : forall w, prob_ok w = true -> parse_num_nonzero (dec w) = Ok w.
Proof.
  intros w H. destruct (prob_ok_spec w H) as [H1 H2].
  pose proof (parse_num_dec w H2) as E. unfold parse_num in E. unfold parse_num_nonzero. cbv zeta.
  destruct (tb_eqb (dec w) n_0).
  - inversion E. lia.
  - destruct (dec w) as [|c r].
    + rewrite E. reflexivity.
    + destruct ((49 <=? c) && (c <=? 57)); [rewrite E; reflexivity | discriminate].
Qed.

Lemma dval_ge : forall s acc v, dval s acc = Some v -> acc <= v.
Proof.
  induction s as [|c r IH]; intros acc v H.
  - inversion H. lia.
  - cbn [dval] in H. destruct (is_digit c); [|discriminate]. apply IH in H. lia.
Qed.

Lemma pnn_spec : forall s v, parse_num_nonzero s = Ok v -> prob_ok v = true.
Proof.
  intros s v H. unfold parse_num_nonzero in H. cbv zeta in H.
  destruct (tb_eqb s n_0); [discriminate|].
  destruct s as [|c r].
  - cbn in H. discriminate.
  - destruct ((49 <=? c) && (c <=? 57)) eqn:Ec; [|discriminate].
    unfold u32_from_str in H. destruct (dval (c :: r) 0) as [x|] eqn:Ed; [|discriminate].
    destruct (x <=? U32_MAX) eqn:Ex; [|discriminate]. inversion H; subst.
    apply andb_prop in Ec. destruct Ec as [E1 E2]. apply N.leb_le in E1, E2.
    cbn [dval] in Ed. assert (Hd : is_digit c = true).
    { unfold is_digit. apply andb_true_intro. split; apply N.leb_le; lia. }
    rewrite Hd in Ed. apply dval_ge in Ed.
    unfold prob_ok. rewrite Ex. apply andb_true_intro. split; [apply N.leb_le; lia | reflexivity].
Qed.

Lemma lock_ok_le : forall t, lock_ok t = true -> t <= U32_MAX.
Proof.
  intros t H. unfold lock_ok in H. apply andb_prop in H. destruct H as [_ B]. apply N.leb_le in B.
  unfold U32_MAX. lia.
Qed.

Lemma gpop_n_app : forall A (xs st : list A), gpop_n (length xs) (xs ++ st) = Ok (xs, st).
Proof.
  induction xs as [|x r IH]; intros st; [reflexivity|].
  cbn [length app gpop_n gpop obind]. rewrite IH. reflexivity.
Qed.

Lemma gpop_n_spec : forall A n (st l r : list A), gpop_n n st = Ok (l, r) -> st = l ++ r /\ length l = n.
Proof.
  induction n as [|n IH]; intros st l r H.
  - cbn in H. inversion H. auto.
  - cbn [gpop_n] in H. destruct st as [|m st]; [discriminate|]. cbn [gpop obind] in H.
    destruct (gpop_n n st) as [[l' r']| |] eqn:E; cbn [obind] in H; try discriminate.
    inversion H; subst. destruct (IH _ _ _ E) as [-> <-]. auto.
Qed.

Lemma hc_fnode : forall name kids, existsb has_curly kids = false -> has_curly (fnode name kids) = false.
Proof. intros name kids H. unfold fnode. destruct kids; [reflexivity|]. cbn [has_curly orb]. exact H. Qed.

Section PolTextProofs.
Variable print_key : N -> tbytes.
Variable parse_key : tbytes -> option N.
Variable print_hash : phk -> N -> tbytes.
Variable parse_hash : phk -> tbytes -> option N.
Hypothesis key_rt : forall k, parse_key (print_key k) = Some k.
Hypothesis hash_rt : forall h v, parse_hash h (print_hash h v) = Some v.

Notation leaf_tree := (leaf_tree print_key print_hash).
Notation leaf_frag := (leaf_frag parse_key parse_hash).
Notation conc_to_tree := (conc_to_tree print_key print_hash).
Notation sem_to_tree := (sem_to_tree print_key print_hash).
Notation cfrag := (cfrag parse_key parse_hash).
Notation cstep := (cstep parse_key parse_hash).
Notation crun := (crun parse_key parse_hash).
Notation conc_from_tree := (conc_from_tree parse_key parse_hash).
Notation sfrag := (sfrag parse_key parse_hash).
Notation sstep := (sstep parse_key parse_hash).
Notation srun := (srun parse_key parse_hash).
Notation sem_from_tree := (sem_from_tree parse_key parse_hash).

(* ------------------------------------------------------------------ the terminals, once for both types *)
(* root name, kind and children of a printed terminal *)
Definition leaf_name (l : pleaf) : tbytes :=
  match l with
  | LUnsat => n_UNSAT | LTriv => n_TRIVIAL | LKey _ => n_pk | LAfter _ => n_after | LOlder _ => n_older
  | LHash h _ => hash_name h
  end.
Definition leaf_kind (l : pleaf) : pkind :=
  match l with
  | LUnsat => KUnsat | LTriv => KTriv | LKey _ => KPk | LAfter _ => KAfter | LOlder _ => KOlder
  | LHash h _ => KHash h
  end.
Definition leaf_par (l : pleaf) : parens := match l with LUnsat | LTriv => PNone | _ => PRound end.
Definition leaf_kids (l : pleaf) : list etree :=
  match l with
  | LUnsat | LTriv => []
  | LKey k => [leaf (print_key k)]
  | LAfter t | LOlder t => [leaf (dec t)]
  | LHash h v => [leaf (print_hash h v)]
  end.

Lemma leaf_tree_eq : forall l, leaf_tree l = ENode (leaf_name l) (leaf_par l) (leaf_kids l).
Proof. destruct l; reflexivity. Qed.
Lemma leaf_name_kind : forall l, pkind_of_name (leaf_name l) = Some (leaf_kind l).
Proof. destruct l; try reflexivity. destruct h; reflexivity. Qed.
Lemma leaf_name_noat : forall l, noat (leaf_name l) = true.
Proof. destruct l; try reflexivity. destruct h; reflexivity. Qed.
Lemma leaf_kids_shape : forall l, leaf_kids l = [] \/ exists s, leaf_kids l = [leaf s].
Proof. destruct l; cbn; eauto. Qed.

Lemma leaf_frag_printed : forall l, leaf_ok l = true -> leaf_frag (leaf_kind l) (leaf_kids l) = Some (Ok l).
Proof.
  destruct l; intros H; cbn [leaf_kind leaf_kids PolTextModel.leaf_frag]; try reflexivity.
  - unfold verify_terminal_parent, verify_terminal, leaf. cbn [n_kids length t_name]. rewrite key_rt. reflexivity.
  - unfold verify_lock, leaf. cbn [n_kids length t_name]. cbn [leaf_ok] in H.
    rewrite (parse_num_dec t (lock_ok_le t H)). rewrite H. reflexivity.
  - unfold verify_lock, leaf. cbn [n_kids length t_name]. cbn [leaf_ok] in H.
    rewrite (parse_num_dec t (lock_ok_le t H)). rewrite H. reflexivity.
  - unfold verify_terminal_parent, verify_terminal, leaf. cbn [n_kids length t_name]. rewrite hash_rt. reflexivity.
Qed.

Lemma leaf_frag_valid : forall f kids l, leaf_frag f kids = Some (Ok l) -> leaf_ok l = true.
Proof.
  intros f kids l H. destruct f; cbn [PolTextModel.leaf_frag] in H; try discriminate.
  - destruct kids; inversion H. reflexivity.
  - destruct kids; inversion H. reflexivity.
  - destruct (verify_terminal_parent parse_key kids); cbn in H; inversion H. reflexivity.
  - destruct (verify_lock EAbsLock kids) eqn:E; cbn in H; inversion H. cbn. eapply vlock_spec; exact E.
  - destruct (verify_lock ERelLock kids) eqn:E; cbn in H; inversion H. cbn. eapply vlock_spec; exact E.
  - destruct (verify_terminal_parent (parse_hash h) kids); cbn in H; inversion H. reflexivity.
Qed.

Lemma leaf_frag_composite : forall f kids, leaf_frag f kids = None -> f = KAnd \/ f = KOr \/ f = KThresh.
Proof. intros f kids H. destruct f; cbn in H; try discriminate; auto. Qed.

Lemma hc_leaf_tree : forall l, has_curly (leaf_tree l) = false.
Proof. destruct l; reflexivity. Qed.

Lemma existsb_map_false : forall A (f : A -> etree) (xs : list A),
  Forall (fun x => has_curly (f x) = false) xs -> existsb has_curly (map f xs) = false.
Proof.
  intros A f xs H. induction H as [|x r Hx HF IH]; [reflexivity|]. cbn [map existsb]. rewrite Hx. exact IH.
Qed.

(* ================================================================== semantic *)
Lemma srun_app : forall a b st, srun st (a ++ b) = obind (srun st a) (fun s => srun s b).
Proof.
  induction a as [|x a IH]; intros b st; [reflexivity|].
  cbn [app PolTextModel.srun]. destruct (sstep st x); cbn [obind]; auto.
Qed.

Lemma sstep_node : forall name p kids parent st f new st1,
  sskip parent = false -> pkind_of_name name = Some f -> sfrag f kids st = Ok (new, st1) ->
  sstep st (mkItem name p kids parent) = Ok (new :: st1).
Proof.
  intros. unfold PolTextModel.sstep. cbn [it_parent it_name it_kids]. rewrite H, H0, H1. reflexivity.
Qed.

Lemma srun_only_child : forall st s pn first, srun st (rpo (Some (pn, 1%nat, first)) (leaf s)) = Ok st.
Proof. intros. reflexivity. Qed.

Lemma srun_leaf_kids : forall l st, srun st (rpo_list (leaf_name l) (length (leaf_kids l)) (leaf_kids l) true) = Ok st.
Proof. intros l st. destruct (leaf_kids_shape l) as [E|[s E]]; rewrite E; reflexivity. Qed.

Lemma s_leaf : forall l parent st, leaf_ok l = true -> sskip parent = false ->
  srun st (rpo parent (leaf_tree l)) = Ok (sleaf l :: st).
Proof.
  intros l parent st Hok Hs. rewrite leaf_tree_eq, rpo_eq, srun_app, srun_leaf_kids. cbn [obind PolTextModel.srun].
  rewrite (sstep_node _ _ _ _ _ (leaf_kind l) (sleaf l) st Hs (leaf_name_kind l)); [reflexivity|].
  unfold PolTextModel.sfrag. rewrite (leaf_frag_printed l Hok). reflexivity.
Qed.

Definition Sbody (x : spol) : Prop :=
  forall parent st, sskip parent = false -> srun st (rpo parent (sem_to_tree x)) = Ok (x :: st).

Lemma s_children : forall name n xs st first, n <> 1%nat ->
  (tb_eqb name n_thresh = false \/ first = false) -> Forall Sbody xs ->
  srun st (rpo_list name n (map sem_to_tree xs) first) = Ok (xs ++ st).
Proof.
  intros name n xs. induction xs as [|x r IH]; intros st first Hn Hf HF; [reflexivity|].
  inversion HF as [|? ? Hx Hr]; subst. cbn [map rpo_list]. rewrite srun_app.
  rewrite (IH st false Hn (or_intror eq_refl) Hr). cbn [obind].
  rewrite Hx; [reflexivity|]. cbn [sskip]. apply Nat.eqb_neq in Hn. rewrite Hn.
  destruct Hf as [Hf|Hf]; rewrite Hf; [destruct first|]; reflexivity.
Qed.

Lemma sem_ok_thresh : forall k subs, sem_text_ok (SThresh k subs) = true ->
  (2 <= length subs)%nat /\ (1 <= k)%nat /\ (k <= length subs)%nat /\
  (Nat.eqb k (length subs) = false -> N.of_nat k <= U32_MAX) /\ Forall (fun x => sem_text_ok x = true) subs.
Proof.
  intros k subs H. cbn [sem_text_ok] in H.
  apply andb_prop in H. destruct H as [H H4]. apply andb_prop in H. destruct H as [H H3].
  apply andb_prop in H. destruct H as [H1 H2]. apply Nat.leb_le in H1.
  pose proof (validate_le _ _ _ H2) as Hle. pose proof (validate_pos _ _ _ H2) as Hp.
  repeat split; try lia.
  - intros E. rewrite E in H3. cbn [orb] in H3. apply N.leb_le in H3. exact H3.
  - apply Forall_forall. intros x Hx. rewrite forallb_forall in H4. apply H4. exact Hx.
Qed.

Lemma validate_intro : forall k n, k <> 0 -> k <= N.of_nat n -> validate_k_n 0 k n = true.
Proof.
  intros k n H1 H2. unfold validate_k_n.
  replace (k =? 0) with false by (symmetry; apply N.eqb_neq; exact H1).
  replace (N.of_nat n <? k) with false by (symmetry; apply N.ltb_ge; exact H2).
  reflexivity.
Qed.

Theorem sem_body : forall p, sem_text_ok p = true -> Sbody p.
Proof.
  induction p using spol_ind'; intros Hok;
    try (intros parent st Hs;
         match goal with |- srun _ (rpo _ (sem_to_tree ?q)) = _ =>
           match eval cbv in (s_as_leaf q) with Some ?l => exact (s_leaf l parent st Hok Hs) end end).
  destruct (sem_ok_thresh k subs Hok) as [H2 [H1 [Hle [Hu HF]]]].
  assert (HB : Forall Sbody subs).
  { apply Forall_forall. intros x Hx. rewrite Forall_forall in H, HF. apply H; [exact Hx|]. apply HF. exact Hx. }
  intros parent st Hs. cbn [PolTextModel.sem_to_tree].
  assert (Hne : exists t ts, map sem_to_tree subs = t :: ts).
  { destruct subs as [|x r]; [cbn in H2; lia|]. cbn [map]. eauto. }
  destruct Hne as [t0 [ts0 Em]].
  assert (Hlen : length (map sem_to_tree subs) = length subs) by apply map_length.
  destruct (Nat.eqb k (length subs)) eqn:Ekn; [|destruct (Nat.eqb k 1) eqn:Ek1].
  - (* and *)
    apply Nat.eqb_eq in Ekn. unfold fnode. rewrite Em, <- Em. rewrite rpo_eq, srun_app.
    rewrite (s_children n_and _ subs st true); [|rewrite Hlen; lia|left; reflexivity|exact HB].
    cbn [obind PolTextModel.srun].
    rewrite (sstep_node n_and _ _ _ _ KAnd (SThresh k subs) st Hs eq_refl); [reflexivity|].
    unfold PolTextModel.sfrag. cbn [PolTextModel.leaf_frag]. rewrite Hlen.
    replace (Nat.leb 2 (length subs)) with true by (symmetry; apply Nat.leb_le; exact H2).
    rewrite gpop_n_app. cbn [obind]. rewrite Ekn. reflexivity.
  - (* or *)
    apply Nat.eqb_eq in Ek1. unfold fnode. rewrite Em, <- Em. rewrite rpo_eq, srun_app.
    rewrite (s_children n_or _ subs st true); [|rewrite Hlen; lia|left; reflexivity|exact HB].
    cbn [obind PolTextModel.srun].
    rewrite (sstep_node n_or _ _ _ _ KOr (SThresh k subs) st Hs eq_refl); [reflexivity|].
    unfold PolTextModel.sfrag. cbn [PolTextModel.leaf_frag]. rewrite Hlen.
    replace (Nat.leb 2 (length subs)) with true by (symmetry; apply Nat.leb_le; exact H2).
    rewrite gpop_n_app. cbn [obind]. rewrite Ek1. reflexivity.
  - (* thresh *)
    apply Nat.eqb_neq in Ekn, Ek1. unfold fnode. rewrite rpo_eq. cbn [length rpo_list]. rewrite !srun_app.
    rewrite (s_children n_thresh _ subs st false); [|rewrite Hlen; lia|right; reflexivity|exact HB].
    cbn [obind]. rewrite Hlen.
    replace (srun (subs ++ st) (rpo (Some (n_thresh, S (length subs), true)) (leaf (dec (N.of_nat k)))))
      with (@Ok pol_err _ (subs ++ st)).
    2:{ cbn [rpo leaf app PolTextModel.srun]. unfold PolTextModel.sstep. cbn [it_parent sskip].
        destruct (length subs); reflexivity. }
    cbn [obind PolTextModel.srun].
    rewrite (sstep_node n_thresh _ _ _ _ KThresh (SThresh k subs) st Hs eq_refl); [reflexivity|].
    unfold PolTextModel.sfrag. cbn [PolTextModel.leaf_frag]. unfold verify_threshold, leaf.
    cbn [n_kids length t_name]. rewrite (parse_num_dec _ (Hu eq_refl)). rewrite ?Hlen.
    rewrite validate_intro by lia. cbn [lift_ms obind]. rewrite ?Hlen. rewrite gpop_n_app. cbn [obind].
    replace (N.of_nat k =? 1) with false by (symmetry; apply N.eqb_neq; lia).
    replace (N.of_nat k =? N.of_nat (length subs)) with false by (symmetry; apply N.eqb_neq; lia).
    rewrite Nat2N.id. reflexivity.
Qed.

Lemma hc_sem : forall p, has_curly (sem_to_tree p) = false.
Proof.
  induction p using spol_ind'; try reflexivity.
  cbn [PolTextModel.sem_to_tree].
  assert (E : existsb has_curly (map sem_to_tree subs) = false) by (apply existsb_map_false; exact H).
  destruct (Nat.eqb k (length subs)); [|destruct (Nat.eqb k 1)]; apply hc_fnode; cbn [existsb]; exact E.
Qed.

Theorem sem_print_parse : forall p, sem_text_ok p = true -> sem_from_tree (sem_to_tree p) = Ok p.
Proof.
  intros p H. unfold PolTextModel.sem_from_tree. rewrite hc_sem.
  rewrite (sem_body p H None [] eq_refl). reflexivity.
Qed.

(* ---- whatever the semantic parser returns satisfies its own checks *)
Definition oks (p : spol) : Prop := sem_text_ok p = true.

Lemma sem_ok_leaf : forall l, sem_text_ok (sleaf l) = leaf_ok l.
Proof. destruct l; try reflexivity. destruct h; reflexivity. Qed.

Lemma Forall_app_inv : forall A (P : A -> Prop) l r, Forall P (l ++ r) -> Forall P l /\ Forall P r.
Proof. intros. apply Forall_app. exact H. Qed.

Lemma forallb_of_Forall : forall A (f : A -> bool) l, Forall (fun x => f x = true) l -> forallb f l = true.
Proof. intros A f l H. apply forallb_forall. rewrite Forall_forall in H. exact H. Qed.

Lemma sfrag_ok : forall f kids st new st1, sfrag f kids st = Ok (new, st1) -> Forall oks st ->
  oks new /\ Forall oks st1.
Proof.
  intros f kids st new st1 H HF. unfold PolTextModel.sfrag in H.
  destruct (leaf_frag f kids) as [o|] eqn:El.
  - destruct o as [l| |]; cbn in H; inversion H; subst. split; [|exact HF].
    unfold oks. rewrite sem_ok_leaf. eapply leaf_frag_valid; exact El.
  - destruct (leaf_frag_composite _ _ El) as [->|[->| ->]].
    + destruct (Nat.leb 2 (length kids)) eqn:E2; [|discriminate]. apply Nat.leb_le in E2.
      destruct (gpop_n (length kids) st) as [[subs r]| |] eqn:Ep; cbn [obind] in H; inversion H; subst.
      destruct (gpop_n_spec _ _ _ _ _ Ep) as [-> Hl]. destruct (Forall_app_inv _ _ _ _ HF) as [Fa Fb].
      split; [|exact Fb]. unfold oks. cbn [sem_text_ok]. rewrite Hl, Nat.eqb_refl. cbn [orb].
      replace (Nat.leb 2 (length kids)) with true by (symmetry; apply Nat.leb_le; exact E2).
      rewrite validate_intro by lia. rewrite (forallb_of_Forall _ _ _ Fa). reflexivity.
    + destruct (Nat.leb 2 (length kids)) eqn:E2; [|discriminate]. apply Nat.leb_le in E2.
      destruct (gpop_n (length kids) st) as [[subs r]| |] eqn:Ep; cbn [obind] in H; inversion H; subst.
      destruct (gpop_n_spec _ _ _ _ _ Ep) as [-> Hl]. destruct (Forall_app_inv _ _ _ _ HF) as [Fa Fb].
      split; [|exact Fb]. unfold oks. cbn [sem_text_ok]. rewrite Hl.
      replace (Nat.leb 2 (length kids)) with true by (symmetry; apply Nat.leb_le; exact E2).
      rewrite validate_intro by (cbn; lia). rewrite (forallb_of_Forall _ _ _ Fa).
      rewrite orb_true_r. reflexivity.
    + destruct (verify_threshold 0 kids) as [[k rest]| |] eqn:Ev; cbn [lift_ms obind] in H; try discriminate.
      destruct (vth_spec _ _ _ _ Ev) as [Hv Hu].
      destruct (gpop_n (length rest) st) as [[subs r]| |] eqn:Ep; cbn [obind] in H; try discriminate.
      destruct (k =? 1) eqn:E1; [discriminate|]. destruct (k =? N.of_nat (length rest)) eqn:En; [discriminate|].
      inversion H; subst. destruct (gpop_n_spec _ _ _ _ _ Ep) as [-> Hl]. destruct (Forall_app_inv _ _ _ _ HF) as [Fa Fb].
      split; [|exact Fb]. apply N.eqb_neq in E1, En.
      pose proof (validate_le _ _ _ Hv) as Hle. pose proof (validate_pos _ _ _ Hv) as Hp.
      unfold oks. cbn [sem_text_ok]. rewrite Hl, N2Nat.id, Hv.
      replace (Nat.leb 2 (length rest)) with true by (symmetry; apply Nat.leb_le; lia).
      replace (k <=? U32_MAX) with true by (symmetry; apply N.leb_le; exact Hu).
      rewrite orb_true_r. rewrite (forallb_of_Forall _ _ _ Fa). reflexivity.
Qed.

Lemma sstep_ok : forall st it st', sstep st it = Ok st' -> Forall oks st -> Forall oks st'.
Proof.
  intros st it st' H HF. unfold PolTextModel.sstep in H. destruct (sskip (it_parent it)).
  - inversion H; subst. exact HF.
  - destruct (pkind_of_name (it_name it)) as [f|]; [|discriminate].
    destruct (sfrag f (it_kids it) st) as [[new st1]| |] eqn:E; cbn [obind] in H; inversion H; subst.
    destruct (sfrag_ok _ _ _ _ _ E HF) as [A B]. constructor; assumption.
Qed.

Lemma srun_ok : forall items st st', srun st items = Ok st' -> Forall oks st -> Forall oks st'.
Proof.
  induction items as [|it r IH]; intros st st' H HF.
  - inversion H; subst. exact HF.
  - cbn [PolTextModel.srun] in H. destruct (sstep st it) as [s1| |] eqn:E; cbn [obind] in H; try discriminate.
    eapply IH; [exact H|]. eapply sstep_ok; eauto.
Qed.

Theorem sem_parse_valid : forall t p, sem_from_tree t = Ok p -> sem_text_ok p = true.
Proof.
  intros t p H. unfold PolTextModel.sem_from_tree in H. destruct (has_curly t); [discriminate|].
  destruct (srun [] (rpo None t)) as [s| |] eqn:E; try discriminate.
  destruct s as [|x [|? ?]]; try discriminate. inversion H; subst.
  pose proof (srun_ok _ _ _ E (Forall_nil _)) as F. inversion F; subst. assumption.
Qed.

Theorem sem_print_fixpoint : forall t p, sem_from_tree t = Ok p ->
  sem_from_tree (sem_to_tree p) = Ok p /\
  (forall q, sem_from_tree (sem_to_tree p) = Ok q -> sem_to_tree q = sem_to_tree p).
Proof.
  intros t p H. pose proof (sem_print_parse p (sem_parse_valid t p H)) as E. split; [exact E|].
  intros q Hq. rewrite E in Hq. inversion Hq. reflexivity.
Qed.

Theorem sem_printed_never_panics : forall p, sem_text_ok p = true ->
  forall s, sem_from_tree (sem_to_tree p) <> Panic s.
Proof. intros p H s. rewrite (sem_print_parse p H). discriminate. Qed.

(* ================================================================== concrete *)
Lemma crun_app : forall a b st, crun st (a ++ b) = obind (crun st a) (fun s => crun s b).
Proof.
  induction a as [|x a IH]; intros b st; [reflexivity|].
  cbn [app PolTextModel.crun]. destruct (cstep st x); cbn [obind]; auto.
Qed.

(* the root name as written under an `or` (b = true: with the odds in front) or elsewhere *)
Definition pname (b : bool) (w : N) (name : tbytes) : tbytes := if b then dec w ++ AT :: name else name.
Definition wprob (b : bool) (w : N) (t : etree) : etree := if b then with_prob w t else t.
Definition wgt (b : bool) (w : N) : N := if b then w else 1.

Lemma wprob_node : forall b w name p kids, wprob b w (ENode name p kids) = ENode (pname b w name) p kids.
Proof. destruct b; reflexivity. Qed.

Lemma sep_pname : forall b w name, noat name = true ->
  sep_at (pname b w name) = Ok (if b then Some (dec w) else None, name).
Proof.
  intros b w name H. destruct b; cbn [pname].
  - apply sep_at_full; [apply dec_noat | exact H].
  - apply sep_at_plain. exact H.
Qed.

Lemma cskip_child : forall b w name n first, noat name = true -> n <> 1%nat ->
  first && tb_eqb name n_thresh = false ->
  cskip (Some (pname b w name, n, first)) = Ok (Some (tb_eqb name n_or)).
Proof.
  intros b w name n first Hn H1 Hf. cbn [cskip]. apply Nat.eqb_neq in H1. rewrite H1.
  rewrite (sep_pname b w name Hn). cbn [obind]. rewrite Hf. reflexivity.
Qed.

Lemma cstep_node : forall b w name p kids parent st f new st1,
  cskip parent = Ok (Some b) -> (b = true -> prob_ok w = true) -> noat name = true ->
  pkind_of_name name = Some f -> cfrag f kids st = Ok (new, st1) ->
  cstep st (mkItem (pname b w name) p kids parent) = Ok ((wgt b w, new) :: st1).
Proof.
  intros b w name p kids parent st f new st1 Hs Hw Hn Hk Hf.
  unfold PolTextModel.cstep. cbn [it_parent it_name it_kids]. rewrite Hs. cbn [obind].
  destruct b; cbn [pname wgt].
  - rewrite (sep_at_full _ _ (dec_noat w) Hn). cbn [obind]. rewrite (pnn_dec w (Hw eq_refl)). cbn [obind].
    rewrite Hk, Hf. reflexivity.
  - cbn [obind]. rewrite Hk, Hf. reflexivity.
Qed.

Lemma crun_leaf_kids : forall l nm st, crun st (rpo_list nm (length (leaf_kids l)) (leaf_kids l) true) = Ok st.
Proof. intros l nm st. destruct (leaf_kids_shape l) as [E|[s E]]; rewrite E; reflexivity. Qed.

Definition Cbody (x : wpol) : Prop :=
  forall parent b w st, cskip parent = Ok (Some b) -> (b = true -> prob_ok w = true) ->
  crun st (rpo parent (wprob b w (conc_to_tree x))) = Ok ((wgt b w, x) :: st).

Lemma c_leaf : forall l, leaf_ok l = true -> Cbody (WLeaf l).
Proof.
  intros l Hok parent b w st Hs Hw. cbn [PolTextModel.conc_to_tree].
  rewrite leaf_tree_eq, wprob_node, rpo_eq, crun_app, crun_leaf_kids. cbn [obind PolTextModel.crun].
  rewrite (cstep_node b w (leaf_name l) _ _ _ _ (leaf_kind l) (WLeaf l) st Hs Hw (leaf_name_noat l) (leaf_name_kind l));
    [reflexivity|].
  unfold PolTextModel.cfrag. rewrite (leaf_frag_printed l Hok). reflexivity.
Qed.

Lemma c_children : forall pb pw n xs st, n <> 1%nat -> Forall Cbody xs ->
  crun st (rpo_list (pname pb pw n_thresh) n (map conc_to_tree xs) false) = Ok (map (fun x => (1, x)) xs ++ st).
Proof.
  intros pb pw n xs. induction xs as [|x r IH]; intros st Hn HF; [reflexivity|].
  inversion HF as [|? ? Hx Hr]; subst. cbn [map rpo_list]. rewrite crun_app.
  rewrite (IH st Hn Hr). cbn [obind].
  rewrite (Hx _ false 1 _ (cskip_child pb pw n_thresh n false eq_refl Hn eq_refl)); [reflexivity|discriminate].
Qed.

Lemma conc_ok_thresh : forall k subs, conc_text_ok (WThresh k subs) = true ->
  k <> 0 /\ k <= N.of_nat (length subs) /\ k <= U32_MAX /\ Forall (fun x => conc_text_ok x = true) subs.
Proof.
  intros k subs H. cbn [conc_text_ok] in H.
  apply andb_prop in H. destruct H as [H H3]. apply andb_prop in H. destruct H as [H1 H2].
  repeat split.
  - eapply validate_pos; exact H1.
  - eapply validate_le; exact H1.
  - apply N.leb_le. exact H2.
  - apply Forall_forall. intros x Hx. rewrite forallb_forall in H3. apply H3. exact Hx.
Qed.

Lemma two_ne_one : 2%nat <> 1%nat. Proof. discriminate. Qed.

Theorem conc_body : forall p, conc_text_ok p = true -> Cbody p.
Proof.
  induction p using wpol_ind'; intros Hok.
  - apply c_leaf. exact Hok.
  - (* and *)
    cbn [conc_text_ok] in Hok. apply andb_prop in Hok. destruct Hok as [Hl Hf].
    destruct subs as [|x [|y [|z r]]]; try discriminate.
    cbn [forallb] in Hf. apply andb_prop in Hf. destruct Hf as [Hx Hf]. apply andb_prop in Hf. destruct Hf as [Hy _].
    inversion H as [|? ? Bx H']; subst. inversion H' as [|? ? By _]; subst.
    intros parent b w st Hs Hw. cbn [PolTextModel.conc_to_tree map]. unfold fnode.
    rewrite wprob_node, rpo_eq. cbn [length rpo_list app]. rewrite !crun_app.
    rewrite (By Hy _ false 1 _ (cskip_child b w n_and 2 false eq_refl two_ne_one eq_refl)); [|discriminate].
    cbn [obind wprob].
    rewrite (Bx Hx _ false 1 _ (cskip_child b w n_and 2 true eq_refl two_ne_one eq_refl)); [|discriminate].
    cbn [obind PolTextModel.crun wgt].
    rewrite (cstep_node b w n_and _ _ _ _ KAnd (WAnd [x; y]) st Hs Hw eq_refl eq_refl); reflexivity.
  - (* or *)
    cbn [conc_text_ok] in Hok. apply andb_prop in Hok. destruct Hok as [Hl Hf].
    destruct subs as [|[wx x] [|[wy y] [|z r]]]; try discriminate.
    cbn [forallb] in Hf. apply andb_prop in Hf. destruct Hf as [Hx Hf]. apply andb_prop in Hf. destruct Hf as [Hy _].
    apply andb_prop in Hx. destruct Hx as [Wx Hx]. apply andb_prop in Hy. destruct Hy as [Wy Hy].
    inversion H as [|? ? Bx H']; subst. inversion H' as [|? ? By _]; subst. cbn [snd] in Bx, By.
    intros parent b w st Hs Hw. cbn [PolTextModel.conc_to_tree map]. unfold fnode.
    rewrite wprob_node, rpo_eq. cbn [length rpo_list app]. rewrite !crun_app.
    change (with_prob wy (conc_to_tree y)) with (wprob true wy (conc_to_tree y)).
    change (with_prob wx (conc_to_tree x)) with (wprob true wx (conc_to_tree x)).
    rewrite (By Hy _ true wy _ (cskip_child b w n_or 2 false eq_refl two_ne_one eq_refl) (fun _ => Wy)).
    cbn [obind].
    rewrite (Bx Hx _ true wx _ (cskip_child b w n_or 2 true eq_refl two_ne_one eq_refl) (fun _ => Wx)).
    cbn [obind PolTextModel.crun wgt].
    rewrite (cstep_node b w n_or _ _ _ _ KOr (WOr [(wx, x); (wy, y)]) st Hs Hw eq_refl eq_refl); reflexivity.
  - (* thresh *)
    destruct (conc_ok_thresh k subs Hok) as [Hp [Hle [Hu HF]]].
    assert (HB : Forall Cbody subs).
    { apply Forall_forall. intros x Hx. rewrite Forall_forall in H, HF. apply H; [exact Hx|]. apply HF. exact Hx. }
    assert (Hlen : length (map conc_to_tree subs) = length subs) by apply map_length.
    assert (E1 : Nat.eqb (S (length subs)) 1 = false).
    { destruct subs; [cbn in Hle; lia | reflexivity]. }
    intros parent b w st Hs Hw. cbn [PolTextModel.conc_to_tree]. unfold fnode.
    rewrite wprob_node, rpo_eq. cbn [length rpo_list]. rewrite !crun_app.
    rewrite (c_children b w _ subs st); [|rewrite Hlen; apply Nat.eqb_neq; exact E1 | exact HB].
    cbn [obind]. rewrite Hlen.
    replace (crun (map (fun x => (1, x)) subs ++ st)
                  (rpo (Some (pname b w n_thresh, S (length subs), true)) (leaf (dec k))))
      with (@Ok pol_err _ (map (fun x : wpol => (1, x)) subs ++ st)).
    2:{ cbn [rpo leaf app PolTextModel.crun]. unfold PolTextModel.cstep. cbn [it_parent cskip].
        rewrite E1. rewrite (sep_pname b w n_thresh eq_refl). reflexivity. }
    cbn [obind PolTextModel.crun].
    rewrite (cstep_node b w n_thresh _ _ _ _ KThresh (WThresh k subs) st Hs Hw eq_refl eq_refl); [reflexivity|].
    unfold PolTextModel.cfrag. cbn [PolTextModel.leaf_frag]. unfold verify_threshold, leaf.
    cbn [n_kids length t_name]. rewrite (parse_num_dec _ Hu). rewrite ?Hlen.
    rewrite validate_intro by assumption. cbn [lift_ms obind]. rewrite ?Hlen.
    rewrite <- (map_length (fun x : wpol => (1, x)) subs). rewrite gpop_n_app. cbn [obind].
    rewrite map_map. cbn [snd]. rewrite map_id. reflexivity.
Qed.

Lemma hc_with_prob : forall w t, has_curly (with_prob w t) = has_curly t.
Proof. intros w [name p kids]. reflexivity. Qed.

Lemma hc_conc : forall p, has_curly (conc_to_tree p) = false.
Proof.
  induction p using wpol_ind'; cbn [PolTextModel.conc_to_tree].
  - apply hc_leaf_tree.
  - apply hc_fnode. apply existsb_map_false. exact H.
  - apply hc_fnode. apply existsb_map_false. eapply Forall_impl; [|exact H].
    intros [w q] Hq. cbn [snd] in Hq. rewrite hc_with_prob. exact Hq.
  - apply hc_fnode. cbn [existsb leaf has_curly orb]. apply existsb_map_false. exact H.
Qed.

Theorem conc_print_parse : forall p, conc_text_ok p = true -> conc_from_tree (conc_to_tree p) = Ok p.
Proof.
  intros p H. unfold PolTextModel.conc_from_tree. rewrite hc_conc.
  assert (E : crun [] (rpo None (conc_to_tree p)) = Ok [(1, p)]).
  { apply (conc_body p H None false 1 [] eq_refl). discriminate. }
  rewrite E. reflexivity.
Qed.

(* ---- whatever the concrete parser returns satisfies its own checks *)
Definition okc (wp : N * wpol) : Prop := prob_ok (fst wp) && conc_text_ok (snd wp) = true.

Lemma okc_snd : forall l, Forall okc l -> forallb conc_text_ok (map snd l) = true.
Proof.
  intros l H. induction H as [|x r Hx HF IH]; [reflexivity|]. cbn [map forallb]. rewrite IH.
  unfold okc in Hx. apply andb_prop in Hx. destruct Hx as [_ Hx]. rewrite Hx. reflexivity.
Qed.

Lemma cfrag_ok : forall f kids st new st1, cfrag f kids st = Ok (new, st1) -> Forall okc st ->
  conc_text_ok new = true /\ Forall okc st1.
Proof.
  intros f kids st new st1 H HF. unfold PolTextModel.cfrag in H.
  destruct (leaf_frag f kids) as [o|] eqn:El.
  - destruct o as [l| |]; cbn in H; inversion H; subst. split; [|exact HF].
    cbn [conc_text_ok]. eapply leaf_frag_valid; exact El.
  - destruct (leaf_frag_composite _ _ El) as [->|[->| ->]].
    + destruct kids as [|a [|b [|c r]]]; try discriminate.
      destruct st as [|x [|y st2]]; try discriminate. cbn [gpop obind] in H. inversion H; subst.
      inversion HF as [|? ? Hx HF']; subst. inversion HF' as [|? ? Hy HF'']; subst. split; [|exact HF''].
      unfold okc in Hx, Hy. apply andb_prop in Hx, Hy. destruct Hx as [_ Hx]. destruct Hy as [_ Hy].
      cbn [conc_text_ok length Nat.eqb forallb andb]. rewrite Hx, Hy. reflexivity.
    + destruct kids as [|a [|b [|c r]]]; try discriminate.
      destruct st as [|x [|y st2]]; try discriminate. cbn [gpop obind] in H. inversion H; subst.
      inversion HF as [|? ? Hx HF']; subst. inversion HF' as [|? ? Hy HF'']; subst. split; [|exact HF''].
      destruct x as [wx x], y as [wy y]. unfold okc in Hx, Hy. cbn [fst snd] in Hx, Hy.
      cbn [conc_text_ok length Nat.eqb forallb andb]. rewrite Hx, Hy. reflexivity.
    + destruct (verify_threshold 0 kids) as [[k rest]| |] eqn:Ev; cbn [lift_ms obind] in H; try discriminate.
      destruct (vth_spec _ _ _ _ Ev) as [Hv Hu].
      destruct (gpop_n (length rest) st) as [[subs r]| |] eqn:Ep; cbn [obind] in H; try discriminate.
      inversion H; subst. destruct (gpop_n_spec _ _ _ _ _ Ep) as [-> Hl]. destruct (Forall_app_inv _ _ _ _ HF) as [Fa Fb].
      split; [|exact Fb]. cbn [conc_text_ok]. rewrite map_length, Hl, Hv.
      replace (k <=? U32_MAX) with true by (symmetry; apply N.leb_le; exact Hu).
      rewrite (okc_snd _ Fa). reflexivity.
Qed.

Lemma cstep_ok : forall st it st', cstep st it = Ok st' -> Forall okc st -> Forall okc st'.
Proof.
  intros st it st' H HF. unfold PolTextModel.cstep in H.
  destruct (cskip (it_parent it)) as [o| |]; cbn [obind] in H; try discriminate.
  destruct o as [b|]; [|inversion H; subst; exact HF].
  destruct (if b then sep_at (it_name it) else Ok (None, it_name it)) as [[fp nm]| |]; cbn [obind] in H; try discriminate.
  destruct (match fp with None => Ok 1 | Some s => parse_num_nonzero s end) as [prob| |] eqn:Ep;
    cbn [obind] in H; try discriminate.
  assert (Hp : prob_ok prob = true).
  { destruct fp as [s|]; [eapply pnn_spec; exact Ep | inversion Ep; reflexivity]. }
  destruct (pkind_of_name nm) as [f|]; [|discriminate].
  destruct (cfrag f (it_kids it) st) as [[new st1]| |] eqn:E; cbn [obind] in H; inversion H; subst.
  destruct (cfrag_ok _ _ _ _ _ E HF) as [A B]. constructor; [|exact B].
  unfold okc. cbn [fst snd]. rewrite Hp, A. reflexivity.
Qed.

Lemma crun_ok : forall items st st', crun st items = Ok st' -> Forall okc st -> Forall okc st'.
Proof.
  induction items as [|it r IH]; intros st st' H HF.
  - inversion H; subst. exact HF.
  - cbn [PolTextModel.crun] in H. destruct (cstep st it) as [s1| |] eqn:E; cbn [obind] in H; try discriminate.
    eapply IH; [exact H|]. eapply cstep_ok; eauto.
Qed.

Theorem conc_parse_valid : forall t p, conc_from_tree t = Ok p -> conc_text_ok p = true.
Proof.
  intros t p H. unfold PolTextModel.conc_from_tree in H. destruct (has_curly t); [discriminate|].
  destruct (crun [] (rpo None t)) as [s| |] eqn:E; try discriminate.
  destruct s as [|[w x] [|? ?]]; try discriminate. inversion H; subst.
  pose proof (crun_ok _ _ _ E (Forall_nil _)) as F. inversion F as [|? ? Hx _]; subst.
  unfold okc in Hx. apply andb_prop in Hx. destruct Hx as [_ Hx]. exact Hx.
Qed.

Theorem conc_print_fixpoint : forall t p, conc_from_tree t = Ok p ->
  conc_from_tree (conc_to_tree p) = Ok p /\
  (forall q, conc_from_tree (conc_to_tree p) = Ok q -> conc_to_tree q = conc_to_tree p).
Proof.
  intros t p H. pose proof (conc_print_parse p (conc_parse_valid t p H)) as E. split; [exact E|].
  intros q Hq. rewrite E in Hq. inversion Hq. reflexivity.
Qed.

Theorem conc_printed_never_panics : forall p, conc_text_ok p = true ->
  forall s, conc_from_tree (conc_to_tree p) <> Panic s.
Proof. intros p H s. rewrite (conc_print_parse p H). discriminate. Qed.

End PolTextProofs.
