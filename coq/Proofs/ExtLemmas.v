(* C09: basic lemmas — additivity of the measures, stacks of combined satisfactions,
   preservation of [bounded] by the combinators of the satisfier. *)
From Coq Require Import Lia.
From Verif Require Import TypeCheck ExtModel ExtProofs.
Local Open Scope N_scope.

Arguments N.add : simpl never. Arguments N.mul : simpl never. Arguments N.sub : simpl never.
Arguments N.max : simpl never. Arguments N.of_nat : simpl never. Arguments N.leb : simpl never.
Arguments N.ltb : simpl never. Arguments N.eqb : simpl never.

(* ---- induction principle for the nested AST (local copy of the one in TheoremA.v) *)
Section MsIndExt.
  Variable P : ms -> Prop.
  Hypothesis HTrue : P MTrue. Hypothesis HFalse : P MFalse.
  Hypothesis HPkK : forall k, P (MPkK k). Hypothesis HPkH : forall k, P (MPkH k).
  Hypothesis HRaw : forall h, P (MRawPkH h).
  Hypothesis HAfter : forall t, P (MAfter t). Hypothesis HOlder : forall t, P (MOlder t).
  Hypothesis HSha : forall h, P (MSha256 h). Hypothesis HH256 : forall h, P (MHash256 h).
  Hypothesis HRip : forall h, P (MRipemd160 h). Hypothesis HH160 : forall h, P (MHash160 h).
  Hypothesis HAlt : forall x, P x -> P (MAlt x). Hypothesis HSwap : forall x, P x -> P (MSwap x).
  Hypothesis HCheck : forall x, P x -> P (MCheck x). Hypothesis HDupIf : forall x, P x -> P (MDupIf x).
  Hypothesis HVerify : forall x, P x -> P (MVerify x). Hypothesis HNonZero : forall x, P x -> P (MNonZero x).
  Hypothesis HZne : forall x, P x -> P (MZeroNotEqual x).
  Hypothesis HAndV : forall x y, P x -> P y -> P (MAndV x y).
  Hypothesis HAndB : forall x y, P x -> P y -> P (MAndB x y).
  Hypothesis HAndOr : forall a b c, P a -> P b -> P c -> P (MAndOr a b c).
  Hypothesis HOrB : forall x y, P x -> P y -> P (MOrB x y).
  Hypothesis HOrD : forall x y, P x -> P y -> P (MOrD x y).
  Hypothesis HOrC : forall x y, P x -> P y -> P (MOrC x y).
  Hypothesis HOrI : forall x y, P x -> P y -> P (MOrI x y).
  Hypothesis HThresh : forall k xs, Forall P xs -> P (MThresh k xs).
  Hypothesis HMulti : forall k ks, P (MMulti k ks). Hypothesis HSMulti : forall k ks, P (MSortedMulti k ks).
  Hypothesis HMultiA : forall k ks, P (MMultiA k ks). Hypothesis HSMultiA : forall k ks, P (MSortedMultiA k ks).
  Fixpoint ms_ind_ext (m : ms) : P m :=
    match m with
    | MTrue => HTrue | MFalse => HFalse | MPkK k => HPkK k | MPkH k => HPkH k | MRawPkH h => HRaw h
    | MAfter t => HAfter t | MOlder t => HOlder t
    | MSha256 h => HSha h | MHash256 h => HH256 h | MRipemd160 h => HRip h | MHash160 h => HH160 h
    | MAlt x => HAlt x (ms_ind_ext x) | MSwap x => HSwap x (ms_ind_ext x) | MCheck x => HCheck x (ms_ind_ext x)
    | MDupIf x => HDupIf x (ms_ind_ext x) | MVerify x => HVerify x (ms_ind_ext x)
    | MNonZero x => HNonZero x (ms_ind_ext x) | MZeroNotEqual x => HZne x (ms_ind_ext x)
    | MAndV x y => HAndV x y (ms_ind_ext x) (ms_ind_ext y) | MAndB x y => HAndB x y (ms_ind_ext x) (ms_ind_ext y)
    | MAndOr a b c => HAndOr a b c (ms_ind_ext a) (ms_ind_ext b) (ms_ind_ext c)
    | MOrB x y => HOrB x y (ms_ind_ext x) (ms_ind_ext y) | MOrD x y => HOrD x y (ms_ind_ext x) (ms_ind_ext y)
    | MOrC x y => HOrC x y (ms_ind_ext x) (ms_ind_ext y) | MOrI x y => HOrI x y (ms_ind_ext x) (ms_ind_ext y)
    | MThresh k xs =>
      HThresh k xs ((fix go (l : list ms) : Forall P l :=
                       match l with [] => Forall_nil P | x :: r => Forall_cons x (ms_ind_ext x) (go r) end) xs)
    | MMulti k ks => HMulti k ks | MSortedMulti k ks => HSMulti k ks
    | MMultiA k ks => HMultiA k ks | MSortedMultiA k ks => HSMultiA k ks
    end.
End MsIndExt.

(* ---- measures are additive *)
Lemma ph_sum_cons se x a : ph_sum se (x :: a) = ph_size se x + ph_sum se a.
Proof. reflexivity. Qed.
Lemma ssig_sum_cons se x a : ssig_sum se (x :: a) = ph_ssig se x + ssig_sum se a.
Proof. reflexivity. Qed.
Lemma ph_sum_app se a b : ph_sum se (a ++ b) = ph_sum se a + ph_sum se b.
Proof.
  induction a as [|x a IH]; [cbn [app]; change (ph_sum se []) with 0; lia|].
  cbn [app]. rewrite !ph_sum_cons, IH. lia.
Qed.
Lemma ssig_sum_app se a b : ssig_sum se (a ++ b) = ssig_sum se a + ssig_sum se b.
Proof.
  induction a as [|x a IH]; [cbn [app]; change (ssig_sum se []) with 0; lia|].
  cbn [app]. rewrite !ssig_sum_cons, IH. lia.
Qed.
Lemma len_app_N {A} (a b : list A) : N.of_nat (length (a ++ b)) = N.of_nat (length a) + N.of_nat (length b).
Proof. rewrite app_length. lia. Qed.

Lemma within_app se d1 d2 d l1 l2 :
  within se d1 l1 -> within se d2 l2 ->
  sd_wcount d1 + sd_wcount d2 <= sd_wcount d -> sd_wsize d1 + sd_wsize d2 <= sd_wsize d ->
  sd_ssig d1 + sd_ssig d2 <= sd_ssig d ->
  within se d (l1 ++ l2).
Proof.
  intros (A1 & B1 & C1) (A2 & B2 & C2) Hc Hs Hg. unfold within.
  rewrite len_app_N, ph_sum_app, ssig_sum_app. repeat split; try lia.
  intros Ht. specialize (C1 Ht). specialize (C2 Ht). lia.
Qed.
Lemma within_mono se d d' l :
  within se d l -> sd_wcount d <= sd_wcount d' -> sd_wsize d <= sd_wsize d' -> sd_ssig d <= sd_ssig d' -> within se d' l.
Proof. intros (A & B & C) ? ? ?. repeat split; try lia. intros Ht. specialize (C Ht). lia. Qed.

(* ---- stacks of combined satisfactions *)
Lemma concatenate_rev_stack a b l :
  s_stack (concatenate_rev a b) = WStack l ->
  exists la lb, s_stack a = WStack la /\ s_stack b = WStack lb /\ l = lb ++ la.
Proof.
  unfold concatenate_rev.
  destruct (is_imp (s_stack a) || is_imp (s_stack b)); [cbn; discriminate|].
  destruct (merge_lock rel_max (s_rel a) (s_rel b)); [|cbn; discriminate].
  destruct (merge_lock abs_max (s_abs a) (s_abs b)); [|cbn; discriminate].
  cbn [s_stack]. destruct (s_stack a) as [la| |], (s_stack b) as [lb| |]; cbn; try discriminate.
  intros H. inversion H. eauto.
Qed.

Lemma minimum_stack se a b :
  s_stack (minimum se a b) = s_stack a \/ s_stack (minimum se a b) = s_stack b
  \/ s_stack (minimum se a b) = WUnavailable.
Proof.
  unfold minimum. destruct (is_imp (s_stack a)); [auto|]. destruct (is_imp (s_stack b)); [auto|].
  destruct (s_has_sig a), (s_has_sig b); cbn [s_stack]; auto.
  destruct (wit_lt se (s_stack a) (s_stack b)); cbn [s_stack]; auto.
Qed.
Lemma minimum_mall_stack se a b :
  s_stack (minimum_mall se a b) = s_stack a \/ s_stack (minimum_mall se a b) = s_stack b.
Proof.
  unfold minimum_mall. destruct (negb (is_stack (s_stack a))); [auto|].
  destruct (negb (is_stack (s_stack b))); [auto|].
  cbn [s_stack]. destruct (wit_lt se (s_stack a) (s_stack b)); auto.
Qed.
Definition min_fn (se : senv) (mall : bool) := if mall then minimum_mall se else minimum se.
Lemma min_fn_stack se mall a b :
  s_stack (min_fn se mall a b) = s_stack a \/ s_stack (min_fn se mall a b) = s_stack b
  \/ s_stack (min_fn se mall a b) = WUnavailable.
Proof.
  unfold min_fn. destruct mall.
  - destruct (minimum_mall_stack se a b); auto.
  - apply minimum_stack.
Qed.

(* ---- bounded is preserved by the combinators *)
Definition additive (f : satdata -> satdata -> satdata) : Prop :=
  forall d1 d2, sd_wcount (f d1 d2) = sd_wcount d1 + sd_wcount d2
                /\ sd_wsize (f d1 d2) = sd_wsize d1 + sd_wsize d2
                /\ sd_ssig (f d1 d2) = sd_ssig d1 + sd_ssig d2.
Lemma concat_b_add : additive sd_concat_b.
Proof. intros d1 d2. cbn. auto. Qed.
Lemma concat_v_add : additive sd_concat_v.
Proof. intros d1 d2. cbn. auto. Qed.

Lemma bounded_concat se f od1 od2 s1 s2 :
  additive f -> bounded se od1 s1 -> bounded se od2 s2 ->
  bounded se (opt_zip_with f od1 od2) (concatenate_rev s1 s2).
Proof.
  intros Hf H1 H2. unfold bounded in *.
  destruct (s_stack (concatenate_rev s1 s2)) as [l| |] eqn:E; [|exact I|exact I].
  apply concatenate_rev_stack in E. destruct E as (la & lb & Ea & Eb & ->).
  rewrite Ea in H1. rewrite Eb in H2.
  destruct H1 as (d1 & -> & W1). destruct H2 as (d2 & -> & W2).
  exists (f d1 d2). split; [reflexivity|].
  destruct (Hf d1 d2) as (Fc & Fs & Fg).
  eapply within_app; [exact W2 | exact W1 | lia | lia | lia].
Qed.

Lemma bounded_weaken_l se od1 od2 s : bounded se od1 s -> bounded se (sd_max_opt od1 od2) s.
Proof.
  unfold bounded. destruct (s_stack s); auto. intros (d & -> & W).
  destruct od2 as [d2|]; cbn; eexists; split; try reflexivity; auto.
  eapply within_mono; [exact W| cbn; lia ..].
Qed.
Lemma bounded_weaken_r se od1 od2 s : bounded se od2 s -> bounded se (sd_max_opt od1 od2) s.
Proof.
  unfold bounded. destruct (s_stack s); auto. intros (d & -> & W).
  destruct od1 as [d1|]; cbn; eexists; split; try reflexivity; auto.
  eapply within_mono; [exact W| cbn; lia ..].
Qed.
Lemma bounded_of_stack_eq se od s s' : s_stack s' = s_stack s -> bounded se od s -> bounded se od s'.
Proof. unfold bounded. intros ->. auto. Qed.
Lemma bounded_unavailable se od s : s_stack s = WUnavailable -> bounded se od s.
Proof. unfold bounded. intros ->. exact I. Qed.
Lemma bounded_impossible se od s : s_stack s = WImpossible -> bounded se od s.
Proof. unfold bounded. intros ->. exact I. Qed.

Lemma bounded_min se mall od1 od2 s1 s2 :
  bounded se od1 s1 -> bounded se od2 s2 -> bounded se (sd_max_opt od1 od2) (min_fn se mall s1 s2).
Proof.
  intros H1 H2. destruct (min_fn_stack se mall s1 s2) as [E|[E|E]].
  - eapply bounded_of_stack_eq; [exact E|]. apply bounded_weaken_l, H1.
  - eapply bounded_of_stack_eq; [exact E|]. apply bounded_weaken_r, H2.
  - apply bounded_unavailable, E.
Qed.

Lemma bounded_dbounded se od s : bounded se od s -> dbounded se od s.
Proof. unfold dbounded. destruct od; auto. Qed.
Lemma dtracked_inv e : dtracked e = true -> exists d, dissat_data e = Some d.
Proof. unfold dtracked. destruct (dissat_data e); [eauto|discriminate]. Qed.
Lemma dbounded_tracked se e s : dtracked e = true -> dbounded se (dissat_data e) s -> bounded se (dissat_data e) s.
Proof. intros Ht H. apply dtracked_inv in Ht. destruct Ht as [d Hd]. rewrite Hd in *. exact H. Qed.

(* appending one fixed element (or_i selectors, d:) *)
Lemma bounded_push se od s p (g : satdata -> satdata) :
  (forall d, sd_wcount d + 1 <= sd_wcount (g d) /\ sd_wsize d + ph_size se p <= sd_wsize (g d)
             /\ sd_ssig d + ph_ssig se p <= sd_ssig (g d)) ->
  bounded se od s ->
  bounded se (option_map g od) (with_stack s (wcombine (s_stack s) (WStack [p]))).
Proof.
  intros Hg H. unfold bounded in *. cbn [with_stack s_stack].
  destruct (s_stack s) as [l| |]; cbn [wcombine]; try exact I.
  destruct H as (d & -> & W). exists (g d). split; [reflexivity|].
  destruct (Hg d) as (Gc & Gs & Gg).
  destruct W as (A & B & C). unfold within. rewrite len_app_N, ph_sum_app, ssig_sum_app.
  cbn [length]. change (ph_sum se [p]) with (ph_size se p + 0). change (ssig_sum se [p]) with (ph_ssig se p + 0).
  repeat split; try lia. intros Ht. specialize (C Ht). lia.
Qed.
