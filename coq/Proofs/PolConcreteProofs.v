(* C18: Liftable for Concrete, and the mixed time-lock check, against the specification. *)
From Coq Require Import List NArith Bool Arith Lia Btauto.
Import ListNotations.
From Verif Require Import PolSemantic PolConcrete PolTruth PolSemanticProofs.

(* ------------------------------------------------------------------ induction principle *)
Section CpolInd.
  Variable P : cpol -> Prop.
  Hypothesis HU : P CUnsat.
  Hypothesis HT : P CTriv.
  Hypothesis HK : forall k, P (CKey k).
  Hypothesis HA : forall t, P (CAfter t).
  Hypothesis HO : forall t, P (COlder t).
  Hypothesis HS : forall h, P (CSha256 h).
  Hypothesis HH : forall h, P (CHash256 h).
  Hypothesis HR : forall h, P (CRipemd160 h).
  Hypothesis H1 : forall h, P (CHash160 h).
  Hypothesis HAnd : forall subs, Forall P subs -> P (CAnd subs).
  Hypothesis HOr : forall subs, Forall P subs -> P (COr subs).
  Hypothesis HTh : forall k subs, Forall P subs -> P (CThresh k subs).
  Fixpoint cpol_ind' (p : cpol) : P p :=
    let go := fix go (l : list cpol) : Forall P l :=
                match l with
                | [] => Forall_nil _
                | x :: l' => Forall_cons _ (cpol_ind' x) (go l')
                end in
    match p with
    | CUnsat => HU | CTriv => HT | CKey k => HK k | CAfter t => HA t | COlder t => HO t
    | CSha256 h => HS h | CHash256 h => HH h | CRipemd160 h => HR h | CHash160 h => H1 h
    | CAnd subs => HAnd subs (go subs)
    | COr subs => HOr subs (go subs)
    | CThresh k subs => HTh k subs (go subs)
    end.
End CpolInd.

(* ------------------------------------------------------------------ what lift computes *)
Lemma lift_unchecked_unfold p :
  lift_unchecked p =
  normalized
    match p with
    | CUnsat => SUnsat | CTriv => STriv | CKey k => SKey k | CAfter t => SAfter t | COlder t => SOlder t
    | CSha256 h => SSha256 h | CHash256 h => SHash256 h | CRipemd160 h => SRipemd160 h
    | CHash160 h => SHash160 h
    | CAnd subs =>
        if (1 <=? length (map lift_unchecked subs))
        then SThresh (length (map lift_unchecked subs)) (map lift_unchecked subs) else STriv
    | COr subs =>
        if (1 <=? length (map lift_unchecked subs)) then SThresh 1 (map lift_unchecked subs) else SUnsat
    | CThresh k subs => SThresh k (map lift_unchecked subs)
    end.
Proof. destruct p; reflexivity. Qed.

Lemma lift_unchecked_eval rho : forall p, evalA rho (lift_unchecked p) = evalC rho p.
Proof.
  induction p using cpol_ind'; rewrite lift_unchecked_unfold, normalized_eval; try reflexivity.
  - rewrite map_length. destruct (Nat.leb_spec 1 (length subs)).
    + cbn [evalA evalC]. rewrite map_map, forallb_count. f_equal. f_equal.
      apply map_ext_Forall. exact H.
    + destruct subs; [reflexivity|simpl in *; lia].
  - rewrite map_length. destruct (Nat.leb_spec 1 (length subs)).
    + cbn [evalA evalC]. rewrite map_map, existsb_count. f_equal. f_equal.
      apply map_ext_Forall. exact H.
    + destruct subs; [reflexivity|simpl in *; lia].
  - cbn [evalA evalC]. rewrite map_map. f_equal. f_equal. apply map_ext_Forall. exact H.
Qed.

Lemma lift_unchecked_normal p : is_normal (lift_unchecked p) = true.
Proof. rewrite lift_unchecked_unfold. apply normalized_normal. Qed.

(* concrete policies lift to equivalent abstract ones: every policy, every arity of And / Or
   (0 and 1 included), every assignment *)
Theorem concrete_lift rho p s : lift p = LOk s -> evalA rho s = evalC rho p.
Proof.
  unfold lift. destruct (comb (timelock_info p)); [discriminate|].
  intro E. injection E as <-. apply lift_unchecked_eval.
Qed.
Lemma lift_normal p s : lift p = LOk s -> is_normal s = true.
Proof.
  unfold lift. destruct (comb (timelock_info p)); [discriminate|].
  intro E. injection E as <-. apply lift_unchecked_normal.
Qed.

(* lift refuses exactly what check_timelocks refuses, and lifts everything else *)
Theorem lift_refusal_exact p :
  (lift p = LErrTimelock <-> check_timelocks p = false) /\
  (check_timelocks p = true -> lift p = LOk (lift_unchecked p)).
Proof.
  unfold lift, check_timelocks. destruct (comb (timelock_info p)); cbn [negb]; split;
    try (split; [reflexivity|reflexivity]); try (split; discriminate); try discriminate; reflexivity.
Qed.

(* ================================================================== mixed time locks *)
(* ------------------------------------------------------------------ combine_threshold *)
Definition cross (a : tli) (l : list tli) : bool :=
  (csv_h a && existsb csv_t l) || (csv_t a && existsb csv_h l)
  || (cltv_t a && existsb cltv_h l) || (cltv_h a && existsb cltv_t l).
Fixpoint pairs (l : list tli) : bool :=
  match l with [] => false | t :: r => cross t r || pairs r end.

Lemma fold_combine k : forall l acc,
  fold_left (combine_step k) l acc =
  mkTli (csv_h acc || existsb csv_h l) (csv_t acc || existsb csv_t l)
        (cltv_h acc || existsb cltv_h l) (cltv_t acc || existsb cltv_t l)
        (comb acc || existsb comb l || ((1 <? k) && (cross acc l || pairs l))).
Proof.
  induction l as [|t r IH]; intro acc.
  - destruct acc as [a b c d e]. unfold cross. cbn. f_equal; btauto.
  - cbn [fold_left]. rewrite IH. unfold combine_step, cross. cbn [existsb pairs].
    destruct acc as [a b c d e]. destruct t as [a' b' c' d' e']. cbn [csv_h csv_t cltv_h cltv_t comb].
    unfold cross. cbn [csv_h csv_t cltv_h cltv_t comb].
    generalize (existsb csv_h r) (existsb csv_t r) (existsb cltv_h r) (existsb cltv_t r)
               (existsb comb r) (pairs r). intros x1 x2 x3 x4 x5 x6.
    destruct (1 <? k); f_equal; btauto.
Qed.

Lemma combine_threshold_spec k l :
  combine_threshold k l =
  mkTli (existsb csv_h l) (existsb csv_t l) (existsb cltv_h l) (existsb cltv_t l)
        (existsb comb l || ((1 <? k) && pairs l)).
Proof. unfold combine_threshold. rewrite fold_combine. reflexivity. Qed.

(* ------------------------------------------------------------------ satisfiable = has a path *)
Definition nonnil {A} (l : list A) : bool := match l with [] => false | _ => true end.

Lemma nonnil_app {A} (a b : list A) : nonnil (a ++ b) = nonnil a || nonnil b.
Proof. destruct a; reflexivity. Qed.
Lemma nonnil_map {A B} (f : A -> B) l : nonnil (map f l) = nonnil l.
Proof. destruct l; reflexivity. Qed.
Lemma nonnil_flat_map_map {A B} (f : A -> B -> B) (c : list A) (R : list B) :
  nonnil (flat_map (fun x => map (f x) R) c) = nonnil c && nonnil R.
Proof.
  induction c as [|x r IH]; [reflexivity|]. cbn [flat_map]. rewrite nonnil_app, nonnil_map, IH.
  destruct R, r; reflexivity.
Qed.
Lemma nonnil_true {A} (l : list A) : nonnil l = true <-> l <> [].
Proof. destruct l; simpl; split; congruence. Qed.

Lemma kpaths_nonnil : forall cs k, nonnil (kpaths k cs) = (k <=? count_true (map nonnil cs)).
Proof.
  induction cs as [|c r IH]; intro k.
  - destruct k; reflexivity.
  - destruct k as [|k']; [reflexivity|].
    cbn [kpaths map]. rewrite nonnil_app, nonnil_flat_map_map, !IH, count_true_cons.
    destruct c as [|pc pcs]; cbn [nonnil andb orb].
    + reflexivity.
    + destruct (Nat.leb_spec k' (count_true (map nonnil r)));
        destruct (Nat.leb_spec (S k') (count_true (map nonnil r)));
        destruct (Nat.leb_spec (S k') (1 + count_true (map nonnil r))); try reflexivity; lia.
Qed.

Definition node (p : cpol) : option (nat * list cpol) :=
  match p with
  | CAnd s => Some (length s, s)
  | COr s => Some (1, s)
  | CThresh k s => Some (k, s)
  | _ => None
  end.

(* the leaves that can take part in a satisfaction *)
Fixpoint live_leaves (c : cpol) : list spol :=
  if tl_sat c then
    match c with
    | CUnsat | CTriv => []
    | CKey k => [SKey k] | CAfter t => [SAfter t] | COlder t => [SOlder t]
    | CSha256 h => [SSha256 h] | CHash256 h => [SHash256 h]
    | CRipemd160 h => [SRipemd160 h] | CHash160 h => [SHash160 h]
    | CAnd subs | COr subs | CThresh _ subs => flat_map live_leaves subs
    end
  else [].

Lemma node_facts p k subs : node p = Some (k, subs) ->
  tl_sat p = (k <=? count_true (map tl_sat subs)) /\
  timelock_info p = (if tl_sat p then combine_threshold k (map timelock_info subs) else tli_default) /\
  paths p = kpaths k (map paths subs) /\
  live_leaves p = (if tl_sat p then flat_map live_leaves subs else []).
Proof. destruct p; intro E; inversion E; subst; repeat split; reflexivity. Qed.

Lemma tl_sat_spec : forall p, tl_sat p = nonnil (paths p).
Proof.
  assert (Hn : forall p k subs, node p = Some (k, subs) ->
               Forall (fun c => tl_sat c = nonnil (paths c)) subs -> tl_sat p = nonnil (paths p)).
  { intros p k subs E HF. destruct (node_facts p k subs E) as (Es & _ & Ep & _).
    rewrite Es, Ep, kpaths_nonnil, map_map. f_equal. f_equal. apply map_ext_Forall. exact HF. }
  induction p using cpol_ind'; try reflexivity.
  - apply (Hn (CAnd subs) _ subs eq_refl H).
  - apply (Hn (COr subs) _ subs eq_refl H).
  - apply (Hn (CThresh k subs) _ subs eq_refl H).
Qed.
Lemma unsat_no_paths c : tl_sat c = false -> paths c = [].
Proof. rewrite tl_sat_spec. destruct (paths c); [reflexivity|discriminate]. Qed.
Lemma path_sat c pi : In pi (paths c) -> tl_sat c = true.
Proof. rewrite tl_sat_spec. destruct (paths c); [contradiction|reflexivity]. Qed.
Lemma unsat_no_live c : tl_sat c = false -> live_leaves c = [].
Proof. intro H. destruct c; simpl in *; rewrite ?H; try reflexivity; discriminate. Qed.
Lemma unsat_tli c : tl_sat c = false -> timelock_info c = tli_default.
Proof. intro H. destruct c; cbn [timelock_info]; rewrite ?H; reflexivity. Qed.

(* ------------------------------------------------------------------ flags = kinds of the live leaves *)
Lemma existsb_map {A B} (f : B -> bool) (g : A -> B) l : existsb f (map g l) = existsb (fun x => f (g x)) l.
Proof. induction l; simpl; congruence. Qed.
Lemma existsb_flat_map {A B} (f : B -> bool) (g : A -> list B) l :
  existsb f (flat_map g l) = existsb (fun x => existsb f (g x)) l.
Proof. induction l; simpl; [reflexivity|]. rewrite existsb_app. congruence. Qed.
Lemma existsb_ext_Forall {A} (f g : A -> bool) l : Forall (fun x => f x = g x) l -> existsb f l = existsb g l.
Proof. induction 1; simpl; congruence. Qed.

Definition flags_ok (p : cpol) : Prop :=
  csv_h (timelock_info p) = existsb leaf_csv_h (live_leaves p) /\
  csv_t (timelock_info p) = existsb leaf_csv_t (live_leaves p) /\
  cltv_h (timelock_info p) = existsb leaf_cltv_h (live_leaves p) /\
  cltv_t (timelock_info p) = existsb leaf_cltv_t (live_leaves p).

Lemma node_flags p k subs : node p = Some (k, subs) -> Forall flags_ok subs -> flags_ok p.
Proof.
  intros E HF. destruct (node_facts p k subs E) as (_ & Et & _ & El).
  unfold flags_ok. rewrite Et, El. destruct (tl_sat p); [|repeat split; reflexivity].
  rewrite combine_threshold_spec. cbn [csv_h csv_t cltv_h cltv_t].
  rewrite !existsb_map, !existsb_flat_map.
  repeat split; apply existsb_ext_Forall; eapply Forall_impl; try exact HF; intros c (F1 & F2 & F3 & F4); assumption.
Qed.

Lemma tli_flags : forall p, flags_ok p.
Proof.
  induction p using cpol_ind'; try (repeat split; reflexivity).
  - unfold flags_ok. cbn. rewrite !orb_false_r. repeat split; reflexivity.
  - unfold flags_ok. cbn. unfold seq_is_height_locked, seq_is_time_locked, seq_is_relative.
    rewrite !orb_false_r. repeat split; reflexivity.
  - eapply node_flags; [reflexivity|exact H].
  - eapply node_flags; [reflexivity|exact H].
  - eapply node_flags; [reflexivity|exact H].
Qed.

(* conflicting pairs of children, for one pair of leaf kinds *)
Definition cf (f : spol -> bool) (c : cpol) : bool := existsb f (live_leaves c).
Fixpoint pairsFG (f g : spol -> bool) (cs : list cpol) : bool :=
  match cs with
  | [] => false
  | c :: r => (cf f c && existsb (cf g) r) || (cf g c && existsb (cf f) r) || pairsFG f g r
  end.

Lemma pairs_children cs :
  pairs (map timelock_info cs)
  = pairsFG leaf_csv_h leaf_csv_t cs || pairsFG leaf_cltv_h leaf_cltv_t cs.
Proof.
  induction cs as [|c r IH]; [reflexivity|].
  cbn [map pairs pairsFG]. rewrite IH. unfold cross. rewrite !existsb_map.
  destruct (tli_flags c) as (F1 & F2 & F3 & F4). rewrite F1, F2, F3, F4.
  assert (E : forall (fl : tli -> bool) (lf : spol -> bool),
             (forall c', fl (timelock_info c') = existsb lf (live_leaves c')) ->
             existsb (fun x => fl (timelock_info x)) r = existsb (cf lf) r).
  { intros fl lf Hf. apply existsb_ext_Forall. apply Forall_forall. intros c' _. apply Hf. }
  rewrite (E csv_h leaf_csv_h) by (intro c'; apply (tli_flags c')).
  rewrite (E csv_t leaf_csv_t) by (intro c'; apply (tli_flags c')).
  rewrite (E cltv_h leaf_cltv_h) by (intro c'; apply (tli_flags c')).
  rewrite (E cltv_t leaf_cltv_t) by (intro c'; apply (tli_flags c')).
  unfold cf. btauto.
Qed.

Lemma node_comb p k subs : node p = Some (k, subs) ->
  comb (timelock_info p)
  = tl_sat p &&
    (existsb (fun c => comb (timelock_info c)) subs
     || ((1 <? k) && (pairsFG leaf_csv_h leaf_csv_t subs || pairsFG leaf_cltv_h leaf_cltv_t subs))).
Proof.
  intro E. destruct (node_facts p k subs E) as (_ & Et & _ & _).
  rewrite Et. destruct (tl_sat p); [|reflexivity].
  rewrite combine_threshold_spec. cbn [comb andb]. rewrite existsb_map, pairs_children. reflexivity.
Qed.

(* ------------------------------------------------------------------ paths use live leaves of the policy *)
Lemma kpaths_incl (L : cpol -> list spol) : forall cs k pi,
  (forall c pc, In c cs -> In pc (paths c) -> incl pc (L c)) ->
  In pi (kpaths k (map paths cs)) -> incl pi (flat_map L cs).
Proof.
  induction cs as [|c r IH]; intros k pi Hc Hin.
  - destruct k; simpl in Hin; [destruct Hin as [<-|[]]; apply incl_nil_l|contradiction].
  - destruct k as [|k']; [simpl in Hin; destruct Hin as [<-|[]]; apply incl_nil_l|].
    cbn [map kpaths] in Hin. apply in_app_or in Hin. destruct Hin as [Hin|Hin].
    + apply in_flat_map in Hin. destruct Hin as (pc & Hpc & Hin).
      apply in_map_iff in Hin. destruct Hin as (rho & <- & Hrho).
      cbn [flat_map]. apply incl_app.
      * apply incl_appl. apply (Hc c pc); [left; reflexivity|exact Hpc].
      * apply incl_appr. apply (IH k' rho); [|exact Hrho]. intros c' pc' H1 H2. apply (Hc c' pc'); [right; exact H1|exact H2].
    + cbn [flat_map]. apply incl_appr. apply (IH (S k') pi); [|exact Hin].
      intros c' pc' H1 H2. apply (Hc c' pc'); [right; exact H1|exact H2].
Qed.

Lemma paths_incl : forall p pi, In pi (paths p) -> incl pi (live_leaves p).
Proof.
  assert (Hn : forall p k subs, node p = Some (k, subs) ->
               Forall (fun c => forall pi, In pi (paths c) -> incl pi (live_leaves c)) subs ->
               forall pi, In pi (paths p) -> incl pi (live_leaves p)).
  { intros p k subs E HF pi Hin. destruct (node_facts p k subs E) as (_ & _ & Ep & El).
    rewrite El, (path_sat p pi Hin). rewrite Ep in Hin.
    eapply kpaths_incl; [|exact Hin]. intros c pc Hc. rewrite Forall_forall in HF. apply HF. exact Hc. }
  induction p using cpol_ind'; intros pi Hin;
    try (simpl in Hin; destruct Hin as [<-|[]]; try apply incl_refl; apply incl_nil_l);
    try contradiction.
  - apply (Hn (CAnd subs) _ subs eq_refl H pi Hin).
  - apply (Hn (COr subs) _ subs eq_refl H pi Hin).
  - apply (Hn (CThresh k subs) _ subs eq_refl H pi Hin).
Qed.

Lemma existsb_incl {A} (f : A -> bool) a b : incl a b -> existsb f a = true -> existsb f b = true.
Proof.
  intros I E. apply existsb_exists in E. destruct E as (x & Hx & Fx).
  apply existsb_exists. exists x. split; [apply I; exact Hx|exact Fx].
Qed.

Lemma kpaths_has g : forall cs k rho,
  In rho (kpaths k (map paths cs)) -> existsb g rho = true ->
  1 <= k /\ existsb (cf g) cs = true.
Proof.
  intros cs k rho Hin Hg. split.
  - destruct k; [|lia]. destruct cs; simpl in Hin; destruct Hin as [<-|[]]; discriminate.
  - assert (I : incl rho (flat_map live_leaves cs)).
    { eapply kpaths_incl; [|exact Hin]. intros c pc _. apply paths_incl. }
    pose proof (existsb_incl g _ _ I Hg) as E. rewrite existsb_flat_map in E. exact E.
Qed.

(* ------------------------------------------------------------------ soundness: a mixing path is flagged *)
Lemma kpaths_mix f g : forall cs k pi,
  In pi (kpaths k (map paths cs)) -> existsb f pi = true -> existsb g pi = true ->
  (exists c pc, In c cs /\ In pc (paths c) /\ existsb f pc = true /\ existsb g pc = true) \/
  (2 <= k /\ pairsFG f g cs = true).
Proof.
  induction cs as [|c r IH]; intros k pi Hin Hf Hg.
  - destruct k; simpl in Hin; [destruct Hin as [<-|[]]; discriminate|contradiction].
  - destruct k as [|k']; [simpl in Hin; destruct Hin as [<-|[]]; discriminate|].
    cbn [map kpaths] in Hin. apply in_app_or in Hin. destruct Hin as [Hin|Hin].
    + apply in_flat_map in Hin. destruct Hin as (pc & Hpc & Hin).
      apply in_map_iff in Hin. destruct Hin as (rho & <- & Hrho).
      rewrite existsb_app in Hf, Hg.
      assert (Hcf : forall h, existsb h pc = true -> cf h c = true).
      { intros h Hh. unfold cf. eapply existsb_incl; [apply paths_incl; exact Hpc|exact Hh]. }
      destruct (existsb f pc) eqn:Fc; destruct (existsb g pc) eqn:Gc.
      * left. exists c, pc. repeat split; try assumption. left; reflexivity.
      * cbn [orb] in Hg. destruct (kpaths_has g r k' rho Hrho Hg) as [K1 Eg].
        right. split; [lia|]. cbn [pairsFG]. rewrite (Hcf f Fc), Eg. reflexivity.
      * cbn [orb] in Hf. destruct (kpaths_has f r k' rho Hrho Hf) as [K1 Ef].
        right. split; [lia|]. cbn [pairsFG]. rewrite (Hcf g Gc), Ef. cbn [andb]. rewrite orb_true_r. reflexivity.
      * cbn [orb] in Hf, Hg. destruct (IH k' rho Hrho Hf Hg) as [(c' & pc' & H1 & H2 & H3 & H4)|[K2 Pr]].
        -- left. exists c', pc'. repeat split; try assumption. right; exact H1.
        -- right. split; [lia|]. cbn [pairsFG]. rewrite Pr. apply orb_true_r.
    + destruct (IH (S k') pi Hin Hf Hg) as [(c' & pc' & H1 & H2 & H3 & H4)|[K2 Pr]].
      * left. exists c', pc'. repeat split; try assumption. right; exact H1.
      * right. split; [exact K2|]. cbn [pairsFG]. rewrite Pr. apply orb_true_r.
Qed.

Lemma path_mixes_cases pi : path_mixes pi = true ->
  (existsb leaf_csv_h pi = true /\ existsb leaf_csv_t pi = true) \/
  (existsb leaf_cltv_h pi = true /\ existsb leaf_cltv_t pi = true).
Proof.
  unfold path_mixes. intro H. apply orb_prop in H. destruct H as [H|H]; apply andb_prop in H; auto.
Qed.

Lemma node_mixed_sound p k subs : node p = Some (k, subs) ->
  Forall (fun c => forall pi, In pi (paths c) -> path_mixes pi = true -> comb (timelock_info c) = true) subs ->
  forall pi, In pi (paths p) -> path_mixes pi = true -> comb (timelock_info p) = true.
Proof.
  intros E HF pi Hin M. rewrite (node_comb p k subs E), (path_sat p pi Hin). cbn [andb].
  destruct (node_facts p k subs E) as (_ & _ & Ep & _). rewrite Ep in Hin.
  assert (Hchild : forall c pc, In c subs -> In pc (paths c) -> path_mixes pc = true ->
                   existsb (fun c => comb (timelock_info c)) subs = true).
  { intros c pc Hc Hpc Mc. apply existsb_exists. exists c. split; [exact Hc|].
    rewrite Forall_forall in HF. exact (HF c Hc pc Hpc Mc). }
  destruct (path_mixes_cases pi M) as [[Hf Hg]|[Hf Hg]].
  - destruct (kpaths_mix _ _ subs k pi Hin Hf Hg) as [(c & pc & H1 & H2 & H3 & H4)|[K2 Pr]].
    + rewrite (Hchild c pc H1 H2); [reflexivity|]. unfold path_mixes. rewrite H3, H4. reflexivity.
    + rewrite Pr. replace (1 <? k) with true by (symmetry; apply Nat.ltb_lt; lia). cbn. apply orb_true_r.
  - destruct (kpaths_mix _ _ subs k pi Hin Hf Hg) as [(c & pc & H1 & H2 & H3 & H4)|[K2 Pr]].
    + rewrite (Hchild c pc H1 H2); [reflexivity|]. unfold path_mixes. rewrite H3, H4. apply orb_true_r.
    + rewrite Pr. replace (1 <? k) with true by (symmetry; apply Nat.ltb_lt; lia). cbn. rewrite !orb_true_r. reflexivity.
Qed.

Lemma leaf_no_mix l : path_mixes [l] = false.
Proof.
  unfold path_mixes. destruct l; try reflexivity; cbn.
  - destruct (t <? 500000000)%N; reflexivity.
  - destruct (N.testbit t 31), (N.testbit t 22); reflexivity.
Qed.

(* never misses: for every policy *)
Theorem mixed_sound : forall p, has_mixed_path p -> check_timelocks p = false.
Proof.
  intros p (pi & Hin & M). unfold check_timelocks. apply negb_false_iff. revert pi Hin M.
  induction p using cpol_ind'; intros pi Hin M;
    try (simpl in Hin; destruct Hin as [<-|[]]; rewrite ?leaf_no_mix in M; discriminate);
    try contradiction.
  - eapply (node_mixed_sound (CAnd subs)); [reflexivity|exact H|exact Hin|exact M].
  - eapply (node_mixed_sound (COr subs)); [reflexivity|exact H|exact Hin|exact M].
  - eapply (node_mixed_sound (CThresh k subs)); [reflexivity|exact H|exact Hin|exact M].
Qed.

(* ------------------------------------------------------------------ building paths *)
Lemma kpaths_extend0 : forall cs k,
  (forall c, In c cs -> paths c <> []) -> k <= length cs -> exists pi, In pi (kpaths k (map paths cs)).
Proof.
  induction cs as [|c r IH]; intros k Hs Hk.
  - simpl in Hk. assert (k = 0) by lia. subst. exists []. left; reflexivity.
  - destruct k as [|k']; [exists []; left; reflexivity|].
    destruct (paths c) as [|pc pcs] eqn:Ec; [exfalso; apply (Hs c); [left; reflexivity|exact Ec]|].
    destruct (IH k') as (rho & Hrho); [intros c' Hc'; apply Hs; right; exact Hc'|simpl in Hk; lia|].
    exists (pc ++ rho). cbn [map kpaths]. apply in_or_app. left.
    apply in_flat_map. exists pc. split; [rewrite Ec; left; reflexivity|].
    apply in_map. exact Hrho.
Qed.

Lemma in_kpaths_take c r k' pc rho :
  In pc (paths c) -> In rho (kpaths k' (map paths r)) -> In (pc ++ rho) (kpaths (S k') (map paths (c :: r))).
Proof.
  intros Hpc Hrho. cbn [map kpaths]. apply in_or_app. left.
  apply in_flat_map. exists pc. split; [exact Hpc|]. apply in_map. exact Hrho.
Qed.
Lemma in_kpaths_skip c r k' pi :
  In pi (kpaths (S k') (map paths r)) -> In pi (kpaths (S k') (map paths (c :: r))).
Proof. intro H. cbn [map kpaths]. apply in_or_app. right. exact H. Qed.

Lemma kpaths_extend1 : forall cs k c pc,
  (forall c, In c cs -> paths c <> []) -> 1 <= k <= length cs ->
  In c cs -> In pc (paths c) ->
  exists pi, In pi (kpaths k (map paths cs)) /\ incl pc pi.
Proof.
  induction cs as [|c0 r IH]; intros k c pc Hs Hk Hc Hpc; [contradiction|].
  destruct k as [|k']; [lia|]. cbn [length] in Hk.
  assert (Hsr : forall c', In c' r -> paths c' <> []) by (intros c' Hc'; apply Hs; right; exact Hc').
  destruct Hc as [<-|Hc].
  - destruct (kpaths_extend0 r k' Hsr) as (rho & Hrho); [lia|].
    exists (pc ++ rho). split; [apply in_kpaths_take; assumption|apply incl_appl, incl_refl].
  - destruct (Nat.le_gt_cases (S k') (length r)) as [Hle|Hgt].
    + destruct (IH (S k') c pc Hsr) as (pi & Hpi & Hi); [lia|exact Hc|exact Hpc|].
      exists pi. split; [apply in_kpaths_skip; exact Hpi|exact Hi].
    + assert (1 <= length r) by (destruct r; [contradiction|simpl; lia]).
      destruct (IH k' c pc Hsr) as (rho & Hrho & Hi); [lia|exact Hc|exact Hpc|].
      destruct (paths c0) as [|p0 ps] eqn:E0; [exfalso; apply (Hs c0); [left; reflexivity|exact E0]|].
      exists (p0 ++ rho). split; [apply in_kpaths_take; [rewrite E0; left; reflexivity|exact Hrho]|].
      apply incl_appr. exact Hi.
Qed.

Lemma pairsFG_len f g cs : pairsFG f g cs = true -> 2 <= length cs.
Proof.
  induction cs as [|c r IH]; [discriminate|]. cbn [pairsFG length]. intro H.
  apply orb_prop in H. destruct H as [H|H]; [|specialize (IH H); lia].
  apply orb_prop in H. destruct H as [H|H]; apply andb_prop in H; destruct H as [_ H];
    destruct r; try discriminate; simpl; lia.
Qed.

Lemma kpaths_extend2 f g : forall cs k,
  (forall c, In c cs -> paths c <> []) ->
  (forall c h, In c cs -> cf h c = true -> exists pc, In pc (paths c) /\ existsb h pc = true) ->
  2 <= k <= length cs -> pairsFG f g cs = true ->
  exists pi, In pi (kpaths k (map paths cs)) /\ existsb f pi = true /\ existsb g pi = true.
Proof.
  induction cs as [|c0 r IH]; intros k Hs Hl Hk Pr; [discriminate|].
  destruct k as [|k']; [lia|]. cbn [length] in Hk.
  assert (Hsr : forall c', In c' r -> paths c' <> []) by (intros c' Hc'; apply Hs; right; exact Hc').
  assert (Hlr : forall c' h, In c' r -> cf h c' = true -> exists pc, In pc (paths c') /\ existsb h pc = true)
    by (intros c' h Hc'; apply Hl; right; exact Hc').
  (* a path through c0 with kind h1 and some child of r with kind h2 *)
  assert (Hx : forall h1 h2, cf h1 c0 = true -> existsb (cf h2) r = true ->
               exists pi, In pi (kpaths (S k') (map paths (c0 :: r))) /\ existsb h1 pi = true /\ existsb h2 pi = true).
  { intros h1 h2 C1 C2. destruct (Hl c0 h1 (or_introl eq_refl) C1) as (p0 & Hp0 & E0).
    apply existsb_exists in C2. destruct C2 as (c' & Hc' & C2).
    destruct (Hlr c' h2 Hc' C2) as (pc & Hpc & Ec).
    destruct (kpaths_extend1 r k' c' pc Hsr) as (rho & Hrho & Hi); [lia|exact Hc'|exact Hpc|].
    exists (p0 ++ rho). split; [apply in_kpaths_take; assumption|].
    rewrite !existsb_app, E0, (existsb_incl h2 _ _ Hi Ec). split; [reflexivity|apply orb_true_r]. }
  cbn [pairsFG] in Pr. apply orb_prop in Pr. destruct Pr as [Pr|Pr].
  - apply orb_prop in Pr. destruct Pr as [Pr|Pr]; apply andb_prop in Pr; destruct Pr as [C1 C2].
    + destruct (Hx f g C1 C2) as (pi & H1 & H2 & H3). exists pi. auto.
    + destruct (Hx g f C1 C2) as (pi & H1 & H2 & H3). exists pi. auto.
  - pose proof (pairsFG_len f g r Pr) as L2.
    destruct (Nat.le_gt_cases (S k') (length r)) as [Hle|Hgt].
    + destruct (IH (S k') Hsr Hlr) as (pi & H1 & H2 & H3); [lia|exact Pr|].
      exists pi. split; [apply in_kpaths_skip; exact H1|auto].
    + destruct (IH k' Hsr Hlr) as (rho & H1 & H2 & H3); [lia|exact Pr|].
      destruct (paths c0) as [|p0 ps] eqn:E0; [exfalso; apply (Hs c0); [left; reflexivity|exact E0]|].
      exists (p0 ++ rho). split; [apply in_kpaths_take; [rewrite E0; left; reflexivity|exact H1]|].
      rewrite !existsb_app, H2, H3, !orb_true_r. auto.
Qed.

(* ------------------------------------------------------------------ exactness *)
(* unsatisfiable children play no role on either side: drop them *)
Lemma kpaths_0 cs : kpaths 0 cs = [[]].
Proof. destruct cs; reflexivity. Qed.

Lemma kpaths_filter : forall subs k,
  kpaths k (map paths subs) = kpaths k (map paths (filter tl_sat subs)).
Proof.
  induction subs as [|c r IH]; intro k; [reflexivity|].
  cbn [filter]. destruct (tl_sat c) eqn:Sc.
  - destruct k as [|k']; [rewrite !kpaths_0; reflexivity|]. cbn [map kpaths]. rewrite (IH k'), (IH (S k')). reflexivity.
  - destruct k as [|k']; [rewrite !kpaths_0; reflexivity|]. cbn [map kpaths]. rewrite (unsat_no_paths c Sc). cbn [flat_map app].
    apply IH.
Qed.

Lemma existsb_filter_irrelevant {A} (t h : A -> bool) l :
  (forall x, t x = false -> h x = false) -> existsb h l = existsb h (filter t l).
Proof.
  intro H. induction l as [|x r IH]; [reflexivity|]. cbn [existsb filter].
  destruct (t x) eqn:T; [cbn [existsb]; rewrite IH; reflexivity|rewrite (H x T), IH; reflexivity].
Qed.

Lemma unsat_cf h c : tl_sat c = false -> cf h c = false.
Proof. intro S. unfold cf. rewrite (unsat_no_live c S). reflexivity. Qed.

Lemma pairsFG_filter f g : forall subs, pairsFG f g subs = pairsFG f g (filter tl_sat subs).
Proof.
  induction subs as [|c r IH]; [reflexivity|]. cbn [pairsFG filter].
  rewrite (existsb_filter_irrelevant tl_sat (cf g) r) by (intro x; apply unsat_cf).
  rewrite (existsb_filter_irrelevant tl_sat (cf f) r) by (intro x; apply unsat_cf).
  destruct (tl_sat c) eqn:S; [cbn [pairsFG]; rewrite IH; reflexivity|].
  rewrite (unsat_cf f c S), (unsat_cf g c S), IH. reflexivity.
Qed.

Lemma count_true_filter (t : cpol -> bool) l : count_true (map t l) = length (filter t l).
Proof. induction l as [|x r IH]; [reflexivity|]. cbn [map filter]. rewrite count_true_cons. destruct (t x); simpl; lia. Qed.

Lemma cwf_children p k subs : node p = Some (k, subs) -> cwf p = true -> forallb cwf subs = true /\ (subs <> [] -> 1 <= k).
Proof.
  destruct p; intro E; inversion E; subst; cbn [cwf]; intro H.
  - split; [exact H|]. intro Hn. destruct subs; [congruence|simpl; lia].
  - split; [exact H|lia].
  - apply andb_prop in H. destruct H as [H Hs]. apply andb_prop in H. destruct H as [H1 _].
    apply Nat.leb_le in H1. split; [exact Hs|intros _; exact H1].
Qed.

(* what a satisfiable node looks like through its satisfiable children *)
Lemma node_live p k subs : node p = Some (k, subs) -> cwf p = true -> tl_sat p = true ->
  let cs := filter tl_sat subs in
  paths p = kpaths k (map paths cs) /\
  (forall c, In c cs -> In c subs /\ paths c <> [] /\ cwf c = true) /\
  k <= length cs /\ (cs <> [] -> 1 <= k).
Proof.
  intros E W S cs. destruct (node_facts p k subs E) as (Es & _ & Ep & _).
  destruct (cwf_children p k subs E W) as [Wc H1].
  split; [rewrite Ep; apply kpaths_filter|]. split; [|split].
  - intros c Hc. apply filter_In in Hc. destruct Hc as [Hc Sc]. split; [exact Hc|]. split.
    + apply nonnil_true. rewrite <- tl_sat_spec. exact Sc.
    + eapply forallb_forall in Wc; eassumption.
  - rewrite Es, count_true_filter in S. apply Nat.leb_le in S. exact S.
  - intro Hn. apply H1. intro E0. subst subs. apply Hn. reflexivity.
Qed.

Lemma node_leaf_in_path p k subs : node p = Some (k, subs) -> cwf p = true ->
  Forall (fun c => cwf c = true -> forall l, In l (live_leaves c) -> exists pi, In pi (paths c) /\ In l pi) subs ->
  forall l, In l (live_leaves p) -> exists pi, In pi (paths p) /\ In l pi.
Proof.
  intros E W HF l Hl. destruct (node_facts p k subs E) as (_ & _ & _ & El).
  rewrite El in Hl. destruct (tl_sat p) eqn:S; [|contradiction].
  destruct (node_live p k subs E W S) as (Ep & Hcs & Hk & H1).
  apply in_flat_map in Hl. destruct Hl as (c & Hc & Hl).
  assert (Sc : tl_sat c = true) by (destruct (tl_sat c) eqn:Sc; [reflexivity|rewrite (unsat_no_live c Sc) in Hl; contradiction]).
  assert (Hc' : In c (filter tl_sat subs)) by (apply filter_In; split; assumption).
  rewrite Forall_forall in HF.
  destruct (HF c Hc) with (l := l) as (pc & Hpc & Hlpc); [apply (Hcs c Hc')|exact Hl|].
  destruct (kpaths_extend1 (filter tl_sat subs) k c pc) as (pi & Hpi & Hi);
    [intros c0 Hc0; apply (Hcs c0 Hc0)|split; [apply H1; intro En; rewrite En in Hc'; contradiction|exact Hk]|exact Hc'|exact Hpc|].
  exists pi. rewrite Ep. split; [exact Hpi|apply Hi; exact Hlpc].
Qed.

Lemma leaf_in_path : forall p, cwf p = true ->
  forall l, In l (live_leaves p) -> exists pi, In pi (paths p) /\ In l pi.
Proof.
  induction p using cpol_ind'; intros W l Hl;
    try (simpl in Hl; destruct Hl as [<-|[]]; eexists; split; [left; reflexivity|left; reflexivity]);
    try contradiction.
  - eapply (node_leaf_in_path (CAnd subs)); try reflexivity; eassumption.
  - eapply (node_leaf_in_path (COr subs)); try reflexivity; eassumption.
  - eapply (node_leaf_in_path (CThresh k subs)); try reflexivity; eassumption.
Qed.

Lemma path_mixes_incl a b : incl a b -> path_mixes a = true -> path_mixes b = true.
Proof.
  intros I M. destruct (path_mixes_cases a M) as [[H1 H2]|[H1 H2]]; unfold path_mixes;
    rewrite (existsb_incl _ _ _ I H1), (existsb_incl _ _ _ I H2); [reflexivity|apply orb_true_r].
Qed.

Lemma node_mixed_exact p k subs : node p = Some (k, subs) -> cwf p = true ->
  Forall (fun c => cwf c = true -> comb (timelock_info c) = true -> has_mixed_path c) subs ->
  comb (timelock_info p) = true -> has_mixed_path p.
Proof.
  intros E W HF C. rewrite (node_comb p k subs E) in C.
  apply andb_prop in C. destruct C as [S C].
  destruct (node_live p k subs E W S) as (Ep & Hcs & Hk & H1).
  set (cs := filter tl_sat subs) in *.
  rewrite (existsb_filter_irrelevant tl_sat (fun c => comb (timelock_info c)) subs) in C
    by (intros x Sx; rewrite (unsat_tli x Sx); reflexivity).
  rewrite (pairsFG_filter leaf_csv_h leaf_csv_t subs), (pairsFG_filter leaf_cltv_h leaf_cltv_t subs) in C.
  fold cs in C.
  assert (Hs : forall c, In c cs -> paths c <> []) by (intros c Hc; apply (Hcs c Hc)).
  unfold has_mixed_path. rewrite Ep.
  apply orb_prop in C. destruct C as [C|C].
  - apply existsb_exists in C. destruct C as (c & Hc & Cc).
    rewrite Forall_forall in HF.
    destruct (HF c) as (pc & Hpc & Mc); [apply (Hcs c Hc)|apply (Hcs c Hc)|exact Cc|].
    destruct (kpaths_extend1 cs k c pc Hs) as (pi & Hpi & Hi);
      [split; [apply H1; intro En; rewrite En in Hc; contradiction|exact Hk]|exact Hc|exact Hpc|].
    exists pi. split; [exact Hpi|eapply path_mixes_incl; eassumption].
  - apply andb_prop in C. destruct C as [K Pr]. apply Nat.ltb_lt in K.
    assert (Hl : forall c h, In c cs -> cf h c = true -> exists pc, In pc (paths c) /\ existsb h pc = true).
    { intros c h Hc Cf. unfold cf in Cf. apply existsb_exists in Cf. destruct Cf as (l & Hl & Fl).
      destruct (leaf_in_path c) with (l := l) as (pc & Hpc & Hlpc); [apply (Hcs c Hc)|exact Hl|].
      exists pc. split; [exact Hpc|]. apply existsb_exists. exists l. split; assumption. }
    apply orb_prop in Pr. destruct Pr as [Pr|Pr].
    + destruct (kpaths_extend2 leaf_csv_h leaf_csv_t cs k Hs Hl) as (pi & H2 & H3 & H4); [lia|exact Pr|].
      exists pi. split; [exact H2|]. unfold path_mixes. rewrite H3, H4. reflexivity.
    + destruct (kpaths_extend2 leaf_cltv_h leaf_cltv_t cs k Hs Hl) as (pi & H2 & H3 & H4); [lia|exact Pr|].
      exists pi. split; [exact H2|]. unfold path_mixes. rewrite H3, H4. apply orb_true_r.
Qed.

Lemma mixed_complete : forall p, cwf p = true -> comb (timelock_info p) = true -> has_mixed_path p.
Proof.
  induction p using cpol_ind'; intros W C; try discriminate; try (cbn in C; discriminate).
  - eapply (node_mixed_exact (CAnd subs)); try reflexivity; eassumption.
  - eapply (node_mixed_exact (COr subs)); try reflexivity; eassumption.
  - eapply (node_mixed_exact (CThresh k subs)); try reflexivity; eassumption.
Qed.

(* the mixed-time-lock check fires exactly when some satisfying path needs both a height-based
   and a time-based lock of the same kind: every well-formed policy *)
Theorem mixed_exact p : cwf p = true -> (check_timelocks p = false <-> has_mixed_path p).
Proof.
  intro W. split; [|apply mixed_sound].
  unfold check_timelocks. intro H. apply negb_false_iff in H. apply mixed_complete; assumption.
Qed.

(* the executable form used by the oracle *)
Lemma mixed_b_spec p : mixed_b p = true <-> has_mixed_path p.
Proof.
  unfold mixed_b, has_mixed_path. rewrite existsb_exists. reflexivity.
Qed.
