(* C09: the executed-opcode count of table witnesses and of everything the satisfier model returns,
   against ExtData's figure (static_ops + max_exec_op_count), on the class [ops_traced]. *)
From Coq Require Import Lia.
From Verif Require Import Exec Ser Spend Ast Types TypeCheck SatSpec Sat ExecLemmas Spec TypesSpec ScriptNumProofs TheoremA SatProofs.
From Verif Require Import ExecTr ExtExec ExtDepthBase ExtModel ExtProofs ExtSize ExtOps OpsTraceBase OpsTrace DescSpendExamples.
Local Open Scope N_scope.

Arguments N.add : simpl never. Arguments N.max : simpl never. Arguments N.leb : simpl never.

(* every table satisfaction of a B-typed script: the instrumented run succeeds, ends accepted, and its
   consensus opcode count (opcodes of the script + keys of the CHECKMULTISIGs it executed) is within
   the path-sensitive bound *)
Theorem table_sat_ops (e : env) (ke : keyenv) (A : assets) :
  assets_ok e ke A -> (forall kbs, e_sigok e kbs [] = false) ->
  forall (m : ms) (t : ty), type_of m = ROk t -> c_base (t_corr t) = BB -> wf e ke m -> no_multi m ->
  multi_small m = true ->
  forall w, In w (all_sat ke A m) -> forall t0,
  exists v t', exec_tr e (enc ke m) (mkSt w []) t0 = Ok (mkSt [v] [], t') /\ truthy v = true
               /\ tr_cms t' <= tr_cms t0 + fst (pcms m).
Proof.
  intros HA Hse m t Ht Hb Hwf Hnm Hms w Hin t0.
  destruct (theoremA_closed e ke A HA Hse m t Ht Hwf Hnm) as [Hg _]. unfold good in Hg. rewrite Hb in Hg.
  destruct (proj1 Hg w [] [] Hin) as [v [Hr [Htr _]]]. rewrite app_nil_r in Hr.
  destruct (exec_tr_complete e _ _ t0 _ Hr) as [t' Ht'].
  exists v, t'. split; [exact Ht'|]. split; [exact Htr|].
  pose proof (proj1 (ops_trace_table e ke A HA Hse m t Ht Hwf Hnm Hms [] w [] []) Hin) as B.
  rewrite Hb in B. cbn [instk] in B. rewrite app_nil_r in B. exact (B _ _ _ Ht').
Qed.

Theorem table_sat_ops_within_figure (e : env) (ke : keyenv) (A : assets) :
  assets_ok e ke A -> (forall kbs, e_sigok e kbs [] = false) ->
  forall fx c (m : ms) (t : ty), type_of m = ROk t -> c_base (t_corr t) = BB -> wf e ke m -> no_multi m ->
  no_multi_a m = true -> multi_small m = true -> ops_traced fx c m = true ->
  forall w, In w (all_sat ke A m) -> forall t0,
  exists v t' n, exec_tr e (enc ke m) (mkSt w []) t0 = Ok (mkSt [v] [], t') /\ truthy v = true
                 /\ sat_op_count (ext_of_gen fx c m) = Some n
                 /\ count_ops (enc ke m) + (tr_cms t' - tr_cms t0) <= n.
Proof.
  intros HA Hse fx c m t Ht Hb Hwf Hnm Hna Hms Hc w Hin t0.
  destruct (table_sat_ops e ke A HA Hse m t Ht Hb Hwf Hnm Hms w Hin t0) as [v [t' [Hx [Hv Hle]]]].
  unfold ops_traced in Hc. unfold sat_op_count. destruct (sat_data (ext_of_gen fx c m)) as [d|]; [|discriminate].
  apply N.leb_le in Hc. exists v, t'. eexists. split; [exact Hx|]. split; [exact Hv|]. split; [reflexivity|].
  rewrite (static_ops_exact fx c ke m Hna). lia.
Qed.

(* composed with SatProofs.sat_in_table: everything the satisfier MODEL returns *)
Theorem satisfier_ops_bound (e : env) (ke : keyenv) (A : assets) (se : senv) (f : fill) :
  linked ke A se f -> (forall ks, length (ksort ke ks) = length ks) ->
  assets_ok e ke A -> (forall kbs, e_sigok e kbs [] = false) ->
  forall fx c (mall rhs : bool) (m : ms) (t : ty),
    type_of m = ROk t -> c_base (t_corr t) = BB -> wf e ke m -> no_multi m ->
    no_multi_a m = true -> multi_small m = true -> ops_traced fx c m = true ->
    forall bs, satisfy ke se f mall rhs m = Some bs -> forall t0,
    exists v t' n, exec_tr e (enc ke m) (mkSt (rev bs) []) t0 = Ok (mkSt [v] [], t') /\ truthy v = true
                   /\ sat_op_count (ext_of_gen fx c m) = Some n
                   /\ count_ops (enc ke m) + (tr_cms t' - tr_cms t0) <= n.
Proof.
  intros HL Hks HA Hse fx c mall rhs m t Ht Hb Hwf Hnm Hna Hms Hc bs Hsat t0.
  unfold satisfy in Hsat. destruct (s_stack (snd (sat_dissat ke se mall rhs m))) as [l| |] eqn:Es; try discriminate.
  destruct (sat_in_table ke A se f HL Hks mall rhs m (wf_kwf e ke m Hwf)) as [_ Hs].
  exact (table_sat_ops_within_figure e ke A HA Hse fx c m t Ht Hb Hwf Hnm Hna Hms Hc _ (Hs l bs Es Hsat) t0).
Qed.

(* ---- the class is strictly larger than ops_covered: it contains the script on which the all-executions
   form is refuted (ExtOps.exec_ops_all_executions_refuted) ---- *)
Lemma ops_traced_strict :
  ops_covered as_written cx_segwit rf_ms = false /\ ops_traced as_written cx_segwit rf_ms = true
  /\ pcms rf_ms = (3, 3) /\ sat_op_count (ext_of_gen as_written cx_segwit rf_ms) = Some 19.
Proof. vm_compute. repeat split; reflexivity. Qed.

(* skipped multis below or_b / thresh / wrappers are inside: or_b(j:multi(1,A,B,C), a:j:multi(1,D,E,F)) and
   thresh(1, j:multi(1,A,B,C), aj:multi(1,D,E,F), aj:multi(1,G,H)): figure 3 keys, all-paths bound 6 resp. 8 *)
Definition ot_orb : ms := MOrB (MNonZero (MMulti 1 [0; 1; 2])) (MAlt (MNonZero (MMulti 1 [3; 4; 5]))).
Definition ot_thr : ms :=
  MThresh 1 [MNonZero (MMulti 1 [0; 1; 2]); MAlt (MNonZero (MMulti 1 [3; 4; 5])); MAlt (MNonZero (MMulti 1 [6; 7]))].
Lemma ops_traced_orb_thresh :
  ops_covered as_written cx_segwit ot_orb = false /\ ops_traced as_written cx_segwit ot_orb = true
  /\ pcms ot_orb = (3, 0) /\ ast_cms ot_orb = 6
  /\ ops_covered as_written cx_segwit ot_thr = false /\ ops_traced as_written cx_segwit ot_thr = true
  /\ pcms ot_thr = (3, 0) /\ ast_cms ot_thr = 8.
Proof. vm_compute. repeat split; reflexivity. Qed.

(* ---- what is still outside: [pcms] takes the maximum over the alternatives of the TABLE (both operands of an
   or, every k-subset of a thresh), ExtData only over those for which a figure exists.  A branch that is
   statically unsatisfiable (sat_data = None, i.e. it contains `0` conjunctively) and contains a multi is
   counted by pcms and not by the figure: or_d(pk(A), and_v(v:multi(1,B,C,D), 0)): figure 0 keys, pcms 3.
   No table satisfaction takes that branch (all_sat of it is empty), so the statement is not refuted there;
   it is not derived because pcms is not option-valued. ---- *)
Definition ot_open : ms := MOrD (MCheck (MPkK 0)) (MAndV (MVerify (MMulti 1 [1; 2; 3])) MFalse).
Lemma ops_traced_open :
  (exists t, type_of ot_open = ROk t) /\ ops_traced as_written cx_segwit ot_open = false /\ fst (pcms ot_open) = 3
  /\ option_map sd_eops (sat_data (ext_of_gen as_written cx_segwit ot_open)) = Some 0
  /\ sat_data (ext_of_gen as_written cx_segwit (MAndV (MVerify (MMulti 1 [1; 2; 3])) MFalse)) = None
  /\ forall ke A, all_sat ke A (MAndV (MVerify (MMulti 1 [1; 2; 3])) MFalse) = [].
Proof.
  split; [eexists; vm_compute; reflexivity|]. split; [vm_compute; reflexivity|]. split; [vm_compute; reflexivity|].
  split; [vm_compute; reflexivity|]. split; [vm_compute; reflexivity|].
  intros ke A. rewrite (sat_and_v ke A). change (all_sat ke A MFalse) with (@nil wit).
  unfold cross. induction (all_sat ke A (MVerify (MMulti 1 [1; 2; 3]))) as [|a l0 IH]; [reflexivity|exact IH].
Qed.

(* ---- non-vacuity: a concrete world (DescSpendExamples: key 0 signs), a script outside ops_covered with
   multi under or_i and under thresh; all hypotheses hold, the satisfier returns a witness, and the run
   of that witness counts 18 + 2 = 20 <= 22 (the figure; all-paths bound 18 + 5 = 23); computed by vm_compute ---- *)
Definition ot_ms : ms :=
  MOrI (MThresh 1 [MMulti 1 [0; 1]; MAlt (MMulti 1 [2; 3])])
       (MOrD (MNonZero (MMulti 1 [1; 2; 3])) (MMulti 1 [0; 4])).
Definition ot_e : env := with_sv ex_env SvWitnessV0.

Lemma ot_nonvacuous :
  linked ex_ke ex_A (ex_se false) (ex_f ex_ke) /\ assets_ok ot_e ex_ke ex_A
  /\ (exists t, type_of ot_ms = ROk t /\ c_base (t_corr t) = BB) /\ wf ot_e ex_ke ot_ms /\ no_multi ot_ms
  /\ no_multi_a ot_ms = true /\ multi_small ot_ms = true
  /\ ops_covered as_written cx_segwit ot_ms = false /\ ops_traced as_written cx_segwit ot_ms = true
  /\ (exists bs, satisfy ex_ke (ex_se false) (ex_f ex_ke) false true ot_ms = Some bs
        /\ exists st' t', exec_tr ot_e (enc ex_ke ot_ms) (mkSt (rev bs) []) (mkTrace 0 0) = Ok (st', t')
             /\ stk st' = [[1]]
             /\ count_ops (enc ex_ke ot_ms) + tr_cms t' <= 22
             /\ sat_op_count (ext_of_gen as_written cx_segwit ot_ms) = Some 22).
Proof.
  split; [apply ex_linked|]. split; [apply ex_assets_ok; [apply ex_ke_len|reflexivity]|].
  split; [eexists; split; vm_compute; reflexivity|].
  split; [cbn; repeat split; try lia; try reflexivity|].
  split; [cbn; tauto|].
  split; [reflexivity|]. split; [reflexivity|]. split; [vm_compute; reflexivity|]. split; [vm_compute; reflexivity|].
  eexists. split; [vm_compute; reflexivity|]. eexists. eexists. split; [vm_compute; reflexivity|].
  split; [reflexivity|]. split; [apply N.leb_le; vm_compute; reflexivity | vm_compute; reflexivity].
Qed.
