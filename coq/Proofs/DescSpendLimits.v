(* The explicit resource-limit hypotheses of the P2WSH spend theorem, restated over the
   COMPUTABLE figures the library itself checks:
     script bytes      = script_size                (C04: blen (encode m) = script_size m)
     non-push opcodes  = static_ops of ExtData      (C09: count_ops (enc m) = static_ops, no multi_a)
     number of items  <= max_sat_elems (sd_wcount)  (C09: wit_bounds_root, class ext_safe)
   The 80-byte item limit has no static counterpart in the library and stays explicit. *)
From Verif Require Import Exec Ser Spend Ast Types TypeCheck SatSpec Sat ExecLemmas TheoremA SatProofs.
From Verif Require Import CodecSpec CodecExt SerProofs EncProofs DescSpendModel DescSpendPush DescSpendProofs.
From Verif Require Import ExecTr ExtModel ExtProofs ExtBounds ExtSize.
From Coq Require Import Lia.
Local Open Scope N_scope.

Lemma count_nonpush_is_count_ops s : count_nonpush_ops s = count_ops s.
Proof. induction s as [|i r IH]; [reflexivity|]. unfold count_nonpush_ops in *.
  cbn [fold_right count_ops]. rewrite IH. reflexivity. Qed.

Lemma fill_all_length f : forall l bs, fill_all f l = Some bs -> length bs = length l.
Proof.
  induction l as [|p r IH]; intros bs H; cbn [fill_all] in H.
  - inversion H. reflexivity.
  - destruct (fill_ph f p); [|discriminate]. destruct (fill_all f r) as [bs'|] eqn:E; [|discriminate].
    inversion H; subst. cbn [length]. f_equal. apply IH. reflexivity.
Qed.

Theorem wsh_spends_computable (e : env) (ke : keyenv) (A : assets) (se : senv) (f : fill) :
  linked ke A se f -> ksort_ok ke -> (forall kbs, e_sigok e kbs [] = false) ->
  forall (mall rhs : bool) (m : ms) (t : ty),
    type_of m = ROk t -> c_base (t_corr t) = BB -> no_multi m ->
  forall bs, satisfy ke se f mall rhs m = Some bs ->
    assets_ok (with_sv e SvWitnessV0) ke A -> wf (with_sv e SvWitnessV0) ke m -> ms_wf Segwitv0 ke m ->
  forall xc : xctx, senv_ok xc se -> ext_safe as_written xc m = true -> no_multi_a m = true ->
    CodecExt.script_size Segwitv0 ke m <= 3600 ->
    static_ops (ext_of xc m) <= 201 ->
    (forall d, sat_data (ext_of xc m) = Some d -> sd_wcount d <= 100) ->
    forallb (fun it => N.leb (blen it) 80) (rev bs) = true ->
    verify_wsh e (e_sha256 e (encode ke m)) (bs ++ [encode ke m]) = true.
Proof.
  intros HL Hks Hse mall rhs m t Ht Hb Hnm bs Hsat HA Hwf Hmw xc Hsenv Hsafe Hnma Hsz Hops Hcnt Hit.
  apply (wsh_spends_v2 e ke A se f HL Hks Hse mall rhs m t Ht Hb Hnm bs Hsat HA Hwf Hmw); [ | | exact Hit | ].
  - rewrite (script_size_ok Segwitv0 ke Hks m Hmw). exact Hsz.
  - unfold satisfy in Hsat. destruct (s_stack (snd (sat_dissat ke se mall rhs m))) as [l| |] eqn:El; try discriminate.
    destruct (wit_bounds_root as_written xc ke se mall rhs m l Hsenv (ksort_ok_len ke Hks) Hsafe El) as [d [Hd [Hc _]]].
    rewrite (fill_all_length f l bs Hsat). specialize (Hcnt d Hd). lia.
  - rewrite count_nonpush_is_count_ops, (static_ops_exact as_written xc ke m Hnma). exact Hops.
Qed.
