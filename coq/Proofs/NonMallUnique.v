(* C03, table level: what the non-malleable satisfier returns is the ONLY table entry a third
   party can build.

   Setting.  The honest satisfier holds the assets [A] (linked to its [senv]/[fill] view) and
   runs in non-malleable mode.  A third party is described by an asset set [B] "below" [A]:
     - every signature of [B] is a signature of [A] (no forgery)                       [bl_sig]
     - the preimages [B] knows never contradict the ones [A] knows (no second preimage
       of a hash [A] can open); [B] may know preimages [A] does not know               [bl_pre]
     - the same lock environment (nLockTime / nSequence are fixed by the transaction)  [bl_after/older]
   and by which signatures it can see: [vis B K l] says that among the keys [K] the only
   signatures [B] holds are those whose placeholder occurs in the published template [l].

   Invariant (per fragment, for the dissatisfaction and the satisfaction the model returns,
   against the table of EVERY such [B]):  [J K c T]
     j_imp : c Impossible            -> T B = []                      (B cannot do it either)
     j_sig : c marked has_sig        -> B has no signature for K -> T B = []
     j_stk : c = Stack l (bytes bs)  -> vis B K l -> every entry of T B equals rev bs
     j_keys: the signatures in l are signatures of keys of the fragment
   plus the static facts of the malleability type system that make the invariant inductive:
     s  -> the satisfaction is Impossible or carries a signature              [u_sig]
     f  -> the dissatisfaction is Impossible or carries a signature           [u_dn]
     e  (and m) -> the dissatisfaction is a signature-free, lock-free Stack   [u_du]
   [minimum] (has_sig bookkeeping: prefer the signature-free candidate, Unavailable when there
   are two) is exactly what makes j_stk go through an "or"; "e" of the left operand is what
   makes the other candidate of or_d / or_c / or_b / andor die when the third party only sees
   the signatures of the chosen one; key-disjointness (no repeated keys) is what confines the
   visible signatures to the branch they were used in. *)
From Verif Require Import Exec Ser Ast Types TypeCheck SatSpec Sat ExecLemmas TheoremA SatProofs
  CompleteProofs CompleteThresh CompleteNonMall HasSigProofs.
From Coq Require Import Lia Permutation.

(* the keys of a fragment (pk_k, pk_h, multi*, in order of appearance; raw_pk_h has no key) *)
Fixpoint ukeys (m : ms) : list key :=
  match m with
  | MPkK k | MPkH k => [k]
  | MMulti _ ks | MSortedMulti _ ks | MMultiA _ ks | MSortedMultiA _ ks => ks
  | MAlt x | MSwap x | MCheck x | MDupIf x | MVerify x | MNonZero x | MZeroNotEqual x => ukeys x
  | MAndV x y | MAndB x y | MOrB x y | MOrD x y | MOrC x y | MOrI x y => ukeys x ++ ukeys y
  | MAndOr a b c => ukeys a ++ ukeys b ++ ukeys c
  | MThresh _ xs => flat_map ukeys xs
  | _ => []
  end.

(* a third party's assets relative to the honest assets *)
Record below (A B : assets) : Prop := {
  bl_sig : forall k s, a_sig B k = Some s -> a_sig A k = Some s;
  bl_pre : forall kd h p p', look A kd h = Some p -> look B kd h = Some p' -> p' = p;
  bl_after : forall t, a_after B t = a_after A t;
  bl_older : forall t, a_older B t = a_older A t
}.
Definition nosigs (B : assets) (K : list key) : Prop := forall k, In k K -> a_sig B k = None.
Definition vis (B : assets) (K : list key) (l : list ph) : Prop :=
  forall k, In k K -> a_sig B k <> None -> In (PhSig k) l.
Definition disj (K1 K2 : list key) : Prop := forall k, In k K1 -> In k K2 -> False.

Lemma disj_sym K1 K2 : disj K1 K2 -> disj K2 K1.
Proof. intros H k H1 H2. exact (H k H2 H1). Qed.
Lemma nodup_app_disj (K1 K2 : list key) : NoDup (K1 ++ K2) -> NoDup K1 /\ NoDup K2 /\ disj K1 K2.
Proof.
  induction K1 as [|x r IH]; cbn [app]; intros H.
  - split; [constructor|]. split; [exact H|]. intros k [].
  - inversion H as [|? ? Hx Hr]; subst. destruct (IH Hr) as [N1 [N2 D]]. split; [|split].
    + constructor; [|exact N1]. intros Hi. apply Hx. apply in_or_app. left. exact Hi.
    + exact N2.
    + intros k [<-|Hk] H2; [apply Hx; apply in_or_app; right; exact H2 | exact (D k Hk H2)].
Qed.
Lemma disj_app_r K1 K2 K3 : disj K1 K2 -> disj K1 K3 -> disj K1 (K2 ++ K3).
Proof. intros H2 H3 k H1 H. apply in_app_or in H. destruct H; [exact (H2 k H1 H) | exact (H3 k H1 H)]. Qed.
Lemma disj_app_l K1 K2 K3 : disj K1 K3 -> disj K2 K3 -> disj (K1 ++ K2) K3.
Proof. intros H1 H2 k H H3. apply in_app_or in H. destruct H; [exact (H1 k H H3) | exact (H2 k H H3)]. Qed.

Lemma nosigs_incl B K K' : incl K' K -> nosigs B K -> nosigs B K'.
Proof. intros Hi H k Hk. apply H, Hi, Hk. Qed.
Lemma vis_incl B K K' l : incl K' K -> vis B K l -> vis B K' l.
Proof. intros Hi H k Hk. apply H, Hi, Hk. Qed.
Lemma vis_nosig_nosigs B K l : vis B K l -> Forall nosig l -> nosigs B K.
Proof.
  intros Hv Hn k Hk. destruct (a_sig B k) as [s|] eqn:E; [exfalso | reflexivity].
  assert (Hin : In (PhSig k) l) by (apply Hv; [exact Hk | congruence]).
  rewrite Forall_forall in Hn. exact (Hn _ Hin).
Qed.
(* the signatures visible in [l] belong to keys K1; K2 is disjoint from K1: nothing of K2 is visible *)
Lemma vis_disj_nosigs B K K1 K2 l : vis B K l -> (forall k, In (PhSig k) l -> In k K1) ->
  disj K1 K2 -> incl K2 K -> nosigs B K2.
Proof.
  intros Hv Hl Hd Hi k Hk. destruct (a_sig B k) as [s|] eqn:E; [exfalso | reflexivity].
  assert (Hin : In (PhSig k) l) by (apply Hv; [apply Hi, Hk | congruence]).
  exact (Hd k (Hl k Hin) Hk).
Qed.

Lemma cross_nil_l (T : list wit) : cross [] T = [].
Proof. reflexivity. Qed.

Lemma concat_sig_inv a b : s_has_sig (concatenate_rev a b) = true -> s_has_sig a = true \/ s_has_sig b = true.
Proof.
  unfold concatenate_rev. destruct (is_imp (s_stack a) || is_imp (s_stack b)); [discriminate|].
  destruct (merge_lock rel_max (s_rel a) (s_rel b)); [|discriminate].
  destruct (merge_lock abs_max (s_abs a) (s_abs b)); [|discriminate].
  cbn [s_has_sig]. intros H. apply Bool.orb_true_iff in H. exact H.
Qed.
Lemma clean_nosig_stack c l : clean c -> P c -> s_stack c = WStack l -> Forall nosig l.
Proof. intros [_ [Hs _]] Hp Hl. exact (Hp Hs l Hl). Qed.

Section Uniq.
  Variable ke : keyenv.
  Variable A : assets.
  Variable se : senv.
  Variable f : fill.
  Hypothesis L : linked ke A se f.
  (* one nLockTime, one nSequence: two met locks of the same kind have the same unit *)
  Hypothesis Habs_unit : forall t1 t2, se_after se t1 = true -> se_after se t2 = true ->
    Bool.eqb (N.ltb t1 500000000) (N.ltb t2 500000000) = true.
  Hypothesis Hrel_unit : forall t1 t2, se_older se t1 = true -> se_older se t2 = true ->
    Bool.eqb (rel_is_time t1) (rel_is_time t2) = true.

  Lemma concat_imp_inv a b : held se a -> held se b ->
    is_imp (s_stack (concatenate_rev a b)) = true -> is_imp (s_stack a) = true \/ is_imp (s_stack b) = true.
  Proof.
    intros [Ha1 Ha2] [Hb1 Hb2]. unfold concatenate_rev.
    destruct (is_imp (s_stack a)) eqn:Ia; [auto|]. destruct (is_imp (s_stack b)) eqn:Ib; [auto|]. cbn [orb].
    assert (Hr : exists r, merge_lock rel_max (s_rel a) (s_rel b) = Some r).
    { destruct (s_rel a) as [x|] eqn:Ex, (s_rel b) as [y|] eqn:Ey; cbn [merge_lock]; eauto.
      destruct (rel_max_held se Hrel_unit x y (Ha2 x eq_refl) (Hb2 y eq_refl)) as [t [E _]]. rewrite E. eauto. }
    assert (Hab : exists r, merge_lock abs_max (s_abs a) (s_abs b) = Some r).
    { destruct (s_abs a) as [x|] eqn:Ex, (s_abs b) as [y|] eqn:Ey; cbn [merge_lock]; eauto.
      destruct (abs_max_held se Habs_unit x y (Ha1 x eq_refl) (Hb1 y eq_refl)) as [t [E _]]. rewrite E. eauto. }
    destruct Hr as [r ->]. destruct Hab as [ab ->]. cbn [s_stack].
    destruct (s_stack a), (s_stack b); cbn in *; congruence.
  Qed.

  (* ---------- the invariant on one component (a dissatisfaction or a satisfaction) ---------- *)
  Record J (K : list key) (c : satn) (T : assets -> list wit) : Prop := mkJ {
    j_held : held se c;
    j_bk : P c;
    j_keys : forall l k, s_stack c = WStack l -> In (PhSig k) l -> In k K;
    j_imp : is_imp (s_stack c) = true -> forall B, below A B -> T B = [];
    j_sig : s_has_sig c = true -> forall B, below A B -> nosigs B K -> T B = [];
    j_stk : forall l bs, s_stack c = WStack l -> fill_all f l = Some bs ->
            forall B, below A B -> vis B K l -> forall w', In w' (T B) -> w' = rev bs
  }.

  Lemma J_weaken K K' c T : incl K K' -> J K c T -> J K' c T.
  Proof.
    intros Hi H. constructor.
    - apply H. - apply H.
    - intros l k Hl Hk. apply Hi. exact (j_keys _ _ _ H l k Hl Hk).
    - apply H.
    - intros Hs B HB Hn. apply (j_sig _ _ _ H Hs B HB). exact (nosigs_incl B K' K Hi Hn).
    - intros l bs Hl Hf B HB Hv. apply (j_stk _ _ _ H l bs Hl Hf B HB). exact (vis_incl B K' K l Hi Hv).
  Qed.
  Lemma J_ext K c T T' : (forall B, T' B = T B) -> J K c T -> J K c T'.
  Proof.
    intros E H. constructor; try apply H.
    - intros Hi B HB. rewrite E. exact (j_imp _ _ _ H Hi B HB).
    - intros Hs B HB Hn. rewrite E. exact (j_sig _ _ _ H Hs B HB Hn).
    - intros l bs Hl Hf B HB Hv w'. rewrite E. exact (j_stk _ _ _ H l bs Hl Hf B HB Hv w').
  Qed.

  Lemma J_nostack K c T : held se c -> s_has_sig c = false -> is_imp (s_stack c) = false ->
    (forall l, s_stack c <> WStack l) -> J K c T.
  Proof.
    intros Hh Hs Hi Hn. constructor.
    - exact Hh.
    - intros _ l Hl. exfalso. exact (Hn l Hl).
    - intros l k Hl. exfalso. exact (Hn l Hl).
    - intros E. congruence.
    - intros E. congruence.
    - intros l bs Hl. exfalso. exact (Hn l Hl).
  Qed.
  Lemma J_unavail K T : J K UNAVAILABLE T.
  Proof. apply J_nostack; try reflexivity; [apply held_const | discriminate]. Qed.
  Lemma J_impossible K T : (forall B, below A B -> T B = []) -> J K IMPOSSIBLE T.
  Proof.
    intros H. constructor.
    - apply held_const.
    - apply P_imp.
    - cbn. discriminate.
    - intros _ B HB. exact (H B HB).
    - cbn. discriminate.
    - cbn. discriminate.
  Qed.
  (* a constant signature-free, lock-free stack *)
  Lemma J_const K l bs T : Forall nosig l -> fill_all f l = Some bs ->
    (forall B, below A B -> forall w', In w' (T B) -> w' = rev bs) ->
    J K (mkSat (WStack l) false None None) T.
  Proof.
    intros Hn Hf H. constructor; cbn [s_stack s_has_sig is_imp].
    - apply held_const.
    - intros _ l' Hl. inversion Hl; subst. exact Hn.
    - intros l' k Hl Hk. inversion Hl; subst. rewrite Forall_forall in Hn. destruct (Hn _ Hk).
    - discriminate.
    - discriminate.
    - intros l' bs' Hl Hf' B HB _ w' Hw. inversion Hl; subst. rewrite Hf in Hf'. inversion Hf'; subst. exact (H B HB w' Hw).
  Qed.

  Lemma J_concat Ka Kb a b Ta Tb : disj Ka Kb -> J Ka a Ta -> J Kb b Tb ->
    J (Ka ++ Kb) (concatenate_rev a b) (fun B => cross (Ta B) (Tb B)).
  Proof.
    intros Hd Ha Hb. constructor.
    - apply concat_held; [apply Ha | apply Hb].
    - apply P_concat; [apply Ha | apply Hb].
    - intros l k Hs Hin. apply concat_stack in Hs. destruct Hs as [la [lb [Ea [Eb ->]]]].
      apply in_or_app. apply in_app_or in Hin. destruct Hin as [Hin|Hin];
        [right; exact (j_keys _ _ _ Hb lb k Eb Hin) | left; exact (j_keys _ _ _ Ha la k Ea Hin)].
    - intros Hi B HB. destruct (concat_imp_inv a b (j_held _ _ _ Ha) (j_held _ _ _ Hb) Hi) as [H|H].
      + rewrite (j_imp _ _ _ Ha H B HB). reflexivity.
      + rewrite (j_imp _ _ _ Hb H B HB). apply cross_nil_r.
    - intros Hs B HB Hn. destruct (concat_sig_inv a b Hs) as [H|H].
      + rewrite (j_sig _ _ _ Ha H B HB); [reflexivity|]. intros k Hk. apply Hn. apply in_or_app. left. exact Hk.
      + rewrite (j_sig _ _ _ Hb H B HB); [apply cross_nil_r|]. intros k Hk. apply Hn. apply in_or_app. right. exact Hk.
    - intros l bs Hs Hf B HB Hv w' Hw. apply concat_stack in Hs. destruct Hs as [la [lb [Ea [Eb ->]]]].
      apply fill_all_app in Hf. destruct Hf as [bb [ba [Fb [Fa ->]]]]. rewrite rev_app_distr.
      apply in_cross in Hw. destruct Hw as [wa [wb [Hwa [Hwb ->]]]]. f_equal.
      + apply (j_stk _ _ _ Ha la ba Ea Fa B HB); [|exact Hwa]. intros k Hk Hs.
        assert (Hin : In (PhSig k) (lb ++ la)) by (apply Hv; [apply in_or_app; left; exact Hk | exact Hs]).
        apply in_app_or in Hin. destruct Hin as [Hin|Hin]; [|exact Hin].
        exfalso. exact (Hd k Hk (j_keys _ _ _ Hb lb k Eb Hin)).
      + apply (j_stk _ _ _ Hb lb bb Eb Fb B HB); [|exact Hwb]. intros k Hk Hs.
        assert (Hin : In (PhSig k) (lb ++ la)) by (apply Hv; [apply in_or_app; right; exact Hk | exact Hs]).
        apply in_app_or in Hin. destruct Hin as [Hin|Hin]; [exact Hin|].
        exfalso. exact (Hd k (j_keys _ _ _ Ha la k Ea Hin) Hk).
  Qed.

  (* [a] is kept as the result of a [minimum]: the other candidate's table must be empty whenever
     the invariant speaks *)
  Lemma J_pick_l K a Ta Tb : J K a Ta ->
    (is_imp (s_stack a) = true -> forall B, below A B -> Tb B = []) ->
    (s_has_sig a = true -> forall B, below A B -> nosigs B K -> Tb B = []) ->
    (forall l, s_stack a = WStack l -> forall B, below A B -> vis B K l -> Tb B = []) ->
    J K a (fun B => Ta B ++ Tb B).
  Proof.
    intros Ha H1 H2 H3. constructor; try apply Ha.
    - intros Hi B HB. rewrite (j_imp _ _ _ Ha Hi B HB), (H1 Hi B HB). reflexivity.
    - intros Hs B HB Hn. rewrite (j_sig _ _ _ Ha Hs B HB Hn), (H2 Hs B HB Hn). reflexivity.
    - intros l bs Hl Hf B HB Hv w' Hw. rewrite (H3 l Hl B HB Hv), app_nil_r in Hw.
      exact (j_stk _ _ _ Ha l bs Hl Hf B HB Hv w' Hw).
  Qed.
  Lemma J_pick_r K b Ta Tb : J K b Tb ->
    (is_imp (s_stack b) = true -> forall B, below A B -> Ta B = []) ->
    (s_has_sig b = true -> forall B, below A B -> nosigs B K -> Ta B = []) ->
    (forall l, s_stack b = WStack l -> forall B, below A B -> vis B K l -> Ta B = []) ->
    J K b (fun B => Ta B ++ Tb B).
  Proof.
    intros Hb H1 H2 H3. constructor; try apply Hb.
    - intros Hi B HB. rewrite (j_imp _ _ _ Hb Hi B HB), (H1 Hi B HB). reflexivity.
    - intros Hs B HB Hn. rewrite (j_sig _ _ _ Hb Hs B HB Hn), (H2 Hs B HB Hn). reflexivity.
    - intros l bs Hl Hf B HB Hv w' Hw. rewrite (H3 l Hl B HB Hv) in Hw. cbn [app] in Hw.
      exact (j_stk _ _ _ Hb l bs Hl Hf B HB Hv w' Hw).
  Qed.

  (* [minimum]: the two candidates' tables are appended.  When both candidates carry a signature the
     caller must show that publishing one of them does not enable the other ([Xab], [Xba]). *)
  Lemma J_min K a b Ta Tb : J K a Ta -> J K b Tb ->
    (s_has_sig a = true -> s_has_sig b = true -> forall l, s_stack a = WStack l ->
       forall B, below A B -> vis B K l -> Tb B = []) ->
    (s_has_sig a = true -> s_has_sig b = true -> forall l, s_stack b = WStack l ->
       forall B, below A B -> vis B K l -> Ta B = []) ->
    J K (minimum se a b) (fun B => Ta B ++ Tb B).
  Proof.
    intros Ha Hb Xab Xba. unfold minimum.
    destruct (is_imp (s_stack a)) eqn:Ia.
    { apply J_pick_r; [exact Hb | | |]; intros; exact (j_imp _ _ _ Ha Ia _ ltac:(eassumption)). }
    destruct (is_imp (s_stack b)) eqn:Ib.
    { apply J_pick_l; [exact Ha | | |]; intros; try congruence; exact (j_imp _ _ _ Hb Ib _ ltac:(eassumption)). }
    destruct a as [wa ga aa ra], b as [wb gb ab rb]. cbn [s_stack s_has_sig s_abs s_rel] in *.
    destruct ga, gb.
    - destruct (wit_lt se wa wb).
      + apply J_pick_l; [exact Ha | cbn [s_stack]; congruence | |].
        * intros _ B HB Hn. exact (j_sig _ _ _ Hb eq_refl B HB Hn).
        * intros l Hl B HB Hv. exact (Xab eq_refl eq_refl l Hl B HB Hv).
      + apply J_pick_r; [exact Hb | cbn [s_stack]; congruence | |].
        * intros _ B HB Hn. exact (j_sig _ _ _ Ha eq_refl B HB Hn).
        * intros l Hl B HB Hv. exact (Xba eq_refl eq_refl l Hl B HB Hv).
    - (* b is signature-free: it is kept *)
      apply J_pick_r; [exact Hb | cbn [s_stack]; congruence | discriminate |].
      intros l Hl B HB Hv. apply (j_sig _ _ _ Ha eq_refl B HB).
      apply (vis_nosig_nosigs B K l Hv). exact (j_bk _ _ _ Hb eq_refl l Hl).
    - apply J_pick_l; [exact Ha | cbn [s_stack]; congruence | discriminate |].
      intros l Hl B HB Hv. apply (j_sig _ _ _ Hb eq_refl B HB).
      apply (vis_nosig_nosigs B K l Hv). exact (j_bk _ _ _ Ha eq_refl l Hl).
    - apply J_unavail.
  Qed.

  Lemma J_push K c T p v : nosig p -> fill_ph f p = Some v -> J K c T ->
    J K (pushed c p) (fun B => map (cons v) (T B)).
  Proof.
    intros Hp Hv H. unfold pushed. constructor; cbn [with_stack s_stack s_has_sig s_abs s_rel].
    - destruct (j_held _ _ _ H) as [H1 H2]. split; assumption.
    - apply P_with_stack; [exact Hp | apply H].
    - intros l k Hl Hk. destruct (s_stack c) as [lc| |] eqn:Ec; cbn in Hl; try discriminate. inversion Hl; subst.
      apply in_app_or in Hk. destruct Hk as [Hk|[Hk|[]]]; [exact (j_keys _ _ _ H lc k Ec Hk)|].
      subst p. destruct Hp.
    - intros Hi B HB. destruct (s_stack c) as [lc| |] eqn:Ec; cbn in Hi; try discriminate.
      rewrite (j_imp _ _ _ H ltac:(rewrite Ec; reflexivity) B HB). reflexivity.
    - intros Hs B HB Hn. rewrite (j_sig _ _ _ H Hs B HB Hn). reflexivity.
    - intros l bs Hl Hf B HB Hvis w' Hw. destruct (s_stack c) as [lc| |] eqn:Ec; cbn in Hl; try discriminate. inversion Hl; subst.
      apply fill_all_app in Hf. destruct Hf as [b1 [b2 [F1 [F2 ->]]]]. cbn [fill_all] in F2. rewrite Hv in F2. inversion F2; subst.
      rewrite rev_app_distr. cbn [rev app]. apply in_map_iff in Hw. destruct Hw as [w0 [<- Hw0]]. f_equal.
      apply (j_stk _ _ _ H lc b1 Ec F1 B HB); [|exact Hw0].
      intros k Hk Hs. specialize (Hvis k Hk Hs). apply in_app_or in Hvis. destruct Hvis as [Hin|[Hin|[]]]; [exact Hin|].
      subst p. destruct Hp.
  Qed.

  (* ---------- the invariant on a fragment: static part + J on both components ---------- *)
  Record uinv (K : list key) (ds : satn * satn) (TD TS : assets -> list wit) (ml : mall) : Prop := mkU {
    u_hd : held se (fst ds);
    u_hs : held se (snd ds);
    u_sig : m_signed ml = true -> ios (snd ds);
    u_dn : m_dissat ml = DNone -> ios (fst ds);
    u_du : m_nm ml = true -> m_dissat ml = DUnique -> clean (fst ds);
    u_jd : m_nm ml = true -> J K (fst ds) TD;
    u_js : m_nm ml = true -> J K (snd ds) TS
  }.

  Lemma uinv_ext K ds TD TS TD' TS' ml : (forall B, TD' B = TD B) -> (forall B, TS' B = TS B) ->
    uinv K ds TD TS ml -> uinv K ds TD' TS' ml.
  Proof.
    intros E1 E2 H. constructor; try apply H.
    - intros E. exact (J_ext K _ TD TD' E1 (u_jd _ _ _ _ _ H E)).
    - intros E. exact (J_ext K _ TS TS' E2 (u_js _ _ _ _ _ H E)).
  Qed.

  Lemma J_push0 K T : (forall B, T B = [[[]]]) -> J K push_0 T.
  Proof.
    intros E. apply (J_const K [PhPushZero] [[]]); [repeat constructor | reflexivity|].
    intros B _ w' Hw. rewrite E in Hw. destruct Hw as [<-|[]]. reflexivity.
  Qed.

  (* ---------- wrappers ---------- *)
  Lemma ut_dupif K ds TD TS ml : uinv K ds TD TS ml ->
    uinv K (push_0, pushed (snd ds) PhPushOne) (fun _ => [[[]]]) (fun B => map (cons [1%N]) (TS B)) (m_cast_dupif ml).
  Proof.
    intros H. destruct ml as [d s n]. cbn [m_cast_dupif m_dissat m_signed m_nm] in *. constructor; mall_simpl.
    - apply held_const.
    - apply held_push, (u_hs _ _ _ _ _ H).
    - intros E. apply ios_push, (u_sig _ _ _ _ _ H E).
    - destruct d; discriminate.
    - intros _ _. apply clean_push0.
    - intros _. apply J_push0. reflexivity.
    - intros E. apply (J_push K _ TS PhPushOne [1%N]); [exact I | reflexivity | exact (u_js _ _ _ _ _ H E)].
  Qed.
  Lemma ut_verify K ds TD TS ml : uinv K ds TD TS ml -> uinv K (IMPOSSIBLE, snd ds) (fun _ => []) TS (m_cast_verify ml).
  Proof.
    intros H. destruct ml as [d s n]. cbn [m_cast_verify m_dissat m_signed m_nm] in *. constructor; mall_simpl.
    - apply held_const.
    - apply (u_hs _ _ _ _ _ H).
    - apply (u_sig _ _ _ _ _ H).
    - intros _. apply ios_imp.
    - intros _ E. discriminate.
    - intros _. apply J_impossible. reflexivity.
    - apply (u_js _ _ _ _ _ H).
  Qed.
  Lemma ut_nonzero K ds TD TS ml : uinv K ds TD TS ml -> uinv K (push_0, snd ds) (fun _ => [[[]]]) TS (m_cast_nonzero ml).
  Proof.
    intros H. destruct ml as [d s n]. cbn [m_cast_nonzero m_dissat m_signed m_nm] in *. constructor; mall_simpl.
    - apply held_const.
    - apply (u_hs _ _ _ _ _ H).
    - apply (u_sig _ _ _ _ _ H).
    - destruct d; discriminate.
    - intros _ _. apply clean_push0.
    - intros _. apply J_push0. reflexivity.
    - apply (u_js _ _ _ _ _ H).
  Qed.

  (* ---------- conjunctions ---------- *)
  Lemma ut_and_v Kl Kr l r DL SL DR SR ml mr : disj Kl Kr -> uinv Kl l DL SL ml -> uinv Kr r DR SR mr ->
    uinv (Kl ++ Kr) (concatenate_rev (snd l) (fst r), concatenate_rev (snd l) (snd r))
         (fun B => cross (SL B) (DR B)) (fun B => cross (SL B) (SR B)) (m_and_v ml mr).
  Proof.
    intros Hd Hl Hr. destruct ml as [dl sl nl], mr as [dr sr nr]. cbn [m_and_v m_dissat m_signed m_nm] in *.
    constructor; mall_simpl.
    - apply concat_held; [apply (u_hs _ _ _ _ _ Hl) | apply (u_hd _ _ _ _ _ Hr)].
    - apply concat_held; [apply (u_hs _ _ _ _ _ Hl) | apply (u_hs _ _ _ _ _ Hr)].
    - intros E. apply Bool.orb_true_iff in E. destruct E as [E|E]; [apply ios_concat_l, (u_sig _ _ _ _ _ Hl E) | apply ios_concat_r, (u_sig _ _ _ _ _ Hr E)].
    - intros E. destruct dr; [apply ios_concat_r, (u_dn _ _ _ _ _ Hr eq_refl) | |]; (destruct sl; [apply ios_concat_l, (u_sig _ _ _ _ _ Hl eq_refl) | discriminate]).
    - intros _ E. destruct sl, dr; discriminate.
    - intros E. apply Bool.andb_true_iff in E. destruct E as [E1 E2].
      apply J_concat; [exact Hd | exact (u_js _ _ _ _ _ Hl E1) | exact (u_jd _ _ _ _ _ Hr E2)].
    - intros E. apply Bool.andb_true_iff in E. destruct E as [E1 E2].
      apply J_concat; [exact Hd | exact (u_js _ _ _ _ _ Hl E1) | exact (u_js _ _ _ _ _ Hr E2)].
  Qed.

  Lemma ut_and_b Kl Kr l r DL SL DR SR ml mr : disj Kl Kr -> uinv Kl l DL SL ml -> uinv Kr r DR SR mr ->
    uinv (Kl ++ Kr) (concatenate_rev (fst l) (fst r), concatenate_rev (snd l) (snd r))
         (fun B => cross (DL B) (DR B)) (fun B => cross (SL B) (SR B)) (m_and_b ml mr).
  Proof.
    intros Hd Hl Hr. destruct ml as [dl sl nl], mr as [dr sr nr]. cbn [m_and_b m_dissat m_signed m_nm] in *.
    constructor; mall_simpl.
    - apply concat_held; [apply (u_hd _ _ _ _ _ Hl) | apply (u_hd _ _ _ _ _ Hr)].
    - apply concat_held; [apply (u_hs _ _ _ _ _ Hl) | apply (u_hs _ _ _ _ _ Hr)].
    - intros E. apply Bool.orb_true_iff in E. destruct E as [E|E]; [apply ios_concat_l, (u_sig _ _ _ _ _ Hl E) | apply ios_concat_r, (u_sig _ _ _ _ _ Hr E)].
    - intros E. destruct dl, dr, sl, sr; cbn in E; try discriminate;
        first [apply ios_concat_l, (u_dn _ _ _ _ _ Hl eq_refl) | apply ios_concat_r, (u_dn _ _ _ _ _ Hr eq_refl)].
    - intros E D. apply Bool.andb_true_iff in E. destruct E as [E1 E2].
      assert (dl = DUnique /\ dr = DUnique) as [-> ->] by (destruct dl, dr, sl, sr; cbn in D; try discriminate; auto).
      apply clean_concat; [apply (u_du _ _ _ _ _ Hl E1 eq_refl) | apply (u_du _ _ _ _ _ Hr E2 eq_refl)].
    - intros E. apply Bool.andb_true_iff in E. destruct E as [E1 E2].
      apply J_concat; [exact Hd | exact (u_jd _ _ _ _ _ Hl E1) | exact (u_jd _ _ _ _ _ Hr E2)].
    - intros E. apply Bool.andb_true_iff in E. destruct E as [E1 E2].
      apply J_concat; [exact Hd | exact (u_js _ _ _ _ _ Hl E1) | exact (u_js _ _ _ _ _ Hr E2)].
  Qed.

  (* ---------- helpers for the "or" combinators ---------- *)
  Lemma concat_sig_clean_l a b : clean a -> s_has_sig (concatenate_rev a b) = true -> s_has_sig b = true.
  Proof. intros [_ [Hs _]] H. destruct (concat_sig_inv a b H); congruence. Qed.
  Lemma concat_sig_clean_r a b : clean b -> s_has_sig (concatenate_rev a b) = true -> s_has_sig a = true.
  Proof. intros [_ [Hs _]] H. destruct (concat_sig_inv a b H); congruence. Qed.
  Lemma concat_clean_keys_l Kb a b Tb l k : clean a -> P a -> J Kb b Tb ->
    s_stack (concatenate_rev a b) = WStack l -> In (PhSig k) l -> In k Kb.
  Proof.
    intros Ca Pa Hb Hs Hin. apply concat_stack in Hs. destruct Hs as [la [lb [Ea [Eb ->]]]].
    apply in_app_or in Hin. destruct Hin as [Hin|Hin]; [exact (j_keys _ _ _ Hb lb k Eb Hin)|].
    pose proof (clean_nosig_stack a la Ca Pa Ea) as Hn. rewrite Forall_forall in Hn. destruct (Hn _ Hin).
  Qed.
  Lemma concat_clean_keys_r Ka a b Ta l k : clean b -> P b -> J Ka a Ta ->
    s_stack (concatenate_rev a b) = WStack l -> In (PhSig k) l -> In k Ka.
  Proof.
    intros Cb Pb Ha Hs Hin. apply concat_stack in Hs. destruct Hs as [la [lb [Ea [Eb ->]]]].
    apply in_app_or in Hin. destruct Hin as [Hin|Hin]; [|exact (j_keys _ _ _ Ha la k Ea Hin)].
    pose proof (clean_nosig_stack b lb Cb Pb Eb) as Hn. rewrite Forall_forall in Hn. destruct (Hn _ Hin).
  Qed.

  (* or_d / or_c: candidates [sat X] and [dsat X ++ sat Z]; X is "e" *)
  Lemma J_or_dc Kl Kr dl sl sr DL SL SR : disj Kl Kr -> clean dl ->
    J Kl dl DL -> J Kl sl SL -> J Kr sr SR ->
    J (Kl ++ Kr) (minimum se sl (concatenate_rev dl sr)) (fun B => SL B ++ cross (DL B) (SR B)).
  Proof.
    intros Hd Cl Jdl Jsl Jsr.
    assert (Il : incl Kl (Kl ++ Kr)) by (intros k Hk; apply in_or_app; left; exact Hk).
    assert (Ir : incl Kr (Kl ++ Kr)) by (intros k Hk; apply in_or_app; right; exact Hk).
    apply J_min.
    - exact (J_weaken Kl _ _ _ Il Jsl).
    - apply J_concat; assumption.
    - intros _ Hsb l Hl B HB Hv. pose proof (concat_sig_clean_l dl sr Cl Hsb) as Hsr.
      rewrite (j_sig _ _ _ Jsr Hsr B HB); [apply cross_nil_r|].
      apply (vis_disj_nosigs B (Kl ++ Kr) Kl Kr l Hv); [|exact Hd | exact Ir].
      intros k Hk. exact (j_keys _ _ _ Jsl l k Hl Hk).
    - intros Hsa _ l Hl B HB Hv. apply (j_sig _ _ _ Jsl Hsa B HB).
      apply (vis_disj_nosigs B (Kl ++ Kr) Kr Kl l Hv); [|apply disj_sym, Hd | exact Il].
      intros k Hk. exact (concat_clean_keys_l Kr dl sr SR l k Cl (j_bk _ _ _ Jdl) Jsr Hl Hk).
  Qed.

  Lemma or_dc_static l r Kl Kr DL SL DR SR ml mr : uinv Kl l DL SL ml -> uinv Kr r DR SR mr ->
    let s := minimum se (snd l) (concatenate_rev (fst l) (snd r)) in
    held se s /\ (m_signed ml && m_signed mr = true -> ios s).
  Proof.
    intros Hl Hr s. split.
    - apply held_min; [apply (u_hs _ _ _ _ _ Hl) | apply concat_held; [apply (u_hd _ _ _ _ _ Hl) | apply (u_hs _ _ _ _ _ Hr)]].
    - intros E. apply Bool.andb_true_iff in E. destruct E as [E1 E2].
      apply ios_min; [apply (u_sig _ _ _ _ _ Hl E1) | apply ios_concat_r, (u_sig _ _ _ _ _ Hr E2)].
  Qed.
  Lemma or_dc_nm (dl : dissat) (sl nl nr sr : bool) :
    nl && dissat_eqb dl DUnique && nr && (sl || sr) = true -> nl = true /\ dl = DUnique /\ nr = true.
  Proof.
    intros E. repeat (apply Bool.andb_true_iff in E; destruct E as [E ?]). destruct dl; try discriminate. auto.
  Qed.

  Lemma ut_or_d Kl Kr l r DL SL DR SR ml mr : disj Kl Kr -> uinv Kl l DL SL ml -> uinv Kr r DR SR mr ->
    uinv (Kl ++ Kr) (concatenate_rev (fst l) (fst r), minimum se (snd l) (concatenate_rev (fst l) (snd r)))
         (fun B => cross (DL B) (DR B)) (fun B => SL B ++ cross (DL B) (SR B)) (m_or_d ml mr).
  Proof.
    intros Hd Hl Hr. destruct (or_dc_static l r Kl Kr DL SL DR SR ml mr Hl Hr) as [Hh Hsig].
    destruct ml as [dl sl nl], mr as [dr sr nr]. cbn [m_dissat m_signed m_nm] in *.
    constructor; mall_simpl.
    - apply concat_held; [apply (u_hd _ _ _ _ _ Hl) | apply (u_hd _ _ _ _ _ Hr)].
    - exact Hh.
    - exact Hsig.
    - intros E. apply ios_concat_r, (u_dn _ _ _ _ _ Hr E).
    - intros E D. destruct (or_dc_nm _ _ _ _ _ E) as [-> [-> ->]].
      apply clean_concat; [apply (u_du _ _ _ _ _ Hl eq_refl eq_refl) | apply (u_du _ _ _ _ _ Hr eq_refl D)].
    - intros E. destruct (or_dc_nm _ _ _ _ _ E) as [-> [-> ->]].
      apply J_concat; [exact Hd | exact (u_jd _ _ _ _ _ Hl eq_refl) | exact (u_jd _ _ _ _ _ Hr eq_refl)].
    - intros E. destruct (or_dc_nm _ _ _ _ _ E) as [-> [-> ->]].
      apply J_or_dc; [exact Hd | apply (u_du _ _ _ _ _ Hl eq_refl eq_refl) | exact (u_jd _ _ _ _ _ Hl eq_refl)
                      | exact (u_js _ _ _ _ _ Hl eq_refl) | exact (u_js _ _ _ _ _ Hr eq_refl)].
  Qed.
  Lemma ut_or_c Kl Kr l r DL SL DR SR ml mr : disj Kl Kr -> uinv Kl l DL SL ml -> uinv Kr r DR SR mr ->
    uinv (Kl ++ Kr) (IMPOSSIBLE, minimum se (snd l) (concatenate_rev (fst l) (snd r)))
         (fun _ => []) (fun B => SL B ++ cross (DL B) (SR B)) (m_or_c ml mr).
  Proof.
    intros Hd Hl Hr. destruct (or_dc_static l r Kl Kr DL SL DR SR ml mr Hl Hr) as [Hh Hsig].
    destruct ml as [dl sl nl], mr as [dr sr nr]. cbn [m_dissat m_signed m_nm] in *.
    constructor; mall_simpl.
    - apply held_const.
    - exact Hh.
    - exact Hsig.
    - intros _. apply ios_imp.
    - intros _ D. discriminate.
    - intros _. apply J_impossible. reflexivity.
    - intros E. destruct (or_dc_nm _ _ _ _ _ E) as [-> [-> ->]].
      apply J_or_dc; [exact Hd | apply (u_du _ _ _ _ _ Hl eq_refl eq_refl) | exact (u_jd _ _ _ _ _ Hl eq_refl)
                      | exact (u_js _ _ _ _ _ Hl eq_refl) | exact (u_js _ _ _ _ _ Hr eq_refl)].
  Qed.

  (* or_b: candidates [dsat X ++ sat Z] and [sat X ++ dsat Z]; both "e" *)
  Lemma ut_or_b Kl Kr l r DL SL DR SR ml mr : disj Kl Kr -> uinv Kl l DL SL ml -> uinv Kr r DR SR mr ->
    uinv (Kl ++ Kr) (concatenate_rev (fst l) (fst r),
                     minimum se (concatenate_rev (fst l) (snd r)) (concatenate_rev (snd l) (fst r)))
         (fun B => cross (DL B) (DR B)) (fun B => cross (DL B) (SR B) ++ cross (SL B) (DR B)) (m_or_b ml mr).
  Proof.
    intros Hd Hl Hr. destruct ml as [dl sl nl], mr as [dr sr nr]. cbn [m_or_b m_dissat m_signed m_nm] in *.
    assert (Hnm : nl && dissat_eqb dl DUnique && nr && dissat_eqb dr DUnique && (sl || sr) = true ->
                  nl = true /\ dl = DUnique /\ nr = true /\ dr = DUnique).
    { intros E. repeat (apply Bool.andb_true_iff in E; destruct E as [E ?]). destruct dl, dr; try discriminate. auto. }
    constructor; mall_simpl.
    - apply concat_held; [apply (u_hd _ _ _ _ _ Hl) | apply (u_hd _ _ _ _ _ Hr)].
    - apply held_min; apply concat_held; first [apply (u_hd _ _ _ _ _ Hl) | apply (u_hs _ _ _ _ _ Hl) | apply (u_hd _ _ _ _ _ Hr) | apply (u_hs _ _ _ _ _ Hr)].
    - intros E. apply Bool.andb_true_iff in E. destruct E as [-> ->].
      apply ios_min; [apply ios_concat_r, (u_sig _ _ _ _ _ Hr eq_refl) | apply ios_concat_l, (u_sig _ _ _ _ _ Hl eq_refl)].
    - discriminate.
    - intros E _. destruct (Hnm E) as [-> [-> [-> ->]]].
      apply clean_concat; [apply (u_du _ _ _ _ _ Hl eq_refl eq_refl) | apply (u_du _ _ _ _ _ Hr eq_refl eq_refl)].
    - intros E. destruct (Hnm E) as [-> [-> [-> ->]]].
      apply J_concat; [exact Hd | exact (u_jd _ _ _ _ _ Hl eq_refl) | exact (u_jd _ _ _ _ _ Hr eq_refl)].
    - intros E. destruct (Hnm E) as [-> [-> [-> ->]]].
      pose proof (u_du _ _ _ _ _ Hl eq_refl eq_refl) as Cl. pose proof (u_du _ _ _ _ _ Hr eq_refl eq_refl) as Cr.
      pose proof (u_jd _ _ _ _ _ Hl eq_refl) as Jdl. pose proof (u_js _ _ _ _ _ Hl eq_refl) as Jsl.
      pose proof (u_jd _ _ _ _ _ Hr eq_refl) as Jdr. pose proof (u_js _ _ _ _ _ Hr eq_refl) as Jsr.
      assert (Il : incl Kl (Kl ++ Kr)) by (intros k Hk; apply in_or_app; left; exact Hk).
      assert (Ir : incl Kr (Kl ++ Kr)) by (intros k Hk; apply in_or_app; right; exact Hk).
      apply J_min.
      + apply J_concat; assumption.
      + apply J_concat; assumption.
      + (* [dsat X ++ sat Z] published: only Z's signatures are visible, X cannot be satisfied *)
        intros _ Hsb l0 Hl0 B HB Hv. pose proof (concat_sig_clean_r (snd l) (fst r) Cr Hsb) as Hsl.
        rewrite (j_sig _ _ _ Jsl Hsl B HB); [reflexivity|].
        apply (vis_disj_nosigs B (Kl ++ Kr) Kr Kl l0 Hv); [|apply disj_sym, Hd | exact Il].
        intros k Hk. exact (concat_clean_keys_l Kr (fst l) (snd r) SR l0 k Cl (j_bk _ _ _ Jdl) Jsr Hl0 Hk).
      + intros Hsa _ l0 Hl0 B HB Hv. pose proof (concat_sig_clean_l (fst l) (snd r) Cl Hsa) as Hsr.
        rewrite (j_sig _ _ _ Jsr Hsr B HB); [apply cross_nil_r|].
        apply (vis_disj_nosigs B (Kl ++ Kr) Kl Kr l0 Hv); [|exact Hd | exact Ir].
        intros k Hk. exact (concat_clean_keys_r Kl (snd l) (fst r) SL l0 k Cr (j_bk _ _ _ Jdr) Jsl Hl0 Hk).
  Qed.

  (* or_i: no static fact is needed for the satisfaction, [minimum] and key-disjointness suffice *)
  Lemma J_or_i Kl Kr a b Ta Tb : disj Kl Kr -> J Kl a Ta -> J Kr b Tb ->
    J (Kl ++ Kr) (minimum se (pushed a PhPushOne) (pushed b PhPushZero))
      (fun B => map (cons [1%N]) (Ta B) ++ map (cons []) (Tb B)).
  Proof.
    intros Hd Ha Hb.
    assert (Il : incl Kl (Kl ++ Kr)) by (intros k Hk; apply in_or_app; left; exact Hk).
    assert (Ir : incl Kr (Kl ++ Kr)) by (intros k Hk; apply in_or_app; right; exact Hk).
    pose proof (J_push Kl a Ta PhPushOne [1%N] I eq_refl Ha) as Ja.
    pose proof (J_push Kr b Tb PhPushZero [] I eq_refl Hb) as Jb.
    apply J_min.
    - exact (J_weaken Kl _ _ _ Il Ja).
    - exact (J_weaken Kr _ _ _ Ir Jb).
    - intros _ Hsb l Hl B HB Hv. apply (j_sig _ _ _ Jb Hsb B HB).
      apply (vis_disj_nosigs B (Kl ++ Kr) Kl Kr l Hv); [|exact Hd | exact Ir].
      intros k Hk. exact (j_keys _ _ _ Ja l k Hl Hk).
    - intros Hsa _ l Hl B HB Hv. apply (j_sig _ _ _ Ja Hsa B HB).
      apply (vis_disj_nosigs B (Kl ++ Kr) Kr Kl l Hv); [|apply disj_sym, Hd | exact Il].
      intros k Hk. exact (j_keys _ _ _ Jb l k Hl Hk).
  Qed.

  Lemma ut_or_i Kl Kr l r DL SL DR SR ml mr : disj Kl Kr -> uinv Kl l DL SL ml -> uinv Kr r DR SR mr ->
    uinv (Kl ++ Kr) (minimum se (pushed (fst l) PhPushOne) (pushed (fst r) PhPushZero),
                     minimum se (pushed (snd l) PhPushOne) (pushed (snd r) PhPushZero))
         (fun B => map (cons [1%N]) (DL B) ++ map (cons []) (DR B))
         (fun B => map (cons [1%N]) (SL B) ++ map (cons []) (SR B)) (m_or_i ml mr).
  Proof.
    intros Hd Hl Hr. destruct ml as [dl sl nl], mr as [dr sr nr]. cbn [m_or_i m_dissat m_signed m_nm] in *.
    constructor; mall_simpl.
    - apply held_min; apply held_push; [apply (u_hd _ _ _ _ _ Hl) | apply (u_hd _ _ _ _ _ Hr)].
    - apply held_min; apply held_push; [apply (u_hs _ _ _ _ _ Hl) | apply (u_hs _ _ _ _ _ Hr)].
    - intros E. apply Bool.andb_true_iff in E. destruct E as [-> ->].
      apply ios_min; apply ios_push; [apply (u_sig _ _ _ _ _ Hl eq_refl) | apply (u_sig _ _ _ _ _ Hr eq_refl)].
    - intros E. destruct dl, dr; try discriminate. apply ios_min; apply ios_push; [apply (u_dn _ _ _ _ _ Hl eq_refl) | apply (u_dn _ _ _ _ _ Hr eq_refl)].
    - intros E D. repeat (apply Bool.andb_true_iff in E; destruct E as [E ?]). subst nl nr. destruct dl, dr; try discriminate.
      + apply clean_min_r; [apply ios_push, (u_dn _ _ _ _ _ Hl eq_refl) | apply clean_push, (u_du _ _ _ _ _ Hr eq_refl eq_refl)].
      + apply clean_min_l; [apply clean_push, (u_du _ _ _ _ _ Hl eq_refl eq_refl) | apply ios_push, (u_dn _ _ _ _ _ Hr eq_refl)].
    - intros E. repeat (apply Bool.andb_true_iff in E; destruct E as [E ?]). subst nl nr.
      apply J_or_i; [exact Hd | exact (u_jd _ _ _ _ _ Hl eq_refl) | exact (u_jd _ _ _ _ _ Hr eq_refl)].
    - intros E. repeat (apply Bool.andb_true_iff in E; destruct E as [E ?]). subst nl nr.
      apply J_or_i; [exact Hd | exact (u_js _ _ _ _ _ Hl eq_refl) | exact (u_js _ _ _ _ _ Hr eq_refl)].
  Qed.

  (* andor(a,b,c): candidates [sat a ++ sat b] and [dsat a ++ sat c]; a is "e" *)
  Lemma ut_and_or Ka Kb Kc a b c DA SA DB SB DC SC ma mb mc :
    disj Ka Kb -> disj Ka Kc -> disj Kb Kc ->
    uinv Ka a DA SA ma -> uinv Kb b DB SB mb -> uinv Kc c DC SC mc ->
    uinv (Ka ++ Kb ++ Kc)
         (concatenate_rev (fst a) (fst c),
          minimum se (concatenate_rev (snd a) (snd b)) (concatenate_rev (fst a) (snd c)))
         (fun B => cross (DA B) (DC B)) (fun B => cross (SA B) (SB B) ++ cross (DA B) (SC B)) (m_and_or ma mb mc).
  Proof.
    intros Dab Dac Dbc Ha Hb Hc. destruct ma as [da sa na], mb as [db sb nb], mc as [dc sc nc]. cbn [m_and_or m_dissat m_signed m_nm] in *.
    assert (Hnm : na && nc && dissat_eqb da DUnique && nb && (sa || sb || sc) = true ->
                  na = true /\ nb = true /\ nc = true /\ da = DUnique).
    { intros E. repeat (apply Bool.andb_true_iff in E; destruct E as [E ?]). destruct da; try discriminate. auto. }
    assert (Iab : incl (Ka ++ Kb) (Ka ++ Kb ++ Kc)).
    { intros k Hk. apply in_app_or in Hk. apply in_or_app. destruct Hk; [left; assumption | right; apply in_or_app; left; assumption]. }
    assert (Iac : incl (Ka ++ Kc) (Ka ++ Kb ++ Kc)).
    { intros k Hk. apply in_app_or in Hk. apply in_or_app. destruct Hk; [left; assumption | right; apply in_or_app; right; assumption]. }
    constructor; mall_simpl.
    - apply concat_held; [apply (u_hd _ _ _ _ _ Ha) | apply (u_hd _ _ _ _ _ Hc)].
    - apply held_min; apply concat_held; first [apply (u_hs _ _ _ _ _ Ha) | apply (u_hs _ _ _ _ _ Hb) | apply (u_hd _ _ _ _ _ Ha) | apply (u_hs _ _ _ _ _ Hc)].
    - intros E. apply Bool.andb_true_iff in E. destruct E as [E ->]. apply Bool.orb_true_iff in E. apply ios_min.
      + destruct E as [->| ->]; [apply ios_concat_l, (u_sig _ _ _ _ _ Ha eq_refl) | apply ios_concat_r, (u_sig _ _ _ _ _ Hb eq_refl)].
      + apply ios_concat_r, (u_sig _ _ _ _ _ Hc eq_refl).
    - intros E. assert (dc = DNone) as -> by (destruct sa, db, dc; cbn in E; try discriminate; reflexivity).
      apply ios_concat_r, (u_dn _ _ _ _ _ Hc eq_refl).
    - intros E D. destruct (Hnm E) as [-> [-> [-> ->]]].
      assert (dc = DUnique) as -> by (destruct sa, db, dc; cbn in D; try discriminate; reflexivity).
      apply clean_concat; [apply (u_du _ _ _ _ _ Ha eq_refl eq_refl) | apply (u_du _ _ _ _ _ Hc eq_refl eq_refl)].
    - intros E. destruct (Hnm E) as [-> [-> [-> ->]]].
      apply (J_weaken (Ka ++ Kc)); [exact Iac|].
      apply J_concat; [exact Dac | exact (u_jd _ _ _ _ _ Ha eq_refl) | exact (u_jd _ _ _ _ _ Hc eq_refl)].
    - intros E. destruct (Hnm E) as [-> [-> [-> ->]]].
      pose proof (u_du _ _ _ _ _ Ha eq_refl eq_refl) as Ca.
      pose proof (u_jd _ _ _ _ _ Ha eq_refl) as Jda. pose proof (u_js _ _ _ _ _ Ha eq_refl) as Jsa.
      pose proof (u_js _ _ _ _ _ Hb eq_refl) as Jsb. pose proof (u_js _ _ _ _ _ Hc eq_refl) as Jsc.
      pose proof (J_concat Ka Kb _ _ _ _ Dab Jsa Jsb) as J1.
      pose proof (J_concat Ka Kc _ _ _ _ Dac Jda Jsc) as J2.
      apply J_min.
      + exact (J_weaken _ _ _ _ Iab J1).
      + exact (J_weaken _ _ _ _ Iac J2).
      + (* [sat a ++ sat b] published: c's keys are invisible *)
        intros _ Hs2 l0 Hl0 B HB Hv. pose proof (concat_sig_clean_l (fst a) (snd c) Ca Hs2) as Hsc.
        rewrite (j_sig _ _ _ Jsc Hsc B HB); [apply cross_nil_r|].
        apply (vis_disj_nosigs B (Ka ++ Kb ++ Kc) (Ka ++ Kb) Kc l0 Hv).
        * intros k Hk. exact (j_keys _ _ _ J1 l0 k Hl0 Hk).
        * apply disj_app_l; assumption.
        * intros k Hk. apply in_or_app. right. apply in_or_app. right. exact Hk.
      + (* [dsat a ++ sat c] published: only c's signatures are visible *)
        intros Hs1 _ l0 Hl0 B HB Hv.
        assert (Hn : nosigs B (Ka ++ Kb)).
        { apply (vis_disj_nosigs B (Ka ++ Kb ++ Kc) Kc (Ka ++ Kb) l0 Hv).
          - intros k Hk. exact (concat_clean_keys_l Kc (fst a) (snd c) SC l0 k Ca (j_bk _ _ _ Jda) Jsc Hl0 Hk).
          - apply disj_sym. apply disj_app_l; assumption.
          - exact Iab. }
        exact (j_sig _ _ _ J1 Hs1 B HB Hn).
  Qed.

  (* ---------- leaves ---------- *)
  Lemma below_nosig B k : below A B -> se_sig se k = None -> a_sig B k = None.
  Proof.
    intros HB E. apply (lk_sig_avail _ _ _ _ L) in E. destruct (a_sig B k) as [s|] eqn:Eb; [|reflexivity].
    rewrite (bl_sig _ _ HB k s Eb) in E. discriminate.
  Qed.
  Lemma below_sig B k sz s' : below A B -> se_sig se k = Some sz -> a_sig B k = Some s' -> f_sig f k = Some s'.
  Proof. intros HB E Eb. rewrite (lk_sig _ _ _ _ L). exact (bl_sig _ _ HB k s' Eb). Qed.

  Lemma U_leaf K d s TD TS ml :
    held se d -> held se s -> (m_signed ml = true -> ios s) -> (m_dissat ml = DNone -> ios d) ->
    (m_dissat ml = DUnique -> clean d) -> J K d TD -> J K s TS -> uinv K (d, s) TD TS ml.
  Proof. intros. constructor; cbn [fst snd]; auto. Qed.

  Lemma J_sig_k k : J [k] (mkSat (w_signature se k) true None None) (fun B => map (fun s => [s]) (opt_list (a_sig B k))).
  Proof.
    unfold w_signature. destruct (se_sig se k) as [sz|] eqn:E.
    - constructor; cbn [s_stack s_has_sig is_imp]; try discriminate.
      + apply held_const.
      + intros l k' Hl Hk. inversion Hl; subst. destruct Hk as [Hk|[]]. inversion Hk. left. reflexivity.
      + intros _ B HB Hn. rewrite (Hn k (or_introl eq_refl)). reflexivity.
      + intros l bs Hl Hf B HB _ w' Hw. inversion Hl; subst. cbn [fill_all fill_ph] in Hf.
        destruct (a_sig B k) as [s'|] eqn:Eb; cbn in Hw; [|contradiction]. destruct Hw as [<-|[]].
        rewrite (below_sig B k sz s' HB E Eb) in Hf. inversion Hf. reflexivity.
    - constructor; cbn [s_stack s_has_sig is_imp]; try discriminate.
      + apply held_const.
      + intros _ B HB. rewrite (below_nosig B k HB E). reflexivity.
      + intros _ B HB _. rewrite (below_nosig B k HB E). reflexivity.
  Qed.
  Lemma J_sig_h k : J [k] (mkSat (wcombine (w_signature se k) (WStack [PhPubkey k])) true None None)
                          (fun B => map (fun s => [kb ke k; s]) (opt_list (a_sig B k))).
  Proof.
    unfold w_signature. destruct (se_sig se k) as [sz|] eqn:E; cbn [wcombine app].
    - constructor; cbn [s_stack s_has_sig is_imp]; try discriminate.
      + apply held_const.
      + intros l k' Hl Hk. inversion Hl; subst. destruct Hk as [Hk|[Hk|[]]]; inversion Hk. left. reflexivity.
      + intros _ B HB Hn. rewrite (Hn k (or_introl eq_refl)). reflexivity.
      + intros l bs Hl Hf B HB _ w' Hw. inversion Hl; subst. cbn [fill_all fill_ph] in Hf.
        destruct (a_sig B k) as [s'|] eqn:Eb; cbn in Hw; [|contradiction]. destruct Hw as [<-|[]].
        rewrite (below_sig B k sz s' HB E Eb) in Hf. inversion Hf. cbn [rev app]. rewrite (lk_kb _ _ _ _ L). reflexivity.
    - constructor; cbn [s_stack s_has_sig is_imp]; try discriminate.
      + apply held_const.
      + intros _ B HB. rewrite (below_nosig B k HB E). reflexivity.
      + intros _ B HB _. rewrite (below_nosig B k HB E). reflexivity.
  Qed.

  Lemma ut_pk_k k : uinv [k] (sd_pk_k se k) (fun B => all_dsat ke B (MPkK k)) (fun B => all_sat ke B (MPkK k)) m_pk_k.
  Proof.
    unfold sd_pk_k. apply U_leaf; cbn [m_pk_k m_signed m_dissat]; try discriminate.
    - apply held_const. - apply held_const.
    - intros _. unfold ios, w_signature. cbn [s_stack s_has_sig]. right. reflexivity.
    - intros _. apply clean_push0.
    - apply J_push0. reflexivity.
    - apply J_sig_k.
  Qed.
  Lemma ut_pk_h k : uinv [k] (sd_pk_h se k) (fun B => all_dsat ke B (MPkH k)) (fun B => all_sat ke B (MPkH k)) m_pk_h.
  Proof.
    unfold sd_pk_h. apply U_leaf; cbn [m_pk_h m_signed m_dissat]; try discriminate.
    - apply held_const. - apply held_const.
    - intros _. right. reflexivity.
    - intros _. repeat split.
    - cbn [wcombine app]. apply (J_const [k] [PhPushZero; PhPubkey k] [[]; kb ke k]).
      + repeat constructor.
      + cbn [fill_all fill_ph]. rewrite (lk_kb _ _ _ _ L). reflexivity.
      + intros B _ w' Hw. destruct Hw as [<-|[]]. reflexivity.
    - apply J_sig_h.
  Qed.

  Lemma ut_true : uinv [] (IMPOSSIBLE, TRIVIAL) (fun B => all_dsat ke B MTrue) (fun B => all_sat ke B MTrue) m_true.
  Proof.
    apply U_leaf; cbn [m_true m_signed m_dissat]; try discriminate; try apply held_const.
    - intros _. apply ios_imp.
    - apply J_impossible. reflexivity.
    - apply (J_const [] [] []); [constructor | reflexivity|]. intros B _ w' Hw. destruct Hw as [<-|[]]. reflexivity.
  Qed.
  Lemma ut_false : uinv [] (TRIVIAL, IMPOSSIBLE) (fun B => all_dsat ke B MFalse) (fun B => all_sat ke B MFalse) m_false.
  Proof.
    apply U_leaf; cbn [m_false m_signed m_dissat]; try discriminate; try apply held_const.
    - intros _. apply ios_imp.
    - intros _. apply clean_trivial.
    - apply (J_const [] [] []); [constructor | reflexivity|]. intros B _ w' Hw. destruct Hw as [<-|[]]. reflexivity.
    - apply J_impossible. reflexivity.
  Qed.

  (* time locks: the third party is in the same lock environment *)
  Lemma ut_time (ok rhs : bool) t (isabs : bool) (TS : assets -> list wit) :
    (ok = true -> if isabs then se_after se t = true else se_older se t = true) ->
    (forall B, below A B -> TS B = if ok then [[]] else []) ->
    uinv [] (sd_time ok rhs t isabs) (fun _ => []) TS m_time.
  Proof.
    intros Hok HT. unfold sd_time. cbn zeta.
    assert (Hh : held se (if isabs then mkSat (if ok then WStack [] else if rhs then WImpossible else WUnavailable) false (if ok then Some t else None) None
                          else mkSat (if ok then WStack [] else if rhs then WImpossible else WUnavailable) false None (if ok then Some t else None))).
    { destruct isabs; split; cbn [s_abs s_rel]; intros t0 Ht0; try discriminate; destruct ok; try discriminate; inversion Ht0; subst; apply Hok; reflexivity. }
    apply U_leaf; cbn [m_time m_signed m_dissat]; try discriminate.
    - apply held_const.
    - exact Hh.
    - intros _. apply ios_imp.
    - apply J_impossible. reflexivity.
    - constructor.
      + exact Hh.
      + intros _ l Hl. destruct isabs; cbn [s_stack] in Hl; destruct ok; [inversion Hl; constructor | destruct rhs; discriminate | inversion Hl; constructor | destruct rhs; discriminate].
      + intros l k Hl Hk. destruct isabs; cbn [s_stack] in Hl; destruct ok; try (destruct rhs; discriminate); inversion Hl; subst; destruct Hk.
      + intros Hi B HB. rewrite (HT B HB). destruct isabs; cbn [s_stack] in Hi; destruct ok; try discriminate; reflexivity.
      + intros Hs. destruct isabs; discriminate.
      + intros l bs Hl Hf B HB _ w' Hw. rewrite (HT B HB) in Hw.
        destruct isabs; cbn [s_stack] in Hl; destruct ok; try (destruct rhs; discriminate); inversion Hl; subst;
          cbn in Hf; inversion Hf; subst; destruct Hw as [<-|[]]; reflexivity.
  Qed.

  Lemma ut_hash kd h (TD TS : assets -> list wit) :
    (forall B, TD B = [[zeros32]]) -> (forall B, TS B = map (fun p => [p]) (opt_list (look B kd h))) ->
    uinv [] (sd_hash se kd h) TD TS m_hash.
  Proof.
    intros ED ES. unfold sd_hash. apply U_leaf; cbn [m_hash m_signed m_dissat]; try discriminate; try apply held_const.
    - apply (J_const [] [PhHashDissat] [zeros32]); [repeat constructor | reflexivity|].
      intros B _ w' Hw. rewrite ED in Hw. destruct Hw as [<-|[]]. reflexivity.
    - unfold w_preimage. destruct (se_pre se kd h) eqn:E; [|apply J_unavail].
      constructor; cbn [s_stack s_has_sig is_imp]; try discriminate.
      + apply held_const.
      + intros _ l Hl. inversion Hl. repeat constructor.
      + intros l k Hl Hk. inversion Hl; subst. destruct Hk as [Hk|[]]. discriminate.
      + intros l bs Hl Hf B HB _ w' Hw. inversion Hl; subst. cbn [fill_all fill_ph] in Hf. rewrite (lk_pre _ _ _ _ L) in Hf.
        destruct (look A kd h) as [p|] eqn:Ep; [|discriminate]. inversion Hf; subst.
        rewrite ES in Hw. destruct (look B kd h) as [p'|] eqn:Ep'; cbn in Hw; [|contradiction]. destruct Hw as [<-|[]].
        rewrite (bl_pre _ _ HB kd h p p' Ep Ep'). reflexivity.
  Qed.
End Uniq.
