(* C09: the constant figures of pkh / wpkh / sh(wpkh) bound the weight of their only satisfaction
   shape; the figures of the raw key hash leaf bound its satisfaction for compressed and x-only
   keys and do NOT for an uncompressed key. *)
From Coq Require Import Lia List.
From Verif Require Import ExtModel ExtKoModel.
Import ListNotations.
Local Open Scope N_scope.

Arguments N.add : simpl never. Arguments N.mul : simpl never. Arguments N.sub : simpl never.
Arguments N.ltb : simpl never. Arguments N.leb : simpl never.

Lemma varint_small n : n < 253 -> varint_len n = 1.
Proof. intros H. unfold varint_len. destruct (N.ltb_spec n 253); [reflexivity|lia]. Qed.
Lemma push_small n : n < 76 -> push_opcode_size n = 1.
Proof. intros H. unfold push_opcode_size. destruct (N.ltb_spec n 76); [reflexivity|lia]. Qed.

(* ---- key-only descriptors: sig <= 72 bytes (low-S DER + sighash byte: 73 with its push opcode /
   length prefix, the library's stated assumption), key 33 or 65 bytes as the context allows ---- *)
Theorem pkh_weight_bound sig key :
  sig <= 72 -> key = 33 \/ key = 65 ->
  pkh_measured sig key <= pkh_weight (key + 1) /\ pkh_measured_abs sig key <= pkh_old_weight (key + 1).
Proof.
  intros Hs Hk. unfold pkh_measured, pkh_measured_abs, pkh_weight, pkh_old_weight, bare_weight, item_push.
  rewrite (push_small sig) by lia. rewrite (push_small key) by lia.
  rewrite (varint_small (1 + sig + (1 + key))) by lia.
  rewrite (varint_small (73 + (key + 1))) by lia. rewrite (varint_small 0) by lia. lia.
Qed.

Theorem wpkh_weight_bound sig :
  sig <= 72 ->
  wpkh_measured sig 33 <= wpkh_weight /\ wpkh_measured_abs sig 33 <= wpkh_old_weight
  /\ sh_wpkh_measured sig 33 <= sh_wpkh_weight /\ sh_wpkh_measured_abs sig 33 <= sh_wpkh_old_weight.
Proof.
  intros Hs. unfold wpkh_measured, wpkh_measured_abs, sh_wpkh_measured, sh_wpkh_measured_abs, wpkh_measured,
    wpkh_weight, wpkh_old_weight, sh_wpkh_weight, sh_wpkh_old_weight, wpkh_old_weight, sh_wrap, wpkh_weight, item_wit.
  rewrite (varint_small sig) by lia. rewrite (varint_small 33), (varint_small 2), (varint_small 0), (varint_small 23) by lia.
  rewrite (varint_small (1 + 1 + 1 + 20)) by lia. lia.
Qed.

(* the figures are attained *)
Lemma keyonly_weight_tight :
  pkh_measured 72 33 = pkh_weight 34 /\ pkh_measured 72 65 = pkh_weight 66
  /\ wpkh_measured 72 33 = wpkh_weight /\ sh_wpkh_measured 72 33 = sh_wpkh_weight.
Proof. vm_compute. repeat split; reflexivity. Qed.

(* and the hypothesis on the signature is needed: a 73-byte (high-S) signature exceeds them *)
Lemma keyonly_weight_needs_low_s :
  pkh_weight 34 < pkh_measured 73 33 /\ wpkh_weight < wpkh_measured 73 33.
Proof. vm_compute. split; reflexivity. Qed.

(* ---- the raw key hash leaf ---- *)
Lemma ext_raw_pkh fx c h :
  ext_of_gen fx c (MRawPkH h) = ext_pk_h_none fx (xc_schnorr c).
Proof. reflexivity. Qed.

(* THE CODE AS WRITTEN (since /repo 46f3eb21), every rule set: whatever key form the satisfier resolves
   the hash to -- compressed or uncompressed outside Tap, x-only in Tap -- satisfaction and
   dissatisfaction are within the figures of pk_h(None) *)
Theorem raw_pkh_bound fx c h r :
  (if xc_schnorr c then rawres_xonly r else rawres_compressed r \/ rawres_uncompressed r) ->
  exists s d, sat_data (ext_of_gen fx c (MRawPkH h)) = Some s /\ dissat_data (ext_of_gen fx c (MRawPkH h)) = Some d
              /\ items_within (raw_sat_items r) s /\ items_within (raw_dissat_items r) d.
Proof.
  intros H. rewrite ext_raw_pkh. unfold ext_pk_h_none, ext_pk_h, key_sig_bytes, unc_bytes, fx_pkk. cbn [fx_unc].
  destruct (xc_schnorr c); eexists; eexists; (split; [reflexivity|]); (split; [reflexivity|]);
    unfold items_within, raw_sat_items, raw_dissat_items, items_sum; cbn [length fold_right sd_wcount sd_wsize sd_ssig].
  - destruct H as [Hs Hk]. rewrite Hk. repeat split; lia.
  - destruct H as [[Hs Hk]|[Hs Hk]]; rewrite Hk; repeat split; lia.
Qed.

(* the figure is attained by an uncompressed key with a 72-byte signature *)
Lemma raw_pkh_bound_tight fx c h :
  xc_schnorr c = false ->
  exists s, sat_data (ext_of_gen fx c (MRawPkH h)) = Some s /\ sd_wsize s = items_sum (raw_sat_items (mkRawRes 73 66)).
Proof.
  intros Hc. rewrite ext_raw_pkh, Hc. unfold ext_pk_h_none, ext_pk_h, key_sig_bytes, unc_bytes, fx_pkk. cbn [fx_unc].
  eexists. split; [reflexivity|]. reflexivity.
Qed.

(* REGRESSION (about the figure BEFORE /repo 46f3eb21, not about the code): pk_h(None) counted the key
   item as 34 bytes; an uncompressed key gave 73 + 66 = 139 against 107, 67 against 35 *)
Lemma raw_pkh_pre_46f3eb21_undershoot fx :
  exists r s d, rawres_uncompressed r
                /\ sat_data (ext_pk_h_none_34 fx false) = Some s /\ dissat_data (ext_pk_h_none_34 fx false) = Some d
                /\ sd_wsize s < items_sum (raw_sat_items r) /\ sd_ssig s < items_sum (raw_sat_items r)
                /\ sd_wsize d < items_sum (raw_dissat_items r).
Proof.
  exists (mkRawRes 73 66). unfold ext_pk_h_none_34, ext_pk_h, key_sig_bytes. cbn [sat_data dissat_data].
  exists (mkSD (34 + 73) 2 (34 + 73) 2 0), (mkSD (34 + 1) 2 (34 + 1) 2 0).
  split; [split; [cbn; lia|reflexivity]|]. split; [reflexivity|]. split; [reflexivity|].
  vm_compute. repeat split; reflexivity.
Qed.

Lemma ko_nonvacuous :
  rawres_compressed (mkRawRes 73 34) /\ rawres_xonly (mkRawRes 66 33) /\ rawres_uncompressed (mkRawRes 73 66)
  /\ items_sum (raw_sat_items (mkRawRes 73 34)) = 107 /\ items_sum (raw_sat_items (mkRawRes 66 33)) = 99.
Proof. vm_compute. repeat split; intros; discriminate. Qed.
