(* C06 (D): a fragment typed d has a signature-free input on which it leaves exactly 0.
   Constructive: with the empty asset set [A0] (no signature, no preimage, no lock time) the
   specification's dissatisfaction table of a d-typed fragment is not empty, every element of
   its entries is the empty vector, the vector 01, 32 zero bytes or a public key of the fragment,
   and Theorem A executes the entry. *)
From Verif Require Import Exec Ser Ast Types TypeCheck SatSpec ExecLemmas Spec TypesSpec ScriptNumProofs TheoremA.
From Coq Require Import Lia.

Definition A0 : assets :=
  mkAssets (fun _ => None) (fun _ => None) (fun _ => None) (fun _ => None) (fun _ => None)
           (fun _ => false) (fun _ => false).

(* the keys of the key table are acceptable in the context, and pk_h commits to their hash *)
Record keys_ok (e : env) (ke : keyenv) : Prop := {
  ko_key : forall k, e_keyok e (kb ke k) = true;
  ko_len : forall k, (0 < blen (kb ke k) < 2147483648)%N;
  ko_kh : forall k, e_hash160 e (kb ke k) = kh ke k
}.

Lemma A0_ok e ke : keys_ok e ke -> assets_ok e ke A0.
Proof. intros [H1 H2 H3]. constructor; cbn; intros; try discriminate; auto. Qed.

Lemma cross_nonempty (l1 l2 : list wit) : l1 <> [] -> l2 <> [] -> cross l1 l2 <> [].
Proof. destruct l1 as [|a l1], l2 as [|b l2]; try congruence. intros _ _. cbn. discriminate. Qed.

Section SF.
  Variable ke : keyenv.

  Definition sf_elt (x : bytes) : Prop := x = [] \/ x = [1%N] \/ x = zeros32 \/ exists k, x = kb ke k.
  Definition allsf (L : list wit) : Prop := forall w, In w L -> Forall sf_elt w.

  Lemma allsf_nil : allsf []. Proof. intros w []. Qed.
  Lemma allsf_one w : Forall sf_elt w -> allsf [w].
  Proof. intros H w' [<-|[]]. exact H. Qed.
  Lemma allsf_app L1 L2 : allsf L1 -> allsf L2 -> allsf (L1 ++ L2).
  Proof. intros H1 H2 w Hin. apply in_app_or in Hin. destruct Hin; auto. Qed.
  Lemma allsf_cross L1 L2 : allsf L1 -> allsf L2 -> allsf (cross L1 L2).
  Proof.
    intros H1 H2 w Hin. apply in_cross in Hin. destruct Hin as [a [b [Ha [Hb ->]]]].
    apply Forall_app. split; auto.
  Qed.
  Lemma allsf_cons x L : sf_elt x -> allsf L -> allsf (map (cons x) L).
  Proof. intros Hx HL w Hin. apply in_map_iff in Hin. destruct Hin as [w' [<- Hw']]. constructor; auto. Qed.
  Lemma allsf_comb cs : Forall (fun p => allsf (fst p) /\ allsf (snd p)) cs -> forall j, allsf (thresh_comb j cs).
  Proof.
    induction 1 as [|[s d] r [Hs Hd] Hr IH]; intros j; cbn [thresh_comb].
    - destruct j; [apply allsf_one; constructor | apply allsf_nil].
    - cbn [fst snd] in *. apply allsf_app; [destruct j; [apply allsf_nil | apply allsf_cross; auto] | apply allsf_cross; auto].
  Qed.
  Lemma sf_empty : sf_elt []. Proof. left. reflexivity. Qed.
  Lemma sf_repeat n : Forall sf_elt (repeat [] n).
  Proof. induction n; cbn; constructor; auto using sf_empty. Qed.

  Lemma pick_sigs_A0 ks : forall j s, In s (pick_sigs A0 j ks) -> s = [].
  Proof.
    induction ks as [|key r IH]; intros j s Hin; cbn [pick_sigs] in Hin.
    - destruct j; [destruct Hin as [<-|[]]; reflexivity | contradiction].
    - cbn [a_sig A0] in Hin. destruct j; cbn [app] in Hin; apply (IH _ _ Hin).
  Qed.
  Lemma pick_sigs_a_A0 ks : forall j, allsf (pick_sigs_a A0 j ks).
  Proof.
    induction ks as [|key r IH]; intros j; cbn [pick_sigs_a].
    - destruct j; [apply allsf_one; constructor | apply allsf_nil].
    - cbn [a_sig A0]. destruct j; cbn [app]; apply allsf_cons; auto using sf_empty.
  Qed.

  Ltac sfe := first [ left; reflexivity | right; left; reflexivity | right; right; left; reflexivity
                    | right; right; right; eexists; reflexivity ].
  Ltac sfw := repeat (apply Forall_cons; [sfe|]); try apply Forall_nil.

  (* every element of every table entry under [A0] is signature-free *)
  Lemma sf_sd : forall m, allsf (fst (sd ke A0 m)) /\ allsf (snd (sd ke A0 m)).
  Proof.
    induction m using ms_ind'; cbn [sd];
      repeat match goal with
      | H : allsf (fst (sd ke A0 ?x)) /\ allsf (snd (sd ke A0 ?x)) |- _ =>
        destruct H as [? ?]; destruct (sd ke A0 x) as [? ?]; cbn [fst snd] in *
      end; cbn [fst snd hash_sd opt_list map a_sig a_sha256 a_hash256 a_ripemd160 a_hash160 a_after a_older A0].
    - split; [apply allsf_one; sfw | apply allsf_nil].
    - split; [apply allsf_nil | apply allsf_one; sfw].
    - split; [apply allsf_nil | apply allsf_one; sfw].
    - split; [apply allsf_nil | apply allsf_one; sfw].
    - split; apply allsf_nil.
    - split; apply allsf_nil.
    - split; apply allsf_nil.
    - split; [apply allsf_nil | apply allsf_one; sfw].
    - split; [apply allsf_nil | apply allsf_one; sfw].
    - split; [apply allsf_nil | apply allsf_one; sfw].
    - split; [apply allsf_nil | apply allsf_one; sfw].
    - split; assumption.
    - split; assumption.
    - split; assumption.
    - split; [apply allsf_cons; [sfe | assumption] | apply allsf_one; sfw].
    - split; [assumption | apply allsf_nil].
    - split; [assumption | apply allsf_one; sfw].
    - split; assumption.
    - split; apply allsf_cross; assumption.
    - split; apply allsf_cross; assumption.
    - split; [apply allsf_app|]; apply allsf_cross; assumption.
    - split; [apply allsf_app|]; apply allsf_cross; assumption.
    - split; [apply allsf_app; [assumption | apply allsf_cross; assumption] | apply allsf_cross; assumption].
    - split; [apply allsf_app; [assumption | apply allsf_cross; assumption] | apply allsf_nil].
    - split; apply allsf_app; apply allsf_cons; auto; sfe.
    - assert (Hc : Forall (fun p => allsf (fst p) /\ allsf (snd p))
                     ((fix go (l : list ms) : list (list wit * list wit) :=
                         match l with [] => [] | x :: r => sd ke A0 x :: go r end) xs)).
      { induction H as [|x r Hx Hr IHr]; constructor; auto. }
      split; apply allsf_comb; exact Hc.
    - split.
      + intros w Hin. apply in_map_iff in Hin. destruct Hin as [s [<- Hs]]. rewrite (pick_sigs_A0 _ _ _ Hs).
        cbn [rev app]. sfw.
      + apply allsf_one. apply sf_repeat.
    - split.
      + intros w Hin. apply in_map_iff in Hin. destruct Hin as [s [<- Hs]]. rewrite (pick_sigs_A0 _ _ _ Hs).
        cbn [rev app]. sfw.
      + apply allsf_one. apply sf_repeat.
    - split; [apply pick_sigs_a_A0 | apply allsf_one, sf_repeat].
    - split; [apply pick_sigs_a_A0 | apply allsf_one, sf_repeat].
  Qed.

  (* ---------- typed d (and not raw_pk_h) => the table lists a dissatisfaction under A0 ---------- *)
  Definition dstmt (m : ms) : Prop :=
    forall t, type_of m = ROk t -> no_multi m -> c_dissat (t_corr t) = true ->
    c_base (t_corr t) <> BV /\ all_dsat ke A0 m <> [].

  Ltac unf H := unfold t_cast_alt, t_cast_swap, t_cast_check, t_cast_dupif, t_cast_verify, t_cast_nonzero,
    t_cast_zeronotequal, t_and_v, t_and_b, t_or_b, t_or_c, t_or_d, t_or_i, t_and_or, lift1, lift2,
    c_cast_alt, c_cast_swap, c_cast_check, c_cast_dupif, c_cast_verify, c_cast_nonzero, c_cast_zeronotequal,
    c_and_v, c_and_b, c_or_b, c_or_c, c_or_d, c_or_i, c_and_or in H; cbn [t_corr t_mall c_base c_input c_dissat c_unit] in H.

  Ltac one_child IH Ht Hnm tx Hg bx ix dx ux mx :=
    cbn [type_of] in Ht; apply rbind_ok in Ht; destruct Ht as [tx [Hx Ht]];
    cbn [no_multi] in Hnm; pose proof (IH tx Hx Hnm) as Hg; destruct tx as [[bx ix dx ux] mx]; unf Ht;
    cbn [t_corr c_base c_dissat] in Hg.
  Ltac two_children IHx IHy Ht Hnm tx ty Hgx Hgy :=
    cbn [type_of] in Ht; apply rbind_ok in Ht; destruct Ht as [tx [Hx Ht]];
    apply rbind_ok in Ht; destruct Ht as [ty [Hy Ht]];
    cbn [no_multi] in Hnm; destruct Hnm as [Hnx Hny];
    pose proof (IHx tx Hx Hnx) as Hgx; pose proof (IHy ty Hy Hny) as Hgy;
    destruct tx as [[bx ix dx ux] qx]; destruct ty as [[b2 i2 d2 u2] q2]; unf Ht;
    cbn [t_corr c_base c_dissat] in Hgx, Hgy.

  Lemma comb0_nonempty cs : Forall (fun p => snd p <> []) cs -> thresh_comb 0 cs <> [].
  Proof.
    induction 1 as [|[s d] r Hd Hr IH]; cbn [thresh_comb]; [discriminate|]. cbn [snd app] in *.
    apply cross_nonempty; assumption.
  Qed.

  Lemma ori_nonempty (dx dz : list wit) : dx <> [] \/ dz <> [] -> map (cons [1%N]) dx ++ map (cons []) dz <> [].
  Proof. destruct dx, dz; cbn; intros [H|H]; try congruence; discriminate. Qed.

  Lemma dsat_table : forall m, dstmt m.
  Proof.
    induction m using ms_ind'; intros t0 Ht Hnm Hd.
    - inversion Ht; subst. discriminate.
    - inversion Ht; subst. split; discriminate.
    - inversion Ht; subst. split; discriminate.
    - inversion Ht; subst. split; discriminate.
    - contradiction.
    - inversion Ht; subst. discriminate.
    - inversion Ht; subst. discriminate.
    - inversion Ht; subst. split; discriminate.
    - inversion Ht; subst. split; discriminate.
    - inversion Ht; subst. split; discriminate.
    - inversion Ht; subst. split; discriminate.
    - (* a: *) one_child IHm Ht Hnm tx Hg bx ix dx ux mx. destruct bx; try discriminate. inversion Ht; subst; clear Ht.
      cbn [t_corr c_base c_dissat] in *. split; [discriminate | apply (Hg Hd)].
    - (* s: *) one_child IHm Ht Hnm tx Hg bx ix dx ux mx. destruct bx; try discriminate; destruct ix; try discriminate;
        inversion Ht; subst; clear Ht; cbn [t_corr c_base c_dissat] in *; (split; [discriminate | apply (Hg Hd)]).
    - (* c: *) one_child IHm Ht Hnm tx Hg bx ix dx ux mx. destruct bx; try discriminate. inversion Ht; subst; clear Ht.
      cbn [t_corr c_base c_dissat] in *. split; [discriminate | apply (Hg Hd)].
    - (* d: *) one_child IHm Ht Hnm tx Hg bx ix dx ux mx. destruct bx; try discriminate; destruct ix; try discriminate.
      inversion Ht; subst; clear Ht. split; discriminate.
    - (* v: *) one_child IHm Ht Hnm tx Hg bx ix dx ux mx. destruct bx; try discriminate. inversion Ht; subst; clear Ht. discriminate.
    - (* j: *) one_child IHm Ht Hnm tx Hg bx ix dx ux mx.
      destruct ix; cbn in Ht; try discriminate; destruct bx; try discriminate; inversion Ht; subst; clear Ht; split; discriminate.
    - (* n: *) one_child IHm Ht Hnm tx Hg bx ix dx ux mx. destruct bx; try discriminate. inversion Ht; subst; clear Ht.
      cbn [t_corr c_base c_dissat] in *. split; [discriminate | apply (Hg Hd)].
    - (* and_v *) two_children IHm1 IHm2 Ht Hnm t1 t2 Hgx Hgy.
      destruct bx, b2; try discriminate; inversion Ht; subst; clear Ht; discriminate.
    - (* and_b *) two_children IHm1 IHm2 Ht Hnm t1 t2 Hgx Hgy.
      destruct bx, b2; try discriminate; inversion Ht; subst; clear Ht. cbn [t_corr c_base c_dissat] in *.
      apply andb_prop in Hd. destruct Hd as [H1 H2]. split; [discriminate|].
      unfold all_dsat. rewrite sd_and_b. cbn [snd]. apply cross_nonempty; [apply (Hgx H1) | apply (Hgy H2)].
    - (* andor *) cbn [type_of] in Ht. apply rbind_ok in Ht. destruct Ht as [ta [Ha Ht]].
      apply rbind_ok in Ht. destruct Ht as [tb [Hb Ht]]. apply rbind_ok in Ht. destruct Ht as [tc [Hc Ht]].
      cbn [no_multi] in Hnm. destruct Hnm as [Hna [Hnb Hnc]].
      pose proof (IHm1 ta Ha Hna) as Hga. pose proof (IHm3 tc Hc Hnc) as Hgc.
      destruct ta as [[ba ia da ua] ma], tb as [[bb ib db ub] mb], tc as [[bc ic dc uc] mc]. unf Ht.
      cbn [t_corr c_base c_dissat] in Hga, Hgc.
      destruct da; cbn [negb] in Ht; try discriminate. destruct ua; cbn [negb] in Ht; try discriminate.
      destruct ba, bb, bc; try discriminate; inversion Ht; subst; clear Ht; cbn [t_corr c_base c_dissat] in *.
      all: destruct (Hgc Hd) as [Hcv Hcd]; destruct (Hga eq_refl) as [_ Had].
      all: split; [first [discriminate | exact Hcv]|].
      all: unfold all_dsat; rewrite sd_andor; cbn [snd]; apply cross_nonempty; [exact Had | exact Hcd].
    - (* or_b *) two_children IHm1 IHm2 Ht Hnm t1 t2 Hgx Hgy.
      destruct dx; cbn [negb] in Ht; try discriminate. destruct d2; cbn [negb] in Ht; try discriminate.
      destruct bx, b2; try discriminate; inversion Ht; subst; clear Ht. split; [discriminate|].
      unfold all_dsat. rewrite sd_or_b. cbn [snd]. apply cross_nonempty; [apply (Hgx eq_refl) | apply (Hgy eq_refl)].
    - (* or_d *) two_children IHm1 IHm2 Ht Hnm t1 t2 Hgx Hgy.
      destruct dx; cbn [negb] in Ht; try discriminate. destruct ux; cbn [negb] in Ht; try discriminate.
      destruct bx, b2; try discriminate; inversion Ht; subst; clear Ht. cbn [t_corr c_base c_dissat] in *.
      split; [discriminate|].
      unfold all_dsat. rewrite sd_or_d. cbn [snd]. apply cross_nonempty; [apply (Hgx eq_refl) | apply (Hgy Hd)].
    - (* or_c *) two_children IHm1 IHm2 Ht Hnm t1 t2 Hgx Hgy.
      destruct dx; cbn [negb] in Ht; try discriminate. destruct ux; cbn [negb] in Ht; try discriminate.
      destruct bx, b2; try discriminate; inversion Ht; subst; clear Ht. discriminate.
    - (* or_i *) two_children IHm1 IHm2 Ht Hnm t1 t2 Hgx Hgy.
      destruct bx, b2; try discriminate; inversion Ht; subst; clear Ht; cbn [t_corr c_base c_dissat] in *.
      all: apply Bool.orb_true_iff in Hd.
      all: split; [first [discriminate | destruct Hd as [Hd|Hd]; [exact (proj1 (Hgx Hd)) | exact (proj1 (Hgy Hd))]]|].
      all: unfold all_dsat; rewrite sd_or_i; cbn [snd]; apply ori_nonempty.
      all: destruct Hd as [Hd|Hd]; [left; exact (proj2 (Hgx Hd)) | right; exact (proj2 (Hgy Hd))].
    - (* thresh *) cbn [type_of] in Ht. fold (tys_of xs) in Ht.
      apply rbind_ok in Ht. destruct Ht as [ts [Hts Ht]]. apply tys_of_ok in Hts.
      unfold t_threshold in Ht. destruct (c_threshold k (map t_corr ts)) as [c|] eqn:Ec; [|discriminate].
      inversion Ht; subst; clear Ht. cbn [t_corr] in *.
      unfold c_threshold in Ec. destruct (c_thresh_loop 0 0 (map t_corr ts)) as [n|] eqn:El; [|discriminate].
      inversion Ec; subst; clear Ec. split; [discriminate|].
      unfold all_dsat. rewrite sd_thresh. cbn [snd]. apply comb0_nonempty.
      (* every child is d *)
      assert (Hdall : Forall (fun t => c_dissat (t_corr t) = true /\ c_base (t_corr t) <> BV) ts).
      { clear -El. revert El. generalize 0%N at 1 as i. generalize 0%N as acc. induction ts as [|t ts IH]; intros acc i El; [constructor|].
        cbn [map c_thresh_loop] in El.
        destruct (N.eqb i 0 && negb (base_eqb (c_base (t_corr t)) BB)) eqn:E1; [discriminate|].
        destruct (negb (N.eqb i 0) && negb (base_eqb (c_base (t_corr t)) BW)) eqn:E2; [discriminate|].
        destruct (c_unit (t_corr t)); cbn [negb] in El; [|discriminate].
        destruct (c_dissat (t_corr t)) eqn:Ed; cbn [negb] in El; [|discriminate].
        constructor; [|eapply IH; exact El]. split; [exact Ed|].
        intros Hb. rewrite Hb in E1, E2. cbn in E1, E2. destruct (N.eqb i 0); discriminate. }
      clear El. cbn [no_multi] in Hnm.
      revert ts Hts Hdall Hnm. induction H as [|x r Hx Hr IHr]; intros ts Hts Hdall Hnm; cbn [map]; [constructor|].
      inversion Hts as [|x' t' r' ts' Hxt Hrt]; subst. inversion Hdall as [|? ? [Hd1 _] Hd2]; subst.
      destruct Hnm as [Hn1 Hn2]. constructor; [|apply (IHr ts'); assumption].
      destruct (Hx t' Hxt Hn1 Hd1) as [_ Hne]. exact Hne.
    - inversion Ht; subst. split; discriminate.
    - inversion Ht; subst. split; discriminate.
    - inversion Ht; subst. split; discriminate.
    - inversion Ht; subst. split; discriminate.
  Qed.
End SF.

(* (D) *)
Theorem d_sound (e : env) (ke : keyenv) :
  keys_ok e ke -> (forall kbs, e_sigok e kbs [] = false) ->
  forall (m : ms) (t : ty), type_of m = ROk t -> wf e ke m -> no_multi m -> c_dissat (t_corr t) = true ->
  exists w, In w (all_dsat ke A0 m) /\ Forall (sf_elt ke) w /\
    match c_base (t_corr t) with
    | BB => forall rest al, exec e (enc ke m) (mkSt (w ++ rest) al) = Ok (mkSt ([] :: rest) al)
    | BK => forall rest al, exists kbs,
              exec e (enc ke m) (mkSt (w ++ rest) al) = Ok (mkSt (kbs :: [] :: rest) al) /\ e_keyok e kbs = true
    | BW => forall c rest al,
              exec e (enc ke m) (mkSt (c :: w ++ rest) al) = Ok (mkSt ([] :: c :: rest) al) \/
              exec e (enc ke m) (mkSt (c :: w ++ rest) al) = Ok (mkSt (c :: [] :: rest) al)
    | BV => False
    end.
Proof.
  intros Hk Hse m t Ht Hwf Hnm Hd.
  destruct (dsat_table ke m t Ht Hnm Hd) as [Hnv Hne].
  destruct (all_dsat ke A0 m) as [|w L] eqn:El; [congruence|]. exists w.
  assert (Hin : In w (all_dsat ke A0 m)) by (rewrite El; left; reflexivity).
  split; [rewrite <- El; exact Hin|]. split.
  { destruct (sf_sd ke m) as [_ Hs]. apply Hs. exact Hin. }
  destruct (theoremA_closed e ke A0 (A0_ok e ke Hk) Hse m t Ht Hwf Hnm) as [Hg _].
  unfold good in Hg. destruct (c_base (t_corr t)).
  - destruct Hg as [_ Hgd]. intros rest al. apply Hgd. exact Hin.
  - destruct Hg as [_ Hgd]. intros rest al. apply Hgd. exact Hin.
  - apply Hnv. reflexivity.
  - destruct Hg as [_ Hgd]. intros c rest al. apply (Hgd w c rest al Hin).
Qed.

(* non-vacuity: or_d(c:pk_k(0), and_b(sha256(h), a:c:pk_h(1))) is typed d and its dissatisfaction is listed *)
Definition exd_env : env :=
  mkEnv SvWitnessV0 100 0 2
        (fun k s => bytes_eqb s (k ++ [1%N]))
        (fun k => match k with [] => false | _ => true end)
        (fun b => 1%N :: b) (fun b => 2%N :: b) (fun b => 3%N :: b) (fun b => 4%N :: b).
Definition exd_ke : keyenv := mkKeyEnv (fun k => [2%N; k]) (fun k => [4%N; 2%N; k]) (fun l => l).
Definition exd_ms : ms := (MOrD (MCheck (MPkK 0)) (MAndB (MSha256 [5]) (MAlt (MCheck (MPkH 1)))))%N.
Example exd_keys : keys_ok exd_env exd_ke.
Proof. constructor; intros k; cbn; [reflexivity | lia | reflexivity]. Qed.
Example exd_sig : forall kbs, e_sigok exd_env kbs [] = false.
Proof. intros kbs. destruct kbs; reflexivity. Qed.
Example exd_typed : exists t, type_of exd_ms = ROk t /\ c_base (t_corr t) = BB /\ c_dissat (t_corr t) = true.
Proof. eexists. split; [vm_compute; reflexivity|]. split; reflexivity. Qed.
Example exd_wf : wf exd_env exd_ke exd_ms /\ no_multi exd_ms.
Proof. cbn. repeat split. discriminate. Qed.

(* remark: raw_pk_h (only produced by decoding a script) is typed d like pk_h, but whether it can be
   dissatisfied depends on a preimage of its hash being an acceptable key -- with a hash function that
   never returns h nothing executes at all; hence [no_multi] (= no raw_pk_h) in [d_sound]. *)
Lemma d_raw_pkh_needs_preimage :
  exists (e : env) (ke : keyenv) (m : ms) (t : ty),
    type_of m = ROk t /\ wf e ke m /\ c_base (t_corr t) = BB /\ c_dissat (t_corr t) = true /\
    forall st al, exec e (enc ke m) (mkSt st al) = Fail.
Proof.
  exists (mkEnv SvWitnessV0 0 0 2 (fun _ _ => false) (fun _ => true) (fun b => b) (fun b => b) (fun b => b) (fun _ => [])),
         exd_ke, (MCheck (MRawPkH [1%N])). eexists.
  split; [vm_compute; reflexivity|]. split; [exact I|]. split; [reflexivity|]. split; [reflexivity|].
  intros st al. destruct st; reflexivity.
Qed.
