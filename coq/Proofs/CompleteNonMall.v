(* C02, NON-malleable mode (Miniscript::satisfy), table level.
   The non-malleable satisfier deliberately refuses satisfactions a third party could turn into
   another one: [minimum] answers Unavailable when two signature-free candidates exist, and it takes
   the signature-free candidate even when that one is Unavailable to us.  Completeness therefore
   only holds for the scripts the API accepts here (sane: type-checked, non-malleable "m", safe "s"
   at the root so that root_has_sig = true) and when every hash preimage is known
   ([nonmall_needs_preimages] shows that hypothesis is necessary).  Under those hypotheses:
     - a satisfaction is never Unavailable (it is a Stack or Impossible),
     - the model returns a Stack whenever the specification table has an entry built from the assets,
     - for "s" fragments the satisfaction carries a signature (or is Impossible),
     - for "e" (unique dissatisfaction) fragments the dissatisfaction is a signature-free, lock-free
       Stack; for "f" fragments it carries a signature or is Impossible.
   All fragments, thresh with k < n included (thresh_nonmall sorts by (impossible, has_sig, weight));
   raw_pk_h excluded (not modelled: it only arises from decoding). *)
From Verif Require Import Exec Ser Ast Types TypeCheck SatSpec Sat ExecLemmas TheoremA SatProofs CompleteProofs CompleteThresh.
From Coq Require Import Lia Permutation Sorted ZArith.

(* ---------- predicates on the model's (dis)satisfactions ---------- *)
Definition nimp (s : satn) : Prop := is_imp (s_stack s) = false.
Definition ios (s : satn) : Prop := is_imp (s_stack s) = true \/ s_has_sig s = true.   (* impossible or signed *)
Definition soi (s : satn) : Prop := s_stack s <> WUnavailable.                           (* stack or impossible *)
Definition clean (s : satn) : Prop :=
  is_stack (s_stack s) = true /\ s_has_sig s = false /\ s_abs s = None /\ s_rel s = None.

Lemma clean_stk s : clean s -> stk s. Proof. intros [H _]. exact H. Qed.
Lemma clean_nimp s : clean s -> nimp s.
Proof. intros [H _]. unfold nimp. destruct (s_stack s); [reflexivity | discriminate | discriminate]. Qed.
Lemma clean_soi s : clean s -> soi s.
Proof. intros [H _]. unfold soi. destruct (s_stack s); discriminate. Qed.
Lemma soi_nimp_stk s : soi s -> nimp s -> stk s.
Proof. unfold soi, nimp, stk. destruct (s_stack s); cbn; congruence. Qed.
Lemma stk_nimp s : stk s -> nimp s.
Proof. unfold stk, nimp. destruct (s_stack s); cbn; congruence. Qed.
Lemma ios_imp : ios IMPOSSIBLE. Proof. left. reflexivity. Qed.
Lemma soi_imp : soi IMPOSSIBLE. Proof. discriminate. Qed.
Lemma clean_trivial : clean TRIVIAL. Proof. repeat split. Qed.
Lemma clean_push0 : clean push_0. Proof. repeat split. Qed.

(* concatenation *)
Lemma ios_concat_l a b : ios a -> ios (concatenate_rev a b).
Proof.
  intros H. unfold concatenate_rev. destruct (is_imp (s_stack a)) eqn:Ia; cbn [orb]; [apply ios_imp|].
  destruct (is_imp (s_stack b)); [apply ios_imp|].
  destruct (merge_lock rel_max (s_rel a) (s_rel b)); [|apply ios_imp].
  destruct (merge_lock abs_max (s_abs a) (s_abs b)); [|apply ios_imp].
  destruct H as [H|H]; [congruence|]. right. cbn [s_has_sig]. rewrite H. reflexivity.
Qed.
Lemma ios_concat_r a b : ios b -> ios (concatenate_rev a b).
Proof.
  intros H. unfold concatenate_rev. destruct (is_imp (s_stack a)); cbn [orb]; [apply ios_imp|].
  destruct (is_imp (s_stack b)) eqn:Ib; [apply ios_imp|].
  destruct (merge_lock rel_max (s_rel a) (s_rel b)); [|apply ios_imp].
  destruct (merge_lock abs_max (s_abs a) (s_abs b)); [|apply ios_imp].
  destruct H as [H|H]; [congruence|]. right. cbn [s_has_sig]. rewrite H. apply Bool.orb_true_r.
Qed.
Lemma soi_concat a b : soi a -> soi b -> soi (concatenate_rev a b).
Proof.
  unfold soi, concatenate_rev. intros Ha Hb. destruct (is_imp (s_stack a) || is_imp (s_stack b)); [discriminate|].
  destruct (merge_lock rel_max (s_rel a) (s_rel b)); [|discriminate].
  destruct (merge_lock abs_max (s_abs a) (s_abs b)); [|discriminate].
  cbn [s_stack]. destruct (s_stack a), (s_stack b); cbn [wcombine]; congruence.
Qed.
Lemma clean_concat a b : clean a -> clean b -> clean (concatenate_rev a b).
Proof.
  intros [Sa [Ga [Aa Ra]]] [Sb [Gb [Ab Rb]]]. unfold concatenate_rev.
  destruct (s_stack a) as [la| |] eqn:Ea; try discriminate. destruct (s_stack b) as [lb| |] eqn:Eb; try discriminate.
  cbn [is_imp orb]. rewrite Aa, Ab, Ra, Rb. cbn [merge_lock]. unfold clean. cbn [s_stack s_has_sig s_abs s_rel wcombine is_stack].
  rewrite Ga, Gb. repeat split.
Qed.

(* minimum *)
Lemma ios_min se a b : ios a -> ios b -> ios (minimum se a b).
Proof.
  intros Ha Hb. unfold minimum. destruct (is_imp (s_stack a)) eqn:Ia; [exact Hb|]. destruct (is_imp (s_stack b)) eqn:Ib; [exact Ha|].
  destruct Ha as [Ha|Ha]; [congruence|]. destruct Hb as [Hb|Hb]; [congruence|]. rewrite Ha, Hb.
  destruct (wit_lt se (s_stack a) (s_stack b)); right; reflexivity.
Qed.
Lemma soi_min se a b : soi a -> soi b -> ios a \/ ios b -> soi (minimum se a b).
Proof.
  intros Ha Hb H. unfold minimum. destruct (is_imp (s_stack a)) eqn:Ia; [exact Hb|]. destruct (is_imp (s_stack b)) eqn:Ib; [exact Ha|].
  destruct (s_has_sig a) eqn:Sa, (s_has_sig b) eqn:Sb; try (destruct (wit_lt se (s_stack a) (s_stack b))); try exact Ha; try exact Hb.
  all: exfalso; destruct H as [[H|H]|[H|H]]; congruence.
Qed.
Lemma nimp_min se a b : nimp a \/ nimp b -> nimp (minimum se a b).
Proof.
  unfold nimp, minimum. intros H. destruct (is_imp (s_stack a)) eqn:Ia; [destruct H; [congruence | assumption]|].
  destruct (is_imp (s_stack b)) eqn:Ib; [exact Ia|].
  destruct (s_has_sig a), (s_has_sig b); try (destruct (wit_lt se (s_stack a) (s_stack b))); cbn [s_stack UNAVAILABLE]; auto.
Qed.
Lemma held_min se a b : held se a -> held se b -> held se (minimum se a b).
Proof.
  intros Ha Hb. unfold minimum. destruct (is_imp (s_stack a)); [exact Hb|]. destruct (is_imp (s_stack b)); [exact Ha|].
  destruct (s_has_sig a), (s_has_sig b); try (destruct (wit_lt se (s_stack a) (s_stack b))); try apply held_const;
    (destruct Ha as [H1 H2], Hb as [H3 H4]; split; cbn [s_abs s_rel]; assumption).
Qed.
Lemma clean_min_l se a b : clean a -> ios b -> clean (minimum se a b).
Proof.
  intros Ha Hb. pose proof (clean_nimp a Ha) as Na. unfold nimp in Na. unfold minimum. rewrite Na.
  destruct (is_imp (s_stack b)) eqn:Ib; [exact Ha|]. destruct Hb as [Hb|Hb]; [congruence|].
  destruct Ha as [Sa [Ga [Aa Ra]]]. rewrite Ga, Hb. repeat split; assumption.
Qed.
Lemma clean_min_r se a b : ios a -> clean b -> clean (minimum se a b).
Proof.
  intros Ha Hb. pose proof (clean_nimp b Hb) as Nb. unfold nimp in Nb. unfold minimum.
  destruct (is_imp (s_stack a)) eqn:Ia; [exact Hb|]. rewrite Nb. destruct Ha as [Ha|Ha]; [congruence|].
  destruct Hb as [Sb [Gb [Ab Rb]]]. rewrite Ha, Gb. repeat split; assumption.
Qed.

(* pushing one more element (d:, or_i) *)
Definition pushed (s : satn) (p : ph) : satn := with_stack s (wcombine (s_stack s) (WStack [p])).
Lemma ios_push s p : ios s -> ios (pushed s p).
Proof. unfold ios, pushed. cbn [with_stack s_stack s_has_sig]. intros [H|H]; [left | right; exact H]. destruct (s_stack s); cbn in *; congruence. Qed.
Lemma soi_push s p : soi s -> soi (pushed s p).
Proof. unfold soi, pushed. cbn [with_stack s_stack]. destruct (s_stack s); cbn; congruence. Qed.
Lemma stk_push s p : stk s -> stk (pushed s p).
Proof. unfold stk, pushed. cbn [with_stack s_stack]. destruct (s_stack s); cbn; congruence. Qed.
Lemma held_push se s p : held se s -> held se (pushed s p).
Proof. intros [H1 H2]. split; assumption. Qed.
Lemma clean_push s p : clean s -> clean (pushed s p).
Proof. unfold clean, pushed. cbn [with_stack s_stack s_has_sig s_abs s_rel]. intros [H1 H2]. split; [|exact H2]. destruct (s_stack s); cbn in *; congruence. Qed.

(* folds *)
Lemma fold_ios l : forall acc, ios acc \/ Exists ios l -> ios (fold_left concatenate_rev l acc).
Proof.
  induction l as [|x r IH]; intros acc H; cbn [fold_left].
  - destruct H as [H|H]; [exact H | inversion H].
  - apply IH. destruct H as [H|H]; [left; apply ios_concat_l, H|].
    inversion H; subst; [left; apply ios_concat_r; assumption | right; assumption].
Qed.
Lemma fold_soi l : Forall soi l -> forall acc, soi acc -> soi (fold_left concatenate_rev l acc).
Proof. induction 1 as [|x r Hx Hr IH]; intros acc Ha; cbn [fold_left]; [exact Ha|]. apply IH, soi_concat; assumption. Qed.
Lemma fold_clean l : Forall clean l -> forall acc, clean acc -> clean (fold_left concatenate_rev l acc).
Proof. induction 1 as [|x r Hx Hr IH]; intros acc Ha; cbn [fold_left]; [exact Ha|]. apply IH, clean_concat; assumption. Qed.

(* ---------- typing inversions ---------- *)
Lemma lift1_mall fc fm t t' : lift1 fc fm t = ROk t' -> t_mall t' = fm (t_mall t).
Proof. unfold lift1. destruct (fc (t_corr t)); [|discriminate]. intros H. inversion H. reflexivity. Qed.
Lemma lift2_mall fc fm l r t' : lift2 fc fm l r = ROk t' -> t_mall t' = fm (t_mall l) (t_mall r).
Proof. unfold lift2. destruct (fc (t_corr l) (t_corr r)); [|discriminate]. intros H. inversion H. reflexivity. Qed.
Lemma and_or_mall a b c t' : t_and_or a b c = ROk t' -> t_mall t' = m_and_or (t_mall a) (t_mall b) (t_mall c).
Proof. unfold t_and_or. destruct (c_and_or _ _ _); [|discriminate]. intros H. inversion H. reflexivity. Qed.
Lemma threshold_mall k ts t' : t_threshold k ts = ROk t' -> t_mall t' = m_threshold k (map t_mall ts).
Proof. unfold t_threshold. destruct (c_threshold _ _); [|discriminate]. intros H. inversion H. reflexivity. Qed.

Lemma type1 x (g : ty -> res ty) t : rbind (type_of x) g = ROk t -> exists tx, type_of x = ROk tx /\ g tx = ROk t.
Proof. apply rbind_ok. Qed.
Lemma type2 x y (g : ty -> ty -> res ty) t : rbind (type_of x) (fun a => rbind (type_of y) (g a)) = ROk t ->
  exists tx ty, type_of x = ROk tx /\ type_of y = ROk ty /\ g tx ty = ROk t.
Proof. intros H. apply rbind_ok in H. destruct H as [tx [Hx H]]. apply rbind_ok in H. destruct H as [ty [Hy H]]. eauto. Qed.

(* m_threshold in closed form *)
Definition is_du (s : mall) : bool := dissat_eqb (m_dissat s) DUnique.
Lemma thresh_loop_closed subs : forall sc du nm,
  m_thresh_loop subs sc du nm =
  ((sc + N.of_nat (cnt m_signed subs))%N, du && forallb is_du subs, nm && forallb m_nm subs).
Proof.
  induction subs as [|s r IH]; intros sc du nm; cbn [m_thresh_loop forallb].
  - unfold cnt. cbn. rewrite N.add_0_r, !Bool.andb_true_r. reflexivity.
  - rewrite IH. unfold cnt. cbn [filter]. fold (is_du s). f_equal; [f_equal|].
    + destruct (m_signed s); cbn [length]; lia.
    + rewrite Bool.andb_assoc. reflexivity.
    + rewrite Bool.andb_assoc. reflexivity.
Qed.
Lemma m_threshold_closed k subs :
  m_threshold k subs =
  let n := N.of_nat (length subs) in let sc := N.of_nat (cnt m_signed subs) in
  mkMall (if forallb is_du subs && N.eqb sc n then DUnique else DUnknown) (N.ltb (n - k) sc)
         (forallb m_nm subs && N.leb (n - k) sc && forallb is_du subs).
Proof. unfold m_threshold. rewrite thresh_loop_closed. cbn [andb]. rewrite N.add_0_l. reflexivity. Qed.

Lemma cnt_nth_gen {X} (p : X -> bool) (l : list X) d : forall a,
  cnt (fun i => p (nth (i - a) l d)) (seq a (length l)) = cnt p l.
Proof.
  induction l as [|b r IH]; intros a; [reflexivity|]. cbn [length seq]. unfold cnt in *. cbn [filter].
  assert (E : filter (fun i => p (nth (i - a) (b :: r) d)) (seq (S a) (length r))
            = filter (fun i => p (nth (i - S a) r d)) (seq (S a) (length r))).
  { apply filter_ext_in. intros i Hi. apply in_seq in Hi. replace (i - a)%nat with (S (i - S a)) by lia. reflexivity. }
  rewrite E. rewrite Nat.sub_diag. cbn [nth]. destruct (p b); cbn [length]; rewrite IH; reflexivity.
Qed.
Lemma cnt_nth {X} (p : X -> bool) (l : list X) d : cnt (fun i => p (nth i l d)) (seq 0 (length l)) = cnt p l.
Proof.
  rewrite <- (cnt_nth_gen p l d 0). unfold cnt. f_equal. apply filter_ext. intros i. rewrite Nat.sub_0_r. reflexivity.
Qed.
Lemma cnt_exists {X} (f : X -> bool) l : (1 <= cnt f l)%nat -> exists x, In x l /\ f x = true.
Proof.
  unfold cnt. intros H. destruct (filter f l) as [|x r] eqn:E; [cbn in H; lia|].
  assert (Hin : In x (filter f l)) by (rewrite E; left; reflexivity). apply filter_In in Hin. eauto.
Qed.
Lemma cnt_le_len {X} (f : X -> bool) l : (cnt f l <= length l)%nat.
Proof. unfold cnt. induction l as [|x r IH]; [cbn; lia|]. cbn [filter]. destruct (f x); cbn [length]; lia. Qed.

(* ---------- the non-malleable sort key ---------- *)
Lemma key3_total a b : key3_le a b = false -> key3_le b a = true.
Proof.
  destruct a as [[a1 a2] a3], b as [[b1 b2] b3]. unfold key3_le.
  destruct a1, b1, a2, b2; cbn; try discriminate; try reflexivity; intros H; apply Z.leb_gt in H; apply Z.leb_le; lia.
Qed.
Lemma key3_trans a b c : key3_le a b = true -> key3_le b c = true -> key3_le a c = true.
Proof.
  destruct a as [[a1 a2] a3], b as [[b1 b2] b3], c as [[c1 c2] c3]. unfold key3_le.
  destruct a1, b1, c1, a2, b2, c2; cbn; try discriminate; try reflexivity; intros H1 H2; apply Z.leb_le in H1, H2; apply Z.leb_le; lia.
Qed.
Lemma key3_imp a2 a3 b1 b2 b3 : key3_le (true, a2, a3) (b1, b2, b3) = true -> b1 = true.
Proof. destruct b1; [reflexivity|]. cbn. discriminate. Qed.
Lemma key3_nosig a1 a2 a3 b3 : key3_le (a1, a2, a3) (false, false, b3) = true -> a1 = false /\ a2 = false.
Proof. destruct a1, a2; cbn; try discriminate; auto. Qed.

Lemma nth_in_skipn {X} (l : list X) d : forall k, (k < length l)%nat -> In (nth k l d) (skipn k l).
Proof.
  induction l as [|x r IH]; intros k Hk; [cbn in Hk; lia|]. destruct k as [|k]; [left; reflexivity|].
  cbn [nth skipn]. apply IH. cbn [length] in Hk. lia.
Qed.

Lemma cnt_negb {X} (f : X -> bool) l : (cnt (fun x => negb (f x)) l + cnt f l = length l)%nat.
Proof. unfold cnt. induction l as [|x r IH]; [reflexivity|]. cbn [filter length]. destruct (f x); cbn [negb length]; lia. Qed.

(* ---------- thresh_nonmall ---------- *)
Section ThreshNonMall.
  Variable se : senv.
  Hypothesis Habs_unit : forall t1 t2, se_after se t1 = true -> se_after se t2 = true ->
    Bool.eqb (N.ltb t1 500000000) (N.ltb t2 500000000) = true.
  Hypothesis Hrel_unit : forall t1 t2, se_older se t1 = true -> se_older se t2 = true ->
    Bool.eqb (rel_is_time t1) (rel_is_time t2) = true.

  Variable k : nat.
  Variables dissats sats : list satn.
  Hypothesis Hlen : length sats = length dissats.
  Hypothesis Hk : (k < length dissats)%nat.

  Definition nm_key (i : nat) : key3 :=
    (is_imp (s_stack (nth_sat sats i)), s_has_sig (nth_sat sats i),
     stack_weight se (s_stack (nth_sat sats i)) (s_stack (nth_sat dissats i))).
  Definition nm_order : list nat := ordered key3 key3_le nm_key (length dissats).

  Lemma thresh_nonmall_eq : thresh_nonmall se k dissats sats =
    if is_imp (s_stack (nth_sat dissats (nth (k - 1) nm_order 0%nat))) then IMPOSSIBLE
    else if negb (s_has_sig (nth_sat sats (nth k nm_order 0%nat))) && negb (is_imp (s_stack (nth_sat sats (nth k nm_order 0%nat)))) then UNAVAILABLE
    else flatten_rev (swap_in (firstn k nm_order) dissats sats).
  Proof. reflexivity. Qed.

  Let n := length dissats.
  Let C := firstn k nm_order.
  Let R := skipn k nm_order.
  Lemma nmo_perm : Permutation nm_order (seq 0 n). Proof. apply ordered_perm. Qed.
  Lemma nmo_len : length nm_order = n. Proof. rewrite (Permutation_length nmo_perm). apply seq_length. Qed.
  Lemma nmo_lt i : In i nm_order -> (i < n)%nat.
  Proof. intros Hi. eapply Permutation_in in Hi; [|exact nmo_perm]. apply in_seq in Hi. lia. Qed.
  Lemma nmo_split : nm_order = C ++ R. Proof. symmetry. apply firstn_skipn. Qed.
  Lemma nmo_lenC : length C = k. Proof. apply firstn_length_le. rewrite nmo_len. unfold n. lia. Qed.
  Lemma nmo_lenR : (length R + k = n)%nat. Proof. unfold R. rewrite skipn_length, nmo_len. unfold n. lia. Qed.
  Lemma nmo_inC i : In i C -> In i nm_order. Proof. intros H. rewrite nmo_split. apply in_or_app. left. exact H. Qed.
  Lemma nmo_inR i : In i R -> In i nm_order. Proof. intros H. rewrite nmo_split. apply in_or_app. right. exact H. Qed.
  Lemma nmo_sorted c r : In c C -> In r R -> key3_le (nm_key c) (nm_key r) = true.
  Proof.
    intros Hc Hr. assert (Hs : StronglySorted (gle key3 key3_le nm_key) nm_order) by (apply ordered_sorted; [exact key3_total | exact key3_trans]).
    exact (sorted_split _ _ _ Hs k c r Hc Hr).
  Qed.
  Lemma nmo_cnt (q : nat -> bool) : cnt q (seq 0 n) = (cnt q C + cnt q R)%nat.
  Proof. rewrite <- (cnt_perm q _ _ nmo_perm), nmo_split, cnt_app. reflexivity. Qed.
  Lemma nmo_knext : In (nth k nm_order 0%nat) R.
  Proof. apply nth_in_skipn. rewrite nmo_len. exact Hk. Qed.

  Lemma tn_held : Forall (held se) dissats -> Forall (held se) sats -> held se (thresh_nonmall se k dissats sats).
  Proof.
    intros Hd Hs. rewrite thresh_nonmall_eq. destruct (is_imp _); [apply held_const|]. destruct (negb _ && negb _); [apply held_const|].
    unfold flatten_rev. apply fold_held; [|apply held_trivial]. apply swap_held; assumption.
  Qed.

  (* [sg i]: child i is of a signed ("s") type *)
  Variable sg : nat -> bool.
  Hypothesis Hsg : forall i, (i < n)%nat -> sg i = true -> ios (nth_sat sats i).

  (* with at most k unsigned children the "too many weak arguments" branch is not taken *)
  Lemma tn_check2 : (cnt (fun i => negb (sg i)) (seq 0 n) <= k)%nat ->
    negb (s_has_sig (nth_sat sats (nth k nm_order 0%nat))) && negb (is_imp (s_stack (nth_sat sats (nth k nm_order 0%nat)))) = false.
  Proof.
    intros Hu. set (x := nth k nm_order 0%nat).
    destruct (s_has_sig (nth_sat sats x)) eqn:E1; [reflexivity|]. destruct (is_imp (s_stack (nth_sat sats x))) eqn:E2; [reflexivity|]. exfalso.
    set (q := fun i => negb (is_imp (s_stack (nth_sat sats i))) && negb (s_has_sig (nth_sat sats i))).
    assert (HqC : cnt q C = length C).
    { apply cnt_all. intros c Hc. pose proof (nmo_sorted c x Hc nmo_knext) as G. unfold nm_key in G. rewrite E1, E2 in G.
      apply key3_nosig in G. destruct G as [G1 G2]. unfold q. rewrite G1, G2. reflexivity. }
    assert (HqR : (1 <= cnt q R)%nat) by (apply (cnt_pos q R x nmo_knext); unfold q; rewrite E1, E2; reflexivity).
    assert (Hle : (cnt q (seq 0 n) <= cnt (fun i => negb (sg i)) (seq 0 n))%nat).
    { apply cnt_le. intros i Hi Hq. apply in_seq in Hi. unfold q in Hq. apply Bool.andb_true_iff in Hq. destruct Hq as [Q1 Q2].
      destruct (sg i) eqn:Es; [|reflexivity]. exfalso. destruct (Hsg i ltac:(lia) Es) as [G|G].
      - rewrite G in Q1. discriminate.
      - rewrite G in Q2. discriminate. }
    rewrite nmo_cnt, HqC, nmo_lenC in Hle. lia.
  Qed.

  (* "s": more than n - k signed children *)
  Lemma tn_ios : (n < cnt sg (seq 0 n) + k)%nat -> ios (thresh_nonmall se k dissats sats).
  Proof.
    intros Hs. rewrite thresh_nonmall_eq. destruct (is_imp _); [apply ios_imp|].
    rewrite tn_check2 by (pose proof (cnt_negb sg (seq 0 n)) as G; rewrite seq_length in G; lia).
    unfold flatten_rev. apply fold_ios. right.
    assert (HC1 : (1 <= cnt sg C)%nat).
    { pose proof (cnt_le_len sg R). pose proof nmo_lenR. rewrite nmo_cnt in Hs. lia. }
    apply cnt_exists in HC1. destruct HC1 as [c [Hc Hsc]].
    assert (Hcn : (c < n)%nat) by apply nmo_lt, nmo_inC, Hc.
    rewrite swap_in_seq. apply Exists_exists. exists (nth_sat sats c). split; [|apply Hsg; assumption].
    apply in_map_iff. exists c. split; [|apply in_seq; unfold n in Hcn; lia].
    assert (E : existsb (Nat.eqb c) (firstn k nm_order) = true) by (apply existsb_exists; exists c; split; [exact Hc | apply Nat.eqb_refl]).
    rewrite E. reflexivity.
  Qed.

  (* non-malleable typing: every dissatisfaction is a signature-free stack, no satisfaction is Unavailable *)
  Hypothesis Hclean : Forall clean dissats.
  Hypothesis Hsoi : Forall soi sats.
  Hypothesis Hun : (cnt (fun i => negb (sg i)) (seq 0 n) <= k)%nat.

  Lemma tn_dis_clean i : (i < n)%nat -> clean (nth_sat dissats i).
  Proof. intros Hi. unfold nth_sat. apply forall_nth; assumption. Qed.
  Lemma tn_sat_soi i : (i < n)%nat -> soi (nth_sat sats i).
  Proof. intros Hi. unfold nth_sat. apply forall_nth; [assumption | unfold n in Hi; lia]. Qed.

  Lemma tn_soi : soi (thresh_nonmall se k dissats sats).
  Proof.
    rewrite thresh_nonmall_eq. destruct (is_imp _); [apply soi_imp|]. rewrite (tn_check2 Hun).
    unfold flatten_rev. apply fold_soi; [|apply clean_soi, clean_trivial].
    apply swap_in_forall; intros i Hi _; [apply tn_sat_soi | apply clean_soi, tn_dis_clean]; exact Hi.
  Qed.

  Lemma tn_stk (M : list bool) : (1 <= k)%nat -> length M = n -> ctrue M = k ->
    Forall (held se) dissats -> Forall (held se) sats ->
    (forall i, (i < n)%nat -> nth i M false = true -> stk (nth_sat sats i)) ->
    stk (thresh_nonmall se k dissats sats).
  Proof.
    intros Hk1 HLM HCM Hhd Hhs HM. rewrite thresh_nonmall_eq.
    assert (Hkth : (nth (k - 1) nm_order 0 < n)%nat) by (apply nmo_lt, nth_In; rewrite nmo_len; unfold n; lia).
    pose proof (clean_nimp _ (tn_dis_clean _ Hkth)) as E1. unfold nimp in E1. rewrite E1. rewrite (tn_check2 Hun).
    unfold flatten_rev. apply (fold_ok se Habs_unit Hrel_unit); [|apply held_trivial | reflexivity].
    apply swap_in_forall.
    - intros c Hc Hin. split; [unfold nth_sat; apply forall_nth; [exact Hhs | lia]|].
      apply soi_nimp_stk; [apply tn_sat_soi, Hc|]. unfold nimp.
      destruct (is_imp (s_stack (nth_sat sats c))) eqn:Ec; [exfalso | reflexivity].
      set (q := fun i => is_imp (s_stack (nth_sat sats i))).
      assert (HqR : cnt q R = length R).
      { apply cnt_all. intros r Hr. pose proof (nmo_sorted c r Hin Hr) as G. unfold nm_key in G. rewrite Ec in G.
        apply key3_imp in G. exact G. }
      assert (HqC : (1 <= cnt q C)%nat) by (apply (cnt_pos q C c Hin); exact Ec).
      assert (Hle : (cnt q (seq 0 n) <= cnt (fun i => negb (nth i M false)) (seq 0 n))%nat).
      { apply cnt_le. intros i Hi Hq. apply in_seq in Hi. destruct (nth i M false) eqn:Em; [|reflexivity]. exfalso.
        pose proof (stk_nimp _ (HM i ltac:(lia) Em)) as G. unfold nimp in G. unfold q in Hq. congruence. }
      pose proof (cnt_mask_false M) as G2. rewrite HLM, HCM in G2. rewrite nmo_cnt, HqR in Hle. pose proof nmo_lenR. lia.
    - intros i Hi _. split; [unfold nth_sat; apply forall_nth; [exact Hhd | lia]|]. apply clean_stk, tn_dis_clean, Hi.
  Qed.
End ThreshNonMall.

(* ---------- the invariant and its preservation, constructor by constructor ---------- *)
Lemma forall_of_nth {X} (P : X -> Prop) l d : (forall i, (i < length l)%nat -> P (nth i l d)) -> Forall P l.
Proof. intros H. apply Forall_forall. intros x Hx. apply (In_nth _ _ d) in Hx. destruct Hx as [i [Hi <-]]. apply H, Hi. Qed.
Lemma Forall2_ix {X Y} (R : X -> Y -> Prop) l1 l2 d1 d2 : Forall2 R l1 l2 ->
  length l1 = length l2 /\ forall i, (i < length l1)%nat -> R (nth i l1 d1) (nth i l2 d2).
Proof.
  induction 1 as [|x y l1 l2 Hxy Hr [IH1 IH2]]; [split; [reflexivity | intros i Hi; cbn in Hi; lia]|].
  split; [cbn [length]; lia|]. intros [|i] Hi; cbn [nth]; [exact Hxy | apply IH2; cbn [length] in Hi; lia].
Qed.

Ltac mall_simpl := unfold m_and_v, m_and_b, m_or_b, m_or_d, m_or_c, m_or_i, m_and_or, m_cast_dupif, m_cast_verify, m_cast_nonzero;
  cbn [fst snd m_dissat m_signed m_nm].

Section NonMall.
  Variable ke : keyenv.
  Variable A : assets.
  Variable se : senv.
  Variable f : fill.
  Hypothesis L : linked ke A se f.
  (* as for the malleable mode: the lock values the caller holds are mutually compatible *)
  Hypothesis Habs_unit : forall t1 t2, se_after se t1 = true -> se_after se t2 = true ->
    Bool.eqb (N.ltb t1 500000000) (N.ltb t2 500000000) = true.
  Hypothesis Hrel_unit : forall t1 t2, se_older se t1 = true -> se_older se t2 = true ->
    Bool.eqb (rel_is_time t1) (rel_is_time t2) = true.

  Record invp (ds : satn * satn) (S : list wit) (ml : mall) : Prop := mkInv {
    p_hd : held se (fst ds);
    p_hs : held se (snd ds);
    p_sig : m_signed ml = true -> ios (snd ds);
    p_dn : m_dissat ml = DNone -> ios (fst ds);
    p_soi : m_nm ml = true -> soi (snd ds);
    p_du : m_nm ml = true -> m_dissat ml = DUnique -> clean (fst ds);
    p_tab : m_nm ml = true -> S <> [] -> stk (snd ds) }.

  Lemma c_ok a b : held se a -> held se b -> stk a -> stk b -> stk (concatenate_rev a b).
  Proof. intros. apply (concat_ok se Habs_unit Hrel_unit); assumption. Qed.

  Lemma min_tab a b : soi (minimum se a b) -> stk a \/ stk b -> stk (minimum se a b).
  Proof. intros Hs H. apply soi_nimp_stk; [exact Hs|]. apply nimp_min. destruct H; [left | right]; apply stk_nimp; assumption. Qed.

  (* wrappers that only add a dissatisfaction *)
  Lemma st_dupif ds S ml : invp ds S ml -> invp (push_0, pushed (snd ds) PhPushOne) (map (cons [1%N]) S) (m_cast_dupif ml).
  Proof.
    intros H. destruct ml as [d s n]. cbn [m_cast_dupif m_dissat m_signed m_nm] in *. constructor; mall_simpl.
    - apply held_const.
    - apply held_push, (p_hs _ _ _ H).
    - intros E. apply ios_push, (p_sig _ _ _ H E).
    - destruct d; discriminate.
    - intros E. apply soi_push, (p_soi _ _ _ H E).
    - intros _ _. apply clean_push0.
    - intros E Hn. apply map_nonempty in Hn. apply stk_push, (p_tab _ _ _ H E Hn).
  Qed.
  Lemma st_verify ds S ml : invp ds S ml -> invp (IMPOSSIBLE, snd ds) S (m_cast_verify ml).
  Proof.
    intros H. destruct ml as [d s n]. cbn [m_cast_verify m_dissat m_signed m_nm] in *. constructor; mall_simpl.
    - apply held_const.
    - apply (p_hs _ _ _ H).
    - apply (p_sig _ _ _ H).
    - intros _. apply ios_imp.
    - apply (p_soi _ _ _ H).
    - intros _ E. discriminate.
    - apply (p_tab _ _ _ H).
  Qed.
  Lemma st_nonzero ds S ml : invp ds S ml -> invp (push_0, snd ds) S (m_cast_nonzero ml).
  Proof.
    intros H. destruct ml as [d s n]. cbn [m_cast_nonzero m_dissat m_signed m_nm] in *. constructor; mall_simpl.
    - apply held_const.
    - apply (p_hs _ _ _ H).
    - apply (p_sig _ _ _ H).
    - destruct d; discriminate.
    - apply (p_soi _ _ _ H).
    - intros _ _. apply clean_push0.
    - apply (p_tab _ _ _ H).
  Qed.

  Lemma st_and_v l r Sl Sr ml mr : invp l Sl ml -> invp r Sr mr ->
    invp (concatenate_rev (snd l) (fst r), concatenate_rev (snd l) (snd r)) (cross Sl Sr) (m_and_v ml mr).
  Proof.
    intros Hl Hr. destruct ml as [dl sl nl], mr as [dr sr nr]. cbn [m_and_v m_dissat m_signed m_nm] in *.
    constructor; mall_simpl.
    - apply concat_held; [apply (p_hs _ _ _ Hl) | apply (p_hd _ _ _ Hr)].
    - apply concat_held; [apply (p_hs _ _ _ Hl) | apply (p_hs _ _ _ Hr)].
    - intros E. apply Bool.orb_true_iff in E. destruct E as [E|E]; [apply ios_concat_l, (p_sig _ _ _ Hl E) | apply ios_concat_r, (p_sig _ _ _ Hr E)].
    - intros E. destruct dr; [apply ios_concat_r, (p_dn _ _ _ Hr eq_refl) | |]; (destruct sl; [apply ios_concat_l, (p_sig _ _ _ Hl eq_refl) | discriminate]).
    - intros E. apply Bool.andb_true_iff in E. destruct E as [E1 E2]. apply soi_concat; [apply (p_soi _ _ _ Hl E1) | apply (p_soi _ _ _ Hr E2)].
    - intros _ E. destruct sl, dr; discriminate.
    - intros E Hn. apply Bool.andb_true_iff in E. destruct E as [E1 E2]. apply cross_nonempty in Hn. destruct Hn as [N1 N2].
      apply c_ok; [apply (p_hs _ _ _ Hl) | apply (p_hs _ _ _ Hr) | apply (p_tab _ _ _ Hl E1 N1) | apply (p_tab _ _ _ Hr E2 N2)].
  Qed.

  Lemma st_and_b l r Sl Sr ml mr : invp l Sl ml -> invp r Sr mr ->
    invp (concatenate_rev (fst l) (fst r), concatenate_rev (snd l) (snd r)) (cross Sl Sr) (m_and_b ml mr).
  Proof.
    intros Hl Hr. destruct ml as [dl sl nl], mr as [dr sr nr]. cbn [m_and_b m_dissat m_signed m_nm] in *.
    constructor; mall_simpl.
    - apply concat_held; [apply (p_hd _ _ _ Hl) | apply (p_hd _ _ _ Hr)].
    - apply concat_held; [apply (p_hs _ _ _ Hl) | apply (p_hs _ _ _ Hr)].
    - intros E. apply Bool.orb_true_iff in E. destruct E as [E|E]; [apply ios_concat_l, (p_sig _ _ _ Hl E) | apply ios_concat_r, (p_sig _ _ _ Hr E)].
    - intros E. destruct dl, dr, sl, sr; cbn in E; try discriminate;
        first [apply ios_concat_l, (p_dn _ _ _ Hl eq_refl) | apply ios_concat_r, (p_dn _ _ _ Hr eq_refl)].
    - intros E. apply Bool.andb_true_iff in E. destruct E as [E1 E2]. apply soi_concat; [apply (p_soi _ _ _ Hl E1) | apply (p_soi _ _ _ Hr E2)].
    - intros E D. apply Bool.andb_true_iff in E. destruct E as [E1 E2].
      assert (dl = DUnique /\ dr = DUnique) as [-> ->] by (destruct dl, dr, sl, sr; cbn in D; try discriminate; auto).
      apply clean_concat; [apply (p_du _ _ _ Hl E1 eq_refl) | apply (p_du _ _ _ Hr E2 eq_refl)].
    - intros E Hn. apply Bool.andb_true_iff in E. destruct E as [E1 E2]. apply cross_nonempty in Hn. destruct Hn as [N1 N2].
      apply c_ok; [apply (p_hs _ _ _ Hl) | apply (p_hs _ _ _ Hr) | apply (p_tab _ _ _ Hl E1 N1) | apply (p_tab _ _ _ Hr E2 N2)].
  Qed.

  (* nm of the four or-combinators: both sides nm, the listed sides "e", one side "s" *)
  Lemma st_or_b l r Sl Dl Sr Dr ml mr : invp l Sl ml -> invp r Sr mr ->
    invp (concatenate_rev (fst l) (fst r),
          minimum se (concatenate_rev (fst l) (snd r)) (concatenate_rev (snd l) (fst r)))
         (cross Dl Sr ++ cross Sl Dr) (m_or_b ml mr).
  Proof.
    intros Hl Hr. destruct ml as [dl sl nl], mr as [dr sr nr]. cbn [m_or_b m_dissat m_signed m_nm] in *.
    assert (Hh : held se (minimum se (concatenate_rev (fst l) (snd r)) (concatenate_rev (snd l) (fst r)))).
    { apply held_min; apply concat_held; first [apply (p_hd _ _ _ Hl) | apply (p_hs _ _ _ Hl) | apply (p_hd _ _ _ Hr) | apply (p_hs _ _ _ Hr)]. }
    assert (Hnm : nl && dissat_eqb dl DUnique && nr && dissat_eqb dr DUnique && (sl || sr) = true ->
                  nl = true /\ dl = DUnique /\ nr = true /\ dr = DUnique /\ (sl = true \/ sr = true)).
    { intros E. repeat (apply Bool.andb_true_iff in E; destruct E as [E ?]). apply Bool.orb_true_iff in H.
      destruct dl, dr; try discriminate. auto. }
    assert (Hsoi : nl && dissat_eqb dl DUnique && nr && dissat_eqb dr DUnique && (sl || sr) = true ->
                   clean (fst l) /\ clean (fst r) /\
                   soi (minimum se (concatenate_rev (fst l) (snd r)) (concatenate_rev (snd l) (fst r)))).
    { intros E. destruct (Hnm E) as [-> [-> [-> [-> Hs]]]].
      pose proof (p_du _ _ _ Hl eq_refl eq_refl) as Cl. pose proof (p_du _ _ _ Hr eq_refl eq_refl) as Cr. split; [exact Cl|]. split; [exact Cr|].
      apply soi_min.
      - apply soi_concat; [apply clean_soi, Cl | apply (p_soi _ _ _ Hr eq_refl)].
      - apply soi_concat; [apply (p_soi _ _ _ Hl eq_refl) | apply clean_soi, Cr].
      - destruct Hs as [->| ->]; [right; apply ios_concat_l, (p_sig _ _ _ Hl eq_refl) | left; apply ios_concat_r, (p_sig _ _ _ Hr eq_refl)]. }
    constructor; mall_simpl.
    - apply concat_held; [apply (p_hd _ _ _ Hl) | apply (p_hd _ _ _ Hr)].
    - exact Hh.
    - intros E. apply Bool.andb_true_iff in E. destruct E as [-> ->].
      apply ios_min; [apply ios_concat_r, (p_sig _ _ _ Hr eq_refl) | apply ios_concat_l, (p_sig _ _ _ Hl eq_refl)].
    - discriminate.
    - intros E. apply (Hsoi E).
    - intros E _. destruct (Hsoi E) as [Cl [Cr _]]. apply clean_concat; assumption.
    - intros E Hn. destruct (Hsoi E) as [Cl [Cr Hs]]. destruct (Hnm E) as [-> [-> [-> [-> _]]]]. apply min_tab; [exact Hs|].
      apply app_nonempty in Hn. destruct Hn as [Hn|Hn]; apply cross_nonempty in Hn; destruct Hn as [N1 N2]; [left | right].
      + apply c_ok; [apply (p_hd _ _ _ Hl) | apply (p_hs _ _ _ Hr) | apply clean_stk, Cl | apply (p_tab _ _ _ Hr eq_refl N2)].
      + apply c_ok; [apply (p_hs _ _ _ Hl) | apply (p_hd _ _ _ Hr) | apply (p_tab _ _ _ Hl eq_refl N1) | apply clean_stk, Cr].
  Qed.

  (* or_d / or_c share the satisfaction *)
  Lemma or_dc_sat l r Sl Dl Sr ml mr : invp l Sl ml -> invp r Sr mr ->
    let s := minimum se (snd l) (concatenate_rev (fst l) (snd r)) in
    held se s /\ (m_signed ml && m_signed mr = true -> ios s) /\
    (m_nm ml && dissat_eqb (m_dissat ml) DUnique && m_nm mr && (m_signed ml || m_signed mr) = true ->
       clean (fst l) /\ m_nm mr = true /\ soi s /\ (Sl ++ cross Dl Sr <> [] -> stk s)).
  Proof.
    intros Hl Hr s. destruct ml as [dl sl nl], mr as [dr sr nr]. cbn [m_dissat m_signed m_nm] in *. split; [|split].
    - apply held_min; [apply (p_hs _ _ _ Hl) | apply concat_held; [apply (p_hd _ _ _ Hl) | apply (p_hs _ _ _ Hr)]].
    - intros E. apply Bool.andb_true_iff in E. destruct E as [-> ->].
      apply ios_min; [apply (p_sig _ _ _ Hl eq_refl) | apply ios_concat_r, (p_sig _ _ _ Hr eq_refl)].
    - intros E. repeat (apply Bool.andb_true_iff in E; destruct E as [E ?]). apply Bool.orb_true_iff in H. subst nl nr.
      destruct dl; try discriminate. pose proof (p_du _ _ _ Hl eq_refl eq_refl) as Cl.
      assert (Hs : soi s).
      { apply soi_min; [apply (p_soi _ _ _ Hl eq_refl) | apply soi_concat; [apply clean_soi, Cl | apply (p_soi _ _ _ Hr eq_refl)]|].
        destruct H as [->| ->]; [left; apply (p_sig _ _ _ Hl eq_refl) | right; apply ios_concat_r, (p_sig _ _ _ Hr eq_refl)]. }
      split; [exact Cl|]. split; [reflexivity|]. split; [exact Hs|]. intros Hn. apply min_tab; [exact Hs|].
      apply app_nonempty in Hn. destruct Hn as [Hn|Hn]; [left; apply (p_tab _ _ _ Hl eq_refl Hn)|]. right.
      apply cross_nonempty in Hn. destruct Hn as [N1 N2].
      apply c_ok; [apply (p_hd _ _ _ Hl) | apply (p_hs _ _ _ Hr) | apply clean_stk, Cl | apply (p_tab _ _ _ Hr eq_refl N2)].
  Qed.

  Lemma st_or_d l r Sl Dl Sr ml mr : invp l Sl ml -> invp r Sr mr ->
    invp (concatenate_rev (fst l) (fst r), minimum se (snd l) (concatenate_rev (fst l) (snd r)))
         (Sl ++ cross Dl Sr) (m_or_d ml mr).
  Proof.
    intros Hl Hr. destruct (or_dc_sat l r Sl Dl Sr ml mr Hl Hr) as [Hh [Hsig Hnm]].
    constructor; mall_simpl.
    - apply concat_held; [apply (p_hd _ _ _ Hl) | apply (p_hd _ _ _ Hr)].
    - exact Hh.
    - exact Hsig.
    - intros E. apply ios_concat_r, (p_dn _ _ _ Hr E).
    - intros E. apply (Hnm E).
    - intros E D. destruct (Hnm E) as [Cl [Nr _]]. apply clean_concat; [exact Cl | apply (p_du _ _ _ Hr Nr D)].
    - intros E. apply (Hnm E).
  Qed.
  Lemma st_or_c l r Sl Dl Sr ml mr : invp l Sl ml -> invp r Sr mr ->
    invp (IMPOSSIBLE, minimum se (snd l) (concatenate_rev (fst l) (snd r))) (Sl ++ cross Dl Sr) (m_or_c ml mr).
  Proof.
    intros Hl Hr. destruct (or_dc_sat l r Sl Dl Sr ml mr Hl Hr) as [Hh [Hsig Hnm]].
    constructor; mall_simpl.
    - apply held_const.
    - exact Hh.
    - exact Hsig.
    - intros _. apply ios_imp.
    - intros E. apply (Hnm E).
    - intros _ D. discriminate.
    - intros E. apply (Hnm E).
  Qed.

  Lemma st_or_i l r Sl Sr ml mr : invp l Sl ml -> invp r Sr mr ->
    invp (minimum se (pushed (fst l) PhPushOne) (pushed (fst r) PhPushZero),
          minimum se (pushed (snd l) PhPushOne) (pushed (snd r) PhPushZero))
         (map (cons [1%N]) Sl ++ map (cons []) Sr) (m_or_i ml mr).
  Proof.
    intros Hl Hr. destruct ml as [dl sl nl], mr as [dr sr nr]. cbn [m_or_i m_dissat m_signed m_nm] in *.
    assert (Hsoi : nl && nr && (sl || sr) = true -> soi (minimum se (pushed (snd l) PhPushOne) (pushed (snd r) PhPushZero))).
    { intros E. repeat (apply Bool.andb_true_iff in E; destruct E as [E ?]). apply Bool.orb_true_iff in H. subst nl nr.
      apply soi_min; [apply soi_push, (p_soi _ _ _ Hl eq_refl) | apply soi_push, (p_soi _ _ _ Hr eq_refl)|].
      destruct H as [->| ->]; [left; apply ios_push, (p_sig _ _ _ Hl eq_refl) | right; apply ios_push, (p_sig _ _ _ Hr eq_refl)]. }
    constructor; mall_simpl.
    - apply held_min; apply held_push; [apply (p_hd _ _ _ Hl) | apply (p_hd _ _ _ Hr)].
    - apply held_min; apply held_push; [apply (p_hs _ _ _ Hl) | apply (p_hs _ _ _ Hr)].
    - intros E. apply Bool.andb_true_iff in E. destruct E as [-> ->].
      apply ios_min; apply ios_push; [apply (p_sig _ _ _ Hl eq_refl) | apply (p_sig _ _ _ Hr eq_refl)].
    - intros E. destruct dl, dr; try discriminate. apply ios_min; apply ios_push; [apply (p_dn _ _ _ Hl eq_refl) | apply (p_dn _ _ _ Hr eq_refl)].
    - exact Hsoi.
    - intros E D. repeat (apply Bool.andb_true_iff in E; destruct E as [E ?]). subst nl nr. destruct dl, dr; try discriminate.
      + apply clean_min_r; [apply ios_push, (p_dn _ _ _ Hl eq_refl) | apply clean_push, (p_du _ _ _ Hr eq_refl eq_refl)].
      + apply clean_min_l; [apply clean_push, (p_du _ _ _ Hl eq_refl eq_refl) | apply ios_push, (p_dn _ _ _ Hr eq_refl)].
    - intros E Hn. apply min_tab; [apply Hsoi, E|]. repeat (apply Bool.andb_true_iff in E; destruct E as [E ?]). subst nl nr.
      apply app_nonempty in Hn. destruct Hn as [Hn|Hn]; apply map_nonempty in Hn; [left | right]; apply stk_push;
        [apply (p_tab _ _ _ Hl eq_refl Hn) | apply (p_tab _ _ _ Hr eq_refl Hn)].
  Qed.

  Lemma st_and_or a b c Sa Da Sb Sc ma mb mc : invp a Sa ma -> invp b Sb mb -> invp c Sc mc ->
    invp (concatenate_rev (fst a) (fst c),
          minimum se (concatenate_rev (snd a) (snd b)) (concatenate_rev (fst a) (snd c)))
         (cross Sa Sb ++ cross Da Sc) (m_and_or ma mb mc).
  Proof.
    intros Ha Hb Hc. destruct ma as [da sa na], mb as [db sb nb], mc as [dc sc nc]. cbn [m_and_or m_dissat m_signed m_nm] in *.
    set (s := minimum se (concatenate_rev (snd a) (snd b)) (concatenate_rev (fst a) (snd c))).
    assert (Hnm : na && nc && dissat_eqb da DUnique && nb && (sa || sb || sc) = true ->
                  na = true /\ nb = true /\ nc = true /\ clean (fst a) /\ soi s).
    { intros E. repeat (apply Bool.andb_true_iff in E; destruct E as [E ?]). subst na nb nc. destruct da; try discriminate.
      pose proof (p_du _ _ _ Ha eq_refl eq_refl) as Ca. repeat (split; [reflexivity|]). split; [exact Ca|].
      apply soi_min.
      - apply soi_concat; [apply (p_soi _ _ _ Ha eq_refl) | apply (p_soi _ _ _ Hb eq_refl)].
      - apply soi_concat; [apply clean_soi, Ca | apply (p_soi _ _ _ Hc eq_refl)].
      - apply Bool.orb_true_iff in H. destruct H as [H| ->]; [apply Bool.orb_true_iff in H; destruct H as [->| ->]|].
        + left. apply ios_concat_l, (p_sig _ _ _ Ha eq_refl).
        + left. apply ios_concat_r, (p_sig _ _ _ Hb eq_refl).
        + right. apply ios_concat_r, (p_sig _ _ _ Hc eq_refl). }
    constructor; mall_simpl; fold s.
    - apply concat_held; [apply (p_hd _ _ _ Ha) | apply (p_hd _ _ _ Hc)].
    - apply held_min; apply concat_held; first [apply (p_hs _ _ _ Ha) | apply (p_hs _ _ _ Hb) | apply (p_hd _ _ _ Ha) | apply (p_hs _ _ _ Hc)].
    - intros E. apply Bool.andb_true_iff in E. destruct E as [E ->]. apply Bool.orb_true_iff in E. apply ios_min.
      + destruct E as [->| ->]; [apply ios_concat_l, (p_sig _ _ _ Ha eq_refl) | apply ios_concat_r, (p_sig _ _ _ Hb eq_refl)].
      + apply ios_concat_r, (p_sig _ _ _ Hc eq_refl).
    - intros E. assert (dc = DNone) as -> by (destruct sa, db, dc; cbn in E; try discriminate; reflexivity).
      apply ios_concat_r, (p_dn _ _ _ Hc eq_refl).
    - intros E. apply (Hnm E).
    - intros E D. destruct (Hnm E) as [-> [-> [-> [Ca _]]]].
      assert (dc = DUnique) as -> by (destruct sa, db, dc; cbn in D; try discriminate; reflexivity).
      apply clean_concat; [exact Ca | apply (p_du _ _ _ Hc eq_refl eq_refl)].
    - intros E Hn. destruct (Hnm E) as [-> [-> [-> [Ca Hs]]]]. apply min_tab; [exact Hs|].
      apply app_nonempty in Hn. destruct Hn as [Hn|Hn]; apply cross_nonempty in Hn; destruct Hn as [N1 N2]; [left | right].
      + apply c_ok; [apply (p_hs _ _ _ Ha) | apply (p_hs _ _ _ Hb) | apply (p_tab _ _ _ Ha eq_refl N1) | apply (p_tab _ _ _ Hb eq_refl N2)].
      + apply c_ok; [apply (p_hd _ _ _ Ha) | apply (p_hs _ _ _ Hc) | apply clean_stk, Ca | apply (p_tab _ _ _ Hc eq_refl N2)].
  Qed.

  (* ---------- leaves ---------- *)
  Lemma clean_held s : clean s -> held se s.
  Proof. intros [_ [_ [Ha Hr]]]. split; intros t Ht; congruence. Qed.
  Lemma lf_du d s S : clean d -> held se s -> ios s -> soi s -> (S <> [] -> stk s) -> invp (d, s) S (mkMall DUnique true true).
  Proof.
    intros Hd Hh Hi Hs Ht. constructor; cbn [fst snd m_dissat m_signed m_nm]; auto.
    - apply clean_held, Hd.
    - discriminate.
  Qed.
  Lemma lf_dn s S : held se s -> soi s -> (S <> [] -> stk s) -> invp (IMPOSSIBLE, s) S (mkMall DNone false true).
  Proof.
    intros Hh Hs Ht. constructor; cbn [fst snd m_dissat m_signed m_nm]; auto.
    - apply held_const.
    - discriminate.
    - intros _. apply ios_imp.
    - discriminate.
  Qed.
  Lemma lf_hash d s S : held se d -> held se s -> soi s -> (S <> [] -> stk s) -> invp (d, s) S (mkMall DUnknown false true).
  Proof. intros Hd Hh Hs Ht. constructor; cbn [fst snd m_dissat m_signed m_nm]; auto; discriminate. Qed.

  Lemma lf_sig_soi k : soi (mkSat (w_signature se k) true None None).
  Proof. unfold soi, w_signature. cbn [s_stack]. destruct (se_sig se k); discriminate. Qed.
  Lemma lf_sig_stk k : a_sig A k <> None -> is_stack (w_signature se k) = true.
  Proof. intros H. destruct (sig_avail ke A se f L k H) as [sz E]. unfold w_signature. rewrite E. reflexivity. Qed.

  Lemma lf_multi k ks S : (S <> [] -> (N.to_nat k <= count_avail se ks)%nat) -> invp (sd_multi se k ks) S (mkMall DUnique true true).
  Proof.
    intros H. unfold sd_multi. cbv zeta. destruct (Nat.ltb (count_avail se ks) (N.to_nat k)) eqn:Ec.
    - apply lf_du; [repeat split | apply held_const | apply ios_imp | apply soi_imp|]. intros Hn. apply H in Hn. apply Nat.ltb_lt in Ec. lia.
    - apply lf_du; [repeat split | apply held_const | right; reflexivity | discriminate | reflexivity].
  Qed.
  Lemma lf_multi_a k ks S : (S <> [] -> (N.to_nat k <= count_avail se ks)%nat) -> invp (sd_multi_a se k ks) S (mkMall DUnique true true).
  Proof.
    intros H. unfold sd_multi_a. cbv zeta. destruct (Nat.ltb (count_avail se ks) (N.to_nat k)) eqn:Ec.
    - apply lf_du; [repeat split | apply held_const | apply ios_imp | apply soi_imp|]. intros Hn. apply H in Hn. apply Nat.ltb_lt in Ec. lia.
    - apply lf_du; [repeat split | apply held_const | right; reflexivity | discriminate | reflexivity].
  Qed.
  Lemma lf_hash_gen kd h S : se_pre se kd h = true -> invp (sd_hash se kd h) S (mkMall DUnknown false true).
  Proof.
    intros Hpre. unfold sd_hash, w_preimage. rewrite Hpre. apply lf_hash; [apply held_const | apply held_const | discriminate | reflexivity].
  Qed.

  (* ---------- thresh ---------- *)
  Definition sdn := sat_dissat ke se false true.
  Definition dty := t_true.

  Lemma st_thresh k xs ts :
    (1 <= k <= N.of_nat (length xs))%N -> length ts = length xs ->
    (forall i, (i < length xs)%nat -> invp (sdn (nth i xs MTrue)) (all_sat ke A (nth i xs MTrue)) (t_mall (nth i ts dty))) ->
    invp (flatten_rev (map fst (map sdn xs)),
          if N.eqb k (N.of_nat (length xs)) then flatten_rev (map snd (map sdn xs))
          else thresh_nonmall se (N.to_nat k) (map fst (map sdn xs)) (map snd (map sdn xs)))
         (thresh_comb (N.to_nat k) (map (sd ke A) xs)) (m_threshold k (map t_mall ts)).
  Proof.
    intros Hk Hlt HI. set (ds := map sdn xs). set (n := length xs) in *. set (mls := map t_mall ts).
    assert (Hl1 : length (map snd ds) = length (map fst ds)) by (rewrite !map_length; reflexivity).
    assert (Hl2 : length (map fst ds) = n) by (unfold ds; rewrite !map_length; reflexivity).
    assert (Hlm : length mls = n) by (unfold mls; rewrite map_length; exact Hlt).
    assert (Hn1 : forall i, (i < n)%nat -> nth_sat (map fst ds) i = fst (sdn (nth i xs MTrue))).
    { intros i Hi. unfold nth_sat, ds. rewrite map_map. apply (nth_map_d (fun x => fst (sdn x))). exact Hi. }
    assert (Hn2 : forall i, (i < n)%nat -> nth_sat (map snd ds) i = snd (sdn (nth i xs MTrue))).
    { intros i Hi. unfold nth_sat, ds. rewrite map_map. apply (nth_map_d (fun x => snd (sdn x))). exact Hi. }
    assert (Hnm : forall i, (i < n)%nat -> nth i mls m_true = t_mall (nth i ts dty)).
    { intros i Hi. unfold mls. apply nth_map_d. rewrite Hlt. exact Hi. }
    set (sg := fun i => m_signed (nth i mls m_true)).
    assert (Hcs : cnt sg (seq 0 n) = cnt m_signed mls) by (rewrite <- Hlm; apply cnt_nth).
    assert (Hhd : Forall (held se) (map fst ds)).
    { apply (forall_of_nth _ _ IMPOSSIBLE). intros i Hi. rewrite Hl2 in Hi. fold (nth_sat (map fst ds) i). rewrite (Hn1 i Hi). apply (p_hd _ _ _ (HI i Hi)). }
    assert (Hhs : Forall (held se) (map snd ds)).
    { apply (forall_of_nth _ _ IMPOSSIBLE). intros i Hi. rewrite Hl1, Hl2 in Hi. fold (nth_sat (map snd ds) i). rewrite (Hn2 i Hi). apply (p_hs _ _ _ (HI i Hi)). }
    assert (Hsg : forall i, (i < length (map fst ds))%nat -> sg i = true -> ios (nth_sat (map snd ds) i)).
    { intros i Hi Hs. rewrite Hl2 in Hi. rewrite (Hn2 i Hi). apply (p_sig _ _ _ (HI i Hi)). unfold sg in Hs. rewrite (Hnm i Hi) in Hs. exact Hs. }
    assert (Hkn : k <> N.of_nat n -> (N.to_nat k < length (map fst ds))%nat).
    { intros E. rewrite Hl2. lia. }
    rewrite m_threshold_closed. cbv zeta. fold mls. rewrite Hlm.
    (* what non-malleable typing gives *)
    assert (HNM : forallb m_nm mls && N.leb (N.of_nat n - k) (N.of_nat (cnt m_signed mls)) && forallb is_du mls = true ->
                  Forall clean (map fst ds) /\ Forall soi (map snd ds) /\
                  (cnt (fun i => negb (sg i)) (seq 0 (length (map fst ds))) <= N.to_nat k)%nat /\
                  (forall i, (i < n)%nat -> m_nm (t_mall (nth i ts dty)) = true)).
    { intros E. apply Bool.andb_true_iff in E. destruct E as [E Edu]. apply Bool.andb_true_iff in E. destruct E as [Enm Ec].
      rewrite forallb_forall in Edu, Enm. apply N.leb_le in Ec.
      assert (G : forall i, (i < n)%nat -> m_nm (t_mall (nth i ts dty)) = true /\ m_dissat (t_mall (nth i ts dty)) = DUnique).
      { intros i Hi. rewrite <- (Hnm i Hi). assert (Hin : In (nth i mls m_true) mls) by (apply nth_In; lia). split; [apply Enm, Hin|].
        specialize (Edu _ Hin). unfold is_du in Edu. destruct (m_dissat (nth i mls m_true)); try discriminate. reflexivity. }
      split; [|split; [|split]].
      - apply (forall_of_nth _ _ IMPOSSIBLE). intros i Hi. rewrite Hl2 in Hi. fold (nth_sat (map fst ds) i). rewrite (Hn1 i Hi).
        destruct (G i Hi) as [G1 G2]. apply (p_du _ _ _ (HI i Hi) G1 G2).
      - apply (forall_of_nth _ _ IMPOSSIBLE). intros i Hi. rewrite Hl1, Hl2 in Hi. fold (nth_sat (map snd ds) i). rewrite (Hn2 i Hi).
        destruct (G i Hi) as [G1 G2]. apply (p_soi _ _ _ (HI i Hi) G1).
      - rewrite Hl2. pose proof (cnt_negb sg (seq 0 n)) as G3. rewrite seq_length, Hcs in G3. lia.
      - intros i Hi. apply (G i Hi). }
    constructor; cbn [fst snd m_dissat m_signed m_nm].
    - apply fold_held; [exact Hhd | apply held_trivial].
    - destruct (N.eqb k (N.of_nat n)); [apply fold_held; [exact Hhs | apply held_trivial] | apply tn_held; assumption].
    - intros E. apply N.ltb_lt in E. destruct (N.eqb k (N.of_nat n)) eqn:Ek.
      + apply N.eqb_eq in Ek. unfold flatten_rev. apply fold_ios. right.
        assert (G : (1 <= cnt sg (seq 0 n))%nat) by (rewrite Hcs; lia). apply cnt_exists in G. destruct G as [i [Hi Hs]]. apply in_seq in Hi.
        apply Exists_exists. exists (nth_sat (map snd ds) i). split; [unfold nth_sat; apply nth_In; lia | apply Hsg; [lia | exact Hs]].
      + apply (tn_ios se _ _ _ Hl1 (Hkn (proj1 (N.eqb_neq _ _) Ek)) sg Hsg). rewrite Hl2, Hcs. apply N.eqb_neq in Ek. lia.
    - intros E. destruct (forallb is_du mls && _); discriminate.
    - intros E. destruct (HNM E) as [Hc [Hs [Hu _]]]. destruct (N.eqb k (N.of_nat n)) eqn:Ek.
      + unfold flatten_rev. apply fold_soi; [exact Hs | apply clean_soi, clean_trivial].
      + apply (tn_soi se _ _ _ Hl1 (Hkn (proj1 (N.eqb_neq _ _) Ek)) sg Hsg Hc Hs Hu).
    - intros E _. destruct (HNM E) as [Hc _]. unfold flatten_rev. apply fold_clean; [exact Hc | apply clean_trivial].
    - intros E Hne. destruct (HNM E) as [Hc [Hs [Hu Hnmi]]].
      apply comb_mask in Hne. destruct Hne as [M [HLM [HCM HM]]]. rewrite map_length in HLM, HM. fold n in HLM, HM.
      assert (HMstk : forall i, (i < n)%nat -> nth i M false = true -> stk (nth_sat (map snd ds) i)).
      { intros i Hi Hm. specialize (HM i Hi). rewrite Hm in HM. rewrite (nth_map_d (sd ke A) xs i MTrue) in HM by exact Hi.
        rewrite (Hn2 i Hi). apply (p_tab _ _ _ (HI i Hi) (Hnmi i Hi) HM). }
      destruct (N.eqb k (N.of_nat n)) eqn:Ek.
      + apply N.eqb_eq in Ek. unfold flatten_rev. apply (fold_ok se Habs_unit Hrel_unit); [|apply held_trivial | reflexivity].
        assert (Hall : forall i, (i < n)%nat -> nth i M false = true).
        { assert (HcM : ctrue M = length M) by lia. rewrite <- HLM. clear -HcM. revert HcM. induction M as [|b r IH]; intros Hc i Hi; [cbn in Hi; lia|].
          cbn [ctrue length] in Hc. pose proof (ctrue_le r). destruct b; [|lia]. destruct i; [reflexivity|]. cbn [nth]. apply IH; [lia | cbn [length] in Hi; lia]. }
        apply (forall_of_nth _ _ IMPOSSIBLE). intros i Hi. rewrite Hl1, Hl2 in Hi. split; [apply forall_nth; [exact Hhs | lia]|].
        apply (HMstk i Hi (Hall i Hi)).
      + apply (tn_stk se Habs_unit Hrel_unit _ _ _ Hl1 (Hkn (proj1 (N.eqb_neq _ _) Ek)) sg Hsg Hc Hs Hu M); try assumption; try lia.
        rewrite Hl2. exact HMstk.
  Qed.

  (* ---------- the theorem ---------- *)
  Definition inv (m : ms) (t : ty) : Prop := invp (sdn m) (all_sat ke A m) (t_mall t).

  (* threshold bounds (Threshold invariant 1 <= k <= n), no raw_pk_h, and the satisfier knows the
     preimage of every hash that appears in the script *)
  Fixpoint nm_wf (m : ms) : Prop :=
    match m with
    | MRawPkH _ => False
    | MSha256 h => se_pre se HSha256 h = true
    | MHash256 h => se_pre se HHash256 h = true
    | MRipemd160 h => se_pre se HRipemd160 h = true
    | MHash160 h => se_pre se HHash160 h = true
    | MAlt x | MSwap x | MCheck x | MDupIf x | MVerify x | MNonZero x | MZeroNotEqual x => nm_wf x
    | MAndV x y | MAndB x y | MOrB x y | MOrD x y | MOrC x y | MOrI x y => nm_wf x /\ nm_wf y
    | MAndOr a b c => nm_wf a /\ nm_wf b /\ nm_wf c
    | MThresh k xs => (1 <= k <= N.of_nat (length xs))%N /\
        (fix go (l : list ms) : Prop := match l with [] => True | x :: r => nm_wf x /\ go r end) xs
    | _ => True
    end.

  Theorem nonmall_inv : forall m, nm_wf m -> forall t, type_of m = ROk t -> inv m t.
  Proof.
    induction m using ms_ind'; intros Hwf t0 Ht; cbn [nm_wf type_of] in *; unfold inv, sdn; cbn [sat_dissat]; cbv zeta.
    - (* 1 *) inversion Ht; subst. apply lf_dn; [apply held_const | discriminate | reflexivity].
    - (* 0 *) inversion Ht; subst. apply lf_du; [apply clean_trivial | apply held_const | apply ios_imp | apply soi_imp|].
      intros H. exfalso. apply H. reflexivity.
    - (* pk_k *) inversion Ht; subst. unfold sd_pk_k. apply lf_du; [apply clean_push0 | apply held_const | right; reflexivity | apply lf_sig_soi|].
      intros H. unfold all_sat in H. cbn [sd fst] in H. unfold stk. cbn [s_stack]. apply lf_sig_stk. intros E. rewrite E in H. apply H. reflexivity.
    - (* pk_h *) inversion Ht; subst. unfold sd_pk_h. apply lf_du; [repeat split | apply held_const | right; reflexivity | |].
      + unfold soi, w_signature. cbn [s_stack]. destruct (se_sig se k); discriminate.
      + intros H. unfold all_sat in H. cbn [sd fst] in H. unfold stk. cbn [s_stack].
        assert (G : is_stack (w_signature se k) = true) by (apply lf_sig_stk; intros E; rewrite E in H; apply H; reflexivity).
        destruct (w_signature se k); try discriminate. reflexivity.
    - (* raw *) contradiction.
    - (* after *) inversion Ht; subst. unfold sd_time. cbn [fst snd].
      apply lf_dn.
      + split; cbn [s_abs s_rel]; intros t0 Ht0; [|discriminate]. destruct (se_after se t) eqn:E; [|discriminate]. inversion Ht0; subst. exact E.
      + unfold soi. cbn [s_stack]. destruct (se_after se t); discriminate.
      + intros H. unfold all_sat in H. cbn [sd fst] in H. rewrite <- (lk_after _ _ _ _ L) in H. unfold stk. cbn [s_stack].
        destruct (se_after se t); [reflexivity | exfalso; apply H; reflexivity].
    - (* older *) inversion Ht; subst. unfold sd_time. cbn [fst snd].
      apply lf_dn.
      + split; cbn [s_abs s_rel]; intros t0 Ht0; [discriminate|]. destruct (se_older se t) eqn:E; [|discriminate]. inversion Ht0; subst. exact E.
      + unfold soi. cbn [s_stack]. destruct (se_older se t); discriminate.
      + intros H. unfold all_sat in H. cbn [sd fst] in H. rewrite <- (lk_older _ _ _ _ L) in H. unfold stk. cbn [s_stack].
        destruct (se_older se t); [reflexivity | exfalso; apply H; reflexivity].
    - inversion Ht; subst. apply lf_hash_gen, Hwf.
    - inversion Ht; subst. apply lf_hash_gen, Hwf.
    - inversion Ht; subst. apply lf_hash_gen, Hwf.
    - inversion Ht; subst. apply lf_hash_gen, Hwf.
    - (* a *) apply type1 in Ht. destruct Ht as [tx [Hx Hc]]. apply lift1_mall in Hc. rewrite Hc. exact (IHm Hwf tx Hx).
    - (* s *) apply type1 in Ht. destruct Ht as [tx [Hx Hc]]. apply lift1_mall in Hc. rewrite Hc. exact (IHm Hwf tx Hx).
    - (* c *) apply type1 in Ht. destruct Ht as [tx [Hx Hc]]. apply lift1_mall in Hc. rewrite Hc. exact (IHm Hwf tx Hx).
    - (* d *) apply type1 in Ht. destruct Ht as [tx [Hx Hc]]. apply lift1_mall in Hc. rewrite Hc. pose proof (IHm Hwf tx Hx) as G.
      unfold inv, sdn in G. destruct (sat_dissat ke se false true m) as [d0 sub].
      exact (st_dupif (d0, sub) _ _ G).
    - (* v *) apply type1 in Ht. destruct Ht as [tx [Hx Hc]]. apply lift1_mall in Hc. rewrite Hc. pose proof (IHm Hwf tx Hx) as G.
      unfold inv, sdn in G. destruct (sat_dissat ke se false true m) as [d0 sub].
      exact (st_verify (d0, sub) _ _ G).
    - (* j *) apply type1 in Ht. destruct Ht as [tx [Hx Hc]]. apply lift1_mall in Hc. rewrite Hc. pose proof (IHm Hwf tx Hx) as G.
      unfold inv, sdn in G. destruct (sat_dissat ke se false true m) as [d0 sub].
      exact (st_nonzero (d0, sub) _ _ G).
    - (* n *) apply type1 in Ht. destruct Ht as [tx [Hx Hc]]. apply lift1_mall in Hc. rewrite Hc. exact (IHm Hwf tx Hx).
    - (* and_v *) apply type2 in Ht. destruct Ht as [tx [ty [Hx [Hy Hc]]]]. apply lift2_mall in Hc. rewrite Hc. destruct Hwf as [W1 W2].
      pose proof (IHm1 W1 tx Hx) as G1. pose proof (IHm2 W2 ty Hy) as G2. unfold inv, sdn in G1, G2.
      rewrite sat_and_v. destruct (sat_dissat ke se false true m1) as [ld ls], (sat_dissat ke se false true m2) as [rd rs].
      exact (st_and_v (ld, ls) (rd, rs) _ _ _ _ G1 G2).
    - (* and_b *) apply type2 in Ht. destruct Ht as [tx [ty [Hx [Hy Hc]]]]. apply lift2_mall in Hc. rewrite Hc. destruct Hwf as [W1 W2].
      pose proof (IHm1 W1 tx Hx) as G1. pose proof (IHm2 W2 ty Hy) as G2. unfold inv, sdn in G1, G2.
      unfold all_sat at 1. rewrite sd_and_b. cbn [fst]. destruct (sat_dissat ke se false true m1) as [ld ls], (sat_dissat ke se false true m2) as [rd rs].
      exact (st_and_b (ld, ls) (rd, rs) _ _ _ _ G1 G2).
    - (* andor *) apply rbind_ok in Ht. destruct Ht as [ta [Ha Ht]]. apply rbind_ok in Ht. destruct Ht as [tb [Hb Ht]]. apply rbind_ok in Ht. destruct Ht as [tc [Hc Ht]].
      apply and_or_mall in Ht. rewrite Ht. destruct Hwf as [W1 [W2 W3]].
      pose proof (IHm1 W1 ta Ha) as G1. pose proof (IHm2 W2 tb Hb) as G2. pose proof (IHm3 W3 tc Hc) as G3. unfold inv, sdn in G1, G2, G3.
      unfold all_sat at 1. rewrite sd_andor. cbn [fst].
      destruct (sat_dissat ke se false true m1) as [ad asat], (sat_dissat ke se false true m2) as [bd bs], (sat_dissat ke se false true m3) as [cd cs].
      exact (st_and_or (ad, asat) (bd, bs) (cd, cs) _ _ _ _ _ _ _ G1 G2 G3).
    - (* or_b *) apply type2 in Ht. destruct Ht as [tx [ty [Hx [Hy Hc]]]]. apply lift2_mall in Hc. rewrite Hc. destruct Hwf as [W1 W2].
      pose proof (IHm1 W1 tx Hx) as G1. pose proof (IHm2 W2 ty Hy) as G2. unfold inv, sdn in G1, G2.
      unfold all_sat at 1. rewrite sd_or_b. cbn [fst]. destruct (sat_dissat ke se false true m1) as [ld ls], (sat_dissat ke se false true m2) as [rd rs].
      exact (st_or_b (ld, ls) (rd, rs) _ _ _ _ _ _ G1 G2).
    - (* or_d *) apply type2 in Ht. destruct Ht as [tx [ty [Hx [Hy Hc]]]]. apply lift2_mall in Hc. rewrite Hc. destruct Hwf as [W1 W2].
      pose proof (IHm1 W1 tx Hx) as G1. pose proof (IHm2 W2 ty Hy) as G2. unfold inv, sdn in G1, G2.
      unfold all_sat at 1. rewrite sd_or_d. cbn [fst]. destruct (sat_dissat ke se false true m1) as [ld ls], (sat_dissat ke se false true m2) as [rd rs].
      exact (st_or_d (ld, ls) (rd, rs) _ _ _ _ _ G1 G2).
    - (* or_c *) apply type2 in Ht. destruct Ht as [tx [ty [Hx [Hy Hc]]]]. apply lift2_mall in Hc. rewrite Hc. destruct Hwf as [W1 W2].
      pose proof (IHm1 W1 tx Hx) as G1. pose proof (IHm2 W2 ty Hy) as G2. unfold inv, sdn in G1, G2.
      rewrite sat_or_c. destruct (sat_dissat ke se false true m1) as [ld ls], (sat_dissat ke se false true m2) as [rd rs].
      exact (st_or_c (ld, ls) (rd, rs) _ _ _ _ _ G1 G2).
    - (* or_i *) apply type2 in Ht. destruct Ht as [tx [ty [Hx [Hy Hc]]]]. apply lift2_mall in Hc. rewrite Hc. destruct Hwf as [W1 W2].
      pose proof (IHm1 W1 tx Hx) as G1. pose proof (IHm2 W2 ty Hy) as G2. unfold inv, sdn in G1, G2.
      unfold all_sat at 1. rewrite sd_or_i. cbn [fst]. destruct (sat_dissat ke se false true m1) as [ld ls], (sat_dissat ke se false true m2) as [rd rs].
      exact (st_or_i (ld, ls) (rd, rs) _ _ _ _ G1 G2).
    - (* thresh *) destruct Hwf as [Hk Hwf]. apply rbind_ok in Ht. destruct Ht as [ts [Hts Ht]].
      apply (tys_of_ok xs ts) in Hts. apply threshold_mall in Ht. rewrite Ht.
      rewrite ds_thresh. unfold all_sat. rewrite sd_thresh'. cbn [fst snd].
      destruct (Forall2_ix _ _ _ MTrue dty Hts) as [Hlen Hty].
      apply (st_thresh k xs ts Hk (eq_sym Hlen)).
      intros i Hi. assert (Hin : In (nth i xs MTrue) xs) by (apply nth_In, Hi).
      rewrite Forall_forall in H. apply (H _ Hin); [|apply Hty, Hi].
      revert Hin. generalize (nth i xs MTrue). clear -Hwf. intros y Hin.
      induction xs as [|x r IH]; [contradiction|]. destruct Hwf as [W1 W2]. destruct Hin as [<-|Hin]; [exact W1 | apply IH; assumption].
    - (* multi *) inversion Ht; subst. apply lf_multi. unfold all_sat. cbn [sd fst]. intros H. apply map_nonempty in H.
      apply (pick_sigs_count ke A se f L Habs_unit Hrel_unit) in H. exact H.
    - inversion Ht; subst. apply lf_multi. unfold all_sat. cbn [sd fst]. intros H. apply map_nonempty in H.
      apply (pick_sigs_count ke A se f L Habs_unit Hrel_unit) in H. exact H.
    - inversion Ht; subst. apply lf_multi_a. unfold all_sat. cbn [sd fst]. intros H.
      apply (pick_sigs_a_count ke A se f L Habs_unit Hrel_unit) in H. exact H.
    - inversion Ht; subst. apply lf_multi_a. unfold all_sat. cbn [sd fst]. intros H.
      apply (pick_sigs_a_count ke A se f L Habs_unit Hrel_unit) in H. exact H.
  Qed.
End NonMall.

(* ---------- every template the model builds can be completed from the linked data ---------- *)
Section Fillable.
  Variable ke : keyenv.
  Variable A : assets.
  Variable se : senv.
  Variable f : fill.
  Hypothesis L : linked ke A se f.

  Definition fok (s : satn) : Prop := forall l, s_stack s = WStack l -> exists bs, fill_all f l = Some bs.

  Lemma fill_app l1 l2 : forall b1 b2, fill_all f l1 = Some b1 -> fill_all f l2 = Some b2 -> fill_all f (l1 ++ l2) = Some (b1 ++ b2).
  Proof.
    induction l1 as [|p r IH]; intros b1 b2 H1 H2; cbn [fill_all app] in *.
    - inversion H1; subst. exact H2.
    - destruct (fill_ph f p) as [b|]; [|discriminate]. destruct (fill_all f r) as [bs|] eqn:E; [|discriminate].
      inversion H1; subst. rewrite (IH bs b2 eq_refl H2). reflexivity.
  Qed.
  Lemma fok_nostack s : (forall l, s_stack s <> WStack l) -> fok s.
  Proof. intros H l Hl. exfalso. exact (H l Hl). Qed.
  Lemma fok_imp : fok IMPOSSIBLE. Proof. apply fok_nostack. discriminate. Qed.
  Lemma fok_unavail : fok UNAVAILABLE. Proof. apply fok_nostack. discriminate. Qed.
  Lemma fok_const l b a r : (exists bs, fill_all f l = Some bs) -> fok (mkSat (WStack l) b a r).
  Proof. intros H l' Hl. cbn in Hl. inversion Hl; subst. exact H. Qed.
  Lemma fok_concat a b : fok a -> fok b -> fok (concatenate_rev a b).
  Proof.
    intros Ha Hb l Hl. apply concat_stack in Hl. destruct Hl as [la [lb [Ea [Eb ->]]]].
    destruct (Ha la Ea) as [ba Fa]. destruct (Hb lb Eb) as [bb Fb]. exists (bb ++ ba). apply fill_app; assumption.
  Qed.
  Lemma fok_min (mall : bool) a b : fok a -> fok b -> fok ((if mall then minimum_mall se else minimum se) a b).
  Proof. intros Ha Hb l Hl. apply (min_fn_stack se mall) in Hl. destruct Hl; eauto. Qed.
  Lemma fok_push s p : (exists v, fill_ph f p = Some v) -> fok s -> fok (pushed s p).
  Proof.
    intros [v Hv] Hs l Hl. unfold pushed in Hl. cbn [with_stack s_stack] in Hl. destruct (s_stack s) as [ls| |] eqn:E; cbn in Hl; try discriminate.
    inversion Hl; subst. destruct (Hs ls E) as [bs Hb]. exists (bs ++ [v]). apply fill_app; [exact Hb|]. cbn. rewrite Hv. reflexivity.
  Qed.
  Lemma fok_fold l : Forall fok l -> forall acc, fok acc -> fok (fold_left concatenate_rev l acc).
  Proof. induction 1 as [|x r Hx Hr IH]; intros acc Ha; cbn [fold_left]; [exact Ha|]. apply IH, fok_concat; assumption. Qed.
  Lemma fok_trivial : fok TRIVIAL. Proof. apply fok_const. exists []. reflexivity. Qed.
  Lemma fok_flatten l : Forall fok l -> fok (flatten_rev l).
  Proof. intros H. apply fok_fold; [exact H | apply fok_trivial]. Qed.

  Lemma fok_sig k tl : (exists bs, fill_all f tl = Some bs) -> fok (mkSat (wcombine (w_signature se k) (WStack tl)) true None None).
  Proof.
    intros [bs Hb] l Hl. unfold w_signature in Hl. cbn [s_stack] in Hl. destruct (se_sig se k) as [sz|] eqn:E; cbn in Hl; [|discriminate].
    inversion Hl; subst. destruct (sig_some ke A se f L k sz E) as [sg [_ E2]]. exists (sg :: bs). cbn [app fill_all fill_ph]. rewrite E2, Hb. reflexivity.
  Qed.
  Lemma take_avail_fill ks : forall k, exists bs, fill_all f (take_avail se k ks) = Some bs.
  Proof.
    induction ks as [|key r IH]; intros k; cbn [take_avail]; [exists []; reflexivity|].
    destruct (se_sig se key) as [sz|] eqn:E; [|apply IH]. destruct k as [|k']; [apply IH|].
    destruct (sig_some ke A se f L key sz E) as [sg [_ E2]]. destruct (IH k') as [bs Hb]. exists (sg :: bs). cbn [fill_all fill_ph]. rewrite E2, Hb. reflexivity.
  Qed.
  Lemma multi_a_fill_fill ks : forall k, exists bs, fill_all f (multi_a_fill se k ks) = Some bs.
  Proof.
    induction ks as [|key r IH]; intros k; cbn [multi_a_fill]; [exists []; reflexivity|].
    destruct (se_sig se key) as [sz|] eqn:E.
    - destruct k as [|k'].
      + destruct (IH 0%nat) as [bs Hb]. exists ([] :: bs). cbn [fill_all fill_ph]. rewrite Hb. reflexivity.
      + destruct (sig_some ke A se f L key sz E) as [sg [_ E2]]. destruct (IH k') as [bs Hb]. exists (sg :: bs). cbn [fill_all fill_ph]. rewrite E2, Hb. reflexivity.
    - destruct (IH k) as [bs Hb]. exists ([] :: bs). cbn [fill_all fill_ph]. rewrite Hb. reflexivity.
  Qed.
  Lemma fok_multi k ks : fok (fst (sd_multi se k ks)) /\ fok (snd (sd_multi se k ks)).
  Proof.
    unfold sd_multi. cbv zeta. destruct (Nat.ltb _ _); cbn [fst snd]; (split; [apply fok_const; eexists; apply fill_repeat_zero|]); [apply fok_imp|].
    apply fok_const. destruct (take_avail_fill ks (N.to_nat k)) as [bs Hb]. exists ([] :: bs). cbn [fill_all fill_ph]. rewrite Hb. reflexivity.
  Qed.
  Lemma fok_multi_a k ks : fok (fst (sd_multi_a se k ks)) /\ fok (snd (sd_multi_a se k ks)).
  Proof.
    unfold sd_multi_a. cbv zeta. destruct (Nat.ltb _ _); cbn [fst snd]; (split; [apply fok_const; eexists; apply fill_repeat_zero|]); [apply fok_imp|].
    apply fok_const. apply multi_a_fill_fill.
  Qed.
  Lemma fok_hash kd h : fok (fst (sd_hash se kd h)) /\ fok (snd (sd_hash se kd h)).
  Proof.
    unfold sd_hash, w_preimage. cbn [fst snd]. split; [apply fok_const; eexists; reflexivity|].
    destruct (se_pre se kd h) eqn:E; [|apply fok_nostack; discriminate]. apply fok_const.
    apply (lk_pre_avail _ _ _ _ L) in E. cbn [fill_all fill_ph]. rewrite (lk_pre _ _ _ _ L). destruct (look A kd h); [eexists; reflexivity | contradiction].
  Qed.
  Lemma fok_time (ok rhs : bool) t (isabs : bool) : fok (fst (sd_time ok rhs t isabs)) /\ fok (snd (sd_time ok rhs t isabs)).
  Proof.
    unfold sd_time. cbn [fst snd]. split; [apply fok_imp|].
    destruct isabs, ok; try (apply fok_const; exists []; reflexivity); destruct rhs; apply fok_nostack; discriminate.
  Qed.

  Theorem model_fillable (mall rhs : bool) : forall m,
    fok (fst (sat_dissat ke se mall rhs m)) /\ fok (snd (sat_dissat ke se mall rhs m)).
  Proof.
    assert (P1 : exists v, fill_ph f PhPushOne = Some v) by (eexists; reflexivity).
    assert (P0 : exists v, fill_ph f PhPushZero = Some v) by (eexists; reflexivity).
    assert (Z : fok push_0) by (apply fok_const; eexists; reflexivity).
    induction m using ms_ind'; cbn [sat_dissat]; cbv zeta.
    - split; [apply fok_imp | apply fok_trivial].
    - split; [apply fok_trivial | apply fok_imp].
    - unfold sd_pk_k. cbn [fst snd]. split; [exact Z|]. intros l Hl. cbn [s_stack] in Hl. unfold w_signature in Hl.
      destruct (se_sig se k) as [sz|] eqn:E; [|discriminate]. inversion Hl; subst.
      destruct (sig_some ke A se f L k sz E) as [sg [_ E2]]. exists [sg]. cbn. rewrite E2. reflexivity.
    - unfold sd_pk_h. cbn [fst snd]. split; [apply fok_const; eexists; reflexivity|]. apply fok_sig. eexists. reflexivity.
    - split; apply fok_imp.
    - apply fok_time.
    - apply fok_time.
    - apply fok_hash. - apply fok_hash. - apply fok_hash. - apply fok_hash.
    - exact IHm. - exact IHm. - exact IHm.
    - destruct (sat_dissat ke se mall rhs m) as [d0 sub]. destruct IHm as [_ Hs]. split; [exact Z | apply (fok_push sub PhPushOne P1 Hs)].
    - destruct (sat_dissat ke se mall rhs m) as [d0 sub]. destruct IHm as [_ Hs]. split; [apply fok_imp | exact Hs].
    - destruct (sat_dissat ke se mall rhs m) as [d0 sub]. destruct IHm as [_ Hs]. split; [exact Z | exact Hs].
    - exact IHm.
    - destruct (sat_dissat ke se mall rhs m1) as [ld ls], (sat_dissat ke se mall rhs m2) as [rd rs]. destruct IHm1 as [H1 H2], IHm2 as [H3 H4]. cbn [fst snd] in *.
      split; apply fok_concat; assumption.
    - destruct (sat_dissat ke se mall rhs m1) as [ld ls], (sat_dissat ke se mall rhs m2) as [rd rs]. destruct IHm1 as [H1 H2], IHm2 as [H3 H4]. cbn [fst snd] in *.
      split; apply fok_concat; assumption.
    - destruct (sat_dissat ke se mall rhs m1) as [ad asat], (sat_dissat ke se mall rhs m2) as [bd bs], (sat_dissat ke se mall rhs m3) as [cd cs].
      destruct IHm1 as [H1 H2], IHm2 as [H3 H4], IHm3 as [H5 H6]. cbn [fst snd] in *.
      split; [apply fok_concat; assumption | apply fok_min; apply fok_concat; assumption].
    - destruct (sat_dissat ke se mall rhs m1) as [ld ls], (sat_dissat ke se mall rhs m2) as [rd rs]. destruct IHm1 as [H1 H2], IHm2 as [H3 H4]. cbn [fst snd] in *.
      split; [apply fok_concat; assumption | apply fok_min; apply fok_concat; assumption].
    - destruct (sat_dissat ke se mall rhs m1) as [ld ls], (sat_dissat ke se mall rhs m2) as [rd rs]. destruct IHm1 as [H1 H2], IHm2 as [H3 H4]. cbn [fst snd] in *.
      split; [apply fok_concat; assumption | apply fok_min; [assumption | apply fok_concat; assumption]].
    - destruct (sat_dissat ke se mall rhs m1) as [ld ls], (sat_dissat ke se mall rhs m2) as [rd rs]. destruct IHm1 as [H1 H2], IHm2 as [H3 H4]. cbn [fst snd] in *.
      split; [apply fok_imp | apply fok_min; [assumption | apply fok_concat; assumption]].
    - destruct (sat_dissat ke se mall rhs m1) as [ld ls], (sat_dissat ke se mall rhs m2) as [rd rs]. destruct IHm1 as [H1 H2], IHm2 as [H3 H4]. cbn [fst snd] in *.
      split; apply fok_min; first [apply (fok_push _ PhPushOne P1) | apply (fok_push _ PhPushZero P0)]; assumption.
    - rewrite ds_thresh. set (ds := map (sat_dissat ke se mall rhs) xs). cbn [fst snd].
      assert (Hd : Forall fok (map fst ds) /\ Forall fok (map snd ds)).
      { unfold ds. clear -H. induction H as [|x r [Hx1 Hx2] Hr [IH1 IH2]]; cbn [map]; split; constructor; assumption. }
      destruct Hd as [Hd Hs].
      assert (Hsw : forall c, Forall fok (swap_in c (map fst ds) (map snd ds))).
      { intros c. apply swap_in_forall; intros i Hi _; unfold nth_sat.
        - destruct (nth_in_or_default i (map snd ds) IMPOSSIBLE) as [G|G]; [rewrite Forall_forall in Hs; apply Hs, G | rewrite G; apply fok_imp].
        - apply forall_nth; assumption. }
      split; [apply fok_flatten, Hd|].
      destruct (N.eqb k (N.of_nat (length xs))); [apply fok_flatten, Hs|]. destruct mall.
      + unfold thresh_mall. cbv zeta. apply fok_flatten, Hsw.
      + unfold thresh_nonmall. cbv zeta. destruct (is_imp _); [apply fok_imp|]. destruct (negb _ && negb _); [apply fok_unavail|]. apply fok_flatten, Hsw.
    - apply fok_multi. - apply fok_multi. - apply fok_multi_a. - apply fok_multi_a.
  Qed.

  Corollary satisfy_of_stack (mall rhs : bool) m :
    is_stack (s_stack (snd (sat_dissat ke se mall rhs m))) = true -> exists bs, satisfy ke se f mall rhs m = Some bs.
  Proof.
    intros H. unfold satisfy. destruct (s_stack (snd (sat_dissat ke se mall rhs m))) as [l| |] eqn:E; try discriminate.
    destruct (model_fillable mall rhs m) as [_ G]. exact (G l E).
  Qed.
End Fillable.

(* ---------- statements ---------- *)
Definition locks_compatible (se : senv) : Prop :=
  (forall t1 t2, se_after se t1 = true -> se_after se t2 = true -> Bool.eqb (N.ltb t1 500000000) (N.ltb t2 500000000) = true) /\
  (forall t1 t2, se_older se t1 = true -> se_older se t2 = true -> Bool.eqb (rel_is_time t1) (rel_is_time t2) = true).

(* malleable mode, every fragment nesting (k-of-n thresholds included) *)
Theorem mall_satisfy_complete (ke : keyenv) (A : assets) (se : senv) (f : fill) :
  linked ke A se f -> locks_compatible se ->
  forall (rhs : bool) (m : ms), thresh_fit ke se rhs m ->
    all_sat ke A m <> [] -> exists bs, satisfy ke se f true rhs m = Some bs.
Proof.
  intros HL [Ha Hr] rhs m Hfit Hne. apply (satisfy_of_stack ke A se f HL).
  destruct (mall_complete_thresh ke A se f HL Ha Hr rhs m Hfit) as [_ [_ [_ Hs]]]. exact (Hs Hne).
Qed.

(* non-malleable mode: sane scripts (typed, non-malleable; the root is safe, hence root_has_sig = true),
   every hash preimage of the script known (inside nm_wf) *)
Theorem nonmall_complete (ke : keyenv) (A : assets) (se : senv) (f : fill) :
  linked ke A se f -> locks_compatible se ->
  forall (m : ms) (t : ty), nm_wf se m -> type_of m = ROk t -> m_nm (t_mall t) = true ->
    let s := snd (sat_dissat ke se false true m) in
    s_stack s <> WUnavailable /\
    (m_signed (t_mall t) = true -> is_imp (s_stack s) = true \/ s_has_sig s = true) /\
    (all_sat ke A m <> [] -> is_stack (s_stack s) = true).
Proof.
  intros HL [Ha Hr] m t Hwf Ht Hnm s. pose proof (nonmall_inv ke A se f HL Ha Hr m Hwf t Ht) as G.
  split; [exact (p_soi _ _ _ _ G Hnm)|]. split; [exact (p_sig _ _ _ _ G) | exact (p_tab _ _ _ _ G Hnm)].
Qed.

Theorem nonmall_dissat (ke : keyenv) (A : assets) (se : senv) (f : fill) :
  linked ke A se f -> locks_compatible se ->
  forall (m : ms) (t : ty), nm_wf se m -> type_of m = ROk t ->
    let d := fst (sat_dissat ke se false true m) in
    (m_dissat (t_mall t) = DNone -> is_imp (s_stack d) = true \/ s_has_sig d = true) /\
    (m_nm (t_mall t) = true -> m_dissat (t_mall t) = DUnique ->
       is_stack (s_stack d) = true /\ s_has_sig d = false /\ s_abs d = None /\ s_rel d = None).
Proof.
  intros HL [Ha Hr] m t Hwf Ht d. pose proof (nonmall_inv ke A se f HL Ha Hr m Hwf t Ht) as G.
  split; [exact (p_dn _ _ _ _ G) | exact (p_du _ _ _ _ G)].
Qed.

Theorem nonmall_satisfy_complete (ke : keyenv) (A : assets) (se : senv) (f : fill) :
  linked ke A se f -> locks_compatible se ->
  forall (m : ms) (t : ty), nm_wf se m -> type_of m = ROk t ->
    m_nm (t_mall t) = true -> m_signed (t_mall t) = true ->
    all_sat ke A m <> [] -> exists bs, satisfy ke se f false (m_signed (t_mall t)) m = Some bs.
Proof.
  intros HL HC m t Hwf Ht Hnm Hs Hne. rewrite Hs. apply (satisfy_of_stack ke A se f HL).
  destruct (nonmall_complete ke A se f HL HC m t Hwf Ht Hnm) as [_ [_ G]]. exact (G Hne).
Qed.

(* ---------- non-vacuity and tightness of the hypotheses (concrete instances) ---------- *)
(* keys 0,1,2; the caller holds signatures for every key except key 1 *)
Local Open Scope N_scope.
Definition c02x_ke : keyenv := mkKeyEnv (fun k => [k]) (fun k => [k]) (fun ks => ks).
Definition c02x_has (k : key) : bool := negb (N.eqb k 1).
Definition c02x_A (pre : bool) : assets :=
  mkAssets (fun k => if c02x_has k then Some [k; 7%N] else None)
           (fun _ => if pre then Some [9%N] else None) (fun _ => if pre then Some [9%N] else None)
           (fun _ => if pre then Some [9%N] else None) (fun _ => if pre then Some [9%N] else None)
           (fun _ => false) (fun _ => false).
Definition c02x_se (pre : bool) : senv :=
  mkSenv false (fun _ => 34%N) (fun k => if c02x_has k then Some 72%N else None) (fun _ _ => pre) (fun _ => false) (fun _ => false).
Definition c02x_f (pre : bool) : fill :=
  mkFill (kb c02x_ke) (a_sig (c02x_A pre)) (fun _ _ => if pre then Some [9%N] else None).

Lemma c02x_linked pre : linked c02x_ke (c02x_A pre) (c02x_se pre) (c02x_f pre).
Proof.
  constructor; cbn; try reflexivity.
  - intros k. destruct (c02x_has k); split; congruence.
  - intros kd h. destruct kd, pre; reflexivity.
  - intros kd h. destruct kd, pre; cbn; split; congruence.
Qed.
Lemma c02x_locks pre : locks_compatible (c02x_se pre).
Proof. split; intros t1 t2 H; cbn in H; discriminate. Qed.

(* thresh(2, pk(0), s:pk(1), s:pk(2)) *)
Definition c02x_thresh : ms := MThresh 2 [MCheck (MPkK 0); MSwap (MCheck (MPkK 1)); MSwap (MCheck (MPkK 2))].

Lemma c02x_thresh_typed : exists t, type_of c02x_thresh = ROk t /\ m_nm (t_mall t) = true /\ m_signed (t_mall t) = true.
Proof. eexists. split; [vm_compute; reflexivity | split; reflexivity]. Qed.
Lemma c02x_thresh_table : all_sat c02x_ke (c02x_A true) c02x_thresh = [[[0; 7]; []; [2; 7]]]%N.
Proof. vm_compute. reflexivity. Qed.
Lemma c02x_thresh_mall : s_stack (snd (sat_dissat c02x_ke (c02x_se true) true true c02x_thresh)) = WStack [PhSig 2; PhPushZero; PhSig 0].
Proof. vm_compute. reflexivity. Qed.
Lemma c02x_thresh_nonmall : s_stack (snd (sat_dissat c02x_ke (c02x_se true) false true c02x_thresh)) = WStack [PhSig 2; PhPushZero; PhSig 0].
Proof. vm_compute. reflexivity. Qed.
Lemma c02x_thresh_fit : thresh_fit c02x_ke (c02x_se true) true c02x_thresh.
Proof.
  apply fit_of_bound.
  - intros k. cbn. lia.
  - intros k sz H. cbn in H. destruct (c02x_has k); inversion H. lia.
  - vm_compute. reflexivity.
Qed.
Lemma c02x_thresh_wf : nm_wf (c02x_se true) c02x_thresh.
Proof. cbn. repeat split; lia. Qed.
(* the two completeness theorems apply to it, and their conclusion is the computed witness *)
Lemma c02x_thresh_satisfy_mall : satisfy c02x_ke (c02x_se true) (c02x_f true) true true c02x_thresh = Some [[2; 7]; []; [0; 7]]%N.
Proof. vm_compute. reflexivity. Qed.
Lemma c02x_thresh_satisfy_nonmall : satisfy c02x_ke (c02x_se true) (c02x_f true) false true c02x_thresh = Some [[2; 7]; []; [0; 7]]%N.
Proof. vm_compute. reflexivity. Qed.

(* The preimage hypothesis of the non-malleable theorem is necessary:
   and_v(v:pk(2), or_i(pk(0), sha256(H))) is sane (typed, "m", "s"); with both signatures but without
   the preimage the table has the entry [sig0 1 sig2] while the non-malleable model answers
   Unavailable (the malleable one returns the stack). *)
Definition c02x_orhash : ms := MAndV (MVerify (MCheck (MPkK 2))) (MOrI (MCheck (MPkK 0)) (MSha256 [])).
Theorem nonmall_needs_preimages :
  exists ke A se f m t, linked ke A se f /\ locks_compatible se /\ type_of m = ROk t /\
    m_nm (t_mall t) = true /\ m_signed (t_mall t) = true /\ all_sat ke A m <> [] /\
    s_stack (snd (sat_dissat ke se false true m)) = WUnavailable /\
    is_stack (s_stack (snd (sat_dissat ke se true true m))) = true.
Proof.
  exists c02x_ke, (c02x_A false), (c02x_se false), (c02x_f false), c02x_orhash. eexists.
  split; [apply c02x_linked|]. split; [apply c02x_locks|]. split; [vm_compute; reflexivity|].
  split; [reflexivity|]. split; [reflexivity|]. split; [vm_compute; discriminate|]. split; vm_compute; reflexivity.
Qed.

(* The root must be safe (root_has_sig = true): or_i(pk(0), after(10)) is "m" but not "s"; with the
   signature and an unmet lock the non-malleable model answers Unavailable although [sig0 1] is in the table. *)
Theorem nonmall_needs_safe_root :
  exists ke A se f m t, linked ke A se f /\ locks_compatible se /\ type_of m = ROk t /\
    m_nm (t_mall t) = true /\ m_signed (t_mall t) = false /\ all_sat ke A m <> [] /\
    s_stack (snd (sat_dissat ke se false (m_signed (t_mall t)) m)) = WUnavailable.
Proof.
  exists c02x_ke, (c02x_A true), (c02x_se true), (c02x_f true), (MOrI (MCheck (MPkK 0)) (MAfter 10)). eexists.
  split; [apply c02x_linked|]. split; [apply c02x_locks|]. split; [vm_compute; reflexivity|].
  split; [reflexivity|]. split; [reflexivity|]. split; [vm_compute; discriminate|]. vm_compute. reflexivity.
Qed.

(* [thresh_fit] is not redundant in the MODEL (which has unbounded sizes): a Taproot environment claiming
   a 2^63-byte signature makes thresh(1, pk(0), s:pk(1)) pick the child without a satisfaction.  No real
   environment does this (fit_of_bound); the hypothesis is the absence of i64 overflow. *)
Theorem mall_thresh_fit_needed :
  exists ke A se f m, linked ke A se f /\ locks_compatible se /\ all_sat ke A m <> [] /\
    s_stack (snd (sat_dissat ke se true true m)) = WImpossible.
Proof.
  exists c02x_ke, (c02x_A true),
    (mkSenv true (fun _ => 33%N) (fun k => if c02x_has k then Some 9223372036854775808%N else None) (fun _ _ => true) (fun _ => false) (fun _ => false)),
    (c02x_f true), (MThresh 1 [MCheck (MPkK 1); MSwap (MCheck (MPkK 0))]).
  split.
  - constructor; cbn; try reflexivity.
    + intros k. destruct (c02x_has k); split; congruence.
    + intros kd h. destruct kd; reflexivity.
    + intros kd h. destruct kd; cbn; split; congruence.
  - split; [split; intros t1 t2 H; cbn in H; discriminate|]. split; [vm_compute; discriminate | vm_compute; reflexivity].
Qed.
