(* The complete finite check behind ck_two_chars: for every local residue r1 that one
   changed character can produce (3007 distinct values) and every distance up to SWEEP symbols,
   the propagated residue T^e r1 (a) is not itself the local residue of a one-character change
   of the group that ends there, and (b) has at least two non-zero 5-bit fields once it has
   passed through the eight checksum positions.  Evaluated by vm_compute over N. *)
From Coq Require Import List Bool Arith NArith Lia.
From Verif Require Import ChecksumModel ChecksumSpec ChecksumBits ChecksumStream ChecksumVerify ChecksumGroups.
Import ListNotations.
Local Open Scope N_scope.

Definition ell (e : nat) : nat := match (e mod 4)%nat with O => 4%nat | m => m end.

Definition fieldnz (x k : N) : bool := negb (unpack x k =? 0).

(* boolean version of [exists l-block Rform]: x < 32^l, x <> 0, at most one of the symbol fields 1..l-1 set *)
Definition inR (l : nat) (x : N) : bool :=
  match l with
  | 2%nat => (x <? 2 ^ 10) && negb (x =? 0)
  | 3%nat => (x <? 2 ^ 15) && negb (x =? 0) && negb (fieldnz x 1 && fieldnz x 2)
  | 4%nat => (x <? 2 ^ 20) && negb (x =? 0) &&
             negb ((fieldnz x 1 && fieldnz x 2) || (fieldnz x 1 && fieldnz x 3) || (fieldnz x 2 && fieldnz x 3))
  | _ => false
  end.

Definition r32 : list N := map N.of_nat (seq 0 32).

Definition Rlist (l : nat) : list N :=
  flat_map (fun f => flat_map (fun x => flat_map (fun y =>
     if (x =? 0) && (y =? 0) then [] else [N.lxor (N.shiftl x (5 * N.of_nat f)) y]) r32) r32) (seq 1 (l - 1)).

Lemma In_r32 : forall x, x < 32 -> In x r32.
Proof.
  intros x H. unfold r32. rewrite <- (N2Nat.id x). apply in_map. apply in_seq. lia.
Qed.

Lemma Rform_In : forall l r, Rform l r -> In r (Rlist l).
Proof.
  intros l r (f & x & y & Hf & Hx & Hy & Hnz & ->). unfold Rlist.
  apply in_flat_map. exists f. split; [apply in_seq; lia|].
  apply in_flat_map. exists x. split; [apply In_r32; assumption|].
  apply in_flat_map. exists y. split; [apply In_r32; assumption|].
  destruct (N.eqb_spec x 0) as [->|]; destruct (N.eqb_spec y 0) as [->|]; cbn [andb].
  - destruct Hnz; congruence.
  - left; reflexivity.
  - left; reflexivity.
  - left; reflexivity.
Qed.

Lemma Rlist_inR : forallb (fun l => forallb (inR l) (Rlist l)) [2%nat; 3%nat; 4%nat] = true.
Proof. vm_compute. reflexivity. Qed.

Lemma Rform_inR : forall l r, (2 <= l <= 4)%nat -> Rform l r -> inR l r = true.
Proof.
  intros l r Hl H. apply Rform_In in H. pose proof Rlist_inR as P. rewrite forallb_forall in P.
  assert (In l [2%nat; 3%nat; 4%nat]) as I by (cbn [In]; lia).
  specialize (P l I). rewrite forallb_forall in P. apply P. assumption.
Qed.

Lemma Rlist_mono : forall l r, (2 <= l <= 4)%nat -> In r (Rlist l) -> In r (Rlist 4).
Proof.
  intros l r Hl H. unfold Rlist in *. apply in_flat_map in H. destruct H as [f [Hf H]].
  apply in_flat_map. exists f. split; [|assumption]. apply in_seq in Hf. apply in_seq. lia.
Qed.

(* a faster zero-input step for the sweep: the five generator selections as one table look-up *)
Definition GTAB : list N := Eval vm_compute in map Gmap r32.

Lemma GTAB_spec : forall c, c < 32 -> nth (N.to_nat c) GTAB 0 = Gmap c.
Proof.
  intros c Hc. apply In_r32 in Hc.
  assert (forallb (fun c => nth (N.to_nat c) GTAB 0 =? Gmap c) r32 = true) as H by (vm_compute; reflexivity).
  rewrite forallb_forall in H. apply N.eqb_eq. apply H. assumption.
Qed.

Definition step_fast (st : N) : N :=
  N.lxor (N.shiftl (N.land st M35) 5) (nth (N.to_nat (N.shiftr st 35)) GTAB 0).

Lemma step_fast_step : forall st, st < 2 ^ 40 -> step_fast st = step st 0.
Proof.
  intros st H. unfold step_fast, step. rewrite N.lxor_0_r. rewrite GTAB_spec; [reflexivity|].
  rewrite N.shiftr_div_pow2. apply N.div_lt_upper_bound; [discriminate|exact H].
Qed.

(* at least two non-zero fields, with a cheap first test *)
Definition wt2 (x : N) : bool :=
  if fieldnz x 0 then (if fieldnz x 1 then true else (2 <=? Wt x)%nat) else (2 <=? Wt x)%nat.

Lemma wt2_sound : forall x, wt2 x = true -> (2 <= Wt x)%nat.
Proof.
  intros x H. unfold wt2 in H.
  destruct (fieldnz x 0) eqn:E0; [destruct (fieldnz x 1) eqn:E1|]; try (apply Nat.leb_le; assumption).
  unfold Wt. cbn [filter]. fold (fieldnz x 0). fold (fieldnz x 1). rewrite E0, E1.
  destruct (negb (unpack x 7 =? 0)), (negb (unpack x 6 =? 0)), (negb (unpack x 5 =? 0)),
           (negb (unpack x 4 =? 0)), (negb (unpack x 3 =? 0)), (negb (unpack x 2 =? 0)); cbn [length]; lia.
Qed.

Definition inR_lazy (l : nat) (x : N) : bool :=
  match l with
  | 2%nat => if x <? 2 ^ 10 then inR 2 x else false
  | 3%nat => if x <? 2 ^ 15 then inR 3 x else false
  | 4%nat => if x <? 2 ^ 20 then inR 4 x else false
  | _ => false
  end.

Lemma inR_lazy_eq : forall l x, inR_lazy l x = inR l x.
Proof.
  intros l x. destruct l as [|[|[|[|[|l]]]]]; try reflexivity; unfold inR_lazy, inR;
    match goal with |- context [x <? ?b] => destruct (x <? b) end; reflexivity.
Qed.

(* ell computed incrementally (nat modulo is linear in e) *)
Definition ell_next (l : nat) : nat := match l with 4%nat => 1%nat | _ => S l end.

Lemma ell_S : forall e, ell (S e) = ell_next (ell e).
Proof.
  intro e. unfold ell.
  pose proof (Nat.div_mod e 4 ltac:(discriminate)) as E.
  pose proof (Nat.mod_upper_bound e 4 ltac:(discriminate)) as B.
  set (q := (e / 4)%nat) in *. set (r := (e mod 4)%nat) in *. clearbody q r.
  assert (S e = (S r) + q * 4)%nat as E1 by lia.
  destruct r as [|[|[|[|r]]]]; try lia.
  - rewrite E1, Nat.mod_add by discriminate. reflexivity.
  - rewrite E1, Nat.mod_add by discriminate. reflexivity.
  - rewrite E1, Nat.mod_add by discriminate. reflexivity.
  - replace (S e) with (0 + (S q) * 4)%nat by lia. rewrite Nat.mod_add by discriminate. reflexivity.
Qed.

(* the sweep: e counts symbols since the end of the block that produced the start state; l = ell e *)
Fixpoint chk (n e l : nat) (st : N) : bool :=
  match n with
  | O => true
  | S n' =>
    let st' := step_fast st in
    let l' := ell_next l in
    if inR_lazy l' st' then false
    else if (if (S e <? 8)%nat then true else wt2 st') then chk n' (S e) l' st' else false
  end.

Lemma chk_sound : forall n e st, st < 2 ^ 40 -> chk n e (ell e) st = true -> forall j, (1 <= j <= n)%nat ->
  inR (ell (e + j)) (Tn j st) = false /\ ((e + j < 8)%nat \/ (2 <= Wt (Tn j st))%nat).
Proof.
  induction n as [|n IH]; intros e st Hst H j Hj; [lia|].
  cbn [chk] in H. rewrite step_fast_step in H by assumption. rewrite inR_lazy_eq in H.
  rewrite <- ell_S in H.
  destruct (inR (ell (S e)) (step st 0)) eqn:H1; [discriminate|].
  destruct (S e <? 8)%nat eqn:H2.
  - destruct j as [|j]; [lia|]. change (S j) with (1 + j)%nat. rewrite Tn_add.
    change (Tn 1 st) with (step st 0).
    destruct j as [|j].
    + change (Tn 0 (step st 0)) with (step st 0). replace (e + (1 + 0))%nat with (S e) by lia.
      split; [assumption|]. left. apply Nat.ltb_lt. assumption.
    + replace (e + (1 + S j))%nat with (S e + S j)%nat by lia.
      apply IH; [apply step_lt; reflexivity|assumption|lia].
  - destruct (wt2 (step st 0)) eqn:H3; [|discriminate].
    destruct j as [|j]; [lia|]. change (S j) with (1 + j)%nat. rewrite Tn_add.
    change (Tn 1 st) with (step st 0).
    destruct j as [|j].
    + change (Tn 0 (step st 0)) with (step st 0). replace (e + (1 + 0))%nat with (S e) by lia.
      split; [assumption|]. right. apply wt2_sound. assumption.
    + replace (e + (1 + S j))%nat with (S e + S j)%nat by lia.
      apply IH; [apply step_lt; reflexivity|assumption|lia].
Qed.

Definition SWEEP : nat := 676.

Lemma sweep_ok : forallb (fun r1 => chk SWEEP 0 4 r1) (Rlist 4) = true.
Proof. vm_cast_no_check (eq_refl true). Qed.

Lemma Rlist4_lt : forallb (fun r => r <? 2 ^ 40) (Rlist 4) = true.
Proof. vm_compute. reflexivity. Qed.

Lemma sweep : forall r1 j, In r1 (Rlist 4) -> (1 <= j <= SWEEP)%nat ->
  inR (ell j) (Tn j r1) = false /\ ((j < 8)%nat \/ (2 <= Wt (Tn j r1))%nat).
Proof.
  intros r1 j I Hj. pose proof sweep_ok as P. rewrite forallb_forall in P. specialize (P r1 I).
  pose proof Rlist4_lt as B. rewrite forallb_forall in B. specialize (B r1 I). apply N.ltb_lt in B.
  exact (chk_sound SWEEP 0 r1 B P j Hj).
Qed.
