(* C07 at descriptor level, P2SH: the 1650-byte scriptSig rule DERIVED from the verdict.

   Since /repo e37a8a3d Legacy::check_local_policy_validity compares
   max_script_sig_size + pk_cost + push_opcode_size(pk_cost) with 1650 (LiftLimits.v, Legacy arm).
   C09 (wit_bounds_root) bounds the NOMINAL scriptSig size of the satisfier's placeholders
   (ssig_sum se l <= sd_ssig d: Ctx::pk_len per key, 73 per ECDSA signature, 33 per preimage, 1 for
   OP_0 / OP_1).  Here: the BYTES of the scriptSig built by witness_to_scriptsig are at most that nominal
   size plus the push of the redeem script ([scriptsig_bytes_le]), given that the satisfier's key-size
   constant covers each key's push ([blen (kb ke k) + 1 <= se_pklen se k]) and signatures are below 73
   bytes (the assert of witness_to_scriptsig).  Hence sh_invents_no_path_within_limits, no scriptSig
   hypothesis left. *)
From Verif Require Import Exec Ser Spend Ast Types TypeCheck SatSpec Sat LiftModel LiftLimits TheoremA SatProofs FrameDissat
  CompleteProofs CompleteThresh CompleteNonMall CompleteScript DenotSpec DenotMain DenotTable
  LiftProofs LiftNormProofs LiftMainProofs LiftFullProofs.
From Verif Require Import CodecSpec SerProofs EncProofs DescSpendModel DescSpendPush DescSpendProofs DescSpendBare LiftDescWsh LiftDescTypes.
From Verif Require CodecExt DescSpendLimits ExtModel ExtProofs ExtBounds ExtSize ExtTyped ExtCodec ExtLemmas.
From Coq Require Import Lia Permutation.
Local Open Scope N_scope.

Arguments N.add : simpl never. Arguments N.mul : simpl never. Arguments N.sub : simpl never.
Arguments N.leb : simpl never. Arguments N.ltb : simpl never. Arguments N.eqb : simpl never.
Arguments N.of_nat : simpl never.

(* the instruction witness_to_scriptsig emits for an item (when its assert does not fire) *)
Definition sinstr (b : bytes) : instr := match num_operand 4 b with Some n => push_int n | None => IPush b end.
Definition isz (b : bytes) : N := blen (ser_instr (sinstr b)).
Definition items_size (l : list bytes) : N := fold_right (fun b a => isz b + a) 0 l.

Lemma scriptsig_instr_sinstr last b i : scriptsig_instr last b = Some i -> i = sinstr b.
Proof.
  unfold scriptsig_instr, sinstr. destruct (num_operand 4 b); [intros H; inversion H; reflexivity|].
  destruct (if last then N.leb (blen b) 520 else N.ltb (blen b) 73); intros H; inversion H; reflexivity.
Qed.
Lemma blen_app' (a b : bytes) : blen (a ++ b) = blen a + blen b.
Proof. unfold blen. rewrite app_length. lia. Qed.

Lemma wts_size : forall items ss, witness_to_scriptsig items = Some ss -> blen (serialize ss) = items_size items.
Proof.
  induction items as [|a r IH]; intros ss H; cbn [witness_to_scriptsig] in H.
  - inversion H. reflexivity.
  - destruct (scriptsig_instr _ a) as [i|] eqn:E; [|discriminate].
    destruct (witness_to_scriptsig r) as [s|] eqn:E2; [|discriminate]. inversion H; subst.
    cbn [serialize items_size fold_right]. rewrite blen_app', (IH s eq_refl). fold (items_size r).
    rewrite (scriptsig_instr_sinstr _ _ _ E). reflexivity.
Qed.
Lemma items_size_app a b : items_size (a ++ b) = items_size a + items_size b.
Proof. unfold items_size. induction a as [|x r IH]; cbn [app fold_right]; [lia|]. rewrite IH. lia. Qed.

Lemma pos_ge1 n : 1 <= ExtModel.push_opcode_size n.
Proof. unfold ExtModel.push_opcode_size. destruct (n <? 76), (n <? 256), (n <? 65536); lia. Qed.
Lemma ser_push_size b : blen (ser_push b) = blen b + ExtModel.push_opcode_size (blen b).
Proof.
  unfold ser_push, ExtModel.push_opcode_size.
  destruct (N.leb_spec (blen b) 75), (N.ltb_spec (blen b) 76); try lia; [rewrite blen_cons'; lia|].
  destruct (N.leb_spec (blen b) 255), (N.ltb_spec (blen b) 256); try lia; [rewrite !blen_cons'; lia|].
  destruct (N.leb_spec (blen b) 65535), (N.ltb_spec (blen b) 65536); try lia; rewrite !blen_cons'; lia.
Qed.

Lemma isz_le b : is_bytes b -> isz b <= blen b + ExtModel.push_opcode_size (blen b).
Proof.
  intros Hb. unfold isz, sinstr. pose proof (pos_ge1 (blen b)) as Hp.
  destruct (num_operand 4 b) as [z|] eqn:E; [|cbn [ser_instr]; rewrite ser_push_size; lia].
  unfold push_int. destruct (z =? 0)%Z.
  - cbn [ser_instr]. change (blen (ser_push [])) with 1. lia.
  - destruct ((z =? -1)%Z || ((1 <=? z)%Z && (z <=? 16)%Z)).
    + cbn [ser_instr]. unfold ser_num. destruct (z =? -1)%Z; rewrite blen_cons'; change (blen []) with 0; lia.
    + rewrite (num_operand4_reencode b z Hb E). cbn [ser_instr]. rewrite ser_push_size. lia.
Qed.

Section Ssig.
  Variable e : env.
  Variable ke : keyenv.
  Variables (A : assets) (se : senv) (f : fill).
  Hypothesis HL : linked ke A se f.
  Hypothesis HA : assets_ok e ke A.
  Hypothesis Htap : se_tap se = false.
  Hypothesis Hkeys : forall k, blen (kb ke k) + 1 <= se_pklen se k.        (* Ctx::pk_len covers the key's push *)
  Hypothesis Hby : material_all is_bytes ke A.
  Hypothesis Hsz : material_all (fun b => blen b < 73) ke A.

  Lemma small_push b : blen b < 76 -> ExtModel.push_opcode_size (blen b) = 1.
  Proof. intros H. unfold ExtModel.push_opcode_size. destruct (N.ltb_spec (blen b) 76); [reflexivity | lia]. Qed.

  Lemma fill_ssig : forall l bs, fill_all f l = Some bs -> items_size bs <= ExtProofs.ssig_sum se l.
  Proof.
    destruct Hby as (Bk & Bs & Bp). destruct Hsz as (Sk & Ss & Sp).
    induction l as [|p r IH]; intros bs H; cbn [fill_all] in H.
    - inversion H. cbn. lia.
    - destruct (fill_ph f p) as [b|] eqn:Ep; [|discriminate]. destruct (fill_all f r) as [bs'|] eqn:E; [|discriminate].
      inversion H; subst. cbn [items_size fold_right ExtProofs.ssig_sum]. fold (items_size bs'). fold (ExtProofs.ssig_sum se r).
      specialize (IH bs' eq_refl).
      assert (Hi : isz b <= ExtProofs.ph_ssig se p); [|lia].
      destruct p as [k|k|kd h| | |]; cbn [fill_ph] in Ep; unfold ExtProofs.ph_ssig; cbn [ph_size].
      + inversion Ep; subst. rewrite (lk_kb _ _ _ _ HL).
        pose proof (isz_le _ (Bk k)) as G. rewrite small_push in G by (specialize (Sk k); cbv beta in Sk; lia).
        specialize (Hkeys k). lia.
      + rewrite (lk_sig _ _ _ _ HL) in Ep. rewrite Htap.
        pose proof (isz_le _ (Bs k b Ep)) as G. pose proof (Ss k b Ep) as S1. cbv beta in S1.
        rewrite small_push in G by lia. lia.
      + rewrite (lk_pre _ _ _ _ HL) in Ep.
        pose proof (isz_le _ (Bp kd h b Ep)) as G. pose proof (Sp kd h b Ep) as S1. cbv beta in S1.
        assert (blen b = 32) as Hb32.
        { destruct kd; cbn [look] in Ep;
            [exact (proj2 (ok_sha256 _ _ _ HA h b Ep)) | exact (proj2 (ok_hash256 _ _ _ HA h b Ep))
            | exact (proj2 (ok_ripemd160 _ _ _ HA h b Ep)) | exact (proj2 (ok_hash160 _ _ _ HA h b Ep))]. }
        rewrite small_push in G by lia. lia.
      + inversion Ep; subst. vm_compute. discriminate.
      + inversion Ep; subst. vm_compute. discriminate.
      + inversion Ep; subst. vm_compute. discriminate.
  Qed.

  (* the bytes of the P2SH scriptSig against the nominal figure *)
  Lemma scriptsig_bytes_le l bs sb ss : fill_all f l = Some bs -> is_bytes sb ->
    witness_to_scriptsig (bs ++ [sb]) = Some ss ->
    blen (serialize ss) <= ExtProofs.ssig_sum se l + blen sb + ExtModel.push_opcode_size (blen sb).
  Proof.
    intros Hf Hsb Hw. rewrite (wts_size _ _ Hw), items_size_app.
    pose proof (fill_ssig l bs Hf). cbn [items_size fold_right]. pose proof (isz_le sb Hsb). lia.
  Qed.
End Ssig.

Section LegacyFull.
  Variable e : env.
  Variable ke : keyenv.
  Hypothesis Hks : ksort_ok ke.
  Hypothesis Hse : forall kbs, e_sigok e kbs [] = false.
  Notation eb := (with_sv e SvBase).
  Variables (A : assets) (se : senv) (f : fill).
  Hypothesis HL : linked ke A se f.
  Hypothesis HC : locks_compatible se.
  Variables (unc : key -> bool) (rhs : bool) (m : ms) (t : ty) (p : lpolicy).
  Hypothesis Ht : type_of m = ROk t.
  Hypothesis Hbb : c_base (t_corr t) = BB.
  Hypothesis HA : assets_ok eb ke A.
  Hypothesis Hwf : wf eb ke m.
  Hypothesis Hu : unc_agrees ke unc.
  Hypothesis Hfit : thresh_fit ke se rhs m.
  Hypothesis Hby : material_all is_bytes ke A.
  Hypothesis Hsz : material_all (fun b => blen b < 73) ke A.
  Hypothesis Hev : leval A p = true.
  Hypothesis Hmw : ms_wf Legacy ke m.
  Hypothesis Hfr : ExtCodec.ctx_frag_ok Legacy m = true.
  Hypothesis Hsenv : ExtProofs.senv_ok (ExtCodec.xctx_of Legacy ke) se.
  Hypothesis Hkeys : forall k, blen (kb ke k) + 1 <= se_pklen se k.
  Hypothesis Hsb : is_bytes (encode ke m).
  Hypothesis Hl : lift_ctx Legacy unc m = LOk p.

  Lemma sh_scriptsig_fits : forall bs ss, satisfy ke se f true rhs m = Some bs ->
    witness_to_scriptsig (bs ++ [encode ke m]) = Some ss -> blen (serialize ss) <= 1650.
  Proof.
    intros bs ss Hsat Hw.
    pose proof (lift_ctx_within _ _ _ _ Hl) as Hrl.
    destruct (wrl_legacy_inv_scriptsig unc m Hrl) as (d & Hd & Hlim).
    unfold ExtModel.ext_of in Hd, Hlim. rewrite (lx_ext_eq ExtModel.as_written Legacy unc ke m Hu Hmw) in Hd, Hlim.
    fold (ExtModel.ext_of (ExtCodec.xctx_of Legacy ke) m) in Hd, Hlim.
    rewrite (ExtCodec.ext_pk_cost_is_len Legacy ke m Hks Hmw Hfr) in Hlim.
    assert (Htap : se_tap se = false) by (destruct Hsenv as [H _]; exact H).
    unfold satisfy in Hsat. destruct (s_stack (snd (sat_dissat ke se true rhs m))) as [l| |] eqn:El; try discriminate.
    assert (Hsafe : ExtModel.ext_safe ExtModel.as_written (ExtCodec.xctx_of Legacy ke) m = true)
      by (apply (ExtTyped.typed_ext_safe _ m t Ht); apply ms_wf_struct_ok; assumption).
    destruct (ExtBounds.wit_bounds_root ExtModel.as_written _ ke se true rhs m l Hsenv (ksort_ok_len ke Hks) Hsafe El)
      as [d' [Hd' [_ [_ Hss]]]].
    fold (ExtModel.ext_of (ExtCodec.xctx_of Legacy ke) m) in Hd'. rewrite Hd in Hd'. inversion Hd'; subst d'.
    pose proof (scriptsig_bytes_le eb ke A se f HL HA Htap Hkeys Hby Hsz l bs (encode ke m) ss Hsat Hsb Hw) as Hb.
    specialize (Hss Htap). lia.
  Qed.

  Theorem sh_invents_no_path_within_limits :
    exists bs ss, satisfy ke se f true rhs m = Some bs /\ witness_to_scriptsig (bs ++ [encode ke m]) = Some ss /\
      verify_sh e (e_hash160 e (encode ke m)) (serialize ss) [] = true.
  Proof.
    exact (sh_invents_no_path e ke Hks Hse A se f HL HC unc rhs m t p Ht Hbb HA Hwf Hu Hfit Hby Hsz Hev Hmw Hfr Hsenv Hsb Hl sh_scriptsig_fits).
  Qed.

  Theorem sh_dispatch_invents_within_limits (commit_ok : bytes -> bytes -> bool) :
    blen (e_hash160 e (encode ke m)) = 20 ->
    exists bs ss, satisfy ke se f true rhs m = Some bs /\ witness_to_scriptsig (bs ++ [encode ke m]) = Some ss /\
      verify_spend e commit_ok (spk_sh e (encode ke m)) (serialize ss) [] = true.
  Proof.
    intros H20.
    exact (sh_dispatch_invents e ke Hks Hse A se f HL HC unc rhs m t p Ht Hbb HA Hwf Hu Hfit Hby Hsz Hev commit_ok Hmw Hfr Hsenv Hsb H20 Hl sh_scriptsig_fits).
  Qed.
End LegacyFull.
