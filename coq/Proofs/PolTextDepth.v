(* The depth premise of the policy text-level fixed points, derived from the accepted input (as Proofs/MsTextDepth.v does
   for miniscripts): whatever tree sem_from_tree / conc_from_tree accepts, the printed tree of the result is not deeper
   (semantic `and` / `or` are a respelling of `thresh` at the same level; the concrete `N@` odds go into the node NAME). *)
From Coq Require Import List Bool Arith NArith Lia.
From Verif Require Import ChecksumModel ExprTreeModel ExprTreeTotal ExprTreePass2 ExprTreeGrammar ExprTreeRt
  MsTextModel MsTextProofs MsTextCompose MsTextDepth PolTextModel PolSemanticProofs PolTextProofs PolTextCompose.
Import ListNotations.
Local Open Scope N_scope.

Lemma depth_fnode : forall name kids, depth (fnode name kids) = 1 + dmaxl kids.
Proof. intros name [|k r]; reflexivity. Qed.

Lemma depth_with_prob : forall w t, depth (with_prob w t) = depth t.
Proof. intros w [name p kids]. reflexivity. Qed.

Lemma pkind_name : forall s f, pkind_of_name s = Some f ->
  s = fst (nth (match f with KUnsat => 0 | KTriv => 1 | KPk => 2 | KAfter => 3 | KOlder => 4
                | KHash PSha256 => 5 | KHash PHash256 => 6 | KHash PRipemd160 => 7 | KHash PHash160 => 8
                | KAnd => 9 | KOr => 10 | KThresh => 11 end)%nat pol_names ([], KUnsat)).
Proof.
  intros s f Hf. unfold pkind_of_name, pol_names in Hf. cbn [plookup] in Hf.
  repeat match type of Hf with
         | (if tb_eqb ?s ?n then _ else _) = _ =>
           let E := fresh "E" in destruct (tb_eqb s n) eqn:E;
           [apply tb_eqb_true in E; inversion Hf; subst; reflexivity|clear E]
         end. discriminate.
Qed.

Lemma pkind_noat : forall s f, pkind_of_name s = Some f -> sep_at s = Ok (None, s).
Proof.
  intros s f H. apply sep_at_plain. rewrite (pkind_name _ _ H).
  destruct f as [| | | | |h| | |]; try destruct h; reflexivity.
Qed.

Section PolDepth.
Variable print_key : N -> tbytes.
Variable parse_key : tbytes -> option N.
Variable print_hash : phk -> N -> tbytes.
Variable parse_hash : phk -> tbytes -> option N.

Notation conc_to_tree := (conc_to_tree print_key print_hash).
Notation sem_to_tree := (sem_to_tree print_key print_hash).
Notation leaf_tree := (leaf_tree print_key print_hash).
Notation leaf_frag := (leaf_frag parse_key parse_hash).
Notation sfrag := (sfrag parse_key parse_hash).
Notation cfrag := (cfrag parse_key parse_hash).
Notation sstep := (sstep parse_key parse_hash).
Notation cstep := (cstep parse_key parse_hash).
Notation srun := (srun parse_key parse_hash).
Notation crun := (crun parse_key parse_hash).
Notation sem_from_tree := (sem_from_tree parse_key parse_hash).
Notation conc_from_tree := (conc_from_tree parse_key parse_hash).

(* ---- terminals *)
Lemma leaf_frag_shape : forall f kids l, leaf_frag f kids = Some (Ok l) ->
  depth (leaf_tree l) <= kd kids /\ (kids = [] \/ exists c, kids = [c] /\ n_kids c = 0%nat).
Proof.
  intros f kids l H. destruct f as [| | | | |h| | |]; cbn [PolTextModel.leaf_frag] in H; try discriminate.
  - destruct kids; inversion H; subst. split; [cbn; lia|left; reflexivity].
  - destruct kids; inversion H; subst. split; [cbn; lia|left; reflexivity].
  - destruct (verify_terminal_parent parse_key kids) eqn:E; cbn in H; inversion H; subst.
    destruct (vtp_shape _ _ _ _ E) as [c [-> Hc]]. split; [rewrite kd_cons; cbn; lia|right; eauto].
  - destruct (verify_lock EAbsLock kids) eqn:E; cbn in H; inversion H; subst.
    destruct (vlock_shape _ _ _ E) as [c [-> Hc]]. split; [rewrite kd_cons; cbn; lia|right; eauto].
  - destruct (verify_lock ERelLock kids) eqn:E; cbn in H; inversion H; subst.
    destruct (vlock_shape _ _ _ E) as [c [-> Hc]]. split; [rewrite kd_cons; cbn; lia|right; eauto].
  - destruct (verify_terminal_parent (parse_hash h) kids) eqn:E; cbn in H; inversion H; subst.
    destruct (vtp_shape _ _ _ _ E) as [c [-> Hc]]. split; [rewrite kd_cons; cbn; lia|right; eauto].
Qed.

Lemma sem_sleaf : forall l, sem_to_tree (sleaf l) = leaf_tree l.
Proof. intros [| | | | |h v]; try reflexivity. destruct h; reflexivity. Qed.

(* ================================================================== semantic *)
Definition sd (p : spol) : N := depth (sem_to_tree p).

Lemma dmaxl_map_F2 : forall A (tt : A -> etree) ks ps,
  Forall2 (fun k p => depth (tt p) <= depth k) ks ps -> dmaxl (map tt ps) <= dmaxl ks.
Proof. intros A tt ks ps F. induction F as [|k p r l H F IH]; [cbn; lia|]. cbn [map]. rewrite !dmaxl_cons. lia. Qed.

Lemma sd_thresh : forall k subs, sd (SThresh k subs) <= 1 + dmaxl (map sem_to_tree subs).
Proof.
  intros k subs. unfold sd. cbn [PolTextModel.sem_to_tree].
  destruct (Nat.eqb k (length subs)); [rewrite depth_fnode; lia|].
  destruct (Nat.eqb k 1); rewrite depth_fnode; [lia|]. rewrite dmaxl_cons. cbn. lia.
Qed.

Definition SRt (t : etree) : Prop := forall parent st st',
  srun st (rpo parent t) = Ok st' ->
  if sskip parent then (n_kids t = 0%nat -> st' = st) else exists p, st' = p :: st /\ sd p <= depth t.

Lemma srun_kids : forall ks, Forall SRt ks -> forall pn n first st st',
  sskip (Some (pn, n, first)) = false -> sskip (Some (pn, n, false)) = false ->
  srun st (rpo_list pn n ks first) = Ok st' ->
  exists pushed, st' = pushed ++ st /\ Forall2 (fun k p => sd p <= depth k) ks pushed.
Proof.
  induction ks as [|k r IH]; intros HF pn n first st st' S1 S2 H.
  - cbn in H. inversion H; subst. exists []. split; [reflexivity|constructor].
  - inversion HF as [|? ? Hk Hr]; subst. cbn [rpo_list] in H. rewrite srun_app in H.
    destruct (srun st (rpo_list pn n r false)) as [s1| |] eqn:E; cbn [obind] in H; try discriminate.
    destruct (IH Hr _ _ _ _ _ S2 S2 E) as [l [-> F]].
    pose proof (Hk _ _ _ H) as K. rewrite S1 in K. destruct K as [p [-> Hd]].
    exists (p :: l). split; [reflexivity|]. constructor; assumption.
Qed.

Lemma srun_one_leaf : forall c, SRt c -> n_kids c = 0%nat -> forall pn first st st',
  srun st (rpo_list pn 1 [c] first) = Ok st' -> st' = st.
Proof.
  intros c Hc Hn pn first st st' H. cbn [rpo_list app] in H. pose proof (Hc _ _ _ H) as K.
  cbn [sskip Nat.eqb orb] in K. apply K. exact Hn.
Qed.

Lemma sskip_plain : forall pn n first, Nat.eqb n 1 = false -> tb_eqb pn n_thresh = false ->
  sskip (Some (pn, n, first)) = false.
Proof. intros. cbn [sskip]. rewrite H, H0, andb_false_r. reflexivity. Qed.

Lemma pops_match : forall A (kids : list etree) (pushed subs st st1 : list A) (R : etree -> A -> Prop),
  Forall2 R kids pushed -> pushed ++ st = subs ++ st1 -> length subs = length kids -> subs = pushed /\ st1 = st.
Proof.
  intros A kids pushed subs st st1 R F E L. symmetry in E.
  destruct (app_inv_len _ _ _ _ _ E) as [-> ->]; [rewrite L; symmetry; apply (Forall2_len _ _ _ _ _ F)|auto].
Qed.

Theorem srun_rpo_depth : forall t, SRt t.
Proof.
  intro t. induction t as [name p kids IH] using etree_ind'. intros parent st st' H.
  rewrite rpo_eq, srun_app in H.
  destruct (srun st (rpo_list name (length kids) kids true)) as [s1| |] eqn:E; cbn [obind] in H; try discriminate.
  cbn [PolTextModel.srun] in H.
  destruct (sstep s1 (mkItem name p kids parent)) as [s2| |] eqn:Es; cbn [obind] in H; try discriminate.
  inversion H; subst s2. clear H. unfold PolTextModel.sstep in Es. cbn [it_parent it_name it_kids] in Es.
  destruct (sskip parent).
  - inversion Es; subst. cbn [n_kids]. intro Hl. destruct kids; [|discriminate]. cbn in E. inversion E. reflexivity.
  - destruct (pkind_of_name name) as [f|] eqn:Hf; [|discriminate].
    destruct (sfrag f kids s1) as [[new st1]| |] eqn:Ef; cbn [obind] in Es; try discriminate.
    inversion Es; subst. clear Es. exists new. rewrite depth_node.
    assert (G : st1 = st /\ sd new <= kd kids); [|destruct G as [-> G]; split; [reflexivity|exact G]].
    unfold PolTextModel.sfrag in Ef. destruct (leaf_frag f kids) as [o|] eqn:El.
    + destruct o as [l| |]; cbn in Ef; try discriminate. inversion Ef; subst.
      destruct (leaf_frag_shape _ _ _ El) as [Hd [ -> | [c [ -> Hc]]]].
      * cbn in E. inversion E; subst. split; [reflexivity|]. unfold sd. rewrite sem_sleaf. exact Hd.
      * inversion IH as [|? ? Hcc _]; subst. rewrite (srun_one_leaf c Hcc Hc _ _ _ _ E).
        split; [reflexivity|]. unfold sd. rewrite sem_sleaf. exact Hd.
    + pose proof (pkind_name _ _ Hf) as Hname.
      destruct (leaf_frag_composite _ _ _ _ El) as [ -> | [ -> | -> ]]; cbn [nth pol_names fst] in Hname; subst name.
      * (* and *) destruct (Nat.leb 2 (length kids)) eqn:L2; [|discriminate]. apply Nat.leb_le in L2.
        destruct (gpop_n (length kids) s1) as [[subs st2]| |] eqn:Eg; cbn [obind] in Ef; try discriminate.
        inversion Ef; subst.
        assert (N1 : Nat.eqb (length kids) 1 = false) by (apply Nat.eqb_neq; lia).
        destruct (srun_kids _ IH _ _ _ _ _ (sskip_plain n_and _ true N1 eq_refl) (sskip_plain n_and _ false N1 eq_refl) E) as [pushed [-> F]].
        apply gpop_n_spec in Eg. destruct Eg as [Eg Lg].
        destruct (pops_match _ _ _ _ _ _ _ F Eg Lg) as [-> ->]. split; [reflexivity|].
        pose proof (sd_thresh (length kids) pushed). pose proof (dmaxl_map_F2 _ sem_to_tree _ _ F).
        destruct kids; [cbn in L2; lia|]. unfold kd. lia.
      * (* or *) destruct (Nat.leb 2 (length kids)) eqn:L2; [|discriminate]. apply Nat.leb_le in L2.
        destruct (gpop_n (length kids) s1) as [[subs st2]| |] eqn:Eg; cbn [obind] in Ef; try discriminate.
        inversion Ef; subst.
        assert (N1 : Nat.eqb (length kids) 1 = false) by (apply Nat.eqb_neq; lia).
        destruct (srun_kids _ IH _ _ _ _ _ (sskip_plain n_or _ true N1 eq_refl) (sskip_plain n_or _ false N1 eq_refl) E) as [pushed [-> F]].
        apply gpop_n_spec in Eg. destruct Eg as [Eg Lg].
        destruct (pops_match _ _ _ _ _ _ _ F Eg Lg) as [-> ->]. split; [reflexivity|].
        pose proof (sd_thresh 1 pushed). pose proof (dmaxl_map_F2 _ sem_to_tree _ _ F).
        destruct kids; [cbn in L2; lia|]. unfold kd. lia.
      * (* thresh *)
        destruct (verify_threshold 0 kids) as [[k rest]| |] eqn:Ev; cbn [lift_ms obind] in Ef; try discriminate.
        destruct (gpop_n (length rest) s1) as [[subs st2]| |] eqn:Eg; cbn [obind] in Ef; try discriminate.
        destruct (k =? 1); [discriminate|]. destruct (k =? N.of_nat (length rest)); [discriminate|]. inversion Ef; subst.
        destruct (vth_shape _ _ _ _ Ev) as [kc [-> Hkc]]. inversion IH as [|? ? Hc Hr]; subst.
        cbn [length rpo_list] in E. rewrite srun_app in E.
        destruct (srun st (rpo_list n_thresh (S (length rest)) rest false)) as [s0| |] eqn:E0; cbn [obind] in E; try discriminate.
        pose proof (Hc _ _ _ E) as K. cbn [sskip] in K. change (tb_eqb n_thresh n_thresh) with true in K.
        rewrite orb_true_r in K. specialize (K Hkc). subst s1.
        destruct rest as [|r0 rr].
        { cbn in E0. inversion E0; subst. cbn in Eg. inversion Eg; subst. split; [reflexivity|].
          pose proof (sd_thresh (N.to_nat k) []) as Hs0. rewrite kd_cons. cbn [map] in Hs0. change (dmaxl []) with 0 in *. lia. }
        assert (S0 : sskip (Some (n_thresh, S (length (r0 :: rr)), false)) = false) by reflexivity.
        destruct (srun_kids _ Hr _ _ _ _ _ S0 S0 E0) as [pushed [-> F]].
        apply gpop_n_spec in Eg. destruct Eg as [Eg Lg].
        destruct (pops_match _ _ _ _ _ _ _ F Eg Lg) as [-> ->]. split; [reflexivity|].
        pose proof (sd_thresh (N.to_nat k) pushed). pose proof (dmaxl_map_F2 _ sem_to_tree _ _ F).
        rewrite kd_cons. lia.
Qed.

Theorem sem_from_tree_depth : forall t p, sem_from_tree t = Ok p -> depth (sem_to_tree p) <= depth t.
Proof.
  intros t p H. unfold PolTextModel.sem_from_tree in H. destruct (has_curly t); [discriminate|].
  destruct (srun [] (rpo None t)) as [st| |] eqn:E; try discriminate.
  destruct st as [|p' [|? ?]]; try discriminate. inversion H; subst.
  pose proof (srun_rpo_depth t _ _ _ E) as K. cbn [sskip] in K. destruct K as [q [Eq Hd]]. inversion Eq; subst. exact Hd.
Qed.

(* ================================================================== concrete *)
Definition cd (p : wpol) : N := depth (conc_to_tree p).

Definition CRt (t : etree) : Prop := forall parent st st',
  crun st (rpo parent t) = Ok st' ->
  match cskip parent with
  | Ok None => n_kids t = 0%nat -> st' = st
  | Ok (Some _) => exists wp, st' = wp :: st /\ cd (snd wp) <= depth t
  | _ => False
  end.

Lemma crun_kids : forall ks, Forall CRt ks -> forall pn n first st st' b1 b2,
  cskip (Some (pn, n, first)) = Ok (Some b1) -> cskip (Some (pn, n, false)) = Ok (Some b2) ->
  crun st (rpo_list pn n ks first) = Ok st' ->
  exists pushed, st' = pushed ++ st /\ Forall2 (fun k wp => cd (snd wp) <= depth k) ks pushed.
Proof.
  induction ks as [|k r IH]; intros HF pn n first st st' b1 b2 S1 S2 H.
  - cbn in H. inversion H; subst. exists []. split; [reflexivity|constructor].
  - inversion HF as [|? ? Hk Hr]; subst. cbn [rpo_list] in H. rewrite crun_app in H.
    destruct (crun st (rpo_list pn n r false)) as [s1| |] eqn:E; cbn [obind] in H; try discriminate.
    destruct (IH Hr _ _ _ _ _ _ _ S2 S2 E) as [l [-> F]].
    pose proof (Hk _ _ _ H) as K. rewrite S1 in K. destruct K as [p [-> Hd]].
    exists (p :: l). split; [reflexivity|]. constructor; assumption.
Qed.

Lemma crun_one_leaf : forall c, CRt c -> n_kids c = 0%nat -> forall pn first st st',
  crun st (rpo_list pn 1 [c] first) = Ok st' -> st' = st.
Proof.
  intros c Hc Hn pn first st st' H. cbn [rpo_list app] in H. pose proof (Hc _ _ _ H) as K.
  cbn [cskip Nat.eqb] in K. apply K. exact Hn.
Qed.

Lemma cskip_plain : forall pn x nm n first, sep_at pn = Ok (x, nm) -> Nat.eqb n 1 = false -> tb_eqb nm n_thresh = false ->
  cskip (Some (pn, n, first)) = Ok (Some (tb_eqb nm n_or)).
Proof. intros. cbn [cskip]. rewrite H0, H. cbn [obind]. rewrite H1, andb_false_r. reflexivity. Qed.

Lemma cd_F2 : forall ks (ps : list (N * wpol)),
  Forall2 (fun k wp => cd (snd wp) <= depth k) ks ps ->
  Forall2 (fun k p => depth (conc_to_tree p) <= depth k) ks (map snd ps).
Proof. intros ks ps F. induction F; cbn [map]; constructor; assumption. Qed.

Theorem crun_rpo_depth : forall t, CRt t.
Proof.
  intro t. induction t as [name p kids IH] using etree_ind'. intros parent st st' H.
  rewrite rpo_eq, crun_app in H.
  destruct (crun st (rpo_list name (length kids) kids true)) as [s1| |] eqn:E; cbn [obind] in H; try discriminate.
  cbn [PolTextModel.crun] in H.
  destruct (cstep s1 (mkItem name p kids parent)) as [s2| |] eqn:Es; cbn [obind] in H; try discriminate.
  inversion H; subst s2. clear H. unfold PolTextModel.cstep in Es. cbn [it_parent it_name it_kids] in Es.
  destruct (cskip parent) as [[ap|]| |]; cbn [obind] in Es; try discriminate.
  2: { inversion Es; subst. cbn [n_kids]. intro Hl. destruct kids; [|discriminate]. cbn in E. inversion E. reflexivity. }
  match type of Es with obind ?X _ = _ => destruct X as [[fp fname]| |] eqn:Hs end; cbn [obind] in Es; try discriminate.
  match type of Es with obind ?X _ = _ => destruct X as [prob| |] end; cbn [obind] in Es; try discriminate.
  destruct (pkind_of_name fname) as [f|] eqn:Hf; [|discriminate].
  destruct (cfrag f kids s1) as [[new st1]| |] eqn:Ef; cbn [obind] in Es; try discriminate.
  inversion Es; subst. clear Es. exists (prob, new). cbn [snd]. rewrite depth_node.
  assert (Hsep : exists x, sep_at name = Ok (x, fname)).
  { destruct ap; [eexists; exact Hs|]. inversion Hs; subst. exists None. eapply pkind_noat; exact Hf. }
  destruct Hsep as [x Hsep].
  assert (G : st1 = st /\ cd new <= kd kids); [|destruct G as [-> G]; split; [reflexivity|exact G]].
  unfold PolTextModel.cfrag in Ef. destruct (leaf_frag f kids) as [o|] eqn:El.
  - destruct o as [l| |]; cbn in Ef; try discriminate. inversion Ef; subst.
    destruct (leaf_frag_shape _ _ _ El) as [Hd [ -> | [c [ -> Hc]]]].
    + cbn in E. inversion E; subst. split; [reflexivity|exact Hd].
    + inversion IH as [|? ? Hcc _]; subst. rewrite (crun_one_leaf c Hcc Hc _ _ _ _ E). split; [reflexivity|exact Hd].
  - pose proof (pkind_name _ _ Hf) as Hname.
    destruct (leaf_frag_composite _ _ _ _ El) as [ -> | [ -> | -> ]]; cbn [nth pol_names fst] in Hname; subst fname.
    + (* and *) destruct kids as [|ka [|kb [|? ?]]]; try discriminate.
      destruct (crun_kids _ IH _ _ _ _ _ _ _ (cskip_plain _ _ n_and 2%nat true Hsep eq_refl eq_refl)
                  (cskip_plain _ _ n_and 2%nat false Hsep eq_refl eq_refl) E) as [pushed [-> F]].
      inversion F as [|? a ? l1 Ha F1]; subst. inversion F1 as [|? b ? l2 Hb F2]; subst. inversion F2; subst.
      cbn [app gpop obind] in Ef. inversion Ef; subst. split; [reflexivity|].
      unfold cd in *. cbn [PolTextModel.conc_to_tree map]. rewrite depth_fnode, kd_cons, !dmaxl_cons. change (dmaxl []) with 0. lia.
    + (* or *) destruct kids as [|ka [|kb [|? ?]]]; try discriminate.
      destruct (crun_kids _ IH _ _ _ _ _ _ _ (cskip_plain _ _ n_or 2%nat true Hsep eq_refl eq_refl)
                  (cskip_plain _ _ n_or 2%nat false Hsep eq_refl eq_refl) E) as [pushed [-> F]].
      inversion F as [|? a ? l1 Ha F1]; subst. inversion F1 as [|? b ? l2 Hb F2]; subst. inversion F2; subst.
      cbn [app gpop obind] in Ef. inversion Ef; subst. split; [reflexivity|].
      destruct a as [wa pa]. destruct b as [wb pb]. cbn [snd] in *.
      unfold cd in *. cbn [PolTextModel.conc_to_tree map]. rewrite depth_fnode, kd_cons, !dmaxl_cons, !depth_with_prob.
      change (dmaxl []) with 0. lia.
    + (* thresh *)
      destruct (verify_threshold 0 kids) as [[k rest]| |] eqn:Ev; cbn [lift_ms obind] in Ef; try discriminate.
      destruct (gpop_n (length rest) s1) as [[subs st2]| |] eqn:Eg; cbn [obind] in Ef; try discriminate.
      inversion Ef; subst.
      destruct (vth_shape _ _ _ _ Ev) as [kc [-> Hkc]]. inversion IH as [|? ? Hc Hr]; subst.
      cbn [length rpo_list] in E. rewrite crun_app in E.
      destruct (crun st (rpo_list name (S (length rest)) rest false)) as [s0| |] eqn:E0; cbn [obind] in E; try discriminate.
      destruct rest as [|r0 rr].
      { cbn in E0. inversion E0; subst. pose proof (Hc _ _ _ E) as K. cbn [cskip Nat.eqb length] in K. specialize (K Hkc). subst s1.
        cbn in Eg. inversion Eg; subst. split; [reflexivity|].
        unfold cd. cbn [PolTextModel.conc_to_tree map]. rewrite depth_fnode, kd_cons, dmaxl_cons. cbn. lia. }
      pose proof (Hc _ _ _ E) as K. cbn [cskip length Nat.eqb] in K. rewrite Hsep in K. cbn [obind] in K.
      change (tb_eqb n_thresh n_thresh) with true in K. cbn [andb] in K. specialize (K Hkc). subst s1.
      assert (S0 : cskip (Some (name, S (length (r0 :: rr)), false)) = Ok (Some (tb_eqb n_thresh n_or))).
      { cbn [cskip length Nat.eqb]. rewrite Hsep. reflexivity. }
      destruct (crun_kids _ Hr _ _ _ _ _ _ _ S0 S0 E0) as [pushed [-> F]].
      apply gpop_n_spec in Eg. destruct Eg as [Eg Lg].
      destruct (pops_match _ _ _ _ _ _ _ F Eg Lg) as [-> ->]. split; [reflexivity|].
      pose proof (dmaxl_map_F2 _ conc_to_tree _ _ (cd_F2 _ _ F)).
      unfold cd. cbn [PolTextModel.conc_to_tree]. rewrite depth_fnode, kd_cons, dmaxl_cons.
      change (depth (leaf (dec k))) with 0. lia.
Qed.

Theorem conc_from_tree_depth : forall t p, conc_from_tree t = Ok p -> depth (conc_to_tree p) <= depth t.
Proof.
  intros t p H. unfold PolTextModel.conc_from_tree in H. destruct (has_curly t); [discriminate|].
  destruct (crun [] (rpo None t)) as [st| |] eqn:E; try discriminate.
  destruct st as [|[w p'] [|? ?]]; try discriminate. inversion H; subst.
  pose proof (crun_rpo_depth t _ _ _ E) as K. cbn [cskip] in K. destruct K as [q [Eq Hd]]. inversion Eq; subst. exact Hd.
Qed.

(* ================================================================== text level *)
Hypothesis key_rt : forall k, parse_key (print_key k) = Some k.
Hypothesis hash_rt : forall h v, parse_hash h (print_hash h v) = Some v.
Hypothesis key_chars : forall k, forallb name_char (print_key k) = true.
Hypothesis hash_chars : forall h v, forallb name_char (print_hash h v) = true.

Lemma via_tree_depth : forall A (ft : etree -> outcome pol_err A) s m, via_tree ft s = Ok m ->
  exists t, ft t = Ok m /\ depth t <= MAX_RECURSION_DEPTH.
Proof.
  intros A ft s m H. unfold via_tree in H. destruct (from_str_inner s) as [nodes| |] eqn:E; try discriminate.
  destruct (tree_parse_print_lemma _ _ E) as (s1 & t & _ & _ & Hd & _ & En). subst nodes.
  rewrite tree_of_nodes_flatten in H. exists t. split; [|exact Hd]. destruct (ft t); try discriminate. inversion H. reflexivity.
Qed.

Theorem sem_text_fixpoint_unconditional : forall s p, sem_from_str parse_key parse_hash s = Ok p ->
  sem_from_str parse_key parse_hash (sem_to_text print_key print_hash p) = Ok p /\
  (forall q, sem_from_str parse_key parse_hash (sem_to_text print_key print_hash p) = Ok q ->
             sem_to_text print_key print_hash q = sem_to_text print_key print_hash p).
Proof.
  intros s p H. apply (sem_text_fixpoint print_key parse_key print_hash parse_hash key_rt hash_rt key_chars hash_chars s p H).
  destruct (via_tree_depth _ _ _ _ H) as [t [Ht Hd]]. pose proof (sem_from_tree_depth _ _ Ht). lia.
Qed.

Theorem conc_text_fixpoint_unconditional : forall s p, conc_from_str parse_key parse_hash s = Ok p ->
  conc_from_str parse_key parse_hash (conc_to_text print_key print_hash p) = Ok p /\
  (forall q, conc_from_str parse_key parse_hash (conc_to_text print_key print_hash p) = Ok q ->
             conc_to_text print_key print_hash q = conc_to_text print_key print_hash p).
Proof.
  intros s p H. apply (conc_text_fixpoint print_key parse_key print_hash parse_hash key_rt hash_rt key_chars hash_chars s p H).
  unfold PolTextModel.conc_from_str in H.
  destruct (conc_from_str_nocheck parse_key parse_hash s) as [p0| |] eqn:E0; try discriminate.
  destruct (check_timelocks (erase p0)); [|discriminate]. inversion H; subst p0.
  destruct (via_tree_depth _ _ _ _ E0) as [t [Ht Hd]]. pose proof (conc_from_tree_depth _ _ Ht). lia.
Qed.

End PolDepth.
