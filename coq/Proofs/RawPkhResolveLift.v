(* The main results of C01 / C02 / C17 and Theorem A for scripts WITH raw key hashes (decoded scripts),
   obtained from the existing theorems applied to `resolve (rs_pk re) m` and the resolution lemmas. *)
From Verif Require Import Exec Ser Ast Types TypeCheck SatSpec Sat ExecLemmas TheoremA SatProofs Spend
  CompleteProofs CompleteThresh CompleteNonMall PlanProofs LockNeedSuffice LockNeedMain RawPkhModel RawPkhResolve.
From Coq Require Import Lia.

(* What "the satisfier resolves the raw hashes of m correctly" means:
   - lookup_raw_pkh_pk knows every raw hash of m and returns a key that hashes to it,
   - lookup_raw_pkh_ecdsa_sig answers consistently (Some exactly when a signature of that key is held). *)
Definition rawpkh_ok (ke : keyenv) (se : senv) (re : rawenv) (m : ms) : Prop :=
  resolved_by se re m /\ hash_matches ke (rs_pk re) m.

Lemma rawpkh_ok_all_resolved ke se re m : rawpkh_ok ke se re m -> all_resolved (rs_pk re) m.
Proof. intros [H _] h Hh. exact (proj1 (H h Hh)). Qed.

(* Theorem A for the script of m: the table of the resolved script executes on enc ke m *)
Theorem theoremA_rawpkh (e : env) (ke : keyenv) (A : assets) (rs : bytes -> option key) :
  assets_ok e ke A -> (forall kbs, e_sigok e kbs [] = false) ->
  forall (m : ms) (t : ty), type_of m = ROk t -> wf e ke m -> all_resolved rs m -> hash_matches ke rs m ->
    good e ke A (resolve rs m) t /\ shape ke A (resolve rs m) t /\ enc ke (resolve rs m) = enc ke m.
Proof.
  intros HA Hse m t Ht Hwf Hall Hm.
  destruct (theoremA_closed e ke A HA Hse (resolve rs m) t) as [G S].
  - rewrite type_of_resolve. exact Ht.
  - apply wf_resolve. exact Hwf.
  - apply no_raw_resolve. exact Hall.
  - split; [exact G|]. split; [exact S|]. apply enc_resolve. exact Hm.
Qed.

(* C02 (table level): every table entry of the resolved script is accepted by the script of m *)
Theorem table_witness_spends_rawpkh (e : env) (ke : keyenv) (A : assets) (rs : bytes -> option key) :
  assets_ok e ke A -> (forall kbs, e_sigok e kbs [] = false) ->
  forall (m : ms) (t : ty), type_of m = ROk t -> c_base (t_corr t) = BB -> wf e ke m ->
    all_resolved rs m -> hash_matches ke rs m ->
    forall w, In w (all_sat ke A (resolve rs m)) -> accepts e (enc ke m) w = true.
Proof.
  intros HA Hse m t Ht Hb Hwf Hall Hm w Hin.
  rewrite <- (enc_resolve ke rs m Hm).
  apply (witness_script_accepts e ke A HA Hse (resolve rs m) t); auto.
  - rewrite type_of_resolve. exact Ht.
  - apply wf_resolve. exact Hwf.
  - apply no_raw_resolve. exact Hall.
Qed.

(* C01, miniscript level *)
Theorem rawpkh_satisfaction_spends (e : env) (ke : keyenv) (A : assets) (se : senv) (re : rawenv) (f : fill) :
  linked ke A se f -> (forall ks, length (ksort ke ks) = length ks) ->
  assets_ok e ke A -> (forall kbs, e_sigok e kbs [] = false) ->
  forall (mall rhs : bool) (m : ms) (t : ty),
    type_of m = ROk t -> c_base (t_corr t) = BB -> wf e ke m -> rawpkh_ok ke se re m ->
    forall bs, satisfy_r ke se re f mall rhs m = Some bs -> accepts e (enc ke m) (rev bs) = true.
Proof.
  intros HL Hks HA Hse mall rhs m t Ht Hb Hwf Hok bs Hsat.
  pose proof (rawpkh_ok_all_resolved ke se re m Hok) as Hall. destruct Hok as [Hres Hm].
  rewrite (satisfy_resolve ke se re f mall rhs m Hres) in Hsat.
  rewrite <- (enc_resolve ke (rs_pk re) m Hm).
  apply (model_satisfaction_spends e ke A se f HL Hks HA Hse mall rhs (resolve (rs_pk re) m) t); auto.
  - rewrite type_of_resolve. exact Ht.
  - apply wf_resolve. exact Hwf.
  - apply no_raw_resolve. exact Hall.
Qed.

(* C01, descriptor level (P2WSH): same side conditions as model_wsh_spends, on the script of m itself *)
Theorem rawpkh_wsh_spends (e : env) (ke : keyenv) (A : assets) (se : senv) (re : rawenv) (f : fill) :
  linked ke A se f -> (forall ks, length (ksort ke ks) = length ks) ->
  assets_ok (with_sv e SvWitnessV0) ke A -> (forall kbs, e_sigok e kbs [] = false) ->
  forall (mall rhs : bool) (m : ms) (t : ty),
    type_of m = ROk t -> c_base (t_corr t) = BB -> wf (with_sv e SvWitnessV0) ke m -> rawpkh_ok ke se re m ->
    forall bs, satisfy_r ke se re f mall rhs m = Some bs ->
    let sb := serialize (enc ke m) in
    parse_script sb = Some (enc ke m) ->
    (blen sb <= 3600)%N -> (N.of_nat (length bs) <= 100)%N -> forallb (fun it => N.leb (blen it) 80) (rev bs) = true ->
    (count_nonpush_ops (enc ke m) <= 201)%N ->
    verify_wsh e (e_sha256 e sb) (bs ++ [sb]) = true.
Proof.
  intros HL Hks HA Hse mall rhs m t Ht Hb Hwf Hok bs Hsat.
  pose proof (rawpkh_ok_all_resolved ke se re m Hok) as Hall. destruct Hok as [Hres Hm].
  rewrite (satisfy_resolve ke se re f mall rhs m Hres) in Hsat.
  rewrite <- (enc_resolve ke (rs_pk re) m Hm).
  apply (model_wsh_spends e ke A se f HL Hks HA Hse mall rhs (resolve (rs_pk re) m) t); auto.
  - rewrite type_of_resolve. exact Ht.
  - apply wf_resolve. exact Hwf.
  - apply no_raw_resolve. exact Hall.
Qed.

(* C02: completeness of the satisfier (model) on scripts with resolved raw key hashes. The side
   conditions of the original theorems are stated on the resolved script. *)
Theorem rawpkh_mall_satisfy_complete (ke : keyenv) (A : assets) (se : senv) (re : rawenv) (f : fill) :
  linked ke A se f -> locks_compatible se ->
  forall (rhs : bool) (m : ms), resolved_by se re m -> thresh_fit ke se rhs (resolve (rs_pk re) m) ->
    all_sat ke A (resolve (rs_pk re) m) <> [] -> exists bs, satisfy_r ke se re f true rhs m = Some bs.
Proof.
  intros HL Hlc rhs m Hres Hfit Hne. rewrite (satisfy_resolve ke se re f true rhs m Hres).
  exact (mall_satisfy_complete ke A se f HL Hlc rhs (resolve (rs_pk re) m) Hfit Hne).
Qed.

Theorem rawpkh_nonmall_satisfy_complete (ke : keyenv) (A : assets) (se : senv) (re : rawenv) (f : fill) :
  linked ke A se f -> locks_compatible se ->
  forall (m : ms) (t : ty), resolved_by se re m -> nm_wf se (resolve (rs_pk re) m) -> type_of m = ROk t ->
    m_nm (t_mall t) = true -> m_signed (t_mall t) = true ->
    all_sat ke A (resolve (rs_pk re) m) <> [] -> exists bs, satisfy_r ke se re f false (m_signed (t_mall t)) m = Some bs.
Proof.
  intros HL Hlc m t Hres Hwf Ht Hnm Hs Hne. rewrite (satisfy_resolve ke se re f false _ m Hres).
  apply (nonmall_satisfy_complete ke A se f HL Hlc (resolve (rs_pk re) m) t); auto.
  rewrite type_of_resolve. exact Ht.
Qed.

(* C17: the plan of a script with raw key hashes *)
Definition plan_template_r ke se re mall rhs m : option (list ph) :=
  match s_stack (snd (sat_dissat_r ke se re mall rhs m)) with WStack l => Some l | _ => None end.
Definition plan_abs_r ke se re mall rhs m : option N := s_abs (snd (sat_dissat_r ke se re mall rhs m)).
Definition plan_rel_r ke se re mall rhs m : option N := s_rel (snd (sat_dissat_r ke se re mall rhs m)).

Theorem rawpkh_plan_locks_exact (e : env) (ke : keyenv) (A : assets) (se : senv) (re : rawenv) (f : fill) :
  linked ke A se f -> (forall ks, length (ksort ke ks) = length ks) ->
  crypto_ok e ke A -> (forall kbs, e_sigok e kbs [] = false) ->
  forall (mall rhs : bool) (m : ms) (t : ty),
    type_of m = ROk t -> c_base (t_corr t) = BB -> wf e ke m -> rawpkh_ok ke se re m ->
    forall tpl bs, plan_template_r ke se re mall rhs m = Some tpl -> plan_complete f tpl = Some bs ->
      (accepts e (enc ke m) (rev bs) = true <-> lock_met e (plan_abs_r ke se re mall rhs m) (plan_rel_r ke se re mall rhs m)).
Proof.
  intros HL Hks HA Hse mall rhs m t Ht Hb Hwf Hok tpl bs Htpl Hc.
  pose proof (rawpkh_ok_all_resolved ke se re m Hok) as Hall. destruct Hok as [Hres Hm].
  unfold plan_template_r, plan_abs_r, plan_rel_r in *.
  rewrite (sat_dissat_resolve ke se re mall rhs m Hres) in *.
  rewrite <- (enc_resolve ke (rs_pk re) m Hm).
  assert (Ht' : type_of (resolve (rs_pk re) m) = ROk t) by (rewrite type_of_resolve; exact Ht).
  exact (plan_locks_exact e ke A se f HL Hks HA Hse mall rhs (resolve (rs_pk re) m) t Ht' Hb
           (wf_resolve ke (rs_pk re) e m Hwf) (no_raw_resolve (rs_pk re) m Hall) tpl bs Htpl Hc).
Qed.
