(* Frame soundness, part 3: the wrappers a: s: c: d: v: j: n: (every successful execution). *)
From Verif Require Import Exec Ser Ast Types TypeCheck SatSpec ExecLemmas Spec TypesSpec ScriptNumProofs TheoremA FrameBase.
From Coq Require Import Lia.

Section Wrap.
  Variable e : env.

  Lemma W_alt sx i u : invB e sx i u -> invW e ([IOp OP_TOALTSTACK] ++ sx ++ [IOp OP_FROMALTSTACK]) IAny u.
  Proof.
    intros IH. split; [reflexivity|]. intros st al r H.
    cbn [app] in H. rewrite exec_op_cons in H. cbn [exec_op stk alt] in H.
    destruct st as [|c0 st1]; [discriminate|]. cbn [bind] in H.
    apply exec_app_inv in H. destruct H as [r1 [H1 H2]].
    destruct (IH _ _ _ H1) as [c [rest [v [-> [-> [Hfr [_ [Hu _]]]]]]]].
    rewrite exec_single in H2. cbn [exec_instr exec_op stk alt] in H2. inversion H2; subst; clear H2.
    exists c0, c, rest, v, false. split; [reflexivity|]. split; [reflexivity|]. split; [|exact Hu].
    intros c0' rest' al'. cbn [app]. rewrite exec_op_cons. cbn [exec_op stk alt bind].
    rewrite exec_app, Hfr. cbn [bind]. rewrite exec_single. reflexivity.
  Qed.

  Lemma W_swap sx i u : invB e sx i u -> i = IOne \/ i = IOneNonZero -> invW e ([IOp OP_SWAP] ++ sx) IAny u.
  Proof.
    intros IH Hi. split; [reflexivity|]. intros st al r H.
    cbn [app] in H. rewrite exec_op_cons in H. cbn [exec_op stk alt] in H.
    destruct st as [|a [|b st2]]; try discriminate. cbn [bind] in H.
    destruct (IH _ _ _ H) as [c [rest [v [Hst [-> [Hfr [Hc [Hu _]]]]]]]].
    assert (Hl : length c = 1%nat) by (destruct Hi; subst i; exact Hc).
    destruct c as [|x [|y c']]; try discriminate. cbn [app] in Hst. inversion Hst; subst; clear Hst.
    exists a, [x], st2, v, true. split; [reflexivity|]. split; [reflexivity|]. split; [|exact Hu].
    intros c0' rest' al'. cbn [app]. rewrite exec_op_cons. cbn [exec_op stk alt bind].
    apply (Hfr (c0' :: rest') al').
  Qed.

  Lemma W_check sx i : invK e sx i -> invB e (sx ++ [IOp OP_CHECKSIG]) i true.
  Proof.
    intros IH st al r H. apply exec_app_inv in H. destruct H as [r1 [H1 H2]].
    destruct (IH _ _ _ H1) as [c [rest [k [-> [-> [Hfr [Hc Hn]]]]]]].
    rewrite exec_single in H2. cbn [exec_instr exec_op stk alt] in H2.
    destruct rest as [|sg rest2]; [discriminate|].
    destruct (e_keyok e k) eqn:Ek; cbn [negb] in H2; [|discriminate].
    assert (Hb : exists b, (b = true -> sg <> [] /\ e_sigok e k sg = true) /\ r = mkSt (bool_bytes b :: rest2) al /\
       forall X al', exec_op e OP_CHECKSIG (mkSt (k :: sg :: X) al') = Ok (mkSt (bool_bytes b :: X) al')).
    { destruct sg as [|b0 sg'].
      - exists false. split; [discriminate|]. split; [inversion H2; reflexivity|].
        intros; cbn [exec_op stk alt]; rewrite Ek; reflexivity.
      - destruct (e_sigok e k (b0 :: sg')) eqn:Eo; [|discriminate]. exists true.
        split; [intros _; split; [discriminate | reflexivity]|]. split; [inversion H2; reflexivity|].
        intros; cbn [exec_op stk alt]; rewrite Ek, ?Eo; reflexivity. }
    destruct Hb as [b [Hbt [-> Hop]]].
    exists (c ++ [sg]), rest2, (bool_bytes b).
    split; [rewrite <- app_assoc; reflexivity|]. split; [reflexivity|].
    split.
    { intros rest' al'. rewrite exec_app, <- app_assoc, Hfr. cbn [bind app]. rewrite exec_single. cbn [exec_instr]. apply Hop. }
    split; [rewrite app_length; cbn [length]; rewrite Nat.add_1_r; exact Hc|].
    split; [apply uval_bool|].
    intros Hnh Hi Ht. rewrite truthy_bool in Ht. destruct (Hbt Ht) as [Hne Hok].
    apply (top_ne_cut c sg rest2). apply Hn; auto. exists sg, rest2. auto.
  Qed.

  Lemma W_dupif sx : invV e sx IZero -> invB e [IOp OP_DUP; IIf false sx None] IOneNonZero false.
  Proof.
    intros IH st al r H. rewrite exec_op_cons in H. cbn [exec_op stk alt] in H.
    destruct st as [|v rest0]; [discriminate|]. cbn [bind] in H. rewrite exec_single in H.
    apply exec_if_inv in H. destruct H as [v' [rs [cnd [Hst [Hc H]]]]]. cbn [stk alt] in *.
    inversion Hst; subst v' rs; clear Hst.
    assert (Hres : r = mkSt (v :: rest0) al /\ fr e [IOp OP_DUP; IIf false sx None] [v] [v]).
    { destruct cnd; cbn [xorb] in H.
      - destruct (IH _ _ _ H) as [c [rest [Hs [-> [Hfr [Hcn _]]]]]]. cbn in Hcn.
        destruct c; [|discriminate]. cbn [app] in Hs. subst rest.
        split; [reflexivity|]. intros rest' al'. rewrite exec_op_cons. cbn [app exec_op stk alt bind].
        rewrite exec_single, exec_if. cbn [stk alt]. rewrite Hc. cbn [xorb]. apply (Hfr (v :: rest') al').
      - inversion H; subst. split; [reflexivity|]. intros rest' al'. rewrite exec_op_cons. cbn [app exec_op stk alt bind].
        rewrite exec_single, exec_if. cbn [stk alt]. rewrite Hc. reflexivity. }
    destruct Hres as [-> Hfr]. exists [v], rest0, v.
    split; [reflexivity|]. split; [reflexivity|]. split; [exact Hfr|].
    split; [reflexivity|]. split; [apply uval_false|]. intros _ _ Ht. cbn. apply truthy_nonempty, Ht.
  Qed.

  Lemma W_verify sx i u : invB e sx i u -> invV e (push_verify sx) i.
  Proof.
    intros IH st al r H. rewrite push_verify_exec in H. apply bind_ok_inv in H. destruct H as [r1 [H1 H2]].
    destruct (IH _ _ _ H1) as [c [rest [v [-> [-> [Hfr [Hc [_ Hn]]]]]]]].
    cbn [exec_op stk alt] in H2. destruct (truthy v) eqn:Ht; [|discriminate]. inversion H2; subst; clear H2.
    exists c, rest. split; [reflexivity|]. split; [reflexivity|].
    split. { intros rest' al'. rewrite push_verify_exec, Hfr. cbn [bind exec_op stk alt app]. rewrite Ht. reflexivity. }
    split; [exact Hc|]. intros Hnh Hi. apply Hn; auto.
  Qed.

  Lemma W_nonzero sx i u : invB e sx i u -> isn i = true ->
    invB e [IOp OP_SIZE; IOp OP_0NOTEQUAL; IIf false sx None] i u.
  Proof.
    intros IH Hi st al r H. rewrite exec_op_cons in H. cbn [exec_op stk alt] in H.
    destruct st as [|a rest0]; [discriminate|]. cbn [bind] in H.
    rewrite exec_op_cons in H. cbn [exec_op stk alt] in H.
    destruct (num_operand 4 (num_encode (Z.of_N (blen a)))) as [n|] eqn:En; [|discriminate]. cbn [bind] in H.
    rewrite exec_single in H. apply exec_if_inv in H. destruct H as [v' [rs [cnd [Hst [Hc H]]]]]. cbn [stk alt] in *.
    inversion Hst; subst v' rs; clear Hst. rewrite if_cond_bool in Hc. inversion Hc; subst cnd; clear Hc.
    assert (Hpre : forall X al', exec e [IOp OP_SIZE; IOp OP_0NOTEQUAL; IIf false sx None] (mkSt (a :: X) al')
              = if negb (n =? 0)%Z then exec e sx (mkSt (a :: X) al') else Ok (mkSt (a :: X) al')).
    { intros X al'. rewrite exec_op_cons. cbn [exec_op stk alt bind]. rewrite exec_op_cons. cbn [exec_op stk alt].
      rewrite En. cbn [bind]. rewrite exec_single, exec_if. cbn [stk alt]. rewrite if_cond_bool.
      destruct (negb (n =? 0)%Z); reflexivity. }
    destruct (negb (n =? 0)%Z) eqn:Eb; cbn [xorb] in H.
    - destruct (IH _ _ _ H) as [c [rest [v [Hs [-> [Hfr [Hcn [Hu Hn]]]]]]]].
      assert (Hc' : exists c', c = a :: c').
      { destruct c as [|x c']; [exfalso; destruct i; cbn in Hi, Hcn; try discriminate; lia|].
        cbn [app] in Hs. inversion Hs. eauto. }
      destruct Hc' as [c' ->]. cbn [app] in Hs. inversion Hs; subst rest0.
      exists (a :: c'), rest, v. split; [reflexivity|]. split; [reflexivity|].
      split. { intros rest' al'. cbn [app]. rewrite Hpre. apply Hfr. }
      auto.
    - inversion H; subst; clear H.
      assert (Ha : a = []).
      { apply size_zero_empty. rewrite En. f_equal. apply Bool.negb_false_iff, Z.eqb_eq in Eb. exact Eb. }
      subst a. exists [[]], rest0, [].
      split; [reflexivity|]. split; [reflexivity|].
      split. { intros rest' al'. cbn [app]. rewrite Hpre. reflexivity. }
      split. { destruct i; cbn in Hi |- *; try discriminate; lia. }
      split; [intros _; discriminate | intros _ _; discriminate].
  Qed.

  Lemma W_zne sx i u : invB e sx i u -> invB e (sx ++ [IOp OP_0NOTEQUAL]) i true.
  Proof.
    intros IH st al r H. apply exec_app_inv in H. destruct H as [r1 [H1 H2]].
    destruct (IH _ _ _ H1) as [c [rest [v [-> [-> [Hfr [Hc [_ Hn]]]]]]]].
    rewrite exec_single in H2. cbn [exec_instr exec_op stk alt] in H2.
    destruct (num_operand 4 v) as [n|] eqn:En; [|discriminate]. inversion H2; subst; clear H2.
    exists c, rest, (bool_bytes (negb (n =? 0)%Z)).
    split; [reflexivity|]. split; [reflexivity|].
    split. { intros rest' al'. rewrite exec_app, Hfr. cbn [bind app]. rewrite exec_single.
             cbn [exec_instr exec_op stk alt]. rewrite En. reflexivity. }
    split; [exact Hc|]. split; [apply uval_bool|].
    intros Hnh Hi Ht. rewrite truthy_bool in Ht. apply Hn; auto. rewrite (num_truthy_iff 4 v n En). exact Ht.
  Qed.
End Wrap.
