(* Proofs about the miniscript text layer model (Ms/MsTextModel.v): printing then parsing gives the
   AST back (for every AST the parser's own checks accept), parsing then printing reaches a fixed
   point, sugar and aliases mean their expansions. *)
From Coq Require Import List Bool NArith Lia.
From Verif Require Import MsTextModel.
Import ListNotations.
Local Open Scope N_scope.

(* ------------------------------------------------------------------ induction over the nested AST *)
Section MsIndT.
  Variable P : ms -> Prop.
  Hypothesis HTrue : P MTrue. Hypothesis HFalse : P MFalse.
  Hypothesis HPkK : forall k, P (MPkK k). Hypothesis HPkH : forall k, P (MPkH k).
  Hypothesis HRaw : forall h, P (MRawPkH h).
  Hypothesis HAfter : forall t, P (MAfter t). Hypothesis HOlder : forall t, P (MOlder t).
  Hypothesis HSha : forall h, P (MSha256 h). Hypothesis HH256 : forall h, P (MHash256 h).
  Hypothesis HRip : forall h, P (MRipemd160 h). Hypothesis HH160 : forall h, P (MHash160 h).
  Hypothesis HAlt : forall x, P x -> P (MAlt x). Hypothesis HSwap : forall x, P x -> P (MSwap x).
  Hypothesis HCheck : forall x, P x -> P (MCheck x). Hypothesis HDupIf : forall x, P x -> P (MDupIf x).
  Hypothesis HVerify : forall x, P x -> P (MVerify x). Hypothesis HNonZero : forall x, P x -> P (MNonZero x).
  Hypothesis HZne : forall x, P x -> P (MZeroNotEqual x).
  Hypothesis HAndV : forall x y, P x -> P y -> P (MAndV x y).
  Hypothesis HAndB : forall x y, P x -> P y -> P (MAndB x y).
  Hypothesis HAndOr : forall a b c, P a -> P b -> P c -> P (MAndOr a b c).
  Hypothesis HOrB : forall x y, P x -> P y -> P (MOrB x y).
  Hypothesis HOrD : forall x y, P x -> P y -> P (MOrD x y).
  Hypothesis HOrC : forall x y, P x -> P y -> P (MOrC x y).
  Hypothesis HOrI : forall x y, P x -> P y -> P (MOrI x y).
  Hypothesis HThresh : forall k xs, Forall P xs -> P (MThresh k xs).
  Hypothesis HMulti : forall k ks, P (MMulti k ks). Hypothesis HSMulti : forall k ks, P (MSortedMulti k ks).
  Hypothesis HMultiA : forall k ks, P (MMultiA k ks). Hypothesis HSMultiA : forall k ks, P (MSortedMultiA k ks).
  Fixpoint mst_ind (m : ms) : P m :=
    match m with
    | MTrue => HTrue | MFalse => HFalse | MPkK k => HPkK k | MPkH k => HPkH k | MRawPkH h => HRaw h
    | MAfter t => HAfter t | MOlder t => HOlder t
    | MSha256 h => HSha h | MHash256 h => HH256 h | MRipemd160 h => HRip h | MHash160 h => HH160 h
    | MAlt x => HAlt x (mst_ind x) | MSwap x => HSwap x (mst_ind x) | MCheck x => HCheck x (mst_ind x)
    | MDupIf x => HDupIf x (mst_ind x) | MVerify x => HVerify x (mst_ind x)
    | MNonZero x => HNonZero x (mst_ind x) | MZeroNotEqual x => HZne x (mst_ind x)
    | MAndV x y => HAndV x y (mst_ind x) (mst_ind y) | MAndB x y => HAndB x y (mst_ind x) (mst_ind y)
    | MAndOr a b c => HAndOr a b c (mst_ind a) (mst_ind b) (mst_ind c)
    | MOrB x y => HOrB x y (mst_ind x) (mst_ind y) | MOrD x y => HOrD x y (mst_ind x) (mst_ind y)
    | MOrC x y => HOrC x y (mst_ind x) (mst_ind y) | MOrI x y => HOrI x y (mst_ind x) (mst_ind y)
    | MThresh k xs =>
      HThresh k xs ((fix go (l : list ms) : Forall P l :=
                       match l with [] => Forall_nil P | x :: r => Forall_cons x (mst_ind x) (go r) end) xs)
    | MMulti k ks => HMulti k ks | MSortedMulti k ks => HSMulti k ks
    | MMultiA k ks => HMultiA k ks | MSortedMultiA k ks => HSMultiA k ks
    end.
End MsIndT.

(* ------------------------------------------------------------------ decimal numbers *)
Lemma ten_nz : 10 <> 0. Proof. discriminate. Qed.
Ltac dm n :=
  pose proof (N.div_mod n 10 ten_nz) as Hdm; pose proof (N.mod_lt n 10 ten_nz) as Hm;
  set (q := n / 10) in *; set (r := n mod 10) in *; clearbody q r.

Lemma is_digit_d : forall n, is_digit (48 + n mod 10) = true.
Proof.
  intros n. unfold is_digit. dm n.
  apply andb_true_intro. split; apply N.leb_le; lia.
Qed.

Lemma dval_dec_aux : forall f n acc, n < 10 ^ N.of_nat f ->
  dval (dec_aux f n acc) 0 = dval acc n.
Proof.
  induction f as [|f IH]; intros n acc Hn.
  - cbn in Hn. assert (n = 0) by lia. subst. reflexivity.
  - cbn [dec_aux]. rewrite Nat2N.inj_succ, N.pow_succ_r' in Hn.
    set (p := 10 ^ N.of_nat f) in *.
    destruct (n / 10 =? 0) eqn:E.
    + apply N.eqb_eq in E. cbn [dval]. rewrite is_digit_d.
      replace (0 * 10 + (48 + n mod 10 - 48)) with n; [reflexivity|].
      dm n. lia.
    + apply N.eqb_neq in E. rewrite IH.
      * cbn [dval]. rewrite is_digit_d.
        replace (n / 10 * 10 + (48 + n mod 10 - 48)) with n; [reflexivity|].
        dm n. lia.
      * fold p. clearbody p. dm n. lia.
Qed.

Lemma dec_aux_head : forall f n acc, 0 < n -> n < 10 ^ N.of_nat f ->
  exists c r, dec_aux f n acc = c :: r /\ 49 <= c /\ c <= 57.
Proof.
  induction f as [|f IH]; intros n acc Hp Hn.
  - cbn in Hn. lia.
  - cbn [dec_aux]. rewrite Nat2N.inj_succ, N.pow_succ_r' in Hn.
    set (p := 10 ^ N.of_nat f) in *.
    destruct (n / 10 =? 0) eqn:E.
    + apply N.eqb_eq in E. exists (48 + n mod 10), acc. split; [reflexivity|].
      dm n. lia.
    + apply N.eqb_neq in E. apply IH.
      * dm n. lia.
      * fold p. clearbody p. dm n. lia.
Qed.

Lemma dec_fuel : forall n, 0 < n -> n < 10 ^ N.of_nat (S (N.to_nat (N.log2 n))).
Proof.
  intros n Hp. rewrite Nat2N.inj_succ, N2Nat.id.
  destruct (N.log2_spec n Hp) as [_ H2].
  eapply N.lt_le_trans; [exact H2|]. apply N.pow_le_mono_l. lia.
Qed.

Lemma parse_num_dec : forall n, n <= U32_MAX -> parse_num (dec n) = Ok n.
Proof.
  intros n Hn. destruct (N.eq_dec n 0) as [->|Hz]; [reflexivity|].
  assert (Hp : 0 < n) by lia. unfold dec.
  destruct (dec_aux_head _ n [] Hp (dec_fuel n Hp)) as [c [r [E [H1 H2]]]].
  pose proof (dval_dec_aux _ n [] (dec_fuel n Hp)) as Hv. rewrite E in *.
  unfold parse_num.
  assert (Ht : tb_eqb (c :: r) n_0 = false).
  { cbn. destruct (c =? 48) eqn:Ec; [apply N.eqb_eq in Ec; lia | reflexivity]. }
  rewrite Ht.
  replace ((49 <=? c) && (c <=? 57)) with true
    by (symmetry; apply andb_true_intro; split; apply N.leb_le; lia).
  unfold u32_from_str. rewrite Hv. cbn [dval].
  replace (n <=? U32_MAX) with true by (symmetry; apply N.leb_le; lia). reflexivity.
Qed.

Lemma dval_dec : forall n, dval (dec n) 0 = Some n.
Proof.
  intros n. destruct (N.eq_dec n 0) as [->|Hz]; [reflexivity|].
  unfold dec. rewrite dval_dec_aux; [reflexivity|]. apply dec_fuel. lia.
Qed.

Global Opaque dec.

(* ------------------------------------------------------------------ names *)
Definition nocolon (s : tbytes) : bool := forallb (fun c => negb (c =? COLON)) s.

Lemma split_colon_nocolon : forall s, nocolon s = true -> split_colon s = (s, None).
Proof.
  induction s as [|c r IH]; intros H; [reflexivity|].
  cbn in H. apply andb_prop in H. destruct H as [Hc Hr]. cbn [split_colon].
  destruct (c =? COLON); [discriminate|]. rewrite (IH Hr). reflexivity.
Qed.

Lemma split_colon_app : forall a b, nocolon a = true -> split_colon (a ++ COLON :: b) = (a, Some b).
Proof.
  induction a as [|c r IH]; intros b H.
  - reflexivity.
  - cbn in H. apply andb_prop in H. destruct H as [Hc Hr]. cbn [split_colon app].
    destruct (c =? COLON); [discriminate|]. rewrite (IH b Hr). reflexivity.
Qed.

Lemma ns_full : forall pre name, nocolon pre = true -> nocolon name = true ->
  name_separated (full_name pre name) = Ok (match pre with [] => None | _ => Some pre end, name).
Proof.
  intros pre name Hp Hn. unfold name_separated, full_name. destruct pre as [|c r].
  - rewrite (split_colon_nocolon _ Hn). reflexivity.
  - rewrite (split_colon_app _ name Hp). rewrite (split_colon_nocolon _ Hn). reflexivity.
Qed.

Lemma nocolon_app : forall a b, nocolon (a ++ b) = nocolon a && nocolon b.
Proof. intros. unfold nocolon. apply forallb_app. Qed.

Section TextProofs.
Variable print_key : key -> tbytes.
Variable parse_key : tbytes -> option key.
Variable print_hash : hkind -> tbytes -> tbytes.
Variable parse_hash : hkind -> tbytes -> option tbytes.
Variable chk : ms -> bool.
Hypothesis key_rt : forall k, parse_key (print_key k) = Some k.
Hypothesis hash_rt : forall h b, parse_hash h (print_hash h b) = Some b.

Notation tw := (tw print_key print_hash).
Notation to_tree := (to_tree print_key print_hash).
Notation rpo := (rpo).
Notation run := (run parse_key parse_hash chk).
Notation step := (step parse_key parse_hash chk).
Notation parse_frag := (parse_frag parse_key parse_hash chk).
Notation apply_wrappers := (apply_wrappers chk).
Notation from_tree := (from_tree parse_key parse_hash chk).
Notation ms_text_ok := (ms_text_ok chk).
Notation from_ast := (from_ast chk).

Fixpoint rpo_list (pn : tbytes) (n : nat) (ks : list etree) (first : bool) : list item :=
  match ks with
  | [] => []
  | k :: r => rpo_list pn n r false ++ rpo (Some (pn, n, first)) k
  end.

Lemma rpo_eq : forall parent name p kids,
  rpo parent (ENode name p kids) = rpo_list name (length kids) kids true ++ [mkItem name p kids parent].
Proof.
  intros. cbn [rpo]. f_equal.
  generalize (length kids) as n. generalize true as first.
  induction kids as [|k r IH]; intros first n; [reflexivity|].
  cbn [rpo_list]. rewrite <- IH. reflexivity.
Qed.

Lemma run_app : forall a b st, run st (a ++ b) = obind (run st a) (fun s => run s b).
Proof.
  induction a as [|x a IH]; intros b st; [reflexivity|].
  cbn [app MsTextModel.run]. destruct (step st x); cbn [obind]; auto.
Qed.

Definition noskip (parent : option (tbytes * nat * bool)) : Prop :=
  match parent with
  | None => True
  | Some (pname, pn, first) =>
    pn <> 1%nat /\ exists w nm, name_separated pname = Ok (w, nm) /\ is_multi_name nm = false /\
                                (tb_eqb nm n_thresh && first) = false
  end.

Lemma skip_noskip : forall name p kids parent, noskip parent ->
  skip_item (mkItem name p kids parent) = Ok false.
Proof.
  intros name p kids parent H. unfold skip_item. cbn [it_parent it_kids].
  destruct parent as [[[pname pn] first]|]; [|reflexivity].
  destruct kids; [|reflexivity].
  destruct H as [H1 [w [nm [H2 [H3 H4]]]]].
  destruct (Nat.eqb pn 1) eqn:E; [apply PeanoNat.Nat.eqb_eq in E; contradiction|].
  rewrite H2. cbn [obind]. rewrite H3, H4. reflexivity.
Qed.

Lemma noskip_child : forall pre name n first, nocolon pre = true -> nocolon name = true ->
  n <> 1%nat -> is_multi_name name = false -> (tb_eqb name n_thresh && first) = false ->
  noskip (Some (full_name pre name, n, first)).
Proof.
  intros. cbn. split; [assumption|]. eexists. eexists. split; [apply ns_full; assumption|]. split; assumption.
Qed.

(* the node itself, once its children have been processed *)
Lemma step_node : forall pre name p kids parent st f new st1,
  noskip parent -> nocolon pre = true -> nocolon name = true ->
  frag_of_name name = Some f -> parse_frag f kids st = Ok (new, st1) ->
  step st (mkItem (full_name pre name) p kids parent) =
  obind (apply_wrappers (rev pre) new) (fun m => Ok (m :: st1)).
Proof.
  intros pre name p kids parent st f new st1 Hs Hp Hn Hf Hpf. unfold MsTextModel.step.
  rewrite (skip_noskip _ _ _ _ Hs). cbn [obind it_name it_kids].
  rewrite (ns_full _ _ Hp Hn). cbn [obind]. rewrite Hf, Hpf. cbn [obind].
  destruct pre as [|c r]; [reflexivity|]. reflexivity.
Qed.

Lemma Forall_ok : forall (ok : ms -> bool) (P : ms -> Prop) xs,
  Forall (fun x => ok x = true -> P x) xs -> forallb ok xs = true -> Forall P xs.
Proof.
  intros ok P xs H. induction H as [|x r Hx HF IH]; intros Hb; [constructor|].
  cbn [forallb] in Hb. apply andb_prop in Hb. destruct Hb as [H1 H2]. constructor; auto.
Qed.

Lemma validate_le : forall max k n, validate_k_n max k n = true -> k <= N.of_nat n.
Proof.
  intros max k n H. unfold validate_k_n in H. apply negb_true_iff in H.
  apply orb_false_iff in H. destruct H as [H _]. apply orb_false_iff in H. destruct H as [_ H].
  apply N.ltb_ge in H. exact H.
Qed.

Lemma validate_pos : forall max k n, validate_k_n max k n = true -> k <> 0.
Proof.
  intros max k n H. unfold validate_k_n in H. apply negb_true_iff in H.
  apply orb_false_iff in H. destruct H as [H _]. apply orb_false_iff in H. destruct H as [H _].
  apply N.eqb_neq in H. exact H.
Qed.

Lemma validate_max : forall max k n, max <> 0 -> validate_k_n max k n = true -> N.of_nat n <= max.
Proof.
  intros max k n Hm H. unfold validate_k_n in H. apply negb_true_iff in H.
  apply orb_false_iff in H. destruct H as [_ H].
  destruct (max =? 0) eqn:E; [apply N.eqb_eq in E; contradiction|]. cbn in H.
  apply N.ltb_ge in H. exact H.
Qed.

Ltac tok := match goal with H : ms_text_ok _ = true |- _ =>
  cbn [MsTextModel.ms_text_ok] in H end;
  repeat match goal with H : (_ && _) = true |- _ => apply andb_prop in H; destruct H end;
  try match goal with H : chk _ = true |- _ => rename H into Hchk end;
  try match goal with H : lock_ok _ = true |- _ => rename H into Hlock end;
  try match goal with H : validate_k_n _ _ _ = true |- _ => rename H into Hval end;
  try match goal with H : (_ <=? U32_MAX) = true |- _ => rename H into Hkle end;
  try match goal with H : forallb _ _ = true |- _ => rename H into Hall end.

Lemma check_ok : forall x, ms_text_ok (MCheck x) = true ->
  (forall k, x <> MPkK k) -> (forall k, x <> MPkH k) -> chk (MCheck x) = true /\ ms_text_ok x = true.
Proof.
  intros x H H1 H2.
  destruct x; try (exfalso; eapply H1; reflexivity); try (exfalso; eapply H2; reflexivity);
    cbn [MsTextModel.ms_text_ok] in H; apply andb_prop in H; destruct H as [Ha Hb];
    (split; [exact Ha | cbn [MsTextModel.ms_text_ok]; exact Hb]).
Qed.

Section Generic.
Variable pw : ms -> tbytes * (tbytes * list etree).

Definition Pbody (m : ms) : Prop :=
  forall pre parent st, nocolon pre = true -> noskip parent ->
    run st (rpo parent (mk_node (pre ++ fst (pw m), snd (pw m)))) =
    obind (apply_wrappers (rev pre) m) (fun m' => Ok (m' :: st)).

Lemma Pbody_plain : forall m parent st, Pbody m -> noskip parent ->
  run st (rpo parent (mk_node (pw m))) = Ok (m :: st).
Proof.
  intros m parent st H Hs. specialize (H [] parent st eq_refl Hs).
  cbn [app rev MsTextModel.apply_wrappers obind] in H.
  destruct (pw m) as [w b]. exact H.
Qed.

Lemma P_wrap : forall c x m',
  pw m' = wrap c (pw x) -> wrap_term c x = Ok m' -> (c =? COLON) = false -> chk m' = true ->
  Pbody x -> Pbody m'.
Proof.
  intros c x m' Ht Hw Hc Hk IH pre parent st Hp Hs.
  rewrite Ht. unfold wrap. cbn [fst snd].
  replace (pre ++ c :: fst (pw x)) with ((pre ++ [c]) ++ fst (pw x)) by (rewrite <- app_assoc; reflexivity).
  rewrite IH; [| rewrite nocolon_app, Hp; cbn; rewrite Hc; reflexivity | assumption].
  rewrite rev_app_distr. cbn [rev app MsTextModel.apply_wrappers].
  rewrite Hw. cbn [obind]. unfold MsTextModel.from_ast. rewrite Hk. cbn [obind]. reflexivity.
Qed.

Lemma P_node : forall m name kids f,
  pw m = ([], (name, kids)) -> nocolon name = true -> frag_of_name name = Some f ->
  (forall pre st, nocolon pre = true ->
     exists st', run st (rpo_list (full_name pre name) (length kids) kids true) = Ok st' /\
                 parse_frag f kids st' = Ok (m, st)) ->
  Pbody m.
Proof.
  intros m name kids f Ht Hn Hf Hk pre parent st Hp Hs.
  rewrite Ht. cbn [fst snd]. rewrite app_nil_r. unfold mk_node.
  rewrite rpo_eq, run_app.
  destruct (Hk pre st Hp) as [st' [H1 H2]]. rewrite H1. cbn [obind MsTextModel.run].
  rewrite (step_node pre name _ kids parent st' f m st Hs Hp Hn Hf H2).
  destruct (apply_wrappers (rev pre) m); reflexivity.
Qed.

(* a leaf that the loop skips *)
Lemma run_leaf_skipped : forall st s parent,
  skip_item (mkItem s PNone [] parent) = Ok true -> run st (rpo parent (leaf s)) = Ok st.
Proof.
  intros st s parent H. unfold leaf. cbn [MsTextModel.rpo app MsTextModel.run]. unfold MsTextModel.step.
  rewrite H. reflexivity.
Qed.

Lemma skip_only_child : forall s pn first, skip_item (mkItem s PNone [] (Some (pn, 1%nat, first))) = Ok true.
Proof. reflexivity. Qed.

Lemma skip_multi_child : forall s pre name n first, nocolon pre = true -> nocolon name = true ->
  is_multi_name name = true -> skip_item (mkItem s PNone [] (Some (full_name pre name, n, first))) = Ok true.
Proof.
  intros. unfold skip_item. cbn [it_parent it_kids]. destruct (Nat.eqb n 1); [reflexivity|].
  rewrite ns_full by assumption. cbn [obind]. rewrite H1. reflexivity.
Qed.

Lemma skip_thresh_k : forall s pre n, nocolon pre = true ->
  skip_item (mkItem s PNone [] (Some (full_name pre n_thresh, n, true))) = Ok true.
Proof.
  intros. unfold skip_item. cbn [it_parent it_kids]. destruct (Nat.eqb n 1); [reflexivity|].
  rewrite ns_full by (assumption || reflexivity). reflexivity.
Qed.

(* one-leaf fragments: pk_k(K), after(n), sha256(h), ... *)
Lemma kids_one_leaf : forall pn s st, run st (rpo_list pn 1 [leaf s] true) = Ok st.
Proof.
  intros. cbn [rpo_list app]. apply run_leaf_skipped. apply skip_only_child.
Qed.

Lemma run_key_leaves : forall pre name n st ks first, nocolon pre = true -> nocolon name = true ->
  is_multi_name name = true ->
  run st (rpo_list (full_name pre name) n (map (fun k => leaf (print_key k)) ks) first) = Ok st.
Proof.
  intros pre name n st ks first Hp Hn Hm. revert first. induction ks as [|k r IH]; intros first; [reflexivity|].
  cbn [map rpo_list]. rewrite run_app, IH. cbn [obind].
  apply run_leaf_skipped. apply skip_multi_child; assumption.
Qed.

Lemma map_o_keys : forall ks,
  map_o (verify_terminal parse_key) (map (fun k => leaf (print_key k)) ks) = Ok ks.
Proof.
  induction ks as [|k r IH]; [reflexivity|].
  cbn [map map_o]. unfold verify_terminal at 1. cbn [leaf n_kids t_name length].
  rewrite key_rt. cbn [obind]. rewrite IH. reflexivity.
Qed.

Lemma pop_n_app : forall xs st, pop_n (length xs) (xs ++ st) = Ok (xs, st).
Proof.
  induction xs as [|x r IH]; intros st; [reflexivity|].
  cbn [length app pop_n pop obind]. rewrite IH. reflexivity.
Qed.

Lemma P_multi : forall m name f max (mk : N -> list key -> ms) k ks,
  pw m = ([], (name, leaf (dec k) :: map (fun k => leaf (print_key k)) ks)) ->
  nocolon name = true -> frag_of_name name = Some f -> is_multi_name name = true ->
  (forall kids st, parse_frag f kids st = multi_frag parse_key chk max mk kids st) ->
  m = mk k ks -> chk m = true -> validate_k_n max k (length ks) = true -> k <= U32_MAX ->
  Pbody m.
Proof.
  intros m name f max mk k ks Ht Hn Hf Hm Hpf Em Hc Hv Hk.
  eapply P_node; [exact Ht | exact Hn | exact Hf |].
  intros pre st Hp. exists st. split.
  - cbn [rpo_list]. rewrite run_app. cbn [length].
    rewrite run_key_leaves by assumption. cbn [obind].
    apply run_leaf_skipped. apply skip_multi_child; assumption.
  - rewrite Hpf. unfold multi_frag, verify_threshold. cbn [leaf n_kids t_name length].
    rewrite (parse_num_dec k Hk). rewrite map_length, Hv. cbn [obind].
    rewrite map_o_keys. cbn [obind]. unfold MsTextModel.from_ast. rewrite <- Em, Hc. reflexivity.
Qed.

Lemma child_run2 : forall pre name x y st,
  nocolon pre = true -> nocolon name = true -> is_multi_name name = false -> tb_eqb name n_thresh = false ->
  Pbody x -> Pbody y ->
  run st (rpo_list (full_name pre name) 2 [mk_node (pw x); mk_node (pw y)] true) = Ok (x :: y :: st).
Proof.
  intros pre name x y st Hp Hn Hm Ht Px Py. cbn [rpo_list app]. rewrite run_app.
  rewrite (Pbody_plain y _ st Py) by (apply noskip_child; auto; rewrite Ht; reflexivity).
  cbn [obind]. apply Pbody_plain; [exact Px|]. apply noskip_child; auto. rewrite Ht; reflexivity.
Qed.

Lemma child_run3 : forall pre name a b c st,
  nocolon pre = true -> nocolon name = true -> is_multi_name name = false -> tb_eqb name n_thresh = false ->
  Pbody a -> Pbody b -> Pbody c ->
  run st (rpo_list (full_name pre name) 3 [mk_node (pw a); mk_node (pw b); mk_node (pw c)] true) = Ok (a :: b :: c :: st).
Proof.
  intros pre name a b c st Hp Hn Hm Ht Pa Pb Pc. cbn [rpo_list app]. rewrite !run_app.
  rewrite (Pbody_plain c _ st Pc) by (apply noskip_child; auto; rewrite Ht; reflexivity).
  cbn [obind].
  rewrite (Pbody_plain b _ _ Pb) by (apply noskip_child; auto; rewrite Ht; reflexivity).
  cbn [obind]. apply Pbody_plain; [exact Pa|]. apply noskip_child; auto. rewrite Ht; reflexivity.
Qed.

Lemma P_binary : forall m name f (mk : ms -> ms -> ms) x y,
  pw m = ([], (name, [mk_node (pw x); mk_node (pw y)])) ->
  nocolon name = true -> frag_of_name name = Some f -> is_multi_name name = false -> tb_eqb name n_thresh = false ->
  (forall kids st, parse_frag f kids st = binary_frag chk mk kids st) ->
  m = mk x y -> chk m = true -> Pbody x -> Pbody y -> Pbody m.
Proof.
  intros m name f mk x y Ht Hn Hf Hm Hth Hpf Em Hc Px Py.
  eapply P_node; [exact Ht | exact Hn | exact Hf |].
  intros pre st Hp. exists (x :: y :: st). split.
  - apply child_run2; assumption.
  - rewrite Hpf. unfold binary_frag. cbn [pop obind]. unfold MsTextModel.from_ast. rewrite <- Em, Hc. reflexivity.
Qed.

Lemma child_run_list : forall pre name n xs st,
  nocolon pre = true -> nocolon name = true -> is_multi_name name = false -> n <> 1%nat ->
  Forall Pbody xs ->
  run st (rpo_list (full_name pre name) n (map (fun x => mk_node (pw x)) xs) false) = Ok (xs ++ st).
Proof.
  intros pre name n xs st Hp Hn Hm Hn1 HF. revert st. induction HF as [|x r Hx HF IH]; intros st; [reflexivity|].
  cbn [map rpo_list]. rewrite run_app, IH. cbn [obind app].
  apply Pbody_plain; [exact Hx|]. apply noskip_child; auto. apply andb_false_r.
Qed.

End Generic.

Theorem tw_parse : forall m, ms_text_ok m = true -> Pbody tw m.
Proof.
  induction m using mst_ind; intros Hok.
  - (* 1 *) eapply (P_node tw _ n_1 [] FTrue); try reflexivity. intros pre st Hp. exists st. split; reflexivity.
  - eapply (P_node tw _ n_0 [] FFalse); try reflexivity. intros pre st Hp. exists st. split; reflexivity.
  - (* pk_k *) eapply (P_node tw _ n_pk_k _ FPkK); try reflexivity. intros pre st Hp. exists st. split; [apply kids_one_leaf|].
    cbn. unfold key_frag, verify_terminal_parent, verify_terminal. cbn. rewrite key_rt. reflexivity.
  - eapply (P_node tw _ n_pk_h _ FPkH); try reflexivity. intros pre st Hp. exists st. split; [apply kids_one_leaf|].
    cbn. unfold key_frag, verify_terminal_parent, verify_terminal. cbn. rewrite key_rt. reflexivity.
  - eapply (P_node tw _ n_expr_raw_pkh _ FRawPkh); try reflexivity. intros pre st Hp. exists st. split; [apply kids_one_leaf|].
    cbn. unfold hash_frag, verify_terminal_parent, verify_terminal. cbn. rewrite hash_rt. reflexivity.
  - (* after *) tok. eapply (P_node tw _ n_after _ FAfter); try reflexivity. intros pre st Hp. exists st. split; [apply kids_one_leaf|].
    cbn [MsTextModel.parse_frag]. unfold verify_lock. cbn [leaf n_kids t_name length].
    assert (t <= U32_MAX) by (pose proof Hlock as H; unfold lock_ok in H; apply andb_prop in H; destruct H as [_ H]; apply N.leb_le in H; unfold U32_MAX; lia).
    rewrite parse_num_dec by assumption. rewrite Hlock. reflexivity.
  - tok. eapply (P_node tw _ n_older _ FOlder); try reflexivity. intros pre st Hp. exists st. split; [apply kids_one_leaf|].
    cbn [MsTextModel.parse_frag]. unfold verify_lock. cbn [leaf n_kids t_name length].
    assert (t <= U32_MAX) by (pose proof Hlock as H; unfold lock_ok in H; apply andb_prop in H; destruct H as [_ H]; apply N.leb_le in H; unfold U32_MAX; lia).
    rewrite parse_num_dec by assumption. rewrite Hlock. reflexivity.
  - eapply (P_node tw _ n_sha256 _ (FHash HSha256)); try reflexivity. intros pre st Hp. exists st. split; [apply kids_one_leaf|].
    cbn. unfold hash_frag, verify_terminal_parent, verify_terminal. cbn. rewrite hash_rt. reflexivity.
  - eapply (P_node tw _ n_hash256 _ (FHash HHash256)); try reflexivity. intros pre st Hp. exists st. split; [apply kids_one_leaf|].
    cbn. unfold hash_frag, verify_terminal_parent, verify_terminal. cbn. rewrite hash_rt. reflexivity.
  - eapply (P_node tw _ n_ripemd160 _ (FHash HRipemd160)); try reflexivity. intros pre st Hp. exists st. split; [apply kids_one_leaf|].
    cbn. unfold hash_frag, verify_terminal_parent, verify_terminal. cbn. rewrite hash_rt. reflexivity.
  - eapply (P_node tw _ n_hash160 _ (FHash HHash160)); try reflexivity. intros pre st Hp. exists st. split; [apply kids_one_leaf|].
    cbn. unfold hash_frag, verify_terminal_parent, verify_terminal. cbn. rewrite hash_rt. reflexivity.
  - (* a *) tok. eapply (P_wrap tw ch_a m); try reflexivity; auto.
  - tok. eapply (P_wrap tw ch_s m); try reflexivity; auto.
  - (* c *) destruct m;
      try (apply check_ok in Hok; [| intros ?; discriminate | intros ?; discriminate];
           destruct Hok as [Hc Hx];
           eapply (P_wrap tw ch_c); [reflexivity | reflexivity | reflexivity | exact Hc | apply IHm; exact Hx]).
    + eapply (P_node tw _ n_pk _ FPk); try reflexivity. intros pre st Hp. exists st. split; [apply kids_one_leaf|].
      cbn. unfold key_frag, verify_terminal_parent, verify_terminal. cbn. rewrite key_rt. reflexivity.
    + eapply (P_node tw _ n_pkh _ FPkh); try reflexivity. intros pre st Hp. exists st. split; [apply kids_one_leaf|].
      cbn. unfold key_frag, verify_terminal_parent, verify_terminal. cbn. rewrite key_rt. reflexivity.
  - tok. eapply (P_wrap tw ch_d m); try reflexivity; auto.
  - tok. eapply (P_wrap tw ch_v m); try reflexivity; auto.
  - tok. eapply (P_wrap tw ch_j m); try reflexivity; auto.
  - tok. eapply (P_wrap tw ch_n m); try reflexivity; auto.
  - (* and_v *) tok. destruct (is_true m2) eqn:Et.
    + destruct m2; try discriminate. eapply (P_wrap tw ch_t m1); try reflexivity; auto.
    + eapply (P_binary tw _ n_and_v FAndV MAndV m1 m2); try reflexivity; auto.
      cbn [MsTextModel.tw]. rewrite Et. reflexivity.
  - tok. eapply (P_binary tw _ n_and_b FAndB MAndB m1 m2); try reflexivity; auto.
  - (* andor *) tok. destruct (is_false m3) eqn:Ef.
    + destruct m3; try discriminate.
      eapply (P_binary tw _ n_and_n FAndN (fun x y => MAndOr x y MFalse) m1 m2); try reflexivity; auto.
    + eapply (P_node tw _ n_andor [to_tree m1; to_tree m2; to_tree m3] FAndOr); try reflexivity.
      * cbn [MsTextModel.tw]. rewrite Ef. reflexivity.
      * intros pre st Hp. exists (m1 :: m2 :: m3 :: st). split.
        -- apply (child_run3 tw); auto.
        -- cbn [MsTextModel.parse_frag pop obind]. unfold MsTextModel.from_ast. rewrite Hchk. reflexivity.
  - tok. eapply (P_binary tw _ n_or_b FOrB MOrB m1 m2); try reflexivity; auto.
  - tok. eapply (P_binary tw _ n_or_d FOrD MOrD m1 m2); try reflexivity; auto.
  - tok. eapply (P_binary tw _ n_or_c FOrC MOrC m1 m2); try reflexivity; auto.
  - (* or_i *) tok. destruct (is_false m2) eqn:E2.
    + destruct m2; try discriminate. destruct (is_false m1) eqn:E1.
      * destruct m1; try discriminate. eapply (P_wrap tw ch_u MFalse); try reflexivity; auto.
      * eapply (P_wrap tw ch_u m1); try reflexivity; auto. cbn [MsTextModel.tw is_false]. rewrite E1. reflexivity.
    + destruct (is_false m1) eqn:E1.
      * destruct m1; try discriminate. eapply (P_wrap tw ch_l m2); try reflexivity; auto.
        cbn [MsTextModel.tw]. rewrite E2. reflexivity.
      * eapply (P_binary tw _ n_or_i FOrI MOrI m1 m2); try reflexivity; auto.
        cbn [MsTextModel.tw]. rewrite E2, E1. reflexivity.
  - (* thresh *) tok.
    eapply (P_node tw _ n_thresh (leaf (dec k) :: map (fun x => mk_node (tw x)) xs) FThresh); try reflexivity.
    intros pre st Hp. exists (xs ++ st). split.
    + cbn [rpo_list]. rewrite run_app.
      assert (Hn1 : length (leaf (dec k) :: map (fun x => mk_node (tw x)) xs) <> 1%nat).
      { cbn [length]. rewrite map_length. pose proof (validate_le _ _ _ Hval) as Hle.
        pose proof (validate_pos _ _ _ Hval) as Hnz. destruct xs; [cbn in Hle; lia | cbn [length]; lia]. }
      rewrite (child_run_list tw pre n_thresh _ xs st Hp eq_refl eq_refl Hn1 (Forall_ok _ _ _ H Hall)). cbn [obind].
      apply run_leaf_skipped. apply skip_thresh_k. exact Hp.
    + cbn [MsTextModel.parse_frag]. unfold verify_threshold. cbn [leaf n_kids t_name length].
      apply N.leb_le in Hkle. rewrite (parse_num_dec k Hkle). rewrite map_length, Hval. cbn [obind].
      rewrite ?map_length. rewrite pop_n_app. cbn [obind]. unfold MsTextModel.from_ast. rewrite Hchk. reflexivity.
  - (* multi *) tok.
    eapply (P_multi tw _ n_multi FMulti MAX_PUBKEYS_PER_MULTISIG MMulti k ks); try reflexivity; auto.
    apply validate_le in Hval as H1. apply validate_max in Hval as H2; [|discriminate].
    unfold MAX_PUBKEYS_PER_MULTISIG, U32_MAX in *. lia.
  - tok.
    eapply (P_multi tw _ n_sortedmulti FSortedMulti MAX_PUBKEYS_PER_MULTISIG MSortedMulti k ks); try reflexivity; auto.
    apply validate_le in Hval as H1. apply validate_max in Hval as H2; [|discriminate].
    unfold MAX_PUBKEYS_PER_MULTISIG, U32_MAX in *. lia.
  - tok.
    eapply (P_multi tw _ n_multi_a FMultiA MAX_PUBKEYS_IN_CHECKSIGADD MMultiA k ks); try reflexivity; auto.
    apply validate_le in Hval as H1. apply validate_max in Hval as H2; [|discriminate].
    unfold MAX_PUBKEYS_IN_CHECKSIGADD, U32_MAX in *. lia.
  - tok.
    eapply (P_multi tw _ n_sortedmulti_a FSortedMultiA MAX_PUBKEYS_IN_CHECKSIGADD MSortedMultiA k ks); try reflexivity; auto.
    apply validate_le in Hval as H1. apply validate_max in Hval as H2; [|discriminate].
    unfold MAX_PUBKEYS_IN_CHECKSIGADD, U32_MAX in *. lia.
Qed.

(* ---- no curly braces in printed trees *)
Lemma hc_mk : forall wb, has_curly (mk_node wb) = existsb has_curly (snd (snd wb)).
Proof. intros [w [name kids]]. cbn. destruct kids; reflexivity. Qed.

Lemma hc_keys : forall ks, existsb has_curly (map (fun k => leaf (print_key k)) ks) = false.
Proof. induction ks as [|k r IH]; [reflexivity|]. cbn. exact IH. Qed.

Ltac fin :=
  cbn [MsTextModel.tw] in *;
  repeat match goal with |- context [if ?b then _ else _] => destruct b end;
  unfold wrap in *; cbn [fst snd existsb leaf MsTextModel.has_curly orb map] in *;
  rewrite ?hc_mk, ?hc_keys;
  repeat match goal with H : context [has_curly (mk_node _)] |- _ => rewrite hc_mk in H end;
  try assumption;
  repeat match goal with H : existsb _ _ = false |- _ => rewrite H end; try reflexivity.

Lemma hc_tw : forall m, existsb has_curly (snd (snd (tw m))) = false.
Proof.
  induction m using mst_ind; try (fin; fail).
  - destruct m; fin.
  - fin. induction H as [|x r Hx HF IH]; [reflexivity|].
    cbn [map existsb]. rewrite hc_mk, Hx. exact IH.
Qed.

Theorem print_parse : forall m, ms_text_ok m = true -> from_tree (to_tree m) = Ok m.
Proof.
  intros m Hok. unfold MsTextModel.from_tree.
  unfold MsTextModel.to_tree. rewrite hc_mk, hc_tw.
  rewrite (Pbody_plain tw m None [] (tw_parse m Hok) I). reflexivity.
Qed.

(* ------------------------------------------------------------------ what the parser returns is valid *)
Definition okm (m : ms) : Prop := ms_text_ok m = true.

Lemma parse_num_le : forall s n, parse_num s = Ok n -> n <= U32_MAX.
Proof.
  intros s n H. unfold parse_num in H. destruct (tb_eqb s n_0).
  - inversion H. unfold U32_MAX. lia.
  - assert (Hu : u32_from_str s = Ok n -> n <= U32_MAX).
    { unfold u32_from_str. destruct s; [discriminate|]. destruct (dval (n0 :: s) 0); [|discriminate].
      destruct (n1 <=? U32_MAX) eqn:E; [|discriminate]. intros X. inversion X. subst. apply N.leb_le. exact E. }
    destruct s; [apply Hu; exact H|]. destruct ((49 <=? n0) && (n0 <=? 57)); [apply Hu; exact H | discriminate].
Qed.

Lemma from_ast_ok : forall m m', from_ast m = Ok m' -> m' = m /\ chk m = true.
Proof. intros m m' H. unfold MsTextModel.from_ast in H. destruct (chk m); [inversion H; auto | discriminate]. Qed.

Lemma pop_n_spec : forall n st l r, pop_n n st = Ok (l, r) -> st = l ++ r /\ length l = n.
Proof.
  induction n as [|n IH]; intros st l r H.
  - cbn in H. inversion H. auto.
  - cbn [pop_n] in H. destruct st as [|m st]; [discriminate|]. cbn [pop obind] in H.
    destruct (pop_n n st) as [[l' r']| |] eqn:E; cbn [obind] in H; try discriminate.
    inversion H; subst. destruct (IH _ _ _ E) as [-> <-]. auto.
Qed.

Lemma map_o_len : forall A B (f : A -> outcome ms_err B) l bs, map_o f l = Ok bs -> length bs = length l.
Proof.
  induction l as [|a l IH]; intros bs H.
  - inversion H. reflexivity.
  - cbn [map_o] in H. destruct (f a); cbn [obind] in H; try discriminate.
    destruct (map_o f l); cbn [obind] in H; try discriminate. inversion H. cbn. f_equal. apply IH. reflexivity.
Qed.

Lemma vth_spec : forall max kids k rest, verify_threshold max kids = Ok (k, rest) ->
  validate_k_n max k (length rest) = true /\ k <= U32_MAX.
Proof.
  intros max kids k rest H. unfold verify_threshold in H. destruct kids as [|kc r]; [discriminate|].
  destruct (n_kids kc); [|discriminate]. destruct (parse_num (t_name kc)) eqn:E; try discriminate.
  destruct (validate_k_n max a (length r)) eqn:V; [|discriminate]. inversion H; subst.
  split; [exact V | eapply parse_num_le; exact E].
Qed.

Lemma vlock_spec : forall bad kids n, verify_lock bad kids = Ok n -> lock_ok n = true.
Proof.
  intros bad kids n H. unfold verify_lock in H. destruct kids as [|c [|? ?]]; try discriminate.
  destruct (n_kids c); [|discriminate]. destruct (parse_num (t_name c)); try discriminate.
  destruct (lock_ok a) eqn:E; [|discriminate]. inversion H; subst. exact E.
Qed.

Lemma binary_ok : forall (mk : ms -> ms -> ms) kids st new st1,
  (forall x y, chk (mk x y) = true -> okm x -> okm y -> okm (mk x y)) ->
  binary_frag chk mk kids st = Ok (new, st1) -> Forall okm st -> okm new /\ Forall okm st1.
Proof.
  intros mk kids st new st1 Hmk H HF. unfold binary_frag in H.
  destruct kids as [|? [|? [|? ?]]]; try discriminate.
  destruct st as [|x [|y st]]; try discriminate. cbn [pop obind] in H.
  destruct (from_ast (mk x y)) eqn:E; cbn [obind] in H; try discriminate.
  inversion H; subst. apply from_ast_ok in E. destruct E as [-> Hc].
  inversion HF as [|? ? Hx HF1]; subst. inversion HF1 as [|? ? Hy HF2]; subst. split; auto.
Qed.

Lemma multi_ok : forall max (mk : N -> list key -> ms) kids st new st1,
  (forall k ks, chk (mk k ks) = true -> validate_k_n max k (length ks) = true -> okm (mk k ks)) ->
  multi_frag parse_key chk max mk kids st = Ok (new, st1) -> Forall okm st -> okm new /\ Forall okm st1.
Proof.
  intros max mk kids st new st1 Hmk H HF. unfold multi_frag in H.
  destruct (verify_threshold max kids) as [[k rest]| |] eqn:E; cbn [obind] in H; try discriminate.
  destruct (map_o (verify_terminal parse_key) rest) as [ks| |] eqn:E2; cbn [obind] in H; try discriminate.
  destruct (from_ast (mk k ks)) eqn:E3; cbn [obind] in H; try discriminate.
  inversion H; subst. apply from_ast_ok in E3. destruct E3 as [-> Hc].
  apply vth_spec in E. destruct E as [Hv _]. apply map_o_len in E2. rewrite <- E2 in Hv. split; auto.
Qed.

Lemma okm_bin : forall (c : ms -> ms -> ms) x y,
  (forall a b, ms_text_ok (c a b) = chk (c a b) && (ms_text_ok a && ms_text_ok b)) ->
  chk (c x y) = true -> okm x -> okm y -> okm (c x y).
Proof. intros c x y E Hc Hx Hy. unfold okm in *. rewrite E, Hc, Hx, Hy. reflexivity. Qed.

Lemma parse_frag_ok : forall f kids st new st1,
  parse_frag f kids st = Ok (new, st1) -> Forall okm st -> okm new /\ Forall okm st1.
Proof.
  intros f kids st new st1 H HF.
  destruct f as [| | | | | | |h| | | | | | | | | | | | | | |]; cbn [MsTextModel.parse_frag] in H;
    try (destruct h);
    try (unfold hash_frag, key_frag in H;
         match type of H with obind ?o _ = _ => destruct o; cbn [obind] in H; try discriminate end;
         inversion H; subst; split; [reflexivity | assumption]);
    try (eapply binary_ok; [|exact H|exact HF]; intros; apply okm_bin; auto; fail).
  - (* after *) destruct (verify_lock EAbsLock kids) eqn:E; cbn [obind] in H; try discriminate.
    inversion H; subst. split; [|assumption]. apply vlock_spec in E. exact E.
  - destruct (verify_lock ERelLock kids) eqn:E; cbn [obind] in H; try discriminate.
    inversion H; subst. split; [|assumption]. apply vlock_spec in E. exact E.
  - destruct kids; [|discriminate]. inversion H; subst. split; [reflexivity|assumption].
  - destruct kids; [|discriminate]. inversion H; subst. split; [reflexivity|assumption].
  - (* and_n *) eapply binary_ok; [|exact H|exact HF]. intros x y Hc Hx Hy. unfold okm in *.
    cbn [MsTextModel.ms_text_ok]. rewrite Hc, Hx, Hy. reflexivity.
  - (* andor *) destruct kids as [|? [|? [|? [|? ?]]]]; try discriminate.
    destruct st as [|a [|b [|c st]]]; try discriminate. cbn [pop obind] in H.
    destruct (from_ast (MAndOr a b c)) eqn:E; cbn [obind] in H; try discriminate.
    inversion H; subst. apply from_ast_ok in E. destruct E as [-> Hc].
    inversion HF as [|? ? Ha HF1]; subst. inversion HF1 as [|? ? Hb HF2]; subst. inversion HF2 as [|? ? Hcc HF3]; subst.
    split; [|assumption]. unfold okm in *. cbn [MsTextModel.ms_text_ok]. rewrite Hc, Ha, Hb, Hcc. reflexivity.
  - (* thresh *) destruct (verify_threshold 0 kids) as [[k rest]| |] eqn:E; cbn [obind] in H; try discriminate.
    destruct (pop_n (length rest) st) as [[subs st2]| |] eqn:E2; cbn [obind] in H; try discriminate.
    destruct (from_ast (MThresh k subs)) eqn:E3; cbn [obind] in H; try discriminate.
    inversion H; subst. apply from_ast_ok in E3. destruct E3 as [-> Hc].
    apply vth_spec in E. destruct E as [Hv Hk]. apply pop_n_spec in E2. destruct E2 as [-> Hl].
    apply Forall_app in HF. destruct HF as [Hs Hr]. split; [|assumption].
    unfold okm. cbn [MsTextModel.ms_text_ok]. rewrite Hc, Hl, Hv. cbn [andb].
    replace (k <=? U32_MAX) with true by (symmetry; apply N.leb_le; exact Hk). cbn [andb].
    apply forallb_forall. intros x Hx. rewrite Forall_forall in Hs. apply Hs. exact Hx.
  - eapply multi_ok; [|exact H|exact HF]. intros k ks Hc Hv. unfold okm. cbn [MsTextModel.ms_text_ok]. rewrite Hc, Hv. reflexivity.
  - eapply multi_ok; [|exact H|exact HF]. intros k ks Hc Hv. unfold okm. cbn [MsTextModel.ms_text_ok]. rewrite Hc, Hv. reflexivity.
  - eapply multi_ok; [|exact H|exact HF]. intros k ks Hc Hv. unfold okm. cbn [MsTextModel.ms_text_ok]. rewrite Hc, Hv. reflexivity.
  - eapply multi_ok; [|exact H|exact HF]. intros k ks Hc Hv. unfold okm. cbn [MsTextModel.ms_text_ok]. rewrite Hc, Hv. reflexivity.
Qed.

Lemma wrap_ok : forall c m t, wrap_term c m = Ok t -> chk t = true -> okm m -> okm t.
Proof.
  intros c m t H Hc Hm. unfold wrap_term in H. unfold okm in *.
  repeat match type of H with (if ?b then _ else _) = _ => destruct b end;
    try discriminate; inversion H; subst; cbn [MsTextModel.ms_text_ok]; rewrite ?Hc, ?Hm; try reflexivity.
  (* c: *) destruct m; cbn [MsTextModel.ms_text_ok] in *; rewrite ?Hc, ?Hm; reflexivity.
Qed.

Lemma apply_wrappers_ok : forall w m m', apply_wrappers w m = Ok m' -> okm m -> okm m'.
Proof.
  induction w as [|c w IH]; intros m m' H Hm.
  - inversion H; subst. exact Hm.
  - cbn [MsTextModel.apply_wrappers] in H. destruct (wrap_term c m) eqn:E; cbn [obind] in H; try discriminate.
    destruct (from_ast a) eqn:E2; cbn [obind] in H; try discriminate.
    apply from_ast_ok in E2. destruct E2 as [-> Hc]. eapply IH; [exact H|]. eapply wrap_ok; eauto.
Qed.

Lemma step_ok : forall st it st', step st it = Ok st' -> Forall okm st -> Forall okm st'.
Proof.
  intros st it st' H HF. unfold MsTextModel.step in H.
  destruct (skip_item it) as [sk| |]; cbn [obind] in H; try discriminate.
  destruct sk; [inversion H; subst; exact HF|].
  destruct (name_separated (it_name it)) as [[fw fname]| |]; cbn [obind] in H; try discriminate.
  destruct (frag_of_name fname) as [f|]; [|discriminate].
  destruct (parse_frag f (it_kids it) st) as [[new st1]| |] eqn:E; cbn [obind] in H; try discriminate.
  destruct (parse_frag_ok _ _ _ _ _ E HF) as [Hn Hs].
  destruct fw as [w|]; [|inversion H; subst; constructor; assumption].
  destruct w as [|c w]; [discriminate|].
  destruct (apply_wrappers (rev (c :: w)) new) eqn:E2; cbn [obind] in H; try discriminate.
  inversion H; subst. constructor; [|assumption]. eapply apply_wrappers_ok; eauto.
Qed.

Lemma run_ok : forall items st st', run st items = Ok st' -> Forall okm st -> Forall okm st'.
Proof.
  induction items as [|it r IH]; intros st st' H HF.
  - inversion H; subst. exact HF.
  - cbn [MsTextModel.run] in H. destruct (step st it) eqn:E; cbn [obind] in H; try discriminate.
    eapply IH; [exact H|]. eapply step_ok; eauto.
Qed.

Theorem parse_valid : forall t m, from_tree t = Ok m -> ms_text_ok m = true.
Proof.
  intros t m H. unfold MsTextModel.from_tree in H. destruct (has_curly t); [discriminate|].
  destruct (run [] (rpo None t)) as [st| |] eqn:E; try discriminate.
  destruct st as [|m' [|? ?]]; try discriminate. inversion H; subst.
  apply run_ok in E; [|constructor]. inversion E; assumption.
Qed.

(* parsing lands on a fixed point of print-then-parse: the printed form of whatever was parsed
   parses to the same AST (and therefore prints identically again) *)
Theorem print_fixpoint : forall t m, from_tree t = Ok m ->
  from_tree (to_tree m) = Ok m /\
  (forall m', from_tree (to_tree m) = Ok m' -> to_tree m' = to_tree m).
Proof.
  intros t m H. pose proof (print_parse m (parse_valid t m H)) as Hp. split; [exact Hp|].
  intros m' H'. rewrite Hp in H'. inversion H'. reflexivity.
Qed.

(* ------------------------------------------------------------------ every spelling means the same AST *)
Notation ms_all_ok := (ms_all_ok chk).
Notation tws := (tws print_key print_hash).

Ltac tok2 := match goal with H : ms_all_ok _ = true |- _ =>
  cbn [MsTextModel.ms_all_ok] in H end;
  repeat match goal with H : (_ && _) = true |- _ => apply andb_prop in H; destruct H end;
  try match goal with H : chk _ = true |- _ => rename H into Hchk end;
  try match goal with H : lock_ok _ = true |- _ => rename H into Hlock end;
  try match goal with H : validate_k_n _ _ _ = true |- _ => rename H into Hval end;
  try match goal with H : (_ <=? U32_MAX) = true |- _ => rename H into Hkle end;
  try match goal with H : forallb _ _ = true |- _ => rename H into Hall end.

Ltac leaf_key := intros pre st Hp; exists st; split; [apply kids_one_leaf|];
  cbn; unfold key_frag, verify_terminal_parent, verify_terminal; cbn; rewrite key_rt; reflexivity.
Ltac leaf_hash := intros pre st Hp; exists st; split; [apply kids_one_leaf|];
  cbn; unfold hash_frag, verify_terminal_parent, verify_terminal; cbn; rewrite hash_rt; reflexivity.

Theorem tws_parse : forall sp m, ms_all_ok m = true -> Pbody (tws sp) m.
Proof.
  intros sp. induction m using mst_ind; intros Hok.
  - eapply (P_node (tws sp) _ n_1 [] FTrue); try reflexivity. intros pre st Hp. exists st. split; reflexivity.
  - eapply (P_node (tws sp) _ n_0 [] FFalse); try reflexivity. intros pre st Hp. exists st. split; reflexivity.
  - eapply (P_node (tws sp) _ n_pk_k _ FPkK); try reflexivity. leaf_key.
  - eapply (P_node (tws sp) _ n_pk_h _ FPkH); try reflexivity. leaf_key.
  - eapply (P_node (tws sp) _ n_expr_raw_pkh _ FRawPkh); try reflexivity. leaf_hash.
  - tok2. eapply (P_node (tws sp) _ n_after _ FAfter); try reflexivity. intros pre st Hp. exists st. split; [apply kids_one_leaf|].
    cbn [MsTextModel.parse_frag]. unfold verify_lock. cbn [leaf n_kids t_name length].
    assert (t <= U32_MAX) by (pose proof Hlock as H; unfold lock_ok in H; apply andb_prop in H; destruct H as [_ H]; apply N.leb_le in H; unfold U32_MAX; lia).
    rewrite parse_num_dec by assumption. rewrite Hlock. reflexivity.
  - tok2. eapply (P_node (tws sp) _ n_older _ FOlder); try reflexivity. intros pre st Hp. exists st. split; [apply kids_one_leaf|].
    cbn [MsTextModel.parse_frag]. unfold verify_lock. cbn [leaf n_kids t_name length].
    assert (t <= U32_MAX) by (pose proof Hlock as H; unfold lock_ok in H; apply andb_prop in H; destruct H as [_ H]; apply N.leb_le in H; unfold U32_MAX; lia).
    rewrite parse_num_dec by assumption. rewrite Hlock. reflexivity.
  - eapply (P_node (tws sp) _ n_sha256 _ (FHash HSha256)); try reflexivity. leaf_hash.
  - eapply (P_node (tws sp) _ n_hash256 _ (FHash HHash256)); try reflexivity. leaf_hash.
  - eapply (P_node (tws sp) _ n_ripemd160 _ (FHash HRipemd160)); try reflexivity. leaf_hash.
  - eapply (P_node (tws sp) _ n_hash160 _ (FHash HHash160)); try reflexivity. leaf_hash.
  - tok2. eapply (P_wrap (tws sp) ch_a m); try reflexivity; auto.
  - tok2. eapply (P_wrap (tws sp) ch_s m); try reflexivity; auto.
  - (* c *) tok2. match goal with H : ms_all_ok m = true |- _ => specialize (IHm H) end.
    destruct m; try (eapply (P_wrap (tws sp) ch_c); [reflexivity | reflexivity | reflexivity | assumption | assumption]).
    + destruct (sp (MCheck (MPkK k))) eqn:Es.
      * eapply (P_node (tws sp) _ n_pk _ FPk); try reflexivity; [cbn [MsTextModel.tws]; rewrite Es; reflexivity|]. leaf_key.
      * eapply (P_wrap (tws sp) ch_c (MPkK k)); try reflexivity; auto. cbn [MsTextModel.tws]. rewrite Es. reflexivity.
    + destruct (sp (MCheck (MPkH k))) eqn:Es.
      * eapply (P_node (tws sp) _ n_pkh _ FPkh); try reflexivity; [cbn [MsTextModel.tws]; rewrite Es; reflexivity|]. leaf_key.
      * eapply (P_wrap (tws sp) ch_c (MPkH k)); try reflexivity; auto. cbn [MsTextModel.tws]. rewrite Es. reflexivity.
  - tok2. eapply (P_wrap (tws sp) ch_d m); try reflexivity; auto.
  - tok2. eapply (P_wrap (tws sp) ch_v m); try reflexivity; auto.
  - tok2. eapply (P_wrap (tws sp) ch_j m); try reflexivity; auto.
  - tok2. eapply (P_wrap (tws sp) ch_n m); try reflexivity; auto.
  - (* and_v *) tok2. destruct (is_true m2 && sp (MAndV m1 m2)) eqn:Et.
    + apply andb_prop in Et. destruct Et as [E1 E2]. destruct m2; try discriminate.
      eapply (P_wrap (tws sp) ch_t m1); try reflexivity; auto.
      cbn [MsTextModel.tws is_true andb]. rewrite E2. reflexivity.
    + eapply (P_binary (tws sp) _ n_and_v FAndV MAndV m1 m2); try reflexivity; auto.
      cbn [MsTextModel.tws]. rewrite Et. reflexivity.
  - tok2. eapply (P_binary (tws sp) _ n_and_b FAndB MAndB m1 m2); try reflexivity; auto.
  - (* andor *) tok2. destruct (is_false m3 && sp (MAndOr m1 m2 m3)) eqn:Ef.
    + apply andb_prop in Ef. destruct Ef as [E1 E2]. destruct m3; try discriminate.
      eapply (P_binary (tws sp) _ n_and_n FAndN (fun x y => MAndOr x y MFalse) m1 m2); try reflexivity; auto.
      cbn [MsTextModel.tws is_false andb]. rewrite E2. reflexivity.
    + eapply (P_node (tws sp) _ n_andor [mk_node (tws sp m1); mk_node (tws sp m2); mk_node (tws sp m3)] FAndOr); try reflexivity.
      * cbn [MsTextModel.tws]. rewrite Ef. reflexivity.
      * intros pre st Hp. exists (m1 :: m2 :: m3 :: st). split.
        -- apply (child_run3 (tws sp)); auto.
        -- cbn [MsTextModel.parse_frag pop obind]. unfold MsTextModel.from_ast. rewrite Hchk. reflexivity.
  - tok2. eapply (P_binary (tws sp) _ n_or_b FOrB MOrB m1 m2); try reflexivity; auto.
  - tok2. eapply (P_binary (tws sp) _ n_or_d FOrD MOrD m1 m2); try reflexivity; auto.
  - tok2. eapply (P_binary (tws sp) _ n_or_c FOrC MOrC m1 m2); try reflexivity; auto.
  - (* or_i *) tok2. destruct (sp (MOrI m1 m2)) eqn:Es.
    + destruct (is_false m2) eqn:E2.
      * destruct m2; try discriminate. destruct (is_false m1) eqn:E1.
        -- destruct m1; try discriminate. eapply (P_wrap (tws sp) ch_u MFalse); try reflexivity; auto.
           cbn [MsTextModel.tws is_false]. rewrite Es. reflexivity.
        -- eapply (P_wrap (tws sp) ch_u m1); try reflexivity; auto. cbn [MsTextModel.tws is_false]. rewrite Es, E1. reflexivity.
      * destruct (is_false m1) eqn:E1.
        -- destruct m1; try discriminate. eapply (P_wrap (tws sp) ch_l m2); try reflexivity; auto.
           cbn [MsTextModel.tws is_false]. rewrite Es, E2. reflexivity.
        -- eapply (P_binary (tws sp) _ n_or_i FOrI MOrI m1 m2); try reflexivity; auto.
           cbn [MsTextModel.tws]. rewrite Es, E2, E1. reflexivity.
    + eapply (P_binary (tws sp) _ n_or_i FOrI MOrI m1 m2); try reflexivity; auto.
      cbn [MsTextModel.tws]. rewrite Es. reflexivity.
  - (* thresh *) tok2.
    eapply (P_node (tws sp) _ n_thresh (leaf (dec k) :: map (fun x => mk_node (tws sp x)) xs) FThresh); try reflexivity.
    intros pre st Hp. exists (xs ++ st). split.
    + cbn [rpo_list]. rewrite run_app.
      assert (Hn1 : length (leaf (dec k) :: map (fun x => mk_node (tws sp x)) xs) <> 1%nat).
      { cbn [length]. rewrite map_length. pose proof (validate_le _ _ _ Hval) as Hle.
        pose proof (validate_pos _ _ _ Hval) as Hnz. destruct xs; [cbn in Hle; lia | cbn [length]; lia]. }
      rewrite (child_run_list (tws sp) pre n_thresh _ xs st Hp eq_refl eq_refl Hn1 (Forall_ok _ _ _ H Hall)). cbn [obind].
      apply run_leaf_skipped. apply skip_thresh_k. exact Hp.
    + cbn [MsTextModel.parse_frag]. unfold verify_threshold. cbn [leaf n_kids t_name length].
      apply N.leb_le in Hkle. rewrite (parse_num_dec k Hkle). rewrite map_length, Hval. cbn [obind].
      rewrite ?map_length. rewrite pop_n_app. cbn [obind]. unfold MsTextModel.from_ast. rewrite Hchk. reflexivity.
  - tok2.
    eapply (P_multi (tws sp) _ n_multi FMulti MAX_PUBKEYS_PER_MULTISIG MMulti k ks); try reflexivity; auto.
    apply validate_le in Hval as H1. apply validate_max in Hval as H2; [|discriminate].
    unfold MAX_PUBKEYS_PER_MULTISIG, U32_MAX in *. lia.
  - tok2.
    eapply (P_multi (tws sp) _ n_sortedmulti FSortedMulti MAX_PUBKEYS_PER_MULTISIG MSortedMulti k ks); try reflexivity; auto.
    apply validate_le in Hval as H1. apply validate_max in Hval as H2; [|discriminate].
    unfold MAX_PUBKEYS_PER_MULTISIG, U32_MAX in *. lia.
  - tok2.
    eapply (P_multi (tws sp) _ n_multi_a FMultiA MAX_PUBKEYS_IN_CHECKSIGADD MMultiA k ks); try reflexivity; auto.
    apply validate_le in Hval as H1. apply validate_max in Hval as H2; [|discriminate].
    unfold MAX_PUBKEYS_IN_CHECKSIGADD, U32_MAX in *. lia.
  - tok2.
    eapply (P_multi (tws sp) _ n_sortedmulti_a FSortedMultiA MAX_PUBKEYS_IN_CHECKSIGADD MSortedMultiA k ks); try reflexivity; auto.
    apply validate_le in Hval as H1. apply validate_max in Hval as H2; [|discriminate].
    unfold MAX_PUBKEYS_IN_CHECKSIGADD, U32_MAX in *. lia.
Qed.

Ltac fin2 :=
  cbn [MsTextModel.tws] in *;
  repeat match goal with |- context [if ?b then _ else _] => destruct b end;
  unfold wrap in *; cbn [fst snd existsb leaf MsTextModel.has_curly orb map] in *;
  rewrite ?hc_mk, ?hc_keys;
  repeat match goal with H : context [has_curly (mk_node _)] |- _ => rewrite hc_mk in H end;
  try assumption;
  repeat match goal with H : existsb _ _ = false |- _ => rewrite H end; try reflexivity.

Lemma hc_tws : forall sp m, existsb has_curly (snd (snd (tws sp m))) = false.
Proof.
  intros sp. induction m using mst_ind; try (fin2; fail).
  - destruct m; fin2.
  - fin2. induction H as [|x r Hx HF IH]; [reflexivity|].
    cbn [map existsb]. rewrite hc_mk, Hx. exact IH.
Qed.

(* sugar and aliases mean their expansions: whichever spelling is chosen at each node that has two,
   the tree parses to the same AST *)
Theorem alias_meaning : forall sp m, ms_all_ok m = true ->
  from_tree (to_tree_sp print_key print_hash sp m) = Ok m.
Proof.
  intros sp m Hok. unfold MsTextModel.from_tree, to_tree_sp.
  rewrite hc_mk, hc_tws.
  rewrite (Pbody_plain (tws sp) m None [] (tws_parse sp m Hok) I). reflexivity.
Qed.

End TextProofs.
