(* General soundness of the satisfier model with the real RawPkH arm: NO coherence and NO totality of
   the raw lookups is assumed. Hashes may be unresolved, resolved by one lookup only, or by both.
   The proof replays `sat_in_table` (Proofs/SatProofs.v, untouched) over `sat_dissat_r`, against the
   table of the script in which every raw hash is replaced by pk_h of SOME key hashing to it
   (the key a lookup returned, or — for a hash neither lookup knows — any key of the table with that hash). *)
From Verif Require Import Exec Ser Ast Types TypeCheck SatSpec Sat ExecLemmas TheoremA SatProofs RawPkhModel RawPkhResolve.
From Coq Require Import Lia Permutation.

Section SatInTableR.
  Variable ke : keyenv.
  Variable A : assets.
  Variable se : senv.
  Variable f : fill.
  Variable re : rawenv.
  Variable dflt : bytes -> key.
  Hypothesis L : linked ke A se f.
  Hypothesis Hksort_len : forall ks, length (ksort ke ks) = length ks.
  (* the raw signature lookup only hands out signatures the caller holds for that key *)
  Hypothesis Hsig : forall h k, rs_sig re h = Some k -> se_sig se k <> None.
  (* when both raw lookups answer for a hash, they name the same key *)
  Hypothesis Hsame : forall h k k', rs_pk re h = Some k -> rs_sig re h = Some k' -> k = k'.

  Definition rs_tot (h : bytes) : option key :=
    match rs_pk re h with
    | Some k => Some k
    | None => match rs_sig re h with Some k => Some k | None => Some (dflt h) end
    end.

  Lemma rs_tot_total m : all_resolved rs_tot m.
  Proof. intros h _. unfold rs_tot. destruct (rs_pk re h); [discriminate|]. destruct (rs_sig re h); discriminate. Qed.

  Lemma it_raw h : in_table ke A f (resolve rs_tot (MRawPkH h)) (sd_raw_pk_h re h).
  Proof.
    cbn [resolve]. unfold rs_tot.
    destruct (rs_pk re h) as [k|] eqn:Ep; destruct (rs_sig re h) as [k'|] eqn:Es.
    - assert (k = k') by (eapply Hsame; eauto). subst k'.
      replace (sd_raw_pk_h re h) with (sd_pk_h se k); [apply (it_pk_h ke A se f L)|].
      unfold sd_raw_pk_h, sd_pk_h, w_pkh_public_key, w_pkh_signature, w_signature. rewrite Ep, Es.
      pose proof (Hsig h k Es). destruct (se_sig se k); [reflexivity | congruence].
    - destruct (it_pk_h ke A se f L k) as [Hd _]. split.
      + unfold sd_raw_pk_h, w_pkh_public_key. rewrite Ep. exact Hd.
      + intros l bs Hs. unfold sd_raw_pk_h, w_pkh_signature in Hs. rewrite Es in Hs. cbn in Hs. discriminate.
    - destruct (it_pk_h ke A se f L k') as [_ Hs']. split.
      + intros l bs Hs. unfold sd_raw_pk_h, w_pkh_public_key in Hs. rewrite Ep in Hs. cbn in Hs. discriminate.
      + unfold sd_raw_pk_h, w_pkh_signature. rewrite Es. cbn [snd].
        unfold sd_pk_h, w_signature in Hs'. pose proof (Hsig h k' Es). destruct (se_sig se k'); [exact Hs' | congruence].
    - split; intros l bs Hs; unfold sd_raw_pk_h, w_pkh_public_key, w_pkh_signature in Hs; rewrite ?Ep, ?Es in Hs; cbn in Hs; discriminate.
  Qed.

  Notation R := (resolve rs_tot).
  Notation in_tab := (in_table ke A f).

  Theorem sat_in_table_r mall rhs : forall m, kwf m -> in_tab (R m) (sat_dissat_r ke se re mall rhs m).
  Proof.
    induction m using ms_ind'; intros Hk; cbn [sat_dissat_r kwf] in *.
    - (* 1 *) split; intros l bs Hs Hf; cbn in Hs; [discriminate|]. inversion Hs; subst. cbn in Hf. inversion Hf. left. reflexivity.
    - (* 0 *) split; intros l bs Hs Hf; cbn in Hs; [|discriminate]. inversion Hs; subst. cbn in Hf. inversion Hf. left. reflexivity.
    - apply (it_pk_k ke A se f L).
    - apply (it_pk_h ke A se f L).
    - apply it_raw.
    - apply it_time. cbn [resolve sd]. rewrite (lk_after _ _ _ _ L). reflexivity.
    - apply it_time. cbn [resolve sd]. rewrite (lk_older _ _ _ _ L). reflexivity.
    - apply (it_hash ke A se f L HSha256). reflexivity.
    - apply (it_hash ke A se f L HHash256). reflexivity.
    - apply (it_hash ke A se f L HRipemd160). reflexivity.
    - apply (it_hash ke A se f L HHash160). reflexivity.
    - (* a *) exact (IHm Hk).
    - exact (IHm Hk).
    - exact (IHm Hk).
    - (* d *) destruct (sat_dissat_r ke se re mall rhs m) as [d0 sub] eqn:E. destruct (IHm Hk) as [_ Hs]. cbn [snd] in Hs.
      split; cbn [fst snd].
      + intros l bs Hl Hf. cbn in Hl. inversion Hl; subst. cbn in Hf. inversion Hf. cbn. left. reflexivity.
      + unfold satok, all_sat. cbn [resolve sd fst]. apply (push_in f _ sub PhPushOne [1%N]); [reflexivity | exact Hs].
    - (* v *) destruct (sat_dissat_r ke se re mall rhs m) as [d0 sub] eqn:E. destruct (IHm Hk) as [_ Hs].
      split; cbn [fst snd]; [intros l bs Hl; cbn in Hl; discriminate | exact Hs].
    - (* j *) destruct (sat_dissat_r ke se re mall rhs m) as [d0 sub] eqn:E. destruct (IHm Hk) as [_ Hs].
      split; cbn [fst snd]; [|exact Hs]. intros l bs Hl Hf. cbn in Hl. inversion Hl; subst. cbn in Hf. inversion Hf. cbn. left. reflexivity.
    - (* n *) exact (IHm Hk).
    - (* and_v *) destruct Hk as [H1 H2]. destruct (sat_dissat_r ke se re mall rhs m1) as [ld ls] eqn:E1.
      destruct (sat_dissat_r ke se re mall rhs m2) as [rd rs] eqn:E2. destruct (IHm1 H1) as [_ Hls]. destruct (IHm2 H2) as [Hrd Hrs].
      cbn [fst snd resolve] in *. split; cbn [fst snd]; unfold satok, disok; [rewrite dsat_and_v | rewrite sat_and_v]; apply concat_in; assumption.
    - (* and_b *) destruct Hk as [H1 H2]. destruct (sat_dissat_r ke se re mall rhs m1) as [ld ls] eqn:E1.
      destruct (sat_dissat_r ke se re mall rhs m2) as [rd rs] eqn:E2. destruct (IHm1 H1) as [Hld Hls]. destruct (IHm2 H2) as [Hrd Hrs].
      cbn [fst snd resolve] in *. split; cbn [fst snd]; unfold satok, disok, all_sat, all_dsat; rewrite sd_and_b; cbn [fst snd]; apply concat_in; assumption.
    - (* andor *) destruct Hk as [H1 [H2 H3]]. destruct (sat_dissat_r ke se re mall rhs m1) as [ad asat] eqn:E1.
      destruct (sat_dissat_r ke se re mall rhs m2) as [bd bsat] eqn:E2. destruct (sat_dissat_r ke se re mall rhs m3) as [cd csat] eqn:E3.
      destruct (IHm1 H1) as [Had Has]. destruct (IHm2 H2) as [_ Hbs]. destruct (IHm3 H3) as [Hcd Hcs]. cbn [fst snd resolve] in *.
      split; cbn [fst snd]; unfold satok, disok, all_sat, all_dsat; rewrite sd_andor; cbn [fst snd].
      + apply concat_in; assumption.
      + apply min_in; [apply in_weaken_l | apply in_weaken_r]; apply concat_in; assumption.
    - (* or_b *) destruct Hk as [H1 H2]. destruct (sat_dissat_r ke se re mall rhs m1) as [ld ls] eqn:E1.
      destruct (sat_dissat_r ke se re mall rhs m2) as [rd rs] eqn:E2. destruct (IHm1 H1) as [Hld Hls]. destruct (IHm2 H2) as [Hrd Hrs].
      cbn [fst snd resolve] in *. split; cbn [fst snd]; unfold satok, disok, all_sat, all_dsat; rewrite sd_or_b; cbn [fst snd].
      + apply concat_in; assumption.
      + apply min_in; [apply in_weaken_l | apply in_weaken_r]; apply concat_in; assumption.
    - (* or_d *) destruct Hk as [H1 H2]. destruct (sat_dissat_r ke se re mall rhs m1) as [ld ls] eqn:E1.
      destruct (sat_dissat_r ke se re mall rhs m2) as [rd rs] eqn:E2. destruct (IHm1 H1) as [Hld Hls]. destruct (IHm2 H2) as [Hrd Hrs].
      cbn [fst snd resolve] in *. split; cbn [fst snd]; unfold satok, disok, all_sat, all_dsat; rewrite sd_or_d; cbn [fst snd].
      + apply concat_in; assumption.
      + apply min_in; [apply in_weaken_l; exact Hls | apply in_weaken_r; apply concat_in; assumption].
    - (* or_c *) destruct Hk as [H1 H2]. destruct (sat_dissat_r ke se re mall rhs m1) as [ld ls] eqn:E1.
      destruct (sat_dissat_r ke se re mall rhs m2) as [rd rs] eqn:E2. destruct (IHm1 H1) as [Hld Hls]. destruct (IHm2 H2) as [_ Hrs].
      cbn [fst snd resolve] in *. split; cbn [fst snd].
      + intros l bs Hl; cbn in Hl; discriminate.
      + unfold satok. rewrite sat_or_c. apply min_in; [apply in_weaken_l; exact Hls | apply in_weaken_r; apply concat_in; assumption].
    - (* or_i *) destruct Hk as [H1 H2]. destruct (sat_dissat_r ke se re mall rhs m1) as [ld ls] eqn:E1.
      destruct (sat_dissat_r ke se re mall rhs m2) as [rd rs] eqn:E2. destruct (IHm1 H1) as [Hld Hls]. destruct (IHm2 H2) as [Hrd Hrs].
      cbn [fst snd resolve] in *. split; cbn [fst snd]; unfold satok, disok, all_sat, all_dsat; rewrite sd_or_i; cbn [fst snd];
      (apply min_in; [apply in_weaken_l; apply (push_in f _ _ PhPushOne [1%N]); [reflexivity | assumption]
                     | apply in_weaken_r; apply (push_in f _ _ PhPushZero []); [reflexivity | assumption]]).
    - (* thresh *) destruct Hk as [Hk Hkw]. rewrite resolve_thresh.
      change ((fix go (l : list ms) : list (satn * satn) :=
                 match l with [] => [] | x :: r => sat_dissat_r ke se re mall rhs x :: go r end) xs)
        with (map (sat_dissat_r ke se re mall rhs) xs).
      set (ds := map (sat_dissat_r ke se re mall rhs) xs).
      set (ys := map R xs).
      assert (HF : Forall2 in_tab ys ds).
      { unfold ds, ys. clear Hk. induction H as [|x r Hx Hr IHr]; cbn [map]; constructor.
        - apply Hx. apply Hkw. - apply IHr. apply Hkw. }
      assert (Hlen : length ds = length ys) by (unfold ds, ys; rewrite !map_length; reflexivity).
      assert (Hlx : length xs = length ys) by (unfold ys; rewrite map_length; reflexivity).
      split; cbn [fst snd]; unfold satok, disok, all_sat, all_dsat; rewrite sd_thresh'; cbn [fst snd].
      + intros l bs Hs Hf. exact (flat_const ke A f false ys ds HF l bs Hs Hf).
      + rewrite Hlx. destruct (N.eqb_spec k (N.of_nat (length ys))) as [Ekn|Ekn].
        * intros l bs Hs Hf. pose proof (flat_const ke A f true ys ds HF l bs Hs Hf) as Hr. cbn in Hr.
          replace (N.to_nat k) with (length ys) by lia. exact Hr.
        * assert (Hnth : forall i x d, nth_error ys i = Some x -> nth_error ds i = Some d -> in_tab x d).
          { clear -HF. induction HF as [|x0 d0 xs0 ds0 H0 HF' IH]; intros [|i] x d Hx Hd; cbn in *; try discriminate.
            - inversion Hx; inversion Hd; subst. exact H0.
            - eapply IH; eassumption. }
          destruct mall.
          -- intros l bs Hs Hf. unfold thresh_mall in Hs. rewrite map_length, Hlen in Hs.
             eapply (swap_in_table ke A f ys ds _ (N.to_nat k) Hlen Hnth); [ | | exact Hs | exact Hf]; [apply order_perm | lia].
          -- intros l bs Hs Hf. unfold thresh_nonmall in Hs. rewrite map_length, Hlen in Hs. cbv zeta in Hs.
             destruct (is_imp _) in Hs; [cbn in Hs; discriminate|].
             destruct (negb _ && negb _) in Hs; [cbn in Hs; discriminate|].
             eapply (swap_in_table ke A f ys ds _ (N.to_nat k) Hlen Hnth); [ | | exact Hs | exact Hf]; [apply order_perm | lia].
    - (* multi *) unfold in_table, satok, disok, all_sat, all_dsat. cbn [resolve sd fst snd]. apply (it_multi_gen ke A se f L Hksort_len k ks); reflexivity.
    - unfold in_table, satok, disok, all_sat, all_dsat. cbn [resolve sd fst snd]. apply (it_multi_gen ke A se f L Hksort_len k (ksort ke ks)); reflexivity.
    - unfold in_table, satok, disok, all_sat, all_dsat. cbn [resolve sd fst snd]. apply (it_multi_a_gen ke A se f L Hksort_len k ks).
    - unfold in_table, satok, disok, all_sat, all_dsat. cbn [resolve sd fst snd].
      destruct (it_multi_a_gen ke A se f L Hksort_len k (ksort ke ks)) as [H1 H2]. split; [|exact H2].
      intros l bs Hs Hf. specialize (H1 l bs Hs Hf). rewrite Hksort_len in H1. exact H1.
  Qed.
End SatInTableR.

(* C01 for EVERY script with raw key hashes: unresolved, partly resolved or incoherently resolved hashes
   included. Hypotheses on the raw lookups: returned keys hash to the hash asked for; the raw signature
   lookup hands out only signatures the caller holds; both lookups name the same key when both answer;
   and every raw hash of the script is the hash160 of SOME key of the key table (`dflt`; trivially needed:
   the Script semantics' hash function is abstract, and a hash that no key has can never be passed). *)
Theorem rawpkh_satisfaction_spends_gen (e : env) (ke : keyenv) (A : assets) (se : senv) (re : rawenv) (f : fill)
  (dflt : bytes -> key) :
  linked ke A se f -> (forall ks, length (ksort ke ks) = length ks) ->
  assets_ok e ke A -> (forall kbs, e_sigok e kbs [] = false) ->
  (forall h k, rs_sig re h = Some k -> se_sig se k <> None) ->
  (forall h k k', rs_pk re h = Some k -> rs_sig re h = Some k' -> k = k') ->
  forall (mall rhs : bool) (m : ms) (t : ty),
    type_of m = ROk t -> c_base (t_corr t) = BB -> wf e ke m ->
    hash_matches ke (rs_pk re) m -> hash_matches ke (rs_sig re) m ->
    (forall h, In h (raw_hashes m) -> kh ke (dflt h) = h) ->
    forall bs, satisfy_r ke se re f mall rhs m = Some bs -> accepts e (enc ke m) (rev bs) = true.
Proof.
  intros HL Hks HA Hse Hsig Hsame mall rhs m t Ht Hb Hwf Hm1 Hm2 Hd bs Hsat.
  unfold satisfy_r in Hsat. destruct (s_stack (snd (sat_dissat_r ke se re mall rhs m))) as [l| |] eqn:Es; try discriminate.
  destruct (sat_in_table_r ke A se f re dflt HL Hks Hsig Hsame mall rhs m (wf_kwf e ke m Hwf)) as [_ Hs].
  assert (Hm : hash_matches ke (rs_tot re dflt) m).
  { intros h k Hh E. unfold rs_tot in E. destruct (rs_pk re h) as [k1|] eqn:E1.
    - inversion E; subst. exact (Hm1 h k Hh E1).
    - destruct (rs_sig re h) as [k2|] eqn:E2; inversion E; subst; [exact (Hm2 h k Hh E2) | exact (Hd h Hh)]. }
  rewrite <- (enc_resolve ke (rs_tot re dflt) m Hm).
  apply (witness_script_accepts e ke A HA Hse (resolve (rs_tot re dflt) m) t).
  - rewrite type_of_resolve. exact Ht.
  - exact Hb.
  - apply wf_resolve. exact Hwf.
  - apply no_raw_resolve. apply rs_tot_total.
  - exact (Hs l bs Es Hsat).
Qed.
