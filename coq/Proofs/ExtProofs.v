(* C09: the static figures of Ms/ExtModel.v against the satisfier model Ms/Sat.v.
   Statements first (what "upper bound" means), then refutations of the full-strength
   statement for the code as written, then the proofs for the repaired rules / safe class. *)
From Coq Require Import Lia Permutation.
From Verif Require Import TypeCheck ExtModel.
Local Open Scope N_scope.

(* ------------------------------------------------------------------ what is measured *)
(* witness form: every item with its length prefix (util.rs ItemSize = Sat.ph_size) *)
Definition ph_sum (se : senv) (l : list ph) : N := fold_right (fun p a => ph_size se p + a) 0 l.
(* scriptSig form (pre-segwit): the same pushes, except that `1` is the single opcode OP_1 *)
Definition ph_ssig (se : senv) (p : ph) : N := match p with PhPushOne => 1 | _ => ph_size se p end.
Definition ssig_sum (se : senv) (l : list ph) : N := fold_right (fun p a => ph_ssig se p + a) 0 l.

Definition within (se : senv) (d : satdata) (l : list ph) : Prop :=
  N.of_nat (length l) <= sd_wcount d /\ ph_sum se l <= sd_wsize d
  /\ (se_tap se = false -> ssig_sum se l <= sd_ssig d).

(* a (dis)satisfaction the satisfier model returns is covered by the figure *)
Definition bounded (se : senv) (od : option satdata) (s : satn) : Prop :=
  match s_stack s with
  | WStack l => exists d, od = Some d /\ within se d l
  | _ => True
  end.
(* the weaker form used for dissatisfactions: only claimed where a figure exists *)
Definition dbounded (se : senv) (od : option satdata) (s : satn) : Prop :=
  match od with None => True | Some _ => bounded se od s end.

(* the asset environment agrees with the context the figures were computed for *)
Definition senv_ok (c : xctx) (se : senv) : Prop :=
  se_tap se = xc_schnorr c
  /\ (forall k, se_pklen se k <= if xc_schnorr c then 33 else if xc_unc c k then 66 else 34)
  /\ (forall k sz, se_tap se = true -> se_sig se k = Some sz -> sz <= 65).

(* C09 (witness part) at full strength for a rule set [fx]: every well-typed script, every
   context, every asset environment, both modes. *)
Definition wit_bounds_stmt (fx : fixes) : Prop :=
  forall c ke se mall rhs m t,
    senv_ok c se -> type_of m = ROk t ->
    bounded se (sat_data (ext_of_gen fx c m)) (snd (sat_dissat ke se mall rhs m)).

(* ------------------------------------------------------------------ HISTORICAL refutations: the rule set [pre_fix]
   of the tree before /repo 937818d4 / 1f19b621 / cce56f21 / 556af94a; the code that exists is [as_written] *)
Definition cx_segwit : xctx := mkXctx false (fun _ => false) (fun _ => 34).
Definition cx_legacy : xctx := mkXctx false (fun k => 6 <=? k) (fun k => if 6 <=? k then 66 else 34).
Definition ke0 : keyenv := mkKeyEnv (fun _ => repeat 0 33) (fun _ => repeat 0 20) (fun l => l).
(* all locks satisfied, no keys, no preimages *)
Definition se_locks : senv := mkSenv false (fun _ => 34) (fun _ => None) (fun _ _ => false) (fun _ => true) (fun _ => true).
(* key 3 signs *)
Definition se_key3 : senv := mkSenv false (fun _ => 34) (fun k => if k =? 3 then Some 72 else None) (fun _ _ => false) (fun _ => true) (fun _ => true).
(* legacy: key 6 (uncompressed) signs *)
Definition se_key6 : senv := mkSenv false (fun k => if 6 <=? k then 66 else 34) (fun k => if k =? 6 then Some 72 else None) (fun _ _ => false) (fun _ => true) (fun _ => true).

Lemma senv_ok_locks : senv_ok cx_segwit se_locks.
Proof.
  unfold senv_ok, cx_segwit, se_locks; cbn [se_tap se_pklen se_sig xc_schnorr xc_unc].
  split; [reflexivity|]. split; intros; [cbv; discriminate | discriminate].
Qed.
Lemma senv_ok_key3 : senv_ok cx_segwit se_key3.
Proof.
  unfold senv_ok, cx_segwit, se_key3; cbn [se_tap se_pklen se_sig xc_schnorr xc_unc].
  split; [reflexivity|]. split; intros; [cbv; discriminate | discriminate].
Qed.
Lemma senv_ok_key6 : senv_ok cx_legacy se_key6.
Proof.
  unfold senv_ok, cx_legacy, se_key6; cbn [se_tap se_pklen se_sig xc_schnorr xc_unc].
  split; [reflexivity|]. split; intros.
  - destruct (6 <=? k); cbv; discriminate.
  - discriminate.
Qed.

Ltac refute_bounded :=
  unfold bounded; intros [d [Hd [Hc [Hs Hg]]]];
  vm_compute in Hd; inversion Hd; subst d; clear Hd;
  vm_compute in Hc; vm_compute in Hs;
  try (apply Hc; reflexivity); try (apply Hs; reflexivity);
  try (specialize (Hg eq_refl); vm_compute in Hg; apply Hg; reflexivity).

(* (a) DESIGN 10-c: threshold takes k+1 satisfactions. thresh(1,ln:older(1),aln:older(2),aln:older(3)) *)
Definition l_n_older (t : N) : ms := MOrI MFalse (MZeroNotEqual (MOlder t)).
Definition w_thresh : ms := MThresh 1 [l_n_older 1; MAlt (l_n_older 2); MAlt (l_n_older 3)].
Lemma wit_bounds_refuted_thresh : ~ wit_bounds_stmt pre_fix.
Proof.
  intros H.
  assert (Ht : exists t, type_of w_thresh = ROk t) by (eexists; vm_compute; reflexivity).
  destruct Ht as [t Ht].
  specialize (H cx_segwit ke0 se_locks true false w_thresh t senv_ok_locks Ht).
  revert H. refute_bounded.
Qed.
(* the figure is 4, the witness [1;1;0] measures 5 *)
Example w_thresh_numbers :
  option_map sd_wsize (sat_data (ext_of_gen pre_fix cx_segwit w_thresh)) = Some 4
  /\ s_stack (snd (sat_dissat ke0 se_locks true false w_thresh)) = WStack [PhPushOne; PhPushOne; PhPushZero]
  /\ ph_sum se_locks [PhPushOne; PhPushOne; PhPushZero] = 5.
Proof. vm_compute. auto. Qed.

(* (b) cast_dupif adds 1 byte and 2 items; `1` is 2 bytes and 1 item. dv:older(5) *)
Definition w_dupif : ms := MDupIf (MVerify (MOlder 5)).
Lemma wit_bounds_refuted_dupif : ~ wit_bounds_stmt pre_fix.
Proof.
  intros H.
  assert (Ht : exists t, type_of w_dupif = ROk t) by (eexists; vm_compute; reflexivity).
  destruct Ht as [t Ht].
  specialize (H cx_segwit ke0 se_locks false false w_dupif t senv_ok_locks Ht).
  revert H. refute_bounded.
Qed.

(* (c) uncompressed keys are counted as 65 bytes, their push is 66. c:pk_h(K6) in a legacy context *)
Definition w_unc : ms := MCheck (MPkH 6).
Lemma wit_bounds_refuted_unc : ~ wit_bounds_stmt pre_fix.
Proof.
  intros H.
  assert (Ht : exists t, type_of w_unc = ROk t) by (eexists; vm_compute; reflexivity).
  destruct Ht as [t Ht].
  specialize (H cx_legacy ke0 se_key6 false true w_unc t senv_ok_key6 Ht).
  revert H. refute_bounded.
Qed.

(* (d) and_v has no dissatisfaction figure but the satisfier dissatisfies it (sat(l) ++ dissat(r));
   under or_i the malleable satisfier may pick that dissatisfaction because it is the smaller one in
   BYTES while it has more ELEMENTS than the tracked branch.
   or_b(or_i(and_v(v:or_i(0,or_i(0,or_i(0,or_i(0,1)))),0),sha256(H)),s:pk(K3)), only K3 signs *)
Definition llll1 : ms := MOrI MFalse (MOrI MFalse (MOrI MFalse (MOrI MFalse MTrue))).
Definition w_andv : ms :=
  MOrB (MOrI (MAndV (MVerify llll1) MFalse) (MSha256 (repeat 0 32))) (MSwap (MCheck (MPkK 3))).
Lemma wit_bounds_refuted_andv : ~ wit_bounds_stmt pre_fix.
Proof.
  intros H.
  assert (Ht : exists t, type_of w_andv = ROk t) by (eexists; vm_compute; reflexivity).
  destruct Ht as [t Ht].
  specialize (H cx_segwit ke0 se_key3 true true w_andv t senv_ok_key3 Ht).
  revert H. refute_bounded.
Qed.
