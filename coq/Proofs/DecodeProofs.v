(* C04 [T2] decode_total: the decoder model never reaches a panic site and never runs out of
   the fuel DecodeModel.parse gives it (20 * #tokens + 8 machine steps). *)
From Coq Require Import Lia.
From Verif Require Import DecodeModel.
Local Open Scope N_scope.

(* ------------------------------------------------------------------ stack discipline *)
(* how many terminals a non-terminal needs on the stack when it is popped, and how many it
   leaves in their place once it (and everything it pushes) is done *)
Definition nt_need (nt : nonterm) : nat :=
  match nt with
  | NtExpression | NtWExpression => 0
  | NtMaybeAndV | NtSwap | NtAlt | NtCheck | NtDupIf | NtVerify | NtNonZero | NtZeroNotEqual | NtEndIf | NtEndIfNotIf => 1
  | NtAndV | NtAndB | NtOrB | NtOrD | NtOrC | NtEndIfElse => 2
  | NtTern => 3
  | NtThreshW _ n | NtThreshE _ n => N.to_nat n
  end.
Definition nt_out (nt : nonterm) : nat := 1.

Fixpoint valid (c : nat) (nts : list nonterm) : Prop :=
  match nts with
  | [] => c = 1%nat
  | nt :: r => (nt_need nt <= c)%nat /\ valid (c - nt_need nt + nt_out nt) r
  end.

Definition inv (s : dstate) : Prop := valid (length (ds_terms s)) (ds_nts s).
Definition ok_res (r : stepres) : Prop :=
  match r with SCont s' => inv s' | SPanic _ => False | _ => True end.

Lemma valid_eq a b nts : a = b -> valid a nts -> valid b nts.
Proof. intros ->. auto. Qed.

Ltac veq H :=
  cbn [length] in *; unfold nt_out in *;
  match type of H with valid ?a ?n =>
    match goal with |- valid ?b n => apply (valid_eq a b n); [lia|exact H] end end.

Ltac vt :=
  cbn [valid nt_need length ds_terms ds_nts inv ok_res] in *; unfold nt_out in *;
  repeat match goal with H : _ /\ _ |- _ => destruct H end;
  repeat split; try lia;
  try match goal with H : valid ?a ?n |- valid ?b ?n => apply (valid_eq a b n); [lia|exact H] end.

Lemma reduce0_ok e m toks nts terms : valid (S (length terms)) nts -> ok_res (reduce0 e m toks nts terms).
Proof. intros H. unfold reduce0. destruct (from_ast e m); vt. Qed.

Lemma reduce1_ok e f toks nts terms : (1 <= length terms)%nat -> valid (length terms) nts ->
  ok_res (reduce1 e f toks nts terms).
Proof.
  intros Hl H. unfold reduce1. destruct terms as [|x r]; [cbn in Hl; lia|]. apply reduce0_ok. exact H.
Qed.

Lemma reduce2_ok e f toks nts terms : (2 <= length terms)%nat -> valid (length terms - 1) nts ->
  ok_res (reduce2 e f toks nts terms).
Proof.
  intros Hl H. unfold reduce2. destruct terms as [|x [|y r]]; try (cbn in Hl; lia). apply reduce0_ok.
  cbn [length] in *. veq H.
Qed.

Lemma push_leaf_ok m toks nts terms : valid (S (length terms)) nts -> ok_res (push_leaf m toks nts terms).
Proof. intros H. unfold push_leaf. vt. Qed.

Lemma key_leaf_ok e pk toks nts terms : valid (S (length terms)) nts -> ok_res (key_leaf e pk toks nts terms).
Proof. intros H. unfold key_leaf. destruct (d_key e pk); [apply push_leaf_ok, H|exact I]. Qed.

Lemma hash_leaf_ok mk v pats r nts terms : valid (S (length terms)) nts ->
  ok_res (hash_leaf mk v pats r nts terms).
Proof. intros H. unfold hash_leaf. destruct (expect_seq pats r); [exact I|]. destruct v; vt. Qed.

Lemma equal_step_ok v toks nts terms : valid (S (length terms)) nts -> ok_res (equal_step v toks nts terms).
Proof.
  intros H. unfold equal_step.
  destruct toks as [|t r]; [exact I|].
  destruct t; try exact I.
  - (* Num k: ThreshW k 0 *) destruct v; vt.
  - (* Hash20 *) destruct r as [|t1 r1]; [exact I|]. destruct t1; try exact I.
    + apply hash_leaf_ok, H.
    + destruct v; [|apply hash_leaf_ok, H].
      destruct r1 as [|t2 r2]; [exact I|]. destruct t2; try exact I.
      * apply push_leaf_ok, H.
      * apply hash_leaf_ok, H.
  - (* Bytes32 *) destruct r as [|t1 r1]; [exact I|]. destruct t1; try exact I; apply hash_leaf_ok, H.
Qed.

Lemma expr_step_ok e toks nts terms : valid (S (length terms)) nts -> ok_res (expr_step e toks nts terms).
Proof.
  intros H. unfold expr_step.
  destruct toks as [|t r]; [exact I|].
  destruct t; try exact I; try (apply key_leaf_ok, H); try (vt; fail).
  - (* Equal *) apply equal_step_ok, H.
  - (* NumEqual *) destruct r as [|t1 r1]; [exact I|]. destruct t1; try exact I.
    destruct ((n =? 0) || (999 <? n)); [exact I|].
    destruct (multi_a_keys e r1 []) as [err|[acc r2]]; [exact I|].
    destruct r2 as [|t2 r3]; [exact I|]. destruct t2; try exact I.
    destruct r3 as [|t3 r4]; [exact I|]. destruct t3; try exact I.
    destruct (d_key e b); [|exact I].
    destruct ((n =? 0) || (nlen (k :: acc) <? n) || (999 <? nlen (k :: acc))); [exact I|apply push_leaf_ok, H].
  - (* CheckMultiSig *) destruct r as [|t1 r1]; [exact I|]. destruct t1; try exact I.
    destruct ((n =? 0) || (20 <? n)); [exact I|].
    destruct (multi_keys e (N.to_nat n) r1 []) as [err|[keys r2]]; [exact I|].
    destruct r2 as [|t2 r3]; [exact I|]. destruct t2; try exact I.
    destruct ((n0 =? 0) || (nlen keys <? n0) || (20 <? nlen keys)); [exact I|apply push_leaf_ok, H].
  - (* CSV *) destruct r as [|t1 r1]; [exact I|]. destruct t1; try exact I.
    destruct ((n <? 2147483648) && negb (n =? 0)); [apply push_leaf_ok, H|exact I].
  - (* CLTV *) destruct r as [|t1 r1]; [exact I|]. destruct t1; try exact I.
    destruct ((1 <=? n) && (n <=? 2147483647)); [apply push_leaf_ok, H|exact I].
  - (* Verify *) destruct r as [|t1 r1]; [exact I|]. destruct t1; try (vt; fail). apply equal_step_ok. vt.
  - (* Num *) destruct n as [|p]; [apply push_leaf_ok, H|]. destruct p; try exact I. apply push_leaf_ok, H.
Qed.

Lemma pop_n_spec n terms :
  match pop_n n terms with
  | Some (subs, rest) => length subs = n /\ length terms = (n + length rest)%nat
  | None => (length terms < n)%nat
  end.
Proof.
  revert terms. induction n as [|n IH]; intros terms; cbn [pop_n]; [split; reflexivity|].
  destruct terms as [|x r]; [cbn; lia|]. specialize (IH r).
  destruct (pop_n n r) as [[a b]|]; cbn [length] in *; lia.
Qed.

Theorem step_ok e s : inv s -> ok_res (step e s).
Proof.
  destruct s as [toks nts terms]. unfold inv, step. cbn [ds_toks ds_nts ds_terms].
  intros H. destruct nts as [|nt nts].
  - cbn in H. destruct terms as [|m [|m' r]]; cbn in H; try lia. exact I.
  - cbn [valid] in H. destruct H as [Hn H].
    destruct nt; cbn [nt_need nt_out] in *.
    + (* Expression *) apply expr_step_ok. veq H.
    + (* WExpression *) destruct toks as [|t r]; [exact I|]. destruct t; vt.
    + (* Swap *) destruct toks as [|t r]; [exact I|]. destruct t; try exact I.
      apply reduce1_ok; [lia|veq H].
    + (* MaybeAndV *) destruct (is_and_v toks); vt.
    + (* Alt *) destruct toks as [|t r]; [exact I|]. destruct t; try exact I.
      apply reduce1_ok; [lia|veq H].
    + apply reduce1_ok; [lia|veq H].
    + apply reduce1_ok; [lia|veq H].
    + apply reduce1_ok; [lia|veq H].
    + apply reduce1_ok; [lia|veq H].
    + apply reduce1_ok; [lia|veq H].
    + (* AndV *) destruct (is_and_v toks); [vt|].
      apply reduce2_ok; [lia|veq H].
    + apply reduce2_ok; [lia|veq H].
    + (* Tern *) destruct terms as [|a [|b [|c0 rest]]]; cbn [length] in *; try lia.
      apply reduce0_ok. veq H.
    + apply reduce2_ok; [lia|veq H].
    + apply reduce2_ok; [lia|veq H].
    + apply reduce2_ok; [lia|veq H].
    + (* ThreshW *) destruct toks as [|t r]; [exact I|].
      destruct t; cbn [valid nt_need length ds_terms ds_nts inv ok_res]; unfold nt_out in *;
        rewrite ?N2Nat.inj_add; change (N.to_nat 1) with 1%nat;
        (split; [lia|]); (split; [lia|]); veq H.
    + (* ThreshE *) pose proof (pop_n_spec (N.to_nat n) terms) as Hp.
      destruct (pop_n (N.to_nat n) terms) as [[subs rest]|]; [|lia].
      destruct ((k =? 0) || (nlen subs <? k)); [exact I|].
      apply reduce0_ok. veq H.
    + (* EndIf *) destruct toks as [|t r]; [exact I|]. destruct t; try exact I; try (vt; fail).
      destruct r as [|t1 r1]; [exact I|]. destruct t1; try exact I; try (vt; fail).
      destruct r1 as [|t2 r2]; [exact I|]. destruct t2; try exact I; vt.
    + (* EndIfNotIf *) destruct toks as [|t r]; [exact I|]. destruct t; vt.
    + (* EndIfElse *) destruct toks as [|t r]; [exact I|]. destruct t; try exact I; try (vt; fail).
      apply reduce2_ok; [lia|veq H].
Qed.

Lemma run_no_panic e : forall fuel s, inv s -> forall n, run e fuel s <> OPanic n.
Proof.
  induction fuel as [|f IH]; intros s Hs n; [discriminate|]. cbn [run].
  pose proof (step_ok e s Hs) as Hok.
  destruct (step e s) as [s'|rest m|err|site]; cbn in Hok; try discriminate; [|contradiction].
  apply IH, Hok.
Qed.

Theorem parse_no_panic e toks n : parse e toks <> OPanic n.
Proof. unfold parse. apply run_no_panic. unfold inv. vt. Qed.

(* ------------------------------------------------------------------ termination within the fuel *)
(* weight of a non-terminal: what it can still cost without consuming a token *)
Definition ntw (nt : nonterm) : nat :=
  match nt with
  | NtExpression | NtAndV | NtMaybeAndV | NtSwap | NtAlt | NtEndIf | NtEndIfElse => 1
  | NtWExpression => 4
  | NtEndIfNotIf | NtThreshW _ _ => 7
  | _ => 5
  end.
Fixpoint wsum (nts : list nonterm) : nat :=
  match nts with [] => 0 | nt :: r => ntw nt + wsum r end.
(* AndV / MaybeAndV on top re-expand while the look-ahead says "and_v" *)
Definition acorr (nts : list nonterm) (toks : list token) : nat :=
  if is_and_v toks then match nts with NtAndV :: _ => 4 | NtMaybeAndV :: _ => 2 | _ => 0 end else 0.
Definition phi (s : dstate) : nat :=
  20 * length (ds_toks s) + wsum (ds_nts s) + acorr (ds_nts s) (ds_toks s).

Definition lt_res (bound : nat) (r : stepres) : Prop :=
  match r with SCont s' => (phi s' < bound)%nat | _ => True end.

Lemma acorr_le nts toks : (acorr nts toks <= 4)%nat.
Proof. unfold acorr. destruct (is_and_v toks); [|lia]. destruct nts as [|[] ?]; lia. Qed.

Lemma acorr_cons nt n t :
  acorr (nt :: n) t = if is_and_v t then match nt with NtAndV => 4%nat | NtMaybeAndV => 2%nat | _ => 0%nat end else 0%nat.
Proof. reflexivity. Qed.

Ltac pt :=
  unfold lt_res, phi in *; cbn [ds_toks ds_nts ds_terms wsum ntw length] in *;
  rewrite ?acorr_cons in *; cbn [ds_toks ds_nts ds_terms wsum ntw length] in *;
  repeat match goal with
         | |- context [acorr ?a ?b] =>
           lazymatch goal with
           | H : (acorr a b <= 4)%nat |- _ => fail
           | _ => pose proof (acorr_le a b)
           end
         end;
  repeat match goal with
         | |- context [is_and_v ?t] => destruct (is_and_v t)
         | H : context [is_and_v ?t] |- _ => destruct (is_and_v t)
         end;
  try lia.

Lemma reduce0_lt e m toks nts terms B : (20 * length toks + wsum nts + 4 < B)%nat ->
  lt_res B (reduce0 e m toks nts terms).
Proof. intros H. unfold reduce0. destruct (from_ast e m); [exact I|]. pt. Qed.
Lemma reduce1_lt e f toks nts terms B : (20 * length toks + wsum nts + 4 < B)%nat ->
  lt_res B (reduce1 e f toks nts terms).
Proof. intros H. unfold reduce1. destruct terms; [exact I|]. apply reduce0_lt, H. Qed.
Lemma reduce2_lt e f toks nts terms B : (20 * length toks + wsum nts + 4 < B)%nat ->
  lt_res B (reduce2 e f toks nts terms).
Proof. intros H. unfold reduce2. destruct terms as [|x [|y r]]; try exact I. apply reduce0_lt, H. Qed.
Lemma push_leaf_lt m toks nts terms B : (20 * length toks + wsum nts + 4 < B)%nat ->
  lt_res B (push_leaf m toks nts terms).
Proof. intros H. unfold push_leaf. pt. Qed.
Lemma key_leaf_lt e pk toks nts terms B : (20 * length toks + wsum nts + 4 < B)%nat ->
  lt_res B (key_leaf e pk toks nts terms).
Proof. intros H. unfold key_leaf. destruct (d_key e pk); [apply push_leaf_lt, H|exact I]. Qed.

Lemma expect_seq_len pats : forall r r', expect_seq pats r = inr r' -> (length r' <= length r)%nat.
Proof.
  induction pats as [|p ps IH]; intros r r' H; cbn [expect_seq] in H.
  - injection H as <-. lia.
  - destruct r as [|t r0]; [discriminate|]. destruct (tok_eqb p t); [|discriminate].
    apply IH in H. cbn [length]. lia.
Qed.

Lemma hash_leaf_lt mk v pats r nts terms B : (20 * length r + wsum nts + 9 < B)%nat ->
  lt_res B (hash_leaf mk v pats r nts terms).
Proof.
  intros H. unfold hash_leaf. destruct (expect_seq pats r) as [|r'] eqn:E; [exact I|].
  apply expect_seq_len in E. destruct v; pt.
Qed.

Lemma multi_keys_len e : forall n toks acc keys r, multi_keys e n toks acc = inr (keys, r) ->
  (length r <= length toks)%nat.
Proof.
  induction n as [|n IH]; intros toks acc keys r H; cbn [multi_keys] in H.
  - injection H as _ <-. lia.
  - destruct toks as [|t r0]; [discriminate|].
    destruct t; try discriminate; (destruct (d_key e b); [|discriminate]); apply IH in H; cbn [length]; lia.
Qed.

Lemma multi_a_keys_len e : forall toks acc keys r, multi_a_keys e toks acc = inr (keys, r) ->
  (length r <= length toks)%nat.
Proof.
  assert (Hs : forall n toks, (length toks <= n)%nat -> forall acc keys r,
                 multi_a_keys e toks acc = inr (keys, r) -> (length r <= length toks)%nat).
  { induction n as [|n IH]; intros toks Hl acc keys r H.
    - destruct toks; [|cbn in Hl; lia]. cbn in H. injection H as _ <-. lia.
    - destruct toks as [|t r0]; [cbn in H; injection H as _ <-; lia|].
      cbn [multi_a_keys] in H.
      destruct t; try (injection H as _ <-; lia).
      destruct r0 as [|t1 r1]; [discriminate|]. destruct t1; try discriminate.
      destruct (d_key e b); [|discriminate]. cbn [length] in *.
      apply IH in H; [lia|lia]. }
  intros toks. apply (Hs (length toks)). lia.
Qed.

Lemma equal_step_lt v toks nts terms B : (20 * length toks + wsum nts + 9 < B)%nat ->
  lt_res B (equal_step v toks nts terms).
Proof.
  intros H. unfold equal_step.
  destruct toks as [|t r]; [exact I|]. cbn [length] in H.
  destruct t; try exact I.
  - destruct v; pt.
  - destruct r as [|t1 r1]; [exact I|]. cbn [length] in H. destruct t1; try exact I.
    + apply hash_leaf_lt. lia.
    + destruct v; [|apply hash_leaf_lt; lia].
      destruct r1 as [|t2 r2]; [exact I|]. cbn [length] in H. destruct t2; try exact I.
      * apply push_leaf_lt. lia.
      * apply hash_leaf_lt. lia.
  - destruct r as [|t1 r1]; [exact I|]. cbn [length] in H. destruct t1; try exact I; apply hash_leaf_lt; lia.
Qed.

Lemma expr_step_lt e toks nts terms B : (20 * length toks + wsum nts < B)%nat ->
  lt_res B (expr_step e toks nts terms).
Proof.
  intros H. unfold expr_step.
  destruct toks as [|t r]; [exact I|]. cbn [length] in H.
  destruct t; try exact I; try (apply key_leaf_lt; lia); try (pt; fail).
  - (* Equal *) apply equal_step_lt. lia.
  - (* NumEqual *) destruct r as [|t1 r1]; [exact I|]. cbn [length] in H. destruct t1; try exact I.
    destruct ((n =? 0) || (999 <? n)); [exact I|].
    destruct (multi_a_keys e r1 []) as [err|[acc r2]] eqn:E; [exact I|]. apply multi_a_keys_len in E.
    destruct r2 as [|t2 r3]; [exact I|]. cbn [length] in E. destruct t2; try exact I.
    destruct r3 as [|t3 r4]; [exact I|]. cbn [length] in E. destruct t3; try exact I.
    destruct (d_key e b); [|exact I].
    destruct ((n =? 0) || (nlen (k :: acc) <? n) || (999 <? nlen (k :: acc))); [exact I|apply push_leaf_lt; lia].
  - (* CheckMultiSig *) destruct r as [|t1 r1]; [exact I|]. cbn [length] in H. destruct t1; try exact I.
    destruct ((n =? 0) || (20 <? n)); [exact I|].
    destruct (multi_keys e (N.to_nat n) r1 []) as [err|[keys r2]] eqn:E; [exact I|]. apply multi_keys_len in E.
    destruct r2 as [|t2 r3]; [exact I|]. cbn [length] in E. destruct t2; try exact I.
    destruct ((n0 =? 0) || (nlen keys <? n0) || (20 <? nlen keys)); [exact I|apply push_leaf_lt; lia].
  - (* CSV *) destruct r as [|t1 r1]; [exact I|]. cbn [length] in H. destruct t1; try exact I.
    destruct ((n <? 2147483648) && negb (n =? 0)); [apply push_leaf_lt; lia|exact I].
  - (* CLTV *) destruct r as [|t1 r1]; [exact I|]. cbn [length] in H. destruct t1; try exact I.
    destruct ((1 <=? n) && (n <=? 2147483647)); [apply push_leaf_lt; lia|exact I].
  - (* Verify *) destruct r as [|t1 r1]; [exact I|]. cbn [length] in H.
    destruct t1; try (pt; fail). apply equal_step_lt. cbn [wsum ntw]. lia.
  - (* Num *) destruct n as [|p]; [apply push_leaf_lt; lia|]. destruct p; try exact I. apply push_leaf_lt. lia.
Qed.

Theorem step_decr e s : lt_res (phi s) (step e s).
Proof.
  destruct s as [toks nts terms]. unfold step. cbn [ds_toks ds_nts ds_terms].
  destruct nts as [|nt nts].
  - destruct terms as [|m [|m' r]]; exact I.
  - destruct nt.
    + (* Expression *) apply expr_step_lt. pt.
    + (* WExpression *) destruct toks as [|t r]; [exact I|]. destruct t; pt.
    + (* Swap *) destruct toks as [|t r]; [exact I|]. destruct t; try exact I. apply reduce1_lt. pt.
    + (* MaybeAndV *) unfold phi, acorr at 1. cbn [ds_toks ds_nts].
      destruct (is_and_v toks) eqn:E.
      * unfold lt_res, phi, acorr. cbn [ds_toks ds_nts wsum ntw]. rewrite E. lia.
      * unfold lt_res, phi, acorr. cbn [ds_toks ds_nts wsum ntw]. rewrite E. lia.
    + (* Alt *) destruct toks as [|t r]; [exact I|]. destruct t; try exact I. apply reduce1_lt. pt.
    + apply reduce1_lt. pt.
    + apply reduce1_lt. pt.
    + apply reduce1_lt. pt.
    + apply reduce1_lt. pt.
    + apply reduce1_lt. pt.
    + (* AndV *) unfold phi, acorr at 1. cbn [ds_toks ds_nts].
      destruct (is_and_v toks) eqn:E.
      * unfold lt_res, phi, acorr. cbn [ds_toks ds_nts wsum ntw]. rewrite E. lia.
      * unfold reduce2, reduce0. destruct terms as [|x [|y r]]; try exact I.
        destruct (from_ast e (MAndV x y)); [exact I|].
        unfold lt_res, phi, acorr. cbn [ds_toks ds_nts wsum ntw]. rewrite E. lia.
    + apply reduce2_lt. pt.
    + (* Tern *) destruct terms as [|a [|b [|c0 rest]]]; try exact I. apply reduce0_lt. pt.
    + apply reduce2_lt. pt.
    + apply reduce2_lt. pt.
    + apply reduce2_lt. pt.
    + (* ThreshW *) destruct toks as [|t r]; [exact I|]. destruct t; pt.
    + (* ThreshE *) destruct (pop_n (N.to_nat n) terms) as [[subs rest]|]; [|exact I].
      destruct ((k =? 0) || (nlen subs <? k)); [exact I|]. apply reduce0_lt. pt.
    + (* EndIf *) destruct toks as [|t r]; [exact I|]. destruct t; try exact I; try (pt; fail).
      destruct r as [|t1 r1]; [exact I|]. destruct t1; try exact I; try (pt; fail).
      destruct r1 as [|t2 r2]; [exact I|]. destruct t2; try exact I; pt.
    + (* EndIfNotIf *) destruct toks as [|t r]; [exact I|]. destruct t; pt.
    + (* EndIfElse *) destruct toks as [|t r]; [exact I|]. destruct t; try exact I; try (pt; fail).
      apply reduce2_lt. pt.
Qed.

Lemma run_fuel_enough e : forall fuel s, (phi s < fuel)%nat -> run e fuel s <> OFuel.
Proof.
  induction fuel as [|f IH]; intros s Hs; [lia|]. cbn [run].
  pose proof (step_decr e s) as Hd.
  destruct (step e s) as [s'|rest m|err|site]; unfold lt_res in Hd; try discriminate.
  apply IH. lia.
Qed.

Theorem parse_no_fuel e toks : parse e toks <> OFuel.
Proof.
  unfold parse, parse_fuel. apply run_fuel_enough.
  unfold phi. cbn [ds_toks ds_nts wsum ntw]. rewrite rev_length. pose proof (acorr_le [NtExpression; NtMaybeAndV] (rev toks)). lia.
Qed.

(* decode_total: the decoder is total — an answer or an error class, within the fuel *)
Theorem decode_total e b : (exists m, decode_max e b = OOk m) \/ (exists err, decode_max e b = OErr err).
Proof.
  unfold decode_max. destruct (lex b) as [toks|le]; [|right; eauto].
  pose proof (parse_no_panic e toks) as Hp. pose proof (parse_no_fuel e toks) as Hf.
  destruct (parse e toks) as [[m rest]|err|n|]; [|right; eauto|exfalso; apply (Hp n); reflexivity|contradiction].
  destruct (gv (d_ctx e) (d_ke e) m); [right; eauto|].
  destruct (type_of m); [|right; eauto]. destruct rest; [left|right]; eauto.
Qed.
