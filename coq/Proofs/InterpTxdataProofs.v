(* C13: the model of `from_txdata` (Ms/InterpTxdataModel.v) against the specification's
   output-type dispatch (Script/Spend.v). *)
From Verif Require Import InterpTxdataModel.
From Coq Require Import Lia.
Local Open Scope N_scope.

Lemma ftx_bytes_eqb_eq : forall a b, bytes_eqb a b = true -> a = b.
Proof.
  induction a as [|x a IH]; destruct b as [|y b]; cbn; intros H; try discriminate; [reflexivity|].
  apply andb_true_iff in H. destruct H as [H1 H2]. apply N.eqb_eq in H1. subst. f_equal. apply IH. exact H2.
Qed.
Lemma ftx_bytes_eqb_refl : forall a, bytes_eqb a a = true.
Proof. induction a; cbn; [reflexivity|]. rewrite N.eqb_refl. exact IHa. Qed.

Lemma conc_elem_of : forall b, conc (elem_of b) = b.
Proof.
  destruct b as [|x [|y r]]; cbn; try reflexivity.
  destruct (N.eqb x 1) eqn:E; cbn; [apply N.eqb_eq in E; subst; reflexivity|reflexivity].
Qed.

Lemma conc_wit_stack : forall w, map conc (rev (map elem_of w)) = rev w.
Proof.
  intros w. rewrite <- map_rev, map_map. rewrite <- (map_id (rev w)) at 2.
  apply map_ext. intros a. apply conc_elem_of.
Qed.

(* what Spend.v's verify_wsh does once the witness script is found and its hash is right *)
Definition wsh_body (e : env) (sb : bytes) (stk : list bytes) : bool :=
  N.leb (blen sb) 3600 && N.leb (N.of_nat (length stk)) 100 && forallb (fun it => N.leb (blen it) 80) stk &&
  match parse_script sb with
  | None => false
  | Some s => N.leb (blen sb) 10000 && N.leb (count_nonpush_ops s) 201 &&
              final_ok (exec (with_sv e SvWitnessV0) s (mkSt stk []))
  end.

Lemma elems_len : forall ts acc st, elems_of_toks ts acc = Some st -> length st = (length ts + length acc)%nat.
Proof.
  induction ts as [|t ts IH]; cbn; intros acc st H.
  - injection H as <-. reflexivity.
  - destruct (elem_of_tok t); [|discriminate]. apply IH in H. cbn in H. lia.
Qed.

Lemma lex_nil : forall f b, lex_bytes f b = Some [] -> b = [].
Proof.
  intros f b H. destruct f; destruct b as [|c r]; try reflexivity; cbn in H; try discriminate.
  unfold option_map in H.
  repeat match type of H with
         | context [if ?c then _ else _] => destruct c
         | context [match ?x with _ => _ end] => destruct x
         end; cbn in H; try discriminate.
Qed.

Lemma ssig_stack_nil : forall ssig, ssig_stack_of ssig = Some [] -> ssig = [].
Proof.
  unfold ssig_stack_of. intros ssig H. destruct (lex_bytes (S (length ssig)) ssig) as [ts|] eqn:L; [|discriminate].
  pose proof (elems_len _ _ _ H) as E. cbn in E. destruct ts; [|cbn in E; lia].
  apply lex_nil in L. exact L.
Qed.

(* (a) for P2WSH: when the model answers Ok(Script(sb, Wsh), st, code), the specification's dispatch on
   the same spk / scriptSig / witness IS the execution of exactly the script [sb] on exactly the stack
   [st] (plus the standardness bounds on sizes), and the script code is that script *)
Lemma from_txdata_sound_wsh :
  forall e fe co spk ssig wit sb st code,
    from_txdata e fe spk ssig wit = FOk (InScript sb StWsh) st code ->
    code = Some sb /\ verify_spend e co spk ssig wit = wsh_body e sb (map conc st).
Proof.
  intros e fe co spk ssig wit sb st code H. unfold from_txdata in H.
  destruct (ssig_stack_of ssig) as [ss|] eqn:SS; [|discriminate].
  destruct (spk_is_p2pk spk); [destruct (rev (map elem_of wit)); [destruct (pk_from_slice _ _ _)|]; discriminate|].
  destruct (spk_is_p2pkh spk).
  { destruct (rev (map elem_of wit)); [|discriminate]. destruct ss; [discriminate|].
    destruct (pk_from_elem _ _ _); [discriminate|]. destruct (bytes_eqb _ _); discriminate. }
  destruct (spk_is_p2wpkh spk) eqn:WP.
  { destruct ss; [|discriminate]. destruct (rev (map elem_of wit)); [discriminate|].
    destruct (pk_from_elem _ _ _); [discriminate|]. destruct (bytes_eqb _ _); discriminate. }
  destruct (spk_is_p2wsh spk) as [prog|] eqn:W.
  - destruct ss; [|discriminate]. apply ssig_stack_nil in SS. subst ssig.
    destruct (rev (map elem_of wit)) as [|el rest] eqn:WS; [discriminate|].
    destruct (negb (f_dec fe DSegv0 (conc el))); [discriminate|].
    destruct (bytes_eqb spk (p2wsh_bytes (e_sha256 e (conc el)))) eqn:HB; [|discriminate].
    injection H as <- <- <-. split; [reflexivity|].
    unfold verify_spend. rewrite W. unfold verify_wsh.
    pose proof (conc_wit_stack wit) as CW. rewrite WS in CW. cbn [map] in CW. rewrite <- CW.
    apply ftx_bytes_eqb_eq in HB. subst spk. unfold p2wsh_bytes, spk_is_p2wsh in W.
    destruct (N.eqb (blen (e_sha256 e (conc el))) 32); [|discriminate]. injection W as <-.
    rewrite ftx_bytes_eqb_refl. unfold wsh_body. cbn [andb]. reflexivity.
  - destruct (spk_is_p2tr spk).
    { destruct ss; [|discriminate]. destruct (negb (f_xonly fe b)); [discriminate|].
      destruct (_ && _); [discriminate|].
      destruct (rev (map elem_of wit)) as [|c1 [|c2 r]]; try discriminate.
      destruct c1; try discriminate. destruct (negb (cb_decode_ok fe b0)); [discriminate|].
      destruct (negb (f_dec fe DTap (conc c2))); [discriminate|]. destruct (f_commit fe (conc c2) b0); discriminate. }
    destruct (spk_is_p2sh spk).
    { destruct ss as [|el sr]; [discriminate|].
      destruct el as [| |sl].
      - destruct (negb _); [discriminate|]. destruct (rev (map elem_of wit)); [|discriminate]. destruct (bytes_eqb _ _); discriminate.
      - destruct (negb _); [discriminate|]. destruct (rev (map elem_of wit)); [|discriminate]. destruct (bytes_eqb _ _); discriminate.
      - destruct (negb (bytes_eqb spk (p2sh_bytes (e_hash160 e sl)))); [discriminate|].
        destruct (spk_is_p2wpkh sl).
        { destruct (rev (map elem_of wit)); [discriminate|]. destruct sr; [|discriminate].
          destruct (pk_from_elem _ _ _); [discriminate|]. destruct (bytes_eqb _ _); discriminate. }
        destruct (spk_is_p2wsh sl).
        { destruct (rev (map elem_of wit)); [discriminate|]. destruct sr; [|discriminate].
          destruct (negb _); [discriminate|]. destruct (bytes_eqb _ _); discriminate. }
        destruct (negb _); [discriminate|]. destruct (rev (map elem_of wit)); [|discriminate]. destruct (bytes_eqb _ _); discriminate. }
    destruct (rev (map elem_of wit)); [|discriminate]. destruct (negb _); discriminate.
Qed.

(* (c) for P2WSH, composed with any soundness statement of the evaluator against the Script semantics
   (Properties/C13.v instantiates [Hev] with interp_sound_partial): model-of-from_txdata Ok + the
   evaluator accepts on the stack it was handed + the chosen script is the encoding of the miniscript the
   evaluator runs + the standardness bounds  =>  the specification's verify_spend accepts *)
Lemma from_txdata_interp_wsh :
  forall e fe co spk ssig wit sb st code (s : script) (ev_accepts : Prop),
    from_txdata e fe spk ssig wit = FOk (InScript sb StWsh) st code ->
    parse_script sb = Some s ->
    (ev_accepts -> accepts (with_sv e SvWitnessV0) s (map conc st) = true) ->
    N.leb (blen sb) 3600 = true -> N.leb (N.of_nat (length st)) 100 = true ->
    forallb (fun it => N.leb (blen it) 80) (map conc st) = true -> N.leb (count_nonpush_ops s) 201 = true ->
    ev_accepts ->
    verify_spend e co spk ssig wit = true.
Proof.
  intros e fe co spk ssig wit sb st code s ev H P Hev L1 L2 L3 L4 A.
  destruct (from_txdata_sound_wsh _ _ co _ _ _ _ _ _ H) as [_ ->]. unfold wsh_body.
  rewrite P, L1, L3, L4, map_length, L2. cbn [andb].
  assert (N.leb (blen sb) 10000 = true) as ->.
  { apply N.leb_le. apply N.leb_le in L1. lia. }
  cbn [andb]. specialize (Hev A). unfold accepts in Hev. unfold final_ok.
  destruct (exec (with_sv e SvWitnessV0) s {| stk := map conc st; alt := [] |}); exact Hev.
Qed.

(* (b) for P2WSH: a spend the specification accepts, whose witness script the library decodes, is not
   refused by the model of from_txdata *)
Lemma from_txdata_complete_wsh :
  forall e fe co spk ssig wit prog,
    spk_is_p2wsh spk = Some prog ->
    verify_spend e co spk ssig wit = true ->
    (forall sb, hd_error (rev wit) = Some sb -> f_dec fe DSegv0 sb = true) ->
    exists sb st, from_txdata e fe spk ssig wit = FOk (InScript sb StWsh) st (Some sb) /\ rev wit = sb :: map conc st.
Proof.
  intros e fe co spk ssig wit prog W V D. unfold verify_spend in V. rewrite W in V.
  destruct ssig; [|discriminate]. unfold verify_wsh in V.
  destruct (rev wit) as [|sb items] eqn:RW; [discriminate|].
  repeat (apply andb_true_iff in V; destruct V as [V ?]).
  apply ftx_bytes_eqb_eq in V.
  assert (SH : exists p, spk = 0 :: 32 :: p /\ p = prog /\ N.eqb (blen p) 32 = true).
  { clear - W. unfold spk_is_p2wsh in W. destruct spk as [|a [|b0 p]]; [discriminate|destruct a; discriminate|].
    destruct a; [|discriminate]. destruct b0 as [|q]; [discriminate|].
    do 6 (destruct q as [q|q|]; try discriminate).
    destruct (N.eqb (blen p) 32) eqn:LP; [|discriminate]. injection W as <-. exists p. repeat split. exact LP. }
  destruct SH as (p & -> & -> & LP).
  exists sb, (rev (map elem_of (rev items))).
  assert (WS : rev (map elem_of wit) = elem_of sb :: rev (map elem_of (rev items))).
  { rewrite <- (rev_involutive wit), RW. cbn [rev]. rewrite map_app, rev_app_distr. reflexivity. }
  split.
  - unfold from_txdata. cbn [ssig_stack_of length lex_bytes elems_of_toks].
    cbn [spk_is_p2pk spk_is_p2pkh]. unfold spk_is_p2wpkh. unfold spk_is_p2wsh. rewrite LP. rewrite WS.
    rewrite conc_elem_of. rewrite (D sb eq_refl). cbn [negb]. subst prog. unfold p2wsh_bytes.
    rewrite ftx_bytes_eqb_refl. reflexivity.
  - rewrite conc_wit_stack, rev_involutive. reflexivity.
Qed.

(* non-vacuity: a toy environment where the model answers Ok on a P2WSH spend *)
Definition ftx_toy_env : env :=
  mkEnv SvBase 0 0 2 (fun _ _ => true) (fun _ => true)
        (fun _ => repeat 7 32) (fun _ => []) (fun _ => []) (fun _ => repeat 9 20).
Definition ftx_toy_fenv : fenv := mkFenv (fun _ _ => true) (fun _ => Some true) (fun _ => true) (fun _ _ => true).
Definition ftx_toy_spk : bytes := 0 :: 32 :: repeat 7 32.

Lemma ftx_nonvacuous :
  from_txdata ftx_toy_env ftx_toy_fenv ftx_toy_spk [] [[5; 5]; [81]]
  = FOk (InScript [81] StWsh) [EPush [5; 5]] (Some [81]).
Proof. vm_compute. reflexivity. Qed.

(* OP_2 .. OP_16 / OP_1NEGATE in a scriptSig: push-only for the specification, ExpectedPush for from_txdata
   (miniscript witnesses never contain them; stated so that completeness is not over-claimed) *)
Lemma ftx_opn_expected_push :
  pushonly_stack [INum 2] [] = Some [[2]] /\ parse_script [82] = Some [INum 2] /\
  from_txdata ftx_toy_env ftx_toy_fenv (169 :: 20 :: repeat 9 20 ++ [135]) [82] [] = FErr FExpectedPush.
Proof. vm_compute. repeat split; reflexivity. Qed.
