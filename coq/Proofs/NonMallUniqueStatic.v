(* C03, table level: the classical reading of the malleability flags, as statements about the
   specification table alone (no satisfier in the statement).  For a fragment typed `m`
   (non-malleable), with no repeated keys, and ANY asset set B that holds no signature for the
   fragment's keys (B may know every preimage, and meets whatever locks it meets):
     s  =>  B has no satisfaction in the table;
     f  =>  B has no dissatisfaction in the table;
     e  =>  B has exactly one dissatisfaction in the table.
   Obtained from the uniqueness invariant by letting B play the honest party as well. *)
From Verif Require Import Exec Ser Ast Types TypeCheck SatSpec Sat ExecLemmas TheoremA SatProofs
  CompleteProofs CompleteThresh CompleteNonMall HasSigProofs
  NonMallUnique NonMallUniqueThresh NonMallUniqueMulti NonMallUniqueMain.
From Coq Require Import Lia Permutation.

(* an asset set seen through the satisfier's interface *)
Definition se_of (B : assets) : senv :=
  mkSenv false (fun _ => 34%N)
         (fun k => match a_sig B k with Some _ => Some 72%N | None => None end)
         (fun kd h => match look B kd h with Some _ => true | None => false end)
         (a_after B) (a_older B).
Definition f_of (ke : keyenv) (B : assets) : fill := mkFill (kb ke) (a_sig B) (look B).

Lemma linked_of ke B : linked ke B (se_of B) (f_of ke B).
Proof.
  constructor; cbn; try reflexivity.
  - intros k. destruct (a_sig B k); split; congruence.
  - intros kd h. destruct (look B kd h); split; congruence.
Qed.
Lemma below_refl B : below B B.
Proof. constructor; auto. intros kd h p p' E1 E2. congruence. Qed.

(* the locks B meets are mutually compatible (one nLockTime, one nSequence) *)
Definition locks_ok (B : assets) : Prop :=
  (forall t1 t2, a_after B t1 = true -> a_after B t2 = true -> Bool.eqb (N.ltb t1 500000000) (N.ltb t2 500000000) = true) /\
  (forall t1 t2, a_older B t1 = true -> a_older B t2 = true -> Bool.eqb (rel_is_time t1) (rel_is_time t2) = true).

Lemma uwf_kwf : forall m, uwf m -> kwf m.
Proof.
  induction m using ms_ind'; cbn [uwf kwf]; try tauto; try (intros; exact I).
  intros [Hk Hw]. split; [exact Hk|]. clear Hk. induction H as [|x r Hx Hr IH]; [exact I|].
  destruct Hw as [H1 H2]. split; [apply Hx, H1 | apply IH, H2].
Qed.

Section Static.
  Variable ke : keyenv.
  Hypothesis Hksort : forall ks, Permutation (ksort ke ks) ks.
  Variable B : assets.
  Hypothesis HL : locks_ok B.
  Variable m : ms.
  Variable t : ty.
  Hypothesis Hwf : uwf m.
  Hypothesis Hnd : NoDup (ukeys m).
  Hypothesis Ht : type_of m = ROk t.
  Hypothesis Hnm : m_nm (t_mall t) = true.
  Hypothesis Hns : nosigs B (ukeys m).

  Let U := uniq_inv ke B (se_of B) (f_of ke B) (linked_of ke B) (proj1 HL) (proj2 HL) Hksort true m Hwf Hnd t Ht.

  (* s: every table satisfaction needs a signature of one of the fragment's keys *)
  Theorem static_signed_table : m_signed (t_mall t) = true -> all_sat ke B m = [].
  Proof.
    intros Hs. pose proof (u_js _ _ _ _ _ _ _ _ U Hnm) as Js.
    destruct (u_sig _ _ _ _ _ _ _ _ U Hs) as [Hi|Hg].
    - exact (j_imp _ _ _ _ _ _ Js Hi B (below_refl B)).
    - exact (j_sig _ _ _ _ _ _ Js Hg B (below_refl B) Hns).
  Qed.
  (* f: every table dissatisfaction needs a signature *)
  Theorem static_forced_table : m_dissat (t_mall t) = DNone -> all_dsat ke B m = [].
  Proof.
    intros Hd. pose proof (u_jd _ _ _ _ _ _ _ _ U Hnm) as Jd.
    destruct (u_dn _ _ _ _ _ _ _ _ U Hd) as [Hi|Hg].
    - exact (j_imp _ _ _ _ _ _ Jd Hi B (below_refl B)).
    - exact (j_sig _ _ _ _ _ _ Jd Hg B (below_refl B) Hns).
  Qed.
  (* e: exactly one table dissatisfaction, and it is built without any signature *)
  Theorem static_unique_dissat_table : m_dissat (t_mall t) = DUnique ->
    exists (l : list ph) (d : wit),
      Forall nosig l /\ fill_all (f_of ke B) l = Some (rev d) /\
      In d (all_dsat ke B m) /\ forall w', In w' (all_dsat ke B m) -> w' = d.
  Proof.
    intros Hd. pose proof (u_jd _ _ _ _ _ _ _ _ U Hnm) as Jd. pose proof (u_du _ _ _ _ _ _ _ _ U Hnm Hd) as Cl.
    destruct Cl as [Hstk [Hg _]]. destruct (s_stack (fst (sat_dissat ke (se_of B) false true m))) as [l| |] eqn:El; try discriminate.
    destruct (model_fillable ke B (se_of B) (f_of ke B) (linked_of ke B) false true m) as [Fd _].
    destruct (Fd l El) as [bs Hf]. exists l, (rev bs). split; [exact (j_bk _ _ _ _ _ _ Jd Hg l El)|]. split; [rewrite rev_involutive; exact Hf|].
    assert (Hlen : forall ks, length (ksort ke ks) = length ks) by (intros ks; apply Permutation_length, Hksort).
    split.
    - destruct (sat_in_table ke B (se_of B) (f_of ke B) (linked_of ke B) Hlen false true m (uwf_kwf m Hwf)) as [Gd _]. exact (Gd l bs El Hf).
    - apply (j_stk _ _ _ _ _ _ Jd l bs El Hf B (below_refl B)). intros k Hk Hs. exfalso. exact (Hs (Hns k Hk)).
  Qed.
End Static.

(* non-vacuity: thresh(2, pk(0), s:pk(1), s:pk(2)) is typed m, s and e; an asset set without signatures that
   opens every hash meets all hypotheses; its table has no satisfaction and exactly one dissatisfaction *)
Definition ux_B0 : assets :=
  mkAssets (fun _ => None) (fun _ => Some [9%N]) (fun _ => Some [9%N]) (fun _ => Some [9%N]) (fun _ => Some [9%N])
           (fun _ => false) (fun _ => false).
Lemma static_nonvacuous :
  (forall ks, Permutation (ksort c02x_ke ks) ks) /\ locks_ok ux_B0 /\ uwf c02x_thresh /\ NoDup (ukeys c02x_thresh) /\
  nosigs ux_B0 (ukeys c02x_thresh) /\
  (exists t, type_of c02x_thresh = ROk t /\ m_nm (t_mall t) = true /\ m_signed (t_mall t) = true /\ m_dissat (t_mall t) = DUnique) /\
  all_sat c02x_ke ux_B0 c02x_thresh = [] /\ all_dsat c02x_ke ux_B0 c02x_thresh = [[[]; []; []]].
Proof.
  split; [intros ks; apply Permutation_refl|]. split; [split; intros t1 t2 H; discriminate|].
  split; [cbn; repeat split; lia|]. split; [cbn; repeat constructor; cbn; intuition discriminate|].
  split; [intros k _; reflexivity|]. split; [eexists; split; [vm_compute; reflexivity | repeat split; reflexivity]|].
  split; vm_compute; reflexivity.
Qed.
