(* Non-vacuity of the descriptor-level C01 theorems: one concrete world in which EVERY hypothesis
   holds, for each output type, and in which the conclusion is re-established by plain evaluation
   (vm_compute of verify_* / verify_spend), independently of the theorems.
   Script: or_i(pk(K0),pk(K1)) with only K0's signature available, so the satisfaction is
   [sig; 01]: the item 01 exercises MINIMALIF and, in a scriptSig, the OP_1 form of the push. *)
From Verif Require Import Exec Ser Spend Ast Types TypeCheck SatSpec Sat ExecLemmas TheoremA SatProofs.
From Verif Require Import CodecSpec SerProofs EncProofs DescSpendModel DescSpendPush DescSpendProofs DescSpendBare.
From Coq Require Import Lia Permutation.
Local Open Scope N_scope.

Definition ex_sig : bytes := [48; 6; 2; 1; 1; 2; 1; 1; 1].
Definition ex_env : env :=
  mkEnv SvBase 0 0 2 (fun _ s => bytes_eqb s ex_sig) (fun _ => true)
        (fun _ => repeat 1 32) (fun _ => repeat 3 32) (fun _ => repeat 4 20) (fun _ => repeat 9 20).
Definition ex_ke : keyenv := mkKeyEnv (fun _ => 2 :: repeat 7 32) (fun _ => repeat 9 20) (fun l => l).
Definition ex_ke_tap : keyenv := mkKeyEnv (fun _ => repeat 7 32) (fun _ => repeat 9 20) (fun l => l).
Definition ex_avail (k : key) : option bytes := if k =? 0 then Some ex_sig else None.
Definition ex_A : assets :=
  mkAssets ex_avail (fun _ => None) (fun _ => None) (fun _ => None) (fun _ => None) (fun _ => false) (fun _ => false).
Definition ex_se (tap : bool) : senv :=
  mkSenv tap (fun _ => if tap then 33 else 34) (fun k => if k =? 0 then Some (if tap then 64 else 72) else None)
         (fun _ _ => false) (fun _ => false) (fun _ => false).
Definition ex_f (ke : keyenv) : fill := mkFill (kb ke) ex_avail (fun _ _ => None).
Definition ex_m : ms := MOrI (MCheck (MPkK 0)) (MCheck (MPkK 1)).
Definition ex_bs : list bytes := [ex_sig; [1]].
Definition ex_cb : bytes := 192 :: repeat 5 32.
Definition ex_outkey : bytes := repeat 6 32.
Definition ex_commit (s c : bytes) : bool := bytes_eqb c ex_cb.

(* everything the spend theorems assume about the world, the script and the satisfaction *)
Definition common_hyps (e : env) (sv : sigversion) (c : ctx) (ke : keyenv) (A : assets) (se : senv) (f : fill)
           (mall rhs : bool) (m : ms) (bs : list bytes) : Prop :=
  linked ke A se f /\ ksort_ok ke /\ (forall kbs, e_sigok e kbs [] = false) /\
  (exists t, type_of m = ROk t /\ c_base (t_corr t) = BB) /\ no_multi m /\
  satisfy ke se f mall rhs m = Some bs /\
  assets_ok (with_sv e sv) ke A /\ wf (with_sv e sv) ke m /\ ms_wf c ke m.

Lemma is_bytes_b (b : bytes) : forallb (fun x => N.ltb x 256) b = true -> is_bytes b.
Proof.
  intros H. unfold is_bytes. apply Forall_forall. intros x Hx.
  rewrite forallb_forall in H. apply N.ltb_lt. apply H. exact Hx.
Qed.

Lemma ex_linked ke tap : linked ke ex_A (ex_se tap) (ex_f ke).
Proof.
  constructor; cbn; try reflexivity.
  - intros k. unfold ex_avail. destruct (k =? 0); split; intros H; congruence.
  - intros kd h; destruct kd; reflexivity.
  - intros kd h. destruct kd; cbn; split; intros H; congruence.
Qed.

Lemma ex_assets_ok sv ke : (forall k, 0 < blen (kb ke k) < 2147483648) -> (forall k, kh ke k = repeat 9 20) ->
  assets_ok (with_sv ex_env sv) ke ex_A.
Proof.
  intros Hl Hh. constructor; cbn; try discriminate; try reflexivity.
  - intros k s. unfold ex_avail. destruct (k =? 0); [|discriminate]. intros H. inversion H; subst.
    split; [reflexivity | vm_compute; split; reflexivity].
  - exact Hl.
  - intros k. symmetry. apply Hh.
Qed.

Lemma ex_common sv c ke tap : (forall k, 0 < blen (kb ke k) < 2147483648) -> (forall k, kh ke k = repeat 9 20) ->
  ksort ke = (fun l => l) -> ms_wf c ke ex_m ->
  satisfy ke (ex_se tap) (ex_f ke) false true ex_m = Some [ex_sig; [1]] ->
  common_hyps ex_env sv c ke ex_A (ex_se tap) (ex_f ke) false true ex_m ex_bs.
Proof.
  intros Hl Hh Hs Hw Hsat. unfold common_hyps.
  split; [apply ex_linked|]. split; [intros ks; rewrite Hs; apply Permutation_refl|].
  split; [intros kbs; reflexivity|]. split; [eexists; split; vm_compute; reflexivity|].
  split; [cbn; tauto|]. split; [exact Hsat|]. split; [apply ex_assets_ok; assumption|].
  split; [cbn; tauto | exact Hw].
Qed.

Lemma ex_ke_len k : 0 < blen (kb ex_ke k) < 2147483648.
Proof. vm_compute. split; reflexivity. Qed.
Lemma ex_ke_tap_len k : 0 < blen (kb ex_ke_tap k) < 2147483648.
Proof. vm_compute. split; reflexivity. Qed.

Lemma ex_common_v0 : common_hyps ex_env SvWitnessV0 Segwitv0 ex_ke ex_A (ex_se false) (ex_f ex_ke) false true ex_m ex_bs.
Proof. apply ex_common; try reflexivity; [exact ex_ke_len | vm_compute; tauto]. Qed.
Lemma ex_common_legacy : common_hyps ex_env SvBase Legacy ex_ke ex_A (ex_se false) (ex_f ex_ke) false true ex_m ex_bs.
Proof. apply ex_common; try reflexivity; [exact ex_ke_len | vm_compute; tauto]. Qed.
Lemma ex_common_bare : common_hyps ex_env SvBase Bare ex_ke ex_A (ex_se false) (ex_f ex_ke) false true ex_m ex_bs.
Proof. apply ex_common; try reflexivity; [exact ex_ke_len | vm_compute; tauto]. Qed.
Lemma ex_common_tap : common_hyps ex_env SvTapscript Tap ex_ke_tap ex_A (ex_se true) (ex_f ex_ke_tap) false true ex_m ex_bs.
Proof. apply ex_common; try reflexivity; [exact ex_ke_tap_len | vm_compute; tauto]. Qed.

Definition ex_sb : bytes := encode ex_ke ex_m.
Definition ex_sb_tap : bytes := encode ex_ke_tap ex_m.

(* P2WSH (and its dispatcher form) *)
Lemma ex_wsh :
  common_hyps ex_env SvWitnessV0 Segwitv0 ex_ke ex_A (ex_se false) (ex_f ex_ke) false true ex_m ex_bs /\
  blen (e_sha256 ex_env ex_sb) = 32 /\
  blen ex_sb <= 3600 /\ N.of_nat (length ex_bs) <= 100 /\ forallb (fun it => N.leb (blen it) 80) (rev ex_bs) = true /\
  count_nonpush_ops (enc ex_ke ex_m) <= 201 /\
  verify_wsh ex_env (e_sha256 ex_env ex_sb) (ex_bs ++ [ex_sb]) = true /\
  verify_spend ex_env ex_commit (spk_wsh ex_env ex_sb) [] (ex_bs ++ [ex_sb]) = true.
Proof.
  split; [exact ex_common_v0|]. repeat split; try (vm_compute; reflexivity); vm_compute; discriminate.
Qed.

(* P2SH: the scriptSig produced by witness_to_scriptsig *)
Definition ex_ss_sh : script := [IPush ex_sig; INum 1; IPush ex_sb].
Lemma ex_sh :
  common_hyps ex_env SvBase Legacy ex_ke ex_A (ex_se false) (ex_f ex_ke) false true ex_m ex_bs /\
  blen (e_hash160 ex_env ex_sb) = 20 /\
  Forall is_bytes ex_bs /\ is_bytes ex_sb /\
  witness_to_scriptsig (ex_bs ++ [ex_sb]) = Some ex_ss_sh /\
  blen (serialize ex_ss_sh) <= 1650 /\ count_nonpush_ops (enc ex_ke ex_m) <= 201 /\
  verify_sh ex_env (e_hash160 ex_env ex_sb) (serialize ex_ss_sh) [] = true /\
  verify_spend ex_env ex_commit (spk_sh ex_env ex_sb) (serialize ex_ss_sh) [] = true.
Proof.
  split; [exact ex_common_legacy|]. repeat split; try (vm_compute; reflexivity); try (vm_compute; discriminate).
  - repeat constructor; apply is_bytes_b; vm_compute; reflexivity.
  - apply is_bytes_b; vm_compute; reflexivity.
Qed.

(* Why witness_to_scriptsig has to be modelled faithfully: in the same world, the scriptSig that
   pushes every item as DATA (push_slice: 01 01 for the item 01 instead of OP_1) is not even
   parsed by the specification side (MINIMALDATA: Ser.push_minimal), so the spend is rejected. *)
Lemma ex_sh_plain_pushes_rejected :
  common_hyps ex_env SvBase Legacy ex_ke ex_A (ex_se false) (ex_f ex_ke) false true ex_m ex_bs /\
  Forall is_bytes ex_bs /\ is_bytes ex_sb /\
  blen (serialize (map IPush (ex_bs ++ [ex_sb]))) <= 1650 /\ count_nonpush_ops (enc ex_ke ex_m) <= 201 /\
  parse_script (serialize (map IPush (ex_bs ++ [ex_sb]))) = None /\
  verify_sh ex_env (e_hash160 ex_env ex_sb) (serialize (map IPush (ex_bs ++ [ex_sb]))) [] = false.
Proof.
  split; [exact ex_common_legacy|]. repeat split; try (vm_compute; reflexivity); try (vm_compute; discriminate).
  - repeat constructor; apply is_bytes_b; vm_compute; reflexivity.
  - apply is_bytes_b; vm_compute; reflexivity.
Qed.

(* P2SH-P2WSH *)
Lemma ex_shwsh :
  common_hyps ex_env SvWitnessV0 Segwitv0 ex_ke ex_A (ex_se false) (ex_f ex_ke) false true ex_m ex_bs /\
  blen (e_sha256 ex_env ex_sb) = 32 /\ blen (e_hash160 ex_env (spk_wsh ex_env ex_sb)) = 20 /\
  blen ex_sb <= 3600 /\ N.of_nat (length ex_bs) <= 100 /\ forallb (fun it => N.leb (blen it) 80) (rev ex_bs) = true /\
  count_nonpush_ops (enc ex_ke ex_m) <= 201 /\
  verify_sh ex_env (e_hash160 ex_env (spk_wsh ex_env ex_sb)) (ssig_shwsh ex_env ex_sb) (ex_bs ++ [ex_sb]) = true /\
  verify_spend ex_env ex_commit (spk_shwsh ex_env ex_sb) (ssig_shwsh ex_env ex_sb) (ex_bs ++ [ex_sb]) = true.
Proof.
  split; [exact ex_common_v0|]. repeat split; try (vm_compute; reflexivity); vm_compute; discriminate.
Qed.

(* bare *)
Definition ex_ss_bare : script := [IPush ex_sig; INum 1].
Lemma ex_bare :
  common_hyps ex_env SvBase Bare ex_ke ex_A (ex_se false) (ex_f ex_ke) false true ex_m ex_bs /\
  Forall is_bytes ex_bs /\
  witness_to_scriptsig ex_bs = Some ex_ss_bare /\
  blen (serialize ex_ss_bare) <= 1650 /\ blen ex_sb <= 10000 /\ count_nonpush_ops (enc ex_ke ex_m) <= 201 /\
  verify_bare ex_env ex_sb (serialize ex_ss_bare) [] = true /\
  verify_spend ex_env ex_commit (spk_bare ex_sb) (serialize ex_ss_bare) [] = true.
Proof.
  split; [exact ex_common_bare|]. repeat split; try (vm_compute; reflexivity); try (vm_compute; discriminate).
  repeat constructor; apply is_bytes_b; vm_compute; reflexivity.
Qed.

(* P2TR script path, satisfier in tap mode *)
Lemma ex_tr :
  se_tap (ex_se true) = true /\
  common_hyps ex_env SvTapscript Tap ex_ke_tap ex_A (ex_se true) (ex_f ex_ke_tap) false true ex_m ex_bs /\
  blen ex_outkey = 32 /\ ex_commit ex_sb_tap ex_cb = true /\ not_annex ex_cb /\
  N.of_nat (length ex_bs) <= 1000 /\ forallb (fun it => N.leb (blen it) 520) (rev ex_bs) = true /\
  verify_tr ex_env ex_outkey ex_commit [] (ex_bs ++ [ex_sb_tap; ex_cb]) = true /\
  verify_spend ex_env ex_commit (spk_tr ex_outkey) [] (ex_bs ++ [ex_sb_tap; ex_cb]) = true.
Proof.
  split; [reflexivity|]. split; [exact ex_common_tap|].
  repeat split; try (vm_compute; reflexivity); try (vm_compute; discriminate).
Qed.

(* key-only: P2WPKH and P2SH-P2WPKH *)
Definition ex_key : bytes := 2 :: repeat 7 32.
Lemma ex_wpkh :
  blen ex_key = 33 /\ blen (e_hash160 ex_env ex_key) = 20 /\ blen (e_hash160 ex_env (spk_wpkh ex_env ex_key)) = 20 /\
  e_keyok (with_sv ex_env SvWitnessV0) ex_key = true /\ e_sigok ex_env ex_key ex_sig = true /\ ex_sig <> [] /\
  verify_spend ex_env ex_commit (spk_wpkh ex_env ex_key) [] [ex_sig; ex_key] = true /\
  verify_spend ex_env ex_commit (spk_shwpkh ex_env ex_key) (ssig_shwpkh ex_env ex_key) [ex_sig; ex_key] = true.
Proof. repeat split; try (vm_compute; reflexivity). discriminate. Qed.

(* pkh(K): compressed and uncompressed key (Proofs/DescSpendKeyOnly.v) *)
From Verif Require Import DescSpendKeyOnly.
Definition ex_key_unc : bytes := 4 :: repeat 7 64.
Lemma ex_pkh :
  (blen ex_key = 33 /\ blen ex_key_unc = 65) /\
  blen (e_hash160 ex_env ex_key) = 20 /\ blen (e_hash160 ex_env ex_key_unc) = 20 /\
  e_keyok (with_sv ex_env SvBase) ex_key = true /\ e_keyok (with_sv ex_env SvBase) ex_key_unc = true /\
  e_sigok ex_env ex_key ex_sig = true /\ e_sigok ex_env ex_key_unc ex_sig = true /\
  2 <= blen ex_sig /\ blen (ssig_pkh ex_sig ex_key) <= 1650 /\ blen (ssig_pkh ex_sig ex_key_unc) <= 1650 /\
  verify_bare ex_env (spk_pkh ex_env ex_key) (ssig_pkh ex_sig ex_key) [] = true /\
  verify_spend ex_env ex_commit (spk_pkh ex_env ex_key) (ssig_pkh ex_sig ex_key) [] = true /\
  verify_spend ex_env ex_commit (spk_pkh ex_env ex_key_unc) (ssig_pkh ex_sig ex_key_unc) [] = true.
Proof. repeat split; try (vm_compute; reflexivity); vm_compute; discriminate. Qed.

(* taproot key path: a 64-byte signature (default sighash) and a 65-byte one, verified against the
   output key; the annex form is rejected *)
Definition ex_sig64 : bytes := repeat 8 64.
Definition ex_sig65 : bytes := repeat 8 64 ++ [1].
Definition ex_env_tr : env :=
  mkEnv SvBase 0 0 2 (fun k s => bytes_eqb k ex_outkey && (bytes_eqb s ex_sig64 || bytes_eqb s ex_sig65))
        (fun _ => true) (fun _ => repeat 1 32) (fun _ => repeat 3 32) (fun _ => repeat 4 20) (fun _ => repeat 9 20).
Lemma ex_tr_keypath :
  blen ex_outkey = 32 /\ blen ex_sig64 = 64 /\ blen ex_sig65 = 65 /\
  e_sigok ex_env_tr ex_outkey ex_sig64 = true /\ e_sigok ex_env_tr ex_outkey ex_sig65 = true /\
  verify_tr ex_env_tr ex_outkey ex_commit [] (wit_tr_keypath ex_sig64) = true /\
  verify_spend ex_env_tr ex_commit (spk_tr ex_outkey) [] (wit_tr_keypath ex_sig64) = true /\
  verify_spend ex_env_tr ex_commit (spk_tr ex_outkey) [] (wit_tr_keypath ex_sig65) = true /\
  verify_spend ex_env_tr ex_commit (spk_tr ex_outkey) [] [ex_sig64; 80 :: [1; 2]] = false.
Proof. repeat split; vm_compute; reflexivity. Qed.
