(* C07 — Policy::normalized (as modelled in LiftModel.v) preserves the truth table and the
   Threshold invariant 1 <= k <= n. *)
From Verif Require Import Ast SatSpec LiftModel LiftProofs.
From Coq Require Import Lia.

Lemma lwf_thresh k ps : lwf (LThresh k ps) <-> (1 <= N.to_nat k <= length ps)%nat /\ Forall lwf ps.
Proof.
  assert (G : forall l, (fix go (l : list lpolicy) : Prop := match l with [] => True | x :: r => lwf x /\ go r end) l
                       <-> Forall lwf l).
  { induction l as [|x r IH]; [split; constructor|]. split.
    - intros [H1 H2]. constructor; [exact H1 | apply IH, H2].
    - intros H. inversion H; subst. split; [assumption | apply IH; assumption]. }
  change (lwf (LThresh k ps)) with
    ((1 <= N.to_nat k <= length ps)%nat /\
     (fix go (l : list lpolicy) : Prop := match l with [] => True | x :: r => lwf x /\ go r end) ps).
  rewrite G. reflexivity.
Qed.

Definition nonconst (p : lpolicy) : bool := negb (is_trivial p) && negb (is_unsat p).
Definition ncs (subs : list lpolicy) : list lpolicy := filter nonconst subs.

Definition norm_finish (m : nat) (is_and is_or : bool) (ret_subs : list lpolicy) : lpolicy :=
  if Nat.ltb (length ret_subs) m then LUnsat
  else match ret_subs with
       | [p] => p
       | _ =>
         if is_and then LThresh (N.of_nat (length ret_subs)) ret_subs
         else if is_or then LThresh 1 ret_subs
         else LThresh (N.of_nat m) ret_subs
       end.

Lemma norm_node_eq k subs :
  norm_node k subs =
  let m := (N.to_nat k - length (filter is_trivial subs))%nat in
  let n := (length subs - length (filter is_unsat subs) - length (filter is_trivial subs))%nat in
  if Nat.eqb m 0 then LTrivial
  else norm_finish m (Nat.eqb m n) (Nat.eqb m 1) (flat_map (norm_contrib (Nat.eqb m n) (Nat.eqb m 1)) subs).
Proof. reflexivity. Qed.

Section Norm.
  Variable A : assets.
  Notation ev := (leval A).

  Lemma count_split subs :
    count_true (map ev subs) = (length (filter is_trivial subs) + count_true (map ev (ncs subs)))%nat
    /\ length subs = (length (filter is_trivial subs) + length (filter is_unsat subs) + length (ncs subs))%nat.
  Proof.
    induction subs as [|p r [IH1 IH2]]; [split; reflexivity|].
    assert (C : (is_trivial p = true /\ is_unsat p = false /\ ev p = true)
                \/ (is_trivial p = false /\ is_unsat p = true /\ ev p = false)
                \/ (is_trivial p = false /\ is_unsat p = false)) by (destruct p; auto).
    unfold ncs, nonconst in *. cbn [filter map length]. rewrite count_true_cons.
    destruct C as [[E1 [E2 E3]]|[[E1 [E2 E3]]|[E1 E2]]]; rewrite E1, E2; try rewrite E3;
      cbn [negb andb filter map length]; rewrite ?count_true_cons; try destruct (ev p); lia.
  Qed.

  Lemma contrib_same ia io subs : Bool.eqb ia io = true -> flat_map (norm_contrib ia io) subs = ncs subs.
  Proof.
    intros E. induction subs as [|p r IH]; [reflexivity|].
    cbn [flat_map]. rewrite IH. unfold ncs. destruct p; destruct ia, io; try discriminate E; reflexivity.
  Qed.

  Lemma ev_thresh k ps : ev (LThresh k ps) = Nat.leb (N.to_nat k) (count_true (map ev ps)).
  Proof. reflexivity. Qed.

  Lemma contrib_and subs : forallb ev (flat_map (norm_contrib true false) subs) = forallb ev (ncs subs).
  Proof.
    induction subs as [|p r IH]; [reflexivity|].
    cbn [flat_map]. rewrite forallb_app, IH. unfold ncs.
    destruct p; cbn [norm_contrib filter nonconst is_trivial is_unsat negb andb forallb];
      rewrite ?andb_true_r; try reflexivity.
    destruct (Nat.eqb_spec (N.to_nat k) (length ps)) as [E|E].
    - rewrite ev_thresh, E, leb_len_forallb. reflexivity.
    - cbn [forallb]. rewrite andb_true_r. reflexivity.
  Qed.
  Lemma contrib_and_len subs : Forall lwf subs ->
    (length (ncs subs) <= length (flat_map (norm_contrib true false) subs))%nat.
  Proof.
    induction 1 as [|p r Hp Hr IH]; [cbn; lia|].
    cbn [flat_map]. rewrite app_length. unfold ncs in *.
    destruct p; cbn [norm_contrib filter nonconst is_trivial is_unsat negb andb length]; try lia.
    apply lwf_thresh in Hp. destruct Hp as [Hb _].
    destruct (Nat.eqb (N.to_nat k) (length ps)); cbn [length]; lia.
  Qed.
  Lemma contrib_or subs : existsb ev (flat_map (norm_contrib false true) subs) = existsb ev (ncs subs).
  Proof.
    induction subs as [|p r IH]; [reflexivity|].
    cbn [flat_map]. rewrite existsb_app, IH. unfold ncs.
    destruct p; cbn [norm_contrib filter nonconst is_trivial is_unsat negb andb existsb];
      rewrite ?orb_false_r; try reflexivity.
    destruct (N.eqb_spec k 1) as [E|E].
    - rewrite ev_thresh, E. change (N.to_nat 1) with 1%nat. rewrite leb_one_existsb. reflexivity.
    - cbn [existsb]. rewrite orb_false_r. reflexivity.
  Qed.
  Lemma contrib_lwf ia io subs : Forall lwf subs -> Forall lwf (flat_map (norm_contrib ia io) subs).
  Proof.
    induction 1 as [|p r Hp Hr IH]; [constructor|].
    cbn [flat_map]. apply Forall_app. split; [|exact IH].
    destruct p; cbn [norm_contrib]; try (constructor; [exact Hp | constructor]); try constructor.
    pose proof (proj1 (lwf_thresh _ _) Hp) as [_ Hc].
    destruct ia, io; try (constructor; [exact Hp | constructor]).
    - destruct (Nat.eqb (N.to_nat k) (length ps)); [exact Hc | constructor; [exact Hp | constructor]].
    - destruct (N.eqb k 1); [exact Hc | constructor; [exact Hp | constructor]].
  Qed.

  Lemma norm_node_leval k subs : Forall lwf subs -> ev (norm_node k subs) = ev (LThresh k subs).
  Proof.
    intros Hw. rewrite norm_node_eq, ev_thresh.
    destruct (count_split subs) as [Hc Hl]. rewrite Hc.
    set (K := N.to_nat k). set (T := length (filter is_trivial subs)) in *.
    set (U := length (filter is_unsat subs)) in *. set (c := count_true (map ev (ncs subs))).
    assert (Hn : (length subs - U - T)%nat = length (ncs subs)) by lia. cbv zeta. rewrite Hn.
    pose proof (count_true_le (map ev (ncs subs))) as Hcl. rewrite map_length in Hcl. fold c in Hcl.
    destruct (Nat.eqb_spec (K - T) 0) as [E0|E0].
    { cbn [leval]. symmetry. apply Nat.leb_le. lia. }
    assert (Em : Nat.leb K (T + c) = Nat.leb (K - T) c).
    { destruct (Nat.leb_spec K (T + c)), (Nat.leb_spec (K - T) c); try reflexivity; lia. }
    rewrite Em. set (m := (K - T)%nat) in *.
    destruct (Nat.eqb_spec m (length (ncs subs))) as [Ea|Ea]; destruct (Nat.eqb_spec m 1) as [Eo|Eo].
    - (* m = n = 1 *)
      rewrite contrib_same by reflexivity. unfold norm_finish. unfold c in *.
      destruct (ncs subs) as [|p [|q r']]; cbn [length] in *; try lia.
      rewrite Eo. cbn [Nat.ltb Nat.leb map]. rewrite count_true_cons. destruct (ev p); reflexivity.
    - (* and *)
      pose proof (contrib_and_len subs Hw) as Hlen. pose proof (contrib_and subs) as Hall.
      unfold norm_finish. set (ret := flat_map (norm_contrib true false) subs) in *.
      destruct (Nat.ltb_spec (length ret) m) as [Hlt|Hge]; [lia|].
      destruct ret as [|p [|q r']] eqn:Er; cbn [length] in *; try lia.
      rewrite ev_thresh, Nat2N.id. change (S (S (length r'))) with (length (p :: q :: r')).
      rewrite leb_len_forallb, Hall, <- leb_len_forallb, <- Ea. reflexivity.
    - (* or *)
      assert (Hex : existsb ev (flat_map (norm_contrib false true) subs) = Nat.leb 1 c).
      { rewrite contrib_or. unfold c. symmetry. apply leb_one_existsb. }
      unfold norm_finish. set (ret := flat_map (norm_contrib false true) subs) in *.
      rewrite Eo, <- Hex. destruct ret as [|p [|q r']] eqn:Er.
      + reflexivity.
      + cbn [length Nat.ltb Nat.leb existsb]. rewrite orb_false_r. reflexivity.
      + cbn [length Nat.ltb Nat.leb]. rewrite ev_thresh. change (N.to_nat 1) with 1%nat.
        rewrite leb_one_existsb. reflexivity.
    - (* general threshold *)
      rewrite contrib_same by reflexivity. unfold norm_finish.
      destruct (Nat.ltb_spec (length (ncs subs)) m) as [Hlt|Hge].
      + cbn [leval]. symmetry. apply Nat.leb_gt. lia.
      + destruct (ncs subs) as [|p [|q r']] eqn:Er; cbn [length] in *; try lia.
        rewrite ev_thresh, Nat2N.id. reflexivity.
  Qed.

  Lemma norm_node_lwf k subs : Forall lwf subs -> lwf (norm_node k subs).
  Proof.
    intros Hw. rewrite norm_node_eq. cbv zeta.
    set (m := (N.to_nat k - length (filter is_trivial subs))%nat).
    set (n := (length subs - length (filter is_unsat subs) - length (filter is_trivial subs))%nat).
    destruct (Nat.eqb_spec m 0) as [E0|E0]; [exact I|].
    pose proof (contrib_lwf (Nat.eqb m n) (Nat.eqb m 1) subs Hw) as Hr.
    unfold norm_finish. set (ret := flat_map _ subs) in *.
    destruct (Nat.ltb_spec (length ret) m) as [Hlt|Hge]; [exact I|].
    destruct ret as [|p [|q r']] eqn:Er.
    - cbn [length] in Hge. lia.
    - inversion Hr; assumption.
    - destruct (Nat.eqb m n); [|destruct (Nat.eqb m 1)]; apply lwf_thresh; (split; [|exact Hr]);
        rewrite ?Nat2N.id; change (N.to_nat 1) with 1%nat; cbn [length] in *; lia.
  Qed.

  Lemma normalized_lwf : forall p, lwf p -> lwf (normalized p).
  Proof.
    induction p using lpolicy_ind'; intros Hw; try exact I.
    cbn [normalized]. apply norm_node_lwf. apply lwf_thresh in Hw. destruct Hw as [_ Hc].
    clear k. induction H as [|x r Hx Hr IH]; [constructor|]. inversion Hc; subst.
    cbn [map]. constructor; auto.
  Qed.

  Theorem normalized_leval : forall p, lwf p -> ev (normalized p) = ev p.
  Proof.
    induction p using lpolicy_ind'; intros Hw; try reflexivity.
    cbn [normalized]. apply lwf_thresh in Hw. destruct Hw as [_ Hc].
    rewrite norm_node_leval.
    - rewrite !ev_thresh. f_equal. f_equal. rewrite map_map. clear k.
      induction H as [|x r Hx Hr IH]; [reflexivity|]. inversion Hc; subst. cbn [map]. f_equal; auto.
    - clear k. induction H as [|x r Hx Hr IH]; [constructor|]. inversion Hc; subst.
      cbn [map]. constructor; [apply normalized_lwf; assumption | auto].
  Qed.
End Norm.
