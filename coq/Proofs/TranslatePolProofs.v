(* C20 (extension) — proofs about the policy translation / key-iteration model (Ms/TranslatePolModel.v). *)
From Coq Require Import Lia Permutation.
From Verif Require Import TranslatePolModel TranslateProofs EqOrdPolProofs.

(* ------------------------------------------------------------------ small list facts *)
Lemma forallb_flat_map {A B} (p : B -> bool) (g : A -> list B) l :
  forallb p (flat_map g l) = forallb (fun x => forallb p (g x)) l.
Proof. induction l as [|x r IH]; cbn; [reflexivity|]. rewrite forallb_app, IH. reflexivity. Qed.

Lemma forallb_false_ex {A} (p : A -> bool) l : forallb p l = false -> exists x, In x l /\ p x = false.
Proof.
  induction l as [|x r IH]; cbn; [discriminate|]. destruct (p x) eqn:E; cbn.
  - intro H. destruct (IH H) as [y [Hy Hp]]. exists y. auto.
  - intros _. exists x. auto.
Qed.

Lemma combine_fst_snd {A B} (l : list (A * B)) : combine (map fst l) (map snd l) = l.
Proof. induction l as [|[a b] r IH]; cbn; [reflexivity | rewrite IH; reflexivity]. Qed.

Lemma flat_map_map' {A B C} (g : B -> list C) (h : A -> B) l : flat_map g (map h l) = flat_map (fun x => g (h x)) l.
Proof. induction l as [|x r IH]; cbn; [reflexivity | rewrite IH; reflexivity]. Qed.

Lemma rev_flat_perm {A B} (g g' : A -> list B) l :
  Forall (fun x => Permutation (g x) (g' x)) l -> Permutation (rev_flat g l) (flat_map g' l).
Proof.
  induction 1 as [|x r Hx Hr IH]; cbn; [constructor|].
  etransitivity; [apply Permutation_app_comm|]. apply Permutation_app; assumption.
Qed.

(* ------------------------------------------------------------------ the loop computes the recursive translation *)
Section PRefinement.
  Variable f : N -> key -> option key.
  Variable fh : N -> hkind -> bytes -> option bytes.

  Notation prec := (ptr_rec f fh).
  Notation psteps := (prun_steps f fh).

  Lemma prun_steps_app st l1 l2 : psteps st (l1 ++ l2) = tbind (psteps st l1) (fun st' => psteps st' l2).
  Proof.
    revert st. induction l1 as [|x r IH]; intro st; cbn; [reflexivity|].
    destruct (pstep f fh st x); cbn; [apply IH | reflexivity | reflexivity].
  Qed.

  Lemma ppopn_app : forall l stk, ppopn (length l) (l ++ stk) = TOk (l, stk).
  Proof. induction l as [|x r IH]; intro stk; cbn; [reflexivity | rewrite IH; reflexivity]. Qed.

  Lemma rtl_mapM_length {A B} (g : N -> A -> tres (B * N)) : forall l n l' n',
    rtl_mapM g n l = TOk (l', n') -> length l' = length l.
  Proof.
    induction l as [|x r IH]; cbn; intros n l' n' H.
    - injection H as <- _. reflexivity.
    - destruct (rtl_mapM g n r) as [[r' n1]| |] eqn:E; cbn in H; try discriminate.
      destruct (g n1 x) as [[x' n2]| |]; cbn in H; try discriminate.
      injection H as <- _. cbn. f_equal. apply (IH _ _ _ E).
  Qed.

  (* the children of an n-ary node, right to left *)
  Lemma prun_children {A B} (node : A -> cpol) (proj : B -> cpol) (g : N -> A -> tres (B * N)) l :
    Forall (fun x => forall stk n, psteps (stk, n) (prtl_post (node x))
                                   = tbind (g n x) (fun r => TOk (proj (fst r) :: stk, snd r))) l ->
    forall stk n, psteps (stk, n) (rev_flat (fun x => prtl_post (node x)) l)
                  = tbind (rtl_mapM g n l) (fun q => TOk (map proj (fst q) ++ stk, snd q)).
  Proof.
    induction 1 as [|x r Hx Hr IH]; intros stk n; cbn; [reflexivity|].
    rewrite prun_steps_app, IH. destruct (rtl_mapM g n r) as [[r' n1]| |]; cbn; [|reflexivity|reflexivity].
    rewrite Hx. destruct (g n1 x) as [[x' n2]| |]; reflexivity.
  Qed.

  Definition or_g (n : N) (q : N * cpol) : tres ((N * cpol) * N) :=
    tbind (prec n (snd q)) (fun r => TOk ((fst q, fst r), snd r)).

  Lemma or_g_fst : forall l n res n', rtl_mapM or_g n l = TOk (res, n') -> map fst res = map fst l.
  Proof.
    induction l as [|x r IH]; cbn; intros n res n' H.
    - injection H as <- _. reflexivity.
    - destruct (rtl_mapM or_g n r) as [[r' n1]| |] eqn:E; cbn in H; try discriminate.
      unfold or_g at 1 in H. destruct (prec n1 (snd x)) as [[x' n2]| |]; cbn in H; try discriminate.
      injection H as <- _. cbn. f_equal. apply (IH _ _ _ E).
  Qed.

  Lemma prtl_post_and l : prtl_post (QAnd l) = rev_flat (fun x => prtl_post x) l ++ [QAnd l].
  Proof. reflexivity. Qed.
  Lemma prtl_post_thresh k l : prtl_post (QThresh k l) = rev_flat (fun x => prtl_post x) l ++ [QThresh k l].
  Proof. reflexivity. Qed.
  Lemma prtl_post_or l : prtl_post (QOr l) = rev_flat (fun q => prtl_post (snd q)) l ++ [QOr l].
  Proof. reflexivity. Qed.
  Lemma prec_and n l : prec n (QAnd l) = tbind (rtl_mapM prec n l) (fun q => TOk (QAnd (fst q), snd q)).
  Proof. reflexivity. Qed.
  Lemma prec_thresh n k l : prec n (QThresh k l) = tbind (rtl_mapM prec n l) (fun q => TOk (QThresh k (fst q), snd q)).
  Proof. reflexivity. Qed.
  Lemma prec_or n l : prec n (QOr l) = tbind (rtl_mapM or_g n l) (fun q => TOk (QOr (fst q), snd q)).
  Proof. reflexivity. Qed.

  Lemma prun_steps_refines : forall p stk n,
    psteps (stk, n) (prtl_post p) = tbind (prec n p) (fun r => TOk (fst r :: stk, snd r)).
  Proof.
    induction p using cpol_ind'; intros stk n.
    - destruct p; try contradiction; cbn; unfold call_k, call_h; try reflexivity.
      + destruct (f n k); reflexivity.
      + destruct (fh n HSha256 h); reflexivity.
      + destruct (fh n HHash256 h); reflexivity.
      + destruct (fh n HRipemd160 h); reflexivity.
      + destruct (fh n HHash160 h); reflexivity.
    - rewrite prtl_post_and, prun_steps_app, prec_and.
      rewrite (prun_children (fun x => x) (fun x => x) prec l) by exact H.
      destruct (rtl_mapM prec n l) as [[l' n1]| |] eqn:E; cbn; [|reflexivity|reflexivity].
      rewrite map_id, <- (rtl_mapM_length _ _ _ _ _ E), ppopn_app. reflexivity.
    - rewrite prtl_post_or, prun_steps_app, prec_or.
      rewrite (prun_children (fun q => snd q) (fun q => snd q) or_g l).
      + destruct (rtl_mapM or_g n l) as [[l' n1]| |] eqn:E; cbn; [|reflexivity|reflexivity].
        assert (L : length l = length (map snd l')) by (rewrite map_length; symmetry; apply (rtl_mapM_length _ _ _ _ _ E)).
        rewrite L, ppopn_app. cbn. rewrite <- (or_g_fst _ _ _ _ E), combine_fst_snd. reflexivity.
      + eapply Forall_impl; [|exact H]. intros q Hq stk' n'. cbn beta in Hq. rewrite Hq. unfold or_g.
        destruct (prec n' (snd q)) as [[x' n2]| |]; reflexivity.
    - rewrite prtl_post_thresh, prun_steps_app, prec_thresh.
      rewrite (prun_children (fun x => x) (fun x => x) prec l) by exact H.
      destruct (rtl_mapM prec n l) as [[l' n1]| |] eqn:E; cbn; [|reflexivity|reflexivity].
      rewrite map_id, <- (rtl_mapM_length _ _ _ _ _ E), ppopn_app. reflexivity.
  Qed.

  Theorem ptranslate_iter_refines p : ptranslate_iter f fh p = ptranslate f fh p.
  Proof.
    unfold ptranslate_iter, ptranslate. rewrite prun_steps_refines.
    destruct (prec 0 p) as [[p' n']| |]; reflexivity.
  Qed.

  (* the recursive translation has no panic site and no OuterError *)
  Definition plain {A} (r : tres A) : Prop :=
    match r with TOk _ => True | TErr (TranslatorErr _) => True | _ => False end.

  Lemma rtl_mapM_plain {A B} (g : N -> A -> tres (B * N)) l :
    Forall (fun x => forall n, plain (g n x)) l -> forall n, plain (rtl_mapM g n l).
  Proof.
    induction 1 as [|x r Hx Hr IH]; intro n; cbn; [exact I|].
    specialize (IH n). destruct (rtl_mapM g n r) as [[r' n1]|[]|]; cbn in *; try contradiction; try exact I.
    specialize (Hx n1). destruct (g n1 x) as [[x' n2]|[]|]; cbn in *; try contradiction; exact I.
  Qed.

  Lemma prec_plain : forall p n, plain (prec n p).
  Proof.
    induction p using cpol_ind'; intro n.
    - destruct p; try contradiction; cbn; unfold call_k, call_h; try exact I.
      + destruct (f n k); exact I.
      + destruct (fh n HSha256 h); exact I.
      + destruct (fh n HHash256 h); exact I.
      + destruct (fh n HRipemd160 h); exact I.
      + destruct (fh n HHash160 h); exact I.
    - rewrite prec_and. pose proof (rtl_mapM_plain prec l H n) as P.
      destruct (rtl_mapM prec n l) as [[? ?]|[]|]; cbn in *; auto.
    - rewrite prec_or. assert (P : plain (rtl_mapM or_g n l)).
      { apply rtl_mapM_plain. eapply Forall_impl; [|exact H]. intros q Hq n'. cbn beta in Hq. specialize (Hq n').
        unfold or_g. destruct (prec n' (snd q)) as [[? ?]|[]|]; cbn in *; auto. }
      destruct (rtl_mapM or_g n l) as [[? ?]|[]|]; cbn in *; auto.
    - rewrite prec_thresh. pose proof (rtl_mapM_plain prec l H n) as P.
      destruct (rtl_mapM prec n l) as [[? ?]|[]|]; cbn in *; auto.
  Qed.

  Theorem ptranslate_iter_plain p : plain (ptranslate_iter f fh p).
  Proof.
    rewrite ptranslate_iter_refines. unfold ptranslate. pose proof (prec_plain p 0%N) as P.
    destruct (prec 0 p) as [[? ?]|[]|]; cbn in *; auto.
  Qed.

  Theorem ptranslate_iter_no_panic p s : ptranslate_iter f fh p <> TPanic s.
  Proof. pose proof (ptranslate_iter_plain p) as P. intro E. rewrite E in P. exact P. Qed.
End PRefinement.

(* ------------------------------------------------------------------ the rtl post-order iterator as coded *)
Definition pitem_list (it : cpol * bool) : list cpol := if snd it then [fst it] else prtl_post (fst it).
Definition pitem_cost (it : cpol * bool) : nat := if snd it then 1 else 2 * psize (fst it).
Definition psize_list (l : list cpol) : nat := fold_right (fun x acc => psize x + acc) 0 l.

Lemma psize_children p : psize p = S (psize_list (pchildren p)).
Proof.
  destruct p; try reflexivity. cbn. f_equal. induction l as [|q r IH]; cbn; [reflexivity | rewrite IH; reflexivity].
Qed.

Lemma psize_list_app a b : psize_list (a ++ b) = psize_list a + psize_list b.
Proof. unfold psize_list. induction a as [|x r IH]; cbn; [reflexivity | rewrite IH; lia]. Qed.
Lemma psize_list_rev l : psize_list (rev l) = psize_list l.
Proof. induction l as [|x r IH]; cbn [rev]; [reflexivity | rewrite psize_list_app, IH; unfold psize_list; cbn; lia]. Qed.

Lemma rev_flat_rev {A B} (g : A -> list B) l : rev_flat g l = flat_map g (rev l).
Proof. unfold rev_flat. induction l as [|x r IH]; cbn; [reflexivity|]. rewrite flat_map_app, <- IH. cbn. rewrite app_nil_r. reflexivity. Qed.

Lemma prtl_post_children p : prtl_post p = flat_map prtl_post (rev (pchildren p)) ++ [p].
Proof.
  destruct p; try reflexivity.
  - rewrite prtl_post_and, rev_flat_rev. reflexivity.
  - rewrite prtl_post_or, rev_flat_rev. cbn [pchildren]. rewrite <- map_rev, flat_map_map'. reflexivity.
  - rewrite prtl_post_thresh, rev_flat_rev. reflexivity.
Qed.

Fixpoint pstack_cost (st : list (cpol * bool)) : nat :=
  match st with [] => 0 | it :: r => pitem_cost it + pstack_cost r end.
Lemma pstack_cost_app a b : pstack_cost (a ++ b) = pstack_cost a + pstack_cost b.
Proof. induction a as [|x r IH]; cbn; [reflexivity | rewrite IH; lia]. Qed.
Lemma pstack_cost_fresh l : pstack_cost (map (fun c => (c, false)) l) = 2 * psize_list l.
Proof. induction l as [|x r IH]; cbn [map pstack_cost psize_list fold_right]; [reflexivity|]. fold (psize_list r). rewrite IH. cbn. lia. Qed.
Lemma pflat_fresh l : flat_map pitem_list (map (fun c => (c, false)) l) = flat_map prtl_post l.
Proof. induction l as [|x r IH]; cbn; [reflexivity | rewrite IH; reflexivity]. Qed.

Lemma prtl_post_stack_refines : forall fuel stack,
  pstack_cost stack <= fuel -> prtl_post_stack fuel stack = Some (flat_map pitem_list stack).
Proof.
  induction fuel as [|fu IH]; intros stack Hc.
  - destruct stack as [|[p b] r]; [reflexivity|]. exfalso. cbn in Hc. destruct b; cbn in Hc; [lia|].
    rewrite psize_children in Hc. lia.
  - destruct stack as [|[p b] r]; [reflexivity|]. cbn [prtl_post_stack]. destruct b.
    + rewrite IH by (cbn in Hc; lia). reflexivity.
    + rewrite IH.
      * rewrite flat_map_app, pflat_fresh. cbn. unfold pitem_list at 2. cbn. rewrite (prtl_post_children p).
        rewrite <- app_assoc. reflexivity.
      * rewrite pstack_cost_app, pstack_cost_fresh, psize_list_rev. cbn in Hc. cbn. rewrite psize_children in Hc. lia.
Qed.

Theorem prtl_post_iter_refines p : prtl_post_stack (2 * psize p) [(p, false)] = Some (prtl_post p).
Proof. rewrite prtl_post_stack_refines; [cbn; rewrite app_nil_r; reflexivity | cbn; lia]. Qed.

(* ------------------------------------------------------------------ the pre-order iterator and the key visitors *)
Fixpoint ppre (p : cpol) : list cpol :=
  p :: match p with
       | QAnd l | QThresh _ l => flat_map ppre l
       | QOr l => flat_map (fun q => ppre (snd q)) l
       | _ => []
       end.

Lemma ppre_children p : ppre p = p :: flat_map ppre (pchildren p).
Proof. destruct p; try reflexivity. cbn [ppre pchildren]. rewrite flat_map_map'. reflexivity. Qed.

Lemma ppre_stack_refines : forall fuel stack,
  psize_list stack <= fuel -> ppre_stack fuel stack = Some (flat_map ppre stack).
Proof.
  induction fuel as [|fu IH]; intros stack Hc.
  - destruct stack as [|p r]; [reflexivity|]. exfalso. cbn in Hc. rewrite psize_children in Hc. lia.
  - destruct stack as [|p r]; [reflexivity|]. cbn [ppre_stack]. rewrite IH.
    + cbn [option_map flat_map]. rewrite flat_map_app, (ppre_children p). reflexivity.
    + rewrite psize_list_app. cbn in Hc. fold (psize_list r) in Hc. rewrite psize_children in Hc. lia.
Qed.

Lemma ppre_keys : forall p, flat_map pnode_keys (ppre p) = keys_of p.
Proof.
  induction p using cpol_ind'.
  - destruct p; try contradiction; reflexivity.
  - cbn [ppre keys_of flat_map pnode_keys app]. induction H as [|x r Hx Hr IH]; cbn; [reflexivity|].
    rewrite flat_map_app, Hx. f_equal. exact IH.
  - cbn [ppre keys_of flat_map pnode_keys app]. induction H as [|x r Hx Hr IH]; cbn; [reflexivity|].
    rewrite flat_map_app, Hx. f_equal. exact IH.
  - cbn [ppre keys_of flat_map pnode_keys app]. induction H as [|x r Hx Hr IH]; cbn; [reflexivity|].
    rewrite flat_map_app, Hx. f_equal. exact IH.
Qed.

Lemma ppre_stack_root p : ppre_stack (psize p) [p] = Some (ppre p).
Proof. rewrite ppre_stack_refines; [cbn; rewrite app_nil_r; reflexivity | cbn; lia]. Qed.

Theorem pkeys_spec p : pkeys p (psize p) = Some (keys_of p).
Proof. unfold pkeys. rewrite ppre_stack_root. cbn. rewrite ppre_keys. reflexivity. Qed.

Theorem pfor_each_key_spec pr p :
  exists b visited rest, pfor_each_key pr p (psize p) = Some (b, visited) /\
    b = forallb pr (keys_of p) /\ keys_of p = visited ++ rest /\ (b = true -> rest = []).
Proof.
  unfold pfor_each_key. rewrite ppre_stack_root. cbn [option_map]. rewrite ppre_keys.
  destruct (all_log_spec pr (keys_of p)) as [H1 [rest [H2 H3]]].
  destruct (all_log pr (keys_of p)) as [b v]. cbn in *. exists b, v, rest. repeat split; auto.
Qed.

Theorem pfor_any_key_spec pr p : pfor_any_key pr p (psize p) = Some (existsb pr (keys_of p)).
Proof.
  unfold pfor_any_key. destruct (pfor_each_key_spec (fun k => negb (pr k)) p) as [b [v [rest [-> [-> _]]]]].
  cbn. f_equal. induction (keys_of p) as [|k r IH]; cbn; [reflexivity|]. rewrite negb_andb, negb_involutive, IH. reflexivity.
Qed.

(* the translator is called on a permutation of the atoms of the text form *)
Theorem atoms_rtl_perm : forall p, Permutation (atoms_rtl p) (atoms_of p).
Proof.
  induction p using cpol_ind'.
  - destruct p; try contradiction; reflexivity.
  - cbn [atoms_rtl atoms_of]. apply rev_flat_perm. exact H.
  - cbn [atoms_rtl atoms_of]. apply (rev_flat_perm (fun q => atoms_rtl (snd q)) (fun q => atoms_of (snd q))). exact H.
  - cbn [atoms_rtl atoms_of]. apply rev_flat_perm. exact H.
Qed.

(* ------------------------------------------------------------------ substitution *)
Lemma pmap_ext g gh g' gh' : forall p,
  (forall a, In a (atoms_of p) -> amap g gh a = amap g' gh' a) -> pmap g gh p = pmap g' gh' p.
Proof.
  assert (L : forall l, Forall (fun p => (forall a, In a (atoms_of p) -> amap g gh a = amap g' gh' a) -> pmap g gh p = pmap g' gh' p) l ->
              (forall a, In a (flat_map atoms_of l) -> amap g gh a = amap g' gh' a) -> map (pmap g gh) l = map (pmap g' gh') l).
  { induction 1 as [|x r Hx Hr IH]; intro Ha; cbn; [reflexivity|]. f_equal.
    - apply Hx. intros a Hin. apply Ha. cbn. apply in_or_app. auto.
    - apply IH. intros a Hin. apply Ha. cbn. apply in_or_app. auto. }
  induction p using cpol_ind'; intro Ha.
  - destruct p; try contradiction; try reflexivity; cbn in *.
    + specialize (Ha _ (or_introl eq_refl)). cbn in Ha. congruence.
    + specialize (Ha _ (or_introl eq_refl)). cbn in Ha. congruence.
    + specialize (Ha _ (or_introl eq_refl)). cbn in Ha. congruence.
    + specialize (Ha _ (or_introl eq_refl)). cbn in Ha. congruence.
    + specialize (Ha _ (or_introl eq_refl)). cbn in Ha. congruence.
  - cbn [pmap]. f_equal. apply L; assumption.
  - cbn [pmap]. f_equal. cbn [atoms_of] in Ha. induction H as [|x r Hx Hr IH]; cbn; [reflexivity|]. f_equal.
    + f_equal. apply Hx. intros a Hin. apply Ha. cbn. apply in_or_app. auto.
    + apply IH. intros a Hin. apply Ha. cbn. apply in_or_app. auto.
  - cbn [pmap]. f_equal. apply L; assumption.
Qed.

Lemma pmap_id g gh p : (forall k, g k = k) -> (forall hk h, gh hk h = h) -> pmap g gh p = p.
Proof.
  intros Hg Hh. induction p using cpol_ind'.
  - destruct p; try contradiction; cbn; rewrite ?Hg, ?Hh; reflexivity.
  - cbn [pmap]. f_equal. induction H as [|x r Hx Hr IH]; cbn; [reflexivity | rewrite Hx, IH; reflexivity].
  - cbn [pmap]. f_equal. induction H as [|[o x] r Hx Hr IH]; cbn; [reflexivity|]. cbn in Hx. rewrite Hx, IH. reflexivity.
  - cbn [pmap]. f_equal. induction H as [|x r Hx Hr IH]; cbn; [reflexivity | rewrite Hx, IH; reflexivity].
Qed.

Lemma pmap_comp g gh g' gh' p :
  pmap g' gh' (pmap g gh p) = pmap (fun k => g' (g k)) (fun hk h => gh' hk (gh hk h)) p.
Proof.
  induction p using cpol_ind'.
  - destruct p; try contradiction; reflexivity.
  - cbn [pmap]. f_equal. rewrite map_map. induction H as [|x r Hx Hr IH]; cbn; [reflexivity | rewrite Hx, IH; reflexivity].
  - cbn [pmap]. f_equal. rewrite map_map. induction H as [|x r Hx Hr IH]; cbn [map fst snd]; [reflexivity|].
    f_equal; [f_equal; exact Hx | exact IH].
  - cbn [pmap]. f_equal. rewrite map_map. induction H as [|x r Hx Hr IH]; cbn; [reflexivity | rewrite Hx, IH; reflexivity].
Qed.

Lemma atoms_of_pmap g gh : forall p, atoms_of (pmap g gh p) = map (amap g gh) (atoms_of p).
Proof.
  induction p using cpol_ind'.
  - destruct p; try contradiction; reflexivity.
  - cbn [pmap atoms_of]. induction H as [|x r Hx Hr IH]; cbn; [reflexivity | rewrite map_app, Hx, IH; reflexivity].
  - cbn [pmap atoms_of]. induction H as [|x r Hx Hr IH]; cbn; [reflexivity | rewrite map_app, Hx, IH; reflexivity].
  - cbn [pmap atoms_of]. induction H as [|x r Hx Hr IH]; cbn; [reflexivity | rewrite map_app, Hx, IH; reflexivity].
Qed.

Theorem keys_of_pmap g gh : forall p, keys_of (pmap g gh p) = map g (keys_of p).
Proof.
  induction p using cpol_ind'.
  - destruct p; try contradiction; reflexivity.
  - cbn [pmap keys_of]. induction H as [|x r Hx Hr IH]; cbn; [reflexivity | rewrite map_app, Hx, IH; reflexivity].
  - cbn [pmap keys_of]. induction H as [|x r Hx Hr IH]; cbn; [reflexivity | rewrite map_app, Hx, IH; reflexivity].
  - cbn [pmap keys_of]. induction H as [|x r Hx Hr IH]; cbn; [reflexivity | rewrite map_app, Hx, IH; reflexivity].
Qed.

Theorem keys_of_atoms p : keys_of p = akeys (atoms_of p).
Proof.
  unfold akeys. induction p using cpol_ind'.
  - destruct p; try contradiction; reflexivity.
  - cbn [keys_of atoms_of]. induction H as [|x r Hx Hr IH]; cbn; [reflexivity | rewrite flat_map_app, Hx, IH; reflexivity].
  - cbn [keys_of atoms_of]. induction H as [|x r Hx Hr IH]; cbn; [reflexivity | rewrite flat_map_app, Hx, IH; reflexivity].
  - cbn [keys_of atoms_of]. induction H as [|x r Hx Hr IH]; cbn; [reflexivity | rewrite flat_map_app, Hx, IH; reflexivity].
Qed.

Theorem pshape_pmap g gh p : pshape (pmap g gh p) = pshape p.
Proof. unfold pshape. rewrite pmap_comp. reflexivity. Qed.

(* ------------------------------------------------------------------ pure translators *)
Section PPure.
  Variable fp : key -> option key.
  Variable fhp : hkind -> bytes -> option bytes.

  Notation prec := (ptr_rec (fun _ => fp) (fun _ => fhp)).
  Definition all_ok (p : cpol) : bool := forallb (atom_ok fp fhp) (atoms_of p).
  Notation sub := (pmap (total_k fp) (total_h fhp)).

  (* what a result says about the policy *)
  Definition pure_spec {B} (r : tres (B * N)) (ok : bool) (want : B) : Prop :=
    match r with
    | TOk (b, _) => ok = true /\ b = want
    | TErr (TranslatorErr _) => ok = false
    | _ => False
    end.

  Lemma rtl_mapM_pure {A B} (g : N -> A -> tres (B * N)) (ok : A -> bool) (want : A -> B) l :
    Forall (fun x => forall n, pure_spec (g n x) (ok x) (want x)) l ->
    forall n, pure_spec (rtl_mapM g n l) (forallb ok l) (map want l).
  Proof.
    induction 1 as [|x r Hx Hr IH]; intro n; cbn; [auto|].
    specialize (IH n). destruct (rtl_mapM g n r) as [[r' n1]|[]|]; cbn in *; try contradiction.
    - destruct IH as [-> ->]. specialize (Hx n1). destruct (g n1 x) as [[x' n2]|[]|]; cbn in *; try contradiction.
      + destruct Hx as [-> ->]. auto.
      + rewrite Hx. reflexivity.
    - rewrite IH. apply andb_false_r.
  Qed.

  Lemma all_ok_list l : forallb (atom_ok fp fhp) (flat_map atoms_of l) = forallb all_ok l.
  Proof. apply forallb_flat_map. Qed.

  Lemma all_ok_and l : all_ok (QAnd l) = forallb all_ok l.
  Proof. apply all_ok_list. Qed.
  Lemma all_ok_thresh k l : all_ok (QThresh k l) = forallb all_ok l.
  Proof. apply all_ok_list. Qed.
  Lemma all_ok_or l : all_ok (QOr l) = forallb (fun q => all_ok (snd q)) l.
  Proof. unfold all_ok at 1. cbn [atoms_of]. apply forallb_flat_map. Qed.

  Lemma prec_pure : forall p n, pure_spec (prec n p) (all_ok p) (sub p).
  Proof.
    induction p using cpol_ind'; intro n.
    - destruct p; try contradiction; cbn; unfold call_k, call_h, all_ok, total_k, total_h; cbn; auto.
      + destruct (fp k); cbn; auto.
      + destruct (fhp HSha256 h); cbn; auto.
      + destruct (fhp HHash256 h); cbn; auto.
      + destruct (fhp HRipemd160 h); cbn; auto.
      + destruct (fhp HHash160 h); cbn; auto.
    - rewrite prec_and. pose proof (rtl_mapM_pure prec all_ok sub l H n) as P.
      rewrite all_ok_and.
      destruct (rtl_mapM prec n l) as [[? ?]|[]|]; cbn in *; try contradiction; [|exact P].
      destruct P as [-> ->]. auto.
    - rewrite prec_or.
      assert (P : pure_spec (rtl_mapM (or_g (fun _ => fp) (fun _ => fhp)) n l) (forallb (fun q => all_ok (snd q)) l)
                            (map (fun q => (fst q, sub (snd q))) l)).
      { apply rtl_mapM_pure. eapply Forall_impl; [|exact H]. intros q Hq n'. cbn beta in Hq. specialize (Hq n').
        unfold or_g. destruct (prec n' (snd q)) as [[? ?]|[]|]; cbn in *; try contradiction; [|exact Hq].
        destruct Hq as [-> ->]. auto. }
      rewrite all_ok_or.
      destruct (rtl_mapM (or_g (fun _ => fp) (fun _ => fhp)) n l) as [[? ?]|[]|]; cbn in *; try contradiction; [|exact P].
      destruct P as [-> ->]. auto.
    - rewrite prec_thresh. pose proof (rtl_mapM_pure prec all_ok sub l H n) as P.
      rewrite all_ok_thresh.
      destruct (rtl_mapM prec n l) as [[? ?]|[]|]; cbn in *; try contradiction; [|exact P].
      destruct P as [-> ->]. auto.
  Qed.

  (* success = every atom is mapped, and then the result is the substitution *)
  Theorem ptranslate_ok_iff p p' :
    ptranslate (fun _ => fp) (fun _ => fhp) p = TOk p' <-> all_ok p = true /\ p' = sub p.
  Proof.
    unfold ptranslate. pose proof (prec_pure p 0%N) as P.
    destruct (prec 0 p) as [[q ?]|[]|]; cbn in *; try contradiction.
    - destruct P as [-> ->]. split; [intro E; injection E as <-; auto | intros [_ ->]; reflexivity].
    - rewrite P. split; [discriminate | intros [E _]; discriminate].
  Qed.

  Theorem ptranslate_fail_only p e :
    ptranslate (fun _ => fp) (fun _ => fhp) p = TErr e ->
    exists i a, e = TranslatorErr i /\ In a (atoms_of p) /\ atom_ok fp fhp a = false.
  Proof.
    unfold ptranslate. pose proof (prec_pure p 0%N) as P.
    destruct (prec 0 p) as [[q ?]|[i|c]|]; cbn in *; try contradiction; try discriminate.
    intro E. injection E as <-. destruct (forallb_false_ex _ _ P) as [a [Ha Hf]]. exists i, a. auto.
  Qed.

  Theorem ptranslate_total p : all_ok p = false -> exists i, ptranslate (fun _ => fp) (fun _ => fhp) p = TErr (TranslatorErr i).
  Proof.
    unfold ptranslate. pose proof (prec_pure p 0%N) as P. intro F.
    destruct (prec 0 p) as [[q ?]|[i|c]|]; cbn in *; try contradiction.
    - destruct P. congruence.
    - exists i. reflexivity.
  Qed.
End PPure.

Theorem ptranslate_id p : ptranslate (fun _ k => Some k) (fun _ _ h => Some h) p = TOk p.
Proof.
  apply ptranslate_ok_iff. split.
  - unfold all_ok. apply forallb_forall. intros [k|hk h] _; reflexivity.
  - symmetry. apply pmap_id; reflexivity.
Qed.

Lemma all_ok_comp fp fhp gp ghp p :
  all_ok (comp_k fp gp) (comp_h fhp ghp) p = all_ok fp fhp p && all_ok gp ghp (pmap (total_k fp) (total_h fhp) p).
Proof.
  unfold all_ok. rewrite atoms_of_pmap. induction (atoms_of p) as [|a r IH]; cbn [forallb map]; [reflexivity|].
  rewrite IH. destruct a as [k|hk h]; cbn; unfold comp_k, comp_h, total_k, total_h.
  - destruct (fp k); cbn; [|reflexivity]. destruct (gp k0); cbn; [reflexivity|]. rewrite andb_false_r. reflexivity.
  - destruct (fhp hk h); cbn; [|reflexivity]. destruct (ghp hk b); cbn; [reflexivity|]. rewrite andb_false_r. reflexivity.
Qed.

Lemma comp_sub fp fhp gp ghp p :
  all_ok fp fhp p = true -> all_ok gp ghp (pmap (total_k fp) (total_h fhp) p) = true ->
  pmap (total_k gp) (total_h ghp) (pmap (total_k fp) (total_h fhp) p) = pmap (total_k (comp_k fp gp)) (total_h (comp_h fhp ghp)) p.
Proof.
  intros O1 O2. rewrite pmap_comp. apply pmap_ext. intros a Ha.
  unfold all_ok in O1, O2. rewrite forallb_forall in O1. specialize (O1 a Ha).
  rewrite atoms_of_pmap, forallb_forall in O2. specialize (O2 _ (in_map _ _ _ Ha)).
  destruct a as [k|hk h]; cbn in *; unfold comp_k, comp_h, total_k, total_h in *.
  - destruct (fp k); [|discriminate]. destruct (gp k0); [reflexivity | discriminate].
  - destruct (fhp hk h); [|discriminate]. destruct (ghp hk b); [reflexivity | discriminate].
Qed.

(* translating by (fp, fhp) and then by (gp, ghp) succeeds exactly when translating by the composition does, with the same
   result; a failure of either stage is a failure of the composition and vice versa *)
Theorem ptranslate_comp fp fhp gp ghp p p2 :
  tbind (ptranslate (fun _ => fp) (fun _ => fhp) p) (ptranslate (fun _ => gp) (fun _ => ghp)) = TOk p2 <->
  ptranslate (fun _ => comp_k fp gp) (fun _ => comp_h fhp ghp) p = TOk p2.
Proof.
  rewrite ptranslate_ok_iff, all_ok_comp. split.
  - destruct (ptranslate (fun _ => fp) (fun _ => fhp) p) as [p1| |] eqn:E1; cbn; try discriminate.
    apply ptranslate_ok_iff in E1. destruct E1 as [O1 ->]. intro E2. apply ptranslate_ok_iff in E2. destruct E2 as [O2 ->].
    rewrite O1, O2. split; [reflexivity|]. apply comp_sub; assumption.
  - intros [O ->]. apply andb_true_iff in O. destruct O as [O1 O2].
    assert (E1 : ptranslate (fun _ => fp) (fun _ => fhp) p = TOk (pmap (total_k fp) (total_h fhp) p)) by (apply ptranslate_ok_iff; auto).
    rewrite E1. cbn. apply ptranslate_ok_iff. split; [exact O2|]. symmetry. apply comp_sub; assumption.
Qed.

Lemma is_semantic_pmap g gh p : is_semantic (pmap g gh p) = is_semantic p.
Proof.
  induction p using cpol_ind'.
  - destruct p; try contradiction; reflexivity.
  - reflexivity.
  - reflexivity.
  - cbn [pmap is_semantic]. induction H as [|x r Hx Hr IH]; cbn; [reflexivity | rewrite Hx, IH; reflexivity].
Qed.

(* structure *)
Theorem ptranslate_structure fp fhp p p' :
  ptranslate (fun _ => fp) (fun _ => fhp) p = TOk p' ->
  p' = pmap (total_k fp) (total_h fhp) p /\ pshape p' = pshape p /\
  (forall a, In a (atoms_of p) -> atom_ok fp fhp a = true) /\
  atoms_of p' = map (amap (total_k fp) (total_h fhp)) (atoms_of p) /\
  keys_of p' = map (total_k fp) (keys_of p) /\ is_semantic p' = is_semantic p.
Proof.
  intro E. apply ptranslate_ok_iff in E. destruct E as [O ->]. split; [reflexivity|]. split; [apply pshape_pmap|].
  split; [unfold all_ok in O; rewrite forallb_forall in O; exact O|]. split; [apply atoms_of_pmap|]. split; [apply keys_of_pmap|].
  apply is_semantic_pmap.
Qed.

(* ------------------------------------------------------------------ the same, for the algorithm as coded *)
Theorem piter_id p : ptranslate_iter (fun _ k => Some k) (fun _ _ h => Some h) p = TOk p.
Proof. rewrite ptranslate_iter_refines. apply ptranslate_id. Qed.

Theorem piter_ok_iff fp fhp p p' :
  ptranslate_iter (fun _ => fp) (fun _ => fhp) p = TOk p' <->
  (forall a, In a (atoms_of p) -> atom_ok fp fhp a = true) /\ p' = pmap (total_k fp) (total_h fhp) p.
Proof.
  rewrite ptranslate_iter_refines, ptranslate_ok_iff. unfold all_ok. rewrite forallb_forall. reflexivity.
Qed.

Theorem piter_fail_only fp fhp p e :
  ptranslate_iter (fun _ => fp) (fun _ => fhp) p = TErr e ->
  exists i a, e = TranslatorErr i /\ In a (atoms_of p) /\ atom_ok fp fhp a = false.
Proof. rewrite ptranslate_iter_refines. apply ptranslate_fail_only. Qed.

Theorem piter_fails_if fp fhp p a :
  In a (atoms_of p) -> atom_ok fp fhp a = false ->
  exists i, ptranslate_iter (fun _ => fp) (fun _ => fhp) p = TErr (TranslatorErr i).
Proof.
  intros Ha Hf. rewrite ptranslate_iter_refines. apply ptranslate_total.
  unfold all_ok. destruct (forallb (atom_ok fp fhp) (atoms_of p)) eqn:E; [|reflexivity].
  rewrite forallb_forall in E. rewrite (E a Ha) in Hf. discriminate.
Qed.

Theorem piter_comp fp fhp gp ghp p p2 :
  (exists p1, ptranslate_iter (fun _ => fp) (fun _ => fhp) p = TOk p1 /\ ptranslate_iter (fun _ => gp) (fun _ => ghp) p1 = TOk p2) <->
  ptranslate_iter (fun _ => comp_k fp gp) (fun _ => comp_h fhp ghp) p = TOk p2.
Proof.
  rewrite (ptranslate_iter_refines _ _ p), (ptranslate_iter_refines (fun _ => comp_k fp gp)), <- ptranslate_comp. split.
  - intros [p1 [E1 E2]]. rewrite E1. cbn. rewrite <- ptranslate_iter_refines. exact E2.
  - destruct (ptranslate (fun _ => fp) (fun _ => fhp) p) as [p1| |]; cbn; try discriminate.
    intro E2. exists p1. split; [reflexivity|]. rewrite ptranslate_iter_refines. exact E2.
Qed.

Theorem piter_structure fp fhp p p' :
  ptranslate_iter (fun _ => fp) (fun _ => fhp) p = TOk p' ->
  p' = pmap (total_k fp) (total_h fhp) p /\ pshape p' = pshape p /\
  (forall a, In a (atoms_of p) -> atom_ok fp fhp a = true) /\
  atoms_of p' = map (amap (total_k fp) (total_h fhp)) (atoms_of p) /\
  keys_of p' = map (total_k fp) (keys_of p) /\ is_semantic p' = is_semantic p.
Proof. rewrite ptranslate_iter_refines. apply ptranslate_structure. Qed.

Theorem pkeys_exact p :
  pkeys p (psize p) = Some (keys_of p) /\
  (forall pr, exists visited rest,
      pfor_each_key pr p (psize p) = Some (forallb pr (keys_of p), visited) /\
      keys_of p = visited ++ rest /\ (forallb pr (keys_of p) = true -> rest = [])) /\
  (forall pr, pfor_any_key pr p (psize p) = Some (existsb pr (keys_of p))) /\
  Permutation (atoms_rtl p) (atoms_of p) /\ keys_of p = akeys (atoms_of p).
Proof.
  split; [apply pkeys_spec|]. split.
  - intro pr. destruct (pfor_each_key_spec pr p) as [b [v [rest [E [-> [K R]]]]]]. exists v, rest. auto.
  - split; [intro pr; apply pfor_any_key_spec|]. split; [apply atoms_rtl_perm | apply keys_of_atoms].
Qed.

(* ------------------------------------------------------------------ non-vacuity *)
Local Open Scope N_scope.
Definition ex_pol : cpol :=
  QOr [(3, QAnd [QKey 0; QSha256 [1; 2]]); (1, QThresh 2 [QKey 1; QHash160 [7]; QOlder 5])].

Lemma ptranslate_examples :
  let fk := fun k => if N.eqb k 1 then None else Some (k + 10) in
  let fhx := fun hk h => match hk with HHash160 => None | _ => Some (0 :: h) end in
  ptranslate_iter (fun _ k => Some (k + 10)) (fun _ _ h => Some (0 :: h)) ex_pol
    = TOk (QOr [(3, QAnd [QKey 10; QSha256 [0; 1; 2]]); (1, QThresh 2 [QKey 11; QHash160 [0; 7]; QOlder 5])]) /\
  ptranslate_iter (fun _ => fk) (fun _ _ h => Some h) ex_pol = TErr (TranslatorErr 1) /\
  ptranslate_iter (fun _ k => Some k) (fun _ => fhx) ex_pol = TErr (TranslatorErr 0) /\
  ptranslate_iter (fun n k => if N.eqb n 3 then None else Some k) (fun _ _ h => Some h) ex_pol = TErr (TranslatorErr 3) /\
  pkeys ex_pol (psize ex_pol) = Some [0; 1] /\
  pfor_each_key (fun k => negb (N.eqb k 0)) ex_pol (psize ex_pol) = Some (false, [0]) /\
  atoms_rtl ex_pol = [AHash HHash160 [7]; AKey 1; AHash HSha256 [1; 2]; AKey 0] /\
  is_semantic ex_pol = false /\ is_semantic (QThresh 1 [QKey 0; QHash256 [3]]) = true.
Proof. vm_compute. repeat split; reflexivity. Qed.
