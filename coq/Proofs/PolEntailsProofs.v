(* C18: Semantic::entails against truth-table implication (atoms independent). *)
From Coq Require Import List NArith Bool Arith Lia Permutation.
Import ListNotations.
From Verif Require Import PolSemantic PolConcrete PolTruth PolSemanticProofs.

(* ------------------------------------------------------------------ terminals = leaves *)
Lemma list_sum_app a b : list_sum (a ++ b) = list_sum a + list_sum b.
Proof. induction a; simpl; lia. Qed.

Lemma length_flat_map {A B} (f : A -> list B) l :
  length (flat_map f l) = list_sum (map (fun x => length (f x)) l).
Proof. induction l as [|x r IH]; [reflexivity|]. simpl. rewrite app_length, IH. reflexivity. Qed.

Lemma nt_leaves : forall p, n_terminals p = length (leaves_of p).
Proof.
  induction p using spol_ind'; try reflexivity.
  cbn [n_terminals leaves_of]. rewrite length_flat_map. f_equal. apply map_ext_Forall. exact H.
Qed.

Lemma leaves_push_eq a o subs :
  flat_map leaves_of (flat_map (norm_push a o) subs) = flat_map leaves_of subs.
Proof.
  induction subs as [|x l IH]; [reflexivity|].
  cbn [flat_map]. rewrite flat_map_app, IH. f_equal.
  destruct x as [| | | | | | | | |k' s']; try reflexivity.
  cbn [norm_push leaves_of].
  destruct a, o; try (cbn [flat_map leaves_of]; apply app_nil_r).
  - destruct (k' =? length s'); [reflexivity|cbn [flat_map leaves_of]; apply app_nil_r].
  - destruct (k' =? 1); [reflexivity|cbn [flat_map leaves_of]; apply app_nil_r].
Qed.

Lemma leaves_norm_node k subs :
  leaves_of (norm_node k subs) = [] \/ leaves_of (norm_node k subs) = flat_map leaves_of subs.
Proof.
  unfold norm_node.
  set (tc := length (filter is_triv subs)). set (uc := length (filter is_unsat subs)).
  set (a := k - tc =? length subs - uc - tc). set (o := k - tc =? 1).
  pose proof (leaves_push_eq a o subs) as Hi.
  destruct (k - tc =? 0); [left; reflexivity|].
  destruct (length (flat_map (norm_push a o) subs) <? k - tc); [left; reflexivity|].
  destruct (flat_map (norm_push a o) subs) as [|x [|y r]] eqn:E.
  - left. destruct a; [|destruct o]; reflexivity.
  - right. cbn [flat_map] in Hi. rewrite app_nil_r in Hi. exact Hi.
  - right. destruct a; [|destruct o]; exact Hi.
Qed.

Lemma nt_norm_node k subs : n_terminals (norm_node k subs) <= list_sum (map n_terminals subs).
Proof.
  rewrite nt_leaves.
  replace (list_sum (map n_terminals subs)) with (length (flat_map leaves_of subs)).
  - destruct (leaves_norm_node k subs) as [E|E]; rewrite E; simpl; lia.
  - rewrite length_flat_map. f_equal. apply map_ext_Forall. apply Forall_forall. intros. symmetry. apply nt_leaves.
Qed.

Lemma list_sum_le {A} (f g : A -> nat) l :
  Forall (fun x => f x <= g x) l -> list_sum (map f l) <= list_sum (map g l).
Proof. induction 1; simpl; lia. Qed.

Lemma nt_normalized : forall p, n_terminals (normalized p) <= n_terminals p.
Proof.
  induction p using spol_ind'; try (apply le_n).
  cbn [normalized]. eapply Nat.le_trans; [apply nt_norm_node|].
  cbn [n_terminals]. rewrite map_map. apply list_sum_le. exact H.
Qed.

(* ------------------------------------------------------------------ first_constraint *)
Definition is_leaf (l : spol) : bool := negb (is_const l) && negb (is_thresh l).

Lemma first_constraint_leaf : forall p,
  is_normal p = true -> is_const p = false ->
  is_leaf (first_constraint p) = true /\ In (first_constraint p) (leaves_of p).
Proof.
  induction p using spol_ind'; intros Hn Hc; try discriminate;
    try (split; [reflexivity|left; reflexivity]).
  destruct (normal_parts _ _ Hn) as (H2 & _ & _ & Hnc & _ & _ & Hs).
  destruct subs as [|s r]; [simpl in H2; lia|].
  cbn [first_constraint]. inversion H as [|? ? Hs1 _]; subst.
  cbn [forallb] in Hnc, Hs. apply andb_prop in Hnc. destruct Hnc as [Hnc _].
  apply andb_prop in Hs. destruct Hs as [Hs _].
  unfold nonconstb in Hnc. apply negb_true_iff in Hnc.
  destruct (Hs1 Hs Hnc) as [L I]. split; [exact L|].
  cbn [leaves_of flat_map]. apply in_or_app. left. exact I.
Qed.

(* ------------------------------------------------------------------ satisfy_constraint *)
Definition upd (rho : spol -> bool) (w : spol) (v : bool) : spol -> bool :=
  fun l => if spol_eqb l w then v else rho l.

Lemma sc_thresh k subs w v :
  satisfy_constraint (SThresh k subs) w v
  = normalized (SThresh k (map (fun s => satisfy_constraint s w v) subs)).
Proof. reflexivity. Qed.

Lemma sc_eval rho w v : is_leaf w = true ->
  forall p, evalA rho (satisfy_constraint p w v) = evalA (upd rho w v) p.
Proof.
  intro Hw. induction p using spol_ind';
    try (cbn [satisfy_constraint]; destruct w; try discriminate; reflexivity);
    try (cbn [satisfy_constraint evalA]; unfold upd;
         match goal with |- context [spol_eqb ?a ?b] => destruct (spol_eqb a b) end;
         [destruct v; reflexivity|reflexivity]).
  rewrite sc_thresh, normalized_eval. cbn [evalA]. rewrite map_map. f_equal. f_equal.
  apply map_ext_Forall. exact H.
Qed.

Lemma sc_normal p w v : is_normal (satisfy_constraint p w v) = true.
Proof.
  destruct p; try (cbn [satisfy_constraint];
    match goal with |- context [spol_eqb ?a ?b] => destruct (spol_eqb a b) end;
    [destruct v; reflexivity|reflexivity]).
  rewrite sc_thresh. apply normalized_normal.
Qed.

Lemma filter_flat_map {A B} (f : B -> bool) (g : A -> list B) l :
  filter f (flat_map g l) = flat_map (fun x => filter f (g x)) l.
Proof. induction l as [|x r IH]; [reflexivity|]. simpl. rewrite filter_app, IH. reflexivity. Qed.

Lemma nt_sc w v : is_leaf w = true -> forall p,
  n_terminals (satisfy_constraint p w v) <= length (filter (fun l => negb (spol_eqb l w)) (leaves_of p)).
Proof.
  intro Hw. induction p using spol_ind';
    try (cbn [satisfy_constraint leaves_of filter];
         match goal with |- context [spol_eqb ?a ?b] => destruct (spol_eqb a b) end;
         [destruct v; simpl; lia|simpl; lia]).
  rewrite sc_thresh. eapply Nat.le_trans; [apply nt_normalized|].
  cbn [n_terminals leaves_of]. rewrite map_map, filter_flat_map, length_flat_map.
  apply list_sum_le. exact H.
Qed.

Lemma filter_len_le {A} (f : A -> bool) l : length (filter f l) <= length l.
Proof. induction l as [|x r IH]; [apply le_n|]. simpl. destruct (f x); simpl; lia. Qed.

Lemma filter_lt {A} (f : A -> bool) l x : In x l -> f x = false -> length (filter f l) < length l.
Proof.
  induction l as [|y r IH]; [contradiction|]. intros [->|Hin] Hf; simpl.
  - rewrite Hf. pose proof (filter_len_le f r). lia.
  - specialize (IH Hin Hf). destruct (f y); simpl; lia.
Qed.

Lemma nt_sc_lt w v p : is_leaf w = true -> In w (leaves_of p) ->
  n_terminals (satisfy_constraint p w v) < n_terminals p.
Proof.
  intros Hw Hin. eapply Nat.le_lt_trans; [apply nt_sc; exact Hw|].
  rewrite nt_leaves. eapply filter_lt; [exact Hin|]. rewrite spol_eqb_refl. reflexivity.
Qed.

(* replacing a constant in a normal policy that is not that constant changes nothing *)
Lemma sc_const_id w v : is_const w = true -> forall x,
  is_normal x = true -> x <> w -> satisfy_constraint x w v = x.
Proof.
  intro Hw. induction x using spol_ind'; intros Hn Hx;
    try (cbn [satisfy_constraint];
         match goal with |- context [spol_eqb ?a ?b] => destruct (spol_eqb a b) eqn:E end;
         [apply spol_eqb_eq in E; congruence|reflexivity]).
  rewrite sc_thresh.
  destruct (normal_parts _ _ Hn) as (_ & _ & _ & Hnc & _ & _ & Hs).
  assert (E : map (fun s => satisfy_constraint s w v) subs = subs).
  { clear Hn Hx. induction H as [|c r Hc Hr IH]; [reflexivity|].
    cbn [forallb] in Hnc, Hs. apply andb_prop in Hnc. destruct Hnc as [Nc Ncr].
    apply andb_prop in Hs. destruct Hs as [Sc Scr].
    cbn [map]. rewrite (IH Ncr Scr). f_equal. apply Hc; [exact Sc|].
    intro. subst c. unfold nonconstb in Nc. rewrite Hw in Nc. discriminate. }
  rewrite E. apply normal_fix. exact Hn.
Qed.

(* ------------------------------------------------------------------ the debug assertions *)
Lemma normal_child k subs s : is_normal (SThresh k subs) = true -> In s subs -> is_normal s = true.
Proof.
  intros Hn Hin. destruct (normal_parts _ _ Hn) as (_ & _ & _ & _ & _ & _ & Hs).
  eapply forallb_forall in Hs; eassumption.
Qed.

Lemma normal_fc_assert : forall p, is_normal p = true -> fc_assert_ok p = true.
Proof.
  induction p using spol_ind'; intro Hn; try reflexivity;
    try (cbn [fc_assert_ok normalized]; rewrite spol_eqb_refl; reflexivity).
  cbn [fc_assert_ok]. rewrite (normal_fix _ Hn), spol_eqb_refl. cbn [andb].
  destruct subs as [|s r]; [reflexivity|].
  inversion H; subst. apply H2. eapply normal_child; [exact Hn|left; reflexivity].
Qed.
Lemma normal_sc_assert : forall p, is_normal p = true -> sc_assert_ok p = true.
Proof.
  induction p using spol_ind'; intro Hn; try reflexivity;
    try (cbn [sc_assert_ok normalized]; rewrite spol_eqb_refl; reflexivity).
  cbn [sc_assert_ok]. rewrite (normal_fix _ Hn), spol_eqb_refl. cbn [andb].
  apply forallb_forall. intros s Hs. rewrite Forall_forall in H. apply H; [exact Hs|].
  eapply normal_child; eassumption.
Qed.

(* ------------------------------------------------------------------ truth-table facts *)
Lemma count_true_all (f : spol -> bool) l :
  Forall (fun c => f c = true) l -> count_true (map f l) = length l.
Proof. induction 1 as [|c r Hc Hr IH]; [reflexivity|]. cbn [map]. rewrite count_true_cons, Hc, IH. reflexivity. Qed.
Lemma count_true_none (f : spol -> bool) l :
  Forall (fun c => f c = false) l -> count_true (map f l) = 0.
Proof. induction 1 as [|c r Hc Hr IH]; [reflexivity|]. cbn [map]. rewrite count_true_cons, Hc, IH. reflexivity. Qed.

Lemma normal_all_true : forall p, is_normal p = true -> p <> SUnsat -> evalA (fun _ => true) p = true.
Proof.
  induction p using spol_ind'; intros Hn Hp; try reflexivity; [congruence|].
  destruct (normal_parts _ _ Hn) as (_ & _ & Hk & Hnc & _ & _ & Hs).
  cbn [evalA]. rewrite count_true_all; [apply Nat.leb_le; exact Hk|].
  apply Forall_forall. intros c Hc. rewrite Forall_forall in H. apply H; [exact Hc| |].
  - eapply forallb_forall in Hs; eassumption.
  - eapply forallb_forall in Hnc; [|exact Hc]. intro. subst c. discriminate.
Qed.
Lemma normal_all_false : forall p, is_normal p = true -> p <> STriv -> evalA (fun _ => false) p = false.
Proof.
  induction p using spol_ind'; intros Hn Hp; try reflexivity; [congruence|].
  destruct (normal_parts _ _ Hn) as (_ & H1 & _ & Hnc & _ & _ & Hs).
  cbn [evalA]. rewrite count_true_none; [apply Nat.leb_gt; lia|].
  apply Forall_forall. intros c Hc. rewrite Forall_forall in H. apply H; [exact Hc| |].
  - eapply forallb_forall in Hs; eassumption.
  - eapply forallb_forall in Hnc; [|exact Hc]. intro. subst c. discriminate.
Qed.

(* Shannon expansion on one atom *)
Lemma shannon w a b :
  implies a b <->
  (forall rho, evalA (upd rho w true) a = true -> evalA (upd rho w true) b = true) /\
  (forall rho, evalA (upd rho w false) a = true -> evalA (upd rho w false) b = true).
Proof.
  split.
  - intro I. split; intros rho; apply I.
  - intros [IT IF] rho Ha.
    assert (E : forall l, upd rho w (rho w) l = rho l).
    { intro l. unfold upd. destruct (spol_eqb l w) eqn:El; [|reflexivity]. apply spol_eqb_eq in El. congruence. }
    rewrite <- (evalA_ext _ _ E a) in Ha. rewrite <- (evalA_ext _ _ E b).
    destruct (rho w); [apply IT|apply IF]; exact Ha.
Qed.

Lemma implies_normalized a b : implies (normalized a) (normalized b) <-> implies a b.
Proof. unfold implies. split; intros I rho; specialize (I rho); rewrite ?normalized_eval in *; exact I. Qed.

(* ------------------------------------------------------------------ one step of entails *)
Definition entails_general (rec : spol -> spol -> eres) (a b : spol) : eres :=
  let an := normalized a in
  let bn := normalized b in
  if negb (fc_assert_ok an) then EPanic
  else
    let fc := first_constraint an in
    if negb (sc_assert_ok an && sc_assert_ok bn) || is_thresh fc then EPanic
    else
      match rec (satisfy_constraint an fc true) (satisfy_constraint bn fc true) with
      | ESome true => rec (satisfy_constraint an fc false) (satisfy_constraint bn fc false)
      | r => r
      end.

Lemma entails_f_step f a b :
  entails_f (S f) a b =
  if ENTAILMENT_MAX_TERMINALS <? n_terminals a then ENone
  else if is_unsat a then ESome true
  else if is_triv a then ESome (is_triv b)
  else if is_unsat b then ESome false
  else entails_general (entails_f f) a b.
Proof.
  cbn [entails_f]. destruct (ENTAILMENT_MAX_TERMINALS <? n_terminals a); [reflexivity|].
  destruct a; destruct b; reflexivity.
Qed.

(* ------------------------------------------------------------------ correctness on normal arguments *)
Definition ent_ok (a b : spol) (res : eres) : Prop :=
  exists r, res = ESome r /\ (r = true <-> implies a b).

Definition P (n : nat) : Prop :=
  forall a b, n_terminals a <= n -> n_terminals a <= ENTAILMENT_MAX_TERMINALS ->
              is_normal a = true -> is_normal b = true ->
              ent_ok a b (entails_f (S (S n)) a b).

Lemma sc_implies w an bn v : is_leaf w = true ->
  implies (satisfy_constraint an w v) (satisfy_constraint bn w v) <->
  (forall rho, evalA (upd rho w v) an = true -> evalA (upd rho w v) bn = true).
Proof.
  intro Hw. unfold implies. split; intros I rho; specialize (I rho); rewrite ?sc_eval in * by exact Hw; exact I.
Qed.

Lemma is_leaf_not_thresh w : is_leaf w = true -> is_thresh w = false.
Proof. unfold is_leaf. destruct w; simpl; congruence. Qed.

Lemma general_ok n' : P n' -> forall a b,
  is_const (normalized a) = false ->
  n_terminals (normalized a) <= S n' -> n_terminals (normalized a) <= ENTAILMENT_MAX_TERMINALS ->
  ent_ok a b (entails_general (entails_f (S (S n'))) a b).
Proof.
  intros IH a b Hc Hn H20. unfold entails_general.
  pose proof (normalized_normal a) as Na. pose proof (normalized_normal b) as Nb.
  set (an := normalized a) in *. set (bn := normalized b) in *.
  rewrite (normal_fc_assert an Na), (normal_sc_assert an Na), (normal_sc_assert bn Nb).
  destruct (first_constraint_leaf an Na Hc) as [L I].
  set (fc := first_constraint an) in *.
  rewrite (is_leaf_not_thresh fc L). cbn [negb andb orb].
  pose proof (nt_sc_lt fc true an L I) as Lt1. pose proof (nt_sc_lt fc false an L I) as Lt2.
  assert (Sh : implies a b <->
    (forall rho, evalA (upd rho fc true) an = true -> evalA (upd rho fc true) bn = true) /\
    (forall rho, evalA (upd rho fc false) an = true -> evalA (upd rho fc false) bn = true)).
  { rewrite <- (implies_normalized a b). apply shannon. }
  destruct (IH (satisfy_constraint an fc true) (satisfy_constraint bn fc true))
    as (r1 & E1 & R1); [lia|lia|apply sc_normal|apply sc_normal|].
  rewrite E1. rewrite (sc_implies fc an bn true L) in R1.
  destruct r1.
  - destruct (IH (satisfy_constraint an fc false) (satisfy_constraint bn fc false))
      as (r2 & E2 & R2); [lia|lia|apply sc_normal|apply sc_normal|].
    rewrite (sc_implies fc an bn false L) in R2.
    exists r2. split; [exact E2|]. rewrite Sh, R2. split; [intro Hr; split; [apply R1; reflexivity|exact Hr]|intros [_ Hr]; exact Hr].
  - exists false. split; [reflexivity|]. rewrite Sh. split; [discriminate|].
    intros [HT _]. apply R1. exact HT.
Qed.

Lemma normal_nonconst_nt a : is_normal a = true -> is_const a = false -> 1 <= n_terminals a.
Proof.
  intros Na Hc. destruct (first_constraint_leaf a Na Hc) as [_ I].
  rewrite nt_leaves. destruct (leaves_of a); [contradiction|simpl; lia].
Qed.

Lemma normal_entails : forall n, P n.
Proof.
  induction n as [|n' IH]; intros a b Hn H20 Na Nb.
  - (* no terminals: a is a constant *)
    rewrite entails_f_step.
    destruct (Nat.ltb_spec ENTAILMENT_MAX_TERMINALS (n_terminals a)); [lia|].
    destruct a; try (simpl in Hn; lia).
    + exists true. split; [reflexivity|]. split; [intros _ rho; discriminate|reflexivity].
    + cbn [is_unsat is_triv]. exists (is_triv b). split; [reflexivity|].
      destruct b; cbn [is_triv]; split; try discriminate; try reflexivity; try (intros _ rho _; reflexivity);
        intro I; specialize (I (fun _ => false) eq_refl);
        rewrite normal_all_false in I by (try exact Nb; discriminate); discriminate.
    + pose proof (normal_nonconst_nt _ Na eq_refl). lia.
  - rewrite entails_f_step.
    destruct (Nat.ltb_spec ENTAILMENT_MAX_TERMINALS (n_terminals a)); [lia|].
    destruct (is_unsat a) eqn:Ua.
    { destruct a; try discriminate. exists true. split; [reflexivity|]. split; [intros _ rho; discriminate|reflexivity]. }
    destruct (is_triv a) eqn:Ta.
    { destruct a; try discriminate. exists (is_triv b). split; [reflexivity|].
      destruct b; cbn [is_triv]; split; try discriminate; try reflexivity; try (intros _ rho _; reflexivity);
        intro I; specialize (I (fun _ => false) eq_refl);
        rewrite normal_all_false in I by (try exact Nb; discriminate); discriminate. }
    assert (Hca : is_const a = false) by (destruct a; simpl in *; congruence).
    destruct (is_unsat b) eqn:Ub.
    { destruct b; try discriminate. exists false. split; [reflexivity|]. split; [discriminate|].
      intro I. specialize (I (fun _ => true)).
      rewrite normal_all_true in I by (try exact Na; destruct a; simpl in *; congruence).
      specialize (I eq_refl). discriminate. }
    apply general_ok; [exact IH| | |]; rewrite (normal_fix a Na); assumption.
Qed.

(* ------------------------------------------------------------------ theorems about entails *)
Lemma nt_guard_none a b : ENTAILMENT_MAX_TERMINALS < n_terminals a -> entails a b = ENone.
Proof.
  intro H. unfold entails. rewrite entails_f_step.
  destruct (Nat.ltb_spec ENTAILMENT_MAX_TERMINALS (n_terminals a)); [reflexivity|lia].
Qed.

Theorem entails_exact_normal a b :
  is_normal a = true -> is_normal b = true -> n_terminals a <= ENTAILMENT_MAX_TERMINALS ->
  exists r, entails a b = ESome r /\ (r = true <-> implies a b).
Proof. intros Na Nb H20. apply normal_entails; [apply le_n|exact H20|exact Na|exact Nb]. Qed.

Lemma implies_unsat_l a b : normalized a = SUnsat -> implies a b.
Proof. intros E rho Ha. rewrite <- (normalized_eval rho a), E in Ha. discriminate. Qed.
Lemma implies_triv_r a b : normalized b = STriv -> implies a b.
Proof. intros E rho _. rewrite <- (normalized_eval rho b), E. reflexivity. Qed.
Lemma not_taut b : normalized b <> STriv -> evalA (fun _ => false) b = false.
Proof. intro H. rewrite <- normalized_eval. apply normal_all_false; [apply normalized_normal|exact H]. Qed.
Lemma sat_of a : normalized a <> SUnsat -> evalA (fun _ => true) a = true.
Proof. intro H. rewrite <- normalized_eval. apply normal_all_true; [apply normalized_normal|exact H]. Qed.

Lemma is_triv_eq p : is_triv p = true <-> p = STriv.
Proof. destruct p; simpl; split; congruence. Qed.
Lemma is_unsat_eq p : is_unsat p = true <-> p = SUnsat.
Proof. destruct p; simpl; split; congruence. Qed.

(* the general branch when the first argument normalizes to a constant *)
Lemma general_const f a b :
  is_const (normalized a) = true ->
  entails_general (entails_f (S f)) a b =
  ESome (if is_unsat (normalized a) then is_const (normalized b) else is_triv (normalized b)).
Proof.
  intro Hc. unfold entails_general.
  pose proof (normalized_normal a) as Na. pose proof (normalized_normal b) as Nb.
  set (an := normalized a) in *. set (bn := normalized b) in *.
  rewrite (normal_fc_assert an Na), (normal_sc_assert an Na), (normal_sc_assert bn Nb).
  destruct an eqn:Ean; try discriminate; cbn [first_constraint is_thresh negb andb orb is_unsat].
  - (* an = Unsat: witness Unsat *)
    cbn [satisfy_constraint spol_eqb].
    assert (Eb1 : satisfy_constraint bn SUnsat true = if is_unsat bn then STriv else bn).
    { destruct (is_unsat bn) eqn:U; [apply is_unsat_eq in U; rewrite U; reflexivity|].
      apply sc_const_id; [reflexivity|exact Nb|intro E; rewrite E in U; discriminate]. }
    rewrite Eb1, entails_f_step. cbn [n_terminals is_unsat is_triv].
    destruct (Nat.ltb_spec ENTAILMENT_MAX_TERMINALS 0); [unfold ENTAILMENT_MAX_TERMINALS in *; lia|].
    destruct bn; cbn [is_unsat is_triv is_const]; try reflexivity;
      rewrite entails_f_step; reflexivity.
  - (* an = Triv: witness Triv *)
    cbn [satisfy_constraint spol_eqb].
    assert (Eb1 : satisfy_constraint bn STriv true = bn).
    { destruct (is_triv bn) eqn:T; [apply is_triv_eq in T; rewrite T; reflexivity|].
      apply sc_const_id; [reflexivity|exact Nb|intro E; rewrite E in T; discriminate]. }
    rewrite Eb1, entails_f_step. cbn [n_terminals is_unsat is_triv].
    destruct (Nat.ltb_spec ENTAILMENT_MAX_TERMINALS 0); [unfold ENTAILMENT_MAX_TERMINALS in *; lia|].
    destruct (is_triv bn); [|reflexivity].
    rewrite entails_f_step. reflexivity.
Qed.

(* exact outside the defect class *)
Theorem entails_exact_except a b :
  entails_defect a b = false -> n_terminals a <= ENTAILMENT_MAX_TERMINALS ->
  exists r, entails a b = ESome r /\ (r = true <-> implies a b).
Proof.
  intros D H20. unfold entails. rewrite entails_f_step.
  destruct (Nat.ltb_spec ENTAILMENT_MAX_TERMINALS (n_terminals a)); [lia|].
  destruct (is_unsat a) eqn:Ua.
  { apply is_unsat_eq in Ua. subst a. exists true. split; [reflexivity|]. split; [intros _ rho; discriminate|reflexivity]. }
  destruct (is_triv a) eqn:Ta.
  { apply is_triv_eq in Ta. subst a. cbn [entails_defect] in D. exists (is_triv b). split; [reflexivity|].
    destruct (is_triv b) eqn:Tb.
    - apply is_triv_eq in Tb. subst b. split; [intros _ rho _; reflexivity|reflexivity].
    - cbn [negb andb] in D. split; [discriminate|]. intro I.
      specialize (I (fun _ => false) eq_refl). rewrite not_taut in I; [discriminate|].
      intro E. rewrite E in D. discriminate. }
  assert (Dd : entails_defect a b = is_unsat (normalized a) && (is_unsat b || negb (is_const (normalized b))))
    by (destruct a; try discriminate; reflexivity).
  rewrite Dd in D. clear Dd.
  destruct (is_unsat b) eqn:Ub.
  { apply is_unsat_eq in Ub. subst b. exists false. split; [reflexivity|]. split; [discriminate|].
    intro I. specialize (I (fun _ => true)). rewrite sat_of in I; [specialize (I eq_refl); discriminate|].
    intro E. rewrite E in D. discriminate. }
  cbn [orb] in D.
  destruct (is_const (normalized a)) eqn:Ca.
  - rewrite general_const by exact Ca.
    destruct (is_unsat (normalized a)) eqn:Una.
    + cbn [andb] in D. apply negb_false_iff in D. rewrite D.
      exists true. split; [reflexivity|]. split; [intros _|reflexivity].
      apply implies_unsat_l. apply is_unsat_eq. exact Una.
    + assert (Tna : normalized a = STriv) by (destruct (normalized a); simpl in *; congruence).
      exists (is_triv (normalized b)). split; [reflexivity|].
      destruct (is_triv (normalized b)) eqn:Tb.
      * split; [intros _|reflexivity]. apply implies_triv_r. apply is_triv_eq. exact Tb.
      * split; [discriminate|]. intro I. specialize (I (fun _ => false)).
        rewrite <- (normalized_eval _ a), Tna in I. specialize (I eq_refl).
        rewrite not_taut in I; [discriminate|]. intro E. rewrite E in Tb. discriminate.
  - pose proof (nt_normalized a) as Hle.
    pose proof (normal_nonconst_nt _ (normalized_normal a) Ca) as H1.
    destruct (n_terminals a) as [|n'] eqn:En; [lia|].
    apply general_ok; [apply normal_entails|exact Ca|lia|lia].
Qed.

(* inside the defect class the answer is Some(false) although the implication holds *)
Theorem entails_defect_wrong a b :
  entails_defect a b = true -> n_terminals a <= ENTAILMENT_MAX_TERMINALS ->
  entails a b = ESome false /\ implies a b.
Proof.
  intros D H20. unfold entails. rewrite entails_f_step.
  destruct (Nat.ltb_spec ENTAILMENT_MAX_TERMINALS (n_terminals a)); [lia|].
  destruct (is_unsat a) eqn:Ua.
  { apply is_unsat_eq in Ua. subst a. discriminate. }
  destruct (is_triv a) eqn:Ta.
  { apply is_triv_eq in Ta. subst a. cbn [entails_defect] in D. apply andb_prop in D. destruct D as [D1 D2].
    apply negb_true_iff in D1. rewrite D1. split; [reflexivity|]. apply implies_triv_r. apply is_triv_eq. exact D2. }
  assert (Dd : entails_defect a b = is_unsat (normalized a) && (is_unsat b || negb (is_const (normalized b))))
    by (destruct a; try discriminate; reflexivity).
  rewrite Dd in D. clear Dd. apply andb_prop in D. destruct D as [Una D2].
  assert (I : implies a b) by (apply implies_unsat_l; apply is_unsat_eq; exact Una).
  destruct (is_unsat b) eqn:Ub; [split; [reflexivity|exact I]|].
  cbn [orb] in D2. apply negb_true_iff in D2.
  rewrite general_const by (destruct (normalized a); simpl in *; congruence).
  rewrite Una, D2. split; [reflexivity|exact I].
Qed.

(* the recursion always has enough fuel, and no panic site (the "unreachable" one and the
   debug assertions of first_constraint / satisfy_constraint) is ever reached *)
Theorem entails_total a b : exists r, entails a b = r /\ r <> EFuel /\ r <> EPanic /\
  (r = ENone <-> ENTAILMENT_MAX_TERMINALS < n_terminals a).
Proof.
  destruct (Nat.le_gt_cases (n_terminals a) ENTAILMENT_MAX_TERMINALS) as [H20|H20].
  - destruct (entails_defect a b) eqn:D.
    + destruct (entails_defect_wrong a b D H20) as [E _]. exists (ESome false).
      repeat split; try exact E; try discriminate. lia.
    + destruct (entails_exact_except a b D H20) as (r & E & _). exists (ESome r).
      repeat split; try exact E; try discriminate. lia.
  - exists ENone. rewrite (nt_guard_none a b H20). repeat split; try discriminate. intros _. exact H20.
Qed.

(* the unrestricted statement is false *)
Theorem entails_exact_refuted :
  exists a b, wf a = true /\ wf b = true /\ entails a b = ESome false /\ implies a b.
Proof.
  exists STriv, (SThresh 1 [STriv; SKey 0]). split; [reflexivity|]. split; [reflexivity|].
  apply entails_defect_wrong; [reflexivity|unfold ENTAILMENT_MAX_TERMINALS; simpl; lia].
Qed.

(* soundness in worlds: a positive answer is an implication in every world.  The converse
   fails by design: lock times are independent atoms for the procedure. *)
Theorem entails_sound_worlds a b :
  entails a b = ESome true -> forall w, eval w a = true -> eval w b = true.
Proof.
  intros E w. unfold eval.
  destruct (Nat.le_gt_cases (n_terminals a) ENTAILMENT_MAX_TERMINALS) as [H20|H20];
    [|rewrite (nt_guard_none a b H20) in E; discriminate].
  destruct (entails_defect a b) eqn:D.
  - destruct (entails_defect_wrong a b D H20) as [_ I]. apply I.
  - destruct (entails_exact_except a b D H20) as (r & Er & R). rewrite E in Er. inversion Er; subst.
    apply R. reflexivity.
Qed.
Theorem entails_worlds_incomplete :
  exists a b, entails a b = ESome false /\ forall w, eval w a = true -> eval w b = true.
Proof.
  exists (SOlder 10), (SOlder 5). split; [reflexivity|].
  intros w. unfold eval. cbn [evalA leaf_truth]. unfold csv_ok.
  change (N.testbit 10 22) with false. change (N.testbit 5 22) with false.
  change (10 mod 65536)%N with 10%N. change (5 mod 65536)%N with 5%N.
  destruct (w_age w); cbn [negb andb]; [|discriminate].
  intro H. apply N.leb_le in H. apply N.leb_le. lia.
Qed.
