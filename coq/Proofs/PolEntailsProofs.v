(* C18: Semantic::entails against truth-table implication (atoms independent). *)
From Coq Require Import List NArith Bool Arith Lia Permutation.
Import ListNotations.
From Verif Require Import PolSemantic PolConcrete PolTruth PolSemanticProofs.

(* ------------------------------------------------------------------ terminals = leaves *)
Lemma list_sum_app a b : list_sum (a ++ b) = list_sum a + list_sum b.
Proof. induction a; simpl; lia. Qed.

Lemma length_flat_map {A B} (f : A -> list B) l :
  length (flat_map f l) = list_sum (map (fun x => length (f x)) l).
Proof. induction l as [|x r IH]; [reflexivity|]. simpl. rewrite app_length, IH. reflexivity. Qed.

Lemma nt_leaves : forall p, n_terminals p = length (leaves_of p).
Proof.
  induction p using spol_ind'; try reflexivity.
  cbn [n_terminals leaves_of]. rewrite length_flat_map. f_equal. apply map_ext_Forall. exact H.
Qed.

Lemma leaves_push_eq a o subs :
  flat_map leaves_of (flat_map (norm_push a o) subs) = flat_map leaves_of subs.
Proof.
  induction subs as [|x l IH]; [reflexivity|].
  cbn [flat_map]. rewrite flat_map_app, IH. f_equal.
  destruct x as [| | | | | | | | |k' s']; try reflexivity.
  cbn [norm_push leaves_of].
  destruct a, o; try (cbn [flat_map leaves_of]; apply app_nil_r).
  - destruct (k' =? length s'); [reflexivity|cbn [flat_map leaves_of]; apply app_nil_r].
  - destruct (k' =? 1); [reflexivity|cbn [flat_map leaves_of]; apply app_nil_r].
Qed.

Lemma leaves_norm_node k subs :
  leaves_of (norm_node k subs) = [] \/ leaves_of (norm_node k subs) = flat_map leaves_of subs.
Proof.
  unfold norm_node.
  set (tc := length (filter is_triv subs)). set (uc := length (filter is_unsat subs)).
  set (a := k - tc =? length subs - uc - tc). set (o := k - tc =? 1).
  pose proof (leaves_push_eq a o subs) as Hi.
  destruct (k - tc =? 0); [left; reflexivity|].
  destruct (length (flat_map (norm_push a o) subs) <? k - tc); [left; reflexivity|].
  destruct (flat_map (norm_push a o) subs) as [|x [|y r]] eqn:E.
  - left. destruct a; [|destruct o]; reflexivity.
  - right. cbn [flat_map] in Hi. rewrite app_nil_r in Hi. exact Hi.
  - right. destruct a; [|destruct o]; exact Hi.
Qed.

Lemma nt_norm_node k subs : n_terminals (norm_node k subs) <= list_sum (map n_terminals subs).
Proof.
  rewrite nt_leaves.
  replace (list_sum (map n_terminals subs)) with (length (flat_map leaves_of subs)).
  - destruct (leaves_norm_node k subs) as [E|E]; rewrite E; simpl; lia.
  - rewrite length_flat_map. f_equal. apply map_ext_Forall. apply Forall_forall. intros. symmetry. apply nt_leaves.
Qed.

Lemma list_sum_le {A} (f g : A -> nat) l :
  Forall (fun x => f x <= g x) l -> list_sum (map f l) <= list_sum (map g l).
Proof. induction 1; simpl; lia. Qed.

Lemma nt_normalized : forall p, n_terminals (normalized p) <= n_terminals p.
Proof.
  induction p using spol_ind'; try (apply le_n).
  cbn [normalized]. eapply Nat.le_trans; [apply nt_norm_node|].
  cbn [n_terminals]. rewrite map_map. apply list_sum_le. exact H.
Qed.

(* ------------------------------------------------------------------ first_constraint *)
Definition is_leaf (l : spol) : bool := negb (is_const l) && negb (is_thresh l).

Lemma first_constraint_leaf : forall p,
  is_normal p = true -> is_const p = false ->
  is_leaf (first_constraint p) = true /\ In (first_constraint p) (leaves_of p).
Proof.
  induction p using spol_ind'; intros Hn Hc; try discriminate;
    try (split; [reflexivity|left; reflexivity]).
  destruct (normal_parts _ _ Hn) as (H2 & _ & _ & Hnc & _ & _ & Hs).
  destruct subs as [|s r]; [simpl in H2; lia|].
  cbn [first_constraint]. inversion H as [|? ? Hs1 _]; subst.
  cbn [forallb] in Hnc, Hs. apply andb_prop in Hnc. destruct Hnc as [Hnc _].
  apply andb_prop in Hs. destruct Hs as [Hs _].
  unfold nonconstb in Hnc. apply negb_true_iff in Hnc.
  destruct (Hs1 Hs Hnc) as [L I]. split; [exact L|].
  cbn [leaves_of flat_map]. apply in_or_app. left. exact I.
Qed.

(* ------------------------------------------------------------------ satisfy_constraint *)
Definition upd (rho : spol -> bool) (w : spol) (v : bool) : spol -> bool :=
  fun l => if spol_eqb l w then v else rho l.

Lemma sc_thresh k subs w v :
  satisfy_constraint (SThresh k subs) w v
  = normalized (SThresh k (map (fun s => satisfy_constraint s w v) subs)).
Proof. reflexivity. Qed.

Lemma sc_eval rho w v : is_leaf w = true ->
  forall p, evalA rho (satisfy_constraint p w v) = evalA (upd rho w v) p.
Proof.
  intro Hw. induction p using spol_ind';
    try (cbn [satisfy_constraint]; destruct w; try discriminate; reflexivity);
    try (cbn [satisfy_constraint evalA]; unfold upd;
         match goal with |- context [spol_eqb ?a ?b] => destruct (spol_eqb a b) end;
         [destruct v; reflexivity|reflexivity]).
  rewrite sc_thresh, normalized_eval. cbn [evalA]. rewrite map_map. f_equal. f_equal.
  apply map_ext_Forall. exact H.
Qed.

Lemma sc_normal p w v : is_normal (satisfy_constraint p w v) = true.
Proof.
  destruct p; try (cbn [satisfy_constraint];
    match goal with |- context [spol_eqb ?a ?b] => destruct (spol_eqb a b) end;
    [destruct v; reflexivity|reflexivity]).
  rewrite sc_thresh. apply normalized_normal.
Qed.

Lemma filter_flat_map {A B} (f : B -> bool) (g : A -> list B) l :
  filter f (flat_map g l) = flat_map (fun x => filter f (g x)) l.
Proof. induction l as [|x r IH]; [reflexivity|]. simpl. rewrite filter_app, IH. reflexivity. Qed.

Lemma nt_sc w v : is_leaf w = true -> forall p,
  n_terminals (satisfy_constraint p w v) <= length (filter (fun l => negb (spol_eqb l w)) (leaves_of p)).
Proof.
  intro Hw. induction p using spol_ind';
    try (cbn [satisfy_constraint leaves_of filter];
         match goal with |- context [spol_eqb ?a ?b] => destruct (spol_eqb a b) end;
         [destruct v; simpl; lia|simpl; lia]).
  rewrite sc_thresh. eapply Nat.le_trans; [apply nt_normalized|].
  cbn [n_terminals leaves_of]. rewrite map_map, filter_flat_map, length_flat_map.
  apply list_sum_le. exact H.
Qed.

Lemma filter_len_le {A} (f : A -> bool) l : length (filter f l) <= length l.
Proof. induction l as [|x r IH]; [apply le_n|]. simpl. destruct (f x); simpl; lia. Qed.

Lemma filter_lt {A} (f : A -> bool) l x : In x l -> f x = false -> length (filter f l) < length l.
Proof.
  induction l as [|y r IH]; [contradiction|]. intros [->|Hin] Hf; simpl.
  - rewrite Hf. pose proof (filter_len_le f r). lia.
  - specialize (IH Hin Hf). destruct (f y); simpl; lia.
Qed.

Lemma nt_sc_lt w v p : is_leaf w = true -> In w (leaves_of p) ->
  n_terminals (satisfy_constraint p w v) < n_terminals p.
Proof.
  intros Hw Hin. eapply Nat.le_lt_trans; [apply nt_sc; exact Hw|].
  rewrite nt_leaves. eapply filter_lt; [exact Hin|]. rewrite spol_eqb_refl. reflexivity.
Qed.

(* replacing a constant in a normal policy that is not that constant changes nothing *)
Lemma sc_const_id w v : is_const w = true -> forall x,
  is_normal x = true -> x <> w -> satisfy_constraint x w v = x.
Proof.
  intro Hw. induction x using spol_ind'; intros Hn Hx;
    try (cbn [satisfy_constraint];
         match goal with |- context [spol_eqb ?a ?b] => destruct (spol_eqb a b) eqn:E end;
         [apply spol_eqb_eq in E; congruence|reflexivity]).
  rewrite sc_thresh.
  destruct (normal_parts _ _ Hn) as (_ & _ & _ & Hnc & _ & _ & Hs).
  assert (E : map (fun s => satisfy_constraint s w v) subs = subs).
  { clear Hn Hx. induction H as [|c r Hc Hr IH]; [reflexivity|].
    cbn [forallb] in Hnc, Hs. apply andb_prop in Hnc. destruct Hnc as [Nc Ncr].
    apply andb_prop in Hs. destruct Hs as [Sc Scr].
    cbn [map]. rewrite (IH Ncr Scr). f_equal. apply Hc; [exact Sc|].
    intro. subst c. unfold nonconstb in Nc. rewrite Hw in Nc. discriminate. }
  rewrite E. apply normal_fix. exact Hn.
Qed.

(* ------------------------------------------------------------------ the debug assertions *)
Lemma normal_child k subs s : is_normal (SThresh k subs) = true -> In s subs -> is_normal s = true.
Proof.
  intros Hn Hin. destruct (normal_parts _ _ Hn) as (_ & _ & _ & _ & _ & _ & Hs).
  eapply forallb_forall in Hs; eassumption.
Qed.

Lemma normal_fc_assert : forall p, is_normal p = true -> fc_assert_ok p = true.
Proof.
  induction p using spol_ind'; intro Hn; try reflexivity;
    try (cbn [fc_assert_ok normalized]; rewrite spol_eqb_refl; reflexivity).
  cbn [fc_assert_ok]. rewrite (normal_fix _ Hn), spol_eqb_refl. cbn [andb].
  destruct subs as [|s r]; [reflexivity|].
  inversion H; subst. apply H2. eapply normal_child; [exact Hn|left; reflexivity].
Qed.
Lemma normal_sc_assert : forall p, is_normal p = true -> sc_assert_ok p = true.
Proof.
  induction p using spol_ind'; intro Hn; try reflexivity;
    try (cbn [sc_assert_ok normalized]; rewrite spol_eqb_refl; reflexivity).
  cbn [sc_assert_ok]. rewrite (normal_fix _ Hn), spol_eqb_refl. cbn [andb].
  apply forallb_forall. intros s Hs. rewrite Forall_forall in H. apply H; [exact Hs|].
  eapply normal_child; eassumption.
Qed.

(* ------------------------------------------------------------------ truth-table facts *)
Lemma count_true_all (f : spol -> bool) l :
  Forall (fun c => f c = true) l -> count_true (map f l) = length l.
Proof. induction 1 as [|c r Hc Hr IH]; [reflexivity|]. cbn [map]. rewrite count_true_cons, Hc, IH. reflexivity. Qed.
Lemma count_true_none (f : spol -> bool) l :
  Forall (fun c => f c = false) l -> count_true (map f l) = 0.
Proof. induction 1 as [|c r Hc Hr IH]; [reflexivity|]. cbn [map]. rewrite count_true_cons, Hc, IH. reflexivity. Qed.

Lemma normal_all_true : forall p, is_normal p = true -> p <> SUnsat -> evalA (fun _ => true) p = true.
Proof.
  induction p using spol_ind'; intros Hn Hp; try reflexivity; [congruence|].
  destruct (normal_parts _ _ Hn) as (_ & _ & Hk & Hnc & _ & _ & Hs).
  cbn [evalA]. rewrite count_true_all; [apply Nat.leb_le; exact Hk|].
  apply Forall_forall. intros c Hc. rewrite Forall_forall in H. apply H; [exact Hc| |].
  - eapply forallb_forall in Hs; eassumption.
  - eapply forallb_forall in Hnc; [|exact Hc]. intro. subst c. discriminate.
Qed.
Lemma normal_all_false : forall p, is_normal p = true -> p <> STriv -> evalA (fun _ => false) p = false.
Proof.
  induction p using spol_ind'; intros Hn Hp; try reflexivity; [congruence|].
  destruct (normal_parts _ _ Hn) as (_ & H1 & _ & Hnc & _ & _ & Hs).
  cbn [evalA]. rewrite count_true_none; [apply Nat.leb_gt; lia|].
  apply Forall_forall. intros c Hc. rewrite Forall_forall in H. apply H; [exact Hc| |].
  - eapply forallb_forall in Hs; eassumption.
  - eapply forallb_forall in Hnc; [|exact Hc]. intro. subst c. discriminate.
Qed.

(* Shannon expansion on one atom *)
Lemma shannon w a b :
  implies a b <->
  (forall rho, evalA (upd rho w true) a = true -> evalA (upd rho w true) b = true) /\
  (forall rho, evalA (upd rho w false) a = true -> evalA (upd rho w false) b = true).
Proof.
  split.
  - intro I. split; intros rho; apply I.
  - intros [IT IF] rho Ha.
    assert (E : forall l, upd rho w (rho w) l = rho l).
    { intro l. unfold upd. destruct (spol_eqb l w) eqn:El; [|reflexivity]. apply spol_eqb_eq in El. congruence. }
    rewrite <- (evalA_ext _ _ E a) in Ha. rewrite <- (evalA_ext _ _ E b).
    destruct (rho w); [apply IT|apply IF]; exact Ha.
Qed.

Lemma implies_normalized a b : implies (normalized a) (normalized b) <-> implies a b.
Proof. unfold implies. split; intros I rho; specialize (I rho); rewrite ?normalized_eval in *; exact I. Qed.

(* ------------------------------------------------------------------ one step of entails *)
Definition entails_general (rec : spol -> spol -> eres) (an bn : spol) : eres :=
  if negb (fc_assert_ok an) then EPanic
  else
    let fc := first_constraint an in
    if negb (sc_assert_ok an && sc_assert_ok bn) || is_thresh fc then EPanic
    else
      match rec (satisfy_constraint an fc true) (satisfy_constraint bn fc true) with
      | ESome true => rec (satisfy_constraint an fc false) (satisfy_constraint bn fc false)
      | r => r
      end.

Lemma entails_f_step f a b :
  entails_f (S f) a b =
  if ENTAILMENT_MAX_TERMINALS <? n_terminals a then ENone
  else if is_unsat (normalized a) then ESome true
  else if is_triv (normalized a) then ESome (is_triv (normalized b))
  else if is_unsat (normalized b) then ESome false
  else entails_general (entails_f f) (normalized a) (normalized b).
Proof.
  cbn [entails_f]. destruct (ENTAILMENT_MAX_TERMINALS <? n_terminals a); [reflexivity|].
  cbv zeta. destruct (normalized a); destruct (normalized b); reflexivity.
Qed.

(* ------------------------------------------------------------------ correctness *)
Definition ent_ok (a b : spol) (res : eres) : Prop :=
  exists r, res = ESome r /\ (r = true <-> implies a b).

Definition P (n : nat) : Prop :=
  forall a b, n_terminals a <= n -> n_terminals a <= ENTAILMENT_MAX_TERMINALS ->
              ent_ok a b (entails_f (S (S n)) a b).

Lemma sc_implies w an bn v : is_leaf w = true ->
  implies (satisfy_constraint an w v) (satisfy_constraint bn w v) <->
  (forall rho, evalA (upd rho w v) an = true -> evalA (upd rho w v) bn = true).
Proof.
  intro Hw. unfold implies. split; intros I rho; specialize (I rho); rewrite ?sc_eval in * by exact Hw; exact I.
Qed.

Lemma is_leaf_not_thresh w : is_leaf w = true -> is_thresh w = false.
Proof. unfold is_leaf. destruct w; simpl; congruence. Qed.

Lemma general_ok n' : P n' -> forall an bn,
  is_normal an = true -> is_normal bn = true -> is_const an = false ->
  n_terminals an <= S n' -> n_terminals an <= ENTAILMENT_MAX_TERMINALS ->
  ent_ok an bn (entails_general (entails_f (S (S n'))) an bn).
Proof.
  intros IH an bn Na Nb Hc Hn H20. unfold entails_general.
  rewrite (normal_fc_assert an Na), (normal_sc_assert an Na), (normal_sc_assert bn Nb).
  destruct (first_constraint_leaf an Na Hc) as [L I].
  set (fc := first_constraint an) in *.
  rewrite (is_leaf_not_thresh fc L). cbn [negb andb orb].
  pose proof (nt_sc_lt fc true an L I) as Lt1. pose proof (nt_sc_lt fc false an L I) as Lt2.
  pose proof (shannon fc an bn) as Sh.
  destruct (IH (satisfy_constraint an fc true) (satisfy_constraint bn fc true))
    as (r1 & E1 & R1); [lia|lia|].
  rewrite E1. rewrite (sc_implies fc an bn true L) in R1.
  destruct r1.
  - destruct (IH (satisfy_constraint an fc false) (satisfy_constraint bn fc false))
      as (r2 & E2 & R2); [lia|lia|].
    rewrite (sc_implies fc an bn false L) in R2.
    exists r2. split; [exact E2|]. rewrite Sh, R2.
    split; [intro Hr; split; [apply R1; reflexivity|exact Hr]|intros [_ Hr]; exact Hr].
  - exists false. split; [reflexivity|]. rewrite Sh. split; [discriminate|].
    intros [HT _]. apply R1. exact HT.
Qed.

Lemma normal_nonconst_nt a : is_normal a = true -> is_const a = false -> 1 <= n_terminals a.
Proof.
  intros Na Hc. destruct (first_constraint_leaf a Na Hc) as [_ I].
  rewrite nt_leaves. destruct (leaves_of a); [contradiction|simpl; lia].
Qed.

Lemma implies_unsat_l a b : normalized a = SUnsat -> implies a b.
Proof. intros E rho Ha. rewrite <- (normalized_eval rho a), E in Ha. discriminate. Qed.
Lemma implies_triv_r a b : normalized b = STriv -> implies a b.
Proof. intros E rho _. rewrite <- (normalized_eval rho b), E. reflexivity. Qed.
Lemma not_taut b : normalized b <> STriv -> evalA (fun _ => false) b = false.
Proof. intro H. rewrite <- normalized_eval. apply normal_all_false; [apply normalized_normal|exact H]. Qed.
Lemma sat_of a : normalized a <> SUnsat -> evalA (fun _ => true) a = true.
Proof. intro H. rewrite <- normalized_eval. apply normal_all_true; [apply normalized_normal|exact H]. Qed.

Lemma is_triv_eq p : is_triv p = true <-> p = STriv.
Proof. destruct p; simpl; split; congruence. Qed.
Lemma is_unsat_eq p : is_unsat p = true <-> p = SUnsat.
Proof. destruct p; simpl; split; congruence. Qed.

(* one unfolding: the head matches are right for every pair of arguments *)
Lemma step_ok n :
  (forall an bn, is_normal an = true -> is_normal bn = true -> is_const an = false ->
                 n_terminals an <= n -> n_terminals an <= ENTAILMENT_MAX_TERMINALS ->
                 ent_ok an bn (entails_general (entails_f (S n)) an bn)) ->
  P n.
Proof.
  intros Hgen a b Hn H20. rewrite entails_f_step.
  destruct (Nat.ltb_spec ENTAILMENT_MAX_TERMINALS (n_terminals a)); [lia|].
  pose proof (nt_normalized a) as Hle.
  destruct (is_unsat (normalized a)) eqn:Ua.
  { exists true. split; [reflexivity|]. split; [intros _|reflexivity].
    apply implies_unsat_l. apply is_unsat_eq. exact Ua. }
  destruct (is_triv (normalized a)) eqn:Ta.
  { apply is_triv_eq in Ta. exists (is_triv (normalized b)). split; [reflexivity|].
    destruct (is_triv (normalized b)) eqn:Tb.
    - split; [intros _|reflexivity]. apply implies_triv_r. apply is_triv_eq. exact Tb.
    - split; [discriminate|]. intro I. specialize (I (fun _ => false)).
      rewrite <- (normalized_eval _ a), Ta in I. specialize (I eq_refl).
      rewrite not_taut in I; [discriminate|]. intro E. rewrite E in Tb. discriminate. }
  destruct (is_unsat (normalized b)) eqn:Ub.
  { apply is_unsat_eq in Ub. exists false. split; [reflexivity|]. split; [discriminate|].
    intro I. specialize (I (fun _ => true)). rewrite sat_of in I.
    - specialize (I eq_refl). rewrite <- normalized_eval, Ub in I. discriminate.
    - intro E. rewrite E in Ua. discriminate. }
  assert (Hc : is_const (normalized a) = false) by (destruct (normalized a); simpl in *; congruence).
  destruct (Hgen (normalized a) (normalized b)) as (r & E & R);
    [apply normalized_normal|apply normalized_normal|exact Hc|lia|lia|].
  exists r. split; [exact E|]. rewrite R. apply implies_normalized.
Qed.

Lemma entails_all : forall n, P n.
Proof.
  induction n as [|n' IH]; apply step_ok.
  - intros an bn Na _ Hc Hn _. pose proof (normal_nonconst_nt an Na Hc). lia.
  - intros an bn Na Nb Hc Hn H20. apply general_ok; assumption.
Qed.

(* ------------------------------------------------------------------ theorems about entails *)
Lemma nt_guard_none a b : ENTAILMENT_MAX_TERMINALS < n_terminals a -> entails a b = ENone.
Proof.
  intro H. unfold entails. rewrite entails_f_step.
  destruct (Nat.ltb_spec ENTAILMENT_MAX_TERMINALS (n_terminals a)); [reflexivity|lia].
Qed.

(* entailment answers agree with truth-table implication: all arguments up to the guard *)
Theorem entails_exact a b :
  n_terminals a <= ENTAILMENT_MAX_TERMINALS ->
  exists r, entails a b = ESome r /\ (r = true <-> implies a b).
Proof. intro H20. apply entails_all; [apply le_n|exact H20]. Qed.

(* the recursion always has enough fuel, and no panic site (the "unreachable" one and the
   debug assertions of first_constraint / satisfy_constraint) is ever reached *)
Theorem entails_total a b : exists r, entails a b = r /\ r <> EFuel /\ r <> EPanic /\
  (r = ENone <-> ENTAILMENT_MAX_TERMINALS < n_terminals a).
Proof.
  destruct (Nat.le_gt_cases (n_terminals a) ENTAILMENT_MAX_TERMINALS) as [H20|H20].
  - destruct (entails_exact a b H20) as (r & E & _). exists (ESome r).
    repeat split; try exact E; try discriminate. lia.
  - exists ENone. rewrite (nt_guard_none a b H20). repeat split; try discriminate. intros _. exact H20.
Qed.

(* soundness in worlds: a positive answer is an implication in every world.  The converse
   fails by design: lock times are independent atoms for the procedure. *)
Theorem entails_sound_worlds a b :
  entails a b = ESome true -> forall w, eval w a = true -> eval w b = true.
Proof.
  intros E w. unfold eval.
  destruct (Nat.le_gt_cases (n_terminals a) ENTAILMENT_MAX_TERMINALS) as [H20|H20];
    [|rewrite (nt_guard_none a b H20) in E; discriminate].
  destruct (entails_exact a b H20) as (r & Er & R). rewrite E in Er. inversion Er; subst.
  apply R. reflexivity.
Qed.
Theorem entails_worlds_incomplete :
  exists a b, entails a b = ESome false /\ forall w, eval w a = true -> eval w b = true.
Proof.
  exists (SOlder 10), (SOlder 5). split; [reflexivity|].
  intros w. unfold eval. cbn [evalA leaf_truth]. unfold csv_ok.
  change (N.testbit 10 22) with false. change (N.testbit 5 22) with false.
  change (10 mod 65536)%N with 10%N. change (5 mod 65536)%N with 5%N.
  destruct (w_age w); cbn [negb andb]; [|discriminate].
  intro H. apply N.leb_le in H. apply N.leb_le. lia.
Qed.
