(* C04 second round: the parser is SOUND — it only accepts token lists that are exactly the
   token list of the miniscript it returns (plus the unread rest).  Technique: an "unparse"
   of every machine configuration (non-terminal stack + terminal stack) into the suffix of the
   script consumed so far, preserved by every step. *)
From Coq Require Import Lia.
From Verif Require Import DecodeModel CodecSpec EncProofs DecodeProofs DecodeEnc.
Local Open Scope N_scope.

(* ------------------------------------------------------------------ unparsing a configuration *)
Definition item := list token.
Definition addcat (ws : list item) : item := flat_map (fun w => w ++ [TkAdd]) ws.

Fixpoint take_items (n : nat) (vs : list item) : option (list item * list item) :=
  match n with
  | O => Some ([], vs)
  | S n' => match vs with [] => None | x :: r =>
              match take_items n' r with Some (a, b) => Some (x :: a, b) | None => None end end
  end.

(* what a non-terminal will make of the items above it; a hole [] stands for an expression
   that is still to be read *)
Definition comp (nt : nonterm) (vs : list item) : option (list item) :=
  match nt with
  | NtExpression | NtWExpression => Some ([] :: vs)
  | NtMaybeAndV | NtSwap => match vs with a :: r => Some (a :: r) | [] => None end
  | NtAlt => match vs with a :: r => Some ((a ++ [TkFromAltStack]) :: r) | [] => None end
  | NtCheck => match vs with a :: r => Some ((a ++ [TkCheckSig]) :: r) | [] => None end
  | NtVerify => match vs with a :: r => Some ((a ++ [TkVerify]) :: r) | [] => None end
  | NtZeroNotEqual => match vs with a :: r => Some ((a ++ [TkZeroNotEqual]) :: r) | [] => None end
  | NtDupIf => match vs with a :: r => Some (([TkDup; TkIf] ++ a ++ [TkEndIf]) :: r) | [] => None end
  | NtNonZero => match vs with a :: r => Some (([TkSize; TkZeroNotEqual; TkIf] ++ a ++ [TkEndIf]) :: r) | [] => None end
  | NtAndV => match vs with x :: y :: r => Some ((x ++ y) :: r) | _ => None end
  | NtAndB => match vs with x :: y :: r => Some ((x ++ y ++ [TkBoolAnd]) :: r) | _ => None end
  | NtOrB => match vs with x :: y :: r => Some ((x ++ y ++ [TkBoolOr]) :: r) | _ => None end
  | NtOrD => match vs with x :: y :: r => Some ((x ++ [TkIfDup; TkNotIf] ++ y ++ [TkEndIf]) :: r) | _ => None end
  | NtOrC => match vs with x :: y :: r => Some ((x ++ [TkNotIf] ++ y ++ [TkEndIf]) :: r) | _ => None end
  | NtTern => match vs with a :: b :: c :: r => Some ((a ++ [TkNotIf] ++ b ++ [TkElse] ++ c ++ [TkEndIf]) :: r) | _ => None end
  | NtThreshW k n =>
    match take_items (N.to_nat n) vs with
    | Some (ws, r) => Some ((addcat ws ++ [TkNum k; TkEqual]) :: r)
    | None => None end
  | NtThreshE k n =>
    match take_items (N.to_nat n) vs with
    | Some (x0 :: ws, r) => Some ((x0 ++ addcat ws ++ [TkNum k; TkEqual]) :: r)
    | _ => None end
  | NtEndIf => match vs with a :: r => Some ((a ++ [TkEndIf]) :: r) | [] => None end
  | NtEndIfNotIf => match vs with a :: r => Some (([TkNotIf] ++ a ++ [TkEndIf]) :: r) | [] => None end
  | NtEndIfElse => match vs with x :: y :: r => Some ((x ++ [TkElse] ++ y ++ [TkEndIf]) :: r) | _ => None end
  end.

Fixpoint unp (nts : list nonterm) (vs : list item) : option (list item) :=
  match nts with
  | [] => Some vs
  | nt :: r => match comp nt vs with Some vs' => unp r vs' | None => None end
  end.

(* non-terminals that may sit BELOW the top of the stack *)
Definition generic (nt : nonterm) : Prop :=
  match nt with
  | NtExpression | NtWExpression | NtDupIf | NtNonZero | NtEndIfNotIf => False
  | NtThreshW _ n | NtThreshE _ n => 1 <= n
  | _ => True
  end.
Fixpoint tailok (nts : list nonterm) : Prop :=
  match nts with
  | [] => True
  | NtExpression :: r => match r with NtAndB :: r' | NtOrB :: r' => tailok r' | _ => False end
  | nt :: r => generic nt /\ tailok r
  end.

Lemma tailok_tl nts : tailok nts -> tailok (tl nts).
Proof.
  destruct nts as [|nt r]; [auto|]. destruct nt; cbn [tailok tl generic]; try tauto.
  destruct r as [|n2 r']; [tauto|]. destruct n2; try tauto; cbn [tailok generic]; tauto.
Qed.

(* prepending to the top item prepends to the whole, for a generic non-terminal *)
Lemma take_items_cons n x r : take_items (S n) (x :: r) =
  match take_items n r with Some (a, b) => Some (x :: a, b) | None => None end.
Proof. reflexivity. Qed.

Lemma comp_prepend nt c I vs0 vs1 : generic nt -> comp nt (I :: vs0) = Some vs1 ->
  exists I' vs0', vs1 = I' :: vs0' /\ comp nt ((c ++ I) :: vs0) = Some ((c ++ I') :: vs0').
Proof.
  intros Hg H. destruct nt; cbn [generic] in Hg; try contradiction; cbn [comp] in *.
  all: try (injection H as <-; eexists _, _; split; [reflexivity|]; rewrite <- ?app_assoc; reflexivity).
  all: try (destruct vs0 as [|y r]; [discriminate|]; injection H as <-; eexists _, _; split; [reflexivity|];
            rewrite <- ?app_assoc; reflexivity).
  - (* tern *) destruct vs0 as [|y [|z r]]; try discriminate. injection H as <-. eexists _, _. split; [reflexivity|].
    rewrite <- ?app_assoc. reflexivity.
  - (* threshw *) destruct (N.to_nat n) as [|n'] eqn:En; [lia|]. rewrite take_items_cons in *.
    destruct (take_items n' vs0) as [[a b]|]; [|discriminate]. injection H as <-.
    eexists _, _. split; [reflexivity|]. cbn [addcat flat_map]. rewrite <- !app_assoc. reflexivity.
  - (* threshe *) destruct (N.to_nat n) as [|n'] eqn:En; [lia|]. rewrite take_items_cons in *.
    destruct (take_items n' vs0) as [[a b]|]; [|discriminate]. injection H as <-.
    eexists _, _. split; [reflexivity|]. rewrite <- !app_assoc. reflexivity.
Qed.

Lemma unp_prepend_n : forall n rest, (length rest <= n)%nat -> forall I vs0 S c, tailok rest ->
  unp rest (I :: vs0) = Some [S] -> unp rest ((c ++ I) :: vs0) = Some [c ++ S].
Proof.
  induction n as [|n IH]; intros rest Hl I vs0 S c Hok H.
  - destruct rest; [|cbn in Hl; lia]. cbn in *. injection H as H1 H2; subst; reflexivity.
  - destruct rest as [|nt rest]; [cbn in *; injection H as H1 H2; subst; reflexivity|].
    cbn [length] in Hl.
    destruct (match nt with NtExpression => true | _ => false end) eqn:Ee.
    + destruct nt; try discriminate. cbn [tailok] in Hok.
      destruct rest as [|n2 r']; [contradiction|]. cbn [length] in Hl.
      assert (Hr : tailok r' /\ (n2 = NtAndB \/ n2 = NtOrB)) by (destruct n2; try contradiction; auto).
      destruct Hr as [Hr [-> | ->]]; cbn [unp comp] in *.
      * replace ([] ++ (c ++ I) ++ [TkBoolAnd]) with (c ++ ([] ++ I ++ [TkBoolAnd])) by (cbn [app]; rewrite <- app_assoc; reflexivity).
        apply (IH r'); [lia|exact Hr|exact H].
      * replace ([] ++ (c ++ I) ++ [TkBoolOr]) with (c ++ ([] ++ I ++ [TkBoolOr])) by (cbn [app]; rewrite <- app_assoc; reflexivity).
        apply (IH r'); [lia|exact Hr|exact H].
    + assert (Hg : generic nt /\ tailok rest) by (destruct nt; try discriminate; exact Hok).
      destruct Hg as [Hg Hr]. cbn [unp] in *.
      destruct (comp nt (I :: vs0)) as [vs1|] eqn:Ec; [|discriminate].
      destruct (comp_prepend nt c I vs0 vs1 Hg Ec) as [I' [vs0' [-> Ec']]]. rewrite Ec'.
      apply (IH rest); [lia|exact Hr|exact H].
Qed.

Lemma unp_prepend rest I vs0 S c : tailok rest -> unp rest (I :: vs0) = Some [S] ->
  unp rest ((c ++ I) :: vs0) = Some [c ++ S].
Proof. apply (unp_prepend_n (length rest)). lia. Qed.

(* ------------------------------------------------------------------ hypotheses on tokens and keys *)
(* what the lexer guarantees about its tokens *)
Definition tok_wf (t : token) : Prop :=
  match t with
  | TkNum n => n < 2147483648
  | TkHash20 b => blen b = 20 | TkBytes32 b => blen b = 32
  | TkBytes33 b => blen b = 33 | TkBytes65 b => blen b = 65
  | _ => True
  end.

(* what Ctx::Key::from_slice and the key table guarantee: a decoded key serialises back to the
   bytes it was decoded from, x-only keys have 32 bytes, ECDSA keys 33 or 65; hash160 has 20 bytes *)
Record denv_ok (e : denv) : Prop := mkDenvOk {
  dk_inv : forall pk k, d_key e pk = Some k -> kb (d_ke e) k = pk;
  dk_len : forall pk k, d_key e pk = Some k ->
           if is_tap (d_ctx e) then blen pk = 32 else (blen pk = 33 \/ blen pk = 65);
  dk_hash : forall k, blen (kh (d_ke e) k) = 20
}.

(* the context in which the decoded miniscript is well formed (ms_wf only looks at key lengths) *)
Definition cx (e : denv) : ctx := if is_tap (d_ctx e) then Tap else Bare.

Section Sound.
  Variable e : denv.
  Hypothesis Hok : denv_ok e.
  Notation ke := (d_ke e).
  Definition wfm (m : ms) : Prop := ms_wf (cx e) ke m.
  Definition nt_wf (nt : nonterm) : Prop :=
    match nt with NtThreshW k _ | NtThreshE k _ => k < 2147483648 | _ => True end.

  Definition inv (ts0 : list token) (s : dstate) : Prop :=
    tailok (tl (ds_nts s)) /\ Forall nt_wf (ds_nts s) /\ Forall wfm (ds_terms s) /\ Forall tok_wf (ds_toks s) /\
    exists S, unp (ds_nts s) (map (mtoks ke) (ds_terms s)) = Some [S] /\ ts0 = rev (ds_toks s) ++ S.

  Definition ok_res (ts0 : list token) (r : stepres) : Prop :=
    match r with
    | SCont s' => inv ts0 s'
    | SDone rest m => ts0 = rev rest ++ mtoks ke m /\ wfm m
    | _ => True
    end.

  Lemma key_ok_dec pk k : d_key e pk = Some k -> key_ok (cx e) ke k /\ kb ke k = pk.
  Proof.
    intros H. pose proof (dk_inv e Hok pk k H) as Hi. pose proof (dk_len e Hok pk k H) as Hl.
    split; [|exact Hi]. unfold key_ok, cx. rewrite Hi. destruct (is_tap (d_ctx e)); (split; [exact Hl|apply (dk_hash e Hok)]).
  Qed.

  (* the generic closing step: [c] = the tokens consumed by this step, in script order *)
  Lemma inv_close ts0 rest I vs0 S c toks toks' nts' terms' :
    tailok rest -> unp rest (I :: vs0) = Some [S] -> ts0 = rev toks ++ S -> toks = rev c ++ toks' ->
    Forall tok_wf toks ->
    tailok (tl nts') -> Forall nt_wf nts' -> Forall wfm terms' ->
    unp nts' (map (mtoks ke) terms') = unp rest ((c ++ I) :: vs0) ->
    inv ts0 (mkDs toks' nts' terms').
  Proof.
    intros Ht HU Hts Hc Hw Ht' Hn' Hwf' HU'. unfold inv. cbn [ds_nts ds_toks ds_terms].
    split; [exact Ht'|]. split; [exact Hn'|]. split; [exact Hwf'|].
    split; [rewrite Hc in Hw; apply Forall_app in Hw; apply Hw|].
    exists (c ++ S). split; [rewrite HU'; apply unp_prepend; assumption|].
    rewrite Hts, Hc, rev_app_distr, rev_involutive, <- app_assoc. reflexivity.
  Qed.

  Lemma reduce0_snd ts0 m toks nts terms :
    inv ts0 (mkDs toks nts (m :: terms)) -> ok_res ts0 (reduce0 e m toks nts terms).
  Proof.
    intros H. unfold reduce0, from_ast. destruct (type_of m); [|exact I].
    destruct (MAX_RECURSION_DEPTH <? tree_height m); [exact I|].
    destruct (gv (d_ctx e) ke m); [exact I|]. exact H.
  Qed.

  (* ---- the key loops consume exactly the key tokens of the keys they return ---- *)
  Lemma multi_keys_snd : forall n toks acc keys r, multi_keys e n toks acc = inr (keys, r) -> Forall tok_wf toks ->
    exists ks, keys = ks ++ acc /\ length ks = n /\ toks = rev (map (fun k => key_token (kb ke k)) ks) ++ r /\
               keys_ok (cx e) ke ks.
  Proof.
    induction n as [|n IH]; intros toks acc keys r H Hw; cbn [multi_keys] in H.
    - injection H as <- <-. exists []. repeat split; auto.
    - destruct toks as [|t toks0]; [discriminate|]. inversion Hw as [|? ? Ht Hw0]; subst.
      assert (G : forall pk, (t = TkBytes33 pk \/ t = TkBytes65 pk) ->
                  match d_key e pk with Some k => multi_keys e n toks0 (k :: acc) | None => inl DePubKeyCtxError end = inr (keys, r) ->
                  exists ks, keys = ks ++ acc /\ length ks = S n /\
                    t :: toks0 = rev (map (fun k => key_token (kb ke k)) ks) ++ r /\ keys_ok (cx e) ke ks).
      { intros pk Hpk Hm. destruct (d_key e pk) as [k|] eqn:Ek; [|discriminate].
        destruct (IH _ _ _ _ Hm Hw0) as [ks [E1 [E2 [E3 E4]]]].
        destruct (key_ok_dec pk k Ek) as [Kok Kb].
        exists (ks ++ [k]). split; [rewrite E1; symmetry; apply snoc_app|]. split; [rewrite app_length; cbn; lia|].
        split.
        - rewrite map_app, rev_app_distr. cbn [map rev app]. rewrite Kb, E3.
          destruct Hpk as [-> | ->]; cbn [tok_wf] in Ht; unfold key_token, push_token; rewrite Ht; reflexivity.
        - apply (proj2 (keys_ok_forall (cx e) ke _)). apply Forall_app. split; [apply keys_ok_forall, E4|constructor; [exact Kok|constructor]]. }
      destruct t; try discriminate; [apply (G b); auto|apply (G b); auto].
  Qed.

  Lemma multi_a_tokens_snoc ks k : multi_a_tokens ke (ks ++ [k]) = multi_a_tokens ke ks ++ [key_token (kb ke k); TkCheckSigAdd].
  Proof. induction ks as [|a l IHl]; [reflexivity|]. cbn [app multi_a_tokens]. rewrite IHl. reflexivity. Qed.

  Lemma multi_a_keys_snd : forall n toks, (length toks <= n)%nat -> forall acc keys r,
    multi_a_keys e toks acc = inr (keys, r) -> Forall tok_wf toks ->
    exists ks, keys = ks ++ acc /\ toks = rev (multi_a_tokens ke ks) ++ r /\ keys_ok (cx e) ke ks /\
               (is_tap (d_ctx e) = false -> ks = []).
  Proof.
    induction n as [|n IH]; intros toks Hl acc keys r H Hw.
    - destruct toks; [|cbn in Hl; lia]. cbn in H. injection H as <- <-. exists []. repeat split; auto.
    - destruct toks as [|t toks0]; [cbn in H; injection H as <- <-; exists []; repeat split; auto|].
      cbn [multi_a_keys] in H.
      destruct t; try (injection H as <- <-; exists []; repeat split; auto; fail).
      destruct toks0 as [|t1 toks1]; [discriminate|]. destruct t1; try discriminate.
      destruct (d_key e b) as [k|] eqn:Ek; [|discriminate].
      inversion Hw as [|? ? _ Hw0]; subst. inversion Hw0 as [|? ? Hb Hw1]; subst. cbn [tok_wf] in Hb.
      cbn [length] in Hl. destruct (IH toks1 ltac:(lia) _ _ _ H Hw1) as [ks [E1 [E2 [E3 E4]]]].
      destruct (key_ok_dec b k Ek) as [Kok Kb].
      exists (ks ++ [k]). split; [rewrite E1; symmetry; apply snoc_app|]. split; [|split].
      + rewrite multi_a_tokens_snoc, rev_app_distr. cbn [rev app]. rewrite Kb, E2.
        unfold key_token, push_token. rewrite Hb. reflexivity.
      + apply (proj2 (keys_ok_forall (cx e) ke _)). apply Forall_app. split; [apply keys_ok_forall, E3|constructor; [exact Kok|constructor]].
      + intros Htap. exfalso. pose proof (dk_len e Hok b k Ek) as Hlen. rewrite Htap in Hlen. lia.
  Qed.

  (* ---- list bookkeeping for thresh ---- *)
  Lemma take_items_map : forall n (terms subs rest : list ms), pop_n n terms = Some (subs, rest) ->
    take_items n (map (mtoks ke) terms) = Some (map (mtoks ke) subs, map (mtoks ke) rest).
  Proof.
    induction n as [|n IH]; intros terms subs rest H; cbn [pop_n take_items] in *.
    - injection H as <- <-. reflexivity.
    - destruct terms as [|x r]; [discriminate|]. destruct (pop_n n r) as [[a b]|] eqn:E; [|discriminate].
      injection H as <- <-. cbn [map]. rewrite (IH _ _ _ E). reflexivity.
  Qed.
  Lemma pop_n_forall (P : ms -> Prop) : forall n terms subs rest, pop_n n terms = Some (subs, rest) ->
    Forall P terms -> Forall P subs /\ Forall P rest.
  Proof.
    induction n as [|n IH]; intros terms subs rest H Hf; cbn [pop_n] in H.
    - injection H as <- <-. split; [constructor|exact Hf].
    - destruct terms as [|x r]; [discriminate|]. destruct (pop_n n r) as [[a b]|] eqn:E; [|discriminate].
      injection H as <- <-. inversion Hf; subst. destruct (IH _ _ _ E H2) as [A B]. split; [constructor; assumption|exact B].
  Qed.
  Lemma thresh_tail_toks (ss : list ms) :
    (fix go (l : list ms) : list token := match l with [] => [] | x :: r => mtoks ke x ++ [TkAdd] ++ go r end) ss
    = addcat (map (mtoks ke) ss).
  Proof. induction ss as [|x r IH]; [reflexivity|]. cbn [map addcat flat_map]. rewrite IH. unfold addcat. rewrite <- app_assoc. reflexivity. Qed.
  Lemma wfm_list_fix (l : list ms) : Forall wfm l ->
    (fix go (l : list ms) : Prop := match l with [] => True | x :: r => ms_wf (cx e) ke x /\ go r end) l.
  Proof. induction 1; [exact I|]. split; assumption. Qed.

  Ltac list_eq := repeat (rewrite <- app_assoc); cbn [app]; repeat (rewrite <- app_assoc); try rewrite app_nil_r; reflexivity.

  (* ---- leaves and frames pushed by Expression ---- *)
  Section Expr.
    Variable ts0 : list token.
    Variables (rest : list nonterm) (terms : list ms) (S : item) (toks : list token).
    Hypothesis Htl : tailok rest.
    Hypothesis Hnt : Forall nt_wf rest.
    Hypothesis Hwf : Forall wfm terms.
    Hypothesis Htw : Forall tok_wf toks.
    Hypothesis HU : unp rest ([] :: map (mtoks ke) terms) = Some [S].
    Hypothesis Hts : ts0 = rev toks ++ S.

    Lemma leaf_snd m toks' : wfm m -> toks = rev (mtoks ke m) ++ toks' ->
      ok_res ts0 (push_leaf m toks' rest terms).
    Proof.
      intros Hm Hc. unfold push_leaf, ok_res.
      eapply (inv_close ts0 rest [] _ S (mtoks ke m)); try eassumption.
      - apply tailok_tl, Htl.
      - constructor; assumption.
      - cbn [map]. rewrite app_nil_r. reflexivity.
    Qed.

    Lemma frame_snd (fr : list nonterm) c toks' : toks = rev c ++ toks' ->
      tailok (tl (fr ++ rest)) -> Forall nt_wf fr ->
      unp (fr ++ rest) (map (mtoks ke) terms) = unp rest ((c ++ []) :: map (mtoks ke) terms) ->
      inv ts0 (mkDs toks' (fr ++ rest) terms).
    Proof.
      intros Hc Ht Hf Hu. eapply (inv_close ts0 rest [] _ S c); try eassumption.
      apply Forall_app. split; assumption.
    Qed.

    (* leaf + pending Verify (the EQUALVERIFY arms) *)
    Lemma leafv_snd m toks' : wfm m -> toks = rev (mtoks ke m ++ [TkVerify]) ++ toks' ->
      inv ts0 (mkDs toks' (NtVerify :: rest) (m :: terms)).
    Proof.
      intros Hm Hc. eapply (inv_close ts0 rest [] _ S (mtoks ke m ++ [TkVerify])); try eassumption.
      - constructor; [exact I|exact Hnt].
      - constructor; assumption.
      - cbn [map unp comp]. rewrite app_nil_r. reflexivity.
    Qed.

    Lemma hash_leaf_snd mk (v : bool) pats r : wfm mk ->
      (forall r', expect_seq pats r = inr r' -> toks = rev (mtoks ke mk ++ (if v then [TkVerify] else [])) ++ r') ->
      ok_res ts0 (hash_leaf mk v pats r rest terms).
    Proof.
      intros Hm Hc. unfold hash_leaf. destruct (expect_seq pats r) as [|r'] eqn:E; [exact I|].
      specialize (Hc r' eq_refl). destruct v.
      - apply leafv_snd; assumption.
      - rewrite app_nil_r in Hc. apply (leaf_snd mk r' Hm Hc).
    Qed.
  End Expr.

  Lemma bytes_eqb_eq : forall a b : bytes, bytes_eqb a b = true -> a = b.
  Proof.
    induction a as [|x a IHa]; intros [|y b1] Hab; try discriminate; [reflexivity|].
    cbn in Hab. apply andb_prop in Hab. destruct Hab as [H1 H2]. apply N.eqb_eq in H1. subst. f_equal. apply IHa, H2.
  Qed.

  Lemma expect_seq_eq pats : forall r r', expect_seq pats r = inr r' -> r = pats ++ r'.
  Proof.
    induction pats as [|p ps IH]; intros r r' H; cbn [expect_seq] in H.
    - injection H as <-. reflexivity.
    - destruct r as [|t r0]; [discriminate|]. destruct (tok_eqb p t) eqn:E; [|discriminate].
      rewrite (IH _ _ H). cbn [app]. f_equal.
      destruct p, t; try discriminate; try reflexivity; cbn in E;
        try (apply N.eqb_eq in E; subst; reflexivity); rewrite (bytes_eqb_eq _ _ E); reflexivity.
  Qed.

  Lemma nlen_of_length {A} (l : list A) n : length l = N.to_nat n -> nlen l = n.
  Proof. unfold nlen. intros ->. apply N2Nat.id. Qed.

  Section Expr2.
    Variable ts0 : list token.
    Variables (rest : list nonterm) (terms : list ms) (S : item) (toks : list token).
    Hypothesis Htl : tailok rest.
    Hypothesis Hnt : Forall nt_wf rest.
    Hypothesis Hwf : Forall wfm terms.
    Hypothesis Htw : Forall tok_wf toks.
    Hypothesis HU : unp rest ([] :: map (mtoks ke) terms) = Some [S].
    Hypothesis Hts : ts0 = rev toks ++ S.

    Notation LEAF := (leaf_snd ts0 rest terms S toks Htl Hnt Hwf Htw HU Hts).
    Notation FRAME := (frame_snd ts0 rest terms S toks Htl Hnt Hwf Htw HU Hts).
    Notation HASH := (hash_leaf_snd ts0 rest terms S toks Htl Hnt Hwf Htw HU Hts).

    Ltac twf := repeat match goal with H : Forall tok_wf (_ :: _) |- _ => inversion H; clear H; subst end; cbn [tok_wf] in *.

    Lemma equal_step_snd (v : bool) toks0 :
      toks = (if v then TkVerify :: TkEqual :: toks0 else TkEqual :: toks0) ->
      ok_res ts0 (equal_step v toks0 rest terms).
    Proof.
      intros Et. pose proof Htw as Htw'. rewrite Et in Htw'. unfold equal_step.
      destruct toks0 as [|t r]; [exact I|]. destruct t; try exact I.
      - (* Num k: thresh *)
        assert (Hk : n < 2147483648) by (destruct v; twf; assumption).
        destruct v.
        + apply (FRAME [NtThreshW n 0; NtVerify] [TkNum n; TkEqual; TkVerify] r); [rewrite Et; reflexivity|cbn; auto| |reflexivity].
          repeat constructor; exact Hk.
        + apply (FRAME [NtThreshW n 0] [TkNum n; TkEqual] r); [rewrite Et; reflexivity|cbn; exact Htl| |reflexivity].
          repeat constructor; exact Hk.
      - (* Hash20 *)
        assert (Hb : blen b = 20) by (destruct v; twf; assumption).
        destruct r as [|t1 r1]; [exact I|]. destruct t1; try exact I.
        + (* ripemd160 *) apply (HASH (MRipemd160 b) v hash_tail r1 Hb). intros r' E. apply expect_seq_eq in E.
          rewrite Et, E. destruct v; reflexivity.
        + (* hash160 *) destruct v.
          * destruct r1 as [|t2 r2]; [exact I|]. destruct t2; try exact I.
            -- apply (LEAF (MRawPkH b) r2 Hb). rewrite Et. reflexivity.
            -- apply (HASH (MHash160 b) true [TkEqual; TkNum 32; TkSize] r2 Hb). intros r' E. apply expect_seq_eq in E.
               rewrite Et, E. reflexivity.
          * apply (HASH (MHash160 b) false hash_tail r1 Hb). intros r' E. apply expect_seq_eq in E. rewrite Et, E. reflexivity.
      - (* Bytes32 *)
        assert (Hb : blen b = 32) by (destruct v; twf; assumption).
        destruct r as [|t1 r1]; [exact I|]. destruct t1; try exact I.
        + apply (HASH (MSha256 b) v hash_tail r1 Hb). intros r' E. apply expect_seq_eq in E. rewrite Et, E. destruct v; reflexivity.
        + apply (HASH (MHash256 b) v hash_tail r1 Hb). intros r' E. apply expect_seq_eq in E. rewrite Et, E. destruct v; reflexivity.
    Qed.

    Lemma key_leaf_snd pk toks' t : toks = t :: toks' -> t = key_token pk -> tok_wf t ->
      (blen pk = 32 \/ blen pk = 33 \/ blen pk = 65) ->
      ok_res ts0 (key_leaf e pk toks' rest terms).
    Proof.
      intros Et Ek Hw Hl. unfold key_leaf. destruct (d_key e pk) as [k|] eqn:E; [|exact I].
      destruct (key_ok_dec pk k E) as [Kok Kb].
      apply (LEAF (MPkK k) toks' Kok). cbn [mtoks rev app]. rewrite Kb, <- Ek. exact Et.
    Qed.

    Lemma expr_step_snd : ok_res ts0 (expr_step e toks rest terms).
    Proof.
      pose proof Htw as Htw'.
      assert (Hcases : toks = [] \/ exists t r, toks = t :: r) by (destruct toks; eauto).
      destruct Hcases as [E0|[t [r Et]]]; [rewrite E0; exact I|]. rewrite Et in Htw'. rewrite Et. unfold expr_step.
      destruct t; try exact I.
      - (* BoolAnd *) apply (FRAME [NtWExpression; NtExpression; NtAndB] [TkBoolAnd] r); [rewrite Et; reflexivity|cbn; exact Htl|repeat constructor|reflexivity].
      - (* BoolOr *) apply (FRAME [NtWExpression; NtExpression; NtOrB] [TkBoolOr] r); [rewrite Et; reflexivity|cbn; exact Htl|repeat constructor|reflexivity].
      - (* Equal *) apply (equal_step_snd false r). exact Et.
      - (* NumEqual: multi_a *)
        destruct r as [|t1 r1]; [exact I|]. destruct t1; try exact I.
        destruct ((n =? 0) || (999 <? n)) eqn:Ec; [exact I|].
        destruct (multi_a_keys e r1 []) as [err|[acc r2]] eqn:Em; [exact I|].
        destruct r2 as [|t2 r3]; [exact I|]. destruct t2; try exact I.
        destruct r3 as [|t3 r4]; [exact I|]. destruct t3; try exact I.
        destruct (d_key e b) as [k0|] eqn:Ek; [|exact I].
        destruct ((n =? 0) || (nlen (k0 :: acc) <? n) || (999 <? nlen (k0 :: acc))) eqn:Ec2; [exact I|].
        assert (Hw1 : Forall tok_wf r1) by (twf; assumption).
        destruct (multi_a_keys_snd (length r1) r1 (le_n _) [] acc _ Em Hw1) as [ks [E1 [E2 [E3 _]]]].
        rewrite app_nil_r in E1. subst acc.
        assert (Hb : blen b = 32).
        { rewrite E2 in Hw1. apply Forall_app in Hw1. destruct Hw1 as [_ Hw1]. twf. assumption. }
        destruct (key_ok_dec b k0 Ek) as [Kok Kb].
        apply (LEAF (MMultiA n (k0 :: ks)) r4).
        + cbn [wfm ms_wf keys_ok]. unfold wfm. cbn [ms_wf keys_ok].
          apply Bool.orb_false_elim in Ec2. destruct Ec2 as [Ec2 Ec3]. apply Bool.orb_false_elim in Ec2. destruct Ec2 as [Ec2 Ec4].
          apply N.eqb_neq in Ec2. apply N.ltb_ge in Ec4. apply N.ltb_ge in Ec3.
          split; [lia|split; [lia|split; [exact Kok|exact E3]]].
        + rewrite Et. cbn [mtoks]. rewrite E2. rewrite !rev_app_distr. cbn [rev app]. rewrite <- !app_assoc. cbn [app].
          rewrite Kb. unfold key_token, push_token. rewrite Hb. reflexivity.
      - (* CheckSig *) apply (FRAME [NtExpression; NtCheck] [TkCheckSig] r); [rewrite Et; reflexivity|cbn; auto|repeat constructor|reflexivity].
      - (* CheckMultiSig *)
        destruct r as [|t1 r1]; [exact I|]. destruct t1; try exact I.
        destruct ((n =? 0) || (20 <? n)) eqn:Ec; [exact I|].
        destruct (multi_keys e (N.to_nat n) r1 []) as [err|[keys r2]] eqn:Em; [exact I|].
        destruct r2 as [|t2 r3]; [exact I|]. destruct t2; try exact I.
        destruct ((n0 =? 0) || (nlen keys <? n0) || (20 <? nlen keys)) eqn:Ec2; [exact I|].
        assert (Hw1 : Forall tok_wf r1) by (twf; assumption).
        destruct (multi_keys_snd _ _ _ _ _ Em Hw1) as [ks [E1 [E2 [E3 E4]]]].
        rewrite app_nil_r in E1. subst keys. pose proof (nlen_of_length ks n E2) as Hn.
        apply (LEAF (MMulti n0 ks) r3).
        + unfold wfm. cbn [ms_wf].
          apply Bool.orb_false_elim in Ec2. destruct Ec2 as [Ec2 Ec3]. apply Bool.orb_false_elim in Ec2. destruct Ec2 as [Ec2 Ec4].
          apply N.eqb_neq in Ec2. apply N.ltb_ge in Ec4. apply N.ltb_ge in Ec3.
          split; [lia|split; [lia|exact E4]].
        + rewrite Et. cbn [mtoks]. rewrite E3, Hn. rewrite !rev_app_distr. cbn [rev app]. rewrite <- !app_assoc. reflexivity.
      - (* CSV *)
        destruct r as [|t1 r1]; [exact I|]. destruct t1; try exact I.
        destruct ((n <? 2147483648) && negb (n =? 0)) eqn:Ec; [|exact I].
        apply andb_prop in Ec. destruct Ec as [E1 E2]. apply N.ltb_lt in E1. apply Bool.negb_true_iff in E2. apply N.eqb_neq in E2.
        apply (LEAF (MOlder n) r1); [unfold wfm; cbn [ms_wf]; lia|rewrite Et; reflexivity].
      - (* CLTV *)
        destruct r as [|t1 r1]; [exact I|]. destruct t1; try exact I.
        destruct ((1 <=? n) && (n <=? 2147483647)) eqn:Ec; [|exact I].
        apply andb_prop in Ec. destruct Ec as [E1 E2]. apply N.leb_le in E1. apply N.leb_le in E2.
        apply (LEAF (MAfter n) r1); [unfold wfm; cbn [ms_wf]; lia|rewrite Et; reflexivity].
      - (* EndIf *) apply (FRAME [NtExpression; NtMaybeAndV; NtEndIf] [TkEndIf] r); [rewrite Et; reflexivity|cbn; auto|repeat constructor|reflexivity].
      - (* ZeroNotEqual *) apply (FRAME [NtExpression; NtZeroNotEqual] [TkZeroNotEqual] r); [rewrite Et; reflexivity|cbn; auto|repeat constructor|reflexivity].
      - (* Verify *)
        destruct r as [|t1 r1]; [exact I|].
        assert (Hgen : ok_res ts0 (SCont (mkDs (t1 :: r1) (NtExpression :: NtVerify :: rest) terms))).
        { apply (FRAME [NtExpression; NtVerify] [TkVerify] (t1 :: r1)); [rewrite Et; reflexivity|cbn; auto|repeat constructor|reflexivity]. }
        destruct t1; try exact Hgen. apply (equal_step_snd true r1). exact Et.
      - (* Num *)
        destruct n as [|p]; [apply (LEAF MFalse r I); rewrite Et; reflexivity|]. destruct p; try exact I.
        apply (LEAF MTrue r I). rewrite Et. reflexivity.
      - (* Bytes32 *) apply (key_leaf_snd b r (TkBytes32 b) Et); twf; [unfold key_token, push_token; rewrite H1; reflexivity|assumption|tauto].
      - (* Bytes33 *) apply (key_leaf_snd b r (TkBytes33 b) Et); twf; [unfold key_token, push_token; rewrite H1; reflexivity|assumption|tauto].
      - (* Bytes65 *) apply (key_leaf_snd b r (TkBytes65 b) Et); twf; [unfold key_token, push_token; rewrite H1; reflexivity|assumption|tauto].
    Qed.
  End Expr2.

  (* ---- every step preserves the invariant ---- *)
  Theorem step_snd ts0 s : inv ts0 s -> ok_res ts0 (step e s).
  Proof.
    destruct s as [toks nts terms]. unfold inv, step. cbn [ds_toks ds_nts ds_terms].
    intros [Htl [Hnt [Hwf [Htw [S [HU Hts]]]]]].
    destruct nts as [|nt rest].
    - cbn [unp] in HU. destruct terms as [|m [|m' r]]; cbn [map] in HU; try exact I.
      injection HU as <-. split; [exact Hts|]. inversion Hwf; assumption.
    - cbn [tl] in Htl. pose proof (Forall_inv Hnt) as Hnt0. pose proof (Forall_inv_tail Hnt) as Hntr.
      assert (CL : forall I vs0 c toks' nts' terms',
                 unp rest (I :: vs0) = Some [S] -> toks = rev c ++ toks' ->
                 tailok (tl nts') -> Forall nt_wf nts' -> Forall wfm terms' ->
                 unp nts' (map (mtoks ke) terms') = unp rest ((c ++ I) :: vs0) ->
                 inv ts0 (mkDs toks' nts' terms')).
      { intros I vs0 c toks' nts' terms' H1 H2 H3 H4 H5 H6.
        apply (inv_close ts0 rest I vs0 S c toks toks' nts' terms'); assumption. }
      assert (RD : forall m toks' terms', inv ts0 (mkDs toks' rest (m :: terms')) -> ok_res ts0 (reduce0 e m toks' rest terms'))
        by (intros; apply reduce0_snd; assumption).
      pose proof (tailok_tl _ Htl) as Htl'.
      destruct nt; cbn [unp comp] in HU.
      + (* Expression *) apply (expr_step_snd ts0 rest terms S toks Htl Hntr Hwf Htw HU Hts).
      + (* WExpression *) destruct toks as [|t r]; [exact I|].
        assert (Hsw : ok_res ts0 (SCont (mkDs (t :: r) (NtExpression :: NtMaybeAndV :: NtSwap :: rest) terms))).
        { eapply (CL _ _ [] (t :: r)); [exact HU|reflexivity|cbn; auto|repeat constructor; exact Hntr|exact Hwf|reflexivity]. }
        destruct t; try exact Hsw.
        eapply (CL _ _ [TkFromAltStack] r); [exact HU|reflexivity|cbn; auto|repeat constructor; exact Hntr|exact Hwf|reflexivity].
      + (* Swap *) destruct toks as [|t r]; [exact I|]. destruct t; try exact I.
        unfold reduce1. destruct terms as [|x tr]; cbn [map unp comp] in HU; [exact I|]. inversion Hwf; subst.
        apply RD. eapply (CL _ _ [TkSwap] r); [exact HU|reflexivity|exact Htl'|exact Hntr|constructor; assumption|reflexivity].
      + (* MaybeAndV *) destruct terms as [|x tr]; cbn [map unp comp] in HU; [discriminate|].
        destruct (is_and_v toks).
        * eapply (CL _ _ [] toks); [exact HU|reflexivity|cbn; auto|repeat constructor; exact Hntr|exact Hwf|reflexivity].
        * eapply (CL _ _ [] toks); [exact HU|reflexivity|exact Htl'|exact Hntr|exact Hwf|reflexivity].
      + (* Alt *) destruct toks as [|t r]; [exact I|]. destruct t; try exact I.
        unfold reduce1. destruct terms as [|x tr]; cbn [map unp comp] in HU; [exact I|]. inversion Hwf; subst.
        apply RD. eapply (CL _ _ [TkToAltStack] r); [exact HU|reflexivity|exact Htl'|exact Hntr|constructor; assumption|reflexivity].
      + (* Check *) unfold reduce1. destruct terms as [|x tr]; cbn [map unp comp] in HU; [exact I|]. inversion Hwf; subst.
        apply RD. eapply (CL _ _ [] toks); [exact HU|reflexivity|exact Htl'|exact Hntr|constructor; assumption|reflexivity].
      + (* DupIf *) unfold reduce1. destruct terms as [|x tr]; cbn [map unp comp] in HU; [exact I|]. inversion Hwf; subst.
        apply RD. eapply (CL _ _ [] toks); [exact HU|reflexivity|exact Htl'|exact Hntr|constructor; assumption|reflexivity].
      + (* Verify *) unfold reduce1. destruct terms as [|x tr]; cbn [map unp comp] in HU; [exact I|]. inversion Hwf; subst.
        apply RD. eapply (CL _ _ [] toks); [exact HU|reflexivity|exact Htl'|exact Hntr|constructor; assumption|reflexivity].
      + (* NonZero *) unfold reduce1. destruct terms as [|x tr]; cbn [map unp comp] in HU; [exact I|]. inversion Hwf; subst.
        apply RD. eapply (CL _ _ [] toks); [exact HU|reflexivity|exact Htl'|exact Hntr|constructor; assumption|reflexivity].
      + (* ZeroNotEqual *) unfold reduce1. destruct terms as [|x tr]; cbn [map unp comp] in HU; [exact I|]. inversion Hwf; subst.
        apply RD. eapply (CL _ _ [] toks); [exact HU|reflexivity|exact Htl'|exact Hntr|constructor; assumption|reflexivity].
      + (* AndV *) unfold reduce2. destruct terms as [|x [|y tr]]; cbn [map unp comp] in HU; try discriminate.
        destruct (is_and_v toks).
        * eapply (CL _ _ [] toks); [exact HU|reflexivity|cbn; auto|repeat constructor; exact Hntr|exact Hwf|reflexivity].
        * inversion Hwf as [|? ? Hx Hr1]; subst. inversion Hr1; subst.
          apply RD. eapply (CL _ _ [] toks); [exact HU|reflexivity|exact Htl'|exact Hntr| |reflexivity].
          constructor; [split; assumption|assumption].
      + (* AndB *) unfold reduce2. destruct terms as [|x [|y tr]]; cbn [map unp comp] in HU; try exact I.
        inversion Hwf as [|? ? Hx Hr1]; subst. inversion Hr1; subst.
        apply RD. eapply (CL _ _ [] toks); [exact HU|reflexivity|exact Htl'|exact Hntr| |reflexivity].
        constructor; [split; assumption|assumption].
      + (* Tern *) destruct terms as [|a [|b [|c0 tr]]]; cbn [map unp comp] in HU; try exact I.
        inversion Hwf as [|? ? Ha Hr1]; subst. inversion Hr1 as [|? ? Hb Hr2]; subst. inversion Hr2; subst.
        apply RD. eapply (CL _ _ [] toks); [exact HU|reflexivity|exact Htl'|exact Hntr| |reflexivity].
        constructor; [|assumption]. unfold wfm. cbn [ms_wf]. repeat split; assumption.
      + (* OrB *) unfold reduce2. destruct terms as [|x [|y tr]]; cbn [map unp comp] in HU; try exact I.
        inversion Hwf as [|? ? Hx Hr1]; subst. inversion Hr1; subst.
        apply RD. eapply (CL _ _ [] toks); [exact HU|reflexivity|exact Htl'|exact Hntr| |reflexivity].
        constructor; [split; assumption|assumption].
      + (* OrD *) unfold reduce2. destruct terms as [|x [|y tr]]; cbn [map unp comp] in HU; try exact I.
        inversion Hwf as [|? ? Hx Hr1]; subst. inversion Hr1; subst.
        apply RD. eapply (CL _ _ [] toks); [exact HU|reflexivity|exact Htl'|exact Hntr| |reflexivity].
        constructor; [split; assumption|assumption].
      + (* OrC *) unfold reduce2. destruct terms as [|x [|y tr]]; cbn [map unp comp] in HU; try exact I.
        inversion Hwf as [|? ? Hx Hr1]; subst. inversion Hr1; subst.
        apply RD. eapply (CL _ _ [] toks); [exact HU|reflexivity|exact Htl'|exact Hntr| |reflexivity].
        constructor; [split; assumption|assumption].
      + (* ThreshW *)
        destruct (take_items (N.to_nat n) (map (mtoks ke) terms)) as [[ws r0]|] eqn:Etk; [|discriminate].
        cbn [nt_wf] in Hnt0.
        assert (Hn1 : N.to_nat (n + 1) = Datatypes.S (N.to_nat n)) by lia.
        destruct toks as [|t r]; [exact I|].
        assert (Hother : ok_res ts0 (SCont (mkDs (t :: r) (NtExpression :: NtThreshE k (n + 1) :: rest) terms))).
        { eapply (CL _ _ [] (t :: r)); [exact HU|reflexivity|cbn [tl tailok generic]; split; [lia|exact Htl]|repeat constructor; assumption|exact Hwf|].
          cbn [unp comp]. rewrite Hn1, take_items_cons, Etk. reflexivity. }
        destruct t; try exact Hother.
        eapply (CL _ _ [TkAdd] r); [exact HU|reflexivity|cbn [tl tailok generic]; split; [lia|exact Htl]|repeat constructor; assumption|exact Hwf|].
        cbn [unp comp]. rewrite Hn1, take_items_cons, Etk. reflexivity.
      + (* ThreshE *)
        destruct (take_items (N.to_nat n) (map (mtoks ke) terms)) as [[ws r0]|] eqn:Etk; [|discriminate].
        destruct ws as [|x0 ws]; [discriminate|]. cbn [nt_wf] in Hnt0.
        destruct (pop_n (N.to_nat n) terms) as [[subs tr]|] eqn:Ep; [|exact I].
        rewrite (take_items_map _ _ _ _ Ep) in Etk. injection Etk as E1 E2.
        destruct subs as [|s0 ss]; cbn [map] in E1; [discriminate|]. injection E1 as E1a E1b. subst x0 ws r0.
        destruct ((k =? 0) || (nlen (s0 :: ss) <? k)) eqn:Ec; [exact I|].
        apply Bool.orb_false_elim in Ec. destruct Ec as [Ec1 Ec2]. apply N.eqb_neq in Ec1. apply N.ltb_ge in Ec2.
        destruct (pop_n_forall wfm _ _ _ _ Ep Hwf) as [Hsubs Htr].
        apply RD. eapply (CL _ _ [] toks); [exact HU|reflexivity|exact Htl'|exact Hntr| |].
        * constructor; [|exact Htr]. unfold wfm. cbn [ms_wf]. split; [lia|]. split; [exact Hnt0|].
          exact (wfm_list_fix (s0 :: ss) Hsubs).
        * cbn [map mtoks app]. rewrite thresh_tail_toks. rewrite <- app_assoc. reflexivity.
      + (* EndIf *) destruct terms as [|x tr]; cbn [map unp comp] in HU; [discriminate|].
        destruct toks as [|t r]; [exact I|]. destruct t; try exact I.
        * (* If *) destruct r as [|t1 r1]; [exact I|]. destruct t1; try exact I.
          -- (* Dup *) eapply (CL _ _ [TkDup; TkIf] r1); [exact HU|reflexivity|exact Htl|repeat constructor; exact Hntr|exact Hwf|reflexivity].
          -- (* ZeroNotEqual Size *) destruct r1 as [|t2 r2]; [exact I|]. destruct t2; try exact I.
             eapply (CL _ _ [TkSize; TkZeroNotEqual; TkIf] r2); [exact HU|reflexivity|exact Htl|repeat constructor; exact Hntr|exact Hwf|reflexivity].
        * (* NotIf *) eapply (CL _ _ [TkNotIf] r); [exact HU|reflexivity|exact Htl|repeat constructor; exact Hntr|exact Hwf|reflexivity].
        * (* Else *) eapply (CL _ _ [TkElse] r); [exact HU|reflexivity|cbn; auto|repeat constructor; exact Hntr|exact Hwf|reflexivity].
      + (* EndIfNotIf *) destruct terms as [|x tr]; cbn [map unp comp] in HU; [discriminate|].
        destruct toks as [|t r]; [exact I|].
        assert (Hother : ok_res ts0 (SCont (mkDs (t :: r) (NtExpression :: NtOrC :: rest) (x :: tr)))).
        { eapply (CL _ _ [] (t :: r)); [exact HU|reflexivity|cbn; auto|repeat constructor; exact Hntr|exact Hwf|reflexivity]. }
        destruct t; try exact Hother.
        eapply (CL _ _ [TkIfDup] r); [exact HU|reflexivity|cbn; auto|repeat constructor; exact Hntr|exact Hwf|reflexivity].
      + (* EndIfElse *)
        destruct terms as [|x [|y tr]]; cbn [map unp comp] in HU; try discriminate.
        destruct toks as [|t r]; [exact I|]. destruct t; try exact I.
        * (* If: or_i *) unfold reduce2.
          inversion Hwf as [|? ? Hx Hr1]; subst. inversion Hr1; subst.
          apply RD. eapply (CL _ _ [TkIf] r); [exact HU|reflexivity|exact Htl'|exact Hntr| |reflexivity].
          constructor; [split; assumption|assumption].
        * (* NotIf: andor *)
          eapply (CL _ _ [TkNotIf] r); [exact HU|reflexivity|cbn; auto|repeat constructor; exact Hntr|exact Hwf|reflexivity].
  Qed.

  Lemma run_snd ts0 : forall f s m rest, inv ts0 s -> run e f s = OOk (m, rest) ->
    ts0 = rev rest ++ mtoks ke m /\ wfm m.
  Proof.
    induction f as [|f IH]; intros s m rest Hi Hr; cbn [run] in Hr; [discriminate|].
    pose proof (step_snd ts0 s Hi) as Hs.
    destruct (step e s) as [s'|rest' m'| |]; try discriminate.
    - apply (IH s'); assumption.
    - injection Hr as H1 H2; subst. exact Hs.
  Qed.

  Theorem parse_sound ts m rest : Forall tok_wf ts -> parse e ts = OOk (m, rest) ->
    ts = rev rest ++ mtoks ke m /\ wfm m.
  Proof.
    intros Hw Hp. unfold parse in Hp. apply (run_snd ts _ _ _ _) in Hp; [exact Hp|].
    unfold inv. cbn [ds_toks ds_nts ds_terms tl].
    split; [cbn; auto|]. split; [repeat constructor|]. split; [constructor|].
    split; [apply Forall_rev, Hw|]. exists []. split; [reflexivity|].
    rewrite rev_involutive, app_nil_r. reflexivity.
  Qed.
End Sound.
