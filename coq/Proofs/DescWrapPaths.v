(* C16 proofs, part 7: the multipath tuple of a key expression — how parse_xkey_deriv expands
   it into derivation paths, and that selecting an alternative commutes with printing. *)
From Coq Require Import List Bool NArith Lia Arith.
Import ListNotations.
From Verif Require Import DescWrapModel.
Local Open Scope N_scope.

(* ---- expansion (parse_xkey_deriv's fold) ---- *)
Lemma set_last_app : forall {A} (p : list A) a b, set_last (p ++ [a]) b = p ++ [b].
Proof.
  induction p as [|y p IH]; intros a b; [reflexivity|].
  cbn [app]. destruct p as [|z p]; [reflexivity|].
  change (set_last (y :: (z :: p) ++ [a]) b) with (y :: set_last ((z :: p) ++ [a]) b).
  rewrite IH. reflexivity.
Qed.
Lemma update_nth_last : forall {A} (f : A -> A) l x, update_nth (length l) f (l ++ [x]) = l ++ [f x].
Proof. induction l as [|y l IH]; intros x; cbn [length app update_nth]; [reflexivity|]. rewrite IH. reflexivity. Qed.

Definition single (s : step) : list step := [s].

Lemma expand_step_single : forall paths s,
  expand_step paths [s] = match paths with [] => [[s]] | _ => map (fun p => p ++ [s]) paths end.
Proof. intros. reflexivity. Qed.

Lemma expand_singletons : forall post paths, paths <> [] ->
  fold_left expand_step (map single post) paths = map (fun p => p ++ post) paths.
Proof.
  induction post as [|s post IH]; intros paths H; cbn [map fold_left].
  - rewrite <- (map_id paths) at 1. apply map_ext. intros. rewrite app_nil_r. reflexivity.
  - change (single s) with [s]. rewrite expand_step_single. destruct paths as [|p paths]; [congruence|].
    rewrite IH by (cbn [map]; discriminate). rewrite map_map. apply map_ext. intros q.
    rewrite <- app_assoc. reflexivity.
Qed.

Lemma expand_prefix : forall pre,
  fold_left expand_step (map single pre) [] = match pre with [] => [] | _ => [pre] end.
Proof.
  intros [|s pre]; [reflexivity|]. cbn [map fold_left]. change (single s) with [s]. rewrite expand_step_single.
  rewrite expand_singletons by discriminate. reflexivity.
Qed.

Definition tstep (st : list (list step) * nat) (index : step) : list (list step) * nat :=
  (update_nth (S (snd st)) (fun p => set_last p index) (fst st ++ [hd [] (fst st)]), S (snd st)).

Lemma tuple_fold : forall (pre : list step) a0 others done i0,
  length done = i0 ->
  fst (fold_left tstep others (map (fun a => pre ++ [a]) (a0 :: done), i0))
  = map (fun a => pre ++ [a]) (a0 :: done ++ others).
Proof.
  intros pre a0 others. induction others as [|x others IH]; intros done i0 Hlen.
  - cbn [fold_left fst]. rewrite app_nil_r. reflexivity.
  - change (fold_left tstep (x :: others) (map (fun a => pre ++ [a]) (a0 :: done), i0))
      with (fold_left tstep others (tstep (map (fun a => pre ++ [a]) (a0 :: done), i0) x)).
    assert (E : tstep (map (fun a => pre ++ [a]) (a0 :: done), i0) x
                = (map (fun a => pre ++ [a]) (a0 :: (done ++ [x])), S i0)).
    { unfold tstep. cbn [fst snd map hd]. f_equal.
      replace (S i0) with (length ((pre ++ [a0]) :: map (fun a => pre ++ [a]) done))
        by (cbn [length]; rewrite map_length, Hlen; reflexivity).
      rewrite update_nth_last, set_last_app. rewrite map_app. reflexivity. }
    rewrite E. rewrite (IH (done ++ [x]) (S i0)) by (rewrite app_length, Hlen; cbn [length]; lia).
    rewrite <- app_assoc. reflexivity.
Qed.

Lemma expand_step_tuple : forall pre a0 others,
  expand_step (match pre with [] => [] | _ => [pre] end) (a0 :: others)
  = map (fun a => pre ++ [a]) (a0 :: others).
Proof.
  intros pre a0 others.
  change (expand_step (match pre with [] => [] | _ => [pre] end) (a0 :: others))
    with (fst (fold_left tstep others
                 (match (match pre with [] => [] | _ => [pre] end) with
                  | [] => [[a0]]
                  | _ => map (fun p => p ++ [a0]) (match pre with [] => [] | _ => [pre] end)
                  end, 0%nat))).
  replace (match (match pre with [] => [] | _ => [pre] end) with
           | [] => [[a0]]
           | _ => map (fun p => p ++ [a0]) (match pre with [] => [] | _ => [pre] end)
           end) with (map (fun a => pre ++ [a]) (a0 :: [])) by (destruct pre; reflexivity).
  apply (tuple_fold pre a0 others [] 0%nat). reflexivity.
Qed.

(* parse_xkey_deriv:  pre / <a0;a1;...> / post   denotes the paths  pre ++ a :: post *)
Theorem expand_paths_tuple : forall pre a0 others post,
  expand_paths (map single pre ++ [a0 :: others] ++ map single post)
  = map (fun a => pre ++ a :: post) (a0 :: others).
Proof.
  intros. unfold expand_paths. rewrite !fold_left_app. rewrite expand_prefix.
  cbn [fold_left]. rewrite expand_step_tuple.
  rewrite expand_singletons by (cbn [map]; discriminate).
  rewrite map_map. apply map_ext. intros a. rewrite <- app_assoc. reflexivity.
Qed.
(* and without a tuple there is at most one path *)
Theorem expand_paths_plain : forall p,
  expand_paths (map single p) = match p with [] => [] | _ => [p] end.
Proof. intros. apply expand_prefix. Qed.

(* ---- printing ---- *)
Fixpoint mapi_from {A B} (off : nat) (G : nat -> A -> B) (l : list A) : list B :=
  match l with [] => [] | x :: r => G off x :: mapi_from (S off) G r end.
Lemma map_combine_seq : forall {A B} (G : nat -> A -> B) l off,
  map (fun ic => G (fst ic) (snd ic)) (combine (seq off (length l)) l) = mapi_from off G l.
Proof. induction l as [|x l IH]; intros off; cbn [length seq combine map mapi_from fst snd]; [reflexivity|]. rewrite IH. reflexivity. Qed.
Lemma mapi_from_app : forall {A B} (G : nat -> A -> B) l1 l2 off,
  mapi_from off G (l1 ++ l2) = mapi_from off G l1 ++ mapi_from (off + length l1) G l2.
Proof.
  induction l1 as [|x l1 IH]; intros l2 off; cbn [app mapi_from length].
  - rewrite Nat.add_0_r. reflexivity.
  - rewrite IH. rewrite <- Nat.add_succ_comm. reflexivity.
Qed.
Lemma mapi_from_ext : forall {A B} (G : nat -> A -> B) (H : A -> B) l off,
  (forall j x, nth_error l j = Some x -> G (off + j)%nat x = H x) -> mapi_from off G l = map H l.
Proof.
  induction l as [|x l IH]; intros off Hg; cbn [mapi_from map]; [reflexivity|].
  rewrite <- (Hg 0%nat x eq_refl), Nat.add_0_r. f_equal. apply IH. intros j y Hj.
  rewrite Nat.add_succ_comm. apply Hg. exact Hj.
Qed.

Lemma step_eqb_refl : forall s, step_eqb s s = true.
Proof. intros [h i]. cbn [step_eqb]. rewrite eqb_reflx, N.eqb_refl. reflexivity. Qed.
Lemma nth_middle' : forall (pre : list step) a post, nth (length pre) (pre ++ a :: post) dummy_step = a.
Proof. intros. rewrite app_nth2 by lia. rewrite Nat.sub_diag. reflexivity. Qed.

(* a tuple whose first two alternatives differ is printed as  pre /<a0;a1;..>/ post *)
Theorem fmt_paths_tuple : forall pre a0 a1 rest post,
  step_eqb a0 a1 = false ->
  fmt_derivation_paths (map (fun a => pre ++ a :: post) (a0 :: a1 :: rest))
  = map TStep pre ++ [TAlts (a0 :: a1 :: rest)] ++ map TStep post.
Proof.
  intros pre a0 a1 rest post Hne. cbn [map fmt_derivation_paths].
  set (paths := (pre ++ a0 :: post) :: (pre ++ a1 :: post) :: map (fun a => pre ++ a :: post) rest).
  set (G := fun (i : nat) (child : step) =>
              if negb (step_eqb child (nth i (pre ++ a1 :: post) dummy_step))
              then TAlts (map (fun p => nth i p dummy_step) paths) else TStep child).
  change (map (fun ic => G (fst ic) (snd ic)) (combine (seq 0 (length (pre ++ a0 :: post))) (pre ++ a0 :: post))
          = map TStep pre ++ [TAlts (a0 :: a1 :: rest)] ++ map TStep post).
  assert (P1 : mapi_from 0 G pre = map TStep pre).
  { apply mapi_from_ext. intros j x Hj. unfold G. cbn [Nat.add].
    assert (Hlt : (j < length pre)%nat) by (apply nth_error_Some; congruence).
    rewrite app_nth1 by exact Hlt. rewrite (nth_error_nth _ _ _ Hj), step_eqb_refl. reflexivity. }
  assert (P2 : G (length pre) a0 = TAlts (a0 :: a1 :: rest)).
  { unfold G. rewrite nth_middle', Hne. cbn [negb]. f_equal. unfold paths. cbn [map].
    rewrite !nth_middle'. f_equal. f_equal. rewrite map_map.
    rewrite <- (map_id rest) at 2. apply map_ext. intros a. apply nth_middle'. }
  assert (P3 : mapi_from (S (length pre)) G post = map TStep post).
  { apply mapi_from_ext. intros j x Hj. unfold G.
    replace (S (length pre) + j)%nat with (length (pre ++ [a1]) + j)%nat by (rewrite app_length; cbn [length]; lia).
    replace (pre ++ a1 :: post) with ((pre ++ [a1]) ++ post) by (rewrite <- app_assoc; reflexivity).
    rewrite app_nth2_plus. rewrite (nth_error_nth _ _ _ Hj), step_eqb_refl. reflexivity. }
  rewrite map_combine_seq, mapi_from_app. cbn [mapi_from Nat.add]. rewrite P1, P2, P3. reflexivity.
Qed.

Lemma select_tok_wild : forall i w, map (select_tok i) (wild_toks w) = wild_toks w.
Proof. intros i [| |]; reflexivity. Qed.

(* selecting alternative i of the key and printing = printing and selecting textually *)
Theorem print_select_commutes : forall o x pre a0 a1 rest post w i,
  step_eqb a0 a1 = false -> (i < length (a0 :: a1 :: rest))%nat ->
  let k := KMulti o x (map (fun a => pre ++ a :: post) (a0 :: a1 :: rest)) w in
  print_key_path (select_key i k) = map (select_tok i) (print_key_path k).
Proof.
  intros o x pre a0 a1 rest post w i Hne Hi k. unfold k.
  cbn [select_key print_key_path]. rewrite fmt_paths_tuple by exact Hne.
  set (alts := a0 :: a1 :: rest) in *.
  replace (nth i (map (fun a => pre ++ a :: post) alts) []) with (pre ++ nth i alts dummy_step :: post).
  - rewrite !map_app. cbn [map select_tok]. rewrite !map_map. cbn [select_tok]. rewrite (select_tok_wild i w).
    rewrite <- !app_assoc. reflexivity.
  - symmetry. rewrite (nth_indep _ [] (pre ++ dummy_step :: post)) by (rewrite map_length; exact Hi).
    apply (map_nth (fun a => pre ++ a :: post)).
Qed.

(* The printer needs distinct alternatives: on a key VALUE whose first two paths coincide
   (the parser no longer produces one, /repo 109461ce) the tuple <0;0;1> is printed as /0. *)
Definition dup_key := KMulti None 0 (map (fun a => [a]) [Step false 0; Step false 0; Step false 1]) WUnhardened.
Theorem printer_needs_distinct_alternatives : exists k i,
  (i < length (match k with KMulti _ _ ps _ => ps | _ => [] end))%nat /\
  print_key_path (select_key i k) <> map (select_tok i) (print_key_path k).
Proof. exists dup_key, 2%nat. split; [cbn; lia|]. vm_compute. discriminate. Qed.
