(* C13: the iterative form of the interpreter model (work-list [irun], one step per loop
   iteration of Iter::iter_next) computes what the recursive form [ieval] computes, for every
   miniscript (typed or not), stack and accumulated constraint list; [steps m] iterations
   suffice, so [interp] never runs out of fuel and equals [interp_rec]. *)
From Verif Require Import Exec Ast TheoremA InterpModel.
From Coq Require Import Lia.
Local Open Scope N_scope.

Section Refine.
  Variable e : env.
  Variable ke : keyenv.
  Variable kp : bytes -> bool.

  Notation irun' := (irun e ke kp).
  Notation ev := (ieval e ke kp).

  Definition kont (r : xres) (f : nat) (work : list item) (acc : list constr) : ioutcome :=
    match r with
    | XOk st' cs => irun' f work st' (acc ++ cs)
    | XErr er cs => IReject er (acc ++ cs)
    | XPanic s => IPanicked s
    end.

  (* [n] iterations evaluate the node on top of the work-list *)
  Definition runs (it : item) (r : astack -> xres) (bound : nat) : Prop :=
    forall work st acc, exists n, (n <= bound)%nat /\
      forall f, irun' (n + f) (it :: work) st acc = kont (r st) f work acc.
  Definition refines (m : ms) : Prop := runs (it0 m) (ev m) (steps m).

  Lemma irun_S f it w st acc :
    irun' (S f) (it :: w) st acc =
    match step e ke kp it w st with
    | SCont w' st' None => irun' f w' st' acc
    | SCont w' st' (Some c) => irun' f w' st' (acc ++ [c])
    | SErr er => IReject er acc
    | SPanic s => IPanicked s
    end.
  Proof. reflexivity. Qed.

  Lemma kont_xbind r g f work acc :
    kont (xbind r g) f work acc =
    match r with
    | XOk s1 c1 => kont (g s1) f work (acc ++ c1)
    | XErr er c1 => IReject er (acc ++ c1)
    | XPanic s => IPanicked s
    end.
  Proof.
    destruct r as [s1 c1|er c1|s]; cbn; try reflexivity.
    destruct (g s1) as [s2 c2|er c2|s]; cbn; rewrite ?app_assoc; reflexivity.
  Qed.

  Lemma kont_ok st f work acc : kont (XOk st []) f work acc = irun' f work st acc.
  Proof. cbn. rewrite app_nil_r. reflexivity. Qed.
  Lemma kont_err er f work acc : kont (XErr er []) f work acc = IReject er acc.
  Proof. cbn. rewrite app_nil_r. reflexivity. Qed.

  (* a leaf handled by an evaluate_* helper in one iteration *)
  Lemma runs_leaf it (g : astack -> evres) :
    (forall work st, step e ke kp it work st = of_ev work (g st)) ->
    runs it (fun st => x_of_ev (g st)) 1.
  Proof.
    intros Hstep work st acc. exists 1%nat. split; [lia|]. intros f. cbn [Nat.add]. rewrite irun_S, Hstep.
    destruct (g st) as [st'|st' c|er]; cbn; rewrite ?app_nil_r; reflexivity.
  Qed.

  (* sequencing: run a child to completion, then continue with the rest of the work-list *)
  Lemma run_child x (Hx : refines x) work st acc :
    exists n, (n <= steps x)%nat /\ forall f, irun' (n + f) (it0 x :: work) st acc = kont (ev x st) f work acc.
  Proof. apply Hx. Qed.

  Ltac child Hx work st acc n Hn Hr := destruct (run_child _ Hx work st acc) as [n [Hn Hr]].

  (* ---------------------------------------------------------------- leaves and wrappers *)
  Lemma r_true : refines MTrue.
  Proof. intros work st acc. exists 1%nat. split; [cbn; lia|]. intros f. cbn [Nat.add]. rewrite irun_S. cbn. rewrite app_nil_r. reflexivity. Qed.
  Lemma r_false : refines MFalse.
  Proof. intros work st acc. exists 1%nat. split; [cbn; lia|]. intros f. cbn [Nat.add]. rewrite irun_S. cbn. rewrite app_nil_r. reflexivity. Qed.

  Lemma r_older t : refines (MOlder t).
  Proof.
    intros work st acc. exists 1%nat. split; [cbn; lia|]. intros f. cbn [Nat.add]. rewrite irun_S. cbn [step it_node it0 ieval].
    destruct (negb (N.land t SEQ_DISABLE =? 0)); [reflexivity|].
    destruct (evaluate_older e t st) as [st'|st' c|er]; cbn; rewrite ?app_nil_r; reflexivity.
  Qed.

  Lemma r_same x y : (forall work st, step e ke kp (it0 y) work st = SCont (it0 x :: work) st None) ->
    (forall st, ev y st = ev x st) -> (steps y = S (steps x)) -> refines x -> refines y.
  Proof.
    intros Hstep Hev Hsteps Hx work st acc. child Hx work st acc n Hn Hr.
    exists (S n). split; [lia|]. intros f. cbn [Nat.add]. rewrite irun_S, Hstep, Hr, Hev. reflexivity.
  Qed.

  Lemma r_dupif x : refines x -> refines (MDupIf x).
  Proof.
    intros Hx work st acc. cbn [ieval steps].
    destruct st as [|[| |b] r].
    - exists 1%nat. split; [lia|]. intros f. cbn [Nat.add]. rewrite irun_S. cbn. rewrite app_nil_r. reflexivity.
    - child Hx (mkItem (MDupIf x) 1 1 :: work) r acc n Hn Hr.
      exists (S (n + 1)). split; [lia|]. intros f. cbn [Nat.add]. rewrite irun_S. cbn [step it_node it_ne it0 N.eqb].
      rewrite <- Nat.add_assoc, Hr. cbn [xpop_bool]. rewrite kont_xbind.
      destruct (ev x r) as [s1 c1|er c1|s]; cbn [kont]; try reflexivity.
      cbn [Nat.add]. rewrite irun_S. cbn. rewrite app_nil_r. reflexivity.
    - exists 1%nat. split; [lia|]. intros f. cbn [Nat.add]. rewrite irun_S. cbn. rewrite app_nil_r. reflexivity.
    - exists 1%nat. split; [lia|]. intros f. cbn [Nat.add]. rewrite irun_S. cbn. rewrite app_nil_r. reflexivity.
  Qed.

  Lemma r_verify x : refines x -> refines (MVerify x).
  Proof.
    intros Hx work st acc. cbn [ieval steps].
    child Hx (mkItem (MVerify x) 1 0 :: work) st acc n Hn Hr.
    exists (S (n + 1)). split; [lia|]. intros f. cbn [Nat.add]. rewrite irun_S. cbn [step it_node it_ne it0 N.eqb].
    rewrite <- Nat.add_assoc, Hr, kont_xbind.
    destruct (ev x st) as [s1 c1|er c1|s]; cbn [kont]; try reflexivity.
    cbn [Nat.add]. rewrite irun_S. cbn [step it_node it_ne N.eqb Pos.eqb].
    destruct s1 as [|[| |b] r]; cbn; rewrite ?app_nil_r; reflexivity.
  Qed.

  Lemma r_zne x : refines x -> refines (MZeroNotEqual x).
  Proof.
    intros Hx work st acc. cbn [ieval steps].
    child Hx (mkItem (MZeroNotEqual x) 1 0 :: work) st acc n Hn Hr.
    exists (S (n + 1)). split; [lia|]. intros f. cbn [Nat.add]. rewrite irun_S. cbn [step it_node it_ne it0 N.eqb].
    rewrite <- Nat.add_assoc, Hr, kont_xbind.
    destruct (ev x st) as [s1 c1|er c1|s]; cbn [kont]; try reflexivity.
    cbn [Nat.add]. rewrite irun_S. cbn [step it_node it_ne N.eqb Pos.eqb].
    destruct s1 as [|[| |b] r]; cbn; rewrite ?app_nil_r; reflexivity.
  Qed.

  Lemma r_nonzero x : refines x -> refines (MNonZero x).
  Proof.
    intros Hx work st acc. cbn [ieval steps].
    destruct st as [|a r].
    - exists 1%nat. split; [lia|]. intros f. cbn [Nat.add]. rewrite irun_S. cbn. rewrite app_nil_r. reflexivity.
    - child Hx work (a :: r) acc n Hn Hr.
      destruct a as [| |b].
      + exists (S n). split; [lia|]. intros f. cbn [Nat.add]. rewrite irun_S. cbn [step it_node it0]. apply Hr.
      + exists 1%nat. split; [lia|]. intros f. cbn [Nat.add]. rewrite irun_S. cbn. rewrite app_nil_r. reflexivity.
      + exists (S n). split; [lia|]. intros f. cbn [Nat.add]. rewrite irun_S. cbn [step it_node it0]. apply Hr.
  Qed.

  (* ---------------------------------------------------------------- binary / ternary *)
  Lemma r_and_v x y : refines x -> refines y -> refines (MAndV x y).
  Proof.
    intros Hx Hy work st acc. cbn [ieval steps].
    child Hx (it0 y :: work) st acc n1 Hn1 Hr1.
    destruct (ev x st) as [s1 c1|er c1|s] eqn:Ex.
    - child Hy work s1 (acc ++ c1) n2 Hn2 Hr2.
      exists (S (n1 + n2)). split; [lia|]. intros f. cbn [Nat.add]. rewrite irun_S. cbn [step it_node it0].
      rewrite <- Nat.add_assoc, Hr1. cbn [kont]. rewrite Hr2, kont_xbind. reflexivity.
    - exists (S n1). split; [lia|]. intros f. cbn [Nat.add]. rewrite irun_S. cbn [step it_node it0].
      rewrite Hr1. reflexivity.
    - exists (S n1). split; [lia|]. intros f. cbn [Nat.add]. rewrite irun_S. cbn [step it_node it0].
      rewrite Hr1. reflexivity.
  Qed.

  (* after the left child: pop its boolean, run one of two continuations *)
  Ltac finish1 := exists 1%nat; split; [lia|]; intros f; cbn [Nat.add]; rewrite irun_S; cbn; rewrite ?app_nil_r; reflexivity.

  Lemma r_and_b x y : refines x -> refines y -> refines (MAndB x y).
  Proof.
    intros Hx Hy work st acc. cbn [ieval steps].
    child Hx (mkItem (MAndB x y) 1 0 :: work) st acc n1 Hn1 Hr1.
    destruct (ev x st) as [s1 c1|er c1|s] eqn:Ex;
      [| exists (S n1); split; [lia|]; intros f; cbn [Nat.add]; rewrite irun_S; cbn [step it_node it_ne it0 N.eqb]; rewrite Hr1; reflexivity ..].
    destruct s1 as [|[| |b] r1].
    - exists (S (n1 + 1)). split; [lia|]. intros f. cbn [Nat.add]. rewrite irun_S. cbn [step it_node it_ne it0 N.eqb].
      rewrite <- Nat.add_assoc, Hr1. cbn [kont Nat.add]. rewrite irun_S. cbn. rewrite app_nil_r. reflexivity.
    - child Hy (mkItem (MAndB x y) 2 1 :: work) r1 (acc ++ c1) n2 Hn2 Hr2.
      exists (S (n1 + S (n2 + 1))). split; [lia|]. intros f. cbn [Nat.add]. rewrite irun_S. cbn [step it_node it_ne it0 N.eqb].
      rewrite <- Nat.add_assoc, Hr1. cbn [kont Nat.add]. rewrite irun_S. cbn [step it_node it_ne it_ns N.eqb Pos.eqb].
      rewrite <- Nat.add_assoc, Hr2. rewrite kont_xbind. cbn [xpop_bool]. rewrite kont_xbind.
      destruct (ev y r1) as [s2 c2|er c2|s]; cbn [kont]; rewrite ?app_assoc; try reflexivity.
      cbn [Nat.add]. rewrite irun_S. cbn [step it_node it_ne it_ns N.eqb Pos.eqb].
      destruct s2 as [|a r2]; cbn; rewrite ?app_nil_r, ?andb_true_r, ?app_assoc; reflexivity.
    - child Hy (mkItem (MAndB x y) 2 0 :: work) r1 (acc ++ c1) n2 Hn2 Hr2.
      exists (S (n1 + S (n2 + 1))). split; [lia|]. intros f. cbn [Nat.add]. rewrite irun_S. cbn [step it_node it_ne it0 N.eqb].
      rewrite <- Nat.add_assoc, Hr1. cbn [kont Nat.add]. rewrite irun_S. cbn [step it_node it_ne it_ns N.eqb Pos.eqb].
      rewrite <- Nat.add_assoc, Hr2. rewrite kont_xbind. cbn [xpop_bool]. rewrite kont_xbind.
      destruct (ev y r1) as [s2 c2|er c2|s]; cbn [kont]; rewrite ?app_assoc; try reflexivity.
      cbn [Nat.add]. rewrite irun_S. cbn [step it_node it_ne it_ns N.eqb Pos.eqb].
      destruct s2 as [|a r2]; cbn; rewrite ?app_nil_r, ?andb_false_r, ?app_assoc; reflexivity.
    - exists (S (n1 + 1)). split; [lia|]. intros f. cbn [Nat.add]. rewrite irun_S. cbn [step it_node it_ne it0 N.eqb].
      rewrite <- Nat.add_assoc, Hr1. cbn [kont Nat.add]. rewrite irun_S. cbn. rewrite app_nil_r. reflexivity.
  Qed.


  Lemma r_or_b x y : refines x -> refines y -> refines (MOrB x y).
  Proof.
    intros Hx Hy work st acc. cbn [ieval steps].
    child Hx (mkItem (MOrB x y) 1 0 :: work) st acc n1 Hn1 Hr1.
    destruct (ev x st) as [s1 c1|er c1|s] eqn:Ex;
      [| exists (S n1); split; [lia|]; intros f; cbn [Nat.add]; rewrite irun_S; cbn [step it_node it_ne it0 N.eqb]; rewrite Hr1; reflexivity ..].
    destruct s1 as [|[| |b] r1].
    - exists (S (n1 + 1)). split; [lia|]. intros f. cbn [Nat.add]. rewrite irun_S. cbn [step it_node it_ne it0 N.eqb].
      rewrite <- Nat.add_assoc, Hr1. cbn [kont Nat.add]. rewrite irun_S. cbn. rewrite app_nil_r. reflexivity.
    - child Hy (mkItem (MOrB x y) 2 1 :: work) r1 (acc ++ c1) n2 Hn2 Hr2.
      exists (S (n1 + S (n2 + 1))). split; [lia|]. intros f. cbn [Nat.add]. rewrite irun_S. cbn [step it_node it_ne it0 N.eqb].
      rewrite <- Nat.add_assoc, Hr1. cbn [kont Nat.add]. rewrite irun_S. cbn [step it_node it_ne it_ns N.eqb Pos.eqb].
      rewrite <- Nat.add_assoc, Hr2. rewrite kont_xbind. cbn [xpop_bool]. rewrite kont_xbind.
      destruct (ev y r1) as [s2 c2|er c2|s]; cbn [kont]; rewrite ?app_assoc; try reflexivity.
      cbn [Nat.add]. rewrite irun_S. cbn [step it_node it_ne it_ns N.eqb Pos.eqb].
      destruct s2 as [|a r2]; cbn; rewrite ?app_nil_r, ?andb_false_r, ?app_assoc; reflexivity.
    - child Hy (mkItem (MOrB x y) 2 0 :: work) r1 (acc ++ c1) n2 Hn2 Hr2.
      exists (S (n1 + S (n2 + 1))). split; [lia|]. intros f. cbn [Nat.add]. rewrite irun_S. cbn [step it_node it_ne it0 N.eqb].
      rewrite <- Nat.add_assoc, Hr1. cbn [kont Nat.add]. rewrite irun_S. cbn [step it_node it_ne it_ns N.eqb Pos.eqb].
      rewrite <- Nat.add_assoc, Hr2. rewrite kont_xbind. cbn [xpop_bool]. rewrite kont_xbind.
      destruct (ev y r1) as [s2 c2|er c2|s]; cbn [kont]; rewrite ?app_assoc; try reflexivity.
      cbn [Nat.add]. rewrite irun_S. cbn [step it_node it_ne it_ns N.eqb Pos.eqb].
      destruct s2 as [|a r2]; cbn; rewrite ?app_nil_r, ?andb_true_r, ?app_assoc; reflexivity.
    - exists (S (n1 + 1)). split; [lia|]. intros f. cbn [Nat.add]. rewrite irun_S. cbn [step it_node it_ne it0 N.eqb].
      rewrite <- Nat.add_assoc, Hr1. cbn [kont Nat.add]. rewrite irun_S. cbn. rewrite app_nil_r. reflexivity.
  Qed.

  (* or_c / or_d / andor: after the left child one more visit, then possibly one more child *)
  Lemma r_or_c x y : refines x -> refines y -> refines (MOrC x y).
  Proof.
    intros Hx Hy work st acc. cbn [ieval steps].
    child Hx (mkItem (MOrC x y) 1 0 :: work) st acc n1 Hn1 Hr1.
    destruct (ev x st) as [s1 c1|er c1|s] eqn:Ex;
      [| exists (S n1); split; [lia|]; intros f; cbn [Nat.add]; rewrite irun_S; cbn [step it_node it_ne it0 N.eqb]; rewrite Hr1; reflexivity ..].
    destruct s1 as [|[| |b] r1].
    - exists (S (n1 + 1)). split; [lia|]. intros f. cbn [Nat.add]. rewrite irun_S. cbn [step it_node it_ne it0 N.eqb].
      rewrite <- Nat.add_assoc, Hr1. cbn [kont Nat.add]. rewrite irun_S. cbn. rewrite app_nil_r. reflexivity.
    - exists (S (n1 + 1)). split; [lia|]. intros f. cbn [Nat.add]. rewrite irun_S. cbn [step it_node it_ne it0 N.eqb].
      rewrite <- Nat.add_assoc, Hr1. cbn [kont Nat.add]. rewrite irun_S. cbn. rewrite !app_nil_r. reflexivity.
    - child Hy work r1 (acc ++ c1) n2 Hn2 Hr2.
      exists (S (n1 + S n2)). split; [lia|]. intros f. cbn [Nat.add]. rewrite irun_S. cbn [step it_node it_ne it0 N.eqb].
      rewrite <- Nat.add_assoc, Hr1. cbn [kont Nat.add]. rewrite irun_S. cbn [step it_node it_ne it_ns N.eqb Pos.eqb].
      rewrite Hr2, kont_xbind. reflexivity.
    - exists (S (n1 + 1)). split; [lia|]. intros f. cbn [Nat.add]. rewrite irun_S. cbn [step it_node it_ne it0 N.eqb].
      rewrite <- Nat.add_assoc, Hr1. cbn [kont Nat.add]. rewrite irun_S. cbn. rewrite app_nil_r. reflexivity.
  Qed.

  Lemma r_or_d x y : refines x -> refines y -> refines (MOrD x y).
  Proof.
    intros Hx Hy work st acc. cbn [ieval steps].
    child Hx (mkItem (MOrD x y) 1 0 :: work) st acc n1 Hn1 Hr1.
    destruct (ev x st) as [s1 c1|er c1|s] eqn:Ex;
      [| exists (S n1); split; [lia|]; intros f; cbn [Nat.add]; rewrite irun_S; cbn [step it_node it_ne it0 N.eqb]; rewrite Hr1; reflexivity ..].
    destruct s1 as [|[| |b] r1].
    - exists (S (n1 + 1)). split; [lia|]. intros f. cbn [Nat.add]. rewrite irun_S. cbn [step it_node it_ne it0 N.eqb].
      rewrite <- Nat.add_assoc, Hr1. cbn [kont Nat.add]. rewrite irun_S. cbn. rewrite app_nil_r. reflexivity.
    - exists (S (n1 + 1)). split; [lia|]. intros f. cbn [Nat.add]. rewrite irun_S. cbn [step it_node it_ne it0 N.eqb].
      rewrite <- Nat.add_assoc, Hr1. cbn [kont Nat.add]. rewrite irun_S. cbn. rewrite !app_nil_r. reflexivity.
    - child Hy work r1 (acc ++ c1) n2 Hn2 Hr2.
      exists (S (n1 + S n2)). split; [lia|]. intros f. cbn [Nat.add]. rewrite irun_S. cbn [step it_node it_ne it0 N.eqb].
      rewrite <- Nat.add_assoc, Hr1. cbn [kont Nat.add]. rewrite irun_S. cbn [step it_node it_ne it_ns N.eqb Pos.eqb].
      rewrite Hr2, kont_xbind. reflexivity.
    - exists (S (n1 + 1)). split; [lia|]. intros f. cbn [Nat.add]. rewrite irun_S. cbn [step it_node it_ne it0 N.eqb].
      rewrite <- Nat.add_assoc, Hr1. cbn [kont Nat.add]. rewrite irun_S. cbn. rewrite app_nil_r. reflexivity.
  Qed.

  Lemma r_andor a b c : refines a -> refines b -> refines c -> refines (MAndOr a b c).
  Proof.
    intros Ha Hb Hc work st acc. cbn [ieval steps].
    child Ha (mkItem (MAndOr a b c) 1 0 :: work) st acc n1 Hn1 Hr1.
    destruct (ev a st) as [s1 c1|er c1|s] eqn:Ex;
      [| exists (S n1); split; [lia|]; intros f; cbn [Nat.add]; rewrite irun_S; cbn [step it_node it_ne it0 N.eqb]; rewrite Hr1; reflexivity ..].
    destruct s1 as [|[| |p] r1].
    - exists (S (n1 + 1)). split; [lia|]. intros f. cbn [Nat.add]. rewrite irun_S. cbn [step it_node it_ne it0 N.eqb].
      rewrite <- Nat.add_assoc, Hr1. cbn [kont Nat.add]. rewrite irun_S. cbn. rewrite app_nil_r. reflexivity.
    - child Hb work r1 (acc ++ c1) n2 Hn2 Hr2.
      exists (S (n1 + S n2)). split; [lia|]. intros f. cbn [Nat.add]. rewrite irun_S. cbn [step it_node it_ne it0 N.eqb].
      rewrite <- Nat.add_assoc, Hr1. cbn [kont Nat.add]. rewrite irun_S. cbn [step it_node it_ne it_ns N.eqb Pos.eqb].
      rewrite Hr2, kont_xbind. reflexivity.
    - child Hc work r1 (acc ++ c1) n2 Hn2 Hr2.
      exists (S (n1 + S n2)). split; [lia|]. intros f. cbn [Nat.add]. rewrite irun_S. cbn [step it_node it_ne it0 N.eqb].
      rewrite <- Nat.add_assoc, Hr1. cbn [kont Nat.add]. rewrite irun_S. cbn [step it_node it_ne it_ns N.eqb Pos.eqb].
      rewrite Hr2, kont_xbind. reflexivity.
    - exists (S (n1 + 1)). split; [lia|]. intros f. cbn [Nat.add]. rewrite irun_S. cbn [step it_node it_ne it0 N.eqb].
      rewrite <- Nat.add_assoc, Hr1. cbn [kont Nat.add]. rewrite irun_S. cbn. rewrite app_nil_r. reflexivity.
  Qed.

  Lemma r_or_i x y : refines x -> refines y -> refines (MOrI x y).
  Proof.
    intros Hx Hy work st acc. cbn [ieval steps].
    destruct st as [|[| |p] r].
    - exists 1%nat. split; [lia|]. intros f. cbn [Nat.add]. rewrite irun_S. cbn. rewrite app_nil_r. reflexivity.
    - child Hx work r acc n Hn Hr. exists (S n). split; [lia|]. intros f. cbn [Nat.add]. rewrite irun_S. cbn [step it_node it0].
      apply Hr.
    - child Hy work r acc n Hn Hr. exists (S n). split; [lia|]. intros f. cbn [Nat.add]. rewrite irun_S. cbn [step it_node it0].
      apply Hr.
    - exists 1%nat. split; [lia|]. intros f. cbn [Nat.add]. rewrite irun_S. cbn. rewrite app_nil_r. reflexivity.
  Qed.


  (* ---------------------------------------------------------------- thresh *)
  Lemma xbind_ext r f g : (forall s, f s = g s) -> xbind r f = xbind r g.
  Proof. intros H. destruct r; cbn; [rewrite H|..]; reflexivity. Qed.

  Fixpoint tloop (k : N) (l : list ms) (ns : N) (s : astack) : xres :=
    match l with
    | [] =>
      match s with
      | EDis :: r => XOk ((if ns =? k then ESat else EDis) :: r) []
      | ESat :: r => if k =? 0 then XPanic 7 else XOk ((if ns =? k - 1 then ESat else EDis) :: r) []
      | EPush _ :: _ => XErr EElemPush []
      | [] => XErr EStackEnd []
      end
    | x :: l' =>
      xpop_bool s (fun r => xbind (ev x r) (tloop k l' (ns + 1))) (fun r => xbind (ev x r) (tloop k l' ns))
    end.

  Lemma ev_thresh k x0 rest st : ev (MThresh k (x0 :: rest)) st = xbind (ev x0 st) (tloop k rest 0).
  Proof.
    cbn [ieval]. apply xbind_ext.
    match goal with |- forall s, ?F rest 0 s = _ => assert (HF : forall l ns s, F l ns s = tloop k l ns s) end.
    { induction l as [|x l IH]; intros ns s; [reflexivity|].
      cbn [tloop]. destruct s as [|[| |b] r]; cbn [xpop_bool]; try reflexivity; apply xbind_ext; intros s'; apply IH. }
    intros s. apply HF.
  Qed.

  Fixpoint tsteps (l : list ms) : nat := match l with [] => 0 | x :: r => 1 + steps x + tsteps r end.
  Lemma steps_thresh k xs : steps (MThresh k xs) = S (tsteps xs).
  Proof.
    cbn [steps Nat.add]. apply f_equal. induction xs as [|x r IH]; [reflexivity|]. cbn [tsteps]. rewrite <- IH. reflexivity.
  Qed.

  Lemma step_thresh_end k xs ns work st : xs <> [] ->
    step e ke kp (mkItem (MThresh k xs) (N.of_nat (length xs)) ns) work st =
    match st with
    | EDis :: s => SCont work ((if ns =? k then ESat else EDis) :: s) None
    | ESat :: s => if k =? 0 then SPanic 7 else SCont work ((if ns =? k - 1 then ESat else EDis) :: s) None
    | EPush _ :: _ => SErr EElemPush
    | [] => SErr EStackEnd
    end.
  Proof.
    intros Hne. cbn [step it_node it_ne it_ns].
    destruct (N.eqb_spec (N.of_nat (length xs)) 0) as [E|E]; [destruct xs; [congruence | cbn in E; lia]|].
    rewrite N.eqb_refl. reflexivity.
  Qed.

  Lemma step_thresh_mid k xs pre x l' ns work st : xs = pre ++ x :: l' -> pre <> [] ->
    step e ke kp (mkItem (MThresh k xs) (N.of_nat (length pre)) ns) work st =
    match st with
    | EDis :: s => SCont (it0 x :: mkItem (MThresh k xs) (N.of_nat (length (pre ++ [x]))) ns :: work) s None
    | ESat :: s => SCont (it0 x :: mkItem (MThresh k xs) (N.of_nat (length (pre ++ [x]))) (ns + 1) :: work) s None
    | EPush _ :: _ => SErr EElemPush
    | [] => SErr EStackEnd
    end.
  Proof.
    intros Hxs Hne. cbn [step it_node it_ne it_ns].
    destruct (N.eqb_spec (N.of_nat (length pre)) 0) as [E|E]; [destruct pre; [congruence | cbn in E; lia]|].
    destruct (N.eqb_spec (N.of_nat (length pre)) (N.of_nat (length xs))) as [E2|E2].
    { subst xs. rewrite app_length in E2. cbn in E2. lia. }
    rewrite Nat2N.id.
    assert (Hn : nth_error xs (length pre) = Some x).
    { subst xs. rewrite nth_error_app2 by lia. rewrite Nat.sub_diag. reflexivity. }
    rewrite Hn.
    assert (Hl : N.of_nat (length pre) + 1 = N.of_nat (length (pre ++ [x]))) by (rewrite app_length; cbn; lia).
    rewrite Hl. reflexivity.
  Qed.

  Lemma r_thresh_loop k xs : Forall refines xs ->
    forall l pre ns, xs = pre ++ l -> pre <> [] ->
      runs (mkItem (MThresh k xs) (N.of_nat (length pre)) ns) (tloop k l ns) (S (tsteps l)).
  Proof.
    intros Hall. induction l as [|x l' IH]; intros pre ns Hxs Hne work st acc.
    - rewrite app_nil_r in Hxs. subst pre. exists 1%nat. split; [lia|]. intros f. cbn [Nat.add].
      rewrite irun_S, step_thresh_end by exact Hne. cbn [tloop].
      destruct st as [|[| |b] s]; cbn [kont]; rewrite ?app_nil_r; try reflexivity.
      destruct (k =? 0); cbn [kont]; rewrite ?app_nil_r; reflexivity.
    - assert (Hx : refines x).
      { rewrite Forall_forall in Hall. apply Hall. subst xs. apply in_or_app. right. left. reflexivity. }
      assert (Hxs' : xs = (pre ++ [x]) ++ l') by (rewrite <- app_assoc; exact Hxs).
      assert (Hne' : pre ++ [x] <> []) by (destruct pre; discriminate).
      cbn [tloop tsteps].
      destruct st as [|[| |b] s].
      + exists 1%nat. split; [lia|]. intros f. cbn [Nat.add]. rewrite irun_S, (step_thresh_mid k xs pre x l') by assumption.
        cbn. rewrite app_nil_r. reflexivity.
      + child Hx (mkItem (MThresh k xs) (N.of_nat (length (pre ++ [x]))) (ns + 1) :: work) s acc n1 Hn1 Hr1.
        destruct (ev x s) as [s1 c1|er c1|sp] eqn:Ex.
        * destruct (IH (pre ++ [x]) (ns + 1) Hxs' Hne' work s1 (acc ++ c1)) as [n2 [Hn2 Hr2]].
          exists (S (n1 + n2)). split; [lia|]. intros f. cbn [Nat.add].
          rewrite irun_S, (step_thresh_mid k xs pre x l') by assumption.
          rewrite <- Nat.add_assoc, Hr1. cbn [kont xpop_bool]. rewrite Hr2, kont_xbind, Ex. reflexivity.
        * exists (S n1). split; [lia|]. intros f. cbn [Nat.add].
          rewrite irun_S, (step_thresh_mid k xs pre x l') by assumption. rewrite Hr1. cbn [xpop_bool]. rewrite Ex. reflexivity.
        * exists (S n1). split; [lia|]. intros f. cbn [Nat.add].
          rewrite irun_S, (step_thresh_mid k xs pre x l') by assumption. rewrite Hr1. cbn [xpop_bool]. rewrite Ex. reflexivity.
      + child Hx (mkItem (MThresh k xs) (N.of_nat (length (pre ++ [x]))) ns :: work) s acc n1 Hn1 Hr1.
        destruct (ev x s) as [s1 c1|er c1|sp] eqn:Ex.
        * destruct (IH (pre ++ [x]) ns Hxs' Hne' work s1 (acc ++ c1)) as [n2 [Hn2 Hr2]].
          exists (S (n1 + n2)). split; [lia|]. intros f. cbn [Nat.add].
          rewrite irun_S, (step_thresh_mid k xs pre x l') by assumption.
          rewrite <- Nat.add_assoc, Hr1. cbn [kont xpop_bool]. rewrite Hr2, kont_xbind, Ex. reflexivity.
        * exists (S n1). split; [lia|]. intros f. cbn [Nat.add].
          rewrite irun_S, (step_thresh_mid k xs pre x l') by assumption. rewrite Hr1. cbn [xpop_bool]. rewrite Ex. reflexivity.
        * exists (S n1). split; [lia|]. intros f. cbn [Nat.add].
          rewrite irun_S, (step_thresh_mid k xs pre x l') by assumption. rewrite Hr1. cbn [xpop_bool]. rewrite Ex. reflexivity.
      + exists 1%nat. split; [lia|]. intros f. cbn [Nat.add]. rewrite irun_S, (step_thresh_mid k xs pre x l') by assumption.
        cbn. rewrite app_nil_r. reflexivity.
  Qed.

  Lemma r_thresh k xs : Forall refines xs -> refines (MThresh k xs).
  Proof.
    intros Hall work st acc. rewrite steps_thresh.
    destruct xs as [|x0 rest].
    - exists 1%nat. split; [lia|]. intros f. cbn [Nat.add]. rewrite irun_S. reflexivity.
    - rewrite ev_thresh. inversion Hall as [|? ? Hx0 Hrest]; subst.
      child Hx0 (mkItem (MThresh k (x0 :: rest)) 1 0 :: work) st acc n1 Hn1 Hr1.
      cbn [tsteps].
      destruct (ev x0 st) as [s1 c1|er c1|sp] eqn:Ex.
      + destruct (r_thresh_loop k (x0 :: rest) Hall rest [x0] 0 eq_refl ltac:(discriminate) work s1 (acc ++ c1)) as [n2 [Hn2 Hr2]].
        exists (S (n1 + n2)). split; [lia|]. intros f. cbn [Nat.add]. rewrite irun_S. cbn [step it_node it_ne it0 N.eqb].
        rewrite <- Nat.add_assoc, Hr1. cbn [kont]. cbn [length N.of_nat Pos.of_succ_nat] in Hr2. rewrite Hr2, kont_xbind. reflexivity.
      + exists (S n1). split; [lia|]. intros f. cbn [Nat.add]. rewrite irun_S. cbn [step it_node it_ne it0 N.eqb].
        rewrite Hr1. reflexivity.
      + exists (S n1). split; [lia|]. intros f. cbn [Nat.add]. rewrite irun_S. cbn [step it_node it_ne it0 N.eqb].
        rewrite Hr1. reflexivity.
  Qed.


  (* ---------------------------------------------------------------- multi_a *)
  Lemma step_multi_a_mid nd k ks pre key l' ns work st : ks = pre ++ key :: l' ->
    multi_a_step e ke (mkItem nd (N.of_nat (length pre)) ns) k ks work st =
    match evaluate_pk e (kb ke key) st with
    | EvOk st' c =>
      match st' with
      | _ :: r => SCont (mkItem nd (N.of_nat (length (pre ++ [key]))) (ns + 1) :: work) r (Some c)
      | [] => SErr EStackEnd
      end
    | EvNone st' =>
      match st' with
      | _ :: r => SCont (mkItem nd (N.of_nat (length (pre ++ [key]))) ns :: work) r None
      | [] => SErr EStackEnd
      end
    | EvErr er => SErr er
    end.
  Proof.
    intros Hks. unfold multi_a_step. cbn [it_ne it_ns it_node].
    destruct (N.eqb_spec (N.of_nat (length pre)) (N.of_nat (length ks))) as [E|E].
    { subst ks. rewrite app_length in E. cbn in E. lia. }
    rewrite Nat2N.id.
    assert (Hn : nth_error ks (length pre) = Some key).
    { subst ks. rewrite nth_error_app2 by lia. rewrite Nat.sub_diag. reflexivity. }
    rewrite Hn.
    assert (Hl : N.of_nat (length pre) + 1 = N.of_nat (length (pre ++ [key]))) by (rewrite app_length; cbn; lia).
    rewrite Hl. reflexivity.
  Qed.

  Lemma r_multi_a_loop nd k ks :
    (forall ne ns work st, step e ke kp (mkItem nd ne ns) work st = multi_a_step e ke (mkItem nd ne ns) k ks work st) ->
    forall l pre ns, ks = pre ++ l ->
      runs (mkItem nd (N.of_nat (length pre)) ns) (multi_a_loop e ke k l ns) (S (length l)).
  Proof.
    intros Hstep. induction l as [|key l' IH]; intros pre ns Hks work st acc.
    - rewrite app_nil_r in Hks. subst pre. exists 1%nat. split; [lia|]. intros f. cbn [Nat.add].
      rewrite irun_S, Hstep. unfold multi_a_step. cbn [it_ne it_ns]. rewrite N.eqb_refl.
      cbn [multi_a_loop kont]. rewrite app_nil_r. reflexivity.
    - assert (Hks' : ks = (pre ++ [key]) ++ l') by (rewrite <- app_assoc; exact Hks).
      cbn [multi_a_loop length].
      destruct (evaluate_pk e (kb ke key) st) as [st'|st' c|er] eqn:Ev.
      + destruct st' as [|a r].
        * exists 1%nat. split; [lia|]. intros f. cbn [Nat.add].
          rewrite irun_S, Hstep, (step_multi_a_mid nd k ks pre key l') by assumption. rewrite Ev. cbn. rewrite app_nil_r. reflexivity.
        * destruct (IH (pre ++ [key]) ns Hks' work r acc) as [n2 [Hn2 Hr2]].
          exists (S n2). split; [lia|]. intros f. cbn [Nat.add].
          rewrite irun_S, Hstep, (step_multi_a_mid nd k ks pre key l') by assumption. rewrite Ev. apply Hr2.
      + destruct st' as [|a r].
        * exists 1%nat. split; [lia|]. intros f. cbn [Nat.add].
          rewrite irun_S, Hstep, (step_multi_a_mid nd k ks pre key l') by assumption. rewrite Ev. cbn. rewrite app_nil_r. reflexivity.
        * destruct (IH (pre ++ [key]) (ns + 1) Hks' work r (acc ++ [c])) as [n2 [Hn2 Hr2]].
          exists (S n2). split; [lia|]. intros f. cbn [Nat.add].
          rewrite irun_S, Hstep, (step_multi_a_mid nd k ks pre key l') by assumption. rewrite Ev.
          rewrite Hr2, kont_xbind. reflexivity.
      + exists 1%nat. split; [lia|]. intros f. cbn [Nat.add].
        rewrite irun_S, Hstep, (step_multi_a_mid nd k ks pre key l') by assumption. rewrite Ev. cbn. rewrite app_nil_r. reflexivity.
  Qed.

  Lemma r_multi_a k ks : refines (MMultiA k ks).
  Proof.
    intros work st acc.
    destruct (r_multi_a_loop (MMultiA k ks) k ks (fun _ _ _ _ => eq_refl) ks [] 0 eq_refl work st acc) as [n [Hn Hr]].
    exists n. split; [cbn [steps]; lia|]. exact Hr.
  Qed.
  Lemma r_sortedmulti_a k ks : refines (MSortedMultiA k ks).
  Proof.
    intros work st acc.
    destruct (r_multi_a_loop (MSortedMultiA k ks) k ks (fun _ _ _ _ => eq_refl) ks [] 0 eq_refl work st acc) as [n [Hn Hr]].
    exists n. split; [cbn [steps]; lia|]. exact Hr.
  Qed.

  (* ---------------------------------------------------------------- multi *)
  Lemma step_multi_next nd k ks pre l ns work st : rev ks = pre ++ l -> pre <> [] ->
    multi_next e ke (mkItem nd (N.of_nat (length pre)) ns) k ks work st =
    if ns =? k then
      match st with
      | EDis :: r => SCont work (ESat :: r) None
      | _ => SErr EMultiMissingZero
      end
    else match l with
         | [] => SErr EMultiEval
         | key :: l' =>
           match evaluate_multi e (kb ke key) st with
           | EvOk st' c => SCont (mkItem nd (N.of_nat (length (pre ++ [key]))) (ns + 1) :: work) st' (Some c)
           | EvNone st' => SCont (mkItem nd (N.of_nat (length (pre ++ [key]))) ns :: work) st' None
           | EvErr er => SErr er
           end
         end.
  Proof.
    intros Hrev Hne. unfold multi_next. cbn [it_ne it_ns it_node].
    destruct (ns =? k); [reflexivity|].
    assert (Hlen : length ks = (length pre + length l)%nat) by (rewrite <- rev_length, Hrev, app_length; reflexivity).
    destruct l as [|key l'].
    - rewrite app_nil_r in Hrev. cbn in Hlen. rewrite Nat.add_0_r in Hlen. rewrite Hlen, N.eqb_refl. reflexivity.
    - cbn [length] in Hlen.
      destruct (N.eqb_spec (N.of_nat (length pre)) (N.of_nat (length ks))) as [E|E]; [lia|].
      destruct (N.ltb_spec (N.of_nat (length ks)) (N.of_nat (length pre) + 1)) as [E2|E2]; [lia|].
      assert (Hks : ks = rev l' ++ key :: rev pre).
      { rewrite <- (rev_involutive ks), Hrev, rev_app_distr. cbn [rev]. rewrite <- app_assoc. reflexivity. }
      assert (Hidx : N.to_nat (N.of_nat (length ks) - N.of_nat (length pre) - 1) = length (rev l')).
      { rewrite rev_length. lia. }
      rewrite Hidx.
      assert (Hn : nth_error ks (length (rev l')) = Some key).
      { rewrite Hks at 1. rewrite nth_error_app2 by lia. rewrite Nat.sub_diag. reflexivity. }
      rewrite Hn.
      assert (Hl : N.of_nat (length pre) + 1 = N.of_nat (length (pre ++ [key]))) by (rewrite app_length; cbn; lia).
      rewrite Hl. reflexivity.
  Qed.

  Lemma r_multi_loop nd k ks :
    (forall ne ns work st, ne <> 0 -> step e ke kp (mkItem nd ne ns) work st = multi_next e ke (mkItem nd ne ns) k ks work st) ->
    forall l pre ns, rev ks = pre ++ l -> pre <> [] ->
      runs (mkItem nd (N.of_nat (length pre)) ns) (multi_loop e ke k l ns) (S (length l)).
  Proof.
    intros Hstep. induction l as [|key l' IH]; intros pre ns Hrev Hne work st acc;
      assert (Hnz : N.of_nat (length pre) <> 0) by (destruct pre; [congruence | cbn; lia]).
    - exists 1%nat. split; [lia|]. intros f. cbn [Nat.add].
      rewrite irun_S, Hstep, (step_multi_next nd k ks pre []) by assumption. cbn [multi_loop].
      destruct (ns =? k).
      + destruct st as [|[| |b] r]; cbn; rewrite ?app_nil_r; reflexivity.
      + cbn. rewrite app_nil_r. reflexivity.
    - assert (Hrev' : rev ks = (pre ++ [key]) ++ l') by (rewrite <- app_assoc; exact Hrev).
      assert (Hne' : pre ++ [key] <> []) by (destruct pre; discriminate).
      cbn [multi_loop length].
      destruct (ns =? k) eqn:Ek.
      + exists 1%nat. split; [lia|]. intros f. cbn [Nat.add].
        rewrite irun_S, Hstep, (step_multi_next nd k ks pre (key :: l')) by assumption. rewrite Ek.
        destruct st as [|[| |b] r]; cbn; rewrite ?app_nil_r; reflexivity.
      + destruct (evaluate_multi e (kb ke key) st) as [st'|st' c|er] eqn:Ev.
        * destruct (IH (pre ++ [key]) ns Hrev' Hne' work st' acc) as [n2 [Hn2 Hr2]].
          exists (S n2). split; [lia|]. intros f. cbn [Nat.add].
          rewrite irun_S, Hstep, (step_multi_next nd k ks pre (key :: l')) by assumption. rewrite Ek, Ev. apply Hr2.
        * destruct (IH (pre ++ [key]) (ns + 1) Hrev' Hne' work st' (acc ++ [c])) as [n2 [Hn2 Hr2]].
          exists (S n2). split; [lia|]. intros f. cbn [Nat.add].
          rewrite irun_S, Hstep, (step_multi_next nd k ks pre (key :: l')) by assumption. rewrite Ek, Ev.
          rewrite Hr2, kont_xbind. reflexivity.
        * exists 1%nat. split; [lia|]. intros f. cbn [Nat.add].
          rewrite irun_S, Hstep, (step_multi_next nd k ks pre (key :: l')) by assumption. rewrite Ek, Ev.
          cbn. rewrite app_nil_r. reflexivity.
  Qed.

  Lemma r_multi_gen nd k ks :
    (forall work st, step e ke kp (it0 nd) work st = multi_first e ke (it0 nd) k ks work st) ->
    (forall ne ns work st, ne <> 0 -> step e ke kp (mkItem nd ne ns) work st = multi_next e ke (mkItem nd ne ns) k ks work st) ->
    runs (it0 nd) (multi_eval e ke k ks) (2 + length ks).
  Proof.
    intros Hfirst Hnext work st acc. unfold multi_eval.
    destruct (N.of_nat (length st) <? k + 1) eqn:Elen.
    { exists 1%nat. split; [lia|]. intros f. cbn [Nat.add]. rewrite irun_S, Hfirst. unfold multi_first. rewrite Elen.
      cbn. rewrite app_nil_r. reflexivity. }
    destruct st as [|a st0].
    { exists 1%nat. split; [lia|]. intros f. cbn [Nat.add]. rewrite irun_S, Hfirst. unfold multi_first. rewrite Elen.
      cbn. rewrite app_nil_r. reflexivity. }
    assert (Hd : a = EDis \/ a <> EDis) by (destruct a; [right|left|right]; congruence || reflexivity).
    destruct Hd as [-> | Hn].
    { exists 1%nat. split; [lia|]. intros f. cbn [Nat.add]. rewrite irun_S, Hfirst. unfold multi_first. rewrite Elen.
      destruct (forallb is_dis (firstn (N.to_nat (k + 1)) (EDis :: st0))); cbn; rewrite app_nil_r; reflexivity. }
    assert (Hfirst' : step e ke kp (it0 nd) work (a :: st0) =
              match rev ks with
              | [] => SPanic 1
              | key :: _ =>
                match evaluate_multi e (kb ke key) (a :: st0) with
                | EvOk st' c => SCont (mkItem nd 1 1 :: work) st' (Some c)
                | EvNone st' => SCont (mkItem nd 1 0 :: work) st' None
                | EvErr er => SErr er
                end
              end).
    { rewrite Hfirst. unfold multi_first. rewrite Elen. destruct a; try congruence; reflexivity. }
    assert (Hev : (match a :: st0 with
                   | EDis :: _ => if forallb is_dis (firstn (N.to_nat (k + 1)) (a :: st0))
                                  then XOk (EDis :: skipn (N.to_nat (k + 1)) (a :: st0)) [] else XErr EMultiMissingZero []
                   | [] => XErr EStackEnd []
                   | _ => match rev ks with
                          | [] => XPanic 1
                          | key :: l' =>
                            match evaluate_multi e (kb ke key) (a :: st0) with
                            | EvOk st' c => xbind (XOk st' [c]) (multi_loop e ke k l' 1)
                            | EvNone st' => multi_loop e ke k l' 0 st'
                            | EvErr er => XErr er []
                            end
                          end
                   end) =
                  match rev ks with
                  | [] => XPanic 1
                  | key :: l' =>
                    match evaluate_multi e (kb ke key) (a :: st0) with
                    | EvOk st' c => xbind (XOk st' [c]) (multi_loop e ke k l' 1)
                    | EvNone st' => multi_loop e ke k l' 0 st'
                    | EvErr er => XErr er []
                    end
                  end) by (destruct a; try congruence; reflexivity).
    rewrite Hev. clear Hev.
    destruct (rev ks) as [|key l'] eqn:Erev.
    { exists 1%nat. split; [lia|]. intros f. cbn [Nat.add]. rewrite irun_S, Hfirst'. reflexivity. }
    assert (Hlen : length ks = S (length l')) by (rewrite <- rev_length, Erev; reflexivity).
    destruct (evaluate_multi e (kb ke key) (a :: st0)) as [st'|st' c|er] eqn:Ev.
    - destruct (r_multi_loop nd k ks Hnext l' [key] 0 Erev ltac:(discriminate) work st' acc) as [n2 [Hn2 Hr2]].
      exists (S n2). split; [lia|]. intros f. cbn [Nat.add]. rewrite irun_S, Hfirst'. apply Hr2.
    - destruct (r_multi_loop nd k ks Hnext l' [key] 1 Erev ltac:(discriminate) work st' (acc ++ [c])) as [n2 [Hn2 Hr2]].
      exists (S n2). split; [lia|]. intros f. cbn [Nat.add]. rewrite irun_S, Hfirst'. rewrite Hr2, kont_xbind. reflexivity.
    - exists 1%nat. split; [lia|]. intros f. cbn [Nat.add]. rewrite irun_S, Hfirst'. cbn. rewrite app_nil_r. reflexivity.
  Qed.

  Lemma neq0_eqb ne : ne <> 0 -> (ne =? 0) = false.
  Proof. intros H. destruct (N.eqb_spec ne 0); [contradiction | reflexivity]. Qed.

  Lemma r_multi k ks : refines (MMulti k ks).
  Proof.
    apply (r_multi_gen (MMulti k ks) k ks); [reflexivity|].
    intros ne ns work st Hne. cbn [step it_node it_ne]. rewrite (neq0_eqb ne Hne). reflexivity.
  Qed.
  Lemma r_sortedmulti k ks : refines (MSortedMulti k ks).
  Proof.
    apply (r_multi_gen (MSortedMulti k ks) k ks); [reflexivity|].
    intros ne ns work st Hne. cbn [step it_node it_ne]. rewrite (neq0_eqb ne Hne). reflexivity.
  Qed.

  (* ---------------------------------------------------------------- all fragments *)
  Theorem irun_refines : forall m, refines m.
  Proof.
    induction m using ms_ind'.
    - apply r_true.
    - apply r_false.
    - exact (runs_leaf (it0 (MPkK k)) (evaluate_pk e (kb ke k)) (fun _ _ => eq_refl)).
    - exact (runs_leaf (it0 (MPkH k)) (evaluate_pkh e kp (kh ke k)) (fun _ _ => eq_refl)).
    - exact (runs_leaf (it0 (MRawPkH h)) (evaluate_pkh e kp h) (fun _ _ => eq_refl)).
    - exact (runs_leaf (it0 (MAfter t)) (evaluate_after e t) (fun _ _ => eq_refl)).
    - apply r_older.
    - exact (runs_leaf (it0 (MSha256 h)) (evaluate_hash e KSha256 h) (fun _ _ => eq_refl)).
    - exact (runs_leaf (it0 (MHash256 h)) (evaluate_hash e KHash256 h) (fun _ _ => eq_refl)).
    - exact (runs_leaf (it0 (MRipemd160 h)) (evaluate_hash e KRipemd160 h) (fun _ _ => eq_refl)).
    - exact (runs_leaf (it0 (MHash160 h)) (evaluate_hash e KHash160 h) (fun _ _ => eq_refl)).
    - apply (r_same m (MAlt m)); auto.
    - apply (r_same m (MSwap m)); auto.
    - apply (r_same m (MCheck m)); auto.
    - apply r_dupif; assumption.
    - apply r_verify; assumption.
    - apply r_nonzero; assumption.
    - apply r_zne; assumption.
    - apply r_and_v; assumption.
    - apply r_and_b; assumption.
    - apply r_andor; assumption.
    - apply r_or_b; assumption.
    - apply r_or_d; assumption.
    - apply r_or_c; assumption.
    - apply r_or_i; assumption.
    - apply r_thresh; assumption.
    - apply r_multi.
    - apply r_sortedmulti.
    - apply r_multi_a.
    - apply r_sortedmulti_a.
  Qed.

  (* the iterative interpreter never runs out of fuel and is the recursive one *)
  Theorem interp_eq_rec m st : interp e ke kp m st = interp_rec e ke kp m st.
  Proof.
    unfold interp, interp_rec. destruct (irun_refines m [] st []) as [n [Hn Hr]].
    replace (S (steps m)) with (n + S (steps m - n))%nat by lia. rewrite Hr.
    destruct (ev m st) as [st' cs|er cs|s]; reflexivity.
  Qed.

End Refine.
