(* Totality of the semantic policy parser: `<policy::Semantic as FromTree>::from_tree` never reaches one of its
   Panic sites (`stack.pop().unwrap()` = 40, `assert_eq!(stack.len(), 1)` = 41) on ANY expression tree.
   Invariant: running the items of a subtree from a stack st ends in an error or in a stack that extends st,
   by exactly one element when the subtree's root is not skipped and by nothing when the root is a skipped leaf;
   whenever a composite fragment pops its arguments, all its children were such non-skipped subtrees. *)
From Coq Require Import List Bool NArith Lia Arith.
From Verif Require Import ExprTreePass2 PolTextModel MsTextProofs PolTextProofs.
Import ListNotations.
Local Open Scope N_scope.

Lemma tb_eqb_eq : forall a b, tb_eqb a b = true -> a = b.
Proof.
  induction a as [|x a IH]; intros [|y b] H; try discriminate; [reflexivity|].
  cbn [tb_eqb] in H. apply andb_prop in H. destruct H as [H1 H2]. apply N.eqb_eq in H1. subst.
  f_equal. apply IH. exact H2.
Qed.

Lemma pkind_thresh_name : forall name, pkind_of_name name = Some KThresh -> name = n_thresh.
Proof.
  intros name H. unfold pkind_of_name, pol_names in H. cbn [plookup] in H.
  repeat (match type of H with context [tb_eqb name ?x] => destruct (tb_eqb name x) eqn:? end; [try discriminate|]).
  - apply tb_eqb_eq. assumption.
  - discriminate.
Qed.

Lemma pkind_not_thresh : forall name f, pkind_of_name name = Some f -> f <> KThresh -> tb_eqb name n_thresh = false.
Proof.
  intros name f H Hf. destruct (tb_eqb name n_thresh) eqn:E; [|reflexivity].
  apply tb_eqb_eq in E. subst. vm_compute in H. inversion H. subst. contradiction.
Qed.

Lemma parse_num_nopanic : forall s q, parse_num s <> Panic q.
Proof.
  intros s q. unfold parse_num, u32_from_str. destruct (tb_eqb s n_0); [discriminate|].
  destruct s as [|c r]; [discriminate|].
  destruct ((49 <=? c) && (c <=? 57)); [|discriminate].
  destruct (dval (c :: r) 0); [|discriminate]. destruct (n <=? U32_MAX); discriminate.
Qed.

Section Total.
Variable parse_key : tbytes -> option N.
Variable parse_hash : phk -> tbytes -> option N.
Notation leaf_frag := (leaf_frag parse_key parse_hash).
Notation sfrag := (sfrag parse_key parse_hash).
Notation sstep := (sstep parse_key parse_hash).
Notation srun := (srun parse_key parse_hash).
Notation sem_from_tree := (sem_from_tree parse_key parse_hash).

(* a terminal arm succeeds only on no child or one childless child, and never panics *)
Lemma leaf_frag_ok_kids : forall f kids l, leaf_frag f kids = Some (Ok l) ->
  kids = [] \/ exists c, kids = [c] /\ n_kids c = 0%nat.
Proof.
  intros f kids l H. destruct f; cbn [PolTextModel.leaf_frag] in H; try discriminate.
  - destruct kids; [left; reflexivity | discriminate].
  - destruct kids; [left; reflexivity | discriminate].
  - right. unfold verify_terminal_parent, verify_terminal in H. destruct kids as [|c [|? ?]]; try discriminate.
    exists c. split; [reflexivity|]. destruct (n_kids c); [reflexivity|discriminate].
  - right. unfold verify_lock in H. destruct kids as [|c [|? ?]]; try discriminate.
    exists c. split; [reflexivity|]. destruct (n_kids c); [reflexivity|discriminate].
  - right. unfold verify_lock in H. destruct kids as [|c [|? ?]]; try discriminate.
    exists c. split; [reflexivity|]. destruct (n_kids c); [reflexivity|discriminate].
  - right. unfold verify_terminal_parent, verify_terminal in H. destruct kids as [|c [|? ?]]; try discriminate.
    exists c. split; [reflexivity|]. destruct (n_kids c); [reflexivity|discriminate].
Qed.

Lemma verify_lock_nopanic : forall bad kids q, verify_lock bad kids <> Panic q.
Proof.
  intros bad kids q. unfold verify_lock. destruct kids as [|c [|? ?]]; try discriminate.
  destruct (n_kids c); [|discriminate]. pose proof (parse_num_nopanic (t_name c)) as Hn.
  destruct (parse_num (t_name c)) as [v| |s]; [destruct (lock_ok v); discriminate | discriminate | exfalso; exact (Hn s eq_refl)].
Qed.

Lemma leaf_frag_nopanic : forall f kids q, leaf_frag f kids <> Some (Panic q).
Proof.
  intros f kids q H. destruct f; cbn [PolTextModel.leaf_frag] in H; try discriminate.
  - destruct kids; discriminate.
  - destruct kids; discriminate.
  - unfold verify_terminal_parent, verify_terminal in H. destruct kids as [|c [|? ?]]; try discriminate.
    destruct (n_kids c); [|discriminate]. destruct (parse_key (t_name c)); discriminate.
  - pose proof (verify_lock_nopanic EAbsLock kids) as Hn.
    destruct (verify_lock EAbsLock kids) as [v| |s]; try discriminate. exact (Hn s eq_refl).
  - pose proof (verify_lock_nopanic ERelLock kids) as Hn.
    destruct (verify_lock ERelLock kids) as [v| |s]; try discriminate. exact (Hn s eq_refl).
  - unfold verify_terminal_parent, verify_terminal in H. destruct kids as [|c [|? ?]]; try discriminate.
    destruct (n_kids c); [|discriminate]. destruct (parse_hash h (t_name c)); discriminate.
Qed.

Lemma vth_shape : forall kids k rest, verify_threshold 0 kids = Ok (k, rest) ->
  exists kc, kids = kc :: rest /\ n_kids kc = 0%nat /\ validate_k_n 0 k (length rest) = true.
Proof.
  intros kids k rest H. unfold verify_threshold in H. destruct kids as [|kc r]; [discriminate|].
  destruct (n_kids kc) eqn:En; [|discriminate]. destruct (parse_num (t_name kc)); try discriminate.
  destruct (validate_k_n 0 a (length r)) eqn:V; [|discriminate]. inversion H; subst. exists kc. auto.
Qed.

Lemma vth_nopanic : forall kids q, verify_threshold 0 kids <> Panic q.
Proof.
  intros kids q. unfold verify_threshold. destruct kids as [|kc r]; [discriminate|].
  destruct (n_kids kc); [|discriminate]. pose proof (parse_num_nopanic (t_name kc)) as Hn.
  destruct (parse_num (t_name kc)) as [v| |s]; [destruct (validate_k_n 0 v (length r)); discriminate | discriminate |
                                                exfalso; exact (Hn s eq_refl)].
Qed.

(* ---- the invariant *)
Definition Sres (sk leafy : bool) (st : list spol) (o : outcome pol_err (list spol)) : Prop :=
  match o with
  | Panic _ => False
  | Err _ => True
  | Ok st' => if sk then exists ys, st' = ys ++ st /\ (leafy = true -> ys = []) else exists x, st' = x :: st
  end.
Definition STot (t : etree) : Prop :=
  forall parent st, Sres (sskip parent) (Nat.eqb (n_kids t) 0) st (srun st (rpo parent t)).

(* how many children are not skipped; whether every skipped child is a leaf *)
Fixpoint cnt (name : tbytes) (n : nat) (kids : list etree) (first : bool) : nat :=
  match kids with
  | [] => 0
  | _ :: r => (if sskip (Some (name, n, first)) then 0 else 1) + cnt name n r false
  end.
Fixpoint sal (name : tbytes) (n : nat) (kids : list etree) (first : bool) : bool :=
  match kids with
  | [] => true
  | k :: r => (if sskip (Some (name, n, first)) then Nat.eqb (n_kids k) 0 else true) && sal name n r false
  end.

Lemma cnt_all : forall name n kids first, n <> 1%nat -> first && tb_eqb name n_thresh = false ->
  cnt name n kids first = length kids /\ sal name n kids first = true.
Proof.
  intros name n kids. induction kids as [|k r IH]; intros first Hn Hf; [split; reflexivity|].
  cbn [cnt sal sskip]. apply Nat.eqb_neq in Hn. rewrite Hn, Hf. cbn [orb andb].
  apply Nat.eqb_neq in Hn. destruct (IH false Hn eq_refl) as [A B]. rewrite A, B. split; reflexivity.
Qed.

Lemma s_kids_total : forall name n kids first st, Forall STot kids ->
  match srun st (rpo_list name n kids first) with
  | Panic _ => False
  | Err _ => True
  | Ok st' => exists ys, st' = ys ++ st /\ (sal name n kids first = true -> length ys = cnt name n kids first)
  end.
Proof.
  intros name n kids. induction kids as [|k r IH]; intros first st HF.
  - cbn. exists []. split; reflexivity.
  - inversion HF as [|? ? Hk Hr]; subst. cbn [rpo_list]. rewrite (srun_app parse_key parse_hash).
    specialize (IH false st Hr).
    destruct (srun st (rpo_list name n r false)) as [st1| |]; cbn [obind]; [|exact I|contradiction].
    destruct IH as [ys1 [E1 L1]]. subst st1.
    pose proof (Hk (Some (name, n, first)) (ys1 ++ st)) as Hres. unfold Sres in Hres.
    destruct (srun (ys1 ++ st) (rpo (Some (name, n, first)) k)) as [st2| |]; [|exact I|contradiction].
    cbn [sal cnt]. revert Hres. destruct (sskip (Some (name, n, first))); intros Hres.
    + destruct Hres as [ys2 [E2 L2]]. exists (ys2 ++ ys1). split; [rewrite E2, app_assoc; reflexivity|].
      intros Hs. apply andb_prop in Hs. destruct Hs as [Ha Hb]. rewrite (L2 Ha). cbn [app plus]. apply L1. exact Hb.
    + destruct Hres as [x E2]. exists (x :: ys1). split; [rewrite E2; reflexivity|].
      intros Hs. cbn [andb] in Hs. cbn [length plus]. f_equal. apply L1. exact Hs.
Qed.

Lemma len0_nil : forall A (l : list A), length l = 0%nat -> l = [].
Proof. intros A [|? ?] H; [reflexivity|discriminate]. Qed.

Theorem s_total : forall t, STot t.
Proof.
  induction t as [name p cs IH] using etree_ind'. intros parent st.
  rewrite rpo_eq, (srun_app parse_key parse_hash).
  pose proof (s_kids_total name (length cs) cs true st IH) as HK.
  destruct (srun st (rpo_list name (length cs) cs true)) as [st1| |]; cbn [obind]; [|exact I|contradiction].
  destruct HK as [ys [E L]]. subst st1. cbn [PolTextModel.srun]. unfold PolTextModel.sstep.
  cbn [it_parent it_name it_kids n_kids].
  destruct (sskip parent) eqn:Es; cbn [obind Sres].
  - (* skipped *)
    exists ys. split; [reflexivity|]. intros Hl. apply Nat.eqb_eq in Hl. apply len0_nil in Hl. subst cs.
    apply len0_nil. apply L. reflexivity.
  - destruct (pkind_of_name name) as [f|] eqn:Ef; cbn [obind Sres]; [|exact I].
    unfold PolTextModel.sfrag. destruct (leaf_frag f cs) as [o|] eqn:El.
    + destruct o as [l|e|q]; cbn [omap obind Sres]; [|exact I|exact (leaf_frag_nopanic _ _ _ El)].
      assert (Hy : ys = []).
      { apply len0_nil. destruct (leaf_frag_ok_kids _ _ _ El) as [->|[c [-> Hc]]].
        - apply L. reflexivity.
        - rewrite L; [reflexivity|]. cbn [sal length sskip Nat.eqb orb]. rewrite Hc. reflexivity. }
      subst ys. eexists. reflexivity.
    + destruct (leaf_frag_composite parse_key parse_hash _ _ El) as [->|[->| ->]].
      * (* and *)
        destruct (Nat.leb 2 (length cs)) eqn:E2; cbn [obind Sres]; [|exact I]. apply Nat.leb_le in E2.
        destruct (cnt_all name (length cs) cs true) as [A B]; [lia | rewrite (pkind_not_thresh _ _ Ef); [reflexivity|discriminate] |].
        rewrite <- A, <- (L B). rewrite gpop_n_app. cbn [obind Sres]. eexists. reflexivity.
      * (* or *)
        destruct (Nat.leb 2 (length cs)) eqn:E2; cbn [obind Sres]; [|exact I]. apply Nat.leb_le in E2.
        destruct (cnt_all name (length cs) cs true) as [A B]; [lia | rewrite (pkind_not_thresh _ _ Ef); [reflexivity|discriminate] |].
        rewrite <- A, <- (L B). rewrite gpop_n_app. cbn [obind Sres]. eexists. reflexivity.
      * (* thresh *)
        apply pkind_thresh_name in Ef. subst name.
        pose proof (vth_nopanic cs) as Hnp.
        destruct (verify_threshold 0 cs) as [[k rest]|e|q] eqn:Ev; cbn [lift_ms obind Sres]; [|exact I|exact (Hnp q eq_refl)].
        destruct (vth_shape _ _ _ Ev) as [kc [-> [Hc Hv]]].
        pose proof (validate_le _ _ _ Hv) as Hle. pose proof (validate_pos _ _ _ Hv) as Hp.
        assert (Hr : length rest <> 0%nat) by (intros Z; rewrite Z in Hle; cbn in Hle; lia).
        destruct (cnt_all n_thresh (length (kc :: rest)) rest false) as [A B]; [cbn [length]; lia | reflexivity |].
        assert (Hlen : length ys = length rest).
        { rewrite L.
          - cbn [cnt sskip]. replace (Nat.eqb (length (kc :: rest)) 1) with false
              by (symmetry; apply Nat.eqb_neq; cbn [length]; lia).
            cbn. exact A.
          - cbn [sal sskip]. replace (Nat.eqb (length (kc :: rest)) 1) with false
              by (symmetry; apply Nat.eqb_neq; cbn [length]; lia).
            cbn [orb andb]. replace (tb_eqb n_thresh n_thresh) with true by reflexivity. rewrite Hc. cbn. exact B. }
        rewrite <- Hlen. rewrite gpop_n_app. cbn [obind].
        destruct (k =? 1); [exact I|]. destruct (k =? N.of_nat (length ys)); [exact I|].
        cbn [Sres]. eexists. reflexivity.
Qed.

Theorem sem_from_tree_total : forall t q, sem_from_tree t <> Panic q.
Proof.
  intros t q. unfold PolTextModel.sem_from_tree. destruct (has_curly t); [discriminate|].
  pose proof (s_total t None []) as H. cbn [sskip Sres] in H. unfold Sres in H.
  destruct (srun [] (rpo None t)) as [st'| |]; [|discriminate|contradiction].
  destruct H as [x E]. subst st'. discriminate.
Qed.

End Total.
