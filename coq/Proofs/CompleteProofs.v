(* C02 (malleable mode, table level): whenever the specification table has a
   (dis)satisfaction built from the caller's assets, the satisfier model returns a Stack.
   Proved for all fragments except thresh with k < n (the stable-sort selection argument is
   future work): [no_partial_thresh]. *)
From Verif Require Import Exec Ser Ast Types TypeCheck SatSpec Sat ExecLemmas TheoremA SatProofs.
From Coq Require Import Lia.

Section Complete.
  Variable ke : keyenv.
  Variable A : assets.
  Variable se : senv.
  Variable f : fill.
  Hypothesis L : linked ke A se f.

  (* the lock values the caller holds are mutually compatible (they come from one nLockTime /
     one nSequence): two met absolute locks have the same unit, likewise relative ones *)
  Hypothesis Habs_unit : forall t1 t2, se_after se t1 = true -> se_after se t2 = true ->
    Bool.eqb (N.ltb t1 500000000) (N.ltb t2 500000000) = true.
  Hypothesis Hrel_unit : forall t1 t2, se_older se t1 = true -> se_older se t2 = true ->
    Bool.eqb (rel_is_time t1) (rel_is_time t2) = true.

  Definition held (s : satn) : Prop :=
    (forall t, s_abs s = Some t -> se_after se t = true) /\ (forall t, s_rel s = Some t -> se_older se t = true).
  Definition stk (s : satn) : Prop := is_stack (s_stack s) = true.

  Lemma held_const w b : held (mkSat w b None None).
  Proof. split; intros t H; discriminate. Qed.

  Lemma abs_max_held a b : se_after se a = true -> se_after se b = true ->
    exists t, abs_max a b = Some t /\ se_after se t = true.
  Proof. intros Ha Hb. unfold abs_max. rewrite (Habs_unit a b Ha Hb). destruct (N.leb b a); eauto. Qed.
  Lemma rel_max_held a b : se_older se a = true -> se_older se b = true ->
    exists t, rel_max a b = Some t /\ se_older se t = true.
  Proof. intros Ha Hb. unfold rel_max. rewrite (Hrel_unit a b Ha Hb). destruct (N.leb (rel_val b) (rel_val a)); eauto. Qed.

  Lemma concat_ok a b : held a -> held b -> stk a -> stk b ->
    held (concatenate_rev a b) /\ stk (concatenate_rev a b).
  Proof.
    intros [Ha1 Ha2] [Hb1 Hb2] Sa Sb. unfold stk in *. unfold concatenate_rev.
    destruct (s_stack a) as [la| |] eqn:Ea; try discriminate. destruct (s_stack b) as [lb| |] eqn:Eb; try discriminate.
    cbn [is_imp orb].
    assert (Hr : exists r, merge_lock rel_max (s_rel a) (s_rel b) = Some r /\ (forall t, r = Some t -> se_older se t = true)).
    { destruct (s_rel a) as [x|] eqn:Ex, (s_rel b) as [y|] eqn:Ey; cbn [merge_lock].
      - destruct (rel_max_held x y (Ha2 x eq_refl) (Hb2 y eq_refl)) as [t [E Ht]]. rewrite E. eexists. split; [reflexivity|].
        intros t' H. inversion H; subst. exact Ht.
      - eexists. split; [reflexivity|]. intros t H. inversion H; subst. auto.
      - eexists. split; [reflexivity|]. intros t H. inversion H; subst. auto.
      - eexists. split; [reflexivity|]. intros t H. discriminate. }
    assert (Hab : exists r, merge_lock abs_max (s_abs a) (s_abs b) = Some r /\ (forall t, r = Some t -> se_after se t = true)).
    { destruct (s_abs a) as [x|] eqn:Ex, (s_abs b) as [y|] eqn:Ey; cbn [merge_lock].
      - destruct (abs_max_held x y (Ha1 x eq_refl) (Hb1 y eq_refl)) as [t [E Ht]]. rewrite E. eexists. split; [reflexivity|].
        intros t' H. inversion H; subst. exact Ht.
      - eexists. split; [reflexivity|]. intros t H. inversion H; subst. auto.
      - eexists. split; [reflexivity|]. intros t H. inversion H; subst. auto.
      - eexists. split; [reflexivity|]. intros t H. discriminate. }
    destruct Hr as [r [Er Hr]]. destruct Hab as [ab [Eab Hab]]. rewrite Er, Eab. cbn.
    split; [split; cbn [s_abs s_rel]; auto | reflexivity].
  Qed.

  Lemma min_mall_ok a b : held a -> held b -> (stk a \/ stk b) ->
    held (minimum_mall se a b) /\ stk (minimum_mall se a b).
  Proof.
    intros Ha Hb Hs. unfold minimum_mall, stk in *.
    destruct (is_stack (s_stack a)) eqn:Sa; cbn [negb].
    - destruct (is_stack (s_stack b)) eqn:Sb; cbn [negb]; [|split; assumption].
      destruct (wit_lt se (s_stack a) (s_stack b)); cbn [s_stack]; (split; [|assumption]);
        [destruct Ha as [H1 H2] | destruct Hb as [H1 H2]]; split; cbn [s_abs s_rel]; assumption.
    - destruct Hs as [Hs|Hs]; [congruence|]. split; assumption.
  Qed.
  Lemma min_mall_held a b : held a -> held b -> held (minimum_mall se a b).
  Proof.
    intros Ha Hb. unfold minimum_mall. destruct (is_stack (s_stack a)); cbn [negb]; [|exact Hb].
    destruct (is_stack (s_stack b)); cbn [negb]; [|exact Ha].
    destruct (wit_lt se (s_stack a) (s_stack b)); [destruct Ha as [H1 H2] | destruct Hb as [H1 H2]]; split; cbn [s_abs s_rel]; assumption.
  Qed.
  Lemma concat_held a b : held a -> held b -> held (concatenate_rev a b).
  Proof.
    intros Ha Hb. unfold concatenate_rev. destruct (is_imp (s_stack a) || is_imp (s_stack b)); [apply held_const|].
    destruct (merge_lock rel_max (s_rel a) (s_rel b)) as [r|] eqn:Er; [|apply held_const].
    destruct (merge_lock abs_max (s_abs a) (s_abs b)) as [ab|] eqn:Eab; [|apply held_const].
    destruct Ha as [Ha1 Ha2], Hb as [Hb1 Hb2]. split; cbn [s_abs s_rel]; intros t Ht; subst.
    - destruct (s_abs a) as [x|], (s_abs b) as [y|]; cbn [merge_lock] in Eab; try (inversion Eab; subst; auto; fail).
      destruct (abs_max x y) as [m|] eqn:E; [|discriminate]. inversion Eab; subst. unfold abs_max in E.
      destruct (Bool.eqb _ _); [|discriminate]. destruct (N.leb y x); inversion E; subst; auto.
    - destruct (s_rel a) as [x|], (s_rel b) as [y|]; cbn [merge_lock] in Er; try (inversion Er; subst; auto; fail).
      destruct (rel_max x y) as [m|] eqn:E; [|discriminate]. inversion Er; subst. unfold rel_max in E.
      destruct (Bool.eqb _ _); [|discriminate]. destruct (N.leb (rel_val y) (rel_val x)); inversion E; subst; auto.
  Qed.

  Lemma cross_nonempty (S T : list wit) : cross S T <> [] -> S <> [] /\ T <> [].
  Proof.
    unfold cross. destruct S as [|a S']; [intros H; exfalso; apply H; reflexivity|]. destruct T as [|b T'].
    - intros H. exfalso. apply H. cbn. clear. induction S'; cbn; auto.
    - intros _. split; discriminate.
  Qed.
  Lemma cross_nil_r (S : list wit) : cross S [] = [].
  Proof. unfold cross. induction S; cbn; auto. Qed.
  Lemma app_nonempty {X} (a b : list X) : a ++ b <> [] -> a <> [] \/ b <> [].
  Proof. destruct a; [right; assumption | left; discriminate]. Qed.
  Lemma map_nonempty {X Y} (g : X -> Y) l : map g l <> [] -> l <> [].
  Proof. destruct l; [intros H; exfalso; apply H; reflexivity | discriminate]. Qed.

  Fixpoint no_partial_thresh (m : ms) : Prop :=
    match m with
    | MAlt x | MSwap x | MCheck x | MDupIf x | MVerify x | MNonZero x | MZeroNotEqual x => no_partial_thresh x
    | MAndV x y | MAndB x y | MOrB x y | MOrD x y | MOrC x y | MOrI x y => no_partial_thresh x /\ no_partial_thresh y
    | MAndOr a b c => no_partial_thresh a /\ no_partial_thresh b /\ no_partial_thresh c
    | MThresh k xs => k = N.of_nat (length xs) /\
        (fix go (l : list ms) : Prop := match l with [] => True | x :: r => no_partial_thresh x /\ go r end) xs
    | _ => True
    end.

  Variable rhs : bool.
  Definition goal (m : ms) : Prop :=
    let ds := sat_dissat ke se true rhs m in
    held (fst ds) /\ held (snd ds) /\
    (all_dsat ke A m <> [] -> stk (fst ds)) /\ (all_sat ke A m <> [] -> stk (snd ds)).

  Lemma sig_avail k : a_sig A k <> None -> exists sz, se_sig se k = Some sz.
  Proof. intros H. destruct (se_sig se k) as [sz|] eqn:E; [eauto|]. apply (lk_sig_avail _ _ _ _ L) in E. contradiction. Qed.

  Lemma pick_sigs_count ks : forall k, pick_sigs A k ks <> [] -> (k <= count_avail se ks)%nat.
  Proof.
    induction ks as [|key r IH]; intros k H; cbn [pick_sigs] in H.
    - destruct k; [cbn; lia | exfalso; apply H; reflexivity].
    - rewrite count_avail_cons. apply app_nonempty in H. destruct H as [H|H].
      + destruct k as [|k']; [lia|]. destruct (a_sig A key) as [sg|] eqn:E; [|exfalso; apply H; reflexivity].
        apply map_nonempty in H. apply IH in H. destruct (sig_avail key ltac:(congruence)) as [sz Es]. rewrite Es. lia.
      + apply IH in H. lia.
  Qed.
  Lemma pick_sigs_a_count ks : forall k, pick_sigs_a A k ks <> [] -> (k <= count_avail se ks)%nat.
  Proof.
    induction ks as [|key r IH]; intros k H; cbn [pick_sigs_a] in H.
    - destruct k; [cbn; lia | exfalso; apply H; reflexivity].
    - rewrite count_avail_cons. apply app_nonempty in H. destruct H as [H|H].
      + destruct k as [|k']; [lia|]. destruct (a_sig A key) as [sg|] eqn:E; [|exfalso; apply H; reflexivity].
        apply map_nonempty in H. apply IH in H. destruct (sig_avail key ltac:(congruence)) as [sz Es]. rewrite Es. lia.
      + apply map_nonempty in H. apply IH in H. lia.
  Qed.

  Lemma thresh_all_sat (cs : list (list wit * list wit)) : thresh_comb (length cs) cs <> [] -> Forall (fun c => fst c <> []) cs.
  Proof.
    induction cs as [|[s d] r IH]; intros H; [constructor|]. cbn [length thresh_comb] in H.
    assert (Hz : forall (cs' : list (list wit * list wit)) j, (length cs' < j)%nat -> thresh_comb j cs' = []).
    { induction cs' as [|[s' d'] r' IH']; intros j Hj; cbn [thresh_comb]; [destruct j; [cbn in Hj; lia | reflexivity]|].
      cbn [length] in Hj. destruct j as [|j']; [lia|]. rewrite (IH' j') by lia. rewrite (IH' (S j')) by lia.
      rewrite !cross_nil_r. reflexivity. }
    rewrite (Hz r (S (length r))) in H by lia.
    rewrite cross_nil_r, app_nil_r in H.
    apply cross_nonempty in H. destruct H as [H1 H2]. constructor; [exact H1 | apply IH, H2].
  Qed.
  Lemma thresh_all_dsat (cs : list (list wit * list wit)) : thresh_comb 0 cs <> [] -> Forall (fun c => snd c <> []) cs.
  Proof.
    induction cs as [|[s d] r IH]; intros H; [constructor|]. cbn [thresh_comb app] in H.
    apply cross_nonempty in H. destruct H as [H1 H2]. constructor; [exact H1 | apply IH, H2].
  Qed.

  Lemma fold_ok (l : list satn) : Forall (fun s => held s /\ stk s) l -> forall acc, held acc -> stk acc ->
    held (fold_left concatenate_rev l acc) /\ stk (fold_left concatenate_rev l acc).
  Proof.
    induction 1 as [|x r [Hx1 Hx2] Hr IH]; intros acc Ha Sa; cbn [fold_left]; [auto|].
    destruct (concat_ok acc x Ha Hx1 Sa Hx2) as [H1 H2]. apply IH; assumption.
  Qed.
  Lemma fold_held (l : list satn) : Forall held l -> forall acc, held acc -> held (fold_left concatenate_rev l acc).
  Proof. induction 1 as [|x r Hx Hr IH]; intros acc Ha; cbn [fold_left]; [auto|]. apply IH. apply concat_held; assumption. Qed.
  Lemma held_trivial : held TRIVIAL. Proof. apply held_const. Qed.

  Theorem mall_complete : forall m, no_partial_thresh m -> goal m.
  Proof.
    induction m using ms_ind'; intros Hnp; unfold goal; cbn [sat_dissat no_partial_thresh] in *; cbv zeta.
    - (* 1 *) refine (conj _ (conj _ (conj _ _))); try apply held_const; intros H; [exfalso; apply H; reflexivity | reflexivity].
    - (* 0 *) refine (conj _ (conj _ (conj _ _))); try apply held_const; intros H; [reflexivity | exfalso; apply H; reflexivity].
    - (* pk_k *) unfold sd_pk_k. cbn [fst snd]. refine (conj _ (conj _ (conj _ _))); try apply held_const; intros H; [reflexivity|].
      unfold all_sat in H. cbn [sd fst] in H. unfold stk, w_signature. cbn [s_stack].
      destruct (a_sig A k) as [sg|] eqn:E; [|exfalso; apply H; reflexivity].
      destruct (sig_avail k ltac:(congruence)) as [sz Es]. rewrite Es. reflexivity.
    - (* pk_h *) unfold sd_pk_h. cbn [fst snd]. refine (conj _ (conj _ (conj _ _))); try apply held_const; intros H; [reflexivity|].
      unfold all_sat in H. cbn [sd fst] in H. unfold stk, w_signature. cbn [s_stack].
      destruct (a_sig A k) as [sg|] eqn:E; [|exfalso; apply H; reflexivity].
      destruct (sig_avail k ltac:(congruence)) as [sz Es]. rewrite Es. reflexivity.
    - (* raw *) cbn [fst snd]. refine (conj _ (conj _ (conj _ _))); try apply held_const; intros H; exfalso; apply H; reflexivity.
    - (* after *) unfold sd_time. cbn [fst snd]. split; [apply held_const|]. split.
      + split; cbn [s_abs s_rel]; intros t0 Ht; [|discriminate]. destruct (se_after se t) eqn:E; [|discriminate]. inversion Ht; subst. exact E.
      + split; intros H; [exfalso; apply H; reflexivity|]. unfold all_sat in H. cbn [sd fst] in H.
        rewrite <- (lk_after _ _ _ _ L) in H. unfold stk. cbn [s_stack]. destruct (se_after se t); [reflexivity | exfalso; apply H; reflexivity].
    - (* older *) unfold sd_time. cbn [fst snd]. split; [apply held_const|]. split.
      + split; cbn [s_abs s_rel]; intros t0 Ht; [discriminate|]. destruct (se_older se t) eqn:E; [|discriminate]. inversion Ht; subst. exact E.
      + split; intros H; [exfalso; apply H; reflexivity|]. unfold all_sat in H. cbn [sd fst] in H.
        rewrite <- (lk_older _ _ _ _ L) in H. unfold stk. cbn [s_stack]. destruct (se_older se t); [reflexivity | exfalso; apply H; reflexivity].
    - (* hashes *) unfold sd_hash. cbn [fst snd]. refine (conj _ (conj _ (conj _ _))); try apply held_const; intros H; [reflexivity|].
      unfold all_sat in H. cbn [sd fst hash_sd] in H. apply map_nonempty in H. unfold stk, w_preimage. cbn [s_stack].
      destruct (se_pre se HSha256 h) eqn:E; [reflexivity|]. exfalso. apply H.
      destruct (a_sha256 A h) eqn:E2; [|reflexivity]. assert (Hp : se_pre se HSha256 h = true) by (apply (lk_pre_avail _ _ _ _ L); cbn; congruence). congruence.
    - unfold sd_hash. cbn [fst snd]. refine (conj _ (conj _ (conj _ _))); try apply held_const; intros H; [reflexivity|].
      unfold all_sat in H. cbn [sd fst hash_sd] in H. apply map_nonempty in H. unfold stk, w_preimage. cbn [s_stack].
      destruct (se_pre se HHash256 h) eqn:E; [reflexivity|]. exfalso. apply H.
      destruct (a_hash256 A h) eqn:E2; [|reflexivity]. assert (Hp : se_pre se HHash256 h = true) by (apply (lk_pre_avail _ _ _ _ L); cbn; congruence). congruence.
    - unfold sd_hash. cbn [fst snd]. refine (conj _ (conj _ (conj _ _))); try apply held_const; intros H; [reflexivity|].
      unfold all_sat in H. cbn [sd fst hash_sd] in H. apply map_nonempty in H. unfold stk, w_preimage. cbn [s_stack].
      destruct (se_pre se HRipemd160 h) eqn:E; [reflexivity|]. exfalso. apply H.
      destruct (a_ripemd160 A h) eqn:E2; [|reflexivity]. assert (Hp : se_pre se HRipemd160 h = true) by (apply (lk_pre_avail _ _ _ _ L); cbn; congruence). congruence.
    - unfold sd_hash. cbn [fst snd]. refine (conj _ (conj _ (conj _ _))); try apply held_const; intros H; [reflexivity|].
      unfold all_sat in H. cbn [sd fst hash_sd] in H. apply map_nonempty in H. unfold stk, w_preimage. cbn [s_stack].
      destruct (se_pre se HHash160 h) eqn:E; [reflexivity|]. exfalso. apply H.
      destruct (a_hash160 A h) eqn:E2; [|reflexivity]. assert (Hp : se_pre se HHash160 h = true) by (apply (lk_pre_avail _ _ _ _ L); cbn; congruence). congruence.
    - exact (IHm Hnp). - exact (IHm Hnp). - exact (IHm Hnp).
    - (* d *) destruct (IHm Hnp) as [_ [Hh [_ Hs]]]. unfold goal in *. destruct (sat_dissat ke se true rhs m) as [d0 sub]. cbn [fst snd] in *.
      split; [apply held_const|]. split; [destruct Hh; split; assumption|]. split; intros H; [reflexivity|].
      unfold all_sat in H. cbn [sd fst] in H. apply map_nonempty in H. specialize (Hs H). unfold stk in *. cbn [with_stack s_stack].
      destruct (s_stack sub); try discriminate. reflexivity.
    - (* v *) destruct (IHm Hnp) as [_ [Hh [_ Hs]]]. unfold goal in *. destruct (sat_dissat ke se true rhs m) as [d0 sub]. cbn [fst snd] in *.
      split; [apply held_const|]. split; [exact Hh|]. split; intros H; [exfalso; apply H; reflexivity | apply Hs; exact H].
    - (* j *) destruct (IHm Hnp) as [_ [Hh [_ Hs]]]. unfold goal in *. destruct (sat_dissat ke se true rhs m) as [d0 sub]. cbn [fst snd] in *.
      split; [apply held_const|]. split; [exact Hh|]. split; intros H; [reflexivity | apply Hs; exact H].
    - exact (IHm Hnp).
    - (* and_v *) destruct Hnp as [N1 N2]. destruct (IHm1 N1) as [_ [Hls [_ Sls]]]. destruct (IHm2 N2) as [Hrd [Hrs [Srd Srs]]]. unfold goal in *.
      destruct (sat_dissat ke se true rhs m1) as [ld ls], (sat_dissat ke se true rhs m2) as [rd rs]. cbn [fst snd] in *.
      split; [apply concat_held; assumption|]. split; [apply concat_held; assumption|]. split; intros H.
      + rewrite dsat_and_v in H. apply cross_nonempty in H. destruct H. apply concat_ok; auto.
      + rewrite sat_and_v in H. apply cross_nonempty in H. destruct H. apply concat_ok; auto.
    - (* and_b *) destruct Hnp as [N1 N2]. destruct (IHm1 N1) as [Hld [Hls [Sld Sls]]]. destruct (IHm2 N2) as [Hrd [Hrs [Srd Srs]]]. unfold goal in *.
      destruct (sat_dissat ke se true rhs m1) as [ld ls], (sat_dissat ke se true rhs m2) as [rd rs]. cbn [fst snd] in *.
      split; [apply concat_held; assumption|]. split; [apply concat_held; assumption|].
      unfold all_sat, all_dsat. rewrite sd_and_b. cbn [fst snd]. split; intros H; apply cross_nonempty in H; destruct H; apply concat_ok; auto.
    - (* andor *) destruct Hnp as [N1 [N2 N3]]. destruct (IHm1 N1) as [Had [Has [Sad Sas]]]. destruct (IHm2 N2) as [_ [Hbs [_ Sbs]]].
      destruct (IHm3 N3) as [Hcd [Hcs [Scd Scs]]]. unfold goal in *.
      destruct (sat_dissat ke se true rhs m1) as [ad asat], (sat_dissat ke se true rhs m2) as [bd bs], (sat_dissat ke se true rhs m3) as [cd cs]. cbn [fst snd] in *.
      split; [apply concat_held; assumption|]. split; [apply min_mall_held; apply concat_held; assumption|].
      unfold all_sat, all_dsat. rewrite sd_andor. cbn [fst snd]. split; intros H.
      + apply cross_nonempty in H. destruct H. apply concat_ok; auto.
      + apply min_mall_ok; try (apply concat_held; assumption). apply app_nonempty in H.
        destruct H as [H|H]; apply cross_nonempty in H; destruct H; [left | right]; apply concat_ok; auto.
    - (* or_b *) destruct Hnp as [N1 N2]. destruct (IHm1 N1) as [Hld [Hls [Sld Sls]]]. destruct (IHm2 N2) as [Hrd [Hrs [Srd Srs]]]. unfold goal in *.
      destruct (sat_dissat ke se true rhs m1) as [ld ls], (sat_dissat ke se true rhs m2) as [rd rs]. cbn [fst snd] in *.
      split; [apply concat_held; assumption|]. split; [apply min_mall_held; apply concat_held; assumption|].
      unfold all_sat, all_dsat. rewrite sd_or_b. cbn [fst snd]. split; intros H.
      + apply cross_nonempty in H. destruct H. apply concat_ok; auto.
      + apply min_mall_ok; try (apply concat_held; assumption). apply app_nonempty in H.
        destruct H as [H|H]; apply cross_nonempty in H; destruct H; [left | right]; apply concat_ok; auto.
    - (* or_d *) destruct Hnp as [N1 N2]. destruct (IHm1 N1) as [Hld [Hls [Sld Sls]]]. destruct (IHm2 N2) as [Hrd [Hrs [Srd Srs]]]. unfold goal in *.
      destruct (sat_dissat ke se true rhs m1) as [ld ls], (sat_dissat ke se true rhs m2) as [rd rs]. cbn [fst snd] in *.
      split; [apply concat_held; assumption|]. split; [apply min_mall_held; [assumption | apply concat_held; assumption]|].
      unfold all_sat, all_dsat. rewrite sd_or_d. cbn [fst snd]. split; intros H.
      + apply cross_nonempty in H. destruct H. apply concat_ok; auto.
      + apply min_mall_ok; try assumption; try (apply concat_held; assumption). apply app_nonempty in H.
        destruct H as [H|H]; [left; auto | right; apply cross_nonempty in H; destruct H; apply concat_ok; auto].
    - (* or_c *) destruct Hnp as [N1 N2]. destruct (IHm1 N1) as [Hld [Hls [Sld Sls]]]. destruct (IHm2 N2) as [_ [Hrs [_ Srs]]]. unfold goal in *.
      destruct (sat_dissat ke se true rhs m1) as [ld ls], (sat_dissat ke se true rhs m2) as [rd rs]. cbn [fst snd] in *.
      split; [apply held_const|]. split; [apply min_mall_held; [assumption | apply concat_held; assumption]|].
      split; intros H.
      + exfalso. apply H. unfold all_dsat. cbn [sd]. destruct (sd ke A m1), (sd ke A m2). reflexivity.
      + rewrite sat_or_c in H. apply min_mall_ok; try assumption; try (apply concat_held; assumption). apply app_nonempty in H.
        destruct H as [H|H]; [left; auto | right; apply cross_nonempty in H; destruct H; apply concat_ok; auto].
    - (* or_i *) destruct Hnp as [N1 N2]. destruct (IHm1 N1) as [Hld [Hls [Sld Sls]]]. destruct (IHm2 N2) as [Hrd [Hrs [Srd Srs]]]. unfold goal in *.
      destruct (sat_dissat ke se true rhs m1) as [ld ls], (sat_dissat ke se true rhs m2) as [rd rs]. cbn [fst snd] in *.
      assert (Hw : forall (s : satn) p, held s -> held (with_stack s (wcombine (s_stack s) (WStack [p])))) by (intros s p [H1 H2]; split; assumption).
      assert (Sw : forall (s : satn) p, stk s -> stk (with_stack s (wcombine (s_stack s) (WStack [p])))).
      { intros s p Hs. unfold stk in *. cbn [with_stack s_stack]. destruct (s_stack s); try discriminate. reflexivity. }
      split; [apply min_mall_held; apply Hw; assumption|]. split; [apply min_mall_held; apply Hw; assumption|].
      unfold all_sat, all_dsat. rewrite sd_or_i. cbn [fst snd]. split; intros H; apply app_nonempty in H;
      (apply min_mall_ok; [apply Hw; assumption | apply Hw; assumption |]);
      (destruct H as [H|H]; apply map_nonempty in H; [left | right]; apply Sw; auto).
    - (* thresh, k = n *) destruct Hnp as [Hk Hnp]. rewrite ds_thresh. set (ds := map (sat_dissat ke se true rhs) xs).
      assert (HG : Forall goal xs).
      { clear Hk. induction H as [|x r Hx Hr IHr]; constructor; [apply Hx, Hnp | apply IHr, Hnp]. }
      assert (Hhd : Forall held (map fst ds) /\ Forall held (map snd ds)).
      { unfold ds. clear -HG. induction HG as [|x r [H1 [H2 _]] Hr [I1 I2]]; cbn [map]; split; constructor; assumption. }
      destruct Hhd as [Hhd Hhs]. rewrite Hk, N.eqb_refl. cbn [fst snd].
      split; [apply fold_held; [exact Hhd | apply held_trivial]|]. split; [apply fold_held; [exact Hhs | apply held_trivial]|].
      unfold all_sat, all_dsat. rewrite sd_thresh'. cbn [fst snd]. split; intros Hne.
      + apply thresh_all_dsat in Hne. apply fold_ok; [|apply held_trivial | reflexivity].
        unfold ds. clear -HG Hne. induction HG as [|x r [H1 [H2 [H3 H4]]] Hr IH]; cbn [map]; [constructor|].
        inversion Hne; subst. constructor; [split; [exact H1 | apply H3; assumption] | apply IH; assumption].
      + rewrite Nat2N.id in Hne. rewrite <- (map_length (sd ke A) xs) in Hne. apply thresh_all_sat in Hne.
        apply fold_ok; [|apply held_trivial | reflexivity].
        unfold ds. clear -HG Hne. induction HG as [|x r [H1 [H2 [H3 H4]]] Hr IH]; cbn [map]; [constructor|].
        inversion Hne; subst. constructor; [split; [exact H2 | apply H4; assumption] | apply IH; assumption].
    - (* multi *) unfold sd_multi. cbv zeta. unfold all_sat, all_dsat. cbn [sd fst snd].
      destruct (Nat.ltb (count_avail se ks) (N.to_nat k)) eqn:Ec; cbn [fst snd]; (refine (conj _ (conj _ (conj _ _))); try apply held_const; intros H; try reflexivity).
      apply map_nonempty in H. apply pick_sigs_count in H. apply Nat.ltb_lt in Ec. lia.
    - unfold sd_multi. cbv zeta. unfold all_sat, all_dsat. cbn [sd fst snd].
      destruct (Nat.ltb (count_avail se (ksort ke ks)) (N.to_nat k)) eqn:Ec; cbn [fst snd]; (refine (conj _ (conj _ (conj _ _))); try apply held_const; intros H; try reflexivity).
      apply map_nonempty in H. apply pick_sigs_count in H. apply Nat.ltb_lt in Ec. lia.
    - unfold sd_multi_a. cbv zeta. unfold all_sat, all_dsat. cbn [sd fst snd].
      destruct (Nat.ltb (count_avail se ks) (N.to_nat k)) eqn:Ec; cbn [fst snd]; (refine (conj _ (conj _ (conj _ _))); try apply held_const; intros H; try reflexivity).
      apply pick_sigs_a_count in H. apply Nat.ltb_lt in Ec. lia.
    - unfold sd_multi_a. cbv zeta. unfold all_sat, all_dsat. cbn [sd fst snd].
      destruct (Nat.ltb (count_avail se (ksort ke ks)) (N.to_nat k)) eqn:Ec; cbn [fst snd]; (refine (conj _ (conj _ (conj _ _))); try apply held_const; intros H; try reflexivity).
      apply pick_sigs_a_count in H. apply Nat.ltb_lt in Ec. lia.
  Qed.
End Complete.
