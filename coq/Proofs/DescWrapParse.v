(* C16 proofs, part 8: the parser of the path part of an extended key (parse_xkey_deriv with
   the duplicate-index test of /repo 109461ce and the depth test of fc4edba4): which texts it
   accepts, that printing is its inverse, and that selecting an alternative commutes with
   printing for EVERY key it accepts. *)
From Coq Require Import List Bool NArith Lia Arith FinFun.
Import ListNotations.
From Verif Require Import DescWrapModel DescWrapPaths DescWrapSplit.
Local Open Scope N_scope.

Lemma step_eqb_eq : forall a b, step_eqb a b = true <-> a = b.
Proof.
  intros [h i] [h' i']. cbn [step_eqb]. rewrite andb_true_iff, N.eqb_eq. split.
  - intros [H1 H2]. apply eqb_prop in H1. congruence.
  - intros H. inversion H; subst. split; [apply eqb_reflx | reflexivity].
Qed.
Lemma existsb_step_false : forall x seen, existsb (step_eqb x) seen = false <-> ~ In x seen.
Proof.
  intros x seen. split.
  - intros H Hin. assert (existsb (step_eqb x) seen = true); [|congruence].
    apply existsb_exists. exists x. split; [exact Hin | apply step_eqb_eq; reflexivity].
  - intros H. destruct (existsb (step_eqb x) seen) eqn:E; [|reflexivity].
    apply existsb_exists in E. destruct E as [y [Hy Ey]]. apply step_eqb_eq in Ey. subst. contradiction.
Qed.

(* the duplicate test is exactly "the indexes are pairwise distinct" *)
Lemma has_dup_from_spec : forall l seen,
  has_dup_from seen l = false <-> (NoDup l /\ forall x, In x l -> ~ In x seen).
Proof.
  induction l as [|x l IH]; intros seen; cbn [has_dup_from].
  - split; [intros _; split; [constructor | intros ? []] | reflexivity].
  - rewrite orb_false_iff, existsb_step_false, IH. split.
    + intros [Hx [Hnd Hdis]]. split.
      * constructor; [|exact Hnd]. intros Hin. apply (Hdis x Hin). apply in_or_app. right. left. reflexivity.
      * intros y [<-|Hy]; [exact Hx|]. intros Hs. apply (Hdis y Hy). apply in_or_app. left. exact Hs.
    + intros [Hnd Hdis]. inversion Hnd as [|? ? Hnx Hnd']; subst. split; [apply Hdis; left; reflexivity|].
      split; [exact Hnd'|]. intros y Hy Hin. apply in_app_or in Hin. destruct Hin as [Hin|[<-|[]]].
      * apply (Hdis y); [right; exact Hy | exact Hin].
      * contradiction.
Qed.
Theorem tuple_has_dup_spec : forall l, tuple_has_dup l = false <-> NoDup l.
Proof.
  intros l. unfold tuple_has_dup. rewrite has_dup_from_spec. split; [tauto|]. intros H. split; [exact H|]. intros ? _ [].
Qed.

(* ---- the accepted texts ---- *)
Definition plain_paths (p : list step) : list (list step) := match p with [] => [] | _ => [p] end.

Inductive shape : list tok -> list (list step) -> wildcard -> Prop :=
| ShPlain : forall p w, shape (map TStep p ++ wild_toks w) (plain_paths p) w
| ShTuple : forall pre a0 a1 rest post w, NoDup (a0 :: a1 :: rest) ->
    shape (map TStep pre ++ [TAlts (a0 :: a1 :: rest)] ++ map TStep post ++ wild_toks w)
          (map (fun a => pre ++ a :: post) (a0 :: a1 :: rest)) w.

Lemma parse_after_wild : forall toks w m paths r, w <> WNone ->
  parse_steps toks w m paths = POk r -> toks = [] /\ r = (paths, w).
Proof.
  intros toks w m paths r Hw H. destruct toks as [|t toks]; cbn [parse_steps] in H.
  - inversion H. auto.
  - destruct w; [congruence | discriminate | discriminate].
Qed.

Lemma expand_after_tuple : forall pre (alts : list step) post s, alts <> [] ->
  expand_step (map (fun a => pre ++ a :: post) alts) [s] = map (fun a => pre ++ a :: (post ++ [s])) alts.
Proof.
  intros pre alts post s H. rewrite expand_step_single. destruct alts as [|a alts]; [congruence|].
  cbn [map]. f_equal; [rewrite <- app_assoc; reflexivity|]. rewrite map_map. apply map_ext.
  intros b. rewrite <- app_assoc. reflexivity.
Qed.
Lemma expand_plain : forall p s, expand_step (plain_paths p) [s] = plain_paths (p ++ [s]).
Proof. intros [|x p] s; [reflexivity|]. rewrite expand_step_single. cbn [plain_paths map app]. reflexivity. Qed.

Lemma parse_tuple_sound : forall toks pre a0 a1 rest post ps w, NoDup (a0 :: a1 :: rest) ->
  parse_steps toks WNone true (map (fun a => pre ++ a :: post) (a0 :: a1 :: rest)) = POk (ps, w) ->
  shape (map TStep pre ++ [TAlts (a0 :: a1 :: rest)] ++ map TStep post ++ toks) ps w.
Proof.
  induction toks as [|t toks IH]; intros pre a0 a1 rest post ps w Hnd H; cbn [parse_steps] in H.
  - inversion H; subst. apply (ShTuple pre a0 a1 rest post WNone Hnd).
  - destruct t as [s|l|[| |]]; try discriminate.
    + rewrite expand_after_tuple in H by discriminate. apply IH in H; [|exact Hnd].
      rewrite map_app in H. cbn [map] in H. rewrite <- !app_assoc in H. exact H.
    + apply parse_after_wild in H; [|discriminate]. destruct H as [-> E]. inversion E; subst.
      apply (ShTuple pre a0 a1 rest post WUnhardened Hnd).
    + apply parse_after_wild in H; [|discriminate]. destruct H as [-> E]. inversion E; subst.
      apply (ShTuple pre a0 a1 rest post WHardened Hnd).
Qed.

Lemma parse_plain_sound : forall toks p ps w,
  parse_steps toks WNone false (plain_paths p) = POk (ps, w) -> shape (map TStep p ++ toks) ps w.
Proof.
  induction toks as [|t toks IH]; intros p ps w H; cbn [parse_steps] in H.
  - inversion H; subst. apply (ShPlain p WNone).
  - destruct t as [s|l|[| |]]; try discriminate.
    + rewrite expand_plain in H. apply IH in H. rewrite map_app in H. cbn [map] in H.
      rewrite <- app_assoc in H. exact H.
    + destruct (Nat.ltb (length l) 2) eqn:L; [discriminate|].
      destruct (tuple_has_dup l) eqn:D; [discriminate|]. apply tuple_has_dup_spec in D.
      apply Nat.ltb_ge in L. destruct l as [|a0 [|a1 rest]]; cbn [length] in L; try lia.
      change (plain_paths p) with (match p with [] => [] | _ => [p] end) in H.
      rewrite expand_step_tuple in H.
      replace (map (fun a => p ++ [a]) (a0 :: a1 :: rest)) with (map (fun a => p ++ a :: []) (a0 :: a1 :: rest)) in H by reflexivity.
      apply (parse_tuple_sound toks p a0 a1 rest [] ps w D) in H. exact H.
    + apply parse_after_wild in H; [|discriminate]. destruct H as [-> E]. inversion E; subst.
      apply (ShPlain p WUnhardened).
    + apply parse_after_wild in H; [|discriminate]. destruct H as [-> E]. inversion E; subst.
      apply (ShPlain p WHardened).
Qed.

(* soundness: whatever parse_xkey_deriv accepts is a plain path or one tuple of pairwise
   distinct indexes between plain steps, optionally followed by one wildcard at the end *)
Theorem parse_xkey_deriv_sound : forall toks ps w, parse_xkey_deriv toks = POk (ps, w) -> shape toks ps w.
Proof. intros toks ps w H. apply (parse_plain_sound toks [] ps w H). Qed.

(* completeness: every such text is accepted, with these paths *)
Lemma parse_steps_steps : forall q rest m paths,
  parse_steps (map TStep q ++ rest) WNone m paths
  = parse_steps rest WNone m (fold_left expand_step (map single q) paths).
Proof. induction q as [|s q IH]; intros; cbn [map app parse_steps fold_left]; [reflexivity | apply IH]. Qed.
Lemma parse_wild_toks : forall w m paths, parse_steps (wild_toks w) WNone m paths = POk (paths, w).
Proof. intros [| |]; reflexivity. Qed.
Theorem parse_xkey_deriv_complete : forall toks ps w, shape toks ps w -> parse_xkey_deriv toks = POk (ps, w).
Proof.
  intros toks ps w H. unfold parse_xkey_deriv. destruct H as [p w|pre a0 a1 rest post w Hnd].
  - rewrite parse_steps_steps, expand_prefix. apply parse_wild_toks.
  - rewrite parse_steps_steps, expand_prefix. cbn [app parse_steps length].
    change (Nat.ltb (S (S (length rest))) 2) with false. cbn iota.
    apply tuple_has_dup_spec in Hnd. rewrite Hnd.
    rewrite expand_step_tuple. rewrite parse_steps_steps, expand_singletons by (cbn [map]; discriminate).
    rewrite map_map, parse_wild_toks. f_equal. f_equal. apply map_ext. intros a. rewrite <- app_assoc. reflexivity.
Qed.

(* ---- keys ---- *)
Lemma hd_plain : forall p, hd [] (plain_paths p) = p.
Proof. intros [|x p]; reflexivity. Qed.
Lemma nodup_first_two : forall (a0 a1 : step) rest, NoDup (a0 :: a1 :: rest) -> step_eqb a0 a1 = false.
Proof.
  intros a0 a1 rest H. inversion H as [|? ? Hn _]; subst. destruct (step_eqb a0 a1) eqn:E; [|reflexivity].
  apply step_eqb_eq in E. subst. exfalso. apply Hn. left. reflexivity.
Qed.

(* what an accepted key looks like *)
Inductive parsed_key (o : origin) (x : N) : list tok -> dkey -> Prop :=
| PkPlain : forall p w, parsed_key o x (map TStep p ++ wild_toks w) (KXpub o x p w)
| PkTuple : forall pre a0 a1 rest post w, NoDup (a0 :: a1 :: rest) ->
    parsed_key o x (map TStep pre ++ [TAlts (a0 :: a1 :: rest)] ++ map TStep post ++ wild_toks w)
               (KMulti o x (map (fun a => pre ++ a :: post) (a0 :: a1 :: rest)) w).

Theorem parse_xpub_key_sound : forall o x depth toks k,
  parse_xpub_key o x depth toks = POk k -> parsed_key o x toks k.
Proof.
  intros o x depth toks k H. unfold parse_xpub_key in H.
  destruct (parse_xkey_deriv toks) as [[ps w]|e] eqn:E; [|discriminate].
  apply parse_xkey_deriv_sound in E. cbv zeta in H. destruct (existsb _ ps || _); [discriminate|].
  destruct E as [p w|pre a0 a1 rest post w Hnd].
  - replace k with (KXpub o x p w); [constructor|].
    destruct p as [|s p]; cbn [plain_paths hd] in H; inversion H; reflexivity.
  - cbn [map] in H. inversion H; subst. constructor. exact Hnd.
Qed.

(* print . parse = id on every accepted key *)
Theorem print_parse_id : forall o x depth toks k,
  parse_xpub_key o x depth toks = POk k -> print_key_path k = toks.
Proof.
  intros o x depth toks k H. apply parse_xpub_key_sound in H. destruct H as [p w|pre a0 a1 rest post w Hnd].
  - reflexivity.
  - cbn [print_key_path]. rewrite fmt_paths_tuple by (apply (nodup_first_two _ _ _ Hnd)).
    rewrite <- !app_assoc. reflexivity.
Qed.

(* selecting alternative i commutes with printing, for EVERY accepted key *)
Lemma select_tok_steps : forall i p, map (select_tok i) (map TStep p) = map TStep p.
Proof. intros. rewrite map_map. reflexivity. Qed.
Theorem print_select_parsed : forall o x depth toks k i,
  parse_xpub_key o x depth toks = POk k ->
  (key_is_multipath k = true -> (i < n_paths k)%nat) ->
  print_key_path (select_key i k) = map (select_tok i) (print_key_path k).
Proof.
  intros o x depth toks k i H Hi. apply parse_xpub_key_sound in H. destruct H as [p w|pre a0 a1 rest post w Hnd].
  - cbn [select_key print_key_path]. rewrite map_app, select_tok_steps, select_tok_wild. reflexivity.
  - apply print_select_commutes; [apply (nodup_first_two _ _ _ Hnd)|].
    specialize (Hi eq_refl). cbn [n_paths] in Hi. rewrite map_length in Hi. exact Hi.
Qed.

(* an accepted multipath key has at least two paths, one per alternative, pairwise different
   (this is the DerivPaths invariant the split theorem assumes) *)
Theorem parsed_multipath_paths : forall o x depth toks k,
  parse_xpub_key o x depth toks = POk k -> key_is_multipath k = true ->
  (2 <= n_paths k)%nat /\ NoDup (match k with KMulti _ _ ps _ => ps | _ => [] end).
Proof.
  intros o x depth toks k H M. apply parse_xpub_key_sound in H. destruct H as [p w|pre a0 a1 rest post w Hnd]; [discriminate|].
  cbn [n_paths]. rewrite map_length. split; [cbn [length]; lia|].
  apply Injective_map_NoDup; [|exact Hnd].
  intros a b E. apply app_inv_head in E. inversion E. reflexivity.
Qed.

(* a tuple that lists an index twice is rejected wherever the repetition is *)
Theorem duplicate_alternative_rejected : forall o x depth pre l rest,
  ~ NoDup l -> exists e, parse_xpub_key o x depth (map TStep pre ++ TAlts l :: rest) = PErr e.
Proof.
  intros o x depth pre l rest Hd. unfold parse_xpub_key, parse_xkey_deriv.
  rewrite parse_steps_steps. cbn [parse_steps].
  destruct (Nat.ltb (length l) 2); [eauto|].
  destruct (tuple_has_dup l) eqn:D; [eauto|]. apply tuple_has_dup_spec in D. contradiction.
Qed.

(* completeness at key level: every well-formed text within the depth budget is accepted *)
Definition key_paths (k : dkey) : list (list step) :=
  match k with KMulti _ _ ps _ => ps | KXpub _ _ p _ => [p] | KSingle _ _ => [] end.
Definition key_wild (k : dkey) : wildcard :=
  match k with KMulti _ _ _ w => w | KXpub _ _ _ w => w | KSingle _ _ => WNone end.
Theorem parse_xpub_key_complete : forall o x depth toks k,
  parsed_key o x toks k ->
  (forall p, In p (key_paths k) -> depth + N.of_nat (length p) + wildcard_steps (key_wild k) <= 255) ->
  parse_xpub_key o x depth toks = POk k.
Proof.
  intros o x depth toks k H Hd. unfold parse_xpub_key. destruct H as [p w|pre a0 a1 rest post w Hnd]; cbn [key_wild key_paths] in Hd.
  - rewrite (parse_xkey_deriv_complete _ (plain_paths p) w (ShPlain p w)). cbv zeta.
    assert (Hp : N.ltb 255 (depth + N.of_nat (length p) + wildcard_steps w) = false)
      by (apply N.ltb_ge; apply Hd; left; reflexivity).
    destruct p as [|s p]; cbn [plain_paths existsb orb hd].
    + cbn [length] in Hp. rewrite Hp. reflexivity.
    + rewrite Hp. reflexivity.
  - rewrite (parse_xkey_deriv_complete _ _ w (ShTuple pre a0 a1 rest post w Hnd)). cbv zeta.
    replace (existsb _ _) with false; [reflexivity|]. symmetry.
    apply not_true_is_false. intros E. apply existsb_exists in E. destruct E as [p [Hp Ep]].
    apply N.ltb_lt in Ep. specialize (Hd p Hp). lia.
Qed.
