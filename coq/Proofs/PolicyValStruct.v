(* C08: soundness of the structural equivalence test used for policies that are too large for
   truth tables ([nf], [peq], [cancel], [equiv_dec] of coq/Ms/PolicyVal.v). *)
From Coq Require Import List Bool NArith ZArith Lia.
From Verif Require Import PolicyVal PolicyValProofs PolicyValWorlds.
Import ListNotations.
Local Open Scope N_scope.

Lemma forallb_flat_map {A B} (f : B -> bool) (g : A -> list B) l :
  forallb f (flat_map g l) = forallb (fun x => forallb f (g x)) l.
Proof. induction l as [|x r IH]; cbn [flat_map forallb]; [reflexivity|]. rewrite forallb_app, IH. reflexivity. Qed.
Lemma existsb_flat_map {A B} (f : B -> bool) (g : A -> list B) l :
  existsb f (flat_map g l) = existsb (fun x => existsb f (g x)) l.
Proof. induction l as [|x r IH]; cbn [flat_map existsb]; [reflexivity|]. rewrite existsb_app, IH. reflexivity. Qed.
Lemma forallb_ext_in {A} (f g : A -> bool) l : (forall x, In x l -> f x = g x) -> forallb f l = forallb g l.
Proof. induction l as [|x r IH]; intro H; cbn; [reflexivity|]. rewrite (H x (or_introl eq_refl)), IH; [reflexivity|]. intros; apply H; right; assumption. Qed.
Lemma existsb_ext_in {A} (f g : A -> bool) l : (forall x, In x l -> f x = g x) -> existsb f l = existsb g l.
Proof. induction l as [|x r IH]; intro H; cbn; [reflexivity|]. rewrite (H x (or_introl eq_refl)), IH; [reflexivity|]. intros; apply H; right; assumption. Qed.
Lemma forallb_map_comp {A B} (f : B -> bool) (g : A -> B) l : forallb f (map g l) = forallb (fun x => f (g x)) l.
Proof. induction l; cbn; congruence. Qed.
Lemma existsb_map_comp' {A B} (f : B -> bool) (g : A -> B) l : existsb f (map g l) = existsb (fun x => f (g x)) l.
Proof. induction l; cbn; congruence. Qed.

Lemma mk_and_eval W l : evals W (mk_and l) = forallb (evals W) l.
Proof. apply thresh_all. Qed.
Lemma mk_or_eval W l : evals W (mk_or l) = existsb (evals W) l.
Proof. apply thresh_one. Qed.

Lemma and_children_eval W p : forallb (evals W) (and_children p) = evals W p.
Proof.
  destruct p; cbn [and_children forallb]; try (rewrite andb_true_r; reflexivity); try reflexivity.
  destruct (N.eqb_spec k (N.of_nat (length l))) as [->|].
  - symmetry. apply thresh_all.
  - cbn [forallb]. apply andb_true_r.
Qed.
Lemma or_children_eval W p : existsb (evals W) (or_children p) = evals W p.
Proof.
  destruct p; cbn [or_children existsb]; try (rewrite orb_false_r; reflexivity); try reflexivity.
  destruct (N.eqb_spec k 1) as [->|].
  - symmetry. apply thresh_one.
  - cbn [existsb]. apply orb_false_r.
Qed.

Lemma nf_eval W p : evals W (nf p) = evals W p.
Proof.
  induction p using spolicy_ind'; try reflexivity.
  rewrite Forall_forall in H. cbn [nf].
  destruct (N.eqb_spec k (N.of_nat (length l))) as [->|Hk].
  - rewrite mk_and_eval, forallb_flat_map, thresh_all.
    rewrite (forallb_ext_in _ (evals W)) by (intros; apply and_children_eval).
    rewrite forallb_map_comp. apply forallb_ext_in. exact H.
  - destruct (N.eqb_spec k 1) as [->|Hk1].
    + rewrite mk_or_eval, existsb_flat_map, thresh_one.
      rewrite (existsb_ext_in _ (evals W)) by (intros; apply or_children_eval).
      rewrite existsb_map_comp'. apply existsb_ext_in. exact H.
    + cbn [evals]. rewrite map_map. do 2 f_equal. apply map_ext_in. exact H.
Qed.

(* ---- equality up to the order of children ---- *)
Fixpoint pl (l m : list spolicy) : bool :=
  match l with
  | [] => match m with [] => true | _ => false end
  | x :: r => match remove_peq x m with Some m' => pl r m' | None => false end
  end.

Lemma rm_eq x : forall m,
  (fix rm (m : list spolicy) : option (list spolicy) :=
     match m with
     | [] => None
     | y :: s => if peq x y then Some s else match rm s with Some s' => Some (y :: s') | None => None end
     end) m = remove_peq x m.
Proof. induction m as [|y s IH]; [reflexivity|]. cbn [remove_peq]. rewrite <- IH. reflexivity. Qed.

Lemma peq_thresh k l j m : peq (SThresh k l) (SThresh j m) = N.eqb k j && pl l m.
Proof.
  cbn [peq]. f_equal. revert m. induction l as [|x r IH]; intro m; [reflexivity|].
  cbn [pl]. rewrite rm_eq. destruct (remove_peq x m); [apply IH | reflexivity].
Qed.

Definition b2n (b : bool) : N := if b then 1 else 0.

Section PeqSound.
  Variable W : world.
  Let ev := evals W.

  Lemma remove_peq_count x m : (forall q, peq x q = true -> ev x = ev q) ->
    forall m', remove_peq x m = Some m' -> countb (map ev m) = b2n (ev x) + countb (map ev m').
  Proof.
    intro Hx. induction m as [|y s IH]; intros m' H; cbn [remove_peq] in H; [discriminate|].
    destruct (peq x y) eqn:E.
    - inversion H; subst. cbn [map countb]. rewrite (Hx y E). unfold b2n. reflexivity.
    - destruct (remove_peq x s) as [s'|]; [|discriminate]. inversion H; subst.
      cbn [map countb]. rewrite (IH s' eq_refl). lia.
  Qed.

  Lemma pl_count l : Forall (fun x => forall q, peq x q = true -> ev x = ev q) l ->
    forall m, pl l m = true -> countb (map ev l) = countb (map ev m).
  Proof.
    induction 1 as [|x r Hx Hr IH]; intros m H; cbn [pl] in H.
    - destruct m; [reflexivity | discriminate].
    - destruct (remove_peq x m) as [m'|] eqn:E; [|discriminate].
      rewrite (remove_peq_count x m Hx m' E). cbn [map countb]. rewrite (IH m' H). unfold b2n. reflexivity.
  Qed.
End PeqSound.

Theorem peq_sound : forall p q, peq p q = true -> forall W, evals W p = evals W q.
Proof.
  induction p using spolicy_ind'; intros q Hq W; destruct q; try discriminate; try reflexivity.
  - cbn in Hq. apply N.eqb_eq in Hq. congruence.
  - cbn in Hq. apply N.eqb_eq in Hq. congruence.
  - cbn in Hq. apply N.eqb_eq in Hq. congruence.
  - cbn [peq] in Hq. apply hatom_eqb_spec in Hq. inversion Hq; subst. reflexivity.
  - rewrite peq_thresh in Hq. apply andb_true_iff in Hq as [Hk Hl]. apply N.eqb_eq in Hk. subst.
    cbn [evals]. f_equal. apply (pl_count W); [|exact Hl].
    apply Forall_forall. intros x Hx q' Hq'. rewrite Forall_forall in H. apply (H x Hx q' Hq' W).
Qed.

Lemma remove_peq_forall W x b b' : remove_peq x b = Some b' ->
  forallb (evals W) b = evals W x && forallb (evals W) b'.
Proof.
  revert b'. induction b as [|y s IH]; intros b' H; cbn [remove_peq] in H; [discriminate|].
  destruct (peq x y) eqn:E.
  - inversion H; subst. cbn [forallb]. rewrite (peq_sound x y E W). reflexivity.
  - destruct (remove_peq x s) as [s'|]; [|discriminate]. inversion H; subst.
    cbn [forallb]. rewrite (IH s' eq_refl). destruct (evals W y), (evals W x); reflexivity.
Qed.

Lemma remove_peq_incl x b b' : remove_peq x b = Some b' -> incl b' b.
Proof.
  revert b'. induction b as [|y s IH]; intros b' H; cbn [remove_peq] in H; [discriminate|].
  destruct (peq x y).
  - inversion H; subst. intros z Hz. right. exact Hz.
  - destruct (remove_peq x s) as [s'|]; [|discriminate]. inversion H; subst.
    intros z [<-|Hz]; [left; reflexivity | right; apply (IH s' eq_refl); exact Hz].
Qed.

Lemma cancel_incl : forall a b a' b', cancel a b = (a', b') -> incl b' b.
Proof.
  induction a as [|x r IH]; intros b a' b' H; cbn [cancel] in H.
  - inversion H; subst. apply incl_refl.
  - destruct (remove_peq x b) as [b2|] eqn:E.
    + intros z Hz. apply (remove_peq_incl x b b2 E). apply (IH b2 a' b' H). exact Hz.
    + destruct (cancel r b) as [a2 b2] eqn:E2. inversion H; subst. apply (IH b a2 b' E2).
Qed.

Lemma forallb_false_incl {A} (f : A -> bool) b' b : incl b' b -> forallb f b' = false -> forallb f b = false.
Proof.
  intros Hi Hf. destruct (forallb f b) eqn:E; [|reflexivity].
  rewrite forallb_forall in E.
  assert (forallb f b' = true) by (apply forallb_forall; intros x Hx; apply E; apply Hi; exact Hx). congruence.
Qed.

Lemma cancel_sound W : forall a b a' b', cancel a b = (a', b') ->
  forallb (evals W) a' = forallb (evals W) b' -> forallb (evals W) a = forallb (evals W) b.
Proof.
  induction a as [|x r IH]; intros b a' b' H He; cbn [cancel] in H.
  - inversion H; subst. exact He.
  - destruct (remove_peq x b) as [b2|] eqn:E.
    + rewrite (remove_peq_forall W x b b2 E). cbn [forallb]. f_equal. apply (IH b2 a' b' H He).
    + destruct (cancel r b) as [a2 b2] eqn:E2. inversion H; subst.
      cbn [forallb] in He. cbn [forallb].
      destruct (evals W x) eqn:Ex; cbn [andb] in *.
      * apply (IH b a2 b' E2 He).
      * symmetry. apply (forallb_false_incl _ b' b); [apply (cancel_incl r b a2 b' E2) | symmetry; exact He].
Qed.

Theorem equiv_dec_sound p q : equiv_dec p q = true -> forall W, evals W p = evals W q.
Proof.
  unfold equiv_dec. destruct (small_enough p q).
  - apply equivb_ok.
  - destruct (cancel (and_children (nf p)) (and_children (nf q))) as [a b] eqn:E. intros H W.
    apply andb_true_iff in H as [_ H].
    rewrite <- (nf_eval W p), <- (nf_eval W q), <- (and_children_eval W (nf p)), <- (and_children_eval W (nf q)).
    apply (cancel_sound W _ _ a b E). rewrite <- !mk_and_eval. apply equivb_ok. exact H.
Qed.

(* on small policies the test is the exact truth-table decision *)
Theorem equiv_dec_small p q : small_enough p q = true ->
  (equiv_dec p q = true <-> forall W, evals W p = evals W q).
Proof. intro Hs. unfold equiv_dec. rewrite Hs. apply equivb_ok. Qed.
