(* C08: from script execution back to the policy ("who can spend" soundness) and the top-level
   security statement of a validated compilation.
     exec  ==>  exact relation R      Theorem B           (Proofs/DenotMain.v: accepts_iff_Rsat)
     R     ==>  lifted policy true    this file           (induction over Rg, [rsat_lift])
     lift  ==   input policy          validator_ok        (truth tables / structural test)
   A stack is "over the material of the world W" when every element that verifies as a signature
   under a key is one W can produce, and every 32-byte element is a preimage W knows. *)
From Coq Require Import List Bool NArith ZArith Lia Permutation.
From Verif Require Import Exec Ser PolicyVal PolicyValProofs PolicyValWorlds PolicyValStruct PolicyValidator
  TheoremA PolicyValSat PolicyValSigned PolicyValSpend.
From Verif Require Import SignedLemmas SignedSound DenotSpec DenotMain DenotUniqueDissat LockNeedExec.
Import ListNotations.

Section Over.
  Variable e : env.
  Variable ke : keyenv.
  Variable W : world.

  (* what the world must be able to produce if it puts [x] on the stack *)
  Definition holds (x : bytes) : Prop :=
    (forall k, e_sigok e (kb ke k) x = true -> w_key W k = true)
    /\ (blen x = 32%N ->
        w_pre W VSha256 (e_sha256 e x) = true /\ w_pre W VHash256 (e_hash256 e x) = true
        /\ w_pre W VRipemd160 (e_ripemd160 e x) = true /\ w_pre W VHash160 (e_hash160 e x) = true).
  Definition over (w : wit) : Prop := forall x, In x w -> holds x.

  (* the transaction context is the world's: a lock the script's CLTV / CSV accepts is met in W *)
  Definition locks_sound : Prop :=
    (forall t, (t < 2147483648)%N -> check_locktime e (Z.of_N t) = true -> abs_met W t = true)
    /\ (forall t, (t < 2147483648)%N -> check_sequence e (Z.of_N t) = true -> rel_met W t = true).

  Lemma over_app a b : over (a ++ b) -> over a /\ over b.
  Proof. intro H. split; intros x Hx; apply H; apply in_or_app; auto. Qed.
  Lemma over_cons x w : over (x :: w) -> holds x /\ over w.
  Proof. intro H. split; [apply H; left; reflexivity | intros y Hy; apply H; right; exact Hy]. Qed.
  Lemma over_nil : over [].
  Proof. intros x []. Qed.
End Over.

Lemma countb_app l1 l2 : countb (l1 ++ l2) = (countb l1 + countb l2)%N.
Proof. induction l1 as [|b r IH]; cbn [app countb]; [reflexivity|]. rewrite IH. lia. Qed.
Lemma countb_rev l : countb (rev l) = countb l.
Proof. induction l as [|b r IH]; cbn [rev countb]; [reflexivity|]. rewrite countb_app, IH. cbn [countb]. lia. Qed.
Lemma countb_perm {A} (f : A -> bool) l l' : Permutation l l' -> countb (map f l) = countb (map f l').
Proof. induction 1; cbn [map countb]; try lia; destruct (f x), (f y); lia. Qed.

Section RsatLift.
  Variable e : env.
  Variable ke : keyenv.
  Variable W : world.
  Hypothesis Hkeys : forall k, e_keyok e (kb ke k) = true.
  Hypothesis Hkh : forall k, e_hash160 e (kb ke k) = kh ke k.
  Hypothesis Hinj : h160_inj e.
  Hypothesis Hsort : forall ks, Permutation (ksort ke ks) ks.
  Hypothesis Hlocks : locks_sound e W.

  Notation ov := (over e ke W).
  Notation ev x := (evals W (lift_ms x)).

  (* CHECKMULTISIG's matching consumes distinct key positions: as many keys can sign in W as there
     are signatures *)
  Lemma mm_count ks : forall S, multisig_match e (map (kb ke) ks) S = true -> ov S ->
    (N.of_nat (length S) <= countb (map (w_key W) ks))%N.
  Proof.
    induction ks as [|k r IH]; intros S H Ho.
    - destruct S; [cbn; lia | discriminate].
    - destruct S as [|s S']; [cbn [length]; lia|]. cbn [map] in H. rewrite mm_unfold' in H.
      destruct (Nat.ltb _ _); [discriminate|]. apply over_cons in Ho as [Hs Ho'].
      cbn [map countb]. destruct (e_sigok e (kb ke k) s) eqn:Es.
      + rewrite (proj1 Hs k Es). specialize (IH S' H Ho'). cbn [length]. lia.
      + assert (Hos : ov (s :: S')) by (intros x [<-|Hx]; [exact Hs | apply Ho'; exact Hx]).
        specialize (IH (s :: S') H Hos). destruct (w_key W k); lia.
  Qed.

  Lemma rcms_count k ks w v : Rcms e k (map (kb ke) ks) true w v -> ov w ->
    evals W (SThresh k (map SKey ks)) = true.
  Proof.
    intros (_ & sigs & -> & Hlen & _ & Hmm) Ho. apply over_app in Ho as [Ho _].
    rewrite <- map_rev in Hmm. pose proof (mm_count (rev ks) sigs Hmm Ho) as Hc.
    rewrite map_rev, countb_rev in Hc.
    assert (Hk : (k <= countb (map (w_key W) ks))%N).
    { eapply N.le_trans; [|exact Hc]. apply N.eq_le_incl. rewrite <- (N2Nat.id k). f_equal. symmetry. exact Hlen. }
    clear Hc. rename Hk into Hc. cbn [evals]. rewrite map_map. cbn [evals]. apply N.leb_le. exact Hc.
  Qed.

  Lemma rcsa_count ks : forall w j, Rcsa e ke ks w j -> ov w ->
    (N.of_nat j <= countb (map (w_key W) ks))%N.
  Proof.
    induction ks as [|k r IH]; intros w j H Ho; cbn [Rcsa] in H.
    - destruct H as [_ ->]. cbn; lia.
    - destruct H as (sg & w' & -> & _ & H). apply over_cons in Ho as [Hs Ho'].
      cbn [map countb]. destruct H as [[_ H] | (_ & Hv & j' & -> & H)].
      + specialize (IH w' j H Ho'). destruct (w_key W k); lia.
      + rewrite (proj1 Hs k Hv). specialize (IH w' j' H Ho'). lia.
  Qed.

  Lemma ev_multi_keys k ks : evals W (SThresh k (map SKey ks)) = N.leb k (countb (map (w_key W) ks)).
  Proof. cbn [evals]. rewrite map_map. reflexivity. Qed.

  Definition lstmt (m : ms) : Prop :=
    vliftable m -> wf e ke m -> forall w v, Rg e ke false m true w v -> ov w -> ev m = true.

  Lemma hash_case hf hk h w v :
    (forall x, blen x = 32%N -> holds e ke W x -> w_pre W hk (hf x) = true) ->
    Rhash false hf h true w v -> ov w -> w_pre W hk h = true.
  Proof.
    intros Hp (x & -> & Hl & _ & Hh & _) Ho. rewrite <- Hh. apply Hp; [exact Hl | apply Ho; left; reflexivity].
  Qed.

  Lemma rthr_count xs : Forall lstmt xs -> Forall vliftable xs -> Forall (wf e ke) xs ->
    forall w j, Rthr (fun x => Rg e ke false x) xs w j -> ov w ->
    (N.of_nat j <= countb (map (fun x => ev x) xs))%N.
  Proof.
    induction 1 as [|x r Hx Hr IH]; intros Hl Hw w j H Ho; cbn [Rthr] in H.
    - destruct H as [_ ->]. cbn; lia.
    - pose proof (Forall_inv Hl) as H1. pose proof (Forall_inv_tail Hl) as H2.
      pose proof (Forall_inv Hw) as H3. pose proof (Forall_inv_tail Hw) as H4.
      destruct H as (wx & wr & -> & H). apply over_app in Ho as [Hox Hor]. cbn [map countb].
      destruct H as [(j' & -> & Hsx & Hrest) | (_ & Hrest)].
      + rewrite (Hx H1 H3 wx [1%N] Hsx Hox). specialize (IH H2 H4 wr j' Hrest Hor). lia.
      + specialize (IH H2 H4 wr j Hrest Hor). destruct (ev x); lia.
  Qed.

  Lemma wf_thresh_children k xs : wf e ke (MThresh k xs) -> Forall (wf e ke) xs.
  Proof.
    cbn [wf]. intros (_ & _ & H). induction xs as [|x r IH]; constructor; [apply H | apply IH; apply H].
  Qed.

  Theorem rsat_lift : forall m, lstmt m.
  Proof.
    destruct Hlocks as [Habs Hrel].
    induction m using ms_ind'; unfold lstmt; intros Hl Hwf w v HR Ho; cbn [Rg] in HR; cbn [lift_ms]; cbn [vliftable wf] in Hl, Hwf.
    - reflexivity.
    - destruct HR as [HR _]. discriminate.
    - destruct HR as (sg & -> & -> & _ & _ & Hs). cbn [evals]. apply (proj1 (Ho sg (or_introl eq_refl)) k Hs).
    - destruct HR as (sg & -> & Hh & (Hk & _ & Hs) & _). cbn [evals].
      assert (v = kb ke k) as -> by (apply Hinj; [exact Hk | apply Hkeys | rewrite Hkh; exact Hh]).
      apply (proj1 (Ho sg (or_intror (or_introl eq_refl))) k Hs).
    - destruct Hl.
    - destruct HR as (_ & _ & _ & Hc). cbn [evals]. apply Habs; [lia | exact Hc].
    - destruct HR as (_ & _ & _ & Hc). cbn [evals]. apply Hrel; [lia | exact Hc].
    - cbn [evals]. apply (hash_case (e_sha256 e) VSha256 h w v); [|exact HR | exact Ho]. intros x Hx Hh. apply (proj2 Hh Hx).
    - cbn [evals]. apply (hash_case (e_hash256 e) VHash256 h w v); [|exact HR | exact Ho]. intros x Hx Hh. apply (proj2 Hh Hx).
    - cbn [evals]. apply (hash_case (e_ripemd160 e) VRipemd160 h w v); [|exact HR | exact Ho]. intros x Hx Hh. apply (proj2 Hh Hx).
    - cbn [evals]. apply (hash_case (e_hash160 e) VHash160 h w v); [|exact HR | exact Ho]. intros x Hx Hh. apply (proj2 Hh Hx).
    - apply (IHm Hl Hwf w v HR Ho).
    - apply (IHm Hl Hwf w v HR Ho).
    - destruct HR as (_ & key & HR). apply (IHm Hl Hwf w key HR Ho).
    - destruct HR as (_ & _ & HR & _). apply (IHm Hl Hwf [] [] (HR eq_refl)). apply over_nil.
    - destruct HR as (_ & _ & v' & HR). apply (IHm Hl Hwf w v' HR Ho).
    - destruct HR as [(HR & _)|(a & r & _ & _ & _ & HR & _)]; [discriminate|]. apply (IHm Hl Hwf w v HR Ho).
    - destruct HR as (_ & v' & HR & _). apply (IHm Hl Hwf w v' HR Ho).
    - (* and_v *) destruct HR as (wx & wy & -> & Hx & Hy). apply over_app in Ho as [Hox Hoy].
      destruct Hl as [Hl1 Hl2]; destruct Hwf as [Hw1 Hw2].
      rewrite ev_and, (IHm1 Hl1 Hw1 wx [] Hx Hox), (IHm2 Hl2 Hw2 wy v Hy Hoy). reflexivity.
    - (* and_b *) destruct HR as (wx & wy & vx & vy & sx & sy & -> & Hx & Hy & _ & _ & Hs & _).
      apply over_app in Ho as [Hox Hoy]. destruct Hl as [Hl1 Hl2]; destruct Hwf as [Hw1 Hw2].
      symmetry in Hs. apply andb_true_iff in Hs as [-> ->].
      rewrite ev_and, (IHm1 Hl1 Hw1 wx vx Hx Hox), (IHm2 Hl2 Hw2 wy vy Hy Hoy). reflexivity.
    - (* andor *) destruct HR as (wa & w' & va & -> & HR). apply over_app in Ho as [Hoa Ho'].
      destruct Hl as (Hl1 & Hl2 & Hl3); destruct Hwf as (Hw1 & Hw2 & Hw3).
      rewrite ev_or, ev_and. destruct HR as [(Ha & _ & Hb & _)|(_ & _ & Hc)].
      + rewrite (IHm1 Hl1 Hw1 wa va Ha Hoa), (IHm2 Hl2 Hw2 w' v Hb Ho'). reflexivity.
      + rewrite (IHm3 Hl3 Hw3 w' v Hc Ho'). apply orb_true_r.
    - (* or_b *) destruct HR as (wx & wy & vx & vy & sx & sy & -> & Hx & Hy & _ & _ & Hs & _).
      apply over_app in Ho as [Hox Hoy]. destruct Hl as [Hl1 Hl2]; destruct Hwf as [Hw1 Hw2].
      rewrite ev_or. symmetry in Hs. apply orb_true_iff in Hs as [->| ->].
      + rewrite (IHm1 Hl1 Hw1 wx vx Hx Hox). reflexivity.
      + rewrite (IHm2 Hl2 Hw2 wy vy Hy Hoy). apply orb_true_r.
    - (* or_d *) destruct Hl as [Hl1 Hl2]; destruct Hwf as [Hw1 Hw2]. rewrite ev_or.
      destruct HR as [(_ & Hx & _)|(wx & wy & vx & -> & _ & _ & Hy)].
      + rewrite (IHm1 Hl1 Hw1 w v Hx Ho). reflexivity.
      + apply over_app in Ho as [_ Hoy]. rewrite (IHm2 Hl2 Hw2 wy v Hy Hoy). apply orb_true_r.
    - (* or_c *) destruct Hl as [Hl1 Hl2]; destruct Hwf as [Hw1 Hw2]. rewrite ev_or.
      destruct HR as (_ & _ & [(vx & Hx & _)|(wx & wy & vx & -> & _ & _ & Hy)]).
      + rewrite (IHm1 Hl1 Hw1 w vx Hx Ho). reflexivity.
      + apply over_app in Ho as [_ Hoy]. rewrite (IHm2 Hl2 Hw2 wy [] Hy Hoy). apply orb_true_r.
    - (* or_i *) destruct Hl as [Hl1 Hl2]; destruct Hwf as [Hw1 Hw2]. rewrite ev_or.
      destruct HR as (sel & w' & b & -> & _ & HR & _). apply over_cons in Ho as [_ Ho'].
      destruct b.
      + rewrite (IHm1 Hl1 Hw1 w' v HR Ho'). reflexivity.
      + rewrite (IHm2 Hl2 Hw2 w' v HR Ho'). apply orb_true_r.
    - (* thresh *) destruct HR as (_ & j & HT & Hs & _). symmetry in Hs. apply N.eqb_eq in Hs. subst k.
      assert (Hlx : Forall vliftable xs) by (apply vliftable_thresh with (k := N.of_nat j); exact Hl).
      pose proof (wf_thresh_children _ _ Hwf) as Hwx.
      pose proof (rthr_count xs H Hlx Hwx w j HT Ho) as Hc.
      cbn [evals]. rewrite map_map. apply N.leb_le. exact Hc.
    - (* multi *) apply (rcms_count k ks w v HR Ho).
    - (* sortedmulti *) pose proof (rcms_count k (ksort ke ks) w v HR Ho) as Hc.
      rewrite ev_multi_keys in *. rewrite <- (countb_perm (w_key W) _ _ (Hsort ks)). exact Hc.
    - (* multi_a *) destruct HR as (_ & j & HC & Hs & _). symmetry in Hs. apply N.eqb_eq in Hs. subst k.
      rewrite ev_multi_keys. apply N.leb_le. apply (rcsa_count ks w j HC Ho).
    - (* sortedmulti_a *) destruct HR as (_ & j & HC & Hs & _). symmetry in Hs. apply N.eqb_eq in Hs. subst k.
      rewrite ev_multi_keys. apply N.leb_le. rewrite <- (countb_perm (w_key W) _ _ (Hsort ks)).
      apply (rcsa_count (ksort ke ks) w j HC Ho).
  Qed.

  (* execution => lifted policy, for a well-typed B fragment *)
  Theorem accepted_lift m t w :
    type_of m = ROk t -> c_base (t_corr t) = BB -> wf e ke m -> vliftable m ->
    accepts e (enc ke m) w = true -> ov w -> ev m = true.
  Proof.
    intros Ht Hb Hwf Hl Ha Ho. apply (accepts_iff_Rsat e ke m t Ht Hwf Hb) in Ha as [v HR].
    apply (rsat_lift m Hl Hwf w v HR Ho).
  Qed.
End RsatLift.

(* ------------------------------------------------------------------ the environment's own world *)
Lemma land_small_disable t : (t < 2147483648)%N -> N.land t 2147483648 = 0%N.
Proof.
  intro H. apply N.bits_inj. intro i. rewrite N.land_spec, N.bits_0.
  change 2147483648%N with (2 ^ 31)%N. rewrite N.pow2_bits_eqb.
  destruct (N.eqb_spec 31 i) as [<-|]; [|apply andb_false_r].
  rewrite andb_true_r. apply N.testbit_false. rewrite N.div_small; [reflexivity | exact H].
Qed.

(* the world "whoever built the stack [w]" under the transaction [e]: it signs for k iff w carries
   an element verifying under k, knows every preimage, and its lock fields are the transaction's *)
Definition stack_world (e : env) (ke : keyenv) (w : wit) : world :=
  mkWorld (fun k => existsb (fun x => e_sigok e (kb ke k) x) w) (fun _ _ => true) (e_locktime e) (e_sequence e).

Lemma stack_world_over e ke w : over e ke (stack_world e ke w) w.
Proof.
  intros x Hx. split.
  - intros k Hs. unfold stack_world; cbn [w_key]. apply existsb_exists. exists x. auto.
  - intros _. repeat split.
Qed.

Lemma stack_world_locks e ke w : locks_sound e (stack_world e ke w).
Proof.
  split; intros t Ht H.
  - unfold abs_met, stack_world, after_ok; cbn [w_lock]. unfold check_locktime in H.
    apply andb_true_iff in H as [_ H]. cbv zeta in H. rewrite N2Z.id in H.
    apply andb_true_iff in H as [H _]. apply andb_true_iff in H as [H1 H2].
    unfold LOCKTIME_THRESHOLD in H1. rewrite H1, H2. reflexivity.
  - unfold rel_met, stack_world, older_ok; cbn [w_seq]. unfold check_sequence in H.
    apply andb_true_iff in H as [_ H]. cbv zeta in H. rewrite N2Z.id in H. unfold Exec.SEQ_DISABLE in H.
    rewrite (land_small_disable t Ht) in H. cbn [N.eqb negb] in H.
    apply andb_true_iff in H as [H H3]. apply andb_true_iff in H as [H H2]. apply andb_true_iff in H as [_ H1].
    unfold Exec.SEQ_DISABLE, Exec.SEQ_TYPE, Exec.SEQ_MASK in *. rewrite H1, H2, H3. reflexivity.
Qed.

(* ------------------------------------------------------------------ validated compilations *)
Definition env_ok (e : env) (ke : keyenv) : Prop :=
  (forall k, e_keyok e (kb ke k) = true) /\ (forall k, e_hash160 e (kb ke k) = kh ke k)
  /\ h160_inj e /\ (forall ks, Permutation (ksort ke ks) ks).

Lemma frag_no_raw c kk m att : ms_facts c kk m att -> vliftable m.
Proof.
  intro F. pose proof (mf_frags _ _ _ _ F) as Hf. clear F.
  induction m using ms_ind'; cbn [vliftable]; try exact I;
    try (apply IHm; intros s Hs; apply Hf; cbn [subterms]; right; exact Hs).
  - specialize (Hf _ (or_introl eq_refl)). discriminate.
  - split; [apply IHm1 | apply IHm2]; intros s Hs; apply Hf; cbn [subterms]; right; apply in_or_app; auto.
  - split; [apply IHm1 | apply IHm2]; intros s Hs; apply Hf; cbn [subterms]; right; apply in_or_app; auto.
  - repeat split; [apply IHm1 | apply IHm2 | apply IHm3]; intros s Hs; apply Hf; cbn [subterms]; right;
      apply in_or_app; [left | right; apply in_or_app; left | right; apply in_or_app; right]; exact Hs.
  - split; [apply IHm1 | apply IHm2]; intros s Hs; apply Hf; cbn [subterms]; right; apply in_or_app; auto.
  - split; [apply IHm1 | apply IHm2]; intros s Hs; apply Hf; cbn [subterms]; right; apply in_or_app; auto.
  - split; [apply IHm1 | apply IHm2]; intros s Hs; apply Hf; cbn [subterms]; right; apply in_or_app; auto.
  - split; [apply IHm1 | apply IHm2]; intros s Hs; apply Hf; cbn [subterms]; right; apply in_or_app; auto.
  - assert (Hc : forall x, In x xs -> forall s, In s (subterms x) -> frag_ok c kk s = true).
    { intros x Hx s Hs. apply Hf. cbn [subterms]. right. apply in_flat_map. eauto. }
    clear Hf. induction H as [|x r Hx Hr IH]; [exact I|]. split.
    + apply Hx. apply Hc. left; reflexivity.
    + apply IH. intros y Hy. apply Hc. right; exact Hy.
Qed.

(* (<=) soundness of a validated compilation: an accepted stack over W's material => p true in W *)
Theorem validated_accept_policy e ke W c kk pol m att w :
  validate_compilation c kk pol m att = true ->
  env_ok e ke -> locks_sound e W -> wf e ke m ->
  accepts e (enc ke m) w = true -> over e ke W w -> evalc W pol = true.
Proof.
  intros Hv (Hk & Hh & Hi & Hs) Hlk Hwf Ha Ho.
  destruct (validator_ok c kk pol m att Hv) as (Heq & _ & F).
  destruct (mf_root _ _ _ _ F) as (t & Ht & _ & Hb & _).
  rewrite Heq. apply (accepted_lift e ke W Hk Hh Hi Hs Hlk m t w Ht Hb Hwf (frag_no_raw _ _ _ _ F) Ha Ho).
Qed.

(* the two directions together.  (=>) needs the world to be realised by genuine assets whose table
   witnesses it can produce ([realizes]); (<=) needs nothing about the assets. *)
Definition realizes (e : env) (ke : keyenv) (A : assets) (W : world) (m : ms) : Prop :=
  assets_ok e ke A /\ assets_match A W /\ forall w, In w (all_sat ke A m) -> over e ke W w.

Theorem validated_policy_iff_spendable e ke A W c kk pol m att :
  validate_compilation c kk pol m att = true ->
  env_ok e ke -> (forall kbs, e_sigok e kbs [] = false) -> locks_sound e W -> wf e ke m ->
  realizes e ke A W m ->
  (evalc W pol = true <-> exists w, over e ke W w /\ accepts e (enc ke m) w = true).
Proof.
  intros Hv He Hse Hlk Hwf (HA & HAW & Hov). split.
  - intro Hp. pose proof He as (_ & _ & _ & Hs).
    destruct (validator_ok c kk pol m att Hv) as (_ & _ & F).
    assert (Hnm : no_multi m).
    { pose proof (frag_no_raw _ _ _ _ F) as Hl. clear - Hl.
      induction m using ms_ind'; cbn [no_multi vliftable] in *; try exact I; try tauto.
      all: induction H as [|x r Hx Hr IH]; [exact I|]; destruct Hl as [H1 H2]; split; [apply Hx; exact H1 | apply IH; exact H2]. }
    destruct (validated_policy_spendable e ke A W c kk pol m att Hv HA Hse HAW Hs Hwf Hnm Hp) as (w & Hin & Ha).
    exists w. split; [apply Hov; exact Hin | exact Ha].
  - intros (w & Ho & Ha). apply (validated_accept_policy e ke W c kk pol m att w Hv He Hlk Hwf Ha Ho).
Qed.

(* ------------------------------------------------------------------ the security corollary *)
Lemma frag_kpos c kk m att : ms_facts c kk m att -> kpos m.
Proof.
  intro F. pose proof (mf_frags _ _ _ _ F) as Hf. clear F.
  induction m using ms_ind'; cbn [kpos]; try exact I;
    try (apply IHm; intros s Hs; apply Hf; cbn [subterms]; right; exact Hs).
  - split; [apply IHm1 | apply IHm2]; intros s Hs; apply Hf; cbn [subterms]; right; apply in_or_app; auto.
  - split; [apply IHm1 | apply IHm2]; intros s Hs; apply Hf; cbn [subterms]; right; apply in_or_app; auto.
  - repeat split; [apply IHm1 | apply IHm2 | apply IHm3]; intros s Hs; apply Hf; cbn [subterms]; right;
      apply in_or_app; [left | right; apply in_or_app; left | right; apply in_or_app; right]; exact Hs.
  - split; [apply IHm1 | apply IHm2]; intros s Hs; apply Hf; cbn [subterms]; right; apply in_or_app; auto.
  - split; [apply IHm1 | apply IHm2]; intros s Hs; apply Hf; cbn [subterms]; right; apply in_or_app; auto.
  - split; [apply IHm1 | apply IHm2]; intros s Hs; apply Hf; cbn [subterms]; right; apply in_or_app; auto.
  - split; [apply IHm1 | apply IHm2]; intros s Hs; apply Hf; cbn [subterms]; right; apply in_or_app; auto.
  - assert (Hc : forall x, In x xs -> forall s, In s (subterms x) -> frag_ok c kk s = true).
    { intros x Hx s Hs. apply Hf. cbn [subterms]. right. apply in_flat_map. eauto. }
    clear Hf. induction H as [|x r Hx Hr IH]; [exact I|]. split.
    + apply Hx. apply Hc. left; reflexivity.
    + apply IH. intros y Hy. apply Hc. right; exact Hy.
  - specialize (Hf _ (or_introl eq_refl)). cbn in Hf. unfold thresh_ok in Hf.
    repeat match goal with E : _ && _ = true |- _ => apply andb_true_iff in E; destruct E end.
    match goal with E : (1 <=? k)%N = true |- _ => apply N.leb_le in E; exact E end.
  - specialize (Hf _ (or_introl eq_refl)). cbn in Hf. unfold thresh_ok in Hf.
    repeat match goal with E : _ && _ = true |- _ => apply andb_true_iff in E; destruct E end.
    match goal with E : (1 <=? k)%N = true |- _ => apply N.leb_le in E; exact E end.
  - specialize (Hf _ (or_introl eq_refl)). cbn in Hf. unfold thresh_ok in Hf.
    repeat match goal with E : _ && _ = true |- _ => apply andb_true_iff in E; destruct E end.
    match goal with E : (1 <=? k)%N = true |- _ => apply N.leb_le in E; exact E end.
  - specialize (Hf _ (or_introl eq_refl)). cbn in Hf. unfold thresh_ok in Hf.
    repeat match goal with E : _ && _ = true |- _ => apply andb_true_iff in E; destruct E end.
    match goal with E : (1 <=? k)%N = true |- _ => apply N.leb_le in E; exact E end.
Qed.

(* keys of the policy = keys of the lifted output is not needed: the signing key is exhibited among
   the keys of the OUTPUT's lift, and the policy itself is false in every world where none of ITS
   keys... (validator_ok); both readings are given *)
Theorem validated_needs_signature e ke c kk pol m att w :
  validate_compilation c kk pol m att = true ->
  env_ok e ke -> wf e ke m ->
  accepts e (enc ke m) w = true ->
  (* a valid signature under a key of the compiled script is on the stack *)
  (exists k x, In k (keys_s (lift_ms m)) /\ In x w /\ e_sigok e (kb ke k) x = true)
  (* and the policy holds for whoever built the stack, under this transaction *)
  /\ evalc (stack_world e ke w) pol = true.
Proof.
  intros Hv He Hwf Ha. pose proof He as (Hk & Hh & Hi & Hs).
  destruct (validator_ok c kk pol m att Hv) as (Heq & _ & F).
  destruct (mf_root _ _ _ _ F) as (t & Ht & _ & Hb & Hsg & _).
  pose proof (accepted_lift e ke (stack_world e ke w) Hk Hh Hi Hs (stack_world_locks e ke w) m t w Ht Hb Hwf
                (frag_no_raw _ _ _ _ F) Ha (stack_world_over e ke w)) as Hev.
  split; [|rewrite Heq; exact Hev].
  destruct (signed_sound (stack_world e ke w) m t Ht (frag_kpos _ _ _ _ F) Hsg Hev) as (k & Hin & Hw).
  unfold stack_world in Hw; cbn [w_key] in Hw. apply existsb_exists in Hw as (x & Hx & Hv').
  exists k, x. auto.
Qed.

(* the contrapositive the property's wording asks for: no stack without a valid signature of a key
   of the script is accepted *)
Corollary validated_no_sigless_spend e ke c kk pol m att w :
  validate_compilation c kk pol m att = true -> env_ok e ke -> wf e ke m ->
  (forall k x, In k (keys_s (lift_ms m)) -> In x w -> e_sigok e (kb ke k) x = false) ->
  accepts e (enc ke m) w = false.
Proof.
  intros Hv He Hwf Hno. destruct (accepts e (enc ke m) w) eqn:Ha; [|reflexivity].
  destruct (validated_needs_signature e ke c kk pol m att w Hv He Hwf Ha) as ((k & x & Hk & Hx & Hs) & _).
  rewrite (Hno k x Hk Hx) in Hs. discriminate.
Qed.
