(* C09: descriptor-level weight formulas and Plan accounting against what a satisfaction
   serialises to (sizes in the placeholder units of util.rs: every item below 253 bytes carries
   a one-byte length prefix, which ph_size includes). *)
From Coq Require Import Lia.
From Verif Require Import TypeCheck ExtModel ExtProofs ExtLemmas ExtThresh ExtSatSide ExtBounds.
Local Open Scope N_scope.

Arguments N.add : simpl never. Arguments N.mul : simpl never. Arguments N.sub : simpl never.
Arguments N.max : simpl never. Arguments N.of_nat : simpl never. Arguments N.leb : simpl never.
Arguments N.ltb : simpl never. Arguments N.eqb : simpl never.

Lemma varint_len_mono a b : a <= b -> varint_len a <= varint_len b.
Proof.
  intros H. unfold varint_len.
  destruct (N.ltb_spec a 253), (N.ltb_spec b 253); try lia;
    destruct (N.leb_spec a 65535), (N.leb_spec b 65535); try lia;
      destruct (N.leb_spec a 4294967295), (N.leb_spec b 4294967295); lia.
Qed.
Lemma varint_len_pos a : 1 <= varint_len a.
Proof. unfold varint_len. destruct (a <? 253), (a <=? 65535), (a <=? 4294967295); lia. Qed.
Lemma varint_len_0 : varint_len 0 = 1. Proof. reflexivity. Qed.

(* ---- what a satisfaction weighs beyond the unsatisfied input (empty scriptSig, empty witness) *)
(* wsh: witness = items ++ [witness script] *)
Definition wsh_measured (se : senv) (l : list ph) (ssz : N) : N :=
  varint_len (N.of_nat (length l) + 1) + ph_sum se l + (varint_len ssz + ssz) - 1.
(* sh(ms): scriptSig = pushes of the items, then the push of the redeem script; 4 WU per byte *)
Definition sh_measured (se : senv) (l : list ph) (ssz : N) : N :=
  let s := ssig_sum se l + (push_opcode_size ssz + ssz) in 4 * (varint_len s + s - 1).
Definition bare_measured (se : senv) (l : list ph) : N :=
  let s := ssig_sum se l in 4 * (varint_len s + s - 1).
(* tr script path: witness = items ++ [leaf script; control block] *)
Definition tr_measured (se : senv) (l : list ph) (ssz depth : N) : N :=
  let cb := control_block_len depth in
  varint_len (N.of_nat (length l) + 2) + ph_sum se l + (varint_len ssz + ssz) + (varint_len cb + cb) - 1.

Lemma wsh_weight_bound se d l ssz :
  within se d l -> wsh_measured se l ssz <= wsh_weight ssz (sd_wcount d + 1) (sd_wsize d).
Proof.
  intros (Hc & Hs & _). unfold wsh_measured, wsh_weight. rewrite varint_len_0.
  pose proof (varint_len_mono (N.of_nat (length l) + 1) (sd_wcount d + 1) ltac:(lia)).
  pose proof (varint_len_pos (N.of_nat (length l) + 1)). lia.
Qed.
Lemma sh_wsh_weight_bound se d l ssz :
  within se d l ->
  4 * (varint_len 35 + 35 - 1) + wsh_measured se l ssz <= sh_wsh_weight ssz (sd_wcount d + 1) (sd_wsize d).
Proof.
  intros W. pose proof (wsh_weight_bound se d l ssz W). unfold sh_wsh_weight, sh_wrap.
  change (1 + 1 + 1 + 32) with 35. rewrite varint_len_0. change (varint_len 35) with 1. lia.
Qed.
Lemma sh_ms_weight_bound se d l ssz :
  se_tap se = false -> within se d l -> sh_measured se l ssz <= sh_ms_weight ssz (sd_ssig d).
Proof.
  intros Ht (_ & _ & Hg). specialize (Hg Ht). unfold sh_measured, sh_ms_weight, sh_wrap. rewrite varint_len_0.
  set (s := ssig_sum se l + (push_opcode_size ssz + ssz)). set (S := push_opcode_size ssz + ssz + sd_ssig d).
  assert (Hs : s <= S) by (unfold s, S; lia).
  pose proof (varint_len_mono s S Hs). pose proof (varint_len_pos s). lia.
Qed.
Lemma bare_weight_bound se d l :
  se_tap se = false -> within se d l -> bare_measured se l <= bare_weight (sd_ssig d).
Proof.
  intros Ht (_ & _ & Hg). specialize (Hg Ht). unfold bare_measured, bare_weight. rewrite varint_len_0.
  pose proof (varint_len_mono (ssig_sum se l) (sd_ssig d) Hg). pose proof (varint_len_pos (ssig_sum se l)). lia.
Qed.
Lemma tr_leaf_weight_bound se d l ssz depth :
  within se d l -> tr_measured se l ssz depth <= tr_leaf_weight depth ssz (sd_wcount d + 1) (sd_wsize d).
Proof.
  intros (Hc & Hs & _). unfold tr_measured, tr_leaf_weight. cbv zeta. rewrite varint_len_0.
  pose proof (varint_len_mono (N.of_nat (length l) + 2) (sd_wcount d + 1 + 1) ltac:(lia)).
  pose proof (varint_len_pos (N.of_nat (length l) + 2)). lia.
Qed.

(* Tr::max_weight_to_satisfy takes the maximum over the satisfiable leaves *)
Lemma tr_leaves_weight_ge (leaves : list (N * N * option (N * N))) d ssz el sz :
  In (d, ssz, Some (el, sz)) leaves ->
  exists w, tr_leaves_weight leaves = Some w /\ tr_leaf_weight d ssz el sz <= w.
Proof.
  unfold tr_leaves_weight.
  assert (G : forall ls acc,
             (In (d, ssz, Some (el, sz)) ls \/ exists a, acc = Some a /\ tr_leaf_weight d ssz el sz <= a) ->
             exists w, fold_left (fun (acc : option N) (l : N * N * option (N * N)) =>
                                    match l with
                                    | (d0, ssz0, Some (el0, sz0)) =>
                                      let w := tr_leaf_weight d0 ssz0 el0 sz0 in
                                      Some (match acc with Some a => N.max a w | None => w end)
                                    | (_, _, None) => acc
                                    end) ls acc = Some w /\ tr_leaf_weight d ssz el sz <= w).
  { induction ls as [|[[d0 s0] o0] r IH]; intros acc H; cbn [fold_left].
    - destruct H as [[]|(a & -> & Ha)]. eauto.
    - apply IH. destruct H as [[E|Hin]|(a & -> & Ha)].
      + inversion E; subst. right. destruct acc as [a|]; eexists; (split; [reflexivity|]); lia.
      + left. exact Hin.
      + right. destruct o0 as [[el0 sz0]|]; [|eauto]. eexists; split; [reflexivity|]. lia. }
  intros Hin. apply G. left. exact Hin.
Qed.
Lemma tr_tree_weight_ge (leaves : list (N * N * option (N * N))) d ssz el sz :
  In (d, ssz, Some (el, sz)) leaves ->
  exists w, tr_tree_weight leaves = Some w /\ tr_leaf_weight d ssz el sz <= w.
Proof.
  intros Hin. destruct (tr_leaves_weight_ge leaves d ssz el sz Hin) as (w & E & Hw).
  unfold tr_tree_weight. rewrite E. eexists. split; [reflexivity|]. lia.
Qed.
(* since /repo 265ff19b: the key-path spend (one 65-byte signature item) is covered as well *)
Lemma tr_tree_weight_keyspend (leaves : list (N * N * option (N * N))) :
  exists w, tr_tree_weight leaves = Some w /\ tr_keyspend_weight <= w.
Proof.
  unfold tr_tree_weight. destruct (tr_leaves_weight leaves); eexists; (split; [reflexivity|]); lia.
Qed.

(* ---- single-miniscript descriptors: the figure covers every satisfaction of the satisfier model *)
Definition desc_measured (dk : dkind) (se : senv) (l : list ph) (ssz : N) : N :=
  match dk with
  | DBare => bare_measured se l
  | DSh => sh_measured se l ssz
  | DWsh => wsh_measured se l ssz
  | DShWsh => 4 * (varint_len 35 + 35 - 1) + wsh_measured se l ssz
  end.

Theorem desc_weight_bound :
  forall fx dk c ke se mall rhs m l,
    senv_ok c se -> ksort_len_ok ke -> ext_safe fx c m = true -> se_tap se = false ->
    s_stack (snd (sat_dissat ke se mall rhs m)) = WStack l ->
    exists w, desc_weight fx dk c m = Some w
              /\ desc_measured dk se l (script_size_gen fx c m) <= w.
Proof.
  intros fx dk c ke se mall rhs m l Hse Hk Hs Ht El.
  destruct (wit_bounds_gen fx c ke se mall rhs m Hse Hk Hs) as [A _].
  unfold bounded in A. rewrite El in A. destruct A as (d & Ed & W).
  unfold desc_weight, max_sat_size, max_sat_witness_elements. rewrite Ed. cbn [option_map].
  destruct dk; cbn [desc_measured]; eexists; (split; [reflexivity|]).
  - apply bare_weight_bound; assumption.
  - apply sh_ms_weight_bound; assumption.
  - apply wsh_weight_bound; assumption.
  - apply sh_wsh_weight_bound; assumption.
Qed.

(* ---- Plan accounting (src/plan.rs, src/util.rs) ----
   [sizes] are the ItemSize values of the template. What the completed plan serialises to, when
   every item is as large as its ItemSize allows: *)
Definition items_total (sizes : list N) : N := fold_right N.add 0 sizes.
(* segwit: witness = template items (+ the witness script [ssz] for wsh / sh(wsh)) *)
Definition plan_real_witness (pk : plan_kind) (sizes : list N) (ssz : N) : N :=
  match pk with
  | PLegacy => 0
  | PSegwitNative | PShWsh => varint_len (N.of_nat (length sizes) + 1) + items_total sizes + (varint_len ssz + ssz)
  | _ => varint_len (N.of_nat (length sizes)) + items_total sizes
  end.
(* scriptSig with its length prefix *)
Definition plan_real_scriptsig (pk : plan_kind) (sizes : list N) (ssz : N) (is_sh : bool) : N :=
  match pk with
  | PLegacy => let s := items_total sizes + (if is_sh then push_opcode_size ssz + ssz else 0) in varint_len s + s
  | PShWsh => 1 + 35
  | PShWpkh => 1 + 23
  | _ => 1
  end.

(* the three Plan findings, as refutations of "announced >= real" for the accounting as written *)
Lemma plan_witness_refuted :
  exists sizes ssz, plan_witness_size PSegwitNative sizes < plan_real_witness PSegwitNative sizes ssz.
Proof. exists [73], 35. vm_compute. reflexivity. Qed.
Lemma plan_shwsh_scriptsig_refuted :
  exists sizes ssz, plan_scriptsig_size PShWsh sizes < plan_real_scriptsig PShWsh sizes ssz false.
Proof. exists [73], 35. vm_compute. reflexivity. Qed.
Lemma plan_legacy_varint_refuted :
  exists sizes, plan_scriptsig_size PLegacy sizes < plan_real_scriptsig PLegacy sizes 0 false.
Proof. exists [1; 73; 73; 73; 73]. vm_compute. reflexivity. Qed.

(* what does hold: the announced figures cover the template items themselves *)
Lemma plan_witness_covers_items pk sizes :
  pk <> PLegacy -> items_total sizes + varint_len (N.of_nat (length sizes)) = plan_witness_size pk sizes.
Proof. intros H. destruct pk; try contradiction; reflexivity. Qed.
Lemma plan_taproot_exact sizes ssz :
  plan_witness_size PTaproot sizes = plan_real_witness PTaproot sizes ssz
  /\ plan_scriptsig_size PTaproot sizes = plan_real_scriptsig PTaproot sizes ssz false.
Proof. unfold plan_witness_size, plan_real_witness, util_witness_size, items_total. split; [lia|reflexivity]. Qed.

(* the repaired accounting (notes/fixes/C09-plan-sizes.diff) is exact on the same model *)
Definition plan_witness_size_fixed (pk : plan_kind) (sizes : list N) (ssz : N) : N := plan_real_witness pk sizes ssz.
Definition plan_scriptsig_size_fixed (pk : plan_kind) (sizes : list N) (ssz : N) (is_sh : bool) : N :=
  plan_real_scriptsig pk sizes ssz is_sh.
