(* C17, lock necessity, Script level.  How the outcome of a Script execution depends on the
   lock fields of the environment (nLockTime, nSequence, transaction version):
   if a script runs successfully under [e] and [e'] differs from [e] only in those fields, then
   under [e'] the same script on the same stack
     * ends in the SAME state when every CLTV / CSV check of the executed path (the TAbs / TRel
       events of the instrumented execution, Script/ExecTrace.v) passes under [e'], and
     * FAILS otherwise.
   Nothing else of the execution looks at the lock fields. *)
From Verif Require Import Exec ExecTrace ExecLemmas ExecTraceLemmas.
From Coq Require Import Lia.

(* [e'] agrees with [e] on everything except nLockTime / nSequence / tx version *)
Record same_oracles (e e' : env) : Prop := {
  so_sv : e_sv e' = e_sv e;
  so_sigok : e_sigok e' = e_sigok e;
  so_keyok : e_keyok e' = e_keyok e;
  so_sha256 : e_sha256 e' = e_sha256 e;
  so_hash256 : e_hash256 e' = e_hash256 e;
  so_ripemd160 : e_ripemd160 e' = e_ripemd160 e;
  so_hash160 : e_hash160 e' = e_hash160 e
}.

Definition with_locks (e : env) (lt sq ver : N) : env :=
  mkEnv (e_sv e) lt sq ver (e_sigok e) (e_keyok e) (e_sha256 e) (e_hash256 e) (e_ripemd160 e) (e_hash160 e).

Lemma same_oracles_with_locks e lt sq ver : same_oracles e (with_locks e lt sq ver).
Proof. constructor; reflexivity. Qed.
Lemma same_oracles_refl e : same_oracles e e.
Proof. constructor; reflexivity. Qed.
Lemma same_oracles_sym e e' : same_oracles e e' -> same_oracles e' e.
Proof. intros [H1 H2 H3 H4 H5 H6 H7]. constructor; symmetry; assumption. Qed.
Lemma same_oracles_eta e e' : same_oracles e e' ->
  e' = with_locks e (e_locktime e') (e_sequence e') (e_txversion e').
Proof. intros [H1 H2 H3 H4 H5 H6 H7]. destruct e, e'; cbn in *. subst. reflexivity. Qed.

(* the lock checks recorded on a trace *)
Fixpoint abs_evs (tr : list event) : list N :=
  match tr with [] => [] | TAbs n :: r => n :: abs_evs r | _ :: r => abs_evs r end.
Fixpoint rel_evs (tr : list event) : list N :=
  match tr with [] => [] | TRel n :: r => n :: rel_evs r | _ :: r => rel_evs r end.

Lemma abs_evs_app t1 t2 : abs_evs (t1 ++ t2) = abs_evs t1 ++ abs_evs t2.
Proof. induction t1 as [|ev r IH]; [reflexivity|]. destruct ev; cbn [app abs_evs]; rewrite IH; reflexivity. Qed.
Lemma rel_evs_app t1 t2 : rel_evs (t1 ++ t2) = rel_evs t1 ++ rel_evs t2.
Proof. induction t1 as [|ev r IH]; [reflexivity|]. destruct ev; cbn [app rel_evs]; rewrite IH; reflexivity. Qed.
Lemma abs_evs_in tr n : In n (abs_evs tr) <-> In (TAbs n) tr.
Proof.
  induction tr as [|ev r IH]; [tauto|]. destruct ev; cbn [abs_evs In]; rewrite IH; split; intros H;
  try (right; exact H); try (destruct H as [H|H]; [discriminate | exact H]).
  - destruct H as [->|H]; auto.
  - destruct H as [H|H]; [inversion H; auto | auto].
Qed.
Lemma rel_evs_in tr n : In n (rel_evs tr) <-> In (TRel n) tr.
Proof.
  induction tr as [|ev r IH]; [tauto|]. destruct ev; cbn [rel_evs In]; rewrite IH; split; intros H;
  try (right; exact H); try (destruct H as [H|H]; [discriminate | exact H]).
  - destruct H as [->|H]; auto.
  - destruct H as [H|H]; [inversion H; auto | auto].
Qed.

(* does environment [e] pass the lock check an event stands for *)
Definition ev_ok (e : env) (ev : event) : bool :=
  match ev with
  | TAbs n => check_locktime e (Z.of_N n)
  | TRel n => check_sequence e (Z.of_N n)
  | _ => true
  end.
Definition evs_ok (e : env) (tr : list event) : bool := forallb (ev_ok e) tr.

Lemma evs_ok_app e t1 t2 : evs_ok e (t1 ++ t2) = evs_ok e t1 && evs_ok e t2.
Proof. apply forallb_app. Qed.

Lemma evs_ok_iff e tr : evs_ok e tr = true <->
  (forall n, In n (abs_evs tr) -> check_locktime e (Z.of_N n) = true) /\
  (forall n, In n (rel_evs tr) -> check_sequence e (Z.of_N n) = true).
Proof.
  unfold evs_ok. rewrite forallb_forall. split.
  - intros H. split; intros n Hn; [apply abs_evs_in in Hn | apply rel_evs_in in Hn]; exact (H _ Hn).
  - intros [Ha Hr] ev Hev. destruct ev; try reflexivity; cbn [ev_ok].
    + apply Ha, abs_evs_in, Hev.
    + apply Hr, rel_evs_in, Hev.
Qed.

Definition is_lock_op (o : opcode) : bool := match o with OP_CLTV | OP_CSV => true | _ => false end.

Lemma forallb_map_tsig e (l : list (bytes * bytes)) :
  forallb (ev_ok e) (map (fun p => TSig (fst p) (snd p)) l) = true.
Proof. induction l as [|p r IH]; [reflexivity | exact IH]. Qed.

Lemma op_events_nolock e e' o st : is_lock_op o = false -> evs_ok e' (op_events e o st) = true.
Proof.
  intros Ho. unfold evs_ok, op_events. destruct o; try discriminate; try reflexivity;
  repeat match goal with
  | |- forallb _ (map _ _) = true => apply forallb_map_tsig
  | |- context [match ?x with _ => _ end] => destruct x
  | |- context [if ?x then _ else _] => destruct x
  end; reflexivity.
Qed.

Lemma mm_unfold' e kbs K s S :
  multisig_match e (kbs :: K) (s :: S) =
  if Nat.ltb (length (kbs :: K)) (length (s :: S)) then false
  else if e_sigok e kbs s then multisig_match e K S else multisig_match e K (s :: S).
Proof.
  cbn [multisig_match]. destruct (Nat.ltb _ _); [reflexivity|]. destruct (e_sigok e kbs s); [reflexivity|].
  destruct K; reflexivity.
Qed.
Lemma mm_same e e' : e_sigok e' = e_sigok e -> forall K S, multisig_match e' K S = multisig_match e K S.
Proof.
  intros H. induction K as [|k kr IH]; intros S; [destruct S; reflexivity|].
  destruct S as [|s r]; [reflexivity|]. rewrite !mm_unfold', H, !IH. reflexivity.
Qed.

Section Factor.
  Variable e e' : env.
  Hypothesis SO : same_oracles e e'.

  Lemma if_cond_same v : if_cond e' v = if_cond e v.
  Proof. unfold if_cond. rewrite (so_sv _ _ SO). reflexivity. Qed.

  Lemma exec_op_nolock o st : is_lock_op o = false -> exec_op e' o st = exec_op e o st.
  Proof.
    intros Ho. rewrite (same_oracles_eta _ _ SO).
    destruct o; try discriminate; try reflexivity;
    (cbn [exec_op]; unfold with_locks at 1; cbn [e_sv];
     destruct (e_sv e); try reflexivity;
     destruct (stk st) as [|nb r1]; try reflexivity;
     destruct (num_operand 4 nb) as [n|]; try reflexivity;
     destruct ((n <? 0) || (20 <? n))%Z; try reflexivity;
     destruct (take_n (Z.to_nat n) r1) as [[keys_rev r2]|]; try reflexivity;
     destruct r2 as [|mb r3]; try reflexivity;
     destruct (num_operand 4 mb) as [m|]; try reflexivity;
     destruct ((m <? 0) || (n <? m))%Z; try reflexivity;
     destruct (take_n (Z.to_nat m) r3) as [[sigs_rev r4]|]; try reflexivity;
     destruct r4 as [|dummy r5]; try reflexivity;
     destruct dummy; try reflexivity;
     rewrite (mm_same e (with_locks e (e_locktime e') (e_sequence e') (e_txversion e')) eq_refl);
     reflexivity).
  Qed.

  Lemma exec_op_factor o st st1 : exec_op e o st = Ok st1 ->
    exec_op e' o st = if evs_ok e' (op_events e o st) then Ok st1 else Fail.
  Proof.
    intros H. destruct (is_lock_op o) eqn:Ho.
    - destruct o; try discriminate; cbn [exec_op op_events] in *; destruct (stk st) as [|v r]; try discriminate;
      destruct (num_operand 5 v) as [n|]; try discriminate.
      + destruct (check_locktime e n) eqn:Ec; [|discriminate]. inversion H; subst.
        assert (Hn : (0 <= n)%Z).
        { unfold check_locktime in Ec. apply andb_prop in Ec. destruct Ec as [Ec _]. apply Z.leb_le in Ec. exact Ec. }
        unfold evs_ok. cbn [forallb ev_ok]. rewrite Z2N.id by exact Hn. rewrite Bool.andb_true_r. reflexivity.
      + destruct (check_sequence e n) eqn:Ec; [|discriminate]. inversion H; subst.
        assert (Hn : (0 <= n)%Z).
        { unfold check_sequence in Ec. apply andb_prop in Ec. destruct Ec as [Ec _]. apply Z.leb_le in Ec. exact Ec. }
        destruct (N.eqb (N.land (Z.to_N n) SEQ_DISABLE) 0) eqn:Ed.
        * unfold evs_ok. cbn [forallb ev_ok]. rewrite Z2N.id by exact Hn. rewrite Bool.andb_true_r. reflexivity.
        * (* disabled operand: a no-op in every environment *)
          cbn [evs_ok forallb]. unfold check_sequence. replace (0 <=? n)%Z with true by (symmetry; apply Z.leb_le; exact Hn).
          cbn [andb]. rewrite Ed. reflexivity.
    - rewrite (op_events_nolock e e' o st Ho), (exec_op_nolock o st Ho). exact H.
  Qed.

  Definition instr_factor (i : instr) : Prop := forall st st1, exec_instr e i st = Ok st1 ->
    exec_instr e' i st = if evs_ok e' (tr_instr e i st) then Ok st1 else Fail.

  Lemma script_factor_of l : Forall instr_factor l -> forall st st1, exec e l st = Ok st1 ->
    exec e' l st = if evs_ok e' (tr_script e l st) then Ok st1 else Fail.
  Proof.
    induction 1 as [|i r Hi Hr IH]; intros st st1 H; cbn [exec tr_script] in *.
    - inversion H; subst. reflexivity.
    - destruct (exec_instr e i st) as [s1|] eqn:Ei; [|discriminate]. cbn [bind] in H.
      rewrite (Hi st s1 Ei), evs_ok_app. destruct (evs_ok e' (tr_instr e i st)); cbn [bind andb]; [|reflexivity].
      exact (IH s1 st1 H).
  Qed.

  Lemma instr_factor_all : forall i, instr_factor i.
  Proof.
    induction i using instr_ind'; intros st st1 Hx.
    - cbn in *. exact Hx.
    - cbn in *. exact Hx.
    - cbn [exec_instr tr_instr] in *. apply exec_op_factor. exact Hx.
    - rewrite exec_if in *. rewrite tr_if. destruct (stk st) as [|v r]; [discriminate|].
      rewrite if_cond_same. destruct (if_cond e v) as [c|]; [|discriminate].
      destruct (xorb c neg); [apply script_factor_of; assumption | exact Hx].
    - rewrite exec_if in *. rewrite tr_if. destruct (stk st) as [|v r]; [discriminate|].
      rewrite if_cond_same. destruct (if_cond e v) as [c|]; [|discriminate].
      destruct (xorb c neg); apply script_factor_of; assumption.
  Qed.

  (* the factorisation: under e' the run is the run under e when all executed lock checks pass, Fail otherwise *)
  Theorem exec_lock_factor s st st1 : exec e s st = Ok st1 ->
    exec e' s st = if evs_ok e' (tr_script e s st) then Ok st1 else Fail.
  Proof. apply script_factor_of. apply Forall_forall. intros i _. apply instr_factor_all. Qed.

  Corollary exec_lock_fail_abs s st st1 n : exec e s st = Ok st1 ->
    In n (abs_evs (tr_script e s st)) -> check_locktime e' (Z.of_N n) = false -> exec e' s st = Fail.
  Proof.
    intros H Hin Hc. rewrite (exec_lock_factor s st st1 H).
    destruct (evs_ok e' (tr_script e s st)) eqn:E; [|reflexivity].
    apply evs_ok_iff in E. destruct E as [Ea _]. rewrite (Ea n Hin) in Hc. discriminate.
  Qed.
  Corollary exec_lock_fail_rel s st st1 n : exec e s st = Ok st1 ->
    In n (rel_evs (tr_script e s st)) -> check_sequence e' (Z.of_N n) = false -> exec e' s st = Fail.
  Proof.
    intros H Hin Hc. rewrite (exec_lock_factor s st st1 H).
    destruct (evs_ok e' (tr_script e s st)) eqn:E; [|reflexivity].
    apply evs_ok_iff in E. destruct E as [_ Er]. rewrite (Er n Hin) in Hc. discriminate.
  Qed.
  Corollary exec_lock_same s st st1 : exec e s st = Ok st1 ->
    evs_ok e' (tr_script e s st) = true -> exec e' s st = Ok st1.
  Proof. intros H E. rewrite (exec_lock_factor s st st1 H), E. reflexivity. Qed.
End Factor.

(* a script without CLTV / CSV opcodes records no lock event, whatever the stack *)
Fixpoint instr_lockfree (i : instr) : bool :=
  match i with
  | IOp o => negb (is_lock_op o)
  | IIf _ thn els =>
    (fix go (l : list instr) : bool := match l with [] => true | j :: r => instr_lockfree j && go r end) thn
    && match els with
       | Some el => (fix go (l : list instr) : bool := match l with [] => true | j :: r => instr_lockfree j && go r end) el
       | None => true
       end
  | _ => true
  end.
Definition script_lockfree (s : script) : bool := forallb instr_lockfree s.

Lemma instr_lockfree_if neg thn els :
  instr_lockfree (IIf neg thn els) = script_lockfree thn && match els with Some el => script_lockfree el | None => true end.
Proof.
  cbn [instr_lockfree].
  assert (H : forall l, (fix go (l : list instr) : bool := match l with [] => true | j :: r => instr_lockfree j && go r end) l = script_lockfree l).
  { unfold script_lockfree. induction l as [|j r IH]; [reflexivity|]. cbn [forallb]. rewrite <- IH. reflexivity. }
  rewrite (H thn). destruct els as [el|]; [rewrite (H el)|]; reflexivity.
Qed.

Definition no_lock_evs (tr : list event) : Prop := abs_evs tr = [] /\ rel_evs tr = [].
Lemma no_lock_evs_app t1 t2 : no_lock_evs t1 -> no_lock_evs t2 -> no_lock_evs (t1 ++ t2).
Proof. intros [H1 H2] [H3 H4]. split; [rewrite abs_evs_app, H1, H3 | rewrite rel_evs_app, H2, H4]; reflexivity. Qed.
Lemma no_lock_evs_nil : no_lock_evs [].
Proof. split; reflexivity. Qed.

Lemma op_events_lockfree e o st : is_lock_op o = false -> no_lock_evs (op_events e o st).
Proof.
  intros Ho. unfold op_events. destruct o; try discriminate; try apply no_lock_evs_nil;
  repeat match goal with
  | |- no_lock_evs (map _ ?l) => induction l; [apply no_lock_evs_nil | assumption]
  | |- context [match ?x with _ => _ end] => destruct x
  | |- context [if ?x then _ else _] => destruct x
  end; split; reflexivity.
Qed.

Lemma lockfree_script_of e l : Forall (fun i => instr_lockfree i = true -> forall st, no_lock_evs (tr_instr e i st)) l ->
  script_lockfree l = true -> forall st, no_lock_evs (tr_script e l st).
Proof.
  induction 1 as [|i r Hi Hr IH]; intros Hl st; [apply no_lock_evs_nil|].
  cbn [script_lockfree forallb] in Hl. apply andb_prop in Hl. destruct Hl as [H1 H2]. cbn [tr_script].
  apply no_lock_evs_app; [apply Hi, H1|]. destruct (exec_instr e i st); [apply IH, H2 | apply no_lock_evs_nil].
Qed.

Lemma lockfree_instr e : forall i, instr_lockfree i = true -> forall st, no_lock_evs (tr_instr e i st).
Proof.
  induction i using instr_ind'; intros Hl st; try apply no_lock_evs_nil.
  - cbn [tr_instr]. apply op_events_lockfree. cbn in Hl. destruct (is_lock_op o); [discriminate | reflexivity].
  - rewrite instr_lockfree_if in Hl. apply andb_prop in Hl. destruct Hl as [H1 _]. rewrite tr_if.
    destruct (stk st) as [|v r]; [apply no_lock_evs_nil|]. destruct (if_cond e v) as [c|]; [|apply no_lock_evs_nil].
    destruct (xorb c neg); [apply lockfree_script_of; assumption | apply no_lock_evs_nil].
  - rewrite instr_lockfree_if in Hl. apply andb_prop in Hl. destruct Hl as [H1 H2]. rewrite tr_if.
    destruct (stk st) as [|v r]; [apply no_lock_evs_nil|]. destruct (if_cond e v) as [c|]; [|apply no_lock_evs_nil].
    destruct (xorb c neg); apply lockfree_script_of; assumption.
Qed.

Theorem lockfree_no_lock_evs e s st : script_lockfree s = true -> no_lock_evs (tr_script e s st).
Proof.
  intros H. apply lockfree_script_of; [|exact H]. apply Forall_forall. intros i _. apply lockfree_instr.
Qed.
