(* C07 — proofs about the lift model (coq/Ms/LiftModel.v).
   lift_raw_table / lift_table : the lifted policy's truth value equals non-emptiness of the
     specification's satisfaction table, for every well-typed fragment of every base type,
     every asset record; mutually: every `d` fragment has a dissatisfaction in the table.
   normalized_leval : Policy::normalized preserves the truth table (on policies obeying the
     Threshold invariant), and preserves the invariant.
   lift_iter_refines : the iterative stack machine equals the recursive fold, never panics.
   lift_desc_table : descriptor wrappers, taproot key \/ leaves. *)
From Verif Require Import Exec Ser Ast Types TypeCheck SatSpec LiftModel TheoremA.
From Coq Require Import Lia Permutation.

(* ---------- induction principle for the nested policy tree ---------- *)
Section LpInd.
  Variable P : lpolicy -> Prop.
  Hypothesis HU : P LUnsat. Hypothesis HT : P LTrivial.
  Hypothesis HK : forall k, P (LKey k).
  Hypothesis HA : forall t, P (LAfter t). Hypothesis HO : forall t, P (LOlder t).
  Hypothesis HS : forall h, P (LSha256 h). Hypothesis HH : forall h, P (LHash256 h).
  Hypothesis HR : forall h, P (LRipemd160 h). Hypothesis HH1 : forall h, P (LHash160 h).
  Hypothesis HTh : forall k ps, Forall P ps -> P (LThresh k ps).
  Fixpoint lpolicy_ind' (p : lpolicy) : P p :=
    match p with
    | LUnsat => HU | LTrivial => HT | LKey k => HK k | LAfter t => HA t | LOlder t => HO t
    | LSha256 h => HS h | LHash256 h => HH h | LRipemd160 h => HR h | LHash160 h => HH1 h
    | LThresh k ps =>
      HTh k ps ((fix go (l : list lpolicy) : Forall P l :=
                   match l with [] => Forall_nil P | x :: r => Forall_cons x (lpolicy_ind' x) (go r) end) ps)
    end.
End LpInd.

(* ---------- non-emptiness algebra ---------- *)
Lemma ne_app {X} (a b : list X) : nonempty (a ++ b) = nonempty a || nonempty b.
Proof. destruct a; reflexivity. Qed.
Lemma ne_map {X Y} (f : X -> Y) l : nonempty (map f l) = nonempty l.
Proof. destruct l; reflexivity. Qed.
Lemma ne_map_w (f : wit -> wit) (l : list wit) : @nonempty wit (map f l) = @nonempty wit l.
Proof. destruct l; reflexivity. Qed.
Lemma ne_cross a b : nonempty (cross a b) = nonempty a && nonempty b.
Proof.
  unfold cross. induction a as [|x r IH]; [reflexivity|].
  cbn [flat_map]. rewrite ne_app, ne_map, IH. destruct b, r; reflexivity.
Qed.
Lemma ne_opt_list {X Y} (f : X -> Y) (o : option X) : nonempty (map f (opt_list o)) = is_some o.
Proof. destruct o; reflexivity. Qed.

Lemma count_true_cons b l : count_true (b :: l) = if b then S (count_true l) else count_true l.
Proof. unfold count_true. cbn. destruct b; reflexivity. Qed.
Lemma count_true_le l : (count_true l <= length l)%nat.
Proof. induction l as [|b r IH]; [cbn; lia|]. rewrite count_true_cons. destruct b; cbn [length]; lia. Qed.
Lemma count_true_perm {X} (f : X -> bool) l l' : Permutation l l' -> count_true (map f l) = count_true (map f l').
Proof.
  induction 1 as [|x l l' _ IH|x y l|l l' l'' _ IH1 _ IH2]; cbn [map].
  - reflexivity.
  - rewrite !count_true_cons, IH. reflexivity.
  - rewrite !count_true_cons. destruct (f x), (f y); reflexivity.
  - congruence.
Qed.
Lemma leb_len_forallb {X} (f : X -> bool) l : Nat.leb (length l) (count_true (map f l)) = forallb f l.
Proof.
  induction l as [|x r IH]; [reflexivity|]. cbn [map length forallb]. rewrite count_true_cons.
  destruct (f x); cbn [andb].
  - exact IH.
  - pose proof (count_true_le (map f r)) as H. rewrite map_length in H. apply Nat.leb_gt. lia.
Qed.
Lemma leb_one_existsb {X} (f : X -> bool) l : Nat.leb 1 (count_true (map f l)) = existsb f l.
Proof.
  induction l as [|x r IH]; [reflexivity|]. cbn [map existsb]. rewrite count_true_cons.
  destruct (f x); cbn [orb]; [reflexivity | exact IH].
Qed.

Lemma leb_step k c : Nat.leb k c || Nat.leb (S k) c = Nat.leb (S k) (S c).
Proof.
  change (Nat.leb (S k) (S c)) with (Nat.leb k c). destruct (Nat.leb k c) eqn:E; [reflexivity|].
  apply Nat.leb_gt in E. cbn [orb]. apply Nat.leb_gt. lia.
Qed.

(* thresh: "some k-subset is satisfied and the rest dissatisfied" <-> "at least k children satisfiable",
   provided every child has a dissatisfaction *)
Lemma ne_thresh_comb cs : forallb (fun c => nonempty (snd c)) cs = true ->
  forall k, nonempty (thresh_comb k cs) = Nat.leb k (count_true (map (fun c => nonempty (fst c)) cs)).
Proof.
  induction cs as [|[s d] r IH]; intros Hd k.
  - destruct k; reflexivity.
  - cbn [forallb snd] in Hd. apply andb_prop in Hd. destruct Hd as [Hd Hr].
    cbn [thresh_comb map fst]. rewrite ne_app, ne_cross, Hd, count_true_cons. cbn [andb].
    rewrite (IH Hr k). destruct k as [|k'].
    + cbn. reflexivity.
    + rewrite ne_cross, (IH Hr k'). destruct (nonempty s); cbn [andb orb].
      * apply leb_step.
      * reflexivity.
Qed.

(* multisig: "some k of the keys have signatures" <-> "at least k keys have signatures" *)
Lemma ne_pick_sigs A ks : forall k,
  nonempty (pick_sigs A k ks) = Nat.leb k (count_true (map (fun key => is_some (a_sig A key)) ks)).
Proof.
  induction ks as [|key r IH]; intros k.
  - destruct k; reflexivity.
  - cbn [pick_sigs map]. rewrite ne_app, count_true_cons, IH. destruct k as [|k'].
    + reflexivity.
    + destruct (a_sig A key) as [sg|]; cbn [is_some orb nonempty].
      * rewrite ne_map, IH. apply leb_step.
      * reflexivity.
Qed.
Lemma ne_pick_sigs_a A ks : forall k,
  nonempty (pick_sigs_a A k ks) = Nat.leb k (count_true (map (fun key => is_some (a_sig A key)) ks)).
Proof.
  induction ks as [|key r IH]; intros k.
  - destruct k; reflexivity.
  - cbn [pick_sigs_a map]. rewrite ne_app, count_true_cons, ne_map, IH. destruct k as [|k'].
    + reflexivity.
    + destruct (a_sig A key) as [sg|]; cbn [is_some orb nonempty].
      * rewrite ne_map, IH. apply leb_step.
      * reflexivity.
Qed.

(* ---------- what the typing rules say about `d` ---------- *)
Ltac dty t := let b := fresh "b" in let i := fresh "i" in let d := fresh "d" in let u := fresh "u" in
              let m := fresh "m" in destruct t as [[b i d u] m].
Ltac unfc H := unfold t_cast_alt, t_cast_swap, t_cast_check, t_cast_dupif, t_cast_verify, t_cast_nonzero,
    t_cast_zeronotequal, t_and_v, t_and_b, t_or_b, t_or_c, t_or_d, t_or_i, t_and_or, lift1, lift2,
    c_cast_alt, c_cast_swap, c_cast_check, c_cast_dupif, c_cast_verify, c_cast_nonzero, c_cast_zeronotequal,
    c_and_v, c_and_b, c_or_b, c_or_c, c_or_d, c_or_i, c_and_or in H; cbn [t_corr t_mall c_base c_input c_dissat c_unit] in H.
Ltac fin H := cbn in H; try discriminate H; inversion H; subst; cbn; auto.

Lemma d_alt tx t : t_cast_alt tx = ROk t -> c_dissat (t_corr t) = c_dissat (t_corr tx).
Proof. dty tx. intros H. unfc H. destruct b; fin H. Qed.
Lemma d_swap tx t : t_cast_swap tx = ROk t -> c_dissat (t_corr t) = c_dissat (t_corr tx).
Proof. dty tx. intros H. unfc H. destruct b, i; fin H. Qed.
Lemma d_check tx t : t_cast_check tx = ROk t -> c_dissat (t_corr t) = c_dissat (t_corr tx).
Proof. dty tx. intros H. unfc H. destruct b; fin H. Qed.
Lemma d_zne tx t : t_cast_zeronotequal tx = ROk t -> c_dissat (t_corr t) = c_dissat (t_corr tx).
Proof. dty tx. intros H. unfc H. destruct b; fin H. Qed.
Lemma d_verify tx t : t_cast_verify tx = ROk t -> c_dissat (t_corr t) = false.
Proof. dty tx. intros H. unfc H. destruct b; fin H. Qed.
Lemma d_and_v tx ty0 t : t_and_v tx ty0 = ROk t -> c_dissat (t_corr t) = false.
Proof. dty tx. dty ty0. intros H. unfc H. destruct b, b0; fin H. Qed.
Lemma d_and_b tx ty0 t : t_and_b tx ty0 = ROk t -> c_dissat (t_corr t) = c_dissat (t_corr tx) && c_dissat (t_corr ty0).
Proof. dty tx. dty ty0. intros H. unfc H. destruct b, b0; fin H. Qed.
Lemma d_or_b tx ty0 t : t_or_b tx ty0 = ROk t -> c_dissat (t_corr tx) = true /\ c_dissat (t_corr ty0) = true.
Proof. dty tx. dty ty0. intros H. unfc H. destruct d, d0; fin H. Qed.
Lemma d_or_c tx ty0 t : t_or_c tx ty0 = ROk t -> c_dissat (t_corr tx) = true /\ c_dissat (t_corr t) = false.
Proof. dty tx. dty ty0. intros H. unfc H. destruct d, u, b, b0; fin H. Qed.
Lemma d_or_d tx ty0 t : t_or_d tx ty0 = ROk t ->
  c_dissat (t_corr tx) = true /\ c_dissat (t_corr t) = c_dissat (t_corr ty0).
Proof. dty tx. dty ty0. intros H. unfc H. destruct d, u, b, b0; fin H. Qed.
Lemma d_or_i tx ty0 t : t_or_i tx ty0 = ROk t ->
  c_dissat (t_corr t) = c_dissat (t_corr tx) || c_dissat (t_corr ty0).
Proof. dty tx. dty ty0. intros H. unfc H. destruct b, b0; fin H. Qed.
Lemma d_and_or ta tb tc t : t_and_or ta tb tc = ROk t ->
  c_dissat (t_corr ta) = true /\ c_dissat (t_corr t) = c_dissat (t_corr tc).
Proof.
  dty ta. dty tb. dty tc. intros H. unfc H. destruct d, u; try (cbn in H; discriminate H).
  cbn [negb] in H. destruct b, b0, b1; fin H.
Qed.
Lemma c_thresh_loop_d subs : forall i n r, c_thresh_loop i n subs = ROk r -> Forall (fun c => c_dissat c = true) subs.
Proof.
  induction subs as [|s rest IH]; intros i n r H; [constructor|].
  cbn [c_thresh_loop] in H.
  repeat match type of H with (if ?c then _ else _) = ROk _ => destruct c eqn:?; [discriminate H|] end.
  constructor; [|eapply IH; exact H].
  destruct (c_dissat s); [reflexivity | discriminate].
Qed.
Lemma d_threshold k ts t : t_threshold k ts = ROk t -> Forall (fun x => c_dissat (t_corr x) = true) ts.
Proof.
  unfold t_threshold, c_threshold. intros H.
  destruct (c_thresh_loop 0 0 (map t_corr ts)) as [n|err] eqn:E; [|discriminate].
  apply c_thresh_loop_d in E. clear H. induction ts as [|x r IH]; [constructor|].
  inversion E; subst. constructor; auto.
Qed.

(* ---------- unfolding the table ---------- *)
Section Table.
  Variable ke : keyenv.
  Variable A : assets.
  (* BIP67 sorting only reorders the keys *)
  Hypothesis Hsort : forall ks, Permutation (ksort ke ks) ks.

  Notation sat m := (all_sat ke A m).
  Notation dsat m := (all_dsat ke A m).

  Lemma t_sat_and_v x y : sat (MAndV x y) = cross (sat x) (sat y).
  Proof. unfold all_sat. cbn [sd]. destruct (sd ke A x), (sd ke A y). reflexivity. Qed.
  Lemma t_sd_and_b x y : sd ke A (MAndB x y) = (cross (sat x) (sat y), cross (dsat x) (dsat y)).
  Proof. unfold all_sat, all_dsat. cbn [sd]. destruct (sd ke A x), (sd ke A y). reflexivity. Qed.
  Lemma t_sd_or_b x z : sd ke A (MOrB x z) =
    (cross (dsat x) (sat z) ++ cross (sat x) (dsat z), cross (dsat x) (dsat z)).
  Proof. unfold all_sat, all_dsat. cbn [sd]. destruct (sd ke A x), (sd ke A z). reflexivity. Qed.
  Lemma t_sat_or_c x z : sat (MOrC x z) = sat x ++ cross (dsat x) (sat z).
  Proof. unfold all_sat, all_dsat. cbn [sd]. destruct (sd ke A x), (sd ke A z). reflexivity. Qed.
  Lemma t_sd_or_d x z : sd ke A (MOrD x z) = (sat x ++ cross (dsat x) (sat z), cross (dsat x) (dsat z)).
  Proof. unfold all_sat, all_dsat. cbn [sd]. destruct (sd ke A x), (sd ke A z). reflexivity. Qed.
  Lemma t_sd_or_i x z : sd ke A (MOrI x z) =
    (map (cons [1%N]) (sat x) ++ map (cons []) (sat z), map (cons [1%N]) (dsat x) ++ map (cons []) (dsat z)).
  Proof. unfold all_sat, all_dsat. cbn [sd]. destruct (sd ke A x), (sd ke A z). reflexivity. Qed.
  Lemma t_sd_andor a b c : sd ke A (MAndOr a b c) =
    (cross (sat a) (sat b) ++ cross (dsat a) (sat c), cross (dsat a) (dsat c)).
  Proof. unfold all_sat, all_dsat. cbn [sd]. destruct (sd ke A a), (sd ke A b), (sd ke A c). reflexivity. Qed.
  Lemma t_sd_thresh k xs : sd ke A (MThresh k xs) =
    (thresh_comb (N.to_nat k) (map (sd ke A) xs), thresh_comb 0 (map (sd ke A) xs)).
  Proof.
    cbn [sd].
    assert (H : (fix go (l : list ms) : list (list wit * list wit) :=
                   match l with [] => [] | x :: r => sd ke A x :: go r end) xs = map (sd ke A) xs).
    { induction xs as [|x r IH]; [reflexivity|]. cbn [map]. rewrite <- IH. reflexivity. }
    rewrite H. reflexivity.
  Qed.

  Lemma leval_and2 a b : leval A (LThresh 2 [a; b]) = leval A a && leval A b.
  Proof. cbn [leval map]. change (N.to_nat 2) with 2%nat. rewrite !count_true_cons.
    destruct (leval A a), (leval A b); reflexivity. Qed.
  Lemma leval_or2 a b : leval A (LThresh 1 [a; b]) = leval A a || leval A b.
  Proof. cbn [leval map]. change (N.to_nat 1) with 1%nat. rewrite !count_true_cons.
    destruct (leval A a), (leval A b); reflexivity. Qed.

  Definition lifts (xs : list ms) : option (list lpolicy) :=
    (fix go (l : list ms) : option (list lpolicy) :=
       match l with
       | [] => Some []
       | x :: r => obind (lift_raw x) (fun p => obind (go r) (fun ps => Some (p :: ps)))
       end) xs.
  Lemma lifts_cons x r : lifts (x :: r) = obind (lift_raw x) (fun p => obind (lifts r) (fun ps => Some (p :: ps))).
  Proof. reflexivity. Qed.
  Lemma lifts_ok xs : forall ps, lifts xs = Some ps -> Forall2 (fun x p => lift_raw x = Some p) xs ps.
  Proof.
    induction xs as [|x r IH]; intros ps H.
    - inversion H. constructor.
    - rewrite lifts_cons in H. destruct (lift_raw x) as [p|] eqn:Ex; [|discriminate].
      cbn [obind] in H. destruct (lifts r) as [ps'|] eqn:Er; [|discriminate]. inversion H; subst.
      constructor; [exact Ex | apply IH; reflexivity].
  Qed.
  Lemma lift_raw_thresh k xs : lift_raw (MThresh k xs) = obind (lifts xs) (fun ps => Some (LThresh k ps)).
  Proof. reflexivity. Qed.

  Lemma obind_some {X Y} (o : option X) (f : X -> option Y) y : obind o f = Some y -> exists a, o = Some a /\ f a = Some y.
  Proof. destruct o as [a|]; cbn; [eauto | discriminate]. Qed.

  (* the mutual statement *)
  Definition tbl (m : ms) : Prop :=
    forall t p, type_of m = ROk t -> lift_raw m = Some p ->
      leval A p = nonempty (sat m) /\ (c_dissat (t_corr t) = true -> nonempty (dsat m) = true).

  Ltac inv1 Ht tx Hx Hc := cbn [type_of] in Ht; apply rbind_ok in Ht; destruct Ht as [tx [Hx Hc]].
  Ltac inv2 Ht tx ty0 Hx Hy Hc :=
    cbn [type_of] in Ht; apply rbind_ok in Ht; destruct Ht as [tx [Hx Ht]];
    apply rbind_ok in Ht; destruct Ht as [ty0 [Hy Hc]].
  Ltac invl2 Hl a b Ha Hb :=
    cbn [lift_raw] in Hl; apply obind_some in Hl; destruct Hl as [a [Ha Hl]];
    apply obind_some in Hl; destruct Hl as [b [Hb Hl]]; inversion Hl; subst; clear Hl.

  Lemma thresh_children xs : Forall tbl xs -> forall ts ps,
    Forall2 (fun x t => type_of x = ROk t) xs ts -> Forall2 (fun x p => lift_raw x = Some p) xs ps ->
    Forall (fun t => c_dissat (t_corr t) = true) ts ->
    map (leval A) ps = map (fun c => nonempty (fst c)) (map (sd ke A) xs) /\
    forallb (fun c => nonempty (snd c)) (map (sd ke A) xs) = true.
  Proof.
    induction 1 as [|x r Hx Hr IH]; intros ts ps Ht Hp Hd.
    - inversion Hp. split; reflexivity.
    - inversion Ht as [|x' t r' ts' Hxt Hrt]; subst. inversion Hp as [|x' p r' ps' Hxp Hrp]; subst.
      inversion Hd as [|t' ts'' Hdt Hdr]; subst.
      destruct (Hx t p Hxt Hxp) as [H1 H2]. destruct (IH ts' ps' Hrt Hrp Hdr) as [H3 H4].
      cbn [map forallb]. split.
      + f_equal; [exact H1 | exact H3].
      + unfold all_dsat in H2. rewrite (H2 Hdt), H4. reflexivity.
  Qed.

  Theorem lift_raw_table : forall m, tbl m.
  Proof.
    induction m using ms_ind'; intros tt p Ht Hl.
    - (* 1 *) inversion Ht; inversion Hl; subst. split; [reflexivity | discriminate].
    - (* 0 *) inversion Ht; inversion Hl; subst. split; reflexivity.
    - (* pk_k *) inversion Ht; inversion Hl; subst. split; [|reflexivity].
      cbn. destruct (a_sig A k); reflexivity.
    - (* pk_h *) inversion Ht; inversion Hl; subst. split; [|reflexivity].
      cbn. destruct (a_sig A k); reflexivity.
    - (* raw_pk_h *) discriminate Hl.
    - (* after *) inversion Ht; inversion Hl; subst. split; [|discriminate].
      cbn. destruct (a_after A t); reflexivity.
    - (* older *) inversion Ht; inversion Hl; subst. split; [|discriminate].
      cbn. destruct (a_older A t); reflexivity.
    - inversion Ht; inversion Hl; subst. split; [|reflexivity]. cbn. destruct (a_sha256 A h); reflexivity.
    - inversion Ht; inversion Hl; subst. split; [|reflexivity]. cbn. destruct (a_hash256 A h); reflexivity.
    - inversion Ht; inversion Hl; subst. split; [|reflexivity]. cbn. destruct (a_ripemd160 A h); reflexivity.
    - inversion Ht; inversion Hl; subst. split; [|reflexivity]. cbn. destruct (a_hash160 A h); reflexivity.
    - (* a: *) inv1 Ht tx Hx Hc. destruct (IHm tx p Hx Hl) as [H1 H2]. rewrite (d_alt _ _ Hc). split; assumption.
    - (* s: *) inv1 Ht tx Hx Hc. destruct (IHm tx p Hx Hl) as [H1 H2]. rewrite (d_swap _ _ Hc). split; assumption.
    - (* c: *) inv1 Ht tx Hx Hc. destruct (IHm tx p Hx Hl) as [H1 H2]. rewrite (d_check _ _ Hc). split; assumption.
    - (* d: *) inv1 Ht tx Hx Hc. destruct (IHm tx p Hx Hl) as [H1 H2]. split; [|reflexivity].
      unfold all_sat. cbn [sd fst]. rewrite ne_map. exact H1.
    - (* v: *) inv1 Ht tx Hx Hc. destruct (IHm tx p Hx Hl) as [H1 H2]. rewrite (d_verify _ _ Hc).
      split; [exact H1 | discriminate].
    - (* j: *) inv1 Ht tx Hx Hc. destruct (IHm tx p Hx Hl) as [H1 H2]. split; [exact H1 | reflexivity].
    - (* n: *) inv1 Ht tx Hx Hc. destruct (IHm tx p Hx Hl) as [H1 H2]. rewrite (d_zne _ _ Hc). split; assumption.
    - (* and_v *) inv2 Ht tx ty0 Hx Hy Hc. invl2 Hl a b Ha Hb.
      destruct (IHm1 tx a Hx Ha) as [H1 _]. destruct (IHm2 ty0 b Hy Hb) as [H3 _].
      rewrite (d_and_v _ _ _ Hc). split; [|discriminate].
      rewrite leval_and2, t_sat_and_v, ne_cross, H1, H3. reflexivity.
    - (* and_b *) inv2 Ht tx ty0 Hx Hy Hc. invl2 Hl a b Ha Hb.
      destruct (IHm1 tx a Hx Ha) as [H1 H2]. destruct (IHm2 ty0 b Hy Hb) as [H3 H4].
      rewrite (d_and_b _ _ _ Hc). unfold all_sat, all_dsat. rewrite t_sd_and_b. cbn [fst snd]. split.
      + rewrite leval_and2, ne_cross, H1, H3. reflexivity.
      + intros Hd. apply andb_prop in Hd. destruct Hd as [Hd1 Hd2]. rewrite ne_cross, (H2 Hd1), (H4 Hd2). reflexivity.
    - (* andor *) cbn [type_of] in Ht. apply rbind_ok in Ht. destruct Ht as [ta [Hta Ht]].
      apply rbind_ok in Ht. destruct Ht as [tb [Htb Ht]]. apply rbind_ok in Ht. destruct Ht as [tc [Htc Hc]].
      cbn [lift_raw] in Hl. apply obind_some in Hl. destruct Hl as [pa [Ha Hl]].
      apply obind_some in Hl. destruct Hl as [pb [Hb Hl]]. apply obind_some in Hl. destruct Hl as [pc [Hpc Hl]].
      inversion Hl; subst; clear Hl.
      destruct (IHm1 ta pa Hta Ha) as [H1 H2]. destruct (IHm2 tb pb Htb Hb) as [H3 _].
      destruct (IHm3 tc pc Htc Hpc) as [H5 H6]. destruct (d_and_or _ _ _ _ Hc) as [Hda Hdt]. rewrite Hdt.
      unfold all_sat, all_dsat. rewrite t_sd_andor. cbn [fst snd]. split.
      + rewrite leval_or2, leval_and2, ne_app, !ne_cross, H1, H3, H5, (H2 Hda). reflexivity.
      + intros Hd. rewrite ne_cross, (H2 Hda), (H6 Hd). reflexivity.
    - (* or_b *) inv2 Ht tx ty0 Hx Hy Hc. invl2 Hl a b Ha Hb.
      destruct (IHm1 tx a Hx Ha) as [H1 H2]. destruct (IHm2 ty0 b Hy Hb) as [H3 H4].
      destruct (d_or_b _ _ _ Hc) as [Hd1 Hd2].
      unfold all_sat, all_dsat. rewrite t_sd_or_b. cbn [fst snd]. split.
      + rewrite leval_or2, ne_app, !ne_cross, H1, H3, (H2 Hd1), (H4 Hd2).
        destruct (nonempty (sat m1)), (nonempty (sat m2)); reflexivity.
      + intros _. rewrite ne_cross, (H2 Hd1), (H4 Hd2). reflexivity.
    - (* or_d *) inv2 Ht tx ty0 Hx Hy Hc. invl2 Hl a b Ha Hb.
      destruct (IHm1 tx a Hx Ha) as [H1 H2]. destruct (IHm2 ty0 b Hy Hb) as [H3 H4].
      destruct (d_or_d _ _ _ Hc) as [Hd1 Hdt]. rewrite Hdt.
      unfold all_sat, all_dsat. rewrite t_sd_or_d. cbn [fst snd]. split.
      + rewrite leval_or2, ne_app, ne_cross, H1, H3, (H2 Hd1). reflexivity.
      + intros Hd. rewrite ne_cross, (H2 Hd1), (H4 Hd). reflexivity.
    - (* or_c *) inv2 Ht tx ty0 Hx Hy Hc. invl2 Hl a b Ha Hb.
      destruct (IHm1 tx a Hx Ha) as [H1 H2]. destruct (IHm2 ty0 b Hy Hb) as [H3 _].
      destruct (d_or_c _ _ _ Hc) as [Hd1 Hdt]. rewrite Hdt. split; [|discriminate].
      rewrite leval_or2, t_sat_or_c, ne_app, ne_cross, H1, H3, (H2 Hd1). reflexivity.
    - (* or_i *) inv2 Ht tx ty0 Hx Hy Hc. invl2 Hl a b Ha Hb.
      destruct (IHm1 tx a Hx Ha) as [H1 H2]. destruct (IHm2 ty0 b Hy Hb) as [H3 H4].
      rewrite (d_or_i _ _ _ Hc). unfold all_sat, all_dsat. rewrite t_sd_or_i. cbn [fst snd]. split.
      + rewrite leval_or2, ne_app, !ne_map_w, H1, H3. reflexivity.
      + intros Hd. rewrite ne_app, !ne_map_w. apply orb_prop in Hd. destruct Hd as [Hd|Hd].
        * rewrite (H2 Hd). reflexivity.
        * rewrite (H4 Hd). apply orb_true_r.
    - (* thresh *) cbn [type_of] in Ht. fold (tys_of xs) in Ht.
      apply rbind_ok in Ht. destruct Ht as [ts [Hts Ht]]. apply tys_of_ok in Hts.
      rewrite lift_raw_thresh in Hl. apply obind_some in Hl. destruct Hl as [ps [Hps Hl]].
      inversion Hl; subst; clear Hl. apply lifts_ok in Hps.
      destruct (thresh_children xs H ts ps Hts Hps (d_threshold _ _ _ Ht)) as [H1 H2].
      unfold all_sat, all_dsat. rewrite t_sd_thresh. cbn [fst snd]. split.
      + cbn [leval]. rewrite (ne_thresh_comb _ H2), H1. reflexivity.
      + intros _. rewrite (ne_thresh_comb _ H2). reflexivity.
    - (* multi *) inversion Hl; subst. split; [|reflexivity].
      unfold all_sat. cbn [sd fst leval]. rewrite ne_map, ne_pick_sigs, map_map. reflexivity.
    - (* sortedmulti *) inversion Hl; subst. split; [|reflexivity].
      unfold all_sat. cbn [sd fst leval]. rewrite ne_map, ne_pick_sigs, map_map.
      rewrite (count_true_perm _ _ _ (Hsort ks)). reflexivity.
    - (* multi_a *) inversion Hl; subst. split; [|reflexivity].
      unfold all_sat. cbn [sd fst leval]. rewrite ne_pick_sigs_a, map_map. reflexivity.
    - (* sortedmulti_a *) inversion Hl; subst. split; [|reflexivity].
      unfold all_sat. cbn [sd fst leval]. rewrite ne_pick_sigs_a, map_map.
      rewrite (count_true_perm _ _ _ (Hsort ks)). reflexivity.
  Qed.
End Table.
